import Tcell.Model.Modes
import Driver.Util
import Driver.Env
import Driver.Draw
/-
Line engine `modes` (C04): the model of the mode-changing API, Suspend/Resume/Fini and the draw path, rendered to the
bytes written and the canonical Tty call log.  Line format and reply are documented in harness/engines/modes.go.
-/
namespace Driver.Modes
open Tcell Driver

def parseOp (op : String) : Option MOp :=
  match words op with
  | ["ME", f] => some (.enableMouse (toNat! f))
  | ["MD"] => some .disableMouse
  | ["PE"] => some .enablePaste
  | ["PD"] => some .disablePaste
  | ["FE"] => some .enableFocus
  | ["FD"] => some .disableFocus
  | ["T", t] => some (.setTitle (unhex t))
  | ["Z"] => some .suspend
  | ["R"] => some .resume
  | ["Q"] => some .fini
  | ["B"] => some .beep
  | "RN" :: _ => none
  | _ => (Draw.parseOp op).map .scr

def showCall : TtyCall → String
  | .start => "Start" | .stop => "Stop" | .drain => "Drain" | .notifyFn => "NR1" | .notifyNil => "NR0"
  | .windowSize => "WS" | .close => "Close"

def showItem : Modes.LogItem → String
  | .call c => showCall c
  | .write b => "W:" ++ hex b

def showLog (l : List Modes.LogItem) : String := ",".intercalate (l.map showItem)

def run (env : Env) (rest : String) : String :=
  match (rest.splitOn " ") with
  | name :: tc :: alt :: w :: h :: _ =>
    let opsStr := (rest.drop (name.length + tc.length + alt.length + w.length + h.length + 5)).toString
    let ops := splitTrim opsStr ";"
    let (base, lg, fz) := Draw.splitVariants name
    match env.lookup base with
    | none => "no-entry"
    | some ti0 =>
      let tcb := tc = "1"
      let ti := Draw.prepTi ti0 tcb
      let fit := (ops.filterMap fun o => match words o with | ["FIT", t] => some (Draw.parsePairs t) | _ => none).flatten
      let fit0 := (ops.filterMap fun o => match words o with | ["FIT0", t] => some (Draw.parsePairs t) | _ => none).flatten
      let (dc, rc) := Draw.mkCfgs env ti tcb fit fit0 lg fz
      let cf : ModeCfg := { dc := dc, caps := Modes.ModeCaps.of ti rc.d, altscreen := alt = "1" }
      let emit (out : Array String) (tag : String) (evs : List Ev) : Array String :=
        let l := Modes.renderEvs rc evs
        if l.isEmpty then out else out.push (tag ++ "=" ++ showLog l)
      let (st0, evs0) := Modes.init cf (toInt! w) (toInt! h)
      let (st, out, _) := ops.foldl (fun (acc : MState × Array String × Nat) op =>
        let (st, out, i) := acc
        -- `ZN <op>` / `QN <op>`: the application's call <op> lands during the Suspend / Fini, after the loops were stopped and
        -- before the terminal is restored: for the model the history `Z ; <op>` (what the op writes, if anything, belongs to
        -- the same item of the reply).  When the screen is not running the Suspend / Fini does nothing and the call is not made.
        match words op with
        | k :: inner =>
          if (k == "ZN" || k == "QN") && !inner.isEmpty then
            let outer : MOp := if k == "ZN" then .suspend else .fini
            let (st1, evs1) := Modes.step cf st outer
            match (if st.running then parseOp (" ".intercalate inner) else none) with
            | some mop =>
              let (st2, evs2) := Modes.step cf st1 mop
              (st2, emit out (toString i) (evs1 ++ evs2), i + 1)
            | none => (st1, emit out (toString i) evs1, i + 1)
          else
            match parseOp op with
            | some mop =>
              let (st', evs) := Modes.step cf st mop
              (st', emit out (toString i) evs, i + 1)
            | none => (st, out, i + 1)
        | [] => (st, out, i + 1)) (st0, emit #[] "i" evs0, 0)
      let (_, evsz) := Modes.step cf st .fini
      " ".intercalate (emit out "z" evsz).toList
  | _ => "bad-line"

end Driver.Modes
