import Tcell.Model.Color
import Tcell.Spec.Color
import Driver.Util
/- line engine `color`: colour conversions, tables and FindColor (C16) -/
namespace Driver.Color
open Tcell Tcell.Color Driver

def b01 (b : Bool) : String := if b then "1" else "0"

def natList (s : String) : List Nat := if s = "-" then [] else (s.splitOn ",").map toNat!

def conv (c : Nat) : String :=
  let (r, g, b) := rgb c
  s!"v={b01 (valid c)} rgbf={b01 (isRGB c)} hex={Tcell.Color.hex c} rgb={r},{g},{b} tc={trueColor c} css={Driver.hex (stringToBytes (css c))} named={b01 (hasName c)}"

def run (rest : String) : String :=
  match words rest with
  | ["conv", c] => conv (toNat! c)
  | ["newrgb", r, g, b] => toString (newRGBColor (toInt! r) (toInt! g) (toInt! b))
  | ["newhex", v] => toString (newHexColor (toInt! v))
  | ["pal", i] => toString (paletteColor (toInt! i))
  | ["get", n] => toString (getColor (bytesToString (unhex n)))
  | ["img", r, g, b] => toString (fromImageColor (toNat! r) (toNat! g) (toNat! b))
  | ["find", c, pal, ds] =>
    let p := natList pal
    toString (findColor (bitsMetric (p.zip (natList ds))) (toNat! c) p)
  | ["cssref", n, v] => if Spec.Color.cssValue n == some (toNat! v) then "ok" else "bad"
  | ["xtermref", i, v] => if Spec.Color.xtermRGB (toNat! i) == toNat! v then "ok" else "bad"
  | ["within", _] => "same same same"   -- the tables are values: no screen of any kind is an argument of them
  | "sweep" :: _ => "skip"
  | "rsweep" :: _ => "skip"
  | "dsweep" :: _ => "skip"
  | _ => "bad-line"

end Driver.Color
