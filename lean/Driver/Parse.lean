import Tcell.Model.Parser
import Tcell.Model.KeySort
import Driver.Util
import Driver.Env
/-
line engines of the input-parser model (C02, C03, C11, C12):

  parse | parsechunk   <entry>[+x11fix][+keycaps][+clipfix][+sgrfix] <charset> <w> <h> <chunkhex>:<0|1> …
        charset = `utf8` | `tbl:<name>:<r80>,<r81>,…,<rff>` (runes of bytes 0x80..0xFF of a single-byte charset)
        reply: one token per Feed: `<ev>,<ev>,…/<leftover>` (`-` for no events), `!amb` appended when the model
        stopped at an order-dependent function-key match.
        events: K.<key>.<rune>.<mods>  M.<x>.<y>.<buttons>.<mods>  P.<0|1>  F.<0|1>  C.<hex>
  keyseq <entry> <kind> <expire> <hex1> <hex2>   one Feed of [ESC if kind=alt] ++ hex1 ++ hex2 (utf8, 80x24)
  keytable <entry>     reply: the key table sorted by sequence, `<hexseq>=<key>.<mods>` …
-/
namespace Driver.Parse
open Tcell Tcell.Model Driver

def showEvent : Event → String
  | .key k r m => s!"K.{k}.{r}.{m}"
  | .mouse x y b m => s!"M.{x}.{y}.{b}.{m}"
  | .paste s => if s then "P.1" else "P.0"
  | .focus f => if f then "F.1" else "F.0"
  | .clipboard d => "C." ++ hex d

def parseCharset (s : String) : Bytes → DecResult :=
  if s = "utf8" then decUtf8 else
  match s.splitOn ":" with
  | ["tbl", _, t] => decTable ((t.splitOn ",").map toInt!)
  | _ => decUtf8

def parseChunk (s : String) : Bytes × Bool :=
  match s.splitOn ":" with
  | [h, e] => (unhex h, e = "1")
  | _ => ([], false)

/-- `<entry>[+x11fix][+keycaps][+clipfix][+sgrfix]`: entry name and the variant of the known-defect sites the code under test implements -/
def parseName (s : String) : String × Variant :=
  match s.splitOn "+" with
  | n :: fl =>
    let v : Variant := { x11 := fl.contains "x11fix", keycaps := fl.contains "keycaps", clip := fl.contains "clipfix", sgr := fl.contains "sgrfix" }
    (n, v)
  | [] => (s, {})

def run (env : Env) (rest : String) : String :=
  match words rest with
  | nm :: cs :: w :: h :: chunks =>
    let (name, v) := parseName nm
    match env.lookup name with
    | none => "no-entry"
    | some ti =>
      let cfg := cfgOf v ti (parseCharset cs) (toInt! w) (toInt! h)
      let (_, _, out) := chunks.foldl (fun (acc : PState × Bytes × Array String) ch =>
        let (st, buf, out) := acc
        let (bs, exp) := parseChunk ch
        let r := collect cfg st (buf ++ bs) exp
        let evs := if r.evs.isEmpty then "-" else ",".intercalate (r.evs.map showEvent)
        (r.st, r.rest, out.push (s!"{evs}/{r.rest.length}" ++ (if r.amb then "!amb" else "")))) (({} : PState), [], #[])
      " ".intercalate out.toList
  | _ => "bad-line"

def runKeyTable (env : Env) (rest : String) : String :=
  match words rest with
  | [nm] =>
    let (name, v) := parseName nm
    match env.lookup name with
    | none => "no-entry"
    | some ti => " ".intercalate ((sortKeys (buildKeys v.keycaps ti)).map fun e => s!"{hex e.seq}={e.key}.{e.mod}")
  | _ => "bad-line"

/-- `keyseq <entry> <kind> <expire> <hex1> <hex2>`: one Feed of `[ESC if kind = alt] ++ hex1 ++ hex2` (UTF-8, 80×24) -/
def runKeySeq (env : Env) (rest : String) : String :=
  match words rest with
  | [name, kind, exp, h1, h2] =>
    if kind = "afteresc" then   -- h2 (ESC bytes) read and resolved by the escape timeout first, then the key h1
      run env s!"{name} utf8 80 24 {h2}:1 {h1}:{exp}"
    else
    let b := (if kind = "alt" then [27] else []) ++ unhex h1 ++ unhex h2
    run env s!"{name} utf8 80 24 {hex b}:{exp}"
  | _ => "bad-line"

end Driver.Parse
