import Driver.Util
import Driver.Env
namespace Driver.Pipe

def run (_env : Env) (_rest : String) : String := "ok"
def runTrace (_env : Env) (_rest : String) : String := "ok"

end Driver.Pipe
