import Tcell.Model.Parser
import Tcell.Model.Pipeline
import Tcell.Model.PipelineReal
import Driver.Util
import Driver.Env
import Driver.Parse
/-
Engine "pipe" (C05, C06), model side.

  pipe <scenario>            reply `ok` (the scenario is executed by the implementation only; see harness/engines/pipe.go)
  pipetrace variant=pinned|stopq <token> …
        trace inclusion: the sequence of schedule points the real screen went through under the serialising controller
        (harness/sched) is replayed on `Tcell.Model.Pipeline` instantiated with the real parser model
        (`Tcell.Model.collect`, xterm-256color, UTF-8, 80x24).  A token `<goroutine>.<point>[:v1,v2,…]` is either an
        assertion about the model state (the channel lengths the code reported, the program counter of the goroutine)
        or a labelled step that must be enabled.  Reply `ok`, or `mismatch step=<k> token=<tok> <reason>`.
        A final token `DEADLOCK` (the controller found no goroutine able to move while Fini/Suspend had not returned)
        additionally requires that no internal label of the model is enabled.
-/
namespace Driver.Pipe
open Tcell Tcell.Model Tcell.Model.Pipeline Driver

abbrev St := State Event PState

/-- the instance the theorems of `Tcell.Props.C05Real` / `C06Real` are about (`Tcell.Model.Pipeline.realParser`) -/
def parserOf (cfg : Tcell.Model.Cfg) : Parser Event PState := realParser cfg

structure Ctx where
  P : Parser Event PState
  c : Pipeline.Cfg

def internalLabels : List Label :=
  [.inStop, .inToRead, .inReadErr, .inReadChunk, .inReadEmpty, .inErr, .inErrSent, .inErrQuit, .inErrStop, .inSent,
   .inSendStop, .inExit, .mainStop, .mainQuit, .mainResize, .mainResizeEnd, .mainTimer, .timerScan, .timerEnd,
   .mainChunk, .scanSent, .scanQuit, .scanStop, .chunkEnd, .mainExit, .finClosed, .disIdle, .disStopped, .disJoined,
   .callRet]

def pendingLen (s : St) : Option Nat :=
  match s.mainPc with
  | .scan p _ => some p.length
  | _ => none

def ck (b : Bool) (msg : String) (s : St) : Except String St := if b then .ok s else .error msg

def doStep (x : Ctx) (s : St) (l : Label) (name : String) : Except String St :=
  match step x.P x.c s l with
  | some s' => .ok s'
  | none => .error s!"label {name} is not enabled in the model"

def nth (v : List Nat) (i : Nat) : Nat := v.getD i 0

/-- one trace token -/
def apply (x : Ctx) (s : St) (point : String) (arg : String) : Except String St :=
  let v : List Nat := if arg.isEmpty then [] else (arg.splitOn ",").map toNat!
  let eqLen := s.eventQ.length
  let kcLen := s.keychan.length
  match point with
  -- test / environment tokens without effect on the model
  | "init" | "resume" | "size" | "show" | "sync" => .ok s
  | "inject" => doStep x s (.inject (unhex arg)) "inject"
  | "readerr" => doStep x s .setFault "setFault"
  | "userquit" => doStep x s .closeUserQuit "closeUserQuit"   -- the application closes the quit channel it gave to ChannelEvents
  | "notify" => do
      let s ← ck (nth v 0 == s.resizeQ) s!"len(resizeQ) reported {nth v 0}, model {s.resizeQ}" s
      doStep x s .notify "notify"
  -- inputLoop
  | "in-top" => ck (s.inPc == .top) s!"inputLoop not at the top of its loop in the model" s
  | "in-stop" => doStep x s .inStop "inStop"
  | "tty-read" => doStep x s .inToRead "inToRead"
  | "in-read" =>
      if nth v 1 == 1 then doStep x s .inReadErr "inReadErr"
      else if nth v 0 > 0 then do
        let s ← ck ((s.unread.headD []).length == nth v 0) s!"Read returned {nth v 0} bytes, the model's next chunk has {(s.unread.headD []).length}" s
        doStep x s .inReadChunk "inReadChunk"
      else doStep x s .inReadEmpty "inReadEmpty"
  | "in-err" => do
      let s ← ck (eqLen == nth v 1) s!"len(eventQ) reported {nth v 1}, model {eqLen}" s
      let s ← ck (s.running == (nth v 0 == 1)) s!"running reported {nth v 0}, model {s.running}" s
      doStep x s .inErr "inErr"
  | "in-err-sent" => do
      let s ← doStep x s .inErrSent "inErrSent"
      ck (s.eventQ.length == nth v 0) s!"len(eventQ) after the send reported {nth v 0}, model {s.eventQ.length}" s
  | "in-err-quit" => doStep x s .inErrQuit "inErrQuit"
  | "in-err-stop" => doStep x s .inErrStop "inErrStop"
  | "in-send" => do
      let s ← ck (kcLen == nth v 0 && x.c.kcCap == nth v 1) s!"keychan reported {nth v 0}/{nth v 1}, model {kcLen}/{x.c.kcCap}" s
      match s.inPc with
      | .hold ch => ck (ch.length == nth v 2) "chunk length differs" s
      | _ => .error "inputLoop holds no chunk in the model"
  | "in-sent" => do
      let s ← doStep x s .inSent "inSent"
      ck (s.keychan.length == nth v 0) s!"len(keychan) after the send reported {nth v 0}, model {s.keychan.length}" s
  | "in-send-stop" => doStep x s .inSendStop "inSendStop"
  | "in-exit" => doStep x s .inExit "inExit"
  -- mainLoop
  | "main-select" => do
      let s ← ck s.mainPc.isSel "mainLoop not at its select in the model" s
      let s ← ck (kcLen == nth v 0 && x.c.kcCap == nth v 1) s!"keychan reported {nth v 0}/{nth v 1}, model {kcLen}/{x.c.kcCap}" s
      let s ← ck (s.resizeQ == nth v 2) s!"len(resizeQ) reported {nth v 2}, model {s.resizeQ}" s
      ck (s.buf.length == nth v 3) s!"buf.Len() reported {nth v 3}, model {s.buf.length}" s
  | "main-stop" => doStep x s .mainStop "mainStop"
  | "main-quit" => doStep x s .mainQuit "mainQuit"
  | "main-exit" => doStep x s .mainExit "mainExit"
  | "main-resize" => do
      let s ← doStep x s .mainResize "mainResize"
      ck (s.resizeQ == nth v 0) s!"len(resizeQ) reported {nth v 0}, model {s.resizeQ}" s
  | "main-resize-end" => doStep x s .mainResizeEnd "mainResizeEnd"
  | "main-timer" => do
      let s ← ck (s.buf.length == nth v 0) s!"buf.Len() reported {nth v 0}, model {s.buf.length}" s
      doStep x s .mainTimer "mainTimer"
  | "main-timer-end" => do
      let s ← doStep x s .timerEnd "timerEnd"
      ck (s.buf.length == nth v 0) s!"buf.Len() reported {nth v 0}, model {s.buf.length}" s
  | "main-chunk" => do
      let s ← ck ((s.keychan.headD []).length == nth v 0) s!"chunk of {nth v 0} bytes received, the model's keychan head has {(s.keychan.headD []).length}" s
      let s ← doStep x s .mainChunk "mainChunk"
      ck (s.keychan.length == nth v 1) s!"len(keychan) reported {nth v 1}, model {s.keychan.length}" s
  | "scan-evs" => do
      let s ← if nth v 2 == 1 then doStep x s .timerScan "timerScan" else .ok s
      let s ← ck (pendingLen s == some (nth v 0)) s!"collectEventsFromInput returned {nth v 0} events, the parser model {pendingLen s}" s
      ck (s.buf.length == nth v 1) s!"{nth v 1} bytes left in buf, the parser model leaves {s.buf.length}" s
  | "scan-send" => do
      let s ← ck (eqLen == nth v 0 && x.c.eqCap == nth v 1) s!"eventQ reported {nth v 0}/{nth v 1}, model {eqLen}/{x.c.eqCap}" s
      ck ((pendingLen s).getD 0 > 0) "no pending event in the model" s
  | "scan-sent" => do
      let s ← doStep x s .scanSent "scanSent"
      ck (s.eventQ.length == nth v 0) s!"len(eventQ) after the send reported {nth v 0}, model {s.eventQ.length}" s
  | "scan-quit" => doStep x s .scanQuit "scanQuit"
  | "scan-stop" => doStep x s .scanStop "scanStop"
  | "main-chunk-end" => do
      let s ← doStep x s .chunkEnd "chunkEnd"
      ck (s.buf.length == nth v 0) s!"buf.Len() reported {nth v 0}, model {s.buf.length}" s
  -- resize()
  | "resize-post" => ck (eqLen == nth v 0) s!"len(eventQ) reported {nth v 0}, model {eqLen}" s
  | "resize-sent" => doStep x s .resizeSent "resizeSent"
  | "resize-drop" => doStep x s .resizeDrop "resizeDrop"
  -- events API
  | "poll" | "pending" | "post" | "postw" | "ce-select" => do
      let s ← ck (eqLen == nth v 0 && x.c.eqCap == nth v 1) s!"eventQ reported {nth v 0}/{nth v 1}, model {eqLen}/{x.c.eqCap}" s
      if point == "ce-select" && s.cePc.isIdle then doStep x s .ceStart "ceStart" else .ok s
  | "poll-ev" => do
      let s ← doStep x s .pollEv "pollEv"
      ck (s.eventQ.length == nth v 0) s!"len(eventQ) after the receive reported {nth v 0}, model {s.eventQ.length}" s
  | "poll-stop" => doStep x s .pollNil "pollNil"
  | "post-sent" => do
      let s ← ck (postOk x.c s) "PostEvent enqueued although the model's queue is full" s
      let s ← doStep x s .post "post"
      ck (s.eventQ.length == nth v 0) s!"len(eventQ) after the send reported {nth v 0}, model {s.eventQ.length}" s
  | "post-full" => do
      let s ← ck (!postOk x.c s) "PostEvent reported a full queue although the model's queue has room" s
      doStep x s .post "post"
  | "postw-sent" => doStep x s .postWaitSent "postWaitSent"
  | "postw-stop" => doStep x s .postWaitStop "postWaitStop"
  | "ce-ev" => doStep x s .ceEv "ceEv"
  | "ce-quit" => doStep x s .ceQuit "ceQuit"
  | "ce-stop" => doStep x s .ceStop "ceStop"
  | "ce-fwd" => ck (s.ch.length == nth v 0 && x.c.chCap == nth v 1) s!"ch reported {nth v 0}/{nth v 1}, model {s.ch.length}/{x.c.chCap}" s
  | "ce-fwd-sent" => doStep x s .ceFwdSent "ceFwdSent"
  | "ce-fwd-quit" => doStep x s .ceFwdQuit "ceFwdQuit"
  | "ce-fwd-stop" => doStep x s .ceFwdStop "ceFwdStop"
  | "ce-close" => doStep x s .ceClose "ceClose"
  | "recv" => doStep x s .recv "recv"
  | "recv-closed" => ck (s.chClosed && s.ch.isEmpty) "the reader saw a closed channel, the model's is open or non-empty" s
  -- life cycle
  | "eng-spawn" => do
      let s ← ck (!s.running) "engage although the model's screen is running" s
      doStep x s .callResume "engage"
  | "fini-call" => doStep x s .callFini "callFini"
  | "fin-enter" => ck (s.callPc == .finStart) "caller not inside finish() in the model" s
  | "fin-closed" => doStep x s .finClosed "finClosed"
  | "suspend-call" => doStep x s .callSuspend "callSuspend"
  | "dis-enter" => ck (s.callPc == .dis true || s.callPc == .dis false) "caller not at disengage() in the model" s
  | "dis-idle" => doStep x s .disIdle "disIdle"
  | "dis-stopped" => doStep x s .disStopped "disStopped"
  | "dis-wait" => ck (s.callPc == .wait true || s.callPc == .wait false) "caller not at wg.Wait() in the model" s
  | "dis-joined" => doStep x s .disJoined "disJoined"
  | "dis-done" => ck (s.callPc == .ret true || s.callPc == .ret false) "caller not past wg.Wait() in the model" s
  | "fini-ret" | "suspend-ret" => doStep x s .callRet "callRet"
  | "DEADLOCK" =>
      match internalLabels.filter (fun l => enabled x.P x.c s l) with
      | [] => ck (shutdownInProgress s) "the controller reported a deadlock inside a shutdown call, the model has none in progress" s
      | l :: _ => .error s!"the controller found no goroutine able to move, but the model has an enabled internal step ({repr l})"
  | _ => .error "unknown point"

def splitTok (t : String) : String × String :=
  -- "<g>.<point>[:args]"
  let body := match t.splitOn "." with
    | _ :: rest => ".".intercalate rest
    | [] => t
  let body := if t == "DEADLOCK" then t else body
  match body.splitOn ":" with
  | [p] => (p, "")
  | p :: a :: _ => (p, a)
  | [] => (body, "")

def chCapOf (toks : List String) : Nat :=
  match toks.find? (fun t => (splitTok t).1 == "ce-fwd") with
  | some t => ((splitTok t).2.splitOn ",").getD 1 "1" |> toNat!
  | none => 1

def replay (x : Ctx) : St → Nat → List String → String
  | _, _, [] => "ok"
  | s, k, t :: ts =>
    let (p, a) := splitTok t
    match apply x s p a with
    | .ok s' => replay x s' (k + 1) ts
    | .error e => s!"mismatch step={k} token={t} {e}"

def runTrace (env : Env) (rest : String) : String :=
  match words rest with
  | var :: toks =>
    match env.lookup "xterm-256color" with
    | none => "no-entry"
    | some ti =>
      -- `variant=pinned|stopq[+x11fix][+keycaps][+clipfix][+sgrfix]`: shutdown variant, then the parser's known-defect sites
      let (shut, pv) := Parse.parseName var
      let pcfg := cfgOf pv ti decUtf8 80 24
      let x : Ctx := { P := parserOf pcfg, c := { eqCap := 10, kcCap := 10, chCap := chCapOf toks, fixed := shut == "variant=stopq" } }
      replay x (Pipeline.init ({} : PState)) 0 toks
  | [] => "bad-line"

def run (_env : Env) (rest : String) : String :=
  if (words rest).any (fun t => t.startsWith "feed=") then "ok" else "bad-line"

end Driver.Pipe
