import Tcell.Model.CellOps
import Driver.Util
/- line engine `cb`: CellBuffer histories (C08) -/
namespace Driver.Cb
open Tcell Driver

def parseStyle (s : String) : Style :=
  match s.splitOn "," with
  | [fg, bg, att, us, uc, url, uid] =>
    { fg := toNat! fg, bg := toNat! bg, attrs := toNat! att, ulStyle := toNat! us, ulColor := toNat! uc,
      url := bytesToString (unhex url), urlId := bytesToString (unhex uid) }
  | _ => {}

def showStyle (s : Style) : String :=
  s!"{s.fg},{s.bg},{s.attrs},{s.ulStyle},{s.ulColor},{hex (stringToBytes s.url)},{hex (stringToBytes s.urlId)}"

def showGet (g : Rune × List Rune × Style × Int) : String :=
  s!"{g.1}/{showIntList g.2.1}/{showStyle g.2.2.1}/{g.2.2.2}"

def dump (b : Buf) : String :=
  let w := b.w.toNat
  let h := b.h.toNat
  let cellsStr := (List.range h).flatMap fun (y : Nat) => (List.range w).map fun (x : Nat) =>
    showGet (b.getContent (x : Int) (y : Int)) ++ (if b.dirty (x : Int) (y : Int) then "!" else ".")
  s!"{b.w}x{b.h}:" ++ " ".intercalate cellsStr

/-- combining-list token of an `S` op: `-` (the caller passed a nil slice) and `=` (an empty slice that is not nil, e.g.
    Screen.SetCell's `ch[1:]`) are the same empty list of runes -/
def combList (s : String) : List Int := if s = "=" then [] else intList s

/-- one op; returns new buffer and an optional observation -/
def stepOp (rw : Rune → Int) (b : Buf) (op : String) (fz : Bool := false) : Buf × Option String :=
  match words op with
  | ["S", x, y, m, c, st] => (b.setContent rw (toInt! x) (toInt! y) (toInt! m) (combList c) (parseStyle st), none)
  | ["F", r, st] => (b.fillV fz rw (toInt! r) (parseStyle st), none)
  | ["V", "fz"] => (b, none)
  | ["R", w, h] => (b.resize (toInt! w) (toInt! h), none)
  | ["I"] => (b.invalidate, none)
  | ["D", x, y, d] => (b.setDirty (toInt! x) (toInt! y) (d = "1"), none)
  | ["L", x, y] => (b.lockCell (toInt! x) (toInt! y), none)
  | ["U", x, y] => (b.unlockCell (toInt! x) (toInt! y), none)
  | ["G", x, y] => (b, some ("g:" ++ showGet (b.getContent (toInt! x) (toInt! y))))
  | ["Q", x, y] => (b, some (if b.dirty (toInt! x) (toInt! y) then "q:1" else "q:0"))
  | ["Z"] => (b, some s!"z:{b.size.1},{b.size.2}")
  | _ => (b, some "bad-op")

def run (rw : Rune → Int) (rest : String) : String :=
  let ops := splitTrim rest ";"
  -- pseudo-op `V fz` = the tree under test has the Fill repair (probed by the harness, `fillZWSuffix` in engines/cb.go)
  let fz := ops.any (fun o => words o == ["V", "fz"])
  let (b, obs) := ops.foldl (fun (acc : Buf × Array String) op =>
    let (b', o) := stepOp rw acc.1 op fz
    (b', match o with | some s => acc.2.push s | none => acc.2)) (Buf.empty, #[])
  " ".intercalate obs.toList ++ " H " ++ dump b

end Driver.Cb
