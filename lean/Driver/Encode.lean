import Tcell.Model.Encode
import Tcell.Gen.Acs
import Driver.Util
import Driver.Env
/- line engines `enc` (C17: payload of one cell on a terminfo screen, CanDisplay, fallback registration histories)
   and `acs` (C17: buildAcsMap of one database entry). -/
namespace Driver.Encode
open Tcell Driver

structure AcsTables where
  names : List (Nat × Rune) := []
  fallbacks : RuneMap := []

/-- the tables regenerated from the current tree, linked into the driver (rebuilt by `./check` after the translator ran) -/
def tables : AcsTables := { names := Tcell.Gen.vtACSNames, fallbacks := Tcell.Gen.runeFallbacks }

/-- `hex` or `hex!` (error reported) -/
def parseEnc (s : String) : EncResult :=
  if s.endsWith "!" then { out := unhex (s.dropEnd 1).toString, err := true } else { out := unhex s, err := false }

def parseEncList (s : String) : List EncResult := if s = "-" then [] else (s.splitOn ",").map parseEnc

/-- encoder given as a finite table; a rune that is not listed is reported as unencodable with an error -/
def tableEnc (tbl : List (Rune × EncResult)) : Encoder := fun r =>
  match tbl.find? (fun p => p.1 == r) with
  | some (_, e) => e
  | none => { out := [], err := true }

def parseVariant (s : String) : EncVariant :=
  match s.toList with
  | [a, b] => { acsAll := a == 'r', acsRawByte := b == 'r' }
  | [a, b, c] => { acsAll := a == 'r', acsRawByte := b == 'r', acsStrip := c == 's' }
  | _ => {}

def showMap (m : RuneMap) : String :=
  -- Go map semantics: first binding of the association list wins; print sorted by rune
  let keys := (m.map (·.1)).eraseDups
  let arr := keys.toArray.qsort (· < ·)
  let items := arr.toList.map fun k => s!"{k}={hex ((m.get? k).getD [])}"
  if items.isEmpty then "-" else ",".intercalate items

/-- `syn:<acsc hex>:<smacs hex>:<rmacs hex>`: a synthetic description that has nothing but these three strings -/
def synEntry (name : String) : Option Terminfo :=
  match name.splitOn ":" with
  | ["syn", a, s, r] => some { (default : Terminfo) with name := "syn", altChars := unhex a, enterAcs := unhex s, exitAcs := unhex r }
  | _ => none

def runAcs (env : Env) (rest : String) : String :=
  match words rest with
  | [v, name] =>
    match (if name.startsWith "syn:" then synEntry name else env.lookup name) with
    | some ti => showMap (buildAcsMap (parseVariant v) tables.names ti)
    | none => if name.startsWith "syn:" then "bad-case" else "no-entry"
  | _ => "bad-case"

structure St where
  es : EncState
  /-- the other screen of the case (op `X`): same entry, charset and width, its own fallback registrations -/
  other : EncState
  tw : Int

def b01 (b : Bool) : String := if b then "1" else "0"

def stepOp (env : Env) (st : St) (op : String) : St × Option String :=
  match words op with
  | ["D", x, m, c, e] =>
    let main := toInt! m
    let comb := intList c
    let encs := parseEncList e
    let width := if env.rw main = 0 ∨ main < 32 then 1 else env.rw main
    let main' := if env.rw main = 0 ∨ main < 32 then 32 else main
    -- the cell content is what GetContent reports (cell.go:87): a zero-width or control main rune reads as a blank;
    -- the encoder result listed first is the one of the rune actually drawn (the harness lists it for `main'`)
    let es := { st.es with enc := tableEnc ((main' :: comb).zip encs) }
    let p := es.cellPayload st.tw (toInt! x) main' comb width
    (st, some s!"d:{hex p.str}")
  | ["B", x, r0, step, n, e] =>
    let encs := parseEncList e
    let rs := (List.range (toNat! n)).map fun (i : Nat) => toInt! r0 + (i : Int) * toInt! step
    let outs := (rs.zip encs).map fun (r, er) =>
      let es := { st.es with enc := fun _ => er }
      let w := env.rw r
      if w = 0 ∨ r < 32 then "z"
      else
        let p := es.cellPayload st.tw (toInt! x) r [] w
        s!"{hex p.str}/{b01 (es.canDisplay r false)}{b01 (es.canDisplay r true)}"
    (st, some ("b:" ++ ",".intercalate outs))
  | ["C", r, f, e] =>
    let es := { st.es with enc := fun _ => parseEnc e }
    (st, some ("c:" ++ b01 (es.canDisplay (toInt! r) (f = "1"))))
  | ["R", r, s] => ({ st with es := st.es.registerFallback (toInt! r) (unhex s) }, none)
  | ["U", r] => ({ st with es := st.es.unregisterFallback (toInt! r) }, none)
  -- the same calls made before Init (the fallback table is a field of the screen from its construction on)
  | ["PR", r, s] => ({ st with es := st.es.registerFallback (toInt! r) (unhex s) }, none)
  | ["PU", r] => ({ st with es := st.es.unregisterFallback (toInt! r) }, none)
  | ["X"] => ({ st with es := st.other, other := st.es }, none)
  | _ => (st, some "bad-op")

def runEnc (env : Env) (rest : String) : String :=
  match splitTrim rest ";" with
  | cfg :: ops =>
    match words cfg with
    | ["cfg", v, entry, _charset, tw] =>
      match env.lookup entry with
      | none => "no-entry"
      | some ti =>
        let es : EncState := { enc := fun _ => {}, acs := buildAcsMap (parseVariant v) tables.names ti, fallback := tables.fallbacks }
        let (_, obs) := ops.foldl (fun (acc : St × Array String) op =>
          let (s', o) := stepOp env acc.1 op
          (s', match o with | some s => acc.2.push s | none => acc.2)) (({ es := es, other := es, tw := toInt! tw } : St), #[])
        " ".intercalate obs.toList
    | _ => "bad-case"
  | [] => "bad-case"

end Driver.Encode
