import Tcell.Model.Screen
import Tcell.Model.Engage
import Tcell.Base.Utf8
import Driver.Util
import Driver.Env
import Driver.Cb
/-
Line engine `draw` (C01/C13/C09/C04): the model of the terminfo screen's draw path and of engage/disengage,
rendered to bytes.  Line format and reply are documented in harness/engines/draw.go.
Two extra pseudo-ops carry the values of the external colour-fitting function for this case:
`FIT c:v,c:v,…` (FindColor against the screen palette) and `FIT0 c:v,…` (against {black, white}).
-/
namespace Driver.Draw
open Tcell Driver

def parsePairs (s : String) : List (Nat × Nat) :=
  if s = "-" then [] else
  (s.splitOn ",").filterMap fun kv => match kv.splitOn ":" with
    | [k, v] => some (toNat! k, toNat! v)
    | _ => none

def lookupFit (tbl : List (Nat × Nat)) (c : Nat) : Nat := (tbl.lookup c).getD 0

/-- the description as the harness prepares it: no padding character, standard RGB strings when direct colour is asked for -/
def prepTi (ti : Terminfo) (tc : Bool) : Terminfo :=
  let ti := { ti with padChar := [] }
  if tc ∧ ti.setFgBgRGB.isEmpty ∧ ti.setFgRGB.isEmpty ∧ ti.setBgRGB.isEmpty then
    { ti with setFgRGB := esc "[38;2;%p1%d;%p2%d;%p3%dm", setBgRGB := esc "[48;2;%p1%d;%p2%d;%p3%dm",
              setFgBgRGB := esc "[38;2;%p1%d;%p2%d;%p3%d;48;2;%p4%d;%p5%d;%p6%dm" }
  else ti

def utf8Payload (m : Rune) (comb : List Rune) : List Nat := Utf8.encode m ++ comb.flatMap Utf8.encode

/-- `<entry>+lg` on a case line = the tree under test has the locked-neighbour repair (probed by the harness, see
    `lockGuardSuffix` in harness/engines/draw.go); without the suffix the pinned drawCell / LockRegion are modelled -/
def splitVariant (name : String) : String × (Bool × Bool) :=
  if name.endsWith "+lg" then (name.dropRight 3, (true, false))
  else if name.endsWith "+lw" then (name.dropRight 3, (true, true))   -- guard + fixes/C13-locked-wide-walk.patch
  else (name, (false, false))

/-- `<entry>[+lg|+lw][+fz][@charset]`: `+fz` = the tree under test has the Fill repair (fixes/C09-fill-zero-width.patch, probed by
    `fillZWSuffix` in harness/engines/cb.go) → `DrawCfg.fillZW` -/
def splitVariants (name0 : String) : String × (Bool × Bool) × Bool :=
  let name := (name0.splitOn "@").headD name0   -- `entry+flags@charset`: the flags precede the charset
  let (n1, fz) := if name.endsWith "+fz" then (name.dropRight 3, true) else (name, false)
  let (n2, lgw) := splitVariant n1
  (n2, lgw, fz)

def mkCfgs (env : Env) (ti : Terminfo) (tc : Bool) (fit fit0 : List (Nat × Nat)) (lgw : Bool × Bool := (false, false)) (fz : Bool := false) : DrawCfg × RenderCfg :=
  let lg := lgw.1
  let d := derive ti
  let dc : DrawCfg := { rw := env.rw, payload := utf8Payload, hasHide := !ti.hideCursor.isEmpty,
                        hasCursorStyle := fun cs => match d.cursorStyles with | some l => cs < l.length | none => false,
                        hasCursorRGB := !d.cursorRGB.isEmpty,
                        cornerTrick := ti.autoMargin && ti.disableAutoMargin.isEmpty && !ti.insertChar.isEmpty,
                        guardLocked := lg, walkGuard := lgw.2, fillZW := fz }
  let rc : RenderCfg := { ti := ti, d := d,
                          truecolor := tc && !(ti.setFgBgRGB.isEmpty && ti.setFgRGB.isEmpty && ti.setBgRGB.isEmpty),
                          fit := lookupFit fit, fit0 := lookupFit fit0 }
  (dc, rc)

def parseOp (op : String) : Option ScrOp :=
  match words op with
  | ["S", x, y, m, c, st] => some (.setContent (toInt! x) (toInt! y) (toInt! m) (Cb.combList c) (Cb.parseStyle st))
  -- `SC x y style r [r…]` = Screen.SetCell (screen.go:385): SetContent of the first rune with the others as combining list
  | "SC" :: x :: y :: st :: m :: comb => some (.setContent (toInt! x) (toInt! y) (toInt! m) (comb.map toInt!) (Cb.parseStyle st))
  | ["F", r, st] => some (.fill (toInt! r) (Cb.parseStyle st))
  | ["Y", st] => some (.setStyle (Cb.parseStyle st))
  | ["C", x, y] => some (.showCursor (toInt! x) (toInt! y))
  | ["K", cs, cc] => some (.setCursorStyle (toNat! cs) (toNat! cc))
  | ["L", x, y, w, h, l] => some (.lockRegion (toInt! x) (toInt! y) (toInt! w) (toInt! h) (l = "1"))
  | ["W"] => some .show
  | ["N"] => some .sync
  | ["RQ", w, h] => some (.ttyResizeQuiet (toInt! w) (toInt! h))
  | ["RN", w, h] => some (.ttyResizeNotify (toInt! w) (toInt! h))
  | ["X"] => some .corrupt
  | _ => none

def run (env : Env) (rest : String) : String :=
  match (rest.splitOn " ") with
  | name :: tc :: w :: h :: _ =>
    let opsStr := (rest.drop (name.length + tc.length + w.length + h.length + 4)).toString
    let ops := splitTrim opsStr ";"
    let (base, lg, fz) := splitVariants name
    match env.lookup base with
    | none => "no-entry"
    | some ti0 =>
      let tcb := tc = "1"
      let ti := prepTi ti0 tcb
      let fit := (ops.filterMap fun o => match words o with | ["FIT", t] => some (parsePairs t) | _ => none).flatten
      let fit0 := (ops.filterMap fun o => match words o with | ["FIT0", t] => some (parsePairs t) | _ => none).flatten
      let (dc, rc) := mkCfgs env ti tcb fit fit0 lg fz
      let initB := Engage.engageBytes rc {} true
      let out0 : Array String := if initB.isEmpty then #[] else #["i:" ++ hex initB]
      let (wd, out, _) := ops.foldl (fun (acc : ScrW × Array String × Nat) op =>
        let (wd, out, i) := acc
        match parseOp op with
        | some sop =>
          let (wd', cmds) := wd.step dc sop
          let bs := Render.renderAll rc cmds
          (wd', if bs.isEmpty then out else out.push (toString i ++ ":" ++ hex bs), i + 1)
        | none => (wd, out, i + 1)) (ScrW.init (toInt! w) (toInt! h), out0, 0)
      let finB := Engage.disengageBytes rc wd.s.cursorShaped wd.s.cursorTinted true
      let out := if finB.isEmpty then out else out.push ("z:" ++ hex finB)
      " ".intercalate out.toList
  | _ => "bad-line"

end Driver.Draw
