import Tcell.Model.WScreen
import Tcell.Model.WLock
import Tcell.Gen.WebKeys
import Tcell.Gen.WColorValues
import Tcell.Gen.WLockFacts
import Driver.Util
import Driver.Cb
/- line engine `wasm` (C19): draw histories, callback histories and lifecycle orders on the wScreen model.
   The tables (key names, palette, ColorValues, lock skeletons) are the regenerated `Tcell.Gen` modules, linked in. -/
namespace Driver.Wasm
open Tcell Tcell.WScreen Driver

def pal : Pal := { palette := Gen.wPalette, values := Gen.wColorValues }

def hexDigits (n : Nat) : String := String.ofList ((Nat.toDigits 16 n))

/-- Go `fmt.Sprintf("#%06x", v)` for an int32 -/
def hex6 (v : Int) : String :=
  let pad (s : String) (n : Nat) : String := String.ofList (List.replicate (n - s.length) '0') ++ s
  if v < 0 then "#-" ++ pad (hexDigits (-v).toNat) 5 else "#" ++ pad (hexDigits v.toNat) 6

def showCall : JsCall → String
  | .drawCell x y c => s!"D:{x},{y},{"+".intercalate (c.text.map toString)},{c.fg},{c.bg},{c.attrs},{c.us},{c.uc}"
  | .clearScreen fg bg => s!"C:{fg},{bg}"
  | .present => "S"
  | .resize w h => s!"R:{w},{h}"
  | .showCursor x y => s!"K:{x},{y}"
  | .setCursorStyle cls col => s!"Y:{cls},{hex6 col}"
  | .beep => "B"
  | .setTitle t => "T:" ++ Driver.hex t

/-- wscreen.go:168 `SetCursor` behind screen.go:489 `SetCursorStyle` -/
def setCursor (cs : Nat) (cc : Option Nat) : JsCall :=
  let c := cc.getD Tcell.colorNone
  let c := if valid c then c else colorLightGray
  .setCursorStyle ((Gen.wCursorClasses.lookup cs).getD "") (WScreen.hex pal c)

def drawOp (rw : Rune → Int) (s : WS) (op : String) (fz : Bool := false) : WS × List JsCall × Bool :=
  match words op with
  | ["variant", _] => (s, [], true)   -- `variant fz`: model variant marker (harness/engines/wasm.go), read by `runDraw`
  | ["size", w, h] => let r := setSize s (toInt! w) (toInt! h); (r.1, r.2, true)
  | ["sc", x, y, m, c, st] => (setContent rw s (toInt! x) (toInt! y) (toInt! m) (intList c) (Cb.parseStyle st), [], true)
  | ["fill", r, st] => (fillV fz rw s (toInt! r) (Cb.parseStyle st), [], true)
  | ["clear"] => (fill s 32 {}, [], true)
  | ["ss", st] => ({ s with style := Cb.parseStyle st }, [], true)
  | ["show"] => let r := WScreen.show pal s; (r.1, r.2, true)
  | ["sync"] => let r := sync pal s; (r.1, r.2, true)
  | ["lock", x, y, w, h, on] => (lockRegion s (toInt! x) (toInt! y) (toInt! w) (toInt! h) (on = "1"), [], true)
  | ["cur", x, y] => (s, [.showCursor (toInt! x) (toInt! y)], true)
  | ["hide"] => (s, [.showCursor (-1) (-1)], true)
  | ["cs", n, c] => (s, [setCursor (toNat! n) (if c = "-" then none else some (toNat! c))], true)
  | ["beep"] => (s, [.beep], true)
  | ["title", t] => (s, [.setTitle (unhex t)], true)
  | _ => (s, [], false)

def runDraw (rw : Rune → Int) (rest : String) : String :=
  let ops := splitTrim rest ";"
  let fz := ops.any (fun o => words o == ["variant", "fz"])
  let (s, toks) := ops.foldl (fun (acc : WS × Array String) op =>
    let (s', cs, ok) := drawOp rw acc.1 op fz
    (s', if ok then cs.foldl (fun a c => a.push (showCall c)) acc.2 else acc.2.push "bad-op")) (WS.init, #[])
  " ".intercalate (toks.toList ++ [s!"| {s.w} {s.h}"])

/-! lock behaviour of an API call: the regenerated skeleton run under the conditions the model knows -/

def callM (name : String) (held running : Bool) (sameSize : Bool := false) : Option (Bool × Bool) :=
  WLock.callM Gen.wLockFacts name held running sameSize

structure EvSt where
  held : Bool := false
  running : Bool := true
  flags : Nat := 0
  paste : Bool := false
  hKey : Handler := .active
  hClick : Handler := .unset
  hMove : Handler := .unset
  hPaste : Handler := .undefined
  hFocus : Handler := .unset
  w : Int := 80
  h : Int := 24

def showEv : Ev → String
  | .key k r m => s!"k:{k}:{r}:{m}"
  | .mouse x y b m => s!"m:{x}:{y}:{b}:{m}"
  | .paste b => s!"p:{if b then 1 else 0}"
  | .focus b => s!"f:{if b then 1 else 0}"
  | .resize w h => s!"r:{w}:{h}"

def fireTok (h : Handler) (ev : Option Ev) : String :=
  match h with
  | .undefined => "[undef]"
  | .unset => "[]"
  | .active => match ev with
    | some e => "[" ++ showEv e ++ "]"
    | none => "[]"

/-- one op of an `ev` history: new state and token (`none` token = nothing to report); `none` result = deadlock -/
def evOp (st : EvSt) (op : String) : Option (EvSt × Option String) :=
  let locked (name : String) (f : EvSt → EvSt) (tok : Option String := none) : Option (EvSt × Option String) :=
    (callM name st.held st.running).map fun (h, r) => ({ f st with held := h, running := r }, tok)
  match words op with
  | ["em", f] =>
    let fl := if f = "-" then 7 else toNat! f
    locked "EnableMouse" fun s => { s with flags := fl, hClick := (mouseHandlers fl).1, hMove := (mouseHandlers fl).2 }
  | ["dm"] => locked "DisableMouse" fun s => { s with flags := 0, hClick := .unset, hMove := .unset }
  | ["ep"] => locked "EnablePaste" fun s => { s with paste := true, hPaste := .active }
  | ["dp"] => locked "DisablePaste" fun s => { s with paste := false, hPaste := .unset }
  | ["ef"] => locked "EnableFocus" fun s => { s with hFocus := .active }
  | ["df"] => locked "DisableFocus" fun s => { s with hFocus := .unset }
  | ["suspend"] =>
    locked "Suspend" (fun s => if st.running then { s with hClick := .unset, hMove := .unset, hPaste := .unset, hKey := .unset } else s) (some "ok")
  | ["resume"] =>
    locked "Resume" (fun s => if st.running then s else
      { s with hClick := (mouseHandlers s.flags).1, hMove := (mouseHandlers s.flags).2,
               hPaste := if s.paste then .active else .unset, hKey := .active }) (some (if st.running then "err" else "ok"))
  | ["key", n, sh, al, ct, me] =>
    some (st, some (fireTok st.hKey (onKey Gen.webKeys (bytesToString (unhex n)) (sh = "1") (al = "1") (ct = "1") (me = "1"))))
  | ["burst", n] =>   -- n key callbacks 'a','b',… fired back to back: every one becomes an event, in order
    let evs := (List.range (toNat! n)).filterMap fun i =>
      onKey Gen.webKeys (String.singleton (Char.ofNat (97 + i % 26))) false false false false
    some (st, some (match st.hKey with
      | .undefined => "[undef]" | .unset => "[]"
      | .active => "[" ++ ",".intercalate (evs.map showEv) ++ "]"))
  | ["click", x, y, b, sh, al, ct] =>
    some (st, some (fireTok st.hClick (onMouse st.flags (toInt! x) (toInt! y) (toInt! b) (sh = "1") (al = "1") (ct = "1"))))
  | ["move", x, y, b, sh, al, ct] =>
    some (st, some (fireTok st.hMove (onMouse st.flags (toInt! x) (toInt! y) (toInt! b) (sh = "1") (al = "1") (ct = "1"))))
  | ["paste", b] => some (st, some (fireTok st.hPaste (some (.paste (b = "1")))))
  | ["focus", b] => some (st, some (fireTok st.hFocus (some (.focus (b = "1")))))
  | _ => some (st, some "bad-op")

def runEv (rest : String) : String :=
  let ops := splitTrim rest ";"
  let (_, toks, _) := ops.foldl (fun (acc : EvSt × Array String × Bool) op =>
    if acc.2.2 then acc else
    match evOp acc.1 op with
    | none => (acc.1, acc.2.1.push "dead", true)
    | some (s, t) => (s, match t with | some t => acc.2.1.push t | none => acc.2.1, false)) (({} : EvSt), #[], false)
  if toks.isEmpty then "-" else " ".intercalate toks.toList

def parseLife (op : String) : Option WLock.LifeOp :=
  match words op with
  | ["suspend"] => some .suspend
  | ["resume"] => some .resume
  | ["size", w, h] => some (.setSize (toInt! w) (toInt! h))
  | ["fini"] => some .fini
  | _ => none

def runLife (rest : String) : String :=
  let ops := splitTrim rest ";"
  let (st, toks, dead) := ops.foldl (fun (acc : WLock.LState × Array String × Bool) op =>
    if acc.2.2 then acc else
    match parseLife op with
    | none => (acc.1, acc.2.1.push "bad-op", false)
    | some lop =>
      match WLock.lifeStep Gen.wLockFacts acc.1 lop with
      | none => (acc.1, acc.2.1.push "dead", true)
      | some s => (s, acc.2.1.push (if lop = .resume ∧ acc.1.running then "err" else "ok"), false)) (({} : WLock.LState), #[], false)
  if dead then " ".intercalate toks.toList
  else
    let probe := match callM "Size" st.held st.running with | some _ => "| free" | none => "| held"
    " ".intercalate (toks.toList ++ [probe])

/-- verdict of the lock-balance checker on the regenerated skeletons (Props.C19 proves what `balanced` means) -/
def runLocks : String :=
  let bad := Gen.wLockFacts.filter fun p => !WLock.balanced p.2
  if bad.isEmpty then "balanced" else "leaky " ++ ",".intercalate (bad.map (·.1))

def run (rw : Rune → Int) (rest : String) : String :=
  match rest.splitOn " " with
  | kind :: _ =>
    let payload := (rest.drop (kind.length + 1)).toString
    match kind with
    | "draw" => runDraw rw payload
    | "ev" => runEv payload
    | "life" => runLife payload
    | "locks" => runLocks
    | _ => "bad-kind"
  | [] => "bad-line"

end Driver.Wasm
