import Tcell.Model.Views
import Tcell.Model.ViewsTree
import Driver.Util
/- line engines `vp` (ViewPort histories) and `box` (BoxLayout tree histories) — C20.
   Protocol: see harness/engines/views.go. -/
namespace Driver.Views
open Tcell.Views Tcell.Views.Tree Driver

def showCall (c : PCall) : String :=
  s!"{c.x},{c.y},{c.ch},{(showIntList c.comb).replace "," "+"},{c.style}"

def showCalls (cs : List PCall) : String :=
  if cs.isEmpty then "-" else " ".intercalate (cs.map showCall)

def geom (v : ViewPort) : String :=
  let (a, b, c, d) := v.getVisible
  let (e, f, g, i) := v.getPhysical
  s!"{a},{b},{c},{d}|{e},{f},{g},{i}|{v.limx},{v.limy}|{v.width},{v.height}"

structure VPState where
  v : ViewPort
  pw : Int
  ph : Int

def vpStep (s : VPState) (op : String) : VPState × Option (List PCall) :=
  let i (t : String) := toInt! t
  match words op with
  | ["N", x, y, w, h] => ({ s with v := ViewPort.new (some (s.pw, s.ph)) (i x) (i y) (i w) (i h) }, some [])
  | ["S", x, y, ch, k] =>
    let kk := (toNat! k)
    let comb : List Int := if kk = 2 then [0x301] else []
    let (v', cs) := s.v.setContent (i x) (i y) (i ch) comb (kk % 3)
    ({ s with v := v' }, some cs)
  | ["F", ch, k] => (s, some (s.v.fill (i ch) (toNat! k % 3)))
  | ["C"] => (s, some s.v.clear)
  | ["X"] => ({ s with v := s.v.reset }, some [])
  | ["M", x, y] => ({ s with v := s.v.makeVisible (i x) (i y) }, some [])
  | ["E", x, y] => ({ s with v := s.v.center (i x) (i y) }, some [])
  | ["U", n] => ({ s with v := s.v.scrollUp (i n) }, some [])
  | ["D", n] => ({ s with v := s.v.scrollDown (i n) }, some [])
  | ["L", n] => ({ s with v := s.v.scrollLeft (i n) }, some [])
  | ["R", n] => ({ s with v := s.v.scrollRight (i n) }, some [])
  | ["Z", w, h] => ({ s with v := s.v.setSize (i w) (i h) }, some [])
  | ["T", w, h, l] => ({ s with v := s.v.setContentSize (i w) (i h) (l = "1") }, some [])
  | ["P", x, y, w, h] => ({ s with v := s.v.resize s.pw s.ph (i x) (i y) (i w) (i h) }, some [])
  | ["V", b] => ({ s with v := s.v.setView (b = "1") }, some [])
  | ["Q", w, h] => ({ s with pw := i w, ph := i h }, some [])
  | _ => (s, none)

def runVP (rest : String) : String :=
  let ops := splitTrim rest ";"
  let s0 : VPState := { v := ViewPort.new (some (0, 0)) 0 0 0 0, pw := 0, ph := 0 }
  let (_, obs) := ops.foldl (fun (acc : VPState × Array String) op =>
    let (s', o) := vpStep acc.1 op
    (s', match o with
      | some cs => acc.2.push (showCalls cs ++ "|" ++ geom s'.v)
      | none => acc.2.push "bad-op")) (s0, #[])
  " ; ".intercalate obs.toList

/-! ### box -/

abbrev H := Heap Float

def fbits (s : String) : Float := Float.ofBits (UInt64.ofNat (toNat! s))

def showNode (hp : H) (n : Node Float) : String :=
  let geo := match n.view with
    | .none => "nil"
    | .root => "root"
    | .vp k => match hp.vps[k]? with
      | some (v, _) => s!"{v.physx},{v.physy},{v.width},{v.height}"
      | none => "nil"
  let sz := hp.nodeSize n.id
  s!"{n.id}:{geo}:{sz.1},{sz.2}"

def showHeap (hp : H) : String := " ".intercalate (hp.nodes.map (showNode hp))

def isBox (hp : H) (id : Nat) : Bool := match hp.get id with | some n => n.isBox | none => false
def exists_ (hp : H) (id : Nat) : Bool := (hp.get id).isSome

def attachable (hp : H) (p c : Nat) : Bool :=
  isBox hp p && exists_ hp c && (hp.parentOf c).isNone && c != 0 && !(hp.isAncestorOrSelf (hp.nodes.length + 2) c p)

def boxStep (hp : H) (op : String) : Option H :=
  let i (t : String) := toInt! t
  let n (t : String) := (toInt! t).toNat
  match words op with
  | ["L", id, w, h] =>
    if exists_ hp (n id) then none
    else some { hp with nodes := hp.nodes ++ [{ id := n id, isBox := false, w := i w, h := i h }] }
  | ["B", id, o] =>
    if exists_ hp (n id) then none
    else some { hp with nodes := hp.nodes ++ [{ id := n id, isBox := true, horizontal := (i o == 0) }] }
  | ["A", p, c, f] => if attachable hp (n p) (n c) then some (hp.addWidget (n p) (n c) (fbits f)) else none
  | ["I", p, idx, c, f] =>
    if attachable hp (n p) (n c) then some (hp.insertWidget (n p) (i idx) (n c) (fbits f)) else none
  | ["R", p, c] => if isBox hp (n p) && exists_ hp (n c) then some (hp.removeWidget (n p) (n c)) else none
  | ["O", p, o] => if isBox hp (n p) then some (hp.setOrientation (n p) (i o == 0)) else none
  | ["K", v] => some { hp with fresh := (v = "1") }
  | ["V"] => some (hp.setView 0 .root)
  | ["Z", w, h] =>
    let hp := { hp with rootW := i w, rootH := i h }
    some (Heap.resizeW hp.fuelOf hp 0)
  | ["D"] => some (Heap.drawW hp.fuelOf hp 0)
  | ["P", c, w, h] =>
    match hp.get (n c) with
    | some nd => if nd.isBox then none else
      let hp := hp.upd (n c) fun m => { m with w := i w, h := i h }
      some (Heap.postContent hp.fuelOf hp (n c))
    | none => none
  | _ => none

def runBox (rest : String) : String :=
  let ops := splitTrim rest ";"
  let hp0 : H := { nodes := [{ id := 0, isBox := true, horizontal := true }] }
  let (_, obs) := ops.foldl (fun (acc : H × Array String) op =>
    match boxStep acc.1 op with
    | some hp' => (hp', acc.2.push (showHeap hp'))
    | none => (acc.1, acc.2.push "bad-op")) (hp0, #[])
  " ; ".intercalate obs.toList

end Driver.Views
