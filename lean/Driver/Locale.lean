import Tcell.Model.Locale
import Driver.Util
/- line engine `locale` (C17): which character set the POSIX locale variables select.
   locale <LC_ALL> <LC_CTYPE> <LANG> <registered>
   variable token: `-` unset, `=` followed by the hex of its bytes (`=` alone: set to the empty string);
   registered: comma-separated hex of the lower-cased charset names the encoding registry knows among the candidates of the
   case (`-`: none) — the registry is an input here, Init fails with ErrNoCharset for the others.
   reply: `cs=<hex of the name>` or `nocharset`. -/
namespace Driver.Locale
open Tcell.Locale Driver

def var (t : String) : Option String :=
  if t = "-" then none else some (bytesToString (unhex (t.drop 1).toString))

def lower (s : String) : String := String.ofList (s.toList.map Char.toLower)

def run (rest : String) : String :=
  match words rest with
  | [a, b, c, reg] =>
    let name := getCharset { lcAll := var a, lcCtype := var b, lang := var c }
    let regs := if reg = "-" then [] else (reg.splitOn ",").map fun h => bytesToString (unhex h)
    if regs.contains (lower name) then s!"cs={hex (stringToBytes name)}" else "nocharset"
  | _ => "bad-line"

end Driver.Locale
