import Tcell.Spec.Ecma48
import Driver.Util
import Driver.Env
/-!
Line engines `emu`, `emucheck`, `emusame`: the ECMA-48 reference emulator (`Tcell.Spec.Ecma48`) behind the line protocol.

## Case line

    emu <w> <h> <utf8> <am> acs:<spec> <op>; <op>; …

* `<utf8>`  `1` UTF-8 locale, `0` 8-bit locale (every byte ≥ 0x20 except 0x7f is one glyph of width 1)
* `<am>`    `1` auto-margin (DECAWM) initially on, `0` off
* `<spec>`  `-`                    the VT100 special graphics set (byte d shows terminfo glyph named d)
            `<hex of acsc>`        the terminfo `acsc` string: pairs (vt100 name n, terminal byte d); byte d shows the
                                   glyph terminfo(5) gives to name n (`acsGlyph`), other bytes show themselves
            `XX=CP,XX=CP,…`        explicit map, byte XX (hex) shows code point CP (hex)
* ops       `W <hex>`   one Tty.Write block: `beginBlock` then feed the bytes
            `A <hex>`   feed more bytes into the current block (no new stamp)
            `X`         external corruption (`Term.corrupt`)
            `R <w> <h>` the terminal window was resized (`Term.resize`)
            `F`         end of stream (`Term.finish`: an incomplete sequence becomes a complaint)
            `C c1`      8-bit C1 controls on     `C ff`  FF clears the screen (sun)
            `N <text>`  note for the harness, ignored here

## Reply of `emu` (the canonical dump; one line, space separated)

    size=<w>x<h> cursor=<x>,<y> wrap=<0|1> pen=<pen> known=<p><l><c> ground=<0|1> blocks=<n> modes=<modes>
    malformed=<count>[:<msg>|<msg>…] cells=<cell> <cell> …            (cells row-major, w*h of them)

* `<pen>`   `<fg>,<bg>,<attrs>,<ul>,<ulcolor>,<link>`
  * colour  `d` default | `i<n>` palette index (decimal) | `r<rrggbb>` (hex)
  * attrs   the letters of the set attributes in the order `b`old `d`im `i`talic blin`k` `r`everse `s`trike, `-` if none
  * ul      `0` none `1` single `2` double `3` curly `4` dotted `5` dashed
  * link    `-` or `<hex params>:<hex uri>` (hex of the UTF-8 bytes, `-` for empty)
  the default pen is `d,d,-,0,d,-`
* `<cell>`  `.` for the never-touched default cell, otherwise `<runes>/<pen>/<flags>/<stamp>`
  * runes   `-` (blank) or comma separated decimal code points (base glyph, then combining marks)
  * flags   `c` right half of a wide glyph, `g` garbage (content unknown), `cg`, or `-`
  * stamp   id of the last write block that touched the cell (`W` ops are numbered from 1; 0 = none)
* known     three digits: pen known, hyperlink known, cursor known (0 after `X` until re-established)
* `<modes>` comma separated `key:value` in this fixed order:
  `alt cv kp ck ss am cb m0 m2 m3 m6 bp fo` (0/1: alt screen, cursor visible, keypad application, cursor keys
  application ?1, smooth scroll ?4, auto-margin ?7, cursor blink ?12, mouse 1000/1002/1003/1006, bracketed paste 2004,
  focus 1004), `shape:<n>`, `ccol:-|<rrggbb>`, `cname:<hex>`, `title:<hex>`, `tstack:<n>[=<hex>|<hex>…]`,
  `g0 g1 so` (0/1: G0 graphics, G1 graphics, shifted out), `font:<0|1|2>`, `irm sm34` (0/1), `lc:-|<n>.<n>…`
  (linux cursor parameters), `rsz:-|<h>x<w>`, `tm2` (0/1), `bel:<n>`
* malformed messages have their spaces replaced by `_`

## `emucheck … ;; expect <token> … [cells=<cell> …]`   →   `ok` | `mismatch <what>`

Head and ops as for `emu`.  Tokens (any subset, any order, `cells=` last):
`size=<w>x<h>`  `cursor=<x>,<y>` | `cursor=hidden` (cursor invisible, position irrelevant) | `cursor=?`
`wrap=<0|1>`  `pen=<pen>` (each of the six fields may be `?`)  `ground=<0|1>`  `malformed=<count>`  `blocks=<n>`
`inrange=1` (the cursor is inside the grid)
`mode.<key>=<value>` for any key of `<modes>`
`cells=` followed by exactly w*h expected cells: `?` (don't care: locked cell) or `<runes>/<pen>[/<flags>[/<stamp>]]`
with `?` allowed for any component and any pen field, `.` = default cell.  Blank `-` and a space `32` are the same
glyph.  A garbage cell only matches `?` or an expectation whose flags contain `g`.  With the flags component
omitted the `c` flag is not compared.

## `emusame <emu payload> || <emu payload>`   →   `ok` | `mismatch <first differing token>`
-/
namespace Driver.Emu
open Tcell.Spec.Ecma48 Driver

/-- terminfo(5) glyphs of the vt100 `acsc` names, as Unicode (the ncurses WACS table) -/
def acsGlyph (n : Nat) : Int :=
  match n with
  | 0x2b => 0x2192 | 0x2c => 0x2190 | 0x2d => 0x2191 | 0x2e => 0x2193 | 0x30 => 0x25AE
  | 0x68 => 0x2592 | 0x69 => 0x2603
  | _ => decGraphics n

def parseAcs (s : String) : Nat → Int :=
  if s = "-" || s = "" then decGraphics
  else if s.contains '=' then
    let pairs := (s.splitOn ",").filterMap fun kv =>
      match kv.splitOn "=" with
      | [k, v] => some ((unhex k).headD 0, (v.toList.foldl (fun a c => a * 16 + hexVal c) 0 : Nat))
      | _ => none
    fun b => match pairs.find? (·.1 == b) with
      | some (_, cp) => (cp : Int)
      | none => (b : Int)
  else
    let rec go : List Nat → List (Nat × Nat)
      | n :: d :: r => (n, d) :: go r
      | _ => []
    let pairs := go (unhex s)
    fun b => match pairs.find? (·.2 == b) with
      | some (n, _) => acsGlyph n
      | none => (b : Int)

def showColor (c : ColorSel) : String :=
  match c with
  | .default => "d"
  | .idx n => s!"i{n}"
  | .rgb r g b => "r" ++ String.ofList [hexDigit (r / 16 % 16), hexDigit (r % 16), hexDigit (g / 16 % 16), hexDigit (g % 16),
                                      hexDigit (b / 16 % 16), hexDigit (b % 16)]

def showAttrs (p : Pen) : String :=
  let s := (if p.bold then "b" else "") ++ (if p.dim then "d" else "") ++ (if p.italic then "i" else "") ++
           (if p.blink then "k" else "") ++ (if p.reverse then "r" else "") ++ (if p.strike then "s" else "")
  if s.isEmpty then "-" else s

def showLink (l : Option (String × String)) : String :=
  match l with
  | none => "-"
  | some (p, u) => hex (stringToBytes p) ++ ":" ++ hex (stringToBytes u)

def penFields (p : Pen) : List String :=
  [showColor p.fg, showColor p.bg, showAttrs p, toString p.ul, showColor p.ulColor, showLink p.link]

def showPen (p : Pen) : String := ",".intercalate (penFields p)

def showFlags (c : GCell) : String :=
  let s := (if c.cont then "c" else "") ++ (if c.garbage then "g" else "")
  if s.isEmpty then "-" else s

def showCell (c : GCell) : String :=
  if c == ({} : GCell) then "."
  else s!"{showIntList c.runes}/{showPen c.pen}/{showFlags c}/{c.stamp}"

def b01 (b : Bool) : String := if b then "1" else "0"

def modeFields (m : Modes) : List (String × String) :=
  [("alt", b01 m.altScreen), ("cv", b01 m.cursorVisible), ("kp", b01 m.keypadApp), ("ck", b01 m.cursorKeysApp),
   ("ss", b01 m.smoothScroll), ("am", b01 m.autoMargin), ("cb", b01 m.cursorBlink12), ("m0", b01 m.mouse1000),
   ("m2", b01 m.mouse1002), ("m3", b01 m.mouse1003), ("m6", b01 m.mouse1006), ("bp", b01 m.paste2004),
   ("fo", b01 m.focus1004), ("shape", toString m.cursorShape),
   ("ccol", match m.cursorColor with
            | none => "-"
            | some (r, g, b) => (showColor (.rgb r g b)).drop 1 |>.toString),
   ("cname", hex (stringToBytes m.cursorColorName)), ("title", hex (stringToBytes m.title)),
   ("tstack", toString m.titleStack.length ++
      (if m.titleStack.isEmpty then "" else "=" ++ "|".intercalate (m.titleStack.map fun s => hex (stringToBytes s)))),
   ("g0", b01 m.acsG0), ("g1", b01 m.acsG1), ("so", b01 m.shiftOut), ("font", toString m.altFont),
   ("irm", b01 m.insertMode), ("sm34", b01 m.sm34),
   ("lc", if m.linuxCursor.isEmpty then "-" else ".".intercalate (m.linuxCursor.map toString)),
   ("rsz", match m.resizeReq with
           | none => "-"
           | some (h, w) => s!"{h}x{w}"),
   ("tm2", b01 m.titleModes2), ("bel", toString m.bells)]

def showModes (m : Modes) : String := ",".intercalate ((modeFields m).map fun (k, v) => k ++ ":" ++ v)

def showMalformed (l : List String) : String :=
  if l.isEmpty then "0" else s!"{l.length}:" ++ "|".intercalate (l.map fun s => s.replace " " "_")

def cellList (t : Term) : List GCell :=
  (List.range t.h).flatMap fun y => (List.range t.w).map fun x => t.get x y

def dump (t : Term) : String :=
  s!"size={t.w}x{t.h} cursor={t.cx},{t.cy} wrap={b01 t.pendingWrap} pen={showPen t.pen} " ++
  s!"known={b01 t.penKnown}{b01 t.linkKnown}{b01 t.cursorKnown} ground={b01 t.endsInGround} blocks={t.blocks} " ++
  s!"modes={showModes t.modes} malformed={showMalformed t.malformed} cells=" ++
  " ".intercalate ((cellList t).map showCell)

def stepOp (t : Term) (op : String) : Option Term :=
  match words op with
  | ["W", hx] => some ((t.beginBlock).feed (unhex hx))
  | ["A", hx] => some (t.feed (unhex hx))
  | ["X"] => some t.corrupt
  | ["R", w, h] => some (t.resize (toNat! w) (toNat! h))
  | ["F"] => some t.finish
  | ["C", "c1"] => some { t with cfg := { t.cfg with c1Controls := true } }
  | ["C", "ff"] => some { t with cfg := { t.cfg with ffClears := true } }
  | "N" :: _ => some t
  | _ => none

/-- head + ops → final terminal -/
def runOps (rw : Int → Int) (payload : String) : Except String Term :=
  match words payload with
  | w :: h :: u :: am :: acs :: _ =>
    if !acs.startsWith "acs:" then .error "bad-head" else
    let cfg : Config := { w := toNat! w, h := toNat! h, utf8 := u == "1", am := am == "1", rw := rw,
                          acsMap := parseAcs (acs.drop 4).toString }
    -- the ops are what follows the fifth token
    let opsStr := " ".intercalate ((words payload).drop 5)
    (splitTrim opsStr ";").foldlM (fun t op =>
      match stepOp t op with
      | some t' => .ok t'
      | none => .error ("bad-op " ++ op)) (Term.init cfg)
  | _ => .error "bad-head"

def run (env : Env) (rest : String) : String :=
  match runOps env.rw rest with
  | .ok t => dump t
  | .error e => e

/-! ### emusame -/

def firstDiff (a b : List String) (i : Nat := 0) : String :=
  match a, b with
  | [], [] => "ok"
  | x :: xs, y :: ys => if x == y then firstDiff xs ys (i + 1) else s!"mismatch token#{i} a={x} b={y}"
  | x :: _, [] => s!"mismatch token#{i} a={x} b=<end>"
  | [], y :: _ => s!"mismatch token#{i} a=<end> b={y}"

def runSame (env : Env) (rest : String) : String :=
  match rest.splitOn "||" with
  | [a, b] =>
    match runOps env.rw a.trimAscii.toString, runOps env.rw b.trimAscii.toString with
    | .ok ta, .ok tb =>
      let da := dump ta
      let db := dump tb
      if da == db then "ok" else firstDiff (words da) (words db)
    | .error e, _ => e
    | _, .error e => e
  | _ => "bad-line"

/-! ### emucheck -/

def fieldsMatch (want got : List String) : Bool :=
  want.length == got.length && (want.zip got).all fun (w, g) => w == "?" || w == g

def penMatch (want : String) (p : Pen) : Bool :=
  want == "?" || fieldsMatch (want.splitOn ",") (penFields p)

def normRunes (r : List Int) : List Int := if r.isEmpty then [32] else r

/-- `none` = matches, `some field` = first differing component -/
def cellMismatch (want : String) (c : GCell) : Option String :=
  if want == "?" then none
  else
    let parts := if want == "." then ["-", "d,d,-,0,d,-", "-", "0"] else want.splitOn "/"
    let wr := parts.getD 0 "?"
    let wp := parts.getD 1 "?"
    let wf := parts[2]?
    let ws := parts.getD 3 "?"
    let flagsGarbage := match wf with
      | some f => f.contains 'g' || f == "?"
      | none => false
    if c.garbage && !flagsGarbage then some "garbage"
    else if wr != "?" && normRunes (intList wr) != normRunes c.runes then some "runes"
    else if !penMatch wp c.pen then some "pen"
    else if (match wf with
             | some f => f != "?" && f != showFlags c
             | none => false) then some "flags"
    else if ws != "?" && ws != toString c.stamp then some "stamp"
    else none

def cut (s sep : String) : List String :=
  match s.splitOn sep with
  | k :: r@(_ :: _) => [k, sep.intercalate r]
  | l => l

def checkToken (t : Term) (tok : String) : Option String :=
  match cut tok "=" with
  | [k, v] =>
    let fail (got : String) : Option String := some s!"{k} got={got} want={v}"
    if k == "size" then (if v == s!"{t.w}x{t.h}" then none else fail s!"{t.w}x{t.h}")
    else if k == "cursor" then
      if v == "?" then none
      else if v == "hidden" then (if t.modes.cursorVisible then fail s!"{t.cx},{t.cy}" else none)
      else if t.modes.cursorVisible && v == s!"{t.cx},{t.cy}" then none
      else fail (if t.modes.cursorVisible then s!"{t.cx},{t.cy}" else "hidden")
    else if k == "wrap" then (if v == b01 t.pendingWrap then none else fail (b01 t.pendingWrap))
    else if k == "pen" then (if penMatch v t.pen then none else fail (showPen t.pen))
    else if k == "ground" then (if v == b01 t.endsInGround then none else fail (b01 t.endsInGround))
    else if k == "malformed" then
      (if v == toString t.malformed.length then none else fail (showMalformed t.malformed))
    else if k == "inrange" then
      (if (decide (t.cx < t.w) && decide (t.cy < t.h)) == (v == "1") then none else fail s!"{t.cx},{t.cy}/{t.w}x{t.h}")
    else if k == "blocks" then (if v == toString t.blocks then none else fail (toString t.blocks))
    else if k.startsWith "mode." then
      let key := (k.drop 5).toString
      match (modeFields t.modes).find? (·.1 == key) with
      | some (_, got) => if got == v then none else fail got
      | none => some s!"bad-mode-key {key}"
    else some s!"bad-token {tok}"
  | _ => some s!"bad-token {tok}"

def checkCells (t : Term) (wants : List String) : Option String :=
  let cells := cellList t
  if wants.length != cells.length then some s!"cells count got={cells.length} want={wants.length}"
  else
    let rec go (ws : List String) (cs : List GCell) (i : Nat) : Option String :=
      match ws, cs with
      | w :: ws', c :: cs' =>
        match cellMismatch w c with
        | some f => some s!"cell={i % t.w},{i / t.w} field={f} got={showCell c} want={w}"
        | none => go ws' cs' (i + 1)
      | _, _ => none
    go wants cells 0

def runCheck (env : Env) (rest : String) : String :=
  match rest.splitOn ";;" with
  | [a, e] =>
    match runOps env.rw a.trimAscii.toString with
    | .error err => err
    | .ok t =>
      match words e with
      | "expect" :: toks =>
        let (plain, cells) := toks.span (fun s => !s.startsWith "cells=")
        match plain.findSome? (checkToken t) with
        | some m => "mismatch " ++ m
        | none =>
          match cells with
          | [] => "ok"
          | c0 :: cr =>
            let first := (c0.drop 6).toString
            match checkCells t ((if first.isEmpty then [] else [first]) ++ cr) with
            | some m => "mismatch " ++ m
            | none => "ok"
      | _ => "bad-expect"
  | _ => "bad-line"

end Driver.Emu
