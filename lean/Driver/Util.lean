/- Parsing/printing helpers for the line protocol (driver only; nothing here is part of a model). -/
namespace Driver

def toInt! (s : String) : Int := s.toInt?.getD 0
def toNat! (s : String) : Nat := s.toNat?.getD 0

def hexVal (c : Char) : Nat :=
  if '0' ≤ c ∧ c ≤ '9' then c.toNat - '0'.toNat
  else if 'a' ≤ c ∧ c ≤ 'f' then c.toNat - 'a'.toNat + 10
  else if 'A' ≤ c ∧ c ≤ 'F' then c.toNat - 'A'.toNat + 10 else 0

/-- hex string ("-" = empty) to bytes -/
def unhex (s : String) : List Nat :=
  if s = "-" then [] else
  let rec go : List Char → List Nat
    | a :: b :: rest => (hexVal a * 16 + hexVal b) :: go rest
    | _ => []
  go s.toList

def hexDigit (n : Nat) : Char := if n < 10 then Char.ofNat (48 + n) else Char.ofNat (87 + n)

def hex (bs : List Nat) : String :=
  if bs.isEmpty then "-" else String.ofList (bs.flatMap fun b => [hexDigit (b / 16 % 16), hexDigit (b % 16)])

/-- bytes (as Nat < 256) of a hex string interpreted as a Lean String (UTF-8 assumed valid: used for urls) -/
def bytesToString (bs : List Nat) : String :=
  match String.fromUTF8? (ByteArray.mk (bs.map (·.toUInt8)).toArray) with
  | some s => s
  | none => String.ofList (bs.map Char.ofNat)

def stringToBytes (s : String) : List Nat := s.toUTF8.toList.map (·.toNat)

/-- "-" or comma separated ints -/
def intList (s : String) : List Int := if s = "-" then [] else (s.splitOn ",").map toInt!

def showIntList (l : List Int) : String := if l.isEmpty then "-" else ",".intercalate (l.map toString)

def splitTrim (s : String) (sep : String) : List String :=
  (s.splitOn sep).map (fun t => t.trimAscii.toString) |>.filter (· ≠ "")

def words (s : String) : List String := (s.splitOn " ").filter (· ≠ "")

end Driver
