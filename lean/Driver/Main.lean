import Driver.Util
import Driver.Env
import Driver.Cb
import Driver.Draw
import Driver.Views
import Driver.Emu
import Driver.Color
import Driver.Terminfo
import Driver.Lookup
import Driver.Wasm
import Driver.Parse
import Driver.Race
import Driver.Encode
import Driver.Sim
import Driver.Modes
import Driver.Text
import Driver.Pipe
import Driver.Locale
/-
Line-protocol driver: one case per line, first token selects the engine, one reply line per case.
Stateless across lines (a line is a complete case = a replay).  Core-only imports so that it links.
To add an engine: write Driver/<Engine>.lean exposing `run : Env → String → String` (or fewer arguments),
import it here and add one line to `dispatch`.
-/
open Driver

def dispatch (env : Env) (eng rest : String) : String :=
  match eng with
  | "cb" => Cb.run env.rw rest
  | "draw" => Draw.run env rest
  | "vp" => Views.runVP rest
  | "box" => Views.runBox rest
  | "emu" => Emu.run env rest
  | "emucheck" => Emu.runCheck env rest
  | "emusame" => Emu.runSame env rest
  | "color" => Color.run rest
  | "tparm" | "tparmref" | "tputs" | "tputsref" | "tgoto" | "tgotoref" | "tcolor" | "tcolorref" => Terminfo.run env eng rest
  | "lookup" => Lookup.run env rest
  | "wasm" => Wasm.run env.rw rest
  | "parse" => Parse.run env rest
  | "parsechunk" => Parse.run env rest
  | "keytable" => Parse.runKeyTable env rest
  | "keyseq" => Parse.runKeySeq env rest
  | "race" => Race.run rest
  | "enc" => Encode.runEnc env rest
  | "acs" => Encode.runAcs env rest
  | "sim" => Sim.run env rest
  | "modes" => Modes.run env rest
  | "text" => Text.run env rest
  | "locale" => Locale.run rest
  | "ptylife" => "ok"   -- C06 on the real tty driver: the statement is that every life-cycle call returns
  | "pipe" => Pipe.run env rest
  | "pipetrace" => Pipe.runTrace env rest
  | _ => "bad-engine"

def handle (env : Env) (line : String) : String :=
  let line := line.trimAscii.toString
  match line.splitOn " " with
  | eng :: _ => dispatch env eng (line.drop (eng.length + 1)).toString
  | [] => "bad-line"

partial def loop (env : Env) (hin hout : IO.FS.Stream) : IO Unit := do
  let line ← hin.getLine
  if line.isEmpty then return ()
  hout.putStrLn (handle env line)
  hout.flush   -- the harness also talks to the driver as a co-process (h.Ref): answer line by line
  loop env hin hout

def main (args : List String) : IO Unit := do
  let env ← loadEnv (args.headD "gen")
  let hin ← IO.getStdin
  let hout ← IO.getStdout
  loop env hin hout
  hout.flush
