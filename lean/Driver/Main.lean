import Driver.Util
import Driver.Env
import Driver.Cb
import Driver.Encode
import Driver.Sim
/-
Line-protocol driver: one case per line, first token selects the engine, one reply line per case.
Stateless across lines (a line is a complete case = a replay).  Core-only imports so that it links.
To add an engine: write Driver/<Engine>.lean exposing `run : Env → String → String` (or fewer arguments),
import it here and add one line to `dispatch`.
-/
open Driver

def dispatch (env : Env) (eng rest : String) : String :=
  match eng with
  | "cb" => Cb.run env.rw rest
  | "enc" => Encode.runEnc env rest
  | "acs" => Encode.runAcs env rest
  | "sim" => Sim.run env rest
  | _ => "bad-engine"

def handle (env : Env) (line : String) : String :=
  let line := line.trimAscii.toString
  match line.splitOn " " with
  | eng :: _ => dispatch env eng (line.drop (eng.length + 1)).toString
  | [] => "bad-line"

partial def loop (env : Env) (hin hout : IO.FS.Stream) : IO Unit := do
  let line ← hin.getLine
  if line.isEmpty then return ()
  hout.putStrLn (handle env line)
  loop env hin hout

def main (args : List String) : IO Unit := do
  let env ← loadEnv (args.headD "gen")
  let hin ← IO.getStdin
  let hout ← IO.getStdout
  loop env hin hout
  hout.flush
