import Driver.Util
import Driver.Cb
/-
Line-protocol driver: one case per line, first token selects the engine, one reply line per case.
Stateless across lines (a line is a complete case = a replay).  Core-only imports so that it links.
-/
open Driver

structure Env where
  rwTable : Array (Int × Int × Int)   -- sorted (lo, hi, width); anything not covered has width `rwDefault`
  rwDefault : Int

def Env.rw (e : Env) (r : Int) : Int := Id.run do
  -- binary search over disjoint sorted ranges
  let mut lo := 0
  let mut hi := e.rwTable.size
  while lo < hi do
    let mid := (lo + hi) / 2
    let (a, b, w) := e.rwTable[mid]!
    if r < a then hi := mid
    else if r > b then lo := mid + 1
    else return w
  return e.rwDefault

def loadEnv (genDir : String) : IO Env := do
  let p := genDir ++ "/runewidth.txt"
  if !(← System.FilePath.pathExists p) then return { rwTable := #[], rwDefault := 1 }
  let txt ← IO.FS.readFile p
  let mut tbl : Array (Int × Int × Int) := #[]
  let mut dflt : Int := 1
  for l in txt.splitOn "\n" do
    match words l with
    | ["default", w] => dflt := toInt! w
    | [a, b, w] => tbl := tbl.push (toInt! a, toInt! b, toInt! w)
    | _ => pure ()
  return { rwTable := tbl, rwDefault := dflt }

def handle (env : Env) (line : String) : String :=
  let line := line.trimAscii.toString
  match line.splitOn " " with
  | eng :: _ =>
    let rest := (line.drop (eng.length + 1)).toString
    match eng with
    | "cb" => Cb.run env.rw rest
    | _ => "bad-engine"
  | [] => "bad-line"

partial def loop (env : Env) (hin hout : IO.FS.Stream) : IO Unit := do
  let line ← hin.getLine
  if line.isEmpty then return ()
  hout.putStrLn (handle env line)
  loop env hin hout

def main (args : List String) : IO Unit := do
  let genDir := args.headD "gen"
  let env ← loadEnv genDir
  let hin ← IO.getStdin
  let hout ← IO.getStdout
  loop env hin hout
  hout.flush
