import Tcell.Model.TextInput
import Driver.Parse
/-
line engine `text` (C11), see harness/engines/text.go:

  text law …                                          oracle only (the implementation side answers `SKIP …`)
  text run <entry>[+flags] <charset> <items> <chunkhex>:0 …
        charset = utf8 | tbl:<name>:<runes> | mb:<name>:<hexenc>=<rune>,…
        flag +eoffix selects `decMulti false` (repaired call), otherwise `decMulti true` (tscreen.go:1721 as pinned)
        reply as for `parse`: one `<events>/<leftover>` token per read.
-/
namespace Driver.Text
open Tcell Tcell.Model Driver

def parseMb (s : String) : MbTable :=
  (s.splitOn ",").filterMap fun p =>
    match p.splitOn "=" with
    | [e, r] => some (unhex e, toInt! r)
    | _ => none

def charsetOf (eoffix : Bool) (s : String) : Bytes → DecResult :=
  match s.splitOn ":" with
  | ["mb", _, t] => decMulti (!eoffix) (parseMb t)
  | _ => Parse.parseCharset s

def run (env : Env) (rest : String) : String :=
  match words rest with
  | "law" :: _ => "law"
  | "run" :: nm :: cs :: _items :: chunks =>
    let (name, v) := Parse.parseName nm
    let eoffix := (nm.splitOn "+").contains "eoffix"
    match env.lookup name with
    | none => "no-entry"
    | some ti =>
      let cfg := cfgOf v ti (charsetOf eoffix cs) 80 24
      let (_, _, out) := chunks.foldl (fun (acc : PState × Bytes × Array String) ch =>
        let (st, buf, out) := acc
        let (bs, exp) := Parse.parseChunk ch
        let r := collect cfg st (buf ++ bs) exp
        let evs := if r.evs.isEmpty then "-" else ",".intercalate (r.evs.map Parse.showEvent)
        (r.st, r.rest, out.push (s!"{evs}/{r.rest.length}" ++ (if r.amb then "!amb" else "")))) (({} : PState), [], #[])
      " ".intercalate out.toList
  | _ => "bad-line"

end Driver.Text
