import Driver.Util
import Driver.Env
import Tcell.Model.Lookup
import Tcell.Spec.TermSyntax
import Tcell.Gen.LookupMode
/-
Engine `lookup` (C14), model side: runs the case lines of harness/engines/lookup.go on `Tcell.Lookup.lookup`
(`lookupG Gen.lookupCopies`: the pinned, in-place amending model, or the repaired one when the translator's probe
finds that the tree under test copies before amending) starting from the registry of gen/db.txt, and prints the same observation.
Op `T` of the same engine: reference verdict of `Tcell.TermSyntax.wellFormed` on one capability string (Derived lines).
-/
namespace Driver.Lookup
open Tcell Tcell.Lookup

deriving instance BEq for Tcell.TermKeys
deriving instance BEq for Tcell.Terminfo

def okTokChar (c : Char) : Bool := c.isAlphanum || c == '.' || c == '_' || c == '+' || c == '-'

def tok (s : String) : String :=
  if s.length > 0 && s.toList.all okTokChar then s
  else if s.isEmpty then "=" else "=" ++ hex (stringToBytes s)

def untok (s : String) : String :=
  if s.startsWith "=" then
    let r := (s.drop 1).toString
    if r.isEmpty then "" else bytesToString (unhex r)
  else s

def fnvByte (h : UInt64) (b : UInt64) : UInt64 := (h ^^^ b) * 1099511628211
def fnvBytes (h : UInt64) (bs : List Nat) : UInt64 := fnvByte (bs.foldl (fun h b => fnvByte h b.toUInt64) h) 0xff
def fnvStr (h : UInt64) (s : String) : UInt64 := fnvBytes h (stringToBytes s)

def hex64 (h : UInt64) : String :=
  String.ofList ((List.range 16).map fun i => hexDigit ((h.toNat >>> (4 * (15 - i))) % 16))

/-- same canonical dump as `lkHash` in harness/engines/lookup.go -/
def hashEntry (t : Terminfo) : String :=
  let h : UInt64 := 14695981039346656037
  let h := fnvStr h t.name
  let h := Terminfo.strFields.foldl (fun h f => fnvBytes h (t.getStr f)) h
  let h := [t.columns, t.lines, t.colors, t.modifiers].foldl (fun h i => fnvStr h (toString i)) h
  let h := [t.autoMargin, t.trueColor, t.xTermLike].foldl (fun h b => fnvByte h (if b then 49 else 48)) h
  hex64 h

def ascii (s : String) : Bytes := stringToBytes s

/-- mirrors `lkSynthetic` -/
def synthetic (name : String) (aliases : String) (colors : Int) (flags : String) : Terminfo :=
  let t : Terminfo := { name := name, columns := 80, lines := 24, colors := colors,
                        setCursor := ascii "\x1b[%i%p1%d;%p2%dH" }
  let t := if aliases != "-" && aliases != "" then { t with aliases := (aliases.splitOn ",").map untok } else t
  let t := if colors > 0 then
    { t with setFg := ascii "\x1b[3%p1%dm", setBg := ascii "\x1b[4%p1%dm", setFgBg := ascii "\x1b[3%p1%d;4%p2%dm",
             resetFgBg := ascii "\x1b[m" } else t
  let t := if flags.contains 't' then { t with trueColor := true } else t
  let t := if flags.contains 'r' then
    { t with setFgRGB := ascii "\x1b[38:2:%p1%d:%p2%d:%p3%dm", setBgRGB := ascii "\x1b[48:2:%p1%d:%p2%d:%p3%dm",
             setFgBgRGB := ascii "\x1b[38:2:%p1%d:%p2%d:%p3%d;48:2:%p4%d:%p5%d:%p6%dm" } else t
  let t := if flags.contains 'f' then { t with setFgRGB := ascii "\x1b[38:2:%p1%d:%p2%d:%p3%dm" } else t
  t

def pristine (env : Driver.Env) : Registry :=
  let db := env.db
  { names := (db.toList.zipIdx.flatMap fun (p, i) => p.1.map fun n => (n.toList, i))
    store := fun i => match db[i]? with | some p => p.2 | none => default }

structure St where
  R : Registry
  env : Lookup.Env := {}
  next : Nat
  adds : List (Nat × Terminfo) := []   -- reversed
  obs : List String := []              -- reversed

def arg (as : List String) (i : Nat) : String := as.getD i "="

def step (denv : Driver.Env) (s : St) (op : String) : St :=
  -- "LT" = the root package's wrapper tcell.LookupTerminfo: the same function on names the database resolves
  match (match words op with | "LT" :: as => "L" :: as | ws => ws) with
  | "E" :: as => { s with env := { colorterm := untok (arg as 0), tcellTruecolor := untok (arg as 1) } }
  | "A" :: as =>
    let t := synthetic (untok (arg as 0)) (arg as 1) (toInt! (arg as 2)) (arg as 3)
    { s with R := s.R.add s.next t, next := s.next + 1, adds := (s.next, t) :: s.adds }
  | "L" :: as =>
    let p := lookupG Gen.lookupCopies s.env s.R (untok (arg as 0)).toList
    let o := match p.1 with
      | none => "nf"
      | some r =>
        let t := p.2.get r
        s!"ok {tok t.name} {t.colors} {if t.trueColor then 1 else 0} {hashEntry t}"
    { s with R := p.2, obs := o :: s.obs }
  | k :: as =>
    if k == "D" || k == "S" then
      let o := match denv.lookup (untok (arg as 0)) with
        | none => "db nf"
        | some t => s!"db {tok t.name} {hashEntry t}"
      { s with obs := o :: s.obs }
    else s
  | [] => s

/-- `T <arity> <field> <hex>` (Derived lines of the engine) → `ok` / `illformed …` -/
def runTermsyn (line : String) : String :=
  match words line with
  | ["T", a, f, hx] =>
    let s := unhex hx
    if TermSyntax.wellFormed (toNat! a) s then "ok"
    else
      let why := match TermSyntax.tokenize s with
        | none => "incomplete-or-unknown-%-escape"
        | some ts =>
          if !TermSyntax.balanced [] ts then "unbalanced-conditional"
          else if !TermSyntax.paramsWithin (toNat! a) ts then s!"parameter-beyond-arity-{a}"
          else "operand-stack-underflow"
      s!"illformed {f} {why}"
  | _ => "bad-termsyn-line"

def run (denv : Driver.Env) (line : String) : String :=
  if line.startsWith "T " then runTermsyn line else
  let ops := splitTrim line ";"
  let s0 : St := { R := pristine denv, next := denv.db.size }
  let s := ops.foldl (step denv) s0
  let chg1 := denv.db.toList.zipIdx.filterMap fun (p, i) =>
    let t := s.R.deref i
    if t == p.2 then none else some s!"{tok p.2.name}:{hashEntry t}"
  let chg2 := s.adds.reverse.filterMap fun (i, t0) =>
    let t := s.R.deref i
    if t == t0 then none else some s!"{tok t0.name}:{hashEntry t}"
  let chg := chg1 ++ chg2
  let last := if chg.isEmpty then "chg=-" else "chg=" ++ ",".intercalate chg
  " | ".intercalate (s.obs.reverse ++ [last])

end Driver.Lookup
