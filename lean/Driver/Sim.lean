import Tcell.Model.Sim
import Tcell.Gen.Acs
import Driver.Util
import Driver.Env
import Driver.Cb
import Driver.Encode
/- line engine `sim` (C18): histories on the SimulationScreen model.
   sim cfg <variant: 5 letters p|r = injectLE injectSkipErr setSizeEvent lastColClean combElide> <charset> <enc table r=hex[!],…>; op; op; …  -/
namespace Driver.Sim
open Tcell Driver

def parseVariant (s : String) : SimVariant :=
  match s.toList with
  | [a, b, c, d, e] => { injectLE := a == 'r', injectSkipErr := b == 'r', setSizeEvent := c == 'r', lastColClean := d == 'r', combElide := e == 'r' }
  | [a, b, c, d, e, f] => { injectLE := a == 'r', injectSkipErr := b == 'r', setSizeEvent := c == 'r', lastColClean := d == 'r', combElide := e == 'r', fillZW := f == 'r' }
  | _ => {}

def parseEncTable (s : String) : List (Rune × EncResult) :=
  if s = "-" then [] else (s.splitOn ",").filterMap fun it =>
    match it.splitOn "=" with
    | [r, e] => some (toInt! r, Encode.parseEnc e)
    | _ => none

/-- `hexprefix:nout:nin:r,…` -/
def parseDecTable (s : String) : List (Bytes × DecResult) :=
  if s = "-" then [] else (s.splitOn ",").filterMap fun it =>
    match it.splitOn ":" with
    | [p, no, ni, r] => some (unhex p, { nout := toNat! no, nin := toNat! ni, r := toInt! r })
    | _ => none

def tableDec (tbl : List (Bytes × DecResult)) : Decoder := fun p =>
  match tbl.find? (fun q => q.1 == p) with
  | some (_, d) => d
  | none => {}

def showEv : SimEv → String
  | .resize w h => s!"r{w}x{h}"
  | .key k ch m => s!"k{k}/{ch}/{m}"
  | .mouse x y b m => s!"m{x}/{y}/{b}/{m}"

def showCell (c : SimCell) : String := s!"{hex c.bytes}/{Cb.showStyle c.style}/{showIntList c.runes}"

def dump (s : Sim) : String :=
  let w := s.physw.toNat
  let h := s.physh.toNat
  let cells := (List.range h).flatMap fun (y : Nat) => (List.range w).map fun (x : Nat) => showCell (s.front (x : Int) (y : Int))
  let (cx, cy, vis) := s.getCursor
  s!"{s.physw}x{s.physh}:" ++ " ".intercalate cells ++ s!" cur={cx},{cy},{if vis then 1 else 0}"

def drain (s : Sim) : Sim × String :=
  ({ s with evq := [] }, if s.evq.isEmpty then "-" else ",".intercalate (s.evq.map showEv))

def stepOp (rw : Rune → Int) (v : SimVariant) (enc : Encoder) (s : Sim) (op : String) : Sim × Option String :=
  match words op with
  | ["S", x, y, m, c, st] => ({ s with back := s.back.setContent rw (toInt! x) (toInt! y) (toInt! m) (intList c) (Cb.parseStyle st) }, none)
  | ["F", r, st] => ({ s with back := s.back.fillV v.fillZW rw (toInt! r) (Cb.parseStyle st) }, none)
  | ["Y", st] => ({ s with style := Cb.parseStyle st }, none)
  | ["C", x, y] => (s.setCursor (toInt! x) (toInt! y), none)
  | ["D"] => (s.hideCursorApi, none)
  | ["L", x, y, w, h, on] => ({ s with back := lockRowsG s.back (toInt! x) (toInt! y) (toInt! w) (on = "1") (toInt! h).toNat }, none)
  | ["W"] => (s.showScr v enc, none)
  | ["N"] => (s.sync v enc, none)
  | ["Z", w, h] => (s.setSize v (toInt! w) (toInt! h), none)
  | ["K", k, r, m] => (s.injectKey (toInt! k) (toInt! r) (toInt! m), none)
  | ["M", x, y, b, m] => (s.injectMouse (toInt! x) (toInt! y) (toInt! b) (toInt! m), none)
  | ["B", bs, tbl] =>
    let (s', ok) := s.injectKeyBytes v (tableDec (parseDecTable tbl)) (unhex bs)
    (s', some (if ok then "b:1" else "b:0"))
  | ["R", r, sub] => (s.registerFallback (toInt! r) (unhex sub), none)
  | ["U", r] => (s.unregisterFallback (toInt! r), none)
  | ["Q", r, f] => (s, some (if s.canDisplay enc (toInt! r) (f = "1") then "q:1" else "q:0"))
  | ["G"] => (s, some ("g:" ++ dump s))
  | ["P"] => let (s', e) := drain s; (s', some ("p:" ++ e))
  | ["T"] => (s, some s!"t:{s.back.w},{s.back.h}")
  -- burst bracket (harness/engines/sim.go): the injections between A and E are made back to back while nobody polls;
  -- the model's event queue is unbounded and injection never fails, so the bracket changes nothing here
  | ["OU", _] => (s, none)      -- another screen of the process changes its own fallback table
  | ["OR", _, _] => (s, none)
  | ["I2"] => (s, none)   -- the object finished and initialised again before the history: a fresh screen
  | ["A"] => (s, none)
  | ["E"] => (s, none)
  | _ => (s, some "bad-op")

def run (env : Env) (rest : String) : String :=
  match splitTrim rest ";" with
  | cfg :: ops =>
    match words cfg with
    | ["cfg", v, _charset, tbl] =>
      let enc := Encode.tableEnc (parseEncTable tbl)
      let var := parseVariant v
      let (s, obs) := ops.foldl (fun (acc : Sim × Array String) op =>
        let (s', o) := stepOp env.rw var enc acc.1 op
        (s', match o with | some t => acc.2.push t | none => acc.2)) (Sim.init Tcell.Gen.runeFallbacks, #[])
      let (s, e) := drain s
      " ".intercalate obs.toList ++ " H " ++ dump s ++ " ev=" ++ e
    | _ => "bad-case"
  | [] => "bad-case"

end Driver.Sim
