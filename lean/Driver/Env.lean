import Driver.Util
import Tcell.Gen.TerminfoStruct
/- Data the driver loads once at start-up from gen/ (regenerated from /repo by harness/cmd/extract). -/
namespace Driver
open Tcell

structure Env where
  rwTable : Array (Int × Int × Int) := #[]  -- sorted (lo, hi, width), width ≠ 1; width `rwDefault` elsewhere
  rwDefault : Int := 1
  db : Array (List String × Terminfo) := #[]  -- (registered names incl. aliases, entry)
  genDir : String := "gen"

def Env.rw (e : Env) (r : Int) : Int := Id.run do
  let mut lo := 0
  let mut hi := e.rwTable.size
  while lo < hi do
    let mid := (lo + hi) / 2
    let (a, b, w) := e.rwTable[mid]!
    if r < a then hi := mid
    else if r > b then lo := mid + 1
    else return w
  return e.rwDefault

/-- entry registered under `name` (name or alias) -/
def Env.lookup (e : Env) (name : String) : Option Terminfo :=
  (e.db.find? (fun p => p.1.contains name)).map (·.2)

def parseEntry (l : String) : Option (List String × Terminfo) :=
  match words l with
  | "entry" :: _name :: names :: fields =>
    -- string capabilities are collected first and installed by one constructor application (`withStrs`)
    let (t, strs) := fields.foldl (fun (acc : Terminfo × List (String × Bytes)) f =>
      let (t, strs) := acc
      match f.splitOn "=" with
      | [k, v] =>
        if v.startsWith "s:" then
          let bs := unhex (v.drop 2).toString
          if k = "Name" then ({ t with name := bytesToString bs }, strs) else (t, (k, bs) :: strs)
        else if v.startsWith "i:" then (t.setInt k (toInt! (v.drop 2).toString), strs)
        else if v.startsWith "b:" then (t.setBool k true, strs)
        else (t, strs)
      | _ => (t, strs)) (({} : Terminfo), [])
    let t := t.withStrs (fun k => (strs.lookup k).getD [])
    some (names.splitOn ",", t)
  | _ => none

def loadEnv (genDir : String) : IO Env := do
  let mut env : Env := { genDir := genDir }
  let p := genDir ++ "/runewidth.txt"
  if (← System.FilePath.pathExists p) then
    let txt ← IO.FS.readFile p
    let mut tbl : Array (Int × Int × Int) := #[]
    let mut dflt : Int := 1
    for l in txt.splitOn "\n" do
      match words l with
      | ["default", w] => dflt := toInt! w
      | [a, b, w] => tbl := tbl.push (toInt! a, toInt! b, toInt! w)
      | _ => pure ()
    env := { env with rwTable := tbl, rwDefault := dflt }
  let p := genDir ++ "/db.txt"
  if (← System.FilePath.pathExists p) then
    let txt ← IO.FS.readFile p
    let mut db : Array (List String × Terminfo) := #[]
    for l in txt.splitOn "\n" do
      match parseEntry l with
      | some e => db := db.push e
      | none => pure ()
    env := { env with db := db }
  return env

end Driver
