import Driver.Util
import Tcell.Model.Lockset
import Tcell.Gen.LockFacts
/-
Engine "race" (C10), model side: for a case `<kind> <impl> A B …` the model's prediction is the list of entry points among
A, B that the discipline check flags (`Tcell.Gen.LockFacts.flagged`, which `Props.C10.flagged_exact` ties to the Lean
definition).  The implementation side answers with the flagged entry points the race detector reproduced.
-/
namespace Driver.Race
open Tcell.Model.Lockset Tcell.Gen.LockFacts

def isFlagged (impl e : String) : Bool :=
  flagged.any fun x => entryNames.getD x.entry "" == impl ++ "/" ++ e

def run (rest : String) : String :=
  match words rest with
  | _kind :: impl :: a :: b :: _ =>
    let es := ([a] ++ (if a == b then [] else [b])).filter (isFlagged impl)
    if es.isEmpty then "expect -" else "expect " ++ ",".intercalate es
  | _ => "bad-line"

end Driver.Race
