import Driver.Util
import Driver.Env
import Tcell.Model.TParm
import Tcell.Model.TPuts
import Tcell.Spec.Terminfo5
import Tcell.Spec.TermCaps
/-
Engines tparm / tputs / tgoto / tcolor (model side: what the Lean model of terminfo.go answers) and the
reference judges tparmref / tputsref / tgotoref / tcolorref (`Result.Derived` lines: the Spec decides whether
what the implementation produced is right; the answer is `ok` or `<class> details`).
Line formats: see harness/engines/terminfo.go.
-/
namespace Driver.Terminfo
open Tcell Tcell.TParm

def parseParam (w : String) : Value :=
  if w.startsWith "i:" then .int (toInt! (w.drop 2).toString)
  else if w.startsWith "s:" then .str (unhex (w.drop 2).toString)
  else .str []

/-- `<proghex> <param>*` -/
def parseCall (c : String) : Bytes × List Value :=
  match words c with
  | p :: ps => (unhex p, ps.map parseParam)
  | [] => ([], [])

/-- a "call" whose first word starts with `@` is a registry operation (`terminfo.LookupTerminfo` of that name) made between two
evaluations: no argument of the evaluator, so the model skips it -/
def parseCalls (payload : String) : List (Bytes × List Value) :=
  ((splitTrim payload ";").filter fun c => !(c.trimAscii.toString.startsWith "@")).map parseCall

/-- `0-40,50,-1` → list of ints -/
def intRanges (s : String) : List Int :=
  (s.splitOn ",").flatMap fun it =>
    match it.splitOn "-" with
    | [a, b] => if a.isEmpty then [toInt! it] else (List.range (toNat! b + 1 - toNat! a)).map fun k => ((toNat! a + k : Nat) : Int)
    | _ => [toInt! it]

def splitArrow (payload : String) : String × String :=
  match payload.splitOn " => " with
  | [a, b] => (a, b)
  | _ => (payload, "")

/-- History form of tputs / tgoto / tcolor lines: `<main part>[; <tparm call>]*` — the TParm calls are made BEFORE the
calls of the main part (harness/engines/terminfo.go); the model threads their static variables. -/
def splitHist (payload : String) : String × List (Bytes × List Value) :=
  match splitTrim payload ";" with
  | m :: cs => (m, (cs.filter fun c => !(c.trimAscii.toString.startsWith "@")).map parseCall)   -- `@name`: a registry lookup, no argument of the evaluator
  | [] => ("", [])

def histVars (cs : List (Bytes × List Value)) : Vars :=
  cs.foldl (fun sv c => (TParm.tparm c.1 c.2 sv).2) noVars

/-! model side -/

def runTparm (payload : String) : String :=
  let calls := parseCalls payload
  let r := calls.foldl (fun (acc : List String × Vars) c =>
    let o := TParm.tparm c.1 c.2 acc.2
    (hex o.1 :: acc.1, o.2)) ([], noVars)
  " ".intercalate r.1.reverse

def runTputs (payload : String) : String :=
  match words (splitHist payload).1 with
  | pad :: s :: _ => hex (TPuts.tputs (unhex pad) (unhex s)).bytes
  | _ => "bad-line"

def runTgoto (env : Env) (payload : String) : String :=
  let (m, pre) := splitHist payload
  let sv := histVars pre
  match words m with
  | [name, row, cols] =>
    match env.lookup name with
    | some e => ",".intercalate ((intRanges cols).map fun c => hex (TPuts.tgoto e c (toInt! row) sv).1)
    | none => "no-entry"
  | _ => "bad-line"

def runTcolor (env : Env) (payload : String) : String :=
  let (m, pre) := splitHist payload
  let sv := histVars pre
  match words m with
  | [name, fg, bgs] =>
    match env.lookup name with
    | some e => ",".intercalate ((intRanges bgs).map fun b => hex (TPuts.tcolor e (toInt! fg) b sv).1)
    | none => "no-entry"
  | _ => "bad-line"

/-! reference side -/

/-- the model variants the judge threads along a line (each with its own static variables):
pinned, and pinned + one repair, and all repairs -/
def variants : List (String × Variant) :=
  [("pinned", pinned), ("nested-cond", { nesting := true }), ("logical-and-or", { logAO := true }),
   ("fmt-flag-no-colon", { flagNoColon := true }), ("several-known", repaired)]

open Spec.Terminfo5 in
/-- Reference verdict for a line of calls.  Stable finding classes: if the implementation behaves exactly like the
pinned model (whose deviations from the reference are the known defects), the class names the single repair under
which the model, run from the first call of the line, agrees with the reference on the failing call; any other
deviation is a plain `mismatch`. -/
def judgeTparm (payload : String) : String :=
  let (cs, obs) := splitArrow payload
  let calls := parseCalls cs
  let outs := words obs
  let rec go (k : Nat) (calls : List (Bytes × List Value)) (outs : List String) (sv : Vars) (svs : List Vars) : String :=
    match calls, outs with
    | c :: cr, o :: or =>
      match parse c.1 with
      | none => "ok"                                  -- not a well-formed program: nothing to demand
      | some a =>
        if !specified a c.2 sv then "ok"              -- outside the domain the reference defines
        else
          let r := Spec.Terminfo5.tparm a c.2 sv
          let ms := (variants.zip svs).map fun p => (p.1.1, tparmV p.1.2 c.1 c.2 p.2)
          if hex r.1 == o then go (k + 1) cr or r.2 (ms.map (·.2.2))
          else
            let cls :=
              match ms with
              | (_, pin) :: rest =>
                if hex pin.1 != o then "mismatch"
                else match rest.find? (fun (m : String × Bytes × Vars) => m.2.1 == r.1) with
                  | some m => m.1
                  | none => "mismatch"
              | [] => "mismatch"
            s!"{cls} call={k} want={hex r.1} got={o}"
    | _, _ => "ok"
  go 0 calls outs noVars (variants.map fun _ => noVars)

open Spec.TermCaps in
def judgeTputs (payload : String) : String :=
  let (a, obs) := splitArrow payload
  let s := unhex a.trimAscii.toString
  let want := stripPadding s
  if hex want == obs.trimAscii.toString then "ok"
  else
    let rec nonSpec : Bytes → Bool
      | [] => false
      | b :: r => (b == 36 && r.head? == some 60 && r.contains 62 && (matchPad (b :: r)).isNone) || nonSpec r
    -- the known defect: the implementation behaves exactly like the pinned model on a string with a non-padding `$<…>`
    (if nonSpec s && hex (TPuts.tputsV false [] s).bytes == obs.trimAscii.toString then "strip-nonpadding" else "mismatch")
      ++ s!" want={hex want} got={obs}"

open Spec.TermCaps in
def judgeTgoto (env : Env) (payload : String) : String :=
  let (a, obs) := splitArrow payload
  match words (splitHist a).1 with
  | [name, row, cols] =>
    match env.lookup name with
    | none => "no-entry"
    | some e =>
      let fam := familyOfName e.name
      let r := (toInt! row).toNat
      let outs := obs.trimAscii.toString.splitOn ","
      let cs := intRanges cols
      if outs.length != cs.length then "mismatch count" else
      match (cs.zip outs).find? (fun p =>
          p.1 ≥ 0 && toInt! row ≥ 0 && fam.expressible r p.1.toNat &&
          fam.decode (stripPadding (unhex p.2)) != some (r, p.1.toNat)) with
      | some p => s!"mismatch entry={name} row={row} col={p.1} got={p.2}"
      | none => "ok"
  | _ => "bad-line"

open Spec.TermCaps in
def judgeTcolor (env : Env) (payload : String) : String :=
  let (a, obs) := splitArrow payload
  match words (splitHist a).1 with
  | [name, fg, bgs] =>
    match env.lookup name with
    | none => "no-entry"
    | some e =>
      let outs := obs.trimAscii.toString.splitOn ","
      let bs := intRanges bgs
      if outs.length != bs.length then "mismatch count" else
      match (bs.zip outs).find? (fun p =>
          let o := unhex p.2
          decodeSel (o.length + 1) o {} != some (wantSel e.colors (toInt! fg) p.1)) with
      | some p => s!"mismatch entry={name} fg={fg} bg={p.1} got={p.2}"
      | none => "ok"
  | _ => "bad-line"

def run (env : Env) (eng rest : String) : String :=
  match eng with
  | "tparm" => runTparm rest
  | "tparmref" => judgeTparm rest
  | "tputs" => runTputs rest
  | "tputsref" => judgeTputs rest
  | "tgoto" => runTgoto env rest
  | "tgotoref" => judgeTgoto env rest
  | "tcolor" => runTcolor env rest
  | "tcolorref" => judgeTcolor env rest
  | _ => "bad-engine"

def engines : List String := ["tparm", "tparmref", "tputs", "tputsref", "tgoto", "tgotoref", "tcolor", "tcolorref"]

end Driver.Terminfo
