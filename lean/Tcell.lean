-- Root of the `Tcell` library: models, specifications, lemmas and property theorems.
import Tcell.Model.Cell
import Tcell.Model.CellOps
import Tcell.Props.C08
import Tcell.Model.Views
import Tcell.Model.ViewsTree
import Tcell.Props.C20
import Tcell.Props.C16
import Tcell.Props.C07
import Tcell.Props.C15
import Tcell.Props.C14
import Tcell.Props.C19
import Tcell.Props.C19Page
import Tcell.Spec.Ecma48
import Tcell.Spec.Ecma48Lemmas
import Tcell.Spec.Ecma48Test
import Tcell.Props.C12
import Tcell.Props.C03
