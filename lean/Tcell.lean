-- Root of the `Tcell` library: models, specifications, lemmas and property theorems.
import Tcell.AuditLib
import Tcell.Model.Cell
import Tcell.Model.CellOps
import Tcell.Props.C08
import Tcell.Model.Encode
import Tcell.Model.Sim
import Tcell.Props.C17
import Tcell.Props.C18
