-- Root of the `Tcell` library: models, specifications, lemmas and property theorems.
import Tcell.Model.Cell
import Tcell.Model.CellOps
import Tcell.Props.C08
import Tcell.Spec.Ecma48
import Tcell.Spec.Ecma48Lemmas
import Tcell.Spec.Ecma48Test
