/- UTF-8 encoding of a rune as Go's utf8.EncodeRune does it (invalid runes → U+FFFD). Core-only. -/
namespace Tcell.Utf8

def validRune (r : Int) : Bool := 0 ≤ r ∧ r ≤ 0x10FFFF ∧ ¬ (0xD800 ≤ r ∧ r ≤ 0xDFFF)

def encodeNat (n : Nat) : List Nat :=
  if n < 0x80 then [n]
  else if n < 0x800 then [0xC0 + n / 64, 0x80 + n % 64]
  else if n < 0x10000 then [0xE0 + n / 4096, 0x80 + n / 64 % 64, 0x80 + n % 64]
  else [0xF0 + n / 262144, 0x80 + n / 4096 % 64, 0x80 + n / 64 % 64, 0x80 + n % 64]

/-- utf8.EncodeRune -/
def encode (r : Int) : List Nat := if validRune r then encodeNat r.toNat else [0xEF, 0xBF, 0xBD]

end Tcell.Utf8
