/-
Decimal rendering of naturals / integers as byte lists and the round trip with the digit accumulation
loop every Go parser in tcell uses (`val *= 10; val += int(c - '0')`).  Core Lean only.

* `showDec n`      – ASCII decimal digits of `n` (no leading zeros, "0" for 0)
* `showInt z`      – optional '-' followed by `showDec |z|`
* `accDigits f v ds` – left fold `v ↦ f (v*10 + (d-48))` over the bytes `ds` (with `f = id` the plain
                     accumulation, with `f = wrap64` the Go `int` accumulation)
* `accDigits_showDec` : accumulating the digits of `n` from 0 gives `n` (for any `f` that is the identity on `0..n`)
* `showDec_allDigits`, `showDec_ne_nil`
-/
namespace Tcell

namespace Dec

/-- digits, least significant handled last; `fuel` bounds the recursion (any `fuel > n` is enough) -/
def showDecAux : Nat → Nat → List Nat
  | 0, _ => []
  | f + 1, n => if n < 10 then [48 + n] else showDecAux f (n / 10) ++ [48 + n % 10]

/-- ASCII decimal rendering of `n` -/
def showDec (n : Nat) : List Nat := showDecAux (n + 1) n

/-- rendering of an integer: '-' (45) then the digits of the absolute value -/
def showInt (z : Int) : List Nat := if z < 0 then 45 :: showDec z.natAbs else showDec z.natAbs

def isDigit (c : Nat) : Bool := 48 ≤ c && c ≤ 57

theorem showDecAux_fuel : ∀ (f g n : Nat), n < f → n < g → showDecAux f n = showDecAux g n := by
  intro f
  induction f with
  | zero => intro g n h; omega
  | succ f ih =>
    intro g n hf hg
    cases g with
    | zero => omega
    | succ g =>
      unfold showDecAux
      by_cases h : n < 10
      · simp [h]
      · simp [h]
        have h1 : n / 10 < f := by omega
        have h2 : n / 10 < g := by omega
        rw [ih g (n / 10) h1 h2]

/-- unfolding equation of `showDec` -/
theorem showDec_eq (n : Nat) :
    showDec n = if n < 10 then [48 + n] else showDec (n / 10) ++ [48 + n % 10] := by
  unfold showDec
  show showDecAux (n + 1) n = _
  rw [showDecAux]
  by_cases h : n < 10
  · simp [h]
  · simp [h]
    exact showDecAux_fuel n (n / 10 + 1) (n / 10) (by omega) (by omega)

theorem showDec_ne_nil (n : Nat) : showDec n ≠ [] := by
  rw [showDec_eq]; by_cases h : n < 10 <;> simp [h]

theorem showDec_allDigits (n : Nat) : ∀ c ∈ showDec n, isDigit c = true := by
  induction n using Nat.strongRecOn with
  | _ n ih =>
    rw [showDec_eq]
    by_cases h : n < 10
    · simp [h, isDigit]; omega
    · simp only [h, if_false]
      intro c hc
      rcases List.mem_append.mp hc with hc | hc
      · exact ih (n / 10) (by omega) c hc
      · simp at hc; subst hc; simp [isDigit]; omega

/-- the accumulation loop `val = f (val*10 + (c - '0'))` over a run of digit bytes -/
def accDigits (f : Int → Int) (v : Int) : List Nat → Int
  | [] => v
  | d :: ds => accDigits f (f (v * 10 + ((d : Int) - 48))) ds

theorem accDigits_append (f : Int → Int) (v : Int) (a b : List Nat) :
    accDigits f v (a ++ b) = accDigits f (accDigits f v a) b := by
  induction a generalizing v with
  | nil => rfl
  | cons d ds ih => simp [accDigits, ih]

/-- Round trip: accumulating the digits of `n` from 0 yields `n`, for every post-processing `f`
(e.g. 64-bit wrap-around) that is the identity on the values `0..n`. -/
theorem accDigits_showDec (f : Int → Int) (n : Nat) (hf : ∀ m : Nat, m ≤ n → f m = m) :
    accDigits f 0 (showDec n) = n := by
  induction n using Nat.strongRecOn with
  | _ n ih =>
    rw [showDec_eq]
    by_cases h : n < 10
    · simp only [h, if_true, accDigits]
      have : (0 : Int) * 10 + (((48 + n : Nat) : Int) - 48) = (n : Int) := by omega
      rw [this]; exact hf n (Nat.le_refl n)
    · simp only [h, if_false]
      rw [accDigits_append, ih (n / 10) (by omega) (fun m hm => hf m (by omega))]
      simp only [accDigits]
      have : ((n / 10 : Nat) : Int) * 10 + (((48 + n % 10 : Nat) : Int) - 48) = (n : Int) := by omega
      rw [this]; exact hf n (Nat.le_refl n)

/-- plain decimal parser (no overflow): `parseDec (showDec n) = n` -/
def parseDec (ds : List Nat) : Int := accDigits id 0 ds

theorem parseDec_showDec (n : Nat) : parseDec (showDec n) = n :=
  accDigits_showDec id n (fun _ _ => rfl)

example : showDec 0 = [48] := by decide
example : showDec 1234 = [49, 50, 51, 52] := by decide
example : showInt (-15) = [45, 49, 53] := by decide

end Dec
end Tcell
