/-
References for C15, written from terminfo(5) / ECMA-48 / the terminals' manuals, not from the Go code:

* `stripPadding`: a capability string with every well-formed padding specification `$<n[.m][*][/]>` removed
  (terminfo(5), "Delays and Padding"); everything else, including an unterminated `$<…`, stays.
* cursor-addressing conventions: ANSI CUP `ESC [ Pr ; Pc H` (1-based decimal), VT52 `ESC Y` and Wyse `ESC =`
  (row and column as single bytes offset by 32), HP `ESC & a <row> y <col> C` (0-based decimal), with encoders
  (the string the convention defines for a position) and decoders.
* SGR colour selection decoder (ECMA-48 8.3.117 + the 256-colour extension `38;5;n` / `38:5:n`).
-/
import Tcell.Model.TParm
namespace Tcell.Spec.TermCaps
open Tcell.TParm (isDigit natDigits)

/-! ### padding -/

/-- digits+ [ `.` digits* ] ( `*` | `/` )*  -/
def isPadSpec (c : Bytes) : Bool :=
  let n := c.takeWhile isDigit
  let r := c.dropWhile isDigit
  let r := match r with
    | 46 :: r' => r'.dropWhile isDigit
    | _ => r
  !n.isEmpty && r.all (fun x => x == 42 || x == 47)

/-- if a padding specification starts at the head of `s`: what follows it -/
def matchPad (s : Bytes) : Option Bytes :=
  match s with
  | 36 :: 60 :: r =>
    match r.dropWhile (· != 62) with
    | 62 :: rest => if isPadSpec (r.takeWhile (· != 62)) then some rest else none
    | _ => none
  | _ => none

def stripAux : Nat → Bytes → Bytes
  | 0, _ => []
  | _ + 1, [] => []
  | f + 1, b :: r =>
    match matchPad (b :: r) with
    | some rest => stripAux f rest
    | none => b :: stripAux f r

def stripPadding (s : Bytes) : Bytes := stripAux s.length s

/-- the contents (between `$<` and `>`) of the padding specifications `stripPadding` removes, in order -/
def padSpecsAux : Nat → Bytes → List Bytes
  | 0, _ => []
  | _ + 1, [] => []
  | f + 1, b :: r =>
    match matchPad (b :: r) with
    | some rest => (r.tail.takeWhile (· != 62)) :: padSpecsAux f rest
    | none => padSpecsAux f r

def padSpecs (s : Bytes) : List Bytes := padSpecsAux s.length s

/-! ### cursor addressing -/

inductive CupFamily where
  | ansi                      -- ESC [ r+1 ; c+1 H
  | vt52                      -- ESC Y (r+32) (c+32)
  | wyse                      -- ESC = (r+32) (c+32)
  | hp                        -- ESC & a r y c C
  deriving DecidableEq, Repr, Inhabited

/-- the string the convention defines for (row, col) -/
def CupFamily.encode : CupFamily → Nat → Nat → Bytes
  | .ansi, r, c => [27, 91] ++ natDigits (r + 1) ++ [59] ++ natDigits (c + 1) ++ [72]
  | .vt52, r, c => [27, 89, r + 32, c + 32]
  | .wyse, r, c => [27, 61, r + 32, c + 32]
  | .hp, r, c => [27, 38, 97] ++ natDigits r ++ [121] ++ natDigits c ++ [67]

/-- positions the convention can express -/
def CupFamily.expressible : CupFamily → Nat → Nat → Bool
  | .vt52, r, c | .wyse, r, c => r < 224 && c < 224
  | _, _, _ => true

/-- read a decimal number: value and rest; `none` if no digit -/
def readDec (s : Bytes) : Option (Nat × Bytes) :=
  let ds := s.takeWhile isDigit
  if ds.isEmpty then none else some (TParm.decVal ds, s.dropWhile isDigit)

/-- decoders: (row, col), 0-based -/
def CupFamily.decode : CupFamily → Bytes → Option (Nat × Nat)
  | .ansi, 27 :: 91 :: s =>
    match readDec s with
    | some (r, 59 :: s') =>
      match readDec s' with
      | some (c, 72 :: s'') => if s''.isEmpty && r ≥ 1 && c ≥ 1 then some (r - 1, c - 1) else none
      | _ => none
    | _ => none
  | .vt52, [27, 89, r, c] => if r ≥ 32 && c ≥ 32 then some (r - 32, c - 32) else none
  | .wyse, [27, 61, r, c] => if r ≥ 32 && c ≥ 32 then some (r - 32, c - 32) else none
  | .hp, 27 :: 38 :: 97 :: s =>
    match readDec s with
    | some (r, 121 :: s') =>
      match readDec s' with
      | some (c, [67]) => some (r, c)
      | _ => none
    | _ => none
  | _, _ => none

/-- the addressing convention of a terminal, by its name (VT52 manual; Wyse 50/60 `ESC =`; HP `ESC &a`;
everything else in the database is an ECMA-48 terminal).  The bytes that reach the terminal are the capability
output with the padding removed, so decoders are applied to `stripPadding out`. -/
def familyOfName (name : String) : CupFamily :=
  if name == "vt52" then .vt52
  else if name == "wy50" || name == "wy60" then .wyse
  else if name == "hpterm" then .hp
  else .ansi

/-! ### colour selection (SGR) -/

/-- split on a separator byte -/
def splitOn (sep : Nat) : Bytes → List Bytes
  | [] => [[]]
  | b :: r =>
    if b == sep then [] :: splitOn sep r
    else match splitOn sep r with
      | h :: t => (b :: h) :: t
      | [] => [[b]]

def num? (s : Bytes) : Option Nat := if !s.isEmpty && s.all isDigit then some (TParm.decVal s) else none

structure Sel where
  fg : Option Nat := none
  bg : Option Nat := none
  deriving DecidableEq, Repr, Inhabited

/-- interpret the parameter list of one SGR; `none` = something that is not a colour selection -/
def sgrParams : List Bytes → Sel → Option Sel
  | [], s => some s
  | p :: rest, s =>
    match splitOn 58 p with
    | [a] =>
      match num? a with
      | none => none
      | some n =>
        if 30 ≤ n && n ≤ 37 then sgrParams rest { s with fg := some (n - 30) }
        else if 40 ≤ n && n ≤ 47 then sgrParams rest { s with bg := some (n - 40) }
        else if 90 ≤ n && n ≤ 97 then sgrParams rest { s with fg := some (n - 90 + 8) }
        else if 100 ≤ n && n ≤ 107 then sgrParams rest { s with bg := some (n - 100 + 8) }
        else if n == 38 || n == 48 then
          match rest with
          | f :: v :: rest' =>
            match num? f, num? v with
            | some 5, some c => sgrParams rest' (if n == 38 then { s with fg := some c } else { s with bg := some c })
            | _, _ => none
          | _ => none
        else none
    | [a, f, v] =>
      match num? a, num? f, num? v with
      | some 38, some 5, some c => sgrParams rest { s with fg := some c }
      | some 48, some 5, some c => sgrParams rest { s with bg := some c }
      | _, _, _ => none
    | _ => none

/-- decode a byte string made of SGR sequences `ESC [ … m` into the colours it selects -/
def decodeSel : Nat → Bytes → Sel → Option Sel
  | 0, _, _ => none
  | _ + 1, [], s => some s
  | f + 1, 27 :: 91 :: r, s =>
    match r.dropWhile (· != 109) with
    | 109 :: rest =>
      match sgrParams (splitOn 59 (r.takeWhile (· != 109))) s with
      | some s' => decodeSel f rest s'
      | none => none
    | _ => none
  | _ + 1, _, _ => none

/-- what TColor(fg, bg) has to select on a terminal with `colors` colours: bright colours fold onto the basic
eight on an 8-colour terminal, negative or out-of-range components select nothing -/
def wantOne (colors : Int) (c : Int) : Option Nat :=
  let c := if colors == 8 && 8 ≤ c && c ≤ 15 then c - 8 else c
  if 0 ≤ c && c < colors then some c.toNat else none

def wantSel (colors fg bg : Int) : Sel := { fg := wantOne colors fg, bg := wantOne colors bg }

end Tcell.Spec.TermCaps
