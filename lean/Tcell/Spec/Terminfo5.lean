/-
Reference semantics of terminfo(5) parameterized strings ("Parameterized Strings" section of the manual page),
written from the manual, not from the Go code:

* a lexer (bytes → tokens), a parser (tokens → AST with properly nested `%? … %t … %e … %;`, else-if chains
  sharing one `%;`) and a *structural* evaluator over the AST: a conditional is evaluated by evaluating its
  test and then exactly one of its branches – there is no "skipping" in the reference;
* `render : Prog → Bytes` is the concrete syntax of an AST; `parse s = some a → render a = s` holds by construction
  (`parse` checks it), so "s is well-formed" is `∃ a, render a = s`.

Shared with the model (Tcell.Model.TParm): the value type, 64-bit `wrap64`, decimal `itoa`/`atoi`.
Conventions where the manual is silent (recorded in the trusted base of C07):
  (1) popping an empty stack yields 0 / "";  (2) a parameter that was not supplied is 0 in numeric and "" in string
  context;  (3) a number used as a string is its decimal rendering, a string used as a number is its decimal value
  (0 if it is not a decimal numeral);  (4) variables therefore hold the string form of what was stored
  (`TParm.atoi (TParm.itoa n) = n`, so nothing is lost), an unset variable reads as "" / 0;  (5) numbers are 64-bit.
printf formats follow C printf(3) for d o x X s c with flags `- + # space 0`, width and precision.  Where C leaves the
result undefined or where it depends on the C `int` width, `unspecified` says so and the oracle does not judge.
-/
import Tcell.Model.TParm
namespace Tcell.Spec.Terminfo5
open Tcell.TParm (Value St Vars wrap64 itoa atoi natDigits baseDigits popInt popStr ofBool isDigit decVal spaces
  band bor bxor put)

inductive Conv where | d | o | x | X | s | c
  deriving DecidableEq, Repr, Inhabited

def Conv.byte : Conv → Nat
  | .d => 100 | .o => 111 | .x => 120 | .X => 88 | .s => 115 | .c => 99

/-- `%[[:]flags][width[.precision]]conv` as written -/
structure FmtSpec where
  colon : Bool := false
  flags : Bytes := []          -- characters from `- + # space`
  width : Bytes := []          -- digits as written; a leading `0` is C's zero flag
  prec : Option Bytes := none  -- digits after the dot
  conv : Conv := .d
  deriving DecidableEq, Repr, Inhabited

inductive BinOp where | add | sub | mul | div | mod | and | or | xor | eq | gt | lt | logAnd | logOr
  deriving DecidableEq, Repr, Inhabited

def BinOp.byte : BinOp → Nat
  | .add => 43 | .sub => 45 | .mul => 42 | .div => 47 | .mod => 109 | .and => 38 | .or => 124 | .xor => 94
  | .eq => 61 | .gt => 62 | .lt => 60 | .logAnd => 65 | .logOr => 79

/-- the tokens other than the four conditional markers -/
inductive Tok where
  | lit (b : Nat)            -- any byte but `%`
  | pct                      -- %%
  | param (i : Nat)          -- %p1 … %p9  (i = 1 … 9)
  | incr                     -- %i
  | outD | outC | outS       -- %d %c %s
  | fmt (f : FmtSpec)
  | setDyn (i : Nat) | setStat (i : Nat) | getDyn (i : Nat) | getStat (i : Nat)   -- %P[a-z] %P[A-Z] %g[a-z] %g[A-Z], i = 0 … 25
  | chr (c : Nat)            -- %'c'
  | num (ds : Bytes)         -- %{ds}
  | strlen                   -- %l
  | bin (o : BinOp)
  | lnot | bnot              -- %! %~
  deriving DecidableEq, Repr, Inhabited

def FmtSpec.render (f : FmtSpec) : Bytes :=
  37 :: ((if f.colon then [58] else []) ++ f.flags ++ f.width ++
    (match f.prec with | some p => 46 :: p | none => []) ++ [f.conv.byte])

def Tok.render : Tok → Bytes
  | .lit b => [b]
  | .pct => [37, 37]
  | .param i => [37, 112, 48 + i]
  | .incr => [37, 105]
  | .outD => [37, 100] | .outC => [37, 99] | .outS => [37, 115]
  | .fmt f => f.render
  | .setDyn i => [37, 80, 97 + i] | .setStat i => [37, 80, 65 + i]
  | .getDyn i => [37, 103, 97 + i] | .getStat i => [37, 103, 65 + i]
  | .chr c => [37, 39, c, 39]
  | .num ds => [37, 123] ++ ds ++ [125]
  | .strlen => [37, 108]
  | .bin o => [37, o.byte]
  | .lnot => [37, 33] | .bnot => [37, 126]

def isFlagC (c : Nat) : Bool := c == 45 || c == 43 || c == 35 || c == 32

/-- side conditions that make `render` the concrete syntax of the manual -/
def FmtSpec.valid (f : FmtSpec) : Bool :=
  f.flags.all isFlagC && f.width.all isDigit && (f.prec.getD []).all isDigit
  && (f.colon || (f.flags.head? != some 45 && f.flags.head? != some 43))          -- `%-` / `%+` are the operators
  && (f.prec.isNone || !f.width.isEmpty)                                          -- precision only after a width
  && (f.colon || !f.flags.isEmpty || !f.width.isEmpty ||
        f.conv == .o || f.conv == .x || f.conv == .X)                             -- plain %d %s %c are their own tokens

def Tok.valid : Tok → Bool
  | .lit b => b != 37 && b < 256
  | .param i => 1 ≤ i && i ≤ 9
  | .fmt f => f.valid
  | .setDyn i | .setStat i | .getDyn i | .getStat i => i < 26
  | .chr c => c < 256
  | .num ds => !ds.isEmpty && ds.all isDigit && decVal ds < 9223372036854775808
  | _ => true

/-! ### AST -/

mutual
inductive Prog where
  | nil
  | tok (t : Tok) (rest : Prog)
  | cond (c : Chain) (rest : Prog)      -- `%?` c `%;` rest
inductive Chain where
  | fi (test thn : Prog)                    -- test `%t` thn
  | els (test thn els : Prog)               -- test `%t` thn `%e` els
  | elif (test thn : Prog) (next : Chain)   -- test `%t` thn `%e` next      (else-if: no new `%?`)
end

mutual
def Prog.render : Prog → Bytes
  | .nil => []
  | .tok t r => t.render ++ r.render
  | .cond c r => [37, 63] ++ c.render ++ [37, 59] ++ r.render
def Chain.render : Chain → Bytes
  | .fi a b => a.render ++ [37, 116] ++ b.render
  | .els a b c => a.render ++ [37, 116] ++ b.render ++ [37, 101] ++ c.render
  | .elif a b n => a.render ++ [37, 116] ++ b.render ++ [37, 101] ++ n.render
end

mutual
def Prog.valid : Prog → Bool
  | .nil => true
  | .tok t r => t.valid && r.valid
  | .cond c r => c.valid && r.valid
def Chain.valid : Chain → Bool
  | .fi a b => a.valid && b.valid
  | .els a b c => a.valid && b.valid && c.valid
  | .elif a b n => a.valid && b.valid && n.valid
end

mutual
/-- nesting depth of conditionals -/
def Prog.depth : Prog → Nat
  | .nil => 0
  | .tok _ r => r.depth
  | .cond c r => max (c.depth + 1) r.depth
def Chain.depth : Chain → Nat
  | .fi a b => max a.depth b.depth
  | .els a b c => max a.depth (max b.depth c.depth)
  | .elif a b n => max a.depth (max b.depth n.depth)
end

mutual
def Prog.all (p : Tok → Bool) : Prog → Bool
  | .nil => true
  | .tok t r => p t && r.all p
  | .cond c r => c.all p && r.all p
def Chain.all (p : Tok → Bool) : Chain → Bool
  | .fi a b => a.all p && b.all p
  | .els a b c => a.all p && b.all p && c.all p
  | .elif a b n => a.all p && b.all p && n.all p
end

def Tok.paramIdx : Tok → Nat
  | .param i => i
  | _ => 0

mutual
/-- the largest `%p` index used -/
def Prog.maxParam : Prog → Nat
  | .nil => 0
  | .tok t r => max t.paramIdx r.maxParam
  | .cond c r => max c.maxParam r.maxParam
def Chain.maxParam : Chain → Nat
  | .fi a b => max a.maxParam b.maxParam
  | .els a b c => max a.maxParam (max b.maxParam c.maxParam)
  | .elif a b n => max a.maxParam (max b.maxParam n.maxParam)
end

/-- tokens the pinned code handles as terminfo(5) says (no `%A`/`%O`, no `#`/space flag without a colon) -/
def Tok.pinnedOk : Tok → Bool
  | .bin .logAnd | .bin .logOr => false
  | .fmt f => f.colon || f.flags.isEmpty
  | _ => true

/-! ### structural evaluator, generic in the state and in the meaning of the simple tokens -/

section eval
variable {σ : Type} (sem : Tok → σ → σ) (test : σ → Bool × σ)

mutual
def Prog.evalG : Prog → σ → σ
  | .nil, s => s
  | .tok t r, s => r.evalG (sem t s)
  | .cond c r, s => r.evalG (c.evalG s)
def Chain.evalG : Chain → σ → σ
  | .fi a b, s => let r := test (a.evalG s); if r.1 then b.evalG r.2 else r.2
  | .els a b c, s => let r := test (a.evalG s); if r.1 then b.evalG r.2 else c.evalG r.2
  | .elif a b n, s => let r := test (a.evalG s); if r.1 then b.evalG r.2 else n.evalG r.2
end
end eval

/-! ### meaning of the simple tokens (terminfo(5)) -/

/-- pop two numbers: the manual's `%- : push(pop2 - pop1)` etc.; returns (first pushed, last pushed, rest) -/
def pop2 (k : TParm.Stack) : Int × Int × TParm.Stack :=
  let (y, k) := popInt k
  let (x, k) := popInt k
  (x, y, k)

def BinOp.apply : BinOp → Int → Int → Value
  | .add, x, y => .int (wrap64 (x + y))
  | .sub, x, y => .int (wrap64 (x - y))
  | .mul, x, y => .int (wrap64 (x * y))
  | .div, x, y => .int (if y = 0 then 0 else wrap64 (Int.tdiv x y))     -- C division truncates; /0 yields 0 (ncurses)
  | .mod, x, y => .int (if y = 0 then 0 else Int.tmod x y)
  | .and, x, y => .int (band x y)
  | .or, x, y => .int (bor x y)
  | .xor, x, y => .int (bxor x y)
  | .eq, x, y => ofBool (x == y)
  | .gt, x, y => ofBool (x > y)
  | .lt, x, y => ofBool (x < y)
  | .logAnd, x, y => ofBool (x != 0 && y != 0)
  | .logOr, x, y => ofBool (x != 0 || y != 0)

/-- C printf for an integer conversion -/
def cFmtInt (f : FmtSpec) (v : Int) : Bytes :=
  let zero := f.width.head? == some 48
  let width := decVal f.width
  let left := f.flags.contains 45
  let prec := f.prec.map decVal
  let mag := v.natAbs
  let digits :=
    match f.conv with
    | .o => baseDigits 8 false mag
    | .x => baseDigits 16 false mag
    | .X => baseDigits 16 true mag
    | _ => natDigits mag
  let digits := if prec == some 0 && mag == 0 then [] else digits
  let digits := spaces ((prec.getD 0) - digits.length) 48 ++ digits
  let «prefix» :=
    match f.conv with
    | .d => if v < 0 then [45] else if f.flags.contains 43 then [43] else if f.flags.contains 32 then [32] else []
    | .o => if f.flags.contains 35 && digits.head? != some 48 then [48] else []
    | .x => if f.flags.contains 35 && mag != 0 then [48, 120] else []
    | .X => if f.flags.contains 35 && mag != 0 then [48, 88] else []
    | _ => []
  let body := «prefix» ++ digits
  if left then body ++ spaces (width - body.length)
  else if zero && prec.isNone then «prefix» ++ spaces (width - body.length) 48 ++ digits
  else spaces (width - body.length) ++ body

def cFmtStr (f : FmtSpec) (s : Bytes) : Bytes :=
  let s := match f.prec with | some p => s.take (decVal p) | none => s
  let width := decVal f.width
  if f.flags.contains 45 then s ++ spaces (width - s.length) else spaces (width - s.length) ++ s

def sem (t : Tok) (s : St) : St :=
  match t with
  | .lit b => put s [b]
  | .pct => put s [37]
  | .param i => { s with stk := s.params.getD (i - 1) (.str []) :: s.stk }
  | .incr =>  -- "add 1 to first two parameters (for ANSI terminals)": numeric parameters only
    { s with params := (s.params.modify 0 TParm.incParam).modify 1 TParm.incParam }
  | .outD => let (a, k) := popInt s.stk; put { s with stk := k } (itoa a)
  | .outC => let (a, k) := popInt s.stk; put { s with stk := k } [(a % 256).toNat]
  | .outS => let (a, k) := popStr s.stk; put { s with stk := k } a
  | .fmt f =>
    match f.conv with
    | .s => let (a, k) := popStr s.stk; put { s with stk := k } (cFmtStr f a)
    | .c => let (a, k) := popInt s.stk; put { s with stk := k } (cFmtStr { f with prec := none } [(a % 256).toNat])
    | _ => let (a, k) := popInt s.stk; put { s with stk := k } (cFmtInt f a)
  | .setDyn i => let (a, k) := popStr s.stk; { s with stk := k, dvars := s.dvars.put i a }
  | .setStat i => let (a, k) := popStr s.stk; { s with stk := k, svars := s.svars.put i a }
  | .getDyn i => { s with stk := .str (s.dvars.get i) :: s.stk }
  | .getStat i => { s with stk := .str (s.svars.get i) :: s.stk }
  | .chr c => { s with stk := .int c :: s.stk }
  | .num ds => { s with stk := .int (decVal ds) :: s.stk }
  | .strlen => let (a, k) := popStr s.stk; { s with stk := .int a.length :: k }
  | .bin o => let (x, y, k) := pop2 s.stk; { s with stk := o.apply x y :: k }
  | .lnot => let (a, k) := popInt s.stk; { s with stk := ofBool (a == 0) :: k }
  | .bnot => let (a, k) := popInt s.stk; { s with stk := .int (-a - 1) :: k }

/-- `%t`: pop, non-zero = true -/
def test (s : St) : Bool × St := let (a, k) := popInt s.stk; (a != 0, { s with stk := k })

/-- executing `t` in state `s` leaves the domain where terminfo(5)/C printf define the result independently of
the C integer width (the oracle does not judge such runs) -/
def unspecified (t : Tok) (s : St) : Bool :=
  match t with
  | .fmt f =>
    let zero := f.width.head? == some 48
    match f.conv with
    | .d => -- C prints the sign of a zero with precision 0 ("+"), Go prints only the padding: not judged
            (popInt s.stk).1 == 0 && f.prec.map decVal == some 0 && (f.flags.contains 43 || f.flags.contains 32)
    | .s => let a := (popStr s.stk).1
            zero || ((!f.width.isEmpty || f.prec.isSome) && a.any (· ≥ 128))
    | .c => let a := (popInt s.stk).1
            zero || a < 0 || a ≥ 128
    | _ => let a := (popInt s.stk).1
           a < 0 || f.flags.contains 43 || f.flags.contains 32 || (f.flags.contains 35 && (a == 0 || zero))
  | .num ds => decVal ds ≥ 9223372036854775808
  | _ => false

def eval (a : Prog) (s : St) : St := a.evalG sem test s

/-- the reference result of `tparm(prog, params…)` with the static variables before the call -/
def tparm (a : Prog) (params : List Value) (svars : Vars) : Bytes × Vars :=
  let s := eval a { params := TParm.pad9 params, svars := svars }
  (s.out, s.svars)

/-- did the reference run stay inside the specified domain?  (evaluates with a flag) -/
def specified (a : Prog) (params : List Value) (svars : Vars) : Bool :=
  let r := a.evalG (σ := St × Bool) (fun t p => (sem t p.1, p.2 && !unspecified t p.1))
    (fun p => let r := test p.1; (r.1, (r.2, p.2))) ({ params := TParm.pad9 params, svars := svars }, true)
  r.2

/-! ### lexer and parser -/

inductive Lexeme where
  | tok (t : Tok) | qm | thn | els | fi
  deriving DecidableEq, Repr, Inhabited

def convOf (c : Nat) : Option Conv :=
  if c == 100 then some .d else if c == 111 then some .o else if c == 120 then some .x
  else if c == 88 then some .X else if c == 115 then some .s else if c == 99 then some .c else none

def binOf (c : Nat) : Option BinOp :=
  if c == 43 then some .add else if c == 45 then some .sub else if c == 42 then some .mul
  else if c == 47 then some .div else if c == 109 then some .mod else if c == 38 then some .and
  else if c == 124 then some .or else if c == 94 then some .xor else if c == 61 then some .eq
  else if c == 62 then some .gt else if c == 60 then some .lt else if c == 65 then some .logAnd
  else if c == 79 then some .logOr else none

/-- a printf-like token; `s` is what follows `%` -/
def lexFmt (s : Bytes) : Option (Tok × Bytes) :=
  let (colon, s) := match s with | 58 :: r => (true, r) | _ => (false, s)
  let flags := s.takeWhile isFlagC
  let s := s.dropWhile isFlagC
  let width := s.takeWhile isDigit
  let s := s.dropWhile isDigit
  let (prec, s) := match s with
    | 46 :: r => (some (r.takeWhile isDigit), r.dropWhile isDigit)
    | _ => (none, s)
  match s with
  | c :: r =>
    match convOf c with
    | some cv =>
      let f : FmtSpec := { colon, flags, width, prec, conv := cv }
      if f.valid then some (.fmt f, r) else none
    | none => none
  | [] => none

/-- one lexeme from a non-empty input -/
def lex1 (s : Bytes) : Option (Lexeme × Bytes) :=
  match s with
  | [] => none
  | 37 :: c :: r =>
    if c == 37 then some (.tok .pct, r)
    else if c == 63 then some (.qm, r) else if c == 116 then some (.thn, r)
    else if c == 101 then some (.els, r) else if c == 59 then some (.fi, r)
    else if c == 105 then some (.tok .incr, r)
    else if c == 100 then some (.tok .outD, r) else if c == 99 then some (.tok .outC, r)
    else if c == 115 then some (.tok .outS, r)
    else if c == 108 then some (.tok .strlen, r)
    else if c == 33 then some (.tok .lnot, r) else if c == 126 then some (.tok .bnot, r)
    else if c == 112 then
      match r with
      | d :: r' => if 49 ≤ d && d ≤ 57 then some (.tok (.param (d - 48)), r') else none
      | [] => none
    else if c == 80 || c == 103 then
      match r with
      | d :: r' =>
        if 97 ≤ d && d ≤ 122 then some (.tok (if c == 80 then .setDyn (d - 97) else .getDyn (d - 97)), r')
        else if 65 ≤ d && d ≤ 90 then some (.tok (if c == 80 then .setStat (d - 65) else .getStat (d - 65)), r')
        else none
      | [] => none
    else if c == 39 then
      match r with
      | x :: 39 :: r' => some (.tok (.chr x), r')
      | _ => none
    else if c == 123 then
      let ds := r.takeWhile isDigit
      match r.dropWhile isDigit with
      | 125 :: r' => if (Tok.num ds).valid then some (.tok (.num ds), r') else none
      | _ => none
    else match binOf c with
      | some o => some (.tok (.bin o), r)
      | none => (lexFmt (c :: r)).map fun p => (.tok p.1, p.2)
  | [37] => none
  | b :: r => some (.tok (.lit b), r)

def lex : Nat → Bytes → Option (List Lexeme)
  | 0, s => if s.isEmpty then some [] else none
  | fuel + 1, s =>
    if s.isEmpty then some [] else
    match lex1 s with
    | none => none
    | some (l, r) => (lex fuel r).map (l :: ·)

mutual
/-- Prog := Item*  (stops in front of `%t`, `%e`, `%;` or at the end);  Item := token | `%?` Prog `%t` Rest `%;` -/
def parseProg : Nat → List Lexeme → Option (Prog × List Lexeme)
  | 0, _ => none
  | fuel + 1, ls =>
    match ls with
    | .tok t :: r => (parseProg fuel r).map fun p => (.tok t p.1, p.2)
    | .qm :: r =>
      match parseProg fuel r with
      | some (a, .thn :: r1) =>
        match parseRest fuel a r1 with
        | some (c, .fi :: r2) => (parseProg fuel r2).map fun p => (.cond c p.1, p.2)
        | _ => none
      | _ => none
    | _ => some (.nil, ls)
/-- what follows the `%t` of test `a`:  Prog [ `%e` ( Prog `%t` Rest  |  Prog ) ]
(an else part followed by `%t` at this level is the test of an else-if) -/
def parseRest : Nat → Prog → List Lexeme → Option (Chain × List Lexeme)
  | 0, _, _ => none
  | fuel + 1, a, ls =>
    match parseProg fuel ls with
    | some (b, .els :: r1) =>
      match parseProg fuel r1 with
      | some (p, .thn :: r2) => (parseRest fuel p r2).map fun q => (.elif a b q.1, q.2)
      | some (p, r2) => some (.els a b p, r2)
      | none => none
    | some (b, r1) => some (.fi a b, r1)
    | none => none
end

/-- bytes → AST; succeeds only if the AST is valid and renders back to exactly the input -/
def parse (s : Bytes) : Option Prog :=
  match lex (s.length + 1) s with
  | none => none
  | some ls =>
    match parseProg (2 * ls.length + 2) ls with
    | some (a, []) => if a.valid && a.render == s then some a else none
    | _ => none

def wellFormed (s : Bytes) : Bool := (parse s).isSome

end Tcell.Spec.Terminfo5
