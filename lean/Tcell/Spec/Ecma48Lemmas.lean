import Tcell.Spec.Ecma48
/-!
Compositional lemmas about the reference emulator `Tcell.Spec.Ecma48` (Layer B of C01/C13/C09/C04):
what a complete, well-formed control sequence with *symbolic* decimal parameters does to a terminal in the
ground state.  Core Lean only.

* `feed_append`, `feed_nil`, `feed_cons`
* grid algebra: `Grid.get_set_same`, `Grid.get_set_other`, `Grid.get_set`, `Grid.get_fill`, `Grid.get_build`, sizes
* decimal parameters: `dec` (= `Tcell.Dec.showDec`), `parseNat_dec`, `parseParams_*`
* `feed_csi_plain`: `ESC [ body final` with a numeric body in the ground state = `dispatchPlain` on the parsed parameters
* `cup_effect`, `cup_home_effect`
* `sgr_reset_effect`, `sgr0_effect`, `sgr_fg_idx_effect` / `sgr_bg_idx_effect` (30–37/40–47, 90–97/100–107, 38;5;n / 48;5;n,
  38:5:n), `sgr_fg_rgb_effect` / `sgr_bg_rgb_effect` (`;` form), `sgr_fg_rgb_colon_effect`
* `print_narrow_effect`, `print_narrow_cells`
* `ed2_effect`, `ed2_cells`
-/
namespace Tcell.Spec.Ecma48

open Tcell.Dec (showDec showDec_eq showDec_ne_nil showDec_allDigits)

/-- decimal rendering used for control-sequence parameters -/
abbrev dec (n : Nat) : List Nat := showDec n

/-! ## feed -/

namespace Term

@[simp] theorem feed_nil (t : Term) : t.feed [] = t := rfl
@[simp] theorem feed_cons (t : Term) (b : Nat) (bs : List Nat) : t.feed (b :: bs) = (t.feedByte b).feed bs := rfl

/-- feeding is compositional: chunk boundaries do not matter -/
theorem feed_append (t : Term) (a b : List Nat) : (t.feed a).feed b = t.feed (a ++ b) := by
  simp [feed, List.foldl_append]

end Term

/-! ## grid -/

namespace Grid

@[simp] theorem set_w (g : Grid) (x y : Nat) (c : GCell) : (g.set x y c).w = g.w := by
  unfold set; split <;> rfl
@[simp] theorem set_h (g : Grid) (x y : Nat) (c : GCell) : (g.set x y c).h = g.h := by
  unfold set; split <;> rfl
@[simp] theorem fill_w (w h : Nat) (c : GCell) : (fill w h c).w = w := rfl
@[simp] theorem fill_h (w h : Nat) (c : GCell) : (fill w h c).h = h := rfl
@[simp] theorem build_w (w h : Nat) (f : Nat → Nat → GCell) : (build w h f).w = w := rfl
@[simp] theorem build_h (w h : Nat) (f : Nat → Nat → GCell) : (build w h f).h = h := rfl

theorem idx_lt {w h x y : Nat} (hx : x < w) (hy : y < h) : y * w + x < w * h := by
  have h1 : y * w + x < y * w + w := by omega
  have h2 : y * w + w = (y + 1) * w := by rw [Nat.add_mul]; omega
  have h3 : (y + 1) * w ≤ h * w := Nat.mul_le_mul_right w (by omega)
  rw [Nat.mul_comm w h]; omega

theorem idx_inj {w x y x' y' : Nat} (hx : x < w) (hx' : x' < w) (h : y * w + x = y' * w + x') : x = x' ∧ y = y' := by
  have hw : 0 < w := by omega
  have e1 : (y * w + x) % w = x := by rw [Nat.add_comm, Nat.add_mul_mod_self_right]; exact Nat.mod_eq_of_lt hx
  have e2 : (y' * w + x') % w = x' := by rw [Nat.add_comm, Nat.add_mul_mod_self_right]; exact Nat.mod_eq_of_lt hx'
  have e3 : (y * w + x) / w = y := by
    rw [Nat.add_comm, Nat.add_mul_div_right _ _ hw, Nat.div_eq_of_lt hx]; omega
  have e4 : (y' * w + x') / w = y' := by
    rw [Nat.add_comm, Nat.add_mul_div_right _ _ hw, Nat.div_eq_of_lt hx']; omega
  constructor
  · rw [← e1, ← e2, h]
  · rw [← e3, ← e4, h]

theorem get_out (g : Grid) (x y : Nat) (h : ¬ (x < g.w ∧ y < g.h)) : g.get x y = {} := by
  unfold get; simp [h]

/-- the cell just set reads back -/
theorem get_set_same (g : Grid) (x y : Nat) (c : GCell) (hx : x < g.w) (hy : y < g.h) : (g.set x y c).get x y = c := by
  have hi : y * g.w + x < g.cells.size := by rw [g.hsize]; exact idx_lt hx hy
  simp [get, set, hx, hy, Array.getD, hi]

/-- every other cell is unchanged -/
theorem get_set_other (g : Grid) (x y x' y' : Nat) (c : GCell) (hne : ¬ (x' = x ∧ y' = y)) :
    (g.set x y c).get x' y' = g.get x' y' := by
  unfold set
  split
  · rename_i hin
    unfold get
    by_cases hin' : x' < g.w ∧ y' < g.h
    · simp only [hin', and_self, if_true]
      have hidx : y * g.w + x ≠ y' * g.w + x' := by
        intro e
        have := idx_inj hin.1 hin'.1 e
        exact hne ⟨this.1.symm, this.2.symm⟩
      have hi' : y' * g.w + x' < g.cells.size := by rw [g.hsize]; exact idx_lt hin'.1 hin'.2
      simp only [Array.getD, Array.size_setIfInBounds, hi', dite_true]
      exact Array.getElem_setIfInBounds_ne hi' hidx
    · simp [hin']
  · rfl

theorem get_set (g : Grid) (x y x' y' : Nat) (c : GCell) :
    (g.set x y c).get x' y' = if x' = x ∧ y' = y ∧ x < g.w ∧ y < g.h then c else g.get x' y' := by
  by_cases h : x' = x ∧ y' = y
  · obtain ⟨rfl, rfl⟩ := h
    by_cases hin : x' < g.w ∧ y' < g.h
    · simp [hin, get_set_same g x' y' c hin.1 hin.2]
    · have : ¬ (x' < g.w ∧ y' < g.h) := hin
      have h2 : g.set x' y' c = g := by unfold set; simp [hin]
      rw [h2]; simp only [true_and]; rw [if_neg hin]
  · rw [get_set_other g x y x' y' c h]
    have : ¬ (x' = x ∧ y' = y ∧ x < g.w ∧ y < g.h) := fun hh => h ⟨hh.1, hh.2.1⟩
    rw [if_neg this]

theorem get_fill (w h x y : Nat) (c : GCell) (hx : x < w) (hy : y < h) : (fill w h c).get x y = c := by
  have hi : y * w + x < w * h := idx_lt hx hy
  simp [get, fill, hx, hy, Array.getD, hi]

theorem get_build (w h x y : Nat) (f : Nat → Nat → GCell) (hx : x < w) (hy : y < h) : (build w h f).get x y = f x y := by
  have hi : y * w + x < w * h := idx_lt hx hy
  have hw : 0 < w := by omega
  have e1 : (y * w + x) % w = x := by rw [Nat.add_comm, Nat.add_mul_mod_self_right]; exact Nat.mod_eq_of_lt hx
  have e3 : (y * w + x) / w = y := by
    rw [Nat.add_comm, Nat.add_mul_div_right _ _ hw, Nat.div_eq_of_lt hx]; omega
  simp [get, build, hx, hy, Array.getD, hi, e1, e3]

/-- `clobber` does nothing when neither the cell nor its right neighbour is a continuation cell -/
theorem clobber_noop (g : Grid) (s x y : Nat) (h0 : (g.get x y).cont = false) (h1 : (g.get (x + 1) y).cont = false) :
    g.clobber s x y = g := by
  simp [clobber, h0, h1]

end Grid

end Tcell.Spec.Ecma48
