import Tcell.Spec.Ecma48
/-!
Compositional lemmas about the reference emulator `Tcell.Spec.Ecma48` (Layer B of C01/C13/C09/C04):
what a complete, well-formed control sequence with *symbolic* decimal parameters does to a terminal in the
ground state.  Core Lean only.

* `feed_append`, `feed_nil`, `feed_cons`
* grid algebra: `Grid.get_set_same`, `Grid.get_set_other`, `Grid.get_set`, `Grid.get_fill`, `Grid.get_build`, `Grid.clobber_noop`
* decimal parameters: `dec` (= `Tcell.Dec.showDec`), `parseNat_dec`, `parseNum_dec`, `dec_lt10`, `dec_append_digit`,
  `splitBy_*`, `parseParam_cons/last/dec`, `parseParams_cons/last/append`
* lexing: `feed_csi` (`ESC [ body final` = `dispatchCsi`), `feed_csi_plain` (numeric body = `dispatchPlain` on the parsed
  parameters), `parseCsiBody_numeric/private`, `feed_osc_st`, `feed_osc_bel` (= `dispatchOsc` on the payload)
* cursor: `cup_effect` (∀ r c), `cup_home_effect`
* SGR: `sgr_reset_effect`, `sgr0_effect`, `sgr_single`, `sgr_fg_idx_effect` / `sgr_bg_idx_effect` (30–37 / 40–47),
  `sgr_fg_bright_effect` / `sgr_bg_bright_effect` (90–97 / 100–107), `sgr_ext_idx_effect` (38/48/58 ; 5 ; n) with
  `sgr_fg_256_effect` / `sgr_bg_256_effect`, `sgr_ext_rgb_effect` (38/48/58 ; 2 ; r ; g ; b) with `sgr_fg_rgb_effect` /
  `sgr_bg_rgb_effect`, colon forms `sgr_colon_idx_effect` (w:5:n), `sgr_colon_rgb_effect` (w:2::r:g:b),
  `sgr_ul_style_effect` (4:s); composition: `applySgr_step`, `applySgr_fuel`, `sgr_cons`, `sgr_cons_ext5`,
  `sgr_cons_ext2`, `sgr_two_effect` (`ESC [ a ; b m` = the two SGRs in sequence)
* SGR frame: `sgr_frame` (SGR changes only pen – never its hyperlink –, `penKnown`, font selection, complaints), `sgr_st`
* modes: `decset_effect`, `decrst_effect` (∀ n: = `decMode n on`), `decMode_st`
* OSC 8: `osc8_open_effect`, `osc8_close_effect`
* printing: `print_narrow_effect`, `print_narrow_cells`, `print_last_col_effect` (ASCII bytes through `feedByte`);
  `feed_utf8Enc` (the UTF-8 bytes of any scalar value ≥ 0x80 = `printCp`), `putNarrow_effect`, `putWide_effect`,
  `putCombining_effect` (glyph level, any code point)
* erase: `ed2_effect`, `ed2_cells`, `clear_effect` (`ESC [ H ESC [ 2 J`)

How to derive the effect of another fixed capability string on a symbolic terminal `t` with `t.st = .ground`: cut it into
complete sequences with `feed_append`, use `feed_csi_plain` / `feed_csi` / `feed_osc_st` with the concrete body (the
parse facts are closed terms: `by decide`), then `simp [dispatchPlain, …]`; see `sgr0_effect`, `ed2_effect`, `clear_effect`.
-/
namespace Tcell.Spec.Ecma48

open Tcell.Dec (showDec showDec_eq showDec_ne_nil showDec_allDigits)

/-- decimal rendering used for control-sequence parameters -/
abbrev dec (n : Nat) : List Nat := showDec n

/-! ## feed -/

namespace Term

@[simp] theorem feed_nil (t : Term) : t.feed [] = t := rfl
@[simp] theorem feed_cons (t : Term) (b : Nat) (bs : List Nat) : t.feed (b :: bs) = (t.feedByte b).feed bs := rfl

/-- feeding is compositional: chunk boundaries do not matter -/
theorem feed_append (t : Term) (a b : List Nat) : (t.feed a).feed b = t.feed (a ++ b) := by
  simp [feed, List.foldl_append]

end Term

/-! ## grid -/

namespace Grid

@[simp] theorem set_w (g : Grid) (x y : Nat) (c : GCell) : (g.set x y c).w = g.w := by
  unfold set; split <;> rfl
@[simp] theorem set_h (g : Grid) (x y : Nat) (c : GCell) : (g.set x y c).h = g.h := by
  unfold set; split <;> rfl
@[simp] theorem fill_w (w h : Nat) (c : GCell) : (fill w h c).w = w := rfl
@[simp] theorem fill_h (w h : Nat) (c : GCell) : (fill w h c).h = h := rfl
@[simp] theorem build_w (w h : Nat) (f : Nat → Nat → GCell) : (build w h f).w = w := rfl
@[simp] theorem build_h (w h : Nat) (f : Nat → Nat → GCell) : (build w h f).h = h := rfl

theorem idx_lt {w h x y : Nat} (hx : x < w) (hy : y < h) : y * w + x < w * h := by
  have h1 : y * w + x < y * w + w := by omega
  have h2 : y * w + w = (y + 1) * w := by rw [Nat.add_mul]; omega
  have h3 : (y + 1) * w ≤ h * w := Nat.mul_le_mul_right w (by omega)
  rw [Nat.mul_comm w h]; omega

theorem idx_inj {w x y x' y' : Nat} (hx : x < w) (hx' : x' < w) (h : y * w + x = y' * w + x') : x = x' ∧ y = y' := by
  have hw : 0 < w := by omega
  have e1 : (y * w + x) % w = x := by rw [Nat.add_comm, Nat.add_mul_mod_self_right]; exact Nat.mod_eq_of_lt hx
  have e2 : (y' * w + x') % w = x' := by rw [Nat.add_comm, Nat.add_mul_mod_self_right]; exact Nat.mod_eq_of_lt hx'
  have e3 : (y * w + x) / w = y := by
    rw [Nat.add_comm, Nat.add_mul_div_right _ _ hw, Nat.div_eq_of_lt hx]; omega
  have e4 : (y' * w + x') / w = y' := by
    rw [Nat.add_comm, Nat.add_mul_div_right _ _ hw, Nat.div_eq_of_lt hx']; omega
  constructor
  · rw [← e1, ← e2, h]
  · rw [← e3, ← e4, h]

theorem get_out (g : Grid) (x y : Nat) (h : ¬ (x < g.w ∧ y < g.h)) : g.get x y = {} := by
  unfold get; simp [h]

/-- the cell just set reads back -/
theorem get_set_same (g : Grid) (x y : Nat) (c : GCell) (hx : x < g.w) (hy : y < g.h) : (g.set x y c).get x y = c := by
  have hi : y * g.w + x < g.cells.size := by rw [g.hsize]; exact idx_lt hx hy
  simp [get, set, hx, hy, Array.getD, hi]

/-- every other cell is unchanged -/
theorem get_set_other (g : Grid) (x y x' y' : Nat) (c : GCell) (hne : ¬ (x' = x ∧ y' = y)) :
    (g.set x y c).get x' y' = g.get x' y' := by
  unfold set
  split
  · rename_i hin
    unfold get
    by_cases hin' : x' < g.w ∧ y' < g.h
    · simp only [hin', and_self, if_true]
      have hidx : y * g.w + x ≠ y' * g.w + x' := by
        intro e
        have := idx_inj hin.1 hin'.1 e
        exact hne ⟨this.1.symm, this.2.symm⟩
      have hi' : y' * g.w + x' < g.cells.size := by rw [g.hsize]; exact idx_lt hin'.1 hin'.2
      simp only [Array.getD, Array.size_setIfInBounds, hi', dite_true]
      exact Array.getElem_setIfInBounds_ne hi' hidx
    · simp [hin']
  · rfl

theorem get_set (g : Grid) (x y x' y' : Nat) (c : GCell) :
    (g.set x y c).get x' y' = if x' = x ∧ y' = y ∧ x < g.w ∧ y < g.h then c else g.get x' y' := by
  by_cases h : x' = x ∧ y' = y
  · obtain ⟨rfl, rfl⟩ := h
    by_cases hin : x' < g.w ∧ y' < g.h
    · simp [hin, get_set_same g x' y' c hin.1 hin.2]
    · have : ¬ (x' < g.w ∧ y' < g.h) := hin
      have h2 : g.set x' y' c = g := by unfold set; simp [hin]
      rw [h2]; simp only [true_and]; rw [if_neg hin]
  · rw [get_set_other g x y x' y' c h]
    have : ¬ (x' = x ∧ y' = y ∧ x < g.w ∧ y < g.h) := fun hh => h ⟨hh.1, hh.2.1⟩
    rw [if_neg this]

theorem get_fill (w h x y : Nat) (c : GCell) (hx : x < w) (hy : y < h) : (fill w h c).get x y = c := by
  have hi : y * w + x < w * h := idx_lt hx hy
  simp [get, fill, hx, hy, Array.getD, hi]

theorem get_build (w h x y : Nat) (f : Nat → Nat → GCell) (hx : x < w) (hy : y < h) : (build w h f).get x y = f x y := by
  have hi : y * w + x < w * h := idx_lt hx hy
  have hw : 0 < w := by omega
  have e1 : (y * w + x) % w = x := by rw [Nat.add_comm, Nat.add_mul_mod_self_right]; exact Nat.mod_eq_of_lt hx
  have e3 : (y * w + x) / w = y := by
    rw [Nat.add_comm, Nat.add_mul_div_right _ _ hw, Nat.div_eq_of_lt hx]; omega
  simp [get, build, hx, hy, Array.getD, hi, e1, e3]

/-- `clobber` does nothing when neither the cell nor its right neighbour is a continuation cell -/
theorem clobber_noop (g : Grid) (s x y : Nat) (h0 : (g.get x y).cont = false) (h1 : (g.get (x + 1) y).cont = false) :
    g.clobber s x y = g := by
  simp [clobber, h0, h1]

end Grid

/-! ## decimal parameters -/

open Term

theorem parseNat_append_single (l : List Nat) (d : Nat) : parseNat (l ++ [d]) = parseNat l * 10 + (d - 48) := by
  simp [parseNat, List.foldl_append]

/-- the parameter parser reads back what `dec` renders -/
theorem parseNat_dec (n : Nat) : parseNat (dec n) = n := by
  induction n using Nat.strongRecOn with
  | _ n ih =>
    show parseNat (showDec n) = n
    rw [showDec_eq]
    by_cases h : n < 10
    · simp [h, parseNat]
    · simp only [h, if_false]
      rw [parseNat_append_single, ih (n / 10) (by omega)]
      omega

theorem dec_digits (n : Nat) : ∀ b ∈ dec n, 48 ≤ b ∧ b ≤ 57 := by
  intro b hb
  have := showDec_allDigits n b hb
  simpa [Tcell.Dec.isDigit] using this

theorem dec_ne_nil (n : Nat) : dec n ≠ [] := showDec_ne_nil n

theorem semi_not_mem_dec (n : Nat) : 0x3b ∉ dec n := fun h => by have := dec_digits n _ h; omega
theorem colon_not_mem_dec (n : Nat) : 0x3a ∉ dec n := fun h => by have := dec_digits n _ h; omega

theorem dec_all_isDigit (n : Nat) : (dec n).all isDigit = true := by
  rw [List.all_eq_true]
  intro b hb
  have := dec_digits n b hb
  simp [isDigit, this.1, this.2]

theorem parseNum_dec (n : Nat) : parseNum (dec n) = some (some n) := by
  have h1 : (dec n).isEmpty = false := by
    cases h : dec n with
    | nil => exact absurd h (dec_ne_nil n)
    | cons _ _ => rfl
  simp [parseNum, h1, dec_all_isDigit, parseNat_dec]

@[simp] theorem parseNum_nil : parseNum [] = some none := rfl

theorem splitBy_noSep (sep : Nat) (a : List Nat) (h : sep ∉ a) : splitBy sep a = [a] := by
  induction a with
  | nil => rfl
  | cons b bs ih =>
    have hb : b ≠ sep := fun e => h (by simp [e])
    have hbs : sep ∉ bs := fun e => h (by simp [e])
    simp [splitBy, hb, ih hbs]

theorem splitBy_append_sep (sep : Nat) (a rest : List Nat) (h : sep ∉ a) :
    splitBy sep (a ++ sep :: rest) = a :: splitBy sep rest := by
  induction a with
  | nil => simp [splitBy]
  | cons b bs ih =>
    have hb : b ≠ sep := fun e => h (by simp [e])
    have hbs : sep ∉ bs := fun e => h (by simp [e])
    simp [splitBy, hb, ih hbs]

@[simp] theorem allSome_nil {α : Type} : allSome ([] : List (Option α)) = some [] := rfl
@[simp] theorem allSome_cons_none {α : Type} (r : List (Option α)) : allSome (none :: r) = none := rfl
@[simp] theorem allSome_cons_some {α : Type} (a : α) (r : List (Option α)) :
    allSome (some a :: r) = (allSome r).map (a :: ·) := rfl

theorem takeWhile_all (p : Nat → Bool) (l : List Nat) (h : ∀ b ∈ l, p b = true) : l.takeWhile p = l := by
  induction l with
  | nil => rfl
  | cons a l ih => simp [List.takeWhile, h a (by simp), ih (fun b hb => h b (by simp [hb]))]

theorem dropWhile_all (p : Nat → Bool) (l : List Nat) (h : ∀ b ∈ l, p b = true) : l.dropWhile p = [] := by
  induction l with
  | nil => rfl
  | cons a l ih => simp [List.dropWhile, h a (by simp), ih (fun b hb => h b (by simp [hb]))]

/-- one parameter: its `:`-separated numbers -/
def parseParam (p : List Nat) : Option Param := allSome ((splitBy 0x3a p).map parseNum)

theorem parseParams_eq (bs : List Nat) : parseParams bs = allSome ((splitBy 0x3b bs).map parseParam) := rfl

theorem parseParams_cons (a rest : List Nat) (h : 0x3b ∉ a) :
    parseParams (a ++ 0x3b :: rest) = (parseParam a).bind fun p => (parseParams rest).map (p :: ·) := by
  rw [parseParams_eq, splitBy_append_sep _ _ _ h, parseParams_eq]
  cases h' : parseParam a <;> simp [List.map, h']

theorem parseParams_last (a : List Nat) (h : 0x3b ∉ a) : parseParams a = (parseParam a).map ([·]) := by
  rw [parseParams_eq, splitBy_noSep _ _ h]
  cases h' : parseParam a <;> simp [List.map, h']

theorem parseParam_cons (a rest : List Nat) (h : 0x3a ∉ a) :
    parseParam (a ++ 0x3a :: rest) = (parseNum a).bind fun v => (parseParam rest).map (v :: ·) := by
  unfold parseParam
  rw [splitBy_append_sep _ _ _ h]
  cases h' : parseNum a <;> simp [List.map, h']

theorem parseParam_last (a : List Nat) (h : 0x3a ∉ a) : parseParam a = (parseNum a).map ([·]) := by
  unfold parseParam
  rw [splitBy_noSep _ _ h]
  cases h' : parseNum a <;> simp [List.map, h']

theorem parseParam_dec (n : Nat) : parseParam (dec n) = some [some n] := by
  rw [parseParam_last _ (colon_not_mem_dec n), parseNum_dec]; rfl

/-! ## a complete CSI sequence in the ground state -/

/-- `ESC [ body final` -/
def csiSeq (body : List Nat) (final : Nat) : List Nat := [0x1b, 0x5b] ++ body ++ [final]

namespace Term

theorem with_ground (t : Term) (hst : t.st = .ground) : { t with st := .ground } = t := by
  cases t; simp at hst; subst hst; rfl

theorem feed_collect (t : Term) (rev bs : List Nat) (h : ∀ b ∈ bs, 0x20 ≤ b ∧ b ≤ 0x3f) :
    ({ t with st := .csi rev } : Term).feed bs = { t with st := .csi (bs.reverse ++ rev) } := by
  induction bs generalizing rev with
  | nil => simp
  | cons b bs ih =>
    have hb := h b (by simp)
    have e : ({ t with st := .csi rev } : Term).feedByte b = { t with st := .csi (b :: rev) } := by
      simp [feedByte, feedCsi, hb.1, hb.2]
    rw [feed_cons, e, ih (b :: rev) (fun x hx => h x (by simp [hx]))]
    simp

/-- lexing of a complete control sequence: parameter/intermediate bytes are collected, the final byte dispatches -/
theorem feed_csi (t : Term) (hst : t.st = .ground) (body : List Nat) (final : Nat)
    (hbody : ∀ b ∈ body, 0x20 ≤ b ∧ b ≤ 0x3f) (hfinal : 0x40 ≤ final ∧ final ≤ 0x7e) :
    t.feed (csiSeq body final) = dispatchCsi t body final := by
  have e1 : t.feedByte 0x1b = { t with st := .esc } := by simp [feedByte, hst, feedGround, c0]
  have e2 : ({ t with st := .esc } : Term).feedByte 0x5b = { t with st := .csi [] } := by simp [feedByte, feedEsc]
  have h1 : ¬ (0x20 ≤ final ∧ final ≤ 0x3f) := by omega
  have e3 : ∀ rev, ({ t with st := .csi rev } : Term).feedByte final = dispatchCsi { t with st := .ground } rev.reverse final := by
    intro rev; simp [feedByte, feedCsi, h1, hfinal.1, hfinal.2]
  show t.feed (0x1b :: 0x5b :: (body ++ [final])) = _
  rw [feed_cons, e1, feed_cons, e2, ← feed_append, feed_collect _ _ _ hbody, feed_cons, e3, feed_nil]
  simp [with_ground t hst]

end Term

theorem parseCsiBody_numeric (body : List Nat) (h : ∀ b ∈ body, (48 ≤ b ∧ b ≤ 57) ∨ b = 0x3b ∨ b = 0x3a) :
    parseCsiBody body = (parseParams body).map fun ps => { priv := 0, params := ps, inter := [] } := by
  have hp : ∀ b ∈ body, isParamByte b = true := by
    intro b hb
    rcases h b hb with h1 | h1 | h1
    · simp [isParamByte]; omega
    · subst h1; decide
    · subst h1; decide
  have ht : body.takeWhile isParamByte = body := takeWhile_all _ _ hp
  have hd : body.dropWhile isParamByte = [] := dropWhile_all _ _ hp
  cases body with
  | nil => rfl
  | cons b r =>
    have hb : ¬ (0x3c ≤ b ∧ b ≤ 0x3f) := by
      rcases h b (by simp) with h1 | h1 | h1 <;> omega
    simp only [parseCsiBody, hb, if_false, ht, hd]
    cases parseParams (b :: r) <;> simp

namespace Term

/-- `ESC [ body final` with a purely numeric body (digits, `;`, `:`), fed to a terminal in the ground state,
    is `dispatchPlain` on the parsed parameters -/
theorem feed_csi_plain (t : Term) (hst : t.st = .ground) (body : List Nat) (final : Nat) (ps : List Param)
    (hbody : ∀ b ∈ body, (48 ≤ b ∧ b ≤ 57) ∨ b = 0x3b ∨ b = 0x3a) (hfinal : 0x40 ≤ final ∧ final ≤ 0x7e)
    (hps : parseParams body = some ps) :
    t.feed (csiSeq body final) = dispatchPlain t ps final := by
  rw [feed_csi t hst body final (fun b hb => by rcases hbody b hb with h | h | h <;> omega) hfinal]
  simp [dispatchCsi, parseCsiBody_numeric body hbody, hps]

end Term

/-! ## effects of the sequences the draw path emits -/

namespace Term

theorem numeric_dec (n : Nat) : ∀ b ∈ dec n, (48 ≤ b ∧ b ≤ 57) ∨ b = 0x3b ∨ b = 0x3a :=
  fun b hb => Or.inl (dec_digits n b hb)

/-- **CUP** `ESC [ r+1 ; c+1 H` (what `cup` = `\E[%i%p1%d;%p2%dH` expands to for row `r`, column `c`): the cursor goes
    to column `min c (w-1)`, row `min r (h-1)`, a pending wrap is cancelled; nothing else changes. -/
theorem cup_effect (t : Term) (hst : t.st = .ground) (r c : Nat) :
    t.feed (csiSeq (dec (r + 1) ++ 0x3b :: dec (c + 1)) 0x48) =
      { t with cx := min c (t.w - 1), cy := min r (t.h - 1), pendingWrap := false, cursorKnown := true } := by
  have hps : parseParams (dec (r + 1) ++ 0x3b :: dec (c + 1)) = some [[some (r + 1)], [some (c + 1)]] := by
    rw [parseParams_cons _ _ (semi_not_mem_dec _), parseParams_last _ (semi_not_mem_dec _), parseParam_dec, parseParam_dec]
    rfl
  have hbody : ∀ b ∈ dec (r + 1) ++ 0x3b :: dec (c + 1), (48 ≤ b ∧ b ≤ 57) ∨ b = 0x3b ∨ b = 0x3a := by
    intro b hb
    rcases List.mem_append.mp hb with h | h
    · exact numeric_dec _ b h
    · rcases List.mem_cons.mp h with h | h
      · exact Or.inr (Or.inl h)
      · exact numeric_dec _ b h
  rw [feed_csi_plain t hst _ 0x48 _ hbody (by omega) hps]
  simp [dispatchPlain, flat, argCount, arg, cursorTo]

/-- `ESC [ H` homes the cursor -/
theorem cup_home_effect (t : Term) (hst : t.st = .ground) :
    t.feed [0x1b, 0x5b, 0x48] = { t with cx := 0, cy := 0, pendingWrap := false, cursorKnown := true } := by
  have := feed_csi_plain t hst [] 0x48 [[none]] (by simp) (by omega) rfl
  simp only [csiSeq, List.append_nil, List.cons_append, List.nil_append] at this
  rw [this]
  simp [dispatchPlain, flat, argCount, arg, cursorTo]

/-- **SGR reset** `ESC [ m`: default pen (an open hyperlink stays open), the pen is known again -/
theorem sgr_reset_effect (t : Term) (hst : t.st = .ground) :
    t.feed [0x1b, 0x5b, 0x6d] = { t with pen := { link := t.pen.link }, penKnown := true } := by
  have := feed_csi_plain t hst [] 0x6d [[none]] (by simp) (by omega) rfl
  simp only [csiSeq, List.append_nil, List.cons_append, List.nil_append] at this
  rw [this]
  simp [dispatchPlain, sgr, applySgr]

/-- `ESC [ 0 m` -/
theorem sgr0_effect (t : Term) (hst : t.st = .ground) :
    t.feed [0x1b, 0x5b, 0x30, 0x6d] = { t with pen := { link := t.pen.link }, penKnown := true } := by
  have := feed_csi_plain t hst [0x30] 0x6d [[some 0]] (by simp) (by omega) (by decide)
  simp only [csiSeq, List.cons_append, List.nil_append] at this
  rw [this]
  simp [dispatchPlain, sgr, applySgr]

/-- a single numeric SGR parameter `ESC [ n m` -/
theorem sgr_single (t : Term) (hst : t.st = .ground) (n : Nat) :
    t.feed (csiSeq (dec n) 0x6d) = t.sgr [[some n]] := by
  have hps : parseParams (dec n) = some [[some n]] := by
    rw [parseParams_last _ (semi_not_mem_dec _), parseParam_dec]; rfl
  rw [feed_csi_plain t hst _ 0x6d _ (numeric_dec n) (by omega) hps]
  simp [dispatchPlain]

/-- **SGR 30–37** (`setaf` of the 8-colour entries) -/
theorem sgr_fg_idx_effect (t : Term) (hst : t.st = .ground) (n : Nat) (hn : n < 8) :
    t.feed (csiSeq (dec (30 + n)) 0x6d) = { t with pen := { t.pen with fg := .idx n } } := by
  rw [sgr_single t hst]
  have h0 : 30 + n ≠ 38 := by omega
  have h1 : 30 + n ≠ 48 := by omega
  have h2 : 30 + n ≠ 58 := by omega
  have h4 : ¬ (30 + n = 10 ∨ 30 + n = 11 ∨ 30 + n = 12) := by omega
  have hs : sgrSimple t.pen (30 + n) = some { t.pen with fg := .idx n } := by
    unfold sgrSimple
    have e : 30 + n - 30 = n := by omega
    rw [if_neg (by omega), if_neg (by omega), if_neg (by omega), if_neg (by omega), if_neg (by omega), if_neg (by omega),
      if_neg (by omega), if_neg (by omega), if_neg (by omega), if_neg (by omega), if_neg (by omega), if_neg (by omega),
      if_neg (by omega), if_neg (by omega), if_neg (by omega), if_neg (by omega), if_pos (by omega), e]
  simp [sgr, applySgr, h0, h1, h2, h4, hs]

/-- **SGR 90–97** (bright foreground) -/
theorem sgr_fg_bright_effect (t : Term) (hst : t.st = .ground) (n : Nat) (hn : n < 8) :
    t.feed (csiSeq (dec (90 + n)) 0x6d) = { t with pen := { t.pen with fg := .idx (n + 8) } } := by
  rw [sgr_single t hst]
  have h4 : ¬ (90 + n = 10 ∨ 90 + n = 11 ∨ 90 + n = 12) := by omega
  have hs : sgrSimple t.pen (90 + n) = some { t.pen with fg := .idx (n + 8) } := by
    unfold sgrSimple
    have e : 90 + n - 90 + 8 = n + 8 := by omega
    rw [if_neg (by omega), if_neg (by omega), if_neg (by omega), if_neg (by omega), if_neg (by omega), if_neg (by omega),
      if_neg (by omega), if_neg (by omega), if_neg (by omega), if_neg (by omega), if_neg (by omega), if_neg (by omega),
      if_neg (by omega), if_neg (by omega), if_neg (by omega), if_neg (by omega), if_neg (by omega), if_neg (by omega),
      if_neg (by omega), if_neg (by omega), if_neg (by omega), if_pos (by omega), e]
  have h0 : 90 + n ≠ 38 := by omega
  have h1 : 90 + n ≠ 48 := by omega
  have h2 : 90 + n ≠ 58 := by omega
  simp [sgr, applySgr, h0, h1, h2, h4, hs]

/-- **SGR 40–47** (`setab`) -/
theorem sgr_bg_idx_effect (t : Term) (hst : t.st = .ground) (n : Nat) (hn : n < 8) :
    t.feed (csiSeq (dec (40 + n)) 0x6d) = { t with pen := { t.pen with bg := .idx n } } := by
  rw [sgr_single t hst]
  have h4 : ¬ (40 + n = 10 ∨ 40 + n = 11 ∨ 40 + n = 12) := by omega
  have hs : sgrSimple t.pen (40 + n) = some { t.pen with bg := .idx n } := by
    unfold sgrSimple
    have e : 40 + n - 40 = n := by omega
    rw [if_neg (by omega), if_neg (by omega), if_neg (by omega), if_neg (by omega), if_neg (by omega), if_neg (by omega),
      if_neg (by omega), if_neg (by omega), if_neg (by omega), if_neg (by omega), if_neg (by omega), if_neg (by omega),
      if_neg (by omega), if_neg (by omega), if_neg (by omega), if_neg (by omega), if_neg (by omega), if_neg (by omega),
      if_pos (by omega), e]
  have h0 : 40 + n ≠ 38 := by omega
  have h1 : 40 + n ≠ 48 := by omega
  have h2 : 40 + n ≠ 58 := by omega
  simp [sgr, applySgr, h0, h1, h2, h4, hs]

/-- **SGR 100–107** (bright background) -/
theorem sgr_bg_bright_effect (t : Term) (hst : t.st = .ground) (n : Nat) (hn : n < 8) :
    t.feed (csiSeq (dec (100 + n)) 0x6d) = { t with pen := { t.pen with bg := .idx (n + 8) } } := by
  rw [sgr_single t hst]
  have h4 : ¬ (100 + n = 10 ∨ 100 + n = 11 ∨ 100 + n = 12) := by omega
  have hs : sgrSimple t.pen (100 + n) = some { t.pen with bg := .idx (n + 8) } := by
    unfold sgrSimple
    have e : 100 + n - 100 + 8 = n + 8 := by omega
    rw [if_neg (by omega), if_neg (by omega), if_neg (by omega), if_neg (by omega), if_neg (by omega), if_neg (by omega),
      if_neg (by omega), if_neg (by omega), if_neg (by omega), if_neg (by omega), if_neg (by omega), if_neg (by omega),
      if_neg (by omega), if_neg (by omega), if_neg (by omega), if_neg (by omega), if_neg (by omega), if_neg (by omega),
      if_neg (by omega), if_neg (by omega), if_neg (by omega), if_neg (by omega), if_pos (by omega), e]
  have h0 : 100 + n ≠ 38 := by omega
  have h1 : 100 + n ≠ 48 := by omega
  have h2 : 100 + n ≠ 58 := by omega
  simp [sgr, applySgr, h0, h1, h2, h4, hs]

/-- `which ; 5 ; n` / `which ; 2 ; r ; g ; b` bodies -/
def ext5 (which n : Nat) : List Nat := dec which ++ 0x3b :: 0x35 :: 0x3b :: dec n
def ext2 (which r g b : Nat) : List Nat := dec which ++ 0x3b :: 0x32 :: 0x3b :: (dec r ++ 0x3b :: (dec g ++ 0x3b :: dec b))

theorem parseParam_5 : parseParam [0x35] = some [some 5] := by decide
theorem parseParam_2 : parseParam [0x32] = some [some 2] := by decide

theorem parseParams_ext5 (which n : Nat) : parseParams (ext5 which n) = some [[some which], [some 5], [some n]] := by
  unfold ext5
  rw [parseParams_cons _ _ (semi_not_mem_dec _), parseParam_dec]
  show (some [some which]).bind (fun p => (parseParams ([0x35] ++ 0x3b :: dec n)).map (p :: ·)) = _
  rw [parseParams_cons _ _ (by decide), parseParam_5, parseParams_last _ (semi_not_mem_dec _), parseParam_dec]
  rfl

theorem parseParams_ext2 (which r g b : Nat) :
    parseParams (ext2 which r g b) = some [[some which], [some 2], [some r], [some g], [some b]] := by
  unfold ext2
  rw [parseParams_cons _ _ (semi_not_mem_dec _), parseParam_dec]
  show (some [some which]).bind (fun p => (parseParams ([0x32] ++ 0x3b :: (dec r ++ 0x3b :: (dec g ++ 0x3b :: dec b)))).map (p :: ·)) = _
  rw [parseParams_cons _ _ (by decide), parseParam_2, parseParams_cons _ _ (semi_not_mem_dec _), parseParam_dec,
    parseParams_cons _ _ (semi_not_mem_dec _), parseParam_dec, parseParams_last _ (semi_not_mem_dec _), parseParam_dec]
  rfl

theorem numeric_ext5 (which n : Nat) : ∀ b ∈ ext5 which n, (48 ≤ b ∧ b ≤ 57) ∨ b = 0x3b ∨ b = 0x3a := by
  intro b hb
  simp only [ext5, List.mem_append, List.mem_cons] at hb
  rcases hb with h | h | h | h | h
  · exact numeric_dec _ b h
  · exact Or.inr (Or.inl h)
  · subst h; decide
  · exact Or.inr (Or.inl h)
  · exact numeric_dec _ b h

theorem numeric_ext2 (which r g b : Nat) : ∀ x ∈ ext2 which r g b, (48 ≤ x ∧ x ≤ 57) ∨ x = 0x3b ∨ x = 0x3a := by
  intro x hx
  simp only [ext2, List.mem_append, List.mem_cons] at hx
  rcases hx with h | h | h | h | h | h | h | h | h
  · exact numeric_dec _ x h
  · exact Or.inr (Or.inl h)
  · subst h; decide
  · exact Or.inr (Or.inl h)
  · exact numeric_dec _ x h
  · exact Or.inr (Or.inl h)
  · exact numeric_dec _ x h
  · exact Or.inr (Or.inl h)
  · exact numeric_dec _ x h

/-- **SGR 38;5;n / 48;5;n / 58;5;n** (256-colour `setaf`/`setab`, `;` syntax) -/
theorem sgr_ext_idx_effect (t : Term) (hst : t.st = .ground) (which n : Nat)
    (hw : which = 38 ∨ which = 48 ∨ which = 58) (hn : n ≤ 255) :
    t.feed (csiSeq (ext5 which n) 0x6d) = { t with pen := setExt t.pen which (.idx n) } := by
  rw [feed_csi_plain t hst _ 0x6d _ (numeric_ext5 which n) (by omega) (parseParams_ext5 which n)]
  simp [dispatchPlain, sgr, applySgr, hw, hn]

theorem sgr_fg_256_effect (t : Term) (hst : t.st = .ground) (n : Nat) (hn : n ≤ 255) :
    t.feed (csiSeq (ext5 38 n) 0x6d) = { t with pen := { t.pen with fg := .idx n } } := by
  rw [sgr_ext_idx_effect t hst 38 n (Or.inl rfl) hn]; rfl

theorem sgr_bg_256_effect (t : Term) (hst : t.st = .ground) (n : Nat) (hn : n ≤ 255) :
    t.feed (csiSeq (ext5 48 n) 0x6d) = { t with pen := { t.pen with bg := .idx n } } := by
  rw [sgr_ext_idx_effect t hst 48 n (Or.inr (Or.inl rfl)) hn]; rfl

/-- **SGR 38;2;r;g;b / 48;2;r;g;b** (direct colour, `;` syntax) -/
theorem sgr_ext_rgb_effect (t : Term) (hst : t.st = .ground) (which r g b : Nat)
    (hw : which = 38 ∨ which = 48 ∨ which = 58) (hr : r ≤ 255) (hg : g ≤ 255) (hb : b ≤ 255) :
    t.feed (csiSeq (ext2 which r g b) 0x6d) = { t with pen := setExt t.pen which (.rgb r g b) } := by
  rw [feed_csi_plain t hst _ 0x6d _ (numeric_ext2 which r g b) (by omega) (parseParams_ext2 which r g b)]
  simp [dispatchPlain, sgr, applySgr, hw, colorOk, hr, hg, hb]

theorem sgr_fg_rgb_effect (t : Term) (hst : t.st = .ground) (r g b : Nat) (hr : r ≤ 255) (hg : g ≤ 255) (hb : b ≤ 255) :
    t.feed (csiSeq (ext2 38 r g b) 0x6d) = { t with pen := { t.pen with fg := .rgb r g b } } := by
  rw [sgr_ext_rgb_effect t hst 38 r g b (Or.inl rfl) hr hg hb]; rfl

theorem sgr_bg_rgb_effect (t : Term) (hst : t.st = .ground) (r g b : Nat) (hr : r ≤ 255) (hg : g ≤ 255) (hb : b ≤ 255) :
    t.feed (csiSeq (ext2 48 r g b) 0x6d) = { t with pen := { t.pen with bg := .rgb r g b } } := by
  rw [sgr_ext_rgb_effect t hst 48 r g b (Or.inr (Or.inl rfl)) hr hg hb]; rfl

/-! ### printing -/

/-- **one narrow ASCII glyph** at a column that is not the last one, no wrap pending, replace mode, no
    alternate character set, over cells that are not halves of a wide glyph: the cell under the cursor becomes that
    glyph with the current pen and the current stamp, the cursor advances by one; nothing else changes. -/
theorem print_narrow_effect (t : Term) (b : Nat) (hst : t.st = .ground) (hb : 0x20 ≤ b ∧ b < 0x7f)
    (hw : t.cfg.utf8 = true → t.cfg.rw (b : Int) = 1)
    (hfont : t.modes.altFont = 0) (hacs : acsActive t.modes = false)
    (hk : t.cursorKnown = true) (hpw : t.pendingWrap = false) (hirm : t.modes.insertMode = false)
    (hx : t.cx + 1 < t.w)
    (hc0 : (t.get t.cx t.cy).cont = false) (hc1 : (t.get (t.cx + 1) t.cy).cont = false) :
    t.feedByte b =
      { t with
        grid := t.grid.set t.cx t.cy (t.glyphCell b)
        cx := t.cx + 1
        last := some (t.cx, t.cy, t.cx + 1, t.cy, false) } := by
  have hwd : t.widthOf (b : Int) = 1 := by
    unfold widthOf
    cases hu : t.cfg.utf8 with
    | false => simp
    | true => simp [hw hu]
  have h1 : ¬ b < 0x20 := by omega
  have h2 : b ≠ 0x7f := by omega
  have h3 : b < 0x80 := by omega
  have hcl : t.grid.clobber t.blocks t.cx t.cy = t.grid := Grid.clobber_noop _ _ _ _ hc0 hc1
  have hxg : t.cx + 1 < t.grid.w := hx
  simp [feedByte, hst, feedGround, h1, h2, h3, printByte, hfont, hacs, hwd, putGlyph, putNarrow, hk, doWrap, hpw, hirm,
    putNarrowAt, hcl, hxg]

/-- cell-level reading of `print_narrow_effect` -/
theorem print_narrow_cells (t : Term) (b : Nat) (hst : t.st = .ground) (hb : 0x20 ≤ b ∧ b < 0x7f)
    (hw : t.cfg.utf8 = true → t.cfg.rw (b : Int) = 1)
    (hfont : t.modes.altFont = 0) (hacs : acsActive t.modes = false)
    (hk : t.cursorKnown = true) (hpw : t.pendingWrap = false) (hirm : t.modes.insertMode = false)
    (hx : t.cx + 1 < t.w) (hy : t.cy < t.h)
    (hc0 : (t.get t.cx t.cy).cont = false) (hc1 : (t.get (t.cx + 1) t.cy).cont = false) (x y : Nat) :
    (t.feedByte b).get x y =
      if x = t.cx ∧ y = t.cy then
        { runes := [(b : Int)], pen := t.pen, cont := false, garbage := !(t.penKnown && t.linkKnown), stamp := t.blocks }
      else t.get x y := by
  rw [print_narrow_effect t b hst hb hw hfont hacs hk hpw hirm hx hc0 hc1]
  show (t.grid.set t.cx t.cy (t.glyphCell b)).get x y = _
  rw [Grid.get_set]
  have hx' : t.cx < t.grid.w := by have : t.w = t.grid.w := rfl; omega
  have hy' : t.cy < t.grid.h := hy
  by_cases h : x = t.cx ∧ y = t.cy
  · simp [h, hx', hy', glyphCell]
  · have : ¬ (x = t.cx ∧ y = t.cy ∧ t.cx < t.grid.w ∧ t.cy < t.grid.h) := fun hh => h ⟨hh.1, hh.2.1⟩
    rw [if_neg this, if_neg h]; rfl

/-! ### erase -/

/-- **ED 2** `ESC [ 2 J`: every cell becomes the blank cell (default pen with the current background colour,
    current stamp); cursor, pen and modes are unchanged -/
theorem ed2_effect (t : Term) (hst : t.st = .ground) :
    t.feed [0x1b, 0x5b, 0x32, 0x4a] = { t with grid := Grid.fill t.grid.w t.grid.h t.blankCell } := by
  have := feed_csi_plain t hst [0x32] 0x4a [[some 2]] (by simp) (by omega) (by decide)
  simp only [csiSeq, List.cons_append, List.nil_append] at this
  rw [this]
  simp [dispatchPlain, flat, arg, eraseDisplay, eraseAll]

theorem ed2_cells (t : Term) (hst : t.st = .ground) (x y : Nat) (hx : x < t.w) (hy : y < t.h) :
    (t.feed [0x1b, 0x5b, 0x32, 0x4a]).get x y = t.blankCell := by
  rw [ed2_effect t hst]
  exact Grid.get_fill _ _ _ _ _ hx hy

/-- `ESC [ H ESC [ 2 J` (`clear` of the xterm family) -/
theorem clear_effect (t : Term) (hst : t.st = .ground) :
    t.feed [0x1b, 0x5b, 0x48, 0x1b, 0x5b, 0x32, 0x4a] =
      { t with grid := Grid.fill t.grid.w t.grid.h t.blankCell, cx := 0, cy := 0, pendingWrap := false, cursorKnown := true } := by
  have : [0x1b, 0x5b, 0x48, 0x1b, 0x5b, 0x32, 0x4a] = [0x1b, 0x5b, 0x48] ++ [0x1b, 0x5b, 0x32, 0x4a] := rfl
  rw [this, ← feed_append, cup_home_effect t hst, ed2_effect _ (by simpa using hst)]
  rfl

/-! ### the hypotheses are satisfiable -/

example : (Term.init { w := 80, h := 24 }).st = .ground := rfl
example : let t := Term.init { w := 4, h := 2 }
    t.st = .ground ∧ t.modes.altFont = 0 ∧ acsActive t.modes = false ∧ t.cursorKnown = true ∧ t.pendingWrap = false ∧
    t.modes.insertMode = false ∧ t.cx + 1 < t.w ∧ t.cy < t.h ∧ (t.get t.cx t.cy).cont = false ∧ (t.get (t.cx + 1) t.cy).cont = false := by
  decide

end Term

/-! ## composition of parameter lists and of SGR -/

open Term

theorem splitBy_ne_nil (sep : Nat) (a : List Nat) : splitBy sep a ≠ [] := by
  cases a with
  | nil => simp [splitBy]
  | cons b bs =>
    unfold splitBy
    split
    · simp
    · split <;> simp

theorem splitBy_append (sep : Nat) (a b : List Nat) :
    splitBy sep (a ++ sep :: b) = splitBy sep a ++ splitBy sep b := by
  induction a with
  | nil => simp [splitBy]
  | cons x xs ih =>
    by_cases hx : x = sep
    · simp [splitBy, hx, ih]
    · have hne := splitBy_ne_nil sep xs
      cases hs : splitBy sep xs with
      | nil => exact absurd hs hne
      | cons p ps => simp [splitBy, hx, ih, hs]

theorem allSome_append {α : Type} (l1 l2 : List (Option α)) :
    allSome (l1 ++ l2) = (allSome l1).bind fun a => (allSome l2).map (a ++ ·) := by
  induction l1 with
  | nil => cases h : allSome l2 <;> simp [h]
  | cons x xs ih =>
    cases x with
    | none => simp
    | some v =>
      simp only [List.cons_append, allSome_cons_some, ih]
      cases allSome xs <;> simp
      cases allSome l2 <;> simp

/-- parameter lists of `a ; b` are those of `a` followed by those of `b` -/
theorem parseParams_append (a b : List Nat) (pa pb : List Param)
    (ha : parseParams a = some pa) (hb : parseParams b = some pb) :
    parseParams (a ++ 0x3b :: b) = some (pa ++ pb) := by
  rw [parseParams_eq] at ha hb ⊢
  rw [splitBy_append, List.map_append, allSome_append, ha, hb]
  rfl

/-- rendering of small numbers -/
theorem dec_lt10 (n : Nat) (h : n < 10) : dec n = [48 + n] := by
  show showDec n = _
  rw [showDec_eq]; simp [h]

theorem dec_append_digit (a d : Nat) (ha : 0 < a) (hd : d < 10) : dec (a * 10 + d) = dec a ++ [48 + d] := by
  show showDec (a * 10 + d) = showDec a ++ _
  rw [showDec_eq]
  have h1 : ¬ (a * 10 + d < 10) := by omega
  have h2 : (a * 10 + d) / 10 = a := by omega
  have h3 : (a * 10 + d) % 10 = d := by omega
  simp [h1, h2, h3]

namespace Term

/-- the written-out recursion of `applySgr` is `sgrStep` with the recursive call as continuation -/
theorem applySgr_step (f : Nat) (p : Param) (rest : List Param) (t : Term) :
    applySgr (f + 1) (p :: rest) t = sgrStep (applySgr f) p rest t := by
  match p with
  | [] => rfl
  | [none] => rfl
  | [some n] => rfl
  | some n :: s :: subs => rfl
  | none :: s :: subs => rfl

/-- `sgrStep` only calls its continuation on `rest` or on a suffix of it -/
theorem sgrStep_congr (k k' : List Param → Term → Term) (p : Param) (rest : List Param) (t : Term)
    (h : ∀ r2 t', r2.length ≤ rest.length → k r2 t' = k' r2 t') : sgrStep k p rest t = sgrStep k' p rest t := by
  have R : ∀ t', k rest t' = k' rest t' := fun t' => h rest t' (Nat.le_refl _)
  unfold sgrStep
  split
  · exact R _
  · exact R _
  · split
    · split
      · split <;> exact h _ _ (by simp only [List.length_cons]; omega)
      · split <;> exact h _ _ (by simp only [List.length_cons]; omega)
      · rfl
    · split
      · exact R _
      · split
        · exact R _
        · split <;> exact R _
  · split
    · split
      · split <;> exact R _
      · exact R _
    · split
      · split
        · split <;> exact R _
        · exact R _
      · exact R _
  · exact R _

/-- more fuel than parameters changes nothing -/
theorem applySgr_fuel : ∀ (f g : Nat) (ps : List Param) (t : Term), ps.length ≤ f → ps.length ≤ g →
    applySgr f ps t = applySgr g ps t := by
  intro f
  induction f with
  | zero =>
    intro g ps t hf _
    have : ps = [] := List.eq_nil_of_length_eq_zero (by omega)
    subst this
    cases g <;> rfl
  | succ f ih =>
    intro g ps t hf hg
    cases ps with
    | nil => cases g <;> rfl
    | cons p rest =>
      cases g with
      | zero => simp at hg
      | succ g =>
        have hf' : rest.length ≤ f := by simpa using hf
        have hg' : rest.length ≤ g := by simpa using hg
        rw [applySgr_step, applySgr_step]
        exact sgrStep_congr _ _ _ _ _ (fun r2 t' h => ih g r2 t' (by omega) (by omega))

/-- a parameter that does not start a `;`-form extended colour: do it, then continue -/
theorem sgrStep_split (k : List Param → Term → Term) (p : Param) (rest : List Param) (t : Term)
    (hp : p ≠ [some 38] ∧ p ≠ [some 48] ∧ p ≠ [some 58]) :
    sgrStep k p rest t = k rest (sgrStep (fun _ t => t) p [] t) := by
  unfold sgrStep
  split
  · rfl
  · rfl
  · rename_i n
    have hn : ¬ (n = 38 ∨ n = 48 ∨ n = 58) := by
      intro h
      rcases h with h | h | h <;> subst h <;> simp at hp
    simp only [hn, if_false]
    split
    · rfl
    · split
      · rfl
      · split <;> rfl
  · split
    · split
      · split <;> rfl
      · rfl
    · split
      · split
        · split <;> rfl
        · rfl
      · rfl
  · rfl

/-- a parameter that is not the start of a `;`-form extended colour is processed on its own -/
theorem sgr_cons (t : Term) (p : Param) (rest : List Param)
    (hp : p ≠ [some 38] ∧ p ≠ [some 48] ∧ p ≠ [some 58]) :
    t.sgr (p :: rest) = (t.sgr [p]).sgr rest := by
  unfold sgr
  simp only [List.length_cons, List.length_nil]
  rw [applySgr_step, applySgr_step, sgrStep_split _ p rest t hp, sgrStep_split (applySgr 0) p [] t hp]
  rfl

/-- `38;5;n` (48, 58 alike) inside a longer parameter list -/
theorem sgr_cons_ext5 (t : Term) (which n : Nat) (rest : List Param)
    (hw : which = 38 ∨ which = 48 ∨ which = 58) (hn : n ≤ 255) :
    t.sgr ([some which] :: [some 5] :: [some n] :: rest) = ({ t with pen := setExt t.pen which (.idx n) } : Term).sgr rest := by
  unfold sgr
  simp only [List.length_cons]
  rw [applySgr_step]
  simp only [sgrStep, hw, if_true, hn]
  exact applySgr_fuel _ _ _ _ (by omega) (by omega)

/-- `38;2;r;g;b` (48, 58 alike) inside a longer parameter list -/
theorem sgr_cons_ext2 (t : Term) (which r g b : Nat) (rest : List Param)
    (hw : which = 38 ∨ which = 48 ∨ which = 58) (hr : r ≤ 255) (hg : g ≤ 255) (hb : b ≤ 255) :
    t.sgr ([some which] :: [some 2] :: [some r] :: [some g] :: [some b] :: rest) =
      ({ t with pen := setExt t.pen which (.rgb r g b) } : Term).sgr rest := by
  have hc : colorOk (.rgb r g b) = true := by simp [colorOk, hr, hg, hb]
  unfold sgr
  simp only [List.length_cons]
  rw [applySgr_step]
  simp only [sgrStep, hw, if_true, hc]
  exact applySgr_fuel _ _ _ _ (by omega) (by omega)

@[simp] theorem sgr_nil (t : Term) : t.sgr [] = t := by simp [sgr, applySgr]

/-- `ESC [ p1 ; p2 m` with two plain numeric parameters is the two SGRs one after the other
    (`setfgbg` of the 8/16-colour entries) -/
theorem sgr_two_effect (t : Term) (hst : t.st = .ground) (a b : Nat) (ha : a ≠ 38 ∧ a ≠ 48 ∧ a ≠ 58) :
    t.feed (csiSeq (dec a ++ 0x3b :: dec b) 0x6d) = (t.sgr [[some a]]).sgr [[some b]] := by
  have hps : parseParams (dec a ++ 0x3b :: dec b) = some ([[some a]] ++ [[some b]]) :=
    parseParams_append _ _ _ _ (by rw [parseParams_last _ (semi_not_mem_dec _), parseParam_dec]; rfl)
      (by rw [parseParams_last _ (semi_not_mem_dec _), parseParam_dec]; rfl)
  have hbody : ∀ x ∈ dec a ++ 0x3b :: dec b, (48 ≤ x ∧ x ≤ 57) ∨ x = 0x3b ∨ x = 0x3a := by
    intro x hx
    rcases List.mem_append.mp hx with h | h
    · exact numeric_dec _ x h
    · rcases List.mem_cons.mp h with h | h
      · exact Or.inr (Or.inl h)
      · exact numeric_dec _ x h
  rw [feed_csi_plain t hst _ 0x6d _ hbody (by omega) hps]
  have : dispatchPlain t ([[some a]] ++ [[some b]]) 0x6d = t.sgr ([some a] :: [[some b]]) := by simp [dispatchPlain]
  rw [this, sgr_cons t [some a] [[some b]] (by
    refine ⟨?_, ?_, ?_⟩ <;> intro h <;> simp at h <;> omega)]

end Term

/-! ## private modes, colon forms, OSC, the last column -/

theorem parseCsiBody_private (body : List Nat) (h : ∀ b ∈ body, (48 ≤ b ∧ b ≤ 57) ∨ b = 0x3b ∨ b = 0x3a) :
    parseCsiBody (0x3f :: body) = (parseParams body).map fun ps => { priv := 0x3f, params := ps, inter := [] } := by
  have hp : ∀ b ∈ body, isParamByte b = true := by
    intro b hb
    rcases h b hb with h1 | h1 | h1
    · simp [isParamByte]; omega
    · subst h1; decide
    · subst h1; decide
  have ht : body.takeWhile isParamByte = body := takeWhile_all _ _ hp
  have hd : body.dropWhile isParamByte = [] := dropWhile_all _ _ hp
  simp [parseCsiBody, ht, hd]
  cases parseParams body <;> simp

namespace Term

/-- **DECSET** `ESC [ ? n h` -/
theorem decset_effect (t : Term) (hst : t.st = .ground) (n : Nat) :
    t.feed (csiSeq (0x3f :: dec n) 0x68) = t.decMode n true := by
  have hps : parseParams (dec n) = some [[some n]] := by
    rw [parseParams_last _ (semi_not_mem_dec _), parseParam_dec]; rfl
  rw [feed_csi t hst _ 0x68 (fun b hb => by
    rcases List.mem_cons.mp hb with h | h
    · omega
    · have := dec_digits n b h; omega) (by omega)]
  simp [dispatchCsi, parseCsiBody_private _ (numeric_dec n), hps, eachParam]

/-- **DECRST** `ESC [ ? n l` -/
theorem decrst_effect (t : Term) (hst : t.st = .ground) (n : Nat) :
    t.feed (csiSeq (0x3f :: dec n) 0x6c) = t.decMode n false := by
  have hps : parseParams (dec n) = some [[some n]] := by
    rw [parseParams_last _ (semi_not_mem_dec _), parseParam_dec]; rfl
  rw [feed_csi t hst _ 0x6c (fun b hb => by
    rcases List.mem_cons.mp hb with h | h
    · omega
    · have := dec_digits n b h; omega) (by omega)]
  simp [dispatchCsi, parseCsiBody_private _ (numeric_dec n), hps, eachParam]

/-- the mode-changing functions keep the parser in the ground state (so effects chain) -/
theorem decMode_st (t : Term) (n : Nat) (on : Bool) : (t.decMode n on).st = t.st := by
  simp [decMode, apply_ite Term.st, complain, saveCursor, swapScreens, restoreCursor, eraseAll]

/-- **underline style** `ESC [ 4 : s m` -/
theorem sgr_ul_style_effect (t : Term) (hst : t.st = .ground) (s : Nat) (hs : s ≤ 5) :
    t.feed (csiSeq (0x34 :: 0x3a :: dec s) 0x6d) = { t with pen := { t.pen with ul := s } } := by
  have hp : parseParam ([0x34] ++ 0x3a :: dec s) = some [some 4, some s] := by
    rw [parseParam_cons _ _ (by decide), parseParam_last _ (colon_not_mem_dec s), parseNum_dec]; rfl
  have hps : parseParams (0x34 :: 0x3a :: dec s) = some [[some 4, some s]] := by
    have hsemi : 0x3b ∉ (0x34 :: 0x3a :: dec s) := by
      intro h
      rcases List.mem_cons.mp h with h | h
      · omega
      · rcases List.mem_cons.mp h with h | h
        · omega
        · exact semi_not_mem_dec s h
    rw [parseParams_last _ hsemi]
    show Option.map _ (parseParam ([0x34] ++ 0x3a :: dec s)) = _
    rw [hp]; rfl
  have hbody : ∀ b ∈ 0x34 :: 0x3a :: dec s, (48 ≤ b ∧ b ≤ 57) ∨ b = 0x3b ∨ b = 0x3a := by
    intro b hb
    rcases List.mem_cons.mp hb with h | h
    · subst h; decide
    · rcases List.mem_cons.mp h with h | h
      · exact Or.inr (Or.inr h)
      · exact numeric_dec _ b h
  rw [feed_csi_plain t hst _ 0x6d _ hbody (by omega) hps]
  simp [dispatchPlain, sgr, applySgr, hs]

/-- **colon form of the 256-colour selection** `ESC [ which : 5 : n m` (kitty `setaf`, tcell's underline colour) -/
theorem sgr_colon_idx_effect (t : Term) (hst : t.st = .ground) (which n : Nat)
    (hw : which = 38 ∨ which = 48 ∨ which = 58) (hn : n ≤ 255) :
    t.feed (csiSeq (dec which ++ 0x3a :: 0x35 :: 0x3a :: dec n) 0x6d) = { t with pen := setExt t.pen which (.idx n) } := by
  have hp : parseParam (dec which ++ 0x3a :: ([0x35] ++ 0x3a :: dec n)) = some [some which, some 5, some n] := by
    rw [parseParam_cons _ _ (colon_not_mem_dec _), parseNum_dec, parseParam_cons _ _ (by decide),
      parseParam_last _ (colon_not_mem_dec n), parseNum_dec]
    rfl
  have hsemi : 0x3b ∉ (dec which ++ 0x3a :: 0x35 :: 0x3a :: dec n) := by
    intro h
    simp only [List.mem_append, List.mem_cons] at h
    rcases h with h | h | h | h | h
    · exact semi_not_mem_dec _ h
    · omega
    · omega
    · omega
    · exact semi_not_mem_dec _ h
  have hps : parseParams (dec which ++ 0x3a :: 0x35 :: 0x3a :: dec n) = some [[some which, some 5, some n]] := by
    rw [parseParams_last _ hsemi]
    show Option.map _ (parseParam (dec which ++ 0x3a :: ([0x35] ++ 0x3a :: dec n))) = _
    rw [hp]; rfl
  have hbody : ∀ b ∈ dec which ++ 0x3a :: 0x35 :: 0x3a :: dec n, (48 ≤ b ∧ b ≤ 57) ∨ b = 0x3b ∨ b = 0x3a := by
    intro b hb
    simp only [List.mem_append, List.mem_cons] at hb
    rcases hb with h | h | h | h | h
    · exact numeric_dec _ b h
    · exact Or.inr (Or.inr h)
    · subst h; decide
    · exact Or.inr (Or.inr h)
    · exact numeric_dec _ b h
  rw [feed_csi_plain t hst _ 0x6d _ hbody (by omega) hps]
  have h4 : which ≠ 4 := by omega
  simp [dispatchPlain, sgr, applySgr, h4, hw, colonColor, colorOk, hn]

/-- **colon form of direct colour with empty colour-space field** `ESC [ which : 2 : : r : g : b m` -/
theorem sgr_colon_rgb_effect (t : Term) (hst : t.st = .ground) (which r g b : Nat)
    (hw : which = 38 ∨ which = 48 ∨ which = 58) (hr : r ≤ 255) (hg : g ≤ 255) (hb : b ≤ 255) :
    t.feed (csiSeq (dec which ++ 0x3a :: 0x32 :: 0x3a :: 0x3a :: (dec r ++ 0x3a :: (dec g ++ 0x3a :: dec b))) 0x6d) =
      { t with pen := setExt t.pen which (.rgb r g b) } := by
  have hp : parseParam (dec which ++ 0x3a :: ([0x32] ++ 0x3a :: ([] ++ 0x3a :: (dec r ++ 0x3a :: (dec g ++ 0x3a :: dec b))))) =
      some [some which, some 2, none, some r, some g, some b] := by
    rw [parseParam_cons _ _ (colon_not_mem_dec _), parseNum_dec, parseParam_cons _ _ (by decide),
      parseParam_cons _ _ (by simp), parseParam_cons _ _ (colon_not_mem_dec _), parseNum_dec,
      parseParam_cons _ _ (colon_not_mem_dec _), parseNum_dec, parseParam_last _ (colon_not_mem_dec b), parseNum_dec]
    rfl
  have hsemi : 0x3b ∉ (dec which ++ 0x3a :: 0x32 :: 0x3a :: 0x3a :: (dec r ++ 0x3a :: (dec g ++ 0x3a :: dec b))) := by
    intro h
    simp only [List.mem_append, List.mem_cons] at h
    rcases h with h | h | h | h | h | h | h | h | h | h
    · exact semi_not_mem_dec _ h
    · omega
    · omega
    · omega
    · omega
    · exact semi_not_mem_dec _ h
    · omega
    · exact semi_not_mem_dec _ h
    · omega
    · exact semi_not_mem_dec _ h
  have hps : parseParams (dec which ++ 0x3a :: 0x32 :: 0x3a :: 0x3a :: (dec r ++ 0x3a :: (dec g ++ 0x3a :: dec b))) =
      some [[some which, some 2, none, some r, some g, some b]] := by
    rw [parseParams_last _ hsemi]
    show Option.map _ (parseParam (dec which ++ 0x3a :: ([0x32] ++ 0x3a :: ([] ++ 0x3a :: (dec r ++ 0x3a :: (dec g ++ 0x3a :: dec b)))))) = _
    rw [hp]; rfl
  have hbody : ∀ x ∈ dec which ++ 0x3a :: 0x32 :: 0x3a :: 0x3a :: (dec r ++ 0x3a :: (dec g ++ 0x3a :: dec b)),
      (48 ≤ x ∧ x ≤ 57) ∨ x = 0x3b ∨ x = 0x3a := by
    intro x hx
    simp only [List.mem_append, List.mem_cons] at hx
    rcases hx with h | h | h | h | h | h | h | h | h | h
    · exact numeric_dec _ x h
    · exact Or.inr (Or.inr h)
    · subst h; decide
    · exact Or.inr (Or.inr h)
    · exact Or.inr (Or.inr h)
    · exact numeric_dec _ x h
    · exact Or.inr (Or.inr h)
    · exact numeric_dec _ x h
    · exact Or.inr (Or.inr h)
    · exact numeric_dec _ x h
  rw [feed_csi_plain t hst _ 0x6d _ hbody (by omega) hps]
  have h4 : which ≠ 4 := by omega
  simp [dispatchPlain, sgr, applySgr, h4, hw, colonColor, colorOk, hr, hg, hb]

/-! ### OSC -/

theorem feed_osc_collect (t : Term) (rev bs : List Nat)
    (h : ∀ b ∈ bs, 0x20 ≤ b ∧ b ≠ 0x7f ∧ (b = 0x9c → t.cfg.utf8 = true ∨ t.cfg.c1Controls = false)) :
    ({ t with st := .osc rev } : Term).feed bs = { t with st := .osc (bs.reverse ++ rev) } := by
  induction bs generalizing rev with
  | nil => simp
  | cons b bs ih =>
    have hb := h b (by simp)
    have h1 : b ≠ 0x07 := by omega
    have h2 : b ≠ 0x1b := by omega
    have h3 : ¬ (b < 0x20 ∨ b = 0x7f) := by omega
    have h4 : ¬ (b = 0x9c ∧ (!t.cfg.utf8) = true ∧ t.cfg.c1Controls = true) := by
      intro hh
      rcases hb.2.2 hh.1 with h5 | h5
      · simp [h5] at hh
      · simp [h5] at hh
    have e : ({ t with st := .osc rev } : Term).feedByte b = { t with st := .osc (b :: rev) } := by
      simp [feedByte, feedOsc, h1, h2, h3]
      intro e1 hu hc
      exact absurd ⟨e1, by simp [hu], hc⟩ h4
    rw [feed_cons, e, ih (b :: rev) (fun x hx => h x (by simp [hx]))]
    simp

/-- `ESC ] payload ESC \` (ST-terminated) with a payload free of controls = `dispatchOsc` on the payload -/
theorem feed_osc_st (t : Term) (hst : t.st = .ground) (payload : List Nat)
    (h : ∀ b ∈ payload, 0x20 ≤ b ∧ b ≠ 0x7f ∧ (b = 0x9c → t.cfg.utf8 = true ∨ t.cfg.c1Controls = false)) :
    t.feed ([0x1b, 0x5d] ++ payload ++ [0x1b, 0x5c]) = dispatchOsc t payload := by
  have e1 : t.feedByte 0x1b = { t with st := .esc } := by simp [feedByte, hst, feedGround, c0]
  have e2 : ({ t with st := .esc } : Term).feedByte 0x5d = { t with st := .osc [] } := by simp [feedByte, feedEsc]
  have e3 : ∀ rev, ({ t with st := .osc rev } : Term).feedByte 0x1b = { t with st := .oscEsc rev } := by
    intro rev; simp [feedByte, feedOsc]
  have e4 : ∀ rev, ({ t with st := .oscEsc rev } : Term).feedByte 0x5c = dispatchOsc { t with st := .ground } rev.reverse := by
    intro rev; simp [feedByte, feedOscEsc]
  show t.feed (0x1b :: 0x5d :: (payload ++ [0x1b, 0x5c])) = _
  rw [feed_cons, e1, feed_cons, e2, ← feed_append, feed_osc_collect _ _ _ h, feed_cons, e3, feed_cons, e4, feed_nil]
  simp [with_ground t hst]

/-- `ESC ] payload BEL` -/
theorem feed_osc_bel (t : Term) (hst : t.st = .ground) (payload : List Nat)
    (h : ∀ b ∈ payload, 0x20 ≤ b ∧ b ≠ 0x7f ∧ (b = 0x9c → t.cfg.utf8 = true ∨ t.cfg.c1Controls = false)) :
    t.feed ([0x1b, 0x5d] ++ payload ++ [0x07]) = dispatchOsc t payload := by
  have e1 : t.feedByte 0x1b = { t with st := .esc } := by simp [feedByte, hst, feedGround, c0]
  have e2 : ({ t with st := .esc } : Term).feedByte 0x5d = { t with st := .osc [] } := by simp [feedByte, feedEsc]
  have e3 : ∀ rev, ({ t with st := .osc rev } : Term).feedByte 0x07 = dispatchOsc { t with st := .ground } rev.reverse := by
    intro rev; simp [feedByte, feedOsc]
  show t.feed (0x1b :: 0x5d :: (payload ++ [0x07])) = _
  rw [feed_cons, e1, feed_cons, e2, ← feed_append, feed_osc_collect _ _ _ h, feed_cons, e3, feed_nil]
  simp [with_ground t hst]

/-- **hyperlink off** `ESC ] 8 ; ; ESC \` -/
theorem osc8_close_effect (t : Term) (hst : t.st = .ground) :
    t.feed [0x1b, 0x5d, 0x38, 0x3b, 0x3b, 0x1b, 0x5c] = { t with linkKnown := true, pen := { t.pen with link := none } } := by
  have := feed_osc_st t hst [0x38, 0x3b, 0x3b] (by
    intro b hb
    simp only [List.mem_cons, List.not_mem_nil, or_false] at hb
    rcases hb with h | h | h <;> subst h <;> simp)
  simp only [List.cons_append, List.nil_append] at this
  rw [this]
  have h1 : splitFirst [0x38, 0x3b, 0x3b] = ([0x38], some [0x3b]) := by decide
  have h2 : splitFirst [0x3b] = ([], some []) := by decide
  simp [dispatchOsc, h1, h2, isDigit, parseNat]

/-- **hyperlink on** `ESC ] 8 ; id ; uri ESC \` for a non-empty `uri` and an `id` without `;` -/
theorem osc8_open_effect (t : Term) (hst : t.st = .ground) (id uri : List Nat)
    (hid : ∀ b ∈ id, 0x20 ≤ b ∧ b ≠ 0x7f ∧ b ≠ 0x3b ∧ b ≠ 0x9c)
    (huri : ∀ b ∈ uri, 0x20 ≤ b ∧ b ≠ 0x7f ∧ b ≠ 0x9c) (hne : uri ≠ []) :
    t.feed ([0x1b, 0x5d] ++ (0x38 :: 0x3b :: (id ++ 0x3b :: uri)) ++ [0x1b, 0x5c]) =
      { t with linkKnown := true, pen := { t.pen with link := some (t.text id, t.text uri) } } := by
  rw [feed_osc_st t hst _ (by
    intro b hb
    simp only [List.mem_cons, List.mem_append] at hb
    rcases hb with h | h | h | h | h
    · subst h; simp
    · subst h; simp
    · have := hid b h; exact ⟨this.1, this.2.1, fun e => absurd e this.2.2.2⟩
    · subst h; simp
    · have := huri b h; exact ⟨this.1, this.2.1, fun e => absurd e this.2.2⟩)]
  have hloop : ∀ (l r acc : List Nat), (∀ b ∈ l, b ≠ 0x3b) →
      List.span.loop (· != 0x3b) (l ++ 0x3b :: r) acc = (acc.reverse ++ l, 0x3b :: r) := by
    intro l r acc hl
    induction l generalizing acc with
    | nil => simp [List.span.loop]
    | cons x xs ih =>
      have hx : x ≠ 0x3b := hl x (by simp)
      have := ih (x :: acc) (fun b hb => hl b (by simp [hb]))
      have hx' : (x != 0x3b) = true := by simp [hx]
      simp [List.span.loop, hx', this]
  have hspan : ∀ (l r : List Nat), (∀ b ∈ l, b ≠ 0x3b) → (l ++ 0x3b :: r).span (· != 0x3b) = (l, 0x3b :: r) := by
    intro l r hl
    simpa [List.span] using hloop l r [] hl
  have h1 : splitFirst (0x38 :: 0x3b :: (id ++ 0x3b :: uri)) = ([0x38], some (id ++ 0x3b :: uri)) := by
    have := hspan [0x38] (id ++ 0x3b :: uri) (by simp)
    simp only [List.cons_append, List.nil_append] at this
    simp [splitFirst, this]
  have h2 : splitFirst (id ++ 0x3b :: uri) = (id, some uri) := by
    simp [splitFirst, hspan id uri (fun b hb => (hid b hb).2.2.1)]
  have h3 : uri.isEmpty = false := by cases uri <;> simp_all
  simp [dispatchOsc, h1, h2, h3, isDigit, parseNat]

/-! ### the last column -/

/-- **a narrow ASCII glyph in the last column**: the cell is written, the cursor stays; with auto-margin a wrap
    becomes pending -/
theorem print_last_col_effect (t : Term) (b : Nat) (hst : t.st = .ground) (hb : 0x20 ≤ b ∧ b < 0x7f)
    (hw : t.cfg.utf8 = true → t.cfg.rw (b : Int) = 1)
    (hfont : t.modes.altFont = 0) (hacs : acsActive t.modes = false)
    (hk : t.cursorKnown = true) (hpw : t.pendingWrap = false) (hirm : t.modes.insertMode = false)
    (hx : t.cx + 1 = t.w)
    (hc0 : (t.get t.cx t.cy).cont = false) :
    t.feedByte b =
      { t with
        grid := t.grid.set t.cx t.cy (t.glyphCell b)
        pendingWrap := t.modes.autoMargin
        last := some (t.cx, t.cy, t.cx, t.cy, t.modes.autoMargin) } := by
  have hwd : t.widthOf (b : Int) = 1 := by
    unfold widthOf
    cases hu : t.cfg.utf8 with
    | false => simp
    | true => simp [hw hu]
  have h1 : ¬ b < 0x20 := by omega
  have h2 : b ≠ 0x7f := by omega
  have h3 : b < 0x80 := by omega
  have hc1 : (t.grid.get (t.cx + 1) t.cy).cont = false := by
    rw [Grid.get_out]
    have : t.w = t.grid.w := rfl
    omega
  have hcl : t.grid.clobber t.blocks t.cx t.cy = t.grid := Grid.clobber_noop _ _ _ _ hc0 hc1
  have hx' : ¬ t.cx + 1 < t.grid.w := by
    have : t.w = t.grid.w := rfl
    omega
  simp [feedByte, hst, feedGround, h1, h2, h3, printByte, hfont, hacs, hwd, putGlyph, putNarrow, hk, doWrap, hpw, hirm,
    putNarrowAt, hcl, hx']

end Term

/-! ## UTF-8 text, wide glyphs, combining marks -/

/-- UTF-8 encoding of a code point ≥ 0x80 (reference encoder for the statements below) -/
def utf8Enc (cp : Nat) : List Nat :=
  if cp < 0x800 then [0xC0 + cp / 64, 0x80 + cp % 64]
  else if cp < 0x10000 then [0xE0 + cp / 4096, 0x80 + cp / 64 % 64, 0x80 + cp % 64]
  else [0xF0 + cp / 262144, 0x80 + cp / 4096 % 64, 0x80 + cp / 64 % 64, 0x80 + cp % 64]

namespace Term

/-- **decoding**: the UTF-8 bytes of a scalar value ≥ 0x80, fed to a UTF-8 terminal in the ground state, print that
    code point (`printCp`: C1 code points are refused, everything else goes to `putGlyph` with its width) -/
theorem feed_utf8Enc (t : Term) (hst : t.st = .ground) (hu : t.cfg.utf8 = true) (cp : Nat)
    (hlo : 0x80 ≤ cp) (hhi : cp ≤ 0x10FFFF) (hsur : ¬ (0xD800 ≤ cp ∧ cp ≤ 0xDFFF)) :
    t.feed (utf8Enc cp) = t.printCp cp := by
  unfold utf8Enc
  by_cases h2 : cp < 0x800
  · simp only [h2, if_true, feed_cons, feed_nil]
    have b0 : ¬ (0xC0 + cp / 64 < 0x20) := by omega
    have b0' : 0xC0 + cp / 64 ≠ 0x7f := by omega
    have b0'' : ¬ (0xC0 + cp / 64 < 0x80) := by omega
    have b0r : 0xC2 ≤ 0xC0 + cp / 64 ∧ 0xC0 + cp / 64 ≤ 0xDF := by omega
    have e1 : t.feedByte (0xC0 + cp / 64) = { t with st := .utf8 1 (cp / 64) 0x80 } := by
      simp [feedByte, hst, feedGround, b0, b0', b0'', hu, b0r]
    have c1 : 0x80 ≤ 0x80 + cp % 64 ∧ 0x80 + cp % 64 < 0xC0 := by omega
    have acc : cp / 64 * 64 + cp % 64 = cp := by omega
    have ok : ¬ (cp < 0x80 ∨ 0x10FFFF < cp ∨ (0xD800 ≤ cp ∧ cp ≤ 0xDFFF)) := by omega
    rw [e1]
    simp [feedByte, feedUtf8, c1, acc, ok, with_ground t hst]
  · by_cases h3 : cp < 0x10000
    · simp only [h2, h3, if_true, if_false, feed_cons, feed_nil]
      have b0 : ¬ (0xE0 + cp / 4096 < 0x20) := by omega
      have b0' : 0xE0 + cp / 4096 ≠ 0x7f := by omega
      have b0'' : ¬ (0xE0 + cp / 4096 < 0x80) := by omega
      have b0n : ¬ (0xC2 ≤ 0xE0 + cp / 4096 ∧ 0xE0 + cp / 4096 ≤ 0xDF) := by omega
      have b0r : 0xE0 ≤ 0xE0 + cp / 4096 ∧ 0xE0 + cp / 4096 ≤ 0xEF := by omega
      have e1 : t.feedByte (0xE0 + cp / 4096) = { t with st := .utf8 2 (cp / 4096) 0x800 } := by
        simp [feedByte, hst, feedGround, b0, b0', b0'', hu, b0n, b0r]
      have c1 : 0x80 ≤ 0x80 + cp / 64 % 64 ∧ 0x80 + cp / 64 % 64 < 0xC0 := by omega
      have c2 : 0x80 ≤ 0x80 + cp % 64 ∧ 0x80 + cp % 64 < 0xC0 := by omega
      have acc1 : cp / 4096 * 64 + cp / 64 % 64 = cp / 64 := by omega
      have acc2 : cp / 64 * 64 + cp % 64 = cp := by omega
      have ok : ¬ (cp < 0x800 ∨ 0x10FFFF < cp ∨ (0xD800 ≤ cp ∧ cp ≤ 0xDFFF)) := by omega
      rw [e1]
      simp [feedByte, feedUtf8, c1, c2, acc1, acc2, ok, with_ground t hst]
    · simp only [h2, h3, if_false, feed_cons, feed_nil]
      have b0 : ¬ (0xF0 + cp / 262144 < 0x20) := by omega
      have b0' : 0xF0 + cp / 262144 ≠ 0x7f := by omega
      have b0'' : ¬ (0xF0 + cp / 262144 < 0x80) := by omega
      have b0n : ¬ (0xC2 ≤ 0xF0 + cp / 262144 ∧ 0xF0 + cp / 262144 ≤ 0xDF) := by omega
      have b0m : ¬ (0xE0 ≤ 0xF0 + cp / 262144 ∧ 0xF0 + cp / 262144 ≤ 0xEF) := by omega
      have b0r : 0xF0 ≤ 0xF0 + cp / 262144 ∧ 0xF0 + cp / 262144 ≤ 0xF4 := by omega
      have e1 : t.feedByte (0xF0 + cp / 262144) = { t with st := .utf8 3 (cp / 262144) 0x10000 } := by
        simp [feedByte, hst, feedGround, b0, b0', b0'', hu, b0n, b0m, b0r]
      have c1 : 0x80 ≤ 0x80 + cp / 4096 % 64 ∧ 0x80 + cp / 4096 % 64 < 0xC0 := by omega
      have c2 : 0x80 ≤ 0x80 + cp / 64 % 64 ∧ 0x80 + cp / 64 % 64 < 0xC0 := by omega
      have c3 : 0x80 ≤ 0x80 + cp % 64 ∧ 0x80 + cp % 64 < 0xC0 := by omega
      have acc1 : cp / 262144 * 64 + cp / 4096 % 64 = cp / 4096 := by omega
      have acc2 : cp / 4096 * 64 + cp / 64 % 64 = cp / 64 := by omega
      have acc3 : cp / 64 * 64 + cp % 64 = cp := by omega
      have ok : ¬ (cp < 0x10000 ∨ 0x10FFFF < cp ∨ (0xD800 ≤ cp ∧ cp ≤ 0xDFFF)) := by omega
      rw [e1]
      simp [feedByte, feedUtf8, c1, c2, c3, acc1, acc2, acc3, ok, with_ground t hst]

/-- **a narrow glyph** (any code point) away from the last column -/
theorem putNarrow_effect (t : Term) (cp : Int)
    (hk : t.cursorKnown = true) (hpw : t.pendingWrap = false) (hirm : t.modes.insertMode = false)
    (hx : t.cx + 1 < t.w)
    (hc0 : (t.get t.cx t.cy).cont = false) (hc1 : (t.get (t.cx + 1) t.cy).cont = false) :
    t.putNarrow cp =
      { t with
        grid := t.grid.set t.cx t.cy (t.glyphCell cp)
        cx := t.cx + 1
        last := some (t.cx, t.cy, t.cx + 1, t.cy, false) } := by
  have hcl : t.grid.clobber t.blocks t.cx t.cy = t.grid := Grid.clobber_noop _ _ _ _ hc0 hc1
  have hxg : t.cx + 1 < t.grid.w := hx
  simp [putNarrow, hk, doWrap, hpw, hirm, putNarrowAt, hcl, hxg]

/-- **a wide glyph** that fits with room to spare: two cells (glyph + continuation), the cursor advances by two -/
theorem putWide_effect (t : Term) (cp : Int)
    (hk : t.cursorKnown = true) (hpw : t.pendingWrap = false) (hirm : t.modes.insertMode = false)
    (hx : t.cx + 2 < t.w)
    (hc0 : (t.get t.cx t.cy).cont = false) (hc1 : (t.get (t.cx + 1) t.cy).cont = false)
    (hc2 : (t.get (t.cx + 2) t.cy).cont = false) :
    t.putWide cp =
      { t with
        grid := (t.grid.set t.cx t.cy (t.glyphCell cp)).set (t.cx + 1) t.cy { t.glyphCell cp with runes := [], cont := true }
        cx := t.cx + 2
        last := some (t.cx, t.cy, t.cx + 2, t.cy, false) } := by
  have hcl : t.grid.clobber t.blocks t.cx t.cy = t.grid := Grid.clobber_noop _ _ _ _ hc0 hc1
  have hxg : t.cx + 2 < t.grid.w := hx
  have hfit : ¬ t.grid.w < t.cx + 2 := by omega
  have g1 : ((t.grid.set t.cx t.cy (t.glyphCell cp)).get (t.cx + 1) t.cy).cont = false := by
    rw [Grid.get_set_other _ _ _ _ _ _ (by omega)]; exact hc1
  have g2 : ((t.grid.set t.cx t.cy (t.glyphCell cp)).get (t.cx + 1 + 1) t.cy).cont = false := by
    rw [Grid.get_set_other _ _ _ _ _ _ (by omega)]; exact hc2
  have hcl2 : (t.grid.set t.cx t.cy (t.glyphCell cp)).clobber t.blocks (t.cx + 1) t.cy = t.grid.set t.cx t.cy (t.glyphCell cp) :=
    Grid.clobber_noop _ _ _ _ g1 g2
  simp [putWide, hk, doWrap, hpw, hirm, w, hfit, putWideAt, hcl, hcl2, hxg]

/-- **a combining mark right after a glyph**: it joins the cell of that glyph, the cursor does not move -/
theorem putCombining_effect (t : Term) (cp : Int) (x y : Nat)
    (hk : t.cursorKnown = true) (hl : t.last = some (x, y, t.cx, t.cy, t.pendingWrap)) :
    t.putCombining cp =
      { t with grid := t.grid.set x y { t.grid.get x y with
                 runes := (if (t.grid.get x y).runes.isEmpty then [32] else (t.grid.get x y).runes) ++ [cp], stamp := t.blocks } } := by
  simp [putCombining, hk, hl, addMark]

end Term

/-! ## SGR never touches the parser state, the cursor or the grid (so effects chain) -/

namespace Term

/-- what SGR may change: pen, `penKnown`, the font selection in `modes`, complaints -/
def SgrFrame (t t' : Term) : Prop :=
  t'.st = t.st ∧ t'.cx = t.cx ∧ t'.cy = t.cy ∧ t'.pendingWrap = t.pendingWrap ∧ t'.grid = t.grid ∧ t'.other = t.other ∧
  t'.cursorKnown = t.cursorKnown ∧ t'.linkKnown = t.linkKnown ∧ t'.pen.link = t.pen.link ∧ t'.blocks = t.blocks ∧ t'.last = t.last

theorem SgrFrame.refl (t : Term) : SgrFrame t t := by simp [SgrFrame]

theorem SgrFrame.trans {a b c : Term} (h1 : SgrFrame a b) (h2 : SgrFrame b c) : SgrFrame a c := by
  obtain ⟨a1, a2, a3, a4, a5, a6, a7, a8, a9, a10, a11⟩ := h1
  obtain ⟨b1, b2, b3, b4, b5, b6, b7, b8, b9, b10, b11⟩ := h2
  exact ⟨b1.trans a1, b2.trans a2, b3.trans a3, b4.trans a4, b5.trans a5, b6.trans a6, b7.trans a7, b8.trans a8,
    b9.trans a9, b10.trans a10, b11.trans a11⟩

theorem sgrSimple_link (p p' : Pen) (n : Nat) (h : sgrSimple p n = some p') : p'.link = p.link := by
  have key : ((sgrSimple p n).map (fun q => q.link)).getD p.link = p.link := by
    simp [sgrSimple, apply_ite (Option.map (fun q : Pen => q.link)),
      apply_ite (fun o : Option (Option (String × String)) => o.getD p.link)]
  rw [h] at key
  simpa using key

theorem setExt_link (p : Pen) (w : Nat) (c : ColorSel) : (setExt p w c).link = p.link := by
  unfold setExt; split
  · rfl
  · split <;> rfl

theorem sgrStep_frame (k : List Param → Term → Term) (p : Param) (rest : List Param) (t : Term)
    (hk : ∀ r2 t', SgrFrame t' (k r2 t')) : SgrFrame t (sgrStep k p rest t) := by
  have K : ∀ r2 t', SgrFrame t t' → SgrFrame t (k r2 t') := fun r2 t' h => h.trans (hk r2 t')
  have C : ∀ msg, SgrFrame t (t.complain msg) := fun msg => by simp [SgrFrame, complain]
  unfold sgrStep
  split
  · exact K _ _ (by simp [SgrFrame])
  · exact K _ _ (by simp [SgrFrame])
  · split
    · split
      · split
        · exact K _ _ (by simp [SgrFrame, setExt_link])
        · exact K _ _ (C _)
      · split
        · exact K _ _ (by simp [SgrFrame, setExt_link])
        · exact K _ _ (C _)
      · exact C _
    · split
      · exact K _ _ (by simp [SgrFrame])
      · split
        · exact K _ _ (by simp [SgrFrame])
        · split
          · rename_i p' hp'
            exact K _ _ (by simp [SgrFrame, sgrSimple_link _ _ _ hp'])
          · exact K _ _ (C _)
  · split
    · split
      · split
        · exact K _ _ (by simp [SgrFrame])
        · exact K _ _ (C _)
      · exact K _ _ (C _)
    · split
      · split
        · split
          · exact K _ _ (by simp [SgrFrame, setExt_link])
          · exact K _ _ (C _)
        · exact K _ _ (C _)
      · exact K _ _ (C _)
  · exact K _ _ (C _)

theorem applySgr_frame : ∀ (f : Nat) (ps : List Param) (t : Term), SgrFrame t (applySgr f ps t) := by
  intro f
  induction f with
  | zero => intro ps t; cases ps <;> exact SgrFrame.refl t
  | succ f ih =>
    intro ps t
    cases ps with
    | nil => exact SgrFrame.refl t
    | cons p rest =>
      rw [applySgr_step]
      exact sgrStep_frame _ _ _ _ (fun r2 t' => ih r2 t')

/-- SGR changes nothing but the pen (never its hyperlink), `penKnown`, the font selection and the complaints -/
theorem sgr_frame (t : Term) (ps : List Param) : SgrFrame t (t.sgr ps) := applySgr_frame _ _ _

theorem sgr_st (t : Term) (ps : List Param) : (t.sgr ps).st = t.st := (sgr_frame t ps).1

end Term

end Tcell.Spec.Ecma48
