/-
Independent references for C16, written from the standards and not from color.go:

* `xtermRGB`: the 256-colour palette of xterm's 256-colour mode (xterm `256colres.pl` / ctlseqs "88- and 256-color
  support"): indices 16-231 are the 6×6×6 cube with channel levels 0,95,135,175,215,255 (`55+40k` for k>0), index
  `16+36r+6g+b`; indices 232-255 are the grey ramp `8+10k`.  Indices 0-15 are the sixteen ECMA-48/ANSI colours, for which
  tcell (like the widely reproduced xterm colour chart) uses the sixteen HTML 4 / CSS basic colours in ANSI order
  (black maroon green olive navy purple teal silver | gray red lime yellow blue fuchsia aqua white).
* `cssNames`: the named colours of CSS Color Module Level 4 §6.1 (the 147 SVG/CSS3 extended keywords + rebeccapurple =
  148 names incl. both spellings of gray), value = 0xRRGGBB.
-/
namespace Tcell.Spec.Color

/-- channel level of the 6×6×6 cube -/
def cubeLevel (k : Nat) : Nat := if k = 0 then 0 else 55 + 40 * k

/-- the sixteen basic colours in ANSI order, 0xRRGGBB -/
def ansi16 : List Nat :=
  [0x000000, 0x800000, 0x008000, 0x808000, 0x000080, 0x800080, 0x008080, 0xc0c0c0,
   0x808080, 0xff0000, 0x00ff00, 0xffff00, 0x0000ff, 0xff00ff, 0x00ffff, 0xffffff]

/-- (r, g, b) of xterm palette index `i` (meaningful for `i < 256`) -/
def xtermChannels (i : Nat) : Nat × Nat × Nat :=
  if i < 16 then
    let v := ansi16.getD i 0
    (v / 65536 % 256, v / 256 % 256, v % 256)
  else if i < 232 then
    let j := i - 16
    (cubeLevel (j / 36), cubeLevel (j / 6 % 6), cubeLevel (j % 6))
  else
    let g := 8 + 10 * (i - 232)
    (g, g, g)

/-- 0xRRGGBB of xterm palette index `i` -/
def xtermRGB (i : Nat) : Nat :=
  let (r, g, b) := xtermChannels i
  r * 65536 + g * 256 + b

/-- CSS Color Module Level 4 named colours -/
def cssNames : List (String × Nat) := [
  ("aliceblue", 0xf0f8ff),
  ("antiquewhite", 0xfaebd7),
  ("aqua", 0x00ffff),
  ("aquamarine", 0x7fffd4),
  ("azure", 0xf0ffff),
  ("beige", 0xf5f5dc),
  ("bisque", 0xffe4c4),
  ("black", 0x000000),
  ("blanchedalmond", 0xffebcd),
  ("blue", 0x0000ff),
  ("blueviolet", 0x8a2be2),
  ("brown", 0xa52a2a),
  ("burlywood", 0xdeb887),
  ("cadetblue", 0x5f9ea0),
  ("chartreuse", 0x7fff00),
  ("chocolate", 0xd2691e),
  ("coral", 0xff7f50),
  ("cornflowerblue", 0x6495ed),
  ("cornsilk", 0xfff8dc),
  ("crimson", 0xdc143c),
  ("cyan", 0x00ffff),
  ("darkblue", 0x00008b),
  ("darkcyan", 0x008b8b),
  ("darkgoldenrod", 0xb8860b),
  ("darkgray", 0xa9a9a9),
  ("darkgreen", 0x006400),
  ("darkgrey", 0xa9a9a9),
  ("darkkhaki", 0xbdb76b),
  ("darkmagenta", 0x8b008b),
  ("darkolivegreen", 0x556b2f),
  ("darkorange", 0xff8c00),
  ("darkorchid", 0x9932cc),
  ("darkred", 0x8b0000),
  ("darksalmon", 0xe9967a),
  ("darkseagreen", 0x8fbc8f),
  ("darkslateblue", 0x483d8b),
  ("darkslategray", 0x2f4f4f),
  ("darkslategrey", 0x2f4f4f),
  ("darkturquoise", 0x00ced1),
  ("darkviolet", 0x9400d3),
  ("deeppink", 0xff1493),
  ("deepskyblue", 0x00bfff),
  ("dimgray", 0x696969),
  ("dimgrey", 0x696969),
  ("dodgerblue", 0x1e90ff),
  ("firebrick", 0xb22222),
  ("floralwhite", 0xfffaf0),
  ("forestgreen", 0x228b22),
  ("fuchsia", 0xff00ff),
  ("gainsboro", 0xdcdcdc),
  ("ghostwhite", 0xf8f8ff),
  ("gold", 0xffd700),
  ("goldenrod", 0xdaa520),
  ("gray", 0x808080),
  ("green", 0x008000),
  ("greenyellow", 0xadff2f),
  ("grey", 0x808080),
  ("honeydew", 0xf0fff0),
  ("hotpink", 0xff69b4),
  ("indianred", 0xcd5c5c),
  ("indigo", 0x4b0082),
  ("ivory", 0xfffff0),
  ("khaki", 0xf0e68c),
  ("lavender", 0xe6e6fa),
  ("lavenderblush", 0xfff0f5),
  ("lawngreen", 0x7cfc00),
  ("lemonchiffon", 0xfffacd),
  ("lightblue", 0xadd8e6),
  ("lightcoral", 0xf08080),
  ("lightcyan", 0xe0ffff),
  ("lightgoldenrodyellow", 0xfafad2),
  ("lightgray", 0xd3d3d3),
  ("lightgreen", 0x90ee90),
  ("lightgrey", 0xd3d3d3),
  ("lightpink", 0xffb6c1),
  ("lightsalmon", 0xffa07a),
  ("lightseagreen", 0x20b2aa),
  ("lightskyblue", 0x87cefa),
  ("lightslategray", 0x778899),
  ("lightslategrey", 0x778899),
  ("lightsteelblue", 0xb0c4de),
  ("lightyellow", 0xffffe0),
  ("lime", 0x00ff00),
  ("limegreen", 0x32cd32),
  ("linen", 0xfaf0e6),
  ("magenta", 0xff00ff),
  ("maroon", 0x800000),
  ("mediumaquamarine", 0x66cdaa),
  ("mediumblue", 0x0000cd),
  ("mediumorchid", 0xba55d3),
  ("mediumpurple", 0x9370db),
  ("mediumseagreen", 0x3cb371),
  ("mediumslateblue", 0x7b68ee),
  ("mediumspringgreen", 0x00fa9a),
  ("mediumturquoise", 0x48d1cc),
  ("mediumvioletred", 0xc71585),
  ("midnightblue", 0x191970),
  ("mintcream", 0xf5fffa),
  ("mistyrose", 0xffe4e1),
  ("moccasin", 0xffe4b5),
  ("navajowhite", 0xffdead),
  ("navy", 0x000080),
  ("oldlace", 0xfdf5e6),
  ("olive", 0x808000),
  ("olivedrab", 0x6b8e23),
  ("orange", 0xffa500),
  ("orangered", 0xff4500),
  ("orchid", 0xda70d6),
  ("palegoldenrod", 0xeee8aa),
  ("palegreen", 0x98fb98),
  ("paleturquoise", 0xafeeee),
  ("palevioletred", 0xdb7093),
  ("papayawhip", 0xffefd5),
  ("peachpuff", 0xffdab9),
  ("peru", 0xcd853f),
  ("pink", 0xffc0cb),
  ("plum", 0xdda0dd),
  ("powderblue", 0xb0e0e6),
  ("purple", 0x800080),
  ("rebeccapurple", 0x663399),
  ("red", 0xff0000),
  ("rosybrown", 0xbc8f8f),
  ("royalblue", 0x4169e1),
  ("saddlebrown", 0x8b4513),
  ("salmon", 0xfa8072),
  ("sandybrown", 0xf4a460),
  ("seagreen", 0x2e8b57),
  ("seashell", 0xfff5ee),
  ("sienna", 0xa0522d),
  ("silver", 0xc0c0c0),
  ("skyblue", 0x87ceeb),
  ("slateblue", 0x6a5acd),
  ("slategray", 0x708090),
  ("slategrey", 0x708090),
  ("snow", 0xfffafa),
  ("springgreen", 0x00ff7f),
  ("steelblue", 0x4682b4),
  ("tan", 0xd2b48c),
  ("teal", 0x008080),
  ("thistle", 0xd8bfd8),
  ("tomato", 0xff6347),
  ("turquoise", 0x40e0d0),
  ("violet", 0xee82ee),
  ("wheat", 0xf5deb3),
  ("white", 0xffffff),
  ("whitesmoke", 0xf5f5f5),
  ("yellow", 0xffff00),
  ("yellowgreen", 0x9acd32)]

def cssValue (name : String) : Option Nat := cssNames.lookup name

end Tcell.Spec.Color
