import Tcell.Spec.ATerm
import Tcell.Spec.Ecma48Test
/-!
`ATerm.insertAt` (Layer A's ICH) checked against the byte-level reference emulator's ICH
(`Spec.Ecma48.Term.insertChars` / `Grid.insertBlanks`, CSI @) on examples: the same scenario is played on both, then
every cell of the row must agree — an abstract `garbage` cell agrees with anything (nothing is claimed), `shown`
needs the same glyph, the same width class and a cell that is not garbage, `cont` needs a continuation cell — and the
cells Layer A logs as written (`writes` / `covered`) must be exactly the cells the emulator stamped in the ICH's
write block.  Kernel-evaluated (`by decide`).
-/
namespace Tcell.Spec.ATermIchTest
open Tcell Tcell.Spec.Ecma48 Tcell.Spec.Ecma48.Test

/-- the bytes tcell sends for the glyphs used below -/
def bytesOf : List Int → List Nat
  | [] => [32]
  | [0x4E16] => shi
  | [c] => [c.toNat]
  | _ => []

/-- does the emulator cell `g` (right neighbour `g1`) show what the abstract cell claims? -/
def agrees (a : ACell) (g g1 : GCell) : Bool :=
  match a with
  | .garbage => true
  | .cont => g.cont
  | .shown b wide _ => !g.cont && !g.garbage && (bytesOf g.runes == b) && (g1.cont == wide)

def rowAgrees (a : ATerm) (e : Term) (y : Nat) : Bool :=
  (List.range e.w).all fun x => agrees (a.grid x y) (e.get x y) (e.get (x + 1) y)

/-- cells of row `y` the emulator stamped in its current write block -/
def stamped (e : Term) (y : Nat) : List (Int × Int) :=
  ((List.range e.w).filter fun x => (e.get x y).stamp == e.blocks).reverse.map fun x => (Int.ofNat x, Int.ofNat y)

def A (w h : Int) : ATerm := { w := w, h := h, pen := some {} }

/-! ### the shape of the corner trick: 6×2, last row `a b 世 世 c .`, then `Z` is written at column 4 and pushed into
the corner by ICH -/
def aCorner : ATerm :=
  (A 6 2).applyAll [.goto 0 1, .put [97] 1, .put [98] 1, .put shi 2, .put [99] 1, .goto 4 1, .put [90] 1, .goto 4 1]
def eCorner : Term := ((T 6 2).feed (B "\x1b[2;1Hab" ++ shi ++ B "c\x1b[2;5HZ\x1b[2;5H")).beginBlock

example : rowAgrees aCorner eCorner 1 = true := by decide
example : rowAgrees (aCorner.apply .insertChar) (eCorner.feed (B "\x1b[@")) 1 = true := by decide
example : (aCorner.apply .insertChar).grid 5 1 = .shown [90] false {} := by decide
example : (aCorner.apply .insertChar).grid 4 1 = .garbage := by decide
example : (aCorner.apply .insertChar).grid 2 1 = .shown shi true {} ∧ (aCorner.apply .insertChar).grid 3 1 = .cont := by decide
example : runes (eCorner.feed (B "\x1b[@")) 1 = [[97], [98], [0x4E16], [], [], [90]] := by decide
-- written = stamped: columns 4 and 5 of the last row; the cursor stays
example : ((aCorner.apply .insertChar).covered.take 2, (aCorner.apply .insertChar).writes.take 2) =
    (stamped (eCorner.feed (B "\x1b[@")) 1, stamped (eCorner.feed (B "\x1b[@")) 1) := by decide
example : stamped (eCorner.feed (B "\x1b[@")) 1 = [(5, 1), (4, 1)] := by decide
example : (aCorner.apply .insertChar).cur = some (4, 1) ∧ (eCorner.feed (B "\x1b[@")).cx = 4 := by decide
example : (aCorner.apply .insertChar).chaos = false := by decide

/-! ### a wide glyph that moves as a whole stays intact -/
def aWhole : ATerm := (A 5 1).applyAll [.goto 0 0, .put [97] 1, .put shi 2, .put [98] 1, .goto 0 0]
def eWhole : Term := ((T 5 1).feed (B "a" ++ shi ++ B "b\x1b[1;1H")).beginBlock
example : rowAgrees (aWhole.apply .insertChar) (eWhole.feed (B "\x1b[@")) 0 = true := by decide
example : (aWhole.apply .insertChar).grid 1 0 = .shown [97] false {} ∧ (aWhole.apply .insertChar).grid 2 0 = .shown shi true {} ∧
    (aWhole.apply .insertChar).grid 3 0 = .cont ∧ (aWhole.apply .insertChar).grid 4 0 = .shown [98] false {} := by decide
example : runes (eWhole.feed (B "\x1b[@")) 0 = [[], [97], [0x4E16], [], [98]] ∧
    conts (eWhole.feed (B "\x1b[@")) 0 = [false, false, false, true, false] := by decide

/-! ### a wide glyph whose right half is pushed over the right margin is destroyed -/
def aEdge : ATerm := (A 4 1).applyAll [.goto 0 0, .put [97] 1, .put [98] 1, .put shi 2, .goto 0 0]
def eEdge : Term := ((T 4 1).feed (B "ab" ++ shi ++ B "\x1b[1;1H")).beginBlock
example : rowAgrees (aEdge.apply .insertChar) (eEdge.feed (B "\x1b[@")) 0 = true := by decide
example : (aEdge.apply .insertChar).grid 3 0 = .garbage ∧ (aEdge.apply .insertChar).grid 2 0 = .shown [98] false {} := by decide
example : runes (eEdge.feed (B "\x1b[@")) 0 = [[], [97], [98], []] ∧ conts (eEdge.feed (B "\x1b[@")) 0 = [false, false, false, false] := by decide

/-! ### ICH with the cursor on the right half of a wide glyph destroys that glyph (its left half stays behind) -/
def aSplit : ATerm := (A 5 1).applyAll [.goto 0 0, .put [97] 1, .put shi 2, .put [98] 1, .goto 2 0]
def eSplit : Term := ((T 5 1).feed (B "a" ++ shi ++ B "b\x1b[1;3H")).beginBlock
example : rowAgrees (aSplit.apply .insertChar) (eSplit.feed (B "\x1b[@")) 0 = true := by decide
example : (aSplit.apply .insertChar).grid 1 0 = .garbage ∧ (aSplit.apply .insertChar).grid 2 0 = .garbage ∧
    (aSplit.apply .insertChar).grid 3 0 = .garbage ∧ (aSplit.apply .insertChar).grid 4 0 = .shown [98] false {} := by decide

/-! ### unknown cursor, or a cursor past the right margin (deferred wrap): nothing is known afterwards -/
example : (({ w := 3, h := 1 } : ATerm).apply .insertChar).chaos = true := by decide
example : (((A 3 1).applyAll [.goto 2 0, .put [97] 1]).apply .insertChar).chaos = true := by decide

end Tcell.Spec.ATermIchTest
