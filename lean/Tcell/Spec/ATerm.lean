/-
Layer A of C01/C13: an abstract "standards-conforming terminal" that interprets the abstract commands of
the draw path (`Tcell.Cmd`).  Conventions (DESIGN.md §6): a glyph of width 2 occupies its cell and a
continuation cell to the right; overwriting one half of a wide glyph blanks the other half (modelled as
*garbage*: nothing may be claimed about it); `clear` leaves cells nothing may be claimed about
(everything is repainted after a clear anyway); printing with an unknown cursor or pen, or outside the
grid, makes the whole grid garbage; `insertChar` (ICH) is `insertAt` below.  Byte-level behaviour is Layer B (`Tcell.Spec.Ecma48`).
-/
import Tcell.Model.Draw
namespace Tcell

inductive ACell where
  | garbage
  | shown (bytes : List Nat) (wide : Bool) (st : Style)
  | cont
deriving DecidableEq, Repr

structure ATerm where
  w : Int := 0
  h : Int := 0
  grid : Int → Int → ACell := fun _ _ => .garbage
  cur : Option (Int × Int) := none      -- known cursor position (x may equal w: just past the last column)
  pen : Option Style := none            -- known pen (as the tcell style it was set from)
  visible : Option Bool := none         -- cursor visibility
  shape : Option (Nat × Nat) := none    -- cursor style / colour last requested with the cursor shown
  writes : List (Int × Int) := []       -- cells that received payload, most recent first (C13)
  covered : List (Int × Int) := []      -- every cell a payload occupied: the addressed cell and, for a two-column glyph,
                                        -- the cell to its right; most recent first (C13, locked cells never painted)
  chaos : Bool := false                 -- a print happened with unknown cursor/pen or outside the grid

namespace ATerm

def inGrid (t : ATerm) (x y : Int) : Prop := 0 ≤ x ∧ x < t.w ∧ 0 ≤ y ∧ y < t.h
instance (t : ATerm) (x y : Int) : Decidable (t.inGrid x y) := by unfold inGrid; infer_instance

def set (t : ATerm) (x y : Int) (c : ACell) : ATerm :=
  { t with grid := fun i j => if i = x ∧ j = y then c else t.grid i j }

def allGarbage (t : ATerm) : ATerm := { t with grid := fun _ _ => .garbage }

/-- print a glyph of `width` columns at (x,y) with pen `st` -/
def putAt (t : ATerm) (x y : Int) (bytes : List Nat) (width : Int) (st : Style) : ATerm :=
  let t1 := if t.grid x y = .cont then t.set (x - 1) y .garbage else t
  let t2 := if width ≤ 1 ∧ t.grid (x + 1) y = .cont then t1.set (x + 1) y .garbage else t1
  let t3 := if width > 1 ∧ t.grid (x + 2) y = .cont then t2.set (x + 2) y .garbage else t2
  let t4 := t3.set x y (.shown bytes (decide (width > 1)) st)
  let t5 := if width > 1 then t4.set (x + 1) y .cont else t4
  { t5 with cur := some (x + width, y), writes := (x, y) :: t.writes,
            covered := if width > 1 then (x + 1, y) :: (x, y) :: t.covered else (x, y) :: t.covered }

def clampX (t : ATerm) (x : Int) : Int := if x < 0 then 0 else if x ≥ t.w then t.w - 1 else x
def clampY (t : ATerm) (y : Int) : Int := if y < 0 then 0 else if y ≥ t.h then t.h - 1 else y

/-- the cells of row `y` from column `x` to the right margin, rightmost first -/
def rowFrom (t : ATerm) (x y : Int) : List (Int × Int) :=
  (List.range (t.w - x).toNat).reverse.map fun (k : Nat) => (x + Int.ofNat k, y)

/-- ICH, one character (ECMA-48 8.3.64, terminfo `ich1`) with the cursor at the in-grid cell (x,y): the cells from the
cursor to the right margin move one column to the right, the last one falls off the line, an erased-state cell
appears at the cursor; the cursor does not move.

* The rendition of the erased cell is implementation-defined (xterm and the byte-level emulator
  `Spec.Ecma48.Grid.insertBlanks` use a blank with the *background* of the pen, "bce"; other terminals the default
  rendition), so nothing is claimed about it (`garbage`): tcell repaints that cell at once.
* A wide glyph split by the operation is destroyed (both halves `garbage`): the glyph whose right half is under the
  cursor (its left half stays behind) and the glyph whose right half is pushed over the right margin.  A wide glyph
  that moves as a whole stays intact.
* C13 ghosts: ICH changes what *every* cell from the cursor to the right margin displays, so all of them count as
  written and as covered (`rowFrom`) — exactly the cells the byte-level emulator stamps (`Grid.touch`).  This is the
  property's exception "the neighbour used to paint the bottom-right corner on auto-margin terminals". -/
def insertAt (t : ATerm) (x y : Int) : ATerm :=
  { t with
    grid := fun i j =>
      if j = y ∧ i = x then .garbage
      else if j = y ∧ i = x - 1 ∧ t.grid x y = .cont then .garbage
      else if j = y ∧ x < i ∧ i < t.w then
        (match t.grid (i - 1) j with
         | .shown b false st => .shown b false st
         | .shown b true st => if i + 1 < t.w then .shown b true st else .garbage
         | .cont => if i - 1 = x then .garbage else .cont
         | .garbage => .garbage)
      else t.grid i j
    writes := t.rowFrom x y ++ t.writes
    covered := t.rowFrom x y ++ t.covered }

def apply (t : ATerm) : Cmd → ATerm
  | .goto x y => { t with cur := some (t.clampX x, t.clampY y) }
  | .setPen s => { t with pen := some s }
  | .put bytes width =>
    match t.cur, t.pen with
    | some (x, y), some st =>
      if t.inGrid x y then t.putAt x y bytes width st
      else { t.allGarbage with cur := none, chaos := true }
    | _, _ => { t.allGarbage with cur := none, chaos := true }
  | .hideCursor => { t with visible := some false }
  | .showCursor st col => { t with visible := some true, shape := some (st, col) }
  | .clear _ => { t.allGarbage with cur := none, pen := none }
  | .insertChar =>
    match t.cur with
    | some (x, y) => if t.inGrid x y then t.insertAt x y else { t.allGarbage with chaos := true }
    | none => { t.allGarbage with chaos := true }

def applyAll (t : ATerm) (cs : List Cmd) : ATerm := cs.foldl apply t

/-- external corruption: nothing is known any more -/
def corrupt (t : ATerm) : ATerm := { t.allGarbage with cur := none, pen := none, visible := none }

/-- the terminal window changed size: contents arbitrary -/
def resized (t : ATerm) (w h : Int) : ATerm := { t.corrupt with w := w, h := h }

end ATerm
end Tcell
