/-
Layer A of C01/C13: an abstract "standards-conforming terminal" that interprets the abstract commands of
the draw path (`Tcell.Cmd`).  Conventions (DESIGN.md §6): a glyph of width 2 occupies its cell and a
continuation cell to the right; overwriting one half of a wide glyph blanks the other half (modelled as
*garbage*: nothing may be claimed about it); `clear` leaves cells nothing may be claimed about
(everything is repainted after a clear anyway); printing with an unknown cursor or pen, or outside the
grid, makes the whole grid garbage.  Byte-level behaviour is Layer B (`Tcell.Spec.Ecma48`).
-/
import Tcell.Model.Draw
namespace Tcell

inductive ACell where
  | garbage
  | shown (bytes : List Nat) (wide : Bool) (st : Style)
  | cont
deriving DecidableEq, Repr

structure ATerm where
  w : Int := 0
  h : Int := 0
  grid : Int → Int → ACell := fun _ _ => .garbage
  cur : Option (Int × Int) := none      -- known cursor position (x may equal w: just past the last column)
  pen : Option Style := none            -- known pen (as the tcell style it was set from)
  visible : Option Bool := none         -- cursor visibility
  shape : Option (Nat × Nat) := none    -- cursor style / colour last requested with the cursor shown
  writes : List (Int × Int) := []       -- cells that received payload, most recent first (C13)
  covered : List (Int × Int) := []      -- every cell a payload occupied: the addressed cell and, for a two-column glyph,
                                        -- the cell to its right; most recent first (C13, locked cells never painted)
  chaos : Bool := false                 -- a print happened with unknown cursor/pen or outside the grid

namespace ATerm

def inGrid (t : ATerm) (x y : Int) : Prop := 0 ≤ x ∧ x < t.w ∧ 0 ≤ y ∧ y < t.h
instance (t : ATerm) (x y : Int) : Decidable (t.inGrid x y) := by unfold inGrid; infer_instance

def set (t : ATerm) (x y : Int) (c : ACell) : ATerm :=
  { t with grid := fun i j => if i = x ∧ j = y then c else t.grid i j }

def allGarbage (t : ATerm) : ATerm := { t with grid := fun _ _ => .garbage }

/-- print a glyph of `width` columns at (x,y) with pen `st` -/
def putAt (t : ATerm) (x y : Int) (bytes : List Nat) (width : Int) (st : Style) : ATerm :=
  let t1 := if t.grid x y = .cont then t.set (x - 1) y .garbage else t
  let t2 := if width ≤ 1 ∧ t.grid (x + 1) y = .cont then t1.set (x + 1) y .garbage else t1
  let t3 := if width > 1 ∧ t.grid (x + 2) y = .cont then t2.set (x + 2) y .garbage else t2
  let t4 := t3.set x y (.shown bytes (decide (width > 1)) st)
  let t5 := if width > 1 then t4.set (x + 1) y .cont else t4
  { t5 with cur := some (x + width, y), writes := (x, y) :: t.writes,
            covered := if width > 1 then (x + 1, y) :: (x, y) :: t.covered else (x, y) :: t.covered }

def clampX (t : ATerm) (x : Int) : Int := if x < 0 then 0 else if x ≥ t.w then t.w - 1 else x
def clampY (t : ATerm) (y : Int) : Int := if y < 0 then 0 else if y ≥ t.h then t.h - 1 else y

def apply (t : ATerm) : Cmd → ATerm
  | .goto x y => { t with cur := some (t.clampX x, t.clampY y) }
  | .setPen s => { t with pen := some s }
  | .put bytes width =>
    match t.cur, t.pen with
    | some (x, y), some st =>
      if t.inGrid x y then t.putAt x y bytes width st
      else { t.allGarbage with cur := none, chaos := true }
    | _, _ => { t.allGarbage with cur := none, chaos := true }
  | .hideCursor => { t with visible := some false }
  | .showCursor st col => { t with visible := some true, shape := some (st, col) }
  | .clear _ => { t.allGarbage with cur := none, pen := none }
  | .insertChar =>
    match t.cur with
    | some (x, y) =>
      -- shift the rest of the line right by one; the vacated cell is blank (nothing is claimed about it)
      { t with grid := fun i j =>
          if j = y ∧ i = x then .garbage
          else if j = y ∧ x < i then
            (match t.grid (i - 1) j with
             | .shown b false st => .shown b false st
             | _ => .garbage)
          else t.grid i j }
    | none => { t.allGarbage with chaos := true }

def applyAll (t : ATerm) (cs : List Cmd) : ATerm := cs.foldl apply t

/-- external corruption: nothing is known any more -/
def corrupt (t : ATerm) : ATerm := { t.allGarbage with cur := none, pen := none, visible := none }

/-- the terminal window changed size: contents arbitrary -/
def resized (t : ATerm) (w h : Int) : ATerm := { t.corrupt with w := w, h := h }

end ATerm
end Tcell
