import Tcell.Spec.Ecma48
/-!
Hand-checked scenarios for the reference emulator `Tcell.Spec.Ecma48` (kernel-evaluated: every `example` is a
closed `by decide`).  Each expectation was written from ECMA-48 / xterm ctlseqs / DESIGN.md §6, not by running the
emulator first.
-/
namespace Tcell.Spec.Ecma48.Test
open Tcell.Spec.Ecma48

/-- ASCII string → bytes (only used on ASCII literals with `\x1b` etc.) -/
def B (s : String) : List Nat := s.toList.map Char.toNat

/-- width table of the tests: `世` (U+4E16) is wide, U+0301 is combining, everything else narrow -/
def rw (r : Int) : Int := if r = 0x4E16 then 2 else if r = 0x301 then 0 else 1

def shi : List Nat := [0xE4, 0xB8, 0x96]      -- 世
def acute : List Nat := [0xCC, 0x81]          -- U+0301

def cfg (w h : Nat) (am : Bool := true) : Config := { w := w, h := h, rw := rw, am := am, acsMap := decGraphics }
def T (w h : Nat) (am : Bool := true) : Term := Term.init (cfg w h am)

def runes (t : Term) (y : Nat) : List (List Int) := (List.range t.w).map fun x => (t.get x y).runes
def conts (t : Term) (y : Nat) : List Bool := (List.range t.w).map fun x => (t.get x y).cont
def dflt : Pen := {}

/-! ### deferred wrap -/

-- auto-margin on: the fourth glyph stays in the last column with a pending wrap …
example : let t := (T 4 2).feed (B "abcd"); (t.cx, t.cy, t.pendingWrap) = (3, 0, true) := by decide
example : runes ((T 4 2).feed (B "abcd")) 0 = [[97], [98], [99], [100]] := by decide
-- … the fifth wraps to the next line
example : let t := (T 4 2).feed (B "abcde"); (t.cx, t.cy, t.pendingWrap) = (1, 1, false) := by decide
example : runes ((T 4 2).feed (B "abcde")) 1 = [[101], [], [], []] := by decide
-- CR LF after the last column does not produce an extra empty line (the pending wrap is cancelled)
example : let t := (T 4 3).feed (B "abcd\r\ne"); (t.cx, t.cy) = (1, 1) := by decide
-- a cursor address cancels the pending wrap
example : let t := (T 4 2).feed (B "abcd\x1b[1;1Hx"); (runes t 0, t.cx, t.cy) = ([[120], [98], [99], [100]], 1, 0) := by decide
-- wrap on the bottom line scrolls the grid up
example : let t := (T 2 2).feed (B "abcde"); (runes t 0, runes t 1, t.cx, t.cy) = ([[99], [100]], [[101], []], 1, 1) := by decide
-- auto-margin off: the cursor stays in the last column and the last cell is overwritten
example : let t := (T 4 2 false).feed (B "abcde"); (runes t 0, runes t 1, t.cx, t.cy, t.pendingWrap)
    = ([[97], [98], [99], [101]], [[], [], [], []], 3, 0, false) := by decide
-- DECRST 7 / DECSET 7 switch between the two behaviours
example : let t := (T 3 2).feed (B "\x1b[?7labcd\x1b[?7hef"); (runes t 0, runes t 1, t.modes.autoMargin)
    = ([[97], [98], [101]], [[102], [], []], true) := by decide

/-! ### wide glyphs -/

-- a wide glyph occupies two cells, the second one is a continuation cell
example : let t := (T 4 2).feed (shi ++ B "x"); (runes t 0, conts t 0, t.cx) = ([[0x4E16], [], [120], []], [false, true, false, false], 3) := by decide
-- wide glyph ending exactly at the right margin: pending wrap
example : let t := (T 4 2).feed (B "ab" ++ shi); (t.cx, t.pendingWrap, conts t 0) = (3, true, [false, false, false, true]) := by decide
-- wide glyph at the last column, auto-margin on: wraps first, the last cell of the old line keeps its content
example : let t := (T 4 2).feed (B "abc" ++ shi); (runes t 0, runes t 1, conts t 1, t.cx, t.cy)
    = ([[97], [98], [99], []], [[0x4E16], [], [], []], [false, true, false, false], 2, 1) := by decide
-- … auto-margin off: the glyph is dropped, nothing changes
example : let t := (T 4 2 false).feed (B "abc" ++ shi); (runes t 0, runes t 1, t.cx, t.cy)
    = ([[97], [98], [99], []], [[], [], [], []], 3, 0) := by decide
-- overwriting the left half blanks the right half
example : let t := (T 4 1).feed (shi ++ B "\x1b[1;1Hx"); (runes t 0, conts t 0) = ([[120], [], [], []], [false, false, false, false]) := by decide
-- overwriting the right half blanks the left half
example : let t := (T 4 1).feed (shi ++ B "\x1b[1;2Hx"); (runes t 0, conts t 0) = ([[], [120], [], []], [false, false, false, false]) := by decide
-- a wide glyph written over the right half of another one
example : let t := (T 4 1).feed (shi ++ B "\x1b[1;2H" ++ shi); (runes t 0, conts t 0) = ([[], [0x4E16], [], []], [false, false, true, false]) := by decide
-- erasing from the right half to the end of the line blanks the left half too
example : let t := (T 4 1).feed (B "a" ++ shi ++ B "\x1b[1;3H\x1b[K"); (runes t 0, conts t 0) = ([[97], [], [], []], [false, false, false, false]) := by decide

/-! ### combining marks -/

example : let t := (T 4 1).feed (B "e" ++ acute ++ B "x"); (runes t 0, t.cx) = ([[101, 0x301], [120], [], []], 2) := by decide
-- after a wide glyph the mark joins the wide glyph (not its continuation cell)
example : let t := (T 4 1).feed (shi ++ acute); (runes t 0, t.cx) = ([[0x4E16, 0x301], [], [], []], 2) := by decide
-- in the last column with a pending wrap the mark joins the glyph under the cursor
example : let t := (T 2 1).feed (B "ab" ++ acute); (runes t 0, t.pendingWrap) = ([[97], [98, 0x301]], true) := by decide

-- auto-margin off, last column: the glyph just printed is under the cursor and takes the mark
example : let t := (T 2 1 false).feed (B "ab" ++ acute); (runes t 0, t.cx) = ([[97], [98, 0x301]], 1) := by decide
-- after a cursor movement the mark goes to the cell left of the cursor
example : let t := (T 4 1).feed (B "ab\x1b[1;4H" ++ acute); runes t 0 = [[97], [98], [32, 0x301], []] := by decide
-- at column 0 there is nothing to join
example : let t := (T 4 1).feed acute; (runes t 0, t.malformed) = ([[], [], [], []], []) := by decide

/-! ### SGR -/

example : ((T 4 1).feed (B "\x1b[1;2;3;4;5;7;9m")).pen
    = { bold := true, dim := true, italic := true, ul := 1, blink := true, reverse := true, strike := true } := by decide
example : ((T 4 1).feed (B "\x1b[1;3;4;31;42mX\x1b[mY")).pen = dflt := by decide
example : ((T 4 1).feed (B "\x1b[1;3;4;31;42mX\x1b[0mY")).get 1 0 = { runes := [89] } := by decide
example : ((T 4 1).feed (B "\x1b[1;3;4;31;42mX\x1b[0mY")).get 0 0
    = { runes := [88], pen := { bold := true, italic := true, ul := 1, fg := .idx 1, bg := .idx 2 } } := by decide
example : ((T 4 1).feed (B "\x1b[1;2;3m\x1b[22;23m")).pen = dflt := by decide
example : ((T 4 1).feed (B "\x1b[37;40m\x1b[39;49m")).pen = dflt := by decide
example : ((T 4 1).feed (B "\x1b[95;103m")).pen = { fg := .idx 13, bg := .idx 11 } := by decide
-- 256 colours, `;` and `:` syntax
example : ((T 4 1).feed (B "\x1b[38;5;200;48;5;17m")).pen = { fg := .idx 200, bg := .idx 17 } := by decide
example : ((T 4 1).feed (B "\x1b[38:5:200m\x1b[48:5:17m")).pen = { fg := .idx 200, bg := .idx 17 } := by decide
-- direct colour, `;` syntax, `:` with and without the colour-space field
example : ((T 4 1).feed (B "\x1b[38;2;1;2;3;48;2;254;255;0m")).pen = { fg := .rgb 1 2 3, bg := .rgb 254 255 0 } := by decide
example : ((T 4 1).feed (B "\x1b[38:2::1:2:3m")).pen = { fg := .rgb 1 2 3 } := by decide
example : ((T 4 1).feed (B "\x1b[48:2:1:2:3m")).pen = { bg := .rgb 1 2 3 } := by decide
example : ((T 4 1).feed (B "\x1b[1;38;5;9;4m")).pen = { bold := true, fg := .idx 9, ul := 1 } := by decide
-- underline styles and colours
example : ((T 4 1).feed (B "\x1b[4:3m\x1b[58:2::10:20:30m")).pen = { ul := 3, ulColor := .rgb 10 20 30 } := by decide
example : ((T 4 1).feed (B "\x1b[4:3m\x1b[58:2::10:20:30m\x1b[59m")).pen = { ul := 3 } := by decide
example : ((T 4 1).feed (B "\x1b[4:5m\x1b[58:5:99m\x1b[24m")).pen = { ulColor := .idx 99 } := by decide
example : ((T 4 1).feed (B "\x1b[4:2m\x1b[4:0m")).pen = dflt := by decide
-- out-of-scope / out-of-range SGR is a complaint, the rest of the sequence still applies
example : let t := (T 4 1).feed (B "\x1b[1;8;3m"); (t.pen, t.malformed) = ({ bold := true, italic := true }, ["sgr unknown parameter"]) := by decide
example : ((T 4 1).feed (B "\x1b[38;5;256m")).malformed = ["sgr colour index out of range"] := by decide
example : ((T 4 1).feed (B "\x1b[38;5m")).malformed = ["sgr malformed extended colour"] := by decide

/-! ### hyperlinks (OSC 8), BEL and ST terminators -/

example : let t := (T 4 1).feed (B "\x1b]8;;http://x\x1b\\a\x1b]8;;\x1b\\b");
    ((t.get 0 0).pen.link, (t.get 1 0).pen.link, t.pen.link, t.malformed) = (some ("", "http://x"), none, none, []) := by decide
example : let t := (T 4 1).feed (B "\x1b]8;id=7;http://x\x07a\x1b]8;;\x07b");
    ((t.get 0 0).pen.link, (t.get 1 0).pen.link, t.endsInGround) = (some ("id=7", "http://x"), none, true) := by decide
-- SGR 0 does not close a hyperlink
example : ((T 4 1).feed (B "\x1b]8;;u\x07\x1b[1m\x1b[m")).pen = { link := some ("", "u") } := by decide

/-! ### titles, cursor colour / shape, clipboard -/

example : let t := (T 4 1).feed (B "\x1b[>2t\x1b]2;hello\x1b\\"); (t.modes.title, t.modes.titleModes2, t.malformed) = ("hello", true, []) := by decide
example : let t := (T 4 1).feed (B "\x1b]2;a\x07\x1b[22;2t\x1b]2;b\x07"); (t.modes.title, t.modes.titleStack) = ("b", ["a"]) := by decide
example : let t := (T 4 1).feed (B "\x1b]2;a\x07\x1b[22;0;0t\x1b]0;b\x07\x1b[23;0;0t"); (t.modes.title, t.modes.titleStack) = ("a", []) := by decide
example : ((T 4 1).feed (B "\x1b]12;#ff8000\x07")).modes.cursorColor = some (255, 128, 0) := by decide
example : let t := (T 4 1).feed (B "\x1b]12;red\x07"); (t.modes.cursorColor, t.modes.cursorColorName) = (none, "red") := by decide
example : let t := (T 4 1).feed (B "\x1b]12;#ff8000\x07\x1b]112\x07"); (t.modes.cursorColor, t.malformed) = (none, []) := by decide
example : let t := (T 4 1).feed (B "\x1b[5 q"); (t.modes.cursorShape, t.malformed) = (5, []) := by decide
example : ((T 4 1).feed (B "\x1b[5 q\x1b[0 q")).modes.cursorShape = 0 := by decide
example : let t := (T 4 1).feed (B "\x1b]52;c;aGVsbG8=\x1b\\x"); (runes t 0, t.malformed) = ([[120], [], [], []], []) := by decide
example : ((T 4 1).feed (B "\x1b[8;24;80t")).modes.resizeReq = some (24, 80) := by decide

/-! ### modes -/

example : let t := (T 4 1).feed (B "\x1b[?1000h\x1b[?1002h\x1b[?1003h\x1b[?1006h\x1b[?2004h\x1b[?1004h\x1b[?25l\x1b[?1h\x1b=");
    ([t.modes.mouse1000, t.modes.mouse1002, t.modes.mouse1003, t.modes.mouse1006, t.modes.paste2004, t.modes.focus1004,
      t.modes.cursorVisible, t.modes.cursorKeysApp, t.modes.keypadApp], t.malformed)
    = ([true, true, true, true, true, true, false, true, true], []) := by decide
example : let t := (T 4 1).feed (B "\x1b[?1000h\x1b[?1006h\x1b[?1000l\x1b[?1002l\x1b[?1003l\x1b[?1006l");
    (t.modes.mouse1000, t.modes.mouse1006) = (false, false) := by decide
example : let t := (T 4 1).feed (B "\x1b[?25l\x1b[?1c\x1b[?25h\x1b[?0c"); (t.modes.cursorVisible, t.modes.linuxCursor) = (true, [0]) := by decide
example : ((T 4 1).feed (B "\x1b[?12l\x1b[?25h\x1b[34h\x1b[\"q\x1b[r\x1b[?4h\x1b[?4l")).malformed = [] := by decide
example : ((T 4 1).feed (B "\x1b[?1005h")).malformed = ["mode unknown private mode"] := by decide

/-! ### alternate screen -/

-- 1049: the main grid and cursor are preserved, the alternate screen starts cleared
example : let t := (T 3 2).feed (B "ab\x1b[?1049h"); (runes t 0, t.modes.altScreen, t.cx) = ([[], [], []], true, 2) := by decide
example : let t := (T 3 2).feed (B "ab\x1b[?1049h\x1b[2;1HXYZ\x1b[?1049l");
    (runes t 0, runes t 1, t.modes.altScreen, t.cx, t.cy, t.pendingWrap) = ([[97], [98], []], [[], [], []], false, 2, 0, false) := by decide
-- entering again shows a cleared alternate screen
example : let t := (T 3 2).feed (B "ab\x1b[?1049hXY\x1b[?1049l\x1b[?1049h"); runes t 0 = [[], [], []] := by decide
-- the older 47 form with explicit save / restore (`ESC 7 CSI ?47h` … `CSI 2J CSI ?47l ESC 8`)
example : let t := (T 3 2).feed (B "ab\x1b7\x1b[?47h\x1b[H\x1b[2JXYZ\x1b[2J\x1b[?47l\x1b8");
    (runes t 0, t.modes.altScreen, t.cx, t.cy) = ([[97], [98], []], false, 2, 0) := by decide

/-! ### erase, insert, delete -/

example : let t := (T 3 2).feed (B "abcdef\x1b[1;2H\x1b[J"); (runes t 0, runes t 1) = ([[97], [], []], [[], [], []]) := by decide
example : let t := (T 3 2).feed (B "abcdef\x1b[2;2H\x1b[1J"); (runes t 0, runes t 1) = ([[], [], []], [[], [], [102]]) := by decide
example : let t := (T 3 2).feed (B "abcdef\x1b[H\x1b[2J"); (runes t 0, runes t 1, t.cx, t.cy) = ([[], [], []], [[], [], []], 0, 0) := by decide
-- erased cells carry the background colour only
example : ((T 3 1).feed (B "\x1b[1;31;44mab\x1b[H\x1b[2J")).get 1 0 = { pen := { bg := .idx 4 } } := by decide
example : let t := (T 3 2).feed (B "abcdef\x1b[1;2H\x1b[K"); (runes t 0, runes t 1) = ([[97], [], []], [[100], [101], [102]]) := by decide
example : let t := (T 3 2).feed (B "abcdef\x1b[1;2H\x1b[1K"); runes t 0 = [[], [], [99]] := by decide
-- ICH shifts the rest of the line right; the cursor does not move
example : let t := (T 4 2).feed (B "abcd\x1b[1;2H\x1b[@"); (runes t 0, t.cx, t.cy) = ([[97], [], [98], [99]], 1, 0) := by decide
example : let t := (T 4 2).feed (B "abcd\x1b[1;2H\x1b[2@X"); runes t 0 = [[97], [88], [], [98]] := by decide
-- a wide glyph pushed half-way over the margin is blanked
example : let t := (T 4 1).feed (B "ab" ++ shi ++ B "\x1b[1;1H\x1b[@"); (runes t 0, conts t 0) = ([[], [97], [98], []], [false, false, false, false]) := by decide
-- DCH
example : let t := (T 4 1).feed (B "abcd\x1b[1;2H\x1b[P"); runes t 0 = [[97], [99], [100], []] := by decide
-- sun console: FF clears and homes, elsewhere it is a complaint
example : let t := (Term.init { cfg 3 1 with ffClears := true }).feed (B "ab\x0c"); (runes t 0, t.cx, t.malformed) = ([[], [], []], 0, []) := by decide
example : ((T 3 1).feed (B "ab\x0c")).malformed = ["c0 0c"] := by decide

/-! ### cursor movement -/

example : let t := (T 5 4).feed (B "\x1b[3;4H"); (t.cx, t.cy) = (3, 2) := by decide
example : let t := (T 5 4).feed (B "\x1b[99;99H"); (t.cx, t.cy) = (4, 3) := by decide
example : let t := (T 5 4).feed (B "\x1b[0;0H"); (t.cx, t.cy) = (0, 0) := by decide
example : let t := (T 5 4).feed (B "\x1b[3;4H\x1b[H"); (t.cx, t.cy) = (0, 0) := by decide
example : let t := (T 5 4).feed (B "\x1b[3;4H\x1b[A\x1b[2D"); (t.cx, t.cy) = (1, 1) := by decide
example : let t := (T 5 4).feed (B "\x1b[3;4H\x1b[9B\x1b[9C"); (t.cx, t.cy) = (4, 3) := by decide
example : let t := (T 5 4).feed (B "\x1b[3;4H\x08\x08\x08\x08\x08"); (t.cx, t.cy) = (0, 2) := by decide
example : let t := (T 5 4).feed (B "\x1b[3;4H\x1b7\x1b[1;31m\x1b[H\x1b8"); (t.cx, t.cy, t.pen) = (3, 2, dflt) := by decide

/-! ### alternate character set -/

-- `ESC ( 0` … `ESC ( B`
example : let t := (T 4 1).feed (B "\x1b(0qx\x1b(Bq"); (runes t 0, t.malformed) = ([[0x2500], [0x2502], [113], []], []) := by decide
-- `ESC ) 0` then SO … SI
example : let t := (T 4 1).feed (B "\x1b)0q\x0eq\x0fq"); (runes t 0, t.malformed) = ([[113], [0x2500], [113], []], []) := by decide
-- only 0x5f–0x7e are translated
example : runes ((T 4 1).feed (B "\x1b(0A~")) 0 = [[65], [0x00B7], [], []] := by decide
-- SGR 11 / 10 (alternate font of the ansi/linux family)
example : let t := (T 4 1).feed (B "\x1b[11mq\x1b[10mq"); (runes t 0, t.modes.altFont) = ([[0x2500], [113], [], []], 0) := by decide

/-! ### 8-bit locale -/

example : let t := (Term.init { cfg 4 1 with utf8 := false }).feed [0xE4, 0xB8, 0x96]; (runes t 0, t.malformed) = ([[0xE4], [0xB8], [0x96], []], []) := by decide
example : let t := (Term.init { cfg 4 1 with utf8 := false, c1Controls := true }).feed ([0x9b] ++ B "1mx");
    ((t.get 0 0).pen.bold, t.malformed) = (true, []) := by decide

/-! ### strict tokenizer -/

-- an unexpanded terminfo parameter: `%` is not a parameter byte
example : let t := (T 4 1).feed (B "\x1b[1;%dH"); (t.malformed, t.cx, runes t 0)
    = (["csi-byte unsupported intermediate bytes, final 64"], 1, [[72], [], [], []]) := by decide
example : ((T 4 1).feed (B "\x1b[-1m")).malformed = ["csi-byte invalid parameter or intermediate bytes"] := by decide
example : let t := (T 4 1).feed (B "\x1b[1;-5H"); (t.malformed.length, t.cx, t.cy) = (1, 0, 0) := by decide
-- unterminated OSC
example : let t := (T 4 1).feed (B "\x1b]2;title"); (t.endsInGround, t.malformed, t.finish.malformed, t.finish.endsInGround)
    = (false, [], ["unterminated osc"], true) := by decide
example : let t := (T 4 1).feed (B "\x1b]2;title\x1b[mx"); (t.malformed, t.modes.title, runes t 0)
    = (["osc-cut OSC cut by ESC"], "", [[120], [], [], []]) := by decide
-- a control sequence cut by another ESC
example : let t := (T 4 1).feed (B "\x1b[1\x1b[3mx"); (t.malformed, (t.get 0 0).pen) = (["csi-cut control sequence cut by ESC"], { italic := true }) := by decide
example : ((T 4 1).feed (B "\x1b[1")).endsInGround = false := by decide
-- unknown final byte, C0 inside a sequence, DEL, stray C0
example : ((T 4 1).feed (B "\x1b[5z")).malformed = ["csi-final 7a"] := by decide
example : let t := (T 4 1).feed (B "\x1b[1\x0a;2H"); (t.malformed, t.cx, t.cy) = (["csi-ctl control 0a inside control sequence"], 1, 0) := by decide
example : ((T 4 1).feed (B "a\x7fb")).malformed = ["del"] := by decide
example : ((T 4 1).feed (B "a\x00b")).malformed = ["c0 00"] := by decide
example : ((T 4 1).feed (B "\x1b]2;a\x0ab\x07")).malformed = ["osc-ctl control 0a inside OSC"] := by decide
example : ((T 4 1).feed (B "\x1bQ")).malformed = ["esc unknown ESC 51"] := by decide
example : ((T 4 1).feed (B "\x1b(A")).malformed = ["charset unsupported G0 set 41"] := by decide
example : ((T 4 1).feed (B "\x1b[2;3r")).malformed = ["csi-param scrolling region not supported"] := by decide
example : ((T 4 1).feed (B "\x1b[c")).malformed = ["csi-final 63"] := by decide
-- invalid UTF-8: stray continuation byte, truncated sequence, overlong form, C1 code point, 0xff
example : let t := (T 4 1).feed [0x80]; (t.malformed, runes t 0) = (["utf8 invalid byte 80"], [[0xFFFD], [], [], []]) := by decide
example : let t := (T 4 1).feed [0xE4, 0xB8, 0x41]; (t.malformed, runes t 0) = (["utf8 truncated sequence"], [[0xFFFD], [65], [], []]) := by decide
example : ((T 4 1).feed [0xE0, 0x80, 0x80]).malformed = ["utf8 overlong, surrogate or out-of-range code point"] := by decide
example : ((T 4 1).feed [0xED, 0xA0, 0x80]).malformed = ["utf8 overlong, surrogate or out-of-range code point"] := by decide
example : let t := (T 4 1).feed [0xC2, 0x9B]; (t.malformed, runes t 0) = (["c1 u+009b"], [[], [], [], []]) := by decide
example : ((T 4 1).feed [0xFF]).malformed = ["utf8 invalid byte ff"] := by decide
example : ((T 4 1).feed [0xC3]).endsInGround = false := by decide
-- well-formed multi-byte text is silent
example : let t := (T 4 1).feed [0xC3, 0xA9, 0xF0, 0x9F, 0x98, 0x80]; (t.malformed, runes t 0) = ([], [[0xE9], [0x1F600], [], []]) := by decide

/-! ### write blocks, corruption, resize -/

example : let t := (((T 3 1).beginBlock.feed (B "ab")).beginBlock.feed (B "\x1b[1;2Hx"));
    ((List.range 3).map fun x => (t.get x 0).stamp) = [1, 2, 0] := by decide
-- after corruption everything is garbage; CSI H CSI 2J SGR 0 and an OSC 8 make the display known again
example : let t := ((T 2 1).feed (B "ab")).corrupt; ((t.get 0 0).garbage, (t.get 1 0).garbage, t.penKnown, t.cursorKnown) = (true, true, false, false) := by decide
example : let t := (((T 2 1).feed (B "ab")).corrupt).feed (B "\x1b[m\x1b]8;;\x1b\\\x1b[H\x1b[2Jx");
    ((t.get 0 0).garbage, (t.get 1 0).garbage, (t.get 0 0).runes) = (false, false, [120]) := by decide
-- a glyph written while the pen is unknown is garbage
example : let t := (((T 2 1).feed (B "ab")).corrupt).feed (B "\x1b[Hx"); ((t.get 0 0).garbage, t.cx) = (true, 1) := by decide
-- resize: new size, garbage, cursor clamped
example : let t := ((T 4 3).feed (B "\x1b[3;4H")).resize 2 2; (t.w, t.h, t.cx, t.cy, (t.get 1 1).garbage, (t.get 2 1).garbage) = (2, 2, 1, 1, true, false) := by decide

end Tcell.Spec.Ecma48.Test
