/-
Independent specification of the xterm mouse protocol as the property C12 reads it, written from
"XTerm Control Sequences – Mouse Tracking" (ctlseqs), not from tscreen.go.

* SGR (1006):  `CSI < b ; x ; y M` (press / motion / wheel) and `CSI < b ; x ; y m` (release); b, x, y decimal.
* X11 (1000):  `CSI M Cb Cx Cy`, each value a single byte with 32 added; a release has low bits 3.
* button code: low two bits 0 = left (MB1), 1 = middle (MB2), 2 = right (MB3), 3 = no button / release;
  +4 Shift, +8 Meta (reported as Alt), +16 Control, +32 motion, +64 wheel (64 = up, 65 = down), +128 buttons 8–11.
* x, y are 1-based cell coordinates.
* tcell's numbering of the result: left = Button1 (primary), right = Button2 (secondary), middle = Button3;
  position 0-based and clipped into the w×h screen.
* button state: a press starts "held"; a release ends it; a motion report shows its button only while held
  (tcell debounces terminals that send button-1 motion with no button down); wheel reports do not change it.

Codes the statement does not fix (wheel left/right 66/67, wheel+motion, buttons ≥ 8, an SGR "press" of button 3)
give `none` for the buttons and leave the held state unknown.  Core Lean only.
-/
namespace Tcell.Spec.XtermMouse

def button1 : Nat := 1
def button2 : Nat := 2
def button3 : Nat := 4
def wheelUp : Nat := 256
def wheelDown : Nat := 512
def modShift : Nat := 1
def modCtrl : Nat := 2
def modAlt : Nat := 4

/-- a decoded report, protocol independent: `code` is the button code (X11: Cb − 32), `x y` 1-based -/
structure Report where
  code : Int
  x : Int
  y : Int
  release : Bool   -- SGR final `m`, or X11 code with low bits 3 and neither motion nor wheel
deriving DecidableEq, Repr

/-- the low eight bits of the code (two's complement) -/
def bits (code : Int) : Nat := (code % 256).toNat

def bit (c k : Nat) : Bool := c / 2 ^ k % 2 == 1

def mods (c : Nat) : Nat :=
  (if bit c 2 then modShift else 0) + (if bit c 3 then modAlt else 0) + (if bit c 4 then modCtrl else 0)

/-- tcell button of the low two bits -/
def buttonOf (low : Nat) : Nat :=
  if low = 0 then button1 else if low = 1 then button3 else if low = 2 then button2 else 0

/-- 0-based and clipped into the screen -/
def clip (v lim : Int) : Int := max 0 (min (lim - 1) (v - 1))

inductive Held where
  | no | yes | unknown
deriving DecidableEq, Repr

/-- buttons of the event for one report (`none`: not fixed by the statement) and the held state after it -/
def buttons (held : Held) (r : Report) : Option Nat × Held :=
  let c := bits r.code
  let low := c % 4
  if bit c 7 then (none, .unknown)
  else if r.release then (some 0, .no)
  else if bit c 5 then
    (if bit c 6 then (none, held)
     else if low = 3 then (some 0, held)
     else match held with
       | .yes => (some (buttonOf low), held)
       | .no => (some 0, held)
       | .unknown => (none, held))
  else if bit c 6 then
    (if low = 0 then (some wheelUp, held) else if low = 1 then (some wheelDown, held) else (none, .unknown))
  else if low = 3 then (none, .unknown)
  else (some (buttonOf low), .yes)

/-- codes xterm defines as wheel left / wheel right (66, 67 plus modifier bits; not motion).  The statement does not
fix what the event says for them, but its five masks are "as xterm defines them" (codes 0, 1, 2, 64, 65): such a report
must carry none of them (`forbidden`); the Go oracle (`specMouse` / class `mouse-hwheel-misreported`) demands the same. -/
def hwheel (c : Nat) : Bool := bit c 6 && !bit c 5 && bit c 1

def forbidden (c : Nat) : List Nat := if hwheel c then [button1, button2, button3, wheelUp, wheelDown] else []

/-- the event the statement demands: position, buttons (if fixed), modifiers -/
structure Expect where
  x : Int
  y : Int
  buttons : Option Nat
  mods : Nat
deriving DecidableEq, Repr

def expect (w h : Int) (held : Held) (r : Report) : Expect × Held :=
  let b := buttons held r
  (⟨clip r.x w, clip r.y h, b.1, mods (bits r.code)⟩, b.2)

/-- expected events of a report sequence -/
def run (w h : Int) : Held → List Report → List Expect
  | _, [] => []
  | held, r :: rs => let e := expect w h held r; e.1 :: run w h e.2 rs

/-- an X11 report `Cb Cx Cy` as a `Report` (Cb ≥ 32) -/
def ofX11 (cb cx cy : Nat) : Report :=
  let code : Int := (cb : Int) - 32
  let c := bits code
  ⟨code, (cx : Int) - 32, (cy : Int) - 32, c % 4 == 3 && !bit c 5 && !bit c 6⟩

example : (run 80 24 .no [⟨0, 5, 5, false⟩, ⟨32, 6, 5, false⟩, ⟨0, 6, 5, true⟩, ⟨35, 7, 5, false⟩]).map (·.buttons)
    = [some 1, some 1, some 0, some 0] := by decide
example : (expect 80 24 .no ⟨64 + 16, 200, -3, false⟩).1 = ⟨79, 0, some 256, 2⟩ := by decide

end Tcell.Spec.XtermMouse
