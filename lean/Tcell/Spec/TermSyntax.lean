import Tcell.Gen.TerminfoStruct
/-!
# Syntactic well-formedness of parameterised terminfo strings (written from terminfo(5), not from `TParm`)

terminfo(5), "Parameterized Strings": a string is literal bytes interleaved with `%`-escapes

  `%%`  `%c`  `%s`  `%[[:]flags][width[.precision]][doxXs]`  `%p[1-9]`  `%P[a-zA-Z]`  `%g[a-zA-Z]`  `%'c'`  `%{nn}`
  `%l`  `%+ %- %* %/ %m`  `%& %| %^`  `%= %> %<`  `%A %O`  `%! %~`  `%i`  `%? expr %t then [%e else-or-elsif] %;`

`wellFormed arity s` holds when
 1. every `%` starts a complete escape of that grammar (`tokenize` succeeds),
 2. `%? … %t … %e … %;` are balanced (`%t` only after `%?`/`%e`, `%e` only after `%t`, `%;` closes a conditional that has
    had its `%t`, nothing left open at the end),
 3. every `%pN` has `1 ≤ N ≤ arity` (the number of parameters the library passes for that capability),
 4. no escape pops more operands than any execution path can have pushed (a conservative stack-depth walk; e.g.
    `%p1%m` – a binary operator with one operand – is rejected).

This is the light-weight stand-in for the semantic `WellFormed` of C07 (evaluation by the terminfo(5) interpreter); see
`Props/C14.lean`, section "hook".  Padding `$<n>` is literal text as far as this grammar is concerned.
-/
namespace Tcell.TermSyntax
open Tcell

inductive Tok
  | lit (b : Nat)
  | pct                 -- %%
  | outC | outS         -- %c %s
  | outFmt (conv : Nat) -- %[[:]flags][width[.precision]][doxXs]   (includes plain %d)
  | param (n : Nat)     -- %pN, N as a digit value (may be out of 1..9: rejected later)
  | setVar | getVar     -- %P? %g?
  | charConst | intConst
  | strlen
  | binop               -- + - * / m & | ^ = > < A O
  | unop                -- ! ~
  | incr                -- %i
  | cIf | cThen | cElse | cEnd
deriving DecidableEq, Repr

def isDigit (b : Nat) : Bool := 48 ≤ b && b ≤ 57
def isLetter (b : Nat) : Bool := (65 ≤ b && b ≤ 90) || (97 ≤ b && b ≤ 122)
/-- `d o x X s` -/
def isConv (b : Nat) : Bool := b == 100 || b == 111 || b == 120 || b == 88 || b == 115
/-- `- + # space` -/
def isFlag (b : Nat) : Bool := b == 45 || b == 43 || b == 35 || b == 32

def dropDigits : Bytes → Bytes
  | b :: r => if isDigit b then dropDigits r else b :: r
  | [] => []

def dropFlags : Bytes → Bytes
  | b :: r => if isFlag b then dropFlags r else b :: r
  | [] => []

/-- rest of a format escape after the optional `:`/flags: `[width[.precision]]` then the conversion character -/
def fmtTail (s : Bytes) : Option (Nat × Bytes) :=
  let s1 := dropDigits s
  let s2 := match s1 with
    | 46 :: r => dropDigits r   -- '.'
    | _ => s1
  match s2 with
  | c :: r => if isConv c then some (c, r) else none
  | [] => none

/-- one escape: the bytes after a `%`; returns the token and the remaining input -/
def escape : Bytes → Option (Tok × Bytes)
  | 37 :: r => some (.pct, r)                                   -- %%
  | 99 :: r => some (.outC, r)                                  -- %c
  | 105 :: r => some (.incr, r)                                 -- %i
  | 108 :: r => some (.strlen, r)                               -- %l
  | 112 :: d :: r => if isDigit d then some (.param (d - 48), r) else none   -- %pN
  | 80 :: v :: r => if isLetter v then some (.setVar, r) else none           -- %P?
  | 103 :: v :: r => if isLetter v then some (.getVar, r) else none          -- %g?
  | 39 :: _ :: 39 :: r => some (.charConst, r)                  -- %'c'
  | 123 :: r =>                                                 -- %{nn}
    match dropDigits r with
    | 125 :: r' => if r'.length + 1 < r.length then some (.intConst, r') else none   -- at least one digit
    | _ => none
  | 63 :: r => some (.cIf, r)
  | 116 :: r => some (.cThen, r)
  | 101 :: r => some (.cElse, r)
  | 59 :: r => some (.cEnd, r)
  | 33 :: r => some (.unop, r)
  | 126 :: r => some (.unop, r)
  | 58 :: r =>                                                  -- %:flags…
    match fmtTail (dropFlags r) with
    | some (c, r') => some (.outFmt c, r')
    | none => none
  | b :: r =>
    -- binary operators  + - * / m & | ^ = > < A O
    if b == 43 || b == 45 || b == 42 || b == 47 || b == 109 || b == 38 || b == 124 || b == 94 || b == 61 || b == 62
        || b == 60 || b == 65 || b == 79 then some (.binop, r)
    else if b == 35 || b == 32 then                              -- flags `#`/space without ':'
      match fmtTail (dropFlags (b :: r)) with
      | some (c, r') => some (.outFmt c, r')
      | none => none
    else
      match fmtTail (b :: r) with                                -- %d %s %5d %02x …
      | some (c, r') => some (if c == 115 then .outS else .outFmt c, r')
      | none => none
  | [] => none

/-- tokenizer with fuel (the input length suffices: every step consumes at least one byte) -/
def tokenizeF : Nat → Bytes → Option (List Tok)
  | _, [] => some []
  | 0, _ :: _ => none
  | f + 1, 37 :: r =>
    match escape r with
    | some (t, r') => (tokenizeF f r').map (t :: ·)
    | none => none
  | f + 1, b :: r => (tokenizeF f r).map (.lit b :: ·)

def tokenize (s : Bytes) : Option (List Tok) := tokenizeF s.length s

/-- state of an open conditional -/
inductive CState | afterIf | afterThen | afterElse
deriving DecidableEq, Repr

/-- balance of `%? %t %e %;` -/
def balanced : List CState → List Tok → Bool
  | st, [] => st.isEmpty
  | st, .cIf :: ts => balanced (.afterIf :: st) ts
  | .afterIf :: st, .cThen :: ts => balanced (.afterThen :: st) ts
  | .afterElse :: st, .cThen :: ts => balanced (.afterThen :: st) ts
  | _, .cThen :: _ => false
  | .afterThen :: st, .cElse :: ts => balanced (.afterElse :: st) ts
  | _, .cElse :: _ => false
  | .afterThen :: st, .cEnd :: ts => balanced st ts
  | .afterElse :: st, .cEnd :: ts => balanced st ts
  | _, .cEnd :: _ => false
  | st, _ :: ts => balanced st ts

def paramsWithin (arity : Nat) (ts : List Tok) : Bool :=
  ts.all fun t => match t with
    | .param n => 1 ≤ n && n ≤ arity
    | _ => true

/-- (pops, pushes) of a token that is not part of the conditional skeleton -/
def stackEffect : Tok → Nat × Nat
  | .lit _ | .pct | .incr => (0, 0)
  | .outC | .outS | .outFmt _ | .setVar => (1, 0)
  | .param _ | .getVar | .charConst | .intConst => (0, 1)
  | .strlen | .unop => (1, 1)
  | .binop => (2, 1)
  | .cIf | .cElse | .cEnd => (0, 0)
  | .cThen => (1, 0)

/-- frame of an open conditional for the depth walk: depth right after the last `%t` popped its operand, and the
    minimum depth at which a finished branch ended -/
structure Frame where
  afterThen : Nat
  branchMin : Option Nat

def omin (a : Option Nat) (b : Nat) : Nat := match a with | some x => min x b | none => b

/-- Conservative stack-depth walk: `d` is a lower bound of the operand-stack depth on every execution path reaching
    this point.  `%e` restarts from the depth after the matching `%t`; `%;` continues with the minimum over the
    branches.  Fails when an escape needs more operands than that lower bound. -/
def stackSafe : Nat → List Frame → List Tok → Bool
  | _, _, [] => true
  | d, fs, .cIf :: ts => stackSafe d (⟨d, none⟩ :: fs) ts
  | d, f :: fs, .cThen :: ts => if 1 ≤ d then stackSafe (d - 1) (⟨d - 1, f.branchMin⟩ :: fs) ts else false
  | d, f :: fs, .cElse :: ts => stackSafe f.afterThen (⟨f.afterThen, some (omin f.branchMin d)⟩ :: fs) ts
  | d, f :: fs, .cEnd :: ts => stackSafe (min (omin f.branchMin d) f.afterThen) fs ts
  | d, fs, t :: ts =>
    let e := stackEffect t
    if e.1 ≤ d then stackSafe (d - e.1 + e.2) fs ts else false

/-- the check applied to a capability string the library expands with `arity` parameters -/
def wellFormed (arity : Nat) (s : Bytes) : Bool :=
  match tokenize s with
  | none => false
  | some ts => balanced [] ts && paramsWithin arity ts && stackSafe 0 [] ts

/-- the capabilities tcell expands with `TParm` and the number of parameters it passes
    (tscreen.go:753-800 colours, terminfo.go:649 `TGoto`, tscreen.go:857-869 underline colour, 903 url, 989 cursor colour,
    1969 window size, 2041/2128 title; `CursorColor` is the terminfo `Cs` capability, one parameter). -/
def paramFields : List (String × Nat) :=
  [("SetCursor", 2), ("SetFg", 1), ("SetBg", 1), ("SetFgBg", 2), ("SetFgRGB", 3), ("SetBgRGB", 3), ("SetFgBgRGB", 6),
   ("UnderlineColor", 1), ("UnderlineColorRGB", 3), ("EnterUrl", 2), ("CursorColor", 1), ("CursorColorRGB", 3),
   ("SetWindowSize", 2), ("SetWindowTitle", 1)]

/-- the parameterised capability strings of an entry with their arities (direct projections: cheap for the kernel) -/
def paramStrings (t : Terminfo) : List (Nat × Bytes) :=
  [(2, t.setCursor), (1, t.setFg), (1, t.setBg), (2, t.setFgBg), (3, t.setFgRGB), (3, t.setBgRGB), (6, t.setFgBgRGB),
   (1, t.underlineColor), (3, t.underlineColorRGB), (2, t.enterUrl), (1, t.cursorColor), (3, t.cursorColorRGB),
   (2, t.setWindowSize), (1, t.setWindowTitle)]

def entryWellFormed (t : Terminfo) : Bool := (paramStrings t).all fun p => wellFormed p.1 p.2

end Tcell.TermSyntax
