/-
Grammar of an SGR (1006) mouse report as a byte string, written from "XTerm Control Sequences – Mouse Tracking"
(`CSI < Pb ; Px ; Py M` / `… m`), not from tscreen.go:

    report  = intro '<' number ';' number ';' number final
    intro   = ESC '['  |  0x9B                      (7-bit and 8-bit CSI)
    number  = [ '-' ] digit*                        (optionally negative; the digit string may be empty, see below)
    final   = 'M' | 'm'

xterm always sends at least one digit per field.  tcell's parser reads an empty field as 0 and accepts a lone `-`
(tscreen.go:1430-1460, unchanged by fixes/C02-sgr-strict.patch), so the grammar used for "every consumed byte is a
report byte in report position" admits empty digit strings (a grammar with `digit+` would be refuted by
`ESC [ < ; ; M`, which both variants of the parser decode as button 0 at column/row 0).
The predicate is a left-to-right recogniser of the regular expression above and shares nothing with the model of the
parser (no state numbers, no accumulators).  Core Lean only.
-/
namespace Tcell.Spec.SgrGrammar

abbrev Bytes := List Nat

def isDigitB (c : Nat) : Bool := 48 ≤ c && c ≤ 57

/-- remove an optional leading `-` -/
def dropSign : Bytes → Bytes
  | 45 :: r => r
  | r => r

/-- `digit* final` and nothing after it -/
def tailY (r : Bytes) : Bool :=
  match r.dropWhile isDigitB with
  | [f] => f == 77 || f == 109
  | _ => false

/-- `digit* ';' number final` -/
def tailX (r : Bytes) : Bool :=
  match r.dropWhile isDigitB with
  | 59 :: r' => tailY (dropSign r')
  | _ => false

/-- `digit* ';' number ';' number final` -/
def tailB (r : Bytes) : Bool :=
  match r.dropWhile isDigitB with
  | 59 :: r' => tailX (dropSign r')
  | _ => false

/-- what follows the CSI introducer: `'<' number ';' number ';' number final` -/
def afterCsi : Bytes → Bool
  | 60 :: r => tailB (dropSign r)
  | _ => false

/-- what follows an ESC: `'[' '<' …` -/
def afterEsc : Bytes → Bool
  | 91 :: r => afterCsi r
  | _ => false

/-- the whole byte string is exactly one SGR mouse report -/
def isSgrReport : Bytes → Bool
  | 27 :: r => afterEsc r
  | 0x9b :: r => afterCsi r
  | _ => false

example : isSgrReport [27, 91, 60, 48, 59, 53, 59, 53, 77] = true := by decide          -- ESC [ < 0 ; 5 ; 5 M
example : isSgrReport [0x9b, 60, 51, 53, 59, 45, 49, 59, 49, 50, 51, 109] = true := by decide  -- 0x9B < 35 ; -1 ; 123 m
example : isSgrReport [27, 113, 91, 60, 48, 59, 53, 59, 53, 77] = false := by decide    -- ESC q [ < 0 ; 5 ; 5 M
example : isSgrReport [255, 27, 91, 60, 48, 59, 53, 59, 53, 77] = false := by decide    -- 0xFF ESC [ < …
example : isSgrReport [27, 91, 60, 48, 59, 53, 59, 53, 77, 120] = false := by decide    -- trailing byte
example : isSgrReport [27, 91, 60, 48, 58, 53, 59, 53, 77] = false := by decide         -- ':' is no separator
example : isSgrReport [27, 91, 60, 60, 48, 59, 53, 59, 53, 77] = false := by decide     -- second '<'
example : isSgrReport [27, 91, 60, 48, 59, 53, 77] = false := by decide                 -- two fields only
example : isSgrReport [27, 91, 60, 48, 59, 53, 59, 53, 59, 53, 77] = false := by decide -- four fields
example : isSgrReport [27, 91, 60, 59, 59, 77] = true := by decide                      -- empty fields (read as 0)
example : isSgrReport [27, 91, 60, 45, 45, 49, 59, 53, 59, 53, 77] = false := by decide -- two signs
example : isSgrReport [27, 91, 60, 49, 45, 59, 53, 59, 53, 77] = false := by decide     -- sign after a digit

end Tcell.Spec.SgrGrammar
