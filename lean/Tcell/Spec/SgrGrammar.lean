/-
Grammar of an SGR (1006) mouse report as a byte string, written from "XTerm Control Sequences – Mouse Tracking"
(`CSI < Pb ; Px ; Py M` / `… m`), not from tscreen.go:

    report  = intro '<' number ';' number ';' number final
    intro   = ESC '['  |  0x9B                      (7-bit and 8-bit CSI)
    number  = [ '-' ] digit*                        (optionally negative; the digit string may be empty, see below)
    final   = 'M' | 'm'

xterm always sends at least one digit per field.  tcell's parser reads an empty field as 0 and accepts a lone `-`
(tscreen.go:1430-1460, unchanged by fixes/C02-sgr-strict.patch), so the grammar used for "every consumed byte is a
report byte in report position" admits empty digit strings; `isSgrReportStrictDigits` is the variant with `digit+`.
The predicate is a left-to-right recogniser of the regular expression above and shares nothing with the model of the
parser (no state numbers, no accumulators).  Core Lean only.
-/
namespace Tcell.Spec.SgrGrammar

abbrev Bytes := List Nat

def isDigitB (c : Nat) : Bool := 48 ≤ c && c ≤ 57

/-- remove an optional leading `-` -/
def dropSign : Bytes → Bytes
  | 45 :: r => r
  | r => r

/-- `digit* final` and nothing after it -/
def tailY (r : Bytes) : Bool :=
  match r.dropWhile isDigitB with
  | [f] => f == 77 || f == 109
  | _ => false

/-- `digit* ';' number final` -/
def tailX (r : Bytes) : Bool :=
  match r.dropWhile isDigitB with
  | 59 :: r' => tailY (dropSign r')
  | _ => false

/-- `digit* ';' number ';' number final` -/
def tailB (r : Bytes) : Bool :=
  match r.dropWhile isDigitB with
  | 59 :: r' => tailX (dropSign r')
  | _ => false

/-- what follows the CSI introducer: `'<' number ';' number ';' number final` -/
def afterCsi : Bytes → Bool
  | 60 :: r => tailB (dropSign r)
  | _ => false

/-- what follows an ESC: `'[' '<' …` -/
def afterEsc : Bytes → Bool
  | 91 :: r => afterCsi r
  | _ => false

/-- the whole byte string is exactly one SGR mouse report -/
def isSgrReport : Bytes → Bool
  | 27 :: r => afterEsc r
  | 0x9b :: r => afterCsi r
  | _ => false

example : isSgrReport [27, 91, 60, 48, 59, 53, 59, 53, 77] = true := by decide          -- ESC [ < 0 ; 5 ; 5 M
example : isSgrReport [0x9b, 60, 51, 53, 59, 45, 49, 59, 49, 50, 51, 109] = true := by decide  -- 0x9B < 35 ; -1 ; 123 m
example : isSgrReport [27, 113, 91, 60, 48, 59, 53, 59, 53, 77] = false := by decide    -- ESC q [ < 0 ; 5 ; 5 M
example : isSgrReport [255, 27, 91, 60, 48, 59, 53, 59, 53, 77] = false := by decide    -- 0xFF ESC [ < …
example : isSgrReport [27, 91, 60, 48, 59, 53, 59, 53, 77, 120] = false := by decide    -- trailing byte
example : isSgrReport [27, 91, 60, 48, 58, 53, 59, 53, 77] = false := by decide         -- ':' is no separator
example : isSgrReport [27, 91, 60, 60, 48, 59, 53, 59, 53, 77] = false := by decide     -- second '<'
example : isSgrReport [27, 91, 60, 48, 59, 53, 77] = false := by decide                 -- two fields only
example : isSgrReport [27, 91, 60, 48, 59, 53, 59, 53, 59, 53, 77] = false := by decide -- four fields

/-! the same with at least one digit per field (what xterm sends) -/

def digits1 (k : Bytes → Bool) (r : Bytes) : Bool :=
  match dropSign r with
  | d :: r' => isDigitB d && k ((d :: r').dropWhile isDigitB)
  | [] => false

def isSgrReportStrictDigits (b : Bytes) : Bool :=
  let body (r : Bytes) : Bool :=
    match r with
    | 60 :: r =>
      digits1 (fun r => match r with
        | 59 :: r => digits1 (fun r => match r with
          | 59 :: r => digits1 (fun r => match r with | [f] => f == 77 || f == 109 | _ => false) r
          | _ => false) r
        | _ => false) r
    | _ => false
  match b with
  | 27 :: 91 :: r => body r
  | 0x9b :: r => body r
  | _ => false

example : isSgrReportStrictDigits [27, 91, 60, 48, 59, 45, 53, 59, 53, 77] = true := by decide
example : isSgrReportStrictDigits [27, 91, 60, 59, 59, 77] = false ∧ isSgrReport [27, 91, 60, 59, 59, 77] = true := by decide

end Tcell.Spec.SgrGrammar
