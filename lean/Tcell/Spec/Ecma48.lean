import Tcell.Base.Dec
/-!
# Byte-level ECMA-48 / xterm reference terminal emulator (Layer B of C01/C13/C09/C04)

Independent reference written from ECMA-48, the xterm control-sequence documentation (ctlseqs) and DESIGN.md
§5/§6/Appendix C — *not* from the tcell sources.  Core Lean only, executable, total, structurally recursive
(everything reduces in the kernel, so `by decide` works on concrete streams).

Conventions of the "standards-conforming terminal" (DESIGN.md §6):
* deferred wrap: writing a glyph into the last column leaves the cursor there and sets `pendingWrap` when
  auto-margin (DECAWM, `?7`) is on; the next glyph first wraps (CR+LF, scrolling at the bottom line).  With
  auto-margin off the cursor stays in the last column and the last cell is overwritten.
* a wide glyph (width 2) that does not fit in the last column: auto-margin on → wrap first, the last cell of
  the old line is left as it is; auto-margin off → the glyph is dropped (xterm `dotext`).
* out-of-range cursor addresses are clamped; parameter 0 means 1 for cursor movement.
* overwriting / erasing one half of a wide glyph blanks the other half (it keeps its pen).
* glyph widths come from the library's rune-width table `cfg.rw`; width ≤ 0 = combining mark, attaches to the
  glyph in the previous cell.  DEC special graphics / alternate font glyphs always have width 1 (xterm).
* erase operations (ED, EL, ICH, DCH, scrolling, FF on `ffClears` terminals) fill with a blank cell that carries
  only the current background colour (bce).
* strict tokenizer: every byte sequence outside the forms listed in DESIGN.md Appendix C appends one
  complaint `"<class> <detail>"` to `malformed` and is skipped the way xterm's parser would skip it.

Interface notes: `Term.w/h/get` read the displayed grid (`Grid` = row-major `Array` with a size proof, use
`Grid.get/set/fill/build`); `other` is the hidden screen (1049/47 swap them); `penKnown/linkKnown/cursorKnown` model
"unknown after `corrupt`" (glyphs written with an unknown pen are garbage, cursor-relative functions with an unknown
cursor make every cell garbage; SGR 0 / OSC 8 / CUP re-establish them); `last` remembers the cell of the glyph
printed last (target of combining marks); `Term.finish` turns an incomplete trailing sequence into a complaint
(`endsInGround` only reports it).  Edge cases decided the xterm way where emulators differ (tmux 3.3a differs in
each): LF cancels a pending wrap; DECSC/DECRC save and restore the pending-wrap flag and are per screen; `?1049l`
restores the saved cursor even when the alternate screen is not active; ICH/DCH/ED/EL with a wrap pending act on
the last column; BS at column 0 stays; DECRST 7 cancels a pending wrap.  Stamps: every cell an operation writes,
blanks, or moves (scroll, ICH, DCH) gets the current block id.

`malformed` complaint classes (first word): `c0` `del` `c1` `utf8` `esc` `esc-cut` `charset` `csi-cut` `csi-ctl`
`csi-byte` `csi-param` `csi-final` `sgr` `mode` `winop` `osc-cut` `osc-ctl` `osc-code` `osc-arg` `string`
`unterminated` (only from `Term.finish`).
-/
namespace Tcell.Spec.Ecma48

/-! ## Data -/

inductive ColorSel
  | default
  | idx (n : Nat)
  | rgb (r g b : Nat)
  deriving DecidableEq, Repr, Inhabited

structure Pen where
  fg : ColorSel := .default
  bg : ColorSel := .default
  bold : Bool := false
  dim : Bool := false
  italic : Bool := false
  blink : Bool := false
  reverse : Bool := false
  strike : Bool := false
  /-- 0 none, 1 single, 2 double, 3 curly, 4 dotted, 5 dashed -/
  ul : Nat := 0
  ulColor : ColorSel := .default
  /-- OSC 8 hyperlink: (params e.g. `id=..`, uri) -/
  link : Option (String × String) := none
  deriving DecidableEq, Repr, Inhabited

structure GCell where
  /-- base glyph code point followed by combining marks; `[]` = blank (never written / erased), shown as a space.
      In 8-bit mode (`cfg.utf8 = false`) the values are byte values (or `acsMap` images). -/
  runes : List Int := []
  /-- pen the cell was written with; for erased cells: default pen with the background colour at erase time -/
  pen : Pen := {}
  /-- right half of a wide glyph -/
  cont : Bool := false
  /-- content unknown (external corruption, terminal resize, or written while pen/cursor were unknown) -/
  garbage : Bool := false
  /-- id of the last write block that touched the cell (0 = none) -/
  stamp : Nat := 0
  deriving DecidableEq, Repr, Inhabited

structure Modes where
  altScreen : Bool := false
  cursorVisible : Bool := true
  /-- ESC = / ESC > -/
  keypadApp : Bool := false
  /-- DECSET 1 (DECCKM) -/
  cursorKeysApp : Bool := false
  /-- DECSET 4 (DECSCLM) -/
  smoothScroll : Bool := false
  /-- DECSET 7 (DECAWM) -/
  autoMargin : Bool := true
  /-- DECSET 12 (blinking cursor, att610) -/
  cursorBlink12 : Bool := false
  mouse1000 : Bool := false
  mouse1002 : Bool := false
  mouse1003 : Bool := false
  mouse1006 : Bool := false
  paste2004 : Bool := false
  focus1004 : Bool := false
  /-- DECSCUSR parameter (0 default) -/
  cursorShape : Nat := 0
  /-- OSC 12 `#rrggbb` / `rgb:rr/gg/bb`; none = default (never set or OSC 112) -/
  cursorColor : Option (Nat × Nat × Nat) := none
  /-- OSC 12 with any other colour spec (X11 name); "" = none -/
  cursorColorName : String := ""
  titleStack : List String := []
  title : String := ""
  acsG0 : Bool := false
  acsG1 : Bool := false
  shiftOut : Bool := false
  /-- SGR 10 / 11 / 12 font selection (0 = primary) -/
  altFont : Nat := 0
  /-- SM 4 (IRM) -/
  insertMode : Bool := false
  /-- SM 34 -/
  sm34 : Bool := false
  /-- `CSI ? … c` (linux console cursor), [] = never set -/
  linuxCursor : List Nat := []
  /-- last `CSI 8 ; h ; w t` request (h, w) -/
  resizeReq : Option (Nat × Nat) := none
  /-- `CSI > 2 t` seen -/
  titleModes2 : Bool := false
  /-- number of BELs -/
  bells : Nat := 0
  deriving DecidableEq, Repr, Inhabited

structure Config where
  /-- initial size -/
  w : Nat
  h : Nat
  /-- UTF-8 locale; otherwise 8-bit: every byte ≥ 0x20 except 0x7f is one glyph of width 1 -/
  utf8 : Bool := true
  /-- 8-bit mode only: bytes 0x80–0x9f are C1 controls -/
  c1Controls : Bool := false
  /-- rune width table of the library -/
  rw : Int → Int := fun _ => 1
  /-- DEC special graphics (or the alternate font of SGR 11/12): byte → code point -/
  acsMap : Nat → Int := fun b => b
  /-- FF clears the screen and homes the cursor (sun console) -/
  ffClears : Bool := false
  /-- initial state of DECAWM -/
  am : Bool := true

/-- the VT100 special graphics set as Unicode (for drivers/tests that do not bring their own map) -/
def decGraphics (b : Nat) : Int :=
  match b with
  | 0x5f => 0x20 | 0x60 => 0x25C6 | 0x61 => 0x2592 | 0x62 => 0x2409 | 0x63 => 0x240C | 0x64 => 0x240D
  | 0x65 => 0x240A | 0x66 => 0x00B0 | 0x67 => 0x00B1 | 0x68 => 0x2424 | 0x69 => 0x240B | 0x6a => 0x2518
  | 0x6b => 0x2510 | 0x6c => 0x250C | 0x6d => 0x2514 | 0x6e => 0x253C | 0x6f => 0x23BA | 0x70 => 0x23BB
  | 0x71 => 0x2500 | 0x72 => 0x23BC | 0x73 => 0x23BD | 0x74 => 0x251C | 0x75 => 0x2524 | 0x76 => 0x2534
  | 0x77 => 0x252C | 0x78 => 0x2502 | 0x79 => 0x2264 | 0x7a => 0x2265 | 0x7b => 0x03C0 | 0x7c => 0x2260
  | 0x7d => 0x00A3 | 0x7e => 0x00B7
  | _ => b

/-! ## Grid -/

structure Grid where
  w : Nat
  h : Nat
  cells : Array GCell
  /-- row-major, exactly `w * h` cells (so that `set` followed by `get` needs no side condition) -/
  hsize : cells.size = w * h

namespace Grid

def get (g : Grid) (x y : Nat) : GCell :=
  if x < g.w ∧ y < g.h then g.cells.getD (y * g.w + x) {} else {}

def set (g : Grid) (x y : Nat) (c : GCell) : Grid :=
  if x < g.w ∧ y < g.h then
    { g with cells := g.cells.setIfInBounds (y * g.w + x) c, hsize := by simp [g.hsize] }
  else g

/-- grid whose cell (x,y) is `f x y` -/
def build (w h : Nat) (f : Nat → Nat → GCell) : Grid :=
  { w := w, h := h, cells := ⟨(List.range (w * h)).map (fun i => f (i % w) (i / w))⟩, hsize := by simp }

def fill (w h : Nat) (c : GCell) : Grid :=
  { w := w, h := h, cells := ⟨List.replicate (w * h) c⟩, hsize := by simp }

/-- placeholder while a grid is being updated in place (see `Term.putNarrowAt`) -/
def empty : Grid := { w := 0, h := 0, cells := #[], hsize := rfl }

/-- cell `c` turned into a blank that keeps its pen (the surviving half of a destroyed wide glyph) -/
def halfBlank (c : GCell) (stamp : Nat) : GCell := { c with runes := [], cont := false, stamp := stamp }

/-- before cell (x,y) is overwritten: if it is one half of a wide glyph, blank the other half -/
def clobber (g : Grid) (stamp x y : Nat) : Grid :=
  let g := if (g.get x y).cont ∧ 0 < x then g.set (x - 1) y (halfBlank (g.get (x - 1) y) stamp) else g
  if (g.get (x + 1) y).cont then g.set (x + 1) y (halfBlank (g.get (x + 1) y) stamp) else g

def touch (c : GCell) (stamp : Nat) : GCell := { c with stamp := stamp }

/-- scroll the whole grid up by one line; the new bottom line is `blank`; every cell is stamped -/
def scrollUp (g : Grid) (blank : GCell) (stamp : Nat) : Grid :=
  build g.w g.h fun x y => if y + 1 < g.h then touch (g.get x (y + 1)) stamp else blank

/-- scroll the whole grid down by one line (reverse index at the top line) -/
def scrollDown (g : Grid) (blank : GCell) (stamp : Nat) : Grid :=
  build g.w g.h fun x y => if y = 0 then blank else touch (g.get x (y - 1)) stamp

/-- erase the cells selected by `sel` -/
def eraseSel (g : Grid) (blank : GCell) (sel : Nat → Nat → Bool) : Grid :=
  build g.w g.h fun x y => if sel x y then blank else g.get x y

/-- ICH: insert `n` blanks at (cx,cy), shifting the rest of the line right; a wide glyph cut by the right margin
    or by the insertion point is blanked -/
def insertBlanks (g : Grid) (blank : GCell) (stamp cx cy n : Nat) : Grid :=
  let g := if (g.get cx cy).cont then clobber g stamp cx cy else g
  let g' := build g.w g.h fun x y =>
    if y = cy ∧ cx ≤ x then (if x < cx + n then blank else touch (g.get (x - n) y) stamp) else g.get x y
  -- the glyph whose right half was pushed off the line
  if (g.get (g.w - n) cy).cont ∧ cx + n < g.w ∧ 0 < n then g'.set (g.w - 1) cy (halfBlank (g'.get (g.w - 1) cy) stamp) else g'

/-- DCH: delete `n` cells at (cx,cy), shifting the rest of the line left, blanks enter from the right -/
def deleteCells (g : Grid) (blank : GCell) (stamp cx cy n : Nat) : Grid :=
  let g := if (g.get cx cy).cont then clobber g stamp cx cy else g
  let g := if (g.get (cx + n) cy).cont then clobber g stamp (cx + n) cy else g
  build g.w g.h fun x y =>
    if y = cy ∧ cx ≤ x then (if x + n < g.w then touch (g.get (x + n) y) stamp else blank) else g.get x y

def garbageCell : GCell := { garbage := true }

end Grid

/-! ## Terminal state -/

inductive PState
  | ground
  | esc
  /-- ESC followed by one intermediate byte -/
  | escInter (i : Nat)
  /-- CSI: parameter and intermediate bytes collected so far, most recent first -/
  | csi (rev : List Nat)
  /-- OSC payload collected so far, most recent first -/
  | osc (rev : List Nat)
  /-- OSC payload followed by ESC (expecting `\`) -/
  | oscEsc (rev : List Nat)
  /-- DCS / SOS / PM / APC string being skipped -/
  | str
  | strEsc
  /-- inside a UTF-8 sequence: `need` continuation bytes missing, accumulated value, smallest legal value -/
  | utf8 (need acc lo : Nat)
  deriving DecidableEq, Repr, Inhabited

structure Saved where
  cx : Nat := 0
  cy : Nat := 0
  pen : Pen := {}
  pendingWrap : Bool := false
  acsG0 : Bool := false
  acsG1 : Bool := false
  shiftOut : Bool := false
  penKnown : Bool := true
  linkKnown : Bool := true
  cursorKnown : Bool := true
  deriving DecidableEq, Repr, Inhabited

structure Term where
  cfg : Config
  /-- the screen being displayed -/
  grid : Grid
  /-- the other screen (main grid while the alternate screen is shown, and vice versa) -/
  other : Grid
  cx : Nat := 0
  cy : Nat := 0
  pendingWrap : Bool := false
  pen : Pen := {}
  /-- false after `corrupt` until SGR 0 -/
  penKnown : Bool := true
  /-- false after `corrupt` until an OSC 8 -/
  linkKnown : Bool := true
  /-- false after `corrupt` until an absolute cursor address -/
  cursorKnown : Bool := true
  modes : Modes := {}
  st : PState := .ground
  /-- DECSC slot of the displayed screen / of the other screen -/
  saved : Option Saved := none
  savedOther : Option Saved := none
  /-- the cell of the last printed base glyph with the cursor state right after printing it
      (cell x, cell y, cx, cy, pendingWrap): a combining mark joins that cell as long as the cursor state is still the same -/
  last : Option (Nat × Nat × Nat × Nat × Bool) := none
  /-- strict-tokenizer complaints, in order -/
  malformed : List String := []
  /-- current write-block id -/
  blocks : Nat := 0

namespace Term

def w (t : Term) : Nat := t.grid.w
def h (t : Term) : Nat := t.grid.h
def get (t : Term) (x y : Nat) : GCell := t.grid.get x y

def init (cfg : Config) : Term :=
  { cfg := cfg, grid := Grid.fill cfg.w cfg.h {}, other := Grid.fill cfg.w cfg.h {},
    modes := { autoMargin := cfg.am } }

def beginBlock (t : Term) : Term := { t with blocks := t.blocks + 1 }

/-- external corruption: every cell garbage, pen / link / cursor unknown, modes untouched -/
def corrupt (t : Term) : Term :=
  { t with grid := Grid.fill t.grid.w t.grid.h Grid.garbageCell, other := Grid.fill t.grid.w t.grid.h Grid.garbageCell,
           penKnown := false, linkKnown := false, cursorKnown := false, pendingWrap := false, last := none }

/-- the terminal window changed size -/
def resize (t : Term) (w h : Nat) : Term :=
  { t with cfg := { t.cfg with w := w, h := h },
           grid := Grid.fill w h Grid.garbageCell, other := Grid.fill w h Grid.garbageCell,
           cx := min t.cx (w - 1), cy := min t.cy (h - 1), pendingWrap := false, last := none }

def endsInGround (t : Term) : Bool := t.st == .ground

def hexDigit (n : Nat) : Char := if n < 10 then Char.ofNat (48 + n) else Char.ofNat (87 + n)
def hex2 (b : Nat) : String := String.ofList [hexDigit (b / 16 % 16), hexDigit (b % 16)]

def complain (t : Term) (msg : String) : Term := { t with malformed := t.malformed ++ [msg] }

/-- end of the stream: an incomplete sequence is a complaint -/
def finish (t : Term) : Term :=
  match t.st with
  | .ground => t
  | .esc | .escInter _ => { t.complain "unterminated esc" with st := .ground }
  | .csi _ => { t.complain "unterminated csi" with st := .ground }
  | .osc _ | .oscEsc _ => { t.complain "unterminated osc" with st := .ground }
  | .str | .strEsc => { t.complain "unterminated string" with st := .ground }
  | .utf8 .. => { t.complain "unterminated utf8" with st := .ground }

/-! ### cells -/

/-- blank used by erase operations: only the background colour of the pen survives (bce) -/
def blankCell (t : Term) : GCell :=
  { runes := [], pen := { bg := t.pen.bg }, garbage := !t.penKnown, stamp := t.blocks }

def glyphCell (t : Term) (cp : Int) : GCell :=
  { runes := [cp], pen := t.pen, garbage := !(t.penKnown && t.linkKnown), stamp := t.blocks }

def garbageAll (t : Term) : Term := { t with grid := Grid.fill t.grid.w t.grid.h Grid.garbageCell }

/-! ### cursor -/

def lineFeed (t : Term) : Term :=
  if !t.cursorKnown then { t.garbageAll with pendingWrap := false }
  else if t.cy + 1 < t.h then { t with cy := t.cy + 1, pendingWrap := false }
  else { t with grid := t.grid.scrollUp t.blankCell t.blocks, pendingWrap := false }

def reverseIndex (t : Term) : Term :=
  if !t.cursorKnown then { t.garbageAll with pendingWrap := false }
  else if 0 < t.cy then { t with cy := t.cy - 1, pendingWrap := false }
  else { t with grid := t.grid.scrollDown t.blankCell t.blocks, pendingWrap := false }

def carriageReturn (t : Term) : Term := { t with cx := 0, pendingWrap := false }

def backspace (t : Term) : Term := { t with cx := t.cx - 1, pendingWrap := false }

def tab (t : Term) : Term := { t with cx := min (t.w - 1) ((t.cx / 8 + 1) * 8) }

/-- CUP with 0-based, already defaulted coordinates -/
def cursorTo (t : Term) (row col : Nat) : Term :=
  { t with cx := min col (t.w - 1), cy := min row (t.h - 1), pendingWrap := false, cursorKnown := true }

def cursorUp (t : Term) (n : Nat) : Term := { t with cy := t.cy - n, pendingWrap := false }
def cursorDown (t : Term) (n : Nat) : Term := { t with cy := min (t.cy + n) (t.h - 1), pendingWrap := false }
def cursorFwd (t : Term) (n : Nat) : Term := { t with cx := min (t.cx + n) (t.w - 1), pendingWrap := false }
def cursorBack (t : Term) (n : Nat) : Term := { t with cx := t.cx - n, pendingWrap := false }

def saveCursor (t : Term) : Term :=
  { t with saved := some { cx := t.cx, cy := t.cy, pen := t.pen, pendingWrap := t.pendingWrap, acsG0 := t.modes.acsG0,
                           acsG1 := t.modes.acsG1, shiftOut := t.modes.shiftOut, penKnown := t.penKnown,
                           linkKnown := t.linkKnown, cursorKnown := t.cursorKnown } }

def restoreCursor (t : Term) : Term :=
  let s := t.saved.getD {}
  { t with cx := min s.cx (t.w - 1), cy := min s.cy (t.h - 1), pen := s.pen, pendingWrap := s.pendingWrap,
           penKnown := s.penKnown, linkKnown := s.linkKnown, cursorKnown := s.cursorKnown,
           modes := { t.modes with acsG0 := s.acsG0, acsG1 := s.acsG1, shiftOut := s.shiftOut } }

/-! ### erase / insert / delete -/

def eraseAll (t : Term) : Term := { t with grid := Grid.fill t.grid.w t.grid.h t.blankCell }

def eraseDisplay (t : Term) (mode : Nat) : Term :=
  if mode = 2 then t.eraseAll
  else if mode = 3 then t
  else if !t.cursorKnown then t.garbageAll
  else if mode = 0 then
    let g := if (t.grid.get t.cx t.cy).cont then t.grid.clobber t.blocks t.cx t.cy else t.grid
    { t with grid := g.eraseSel t.blankCell fun x y => decide (t.cy < y) || (decide (y = t.cy) && decide (t.cx ≤ x)) }
  else
    let g := if (t.grid.get (t.cx + 1) t.cy).cont then t.grid.clobber t.blocks t.cx t.cy else t.grid
    { t with grid := g.eraseSel t.blankCell fun x y => decide (y < t.cy) || (decide (y = t.cy) && decide (x ≤ t.cx)) }

def eraseLine (t : Term) (mode : Nat) : Term :=
  if !t.cursorKnown then t.garbageAll
  else if mode = 2 then { t with grid := t.grid.eraseSel t.blankCell fun _ y => decide (y = t.cy) }
  else if mode = 0 then
    let g := if (t.grid.get t.cx t.cy).cont then t.grid.clobber t.blocks t.cx t.cy else t.grid
    { t with grid := g.eraseSel t.blankCell fun x y => decide (y = t.cy) && decide (t.cx ≤ x) }
  else
    let g := if (t.grid.get (t.cx + 1) t.cy).cont then t.grid.clobber t.blocks t.cx t.cy else t.grid
    { t with grid := g.eraseSel t.blankCell fun x y => decide (y = t.cy) && decide (x ≤ t.cx) }

def insertChars (t : Term) (n : Nat) : Term :=
  if !t.cursorKnown then t.garbageAll
  else { t with grid := t.grid.insertBlanks t.blankCell t.blocks t.cx t.cy n, pendingWrap := false }

def deleteChars (t : Term) (n : Nat) : Term :=
  if !t.cursorKnown then t.garbageAll
  else { t with grid := t.grid.deleteCells t.blankCell t.blocks t.cx t.cy n, pendingWrap := false }

/-- FF on terminals whose `clear` is FF -/
def clearHome (t : Term) : Term := { t.eraseAll with cx := 0, cy := 0, pendingWrap := false, cursorKnown := true }

/-! ### printing -/

/-- perform the deferred wrap, if one is pending -/
def doWrap (t : Term) : Term :=
  if t.pendingWrap then
    (if t.modes.autoMargin then { t.lineFeed with cx := 0 } else { t with pendingWrap := false })
  else t

/- Performance note for the compiled driver: the grid is taken out of the terminal (`{ t with grid := Grid.empty }`)
   before it is updated, so that the cell array is uniquely referenced and `Array.setIfInBounds` works in place;
   logically this is just `{ t with grid := (t.grid.clobber …).set … }`. -/
def putNarrowAt (t : Term) (cp : Int) : Term :=
  let cell := t.glyphCell cp
  let g := t.grid
  let t := { t with grid := Grid.empty }
  let g := (g.clobber t.blocks t.cx t.cy).set t.cx t.cy cell
  if t.cx + 1 < g.w then { t with grid := g, cx := t.cx + 1, last := some (t.cx, t.cy, t.cx + 1, t.cy, t.pendingWrap) }
  else { t with grid := g, pendingWrap := t.modes.autoMargin, last := some (t.cx, t.cy, t.cx, t.cy, t.modes.autoMargin) }

def putNarrow (t : Term) (cp : Int) : Term :=
  if !t.cursorKnown then t.garbageAll
  else
    let t := t.doWrap
    let t := if t.modes.insertMode then t.insertChars 1 else t
    t.putNarrowAt cp

def putWideAt (t : Term) (cp : Int) : Term :=
  let cell := t.glyphCell cp
  let g := t.grid
  let t := { t with grid := Grid.empty }
  let g := (g.clobber t.blocks t.cx t.cy).set t.cx t.cy cell
  let g := (g.clobber t.blocks (t.cx + 1) t.cy).set (t.cx + 1) t.cy { cell with runes := [], cont := true }
  if t.cx + 2 < g.w then { t with grid := g, cx := t.cx + 2, last := some (t.cx, t.cy, t.cx + 2, t.cy, t.pendingWrap) }
  else { t with grid := g, cx := t.cx + 1, pendingWrap := t.modes.autoMargin,
                last := some (t.cx, t.cy, t.cx + 1, t.cy, t.modes.autoMargin) }

def putWide (t : Term) (cp : Int) : Term :=
  if !t.cursorKnown then t.garbageAll
  else
    let t := t.doWrap
    -- does not fit: wrap first when auto-margin is on (the old last cell stays), otherwise drop the glyph
    let t := if t.w < t.cx + 2 ∧ t.modes.autoMargin then { t.lineFeed with cx := 0 } else t
    if t.w < t.cx + 2 then t
    else
      let t := if t.modes.insertMode then t.insertChars 2 else t
      t.putWideAt cp

def addMark (t : Term) (x y : Nat) (cp : Int) : Term :=
  let g := t.grid
  let t := { t with grid := Grid.empty }
  let c := g.get x y
  { t with grid := g.set x y { c with runes := (if c.runes.isEmpty then [32] else c.runes) ++ [cp], stamp := t.blocks } }

/-- positional rule: the glyph in the previous cell (the cell under the cursor when a wrap is pending) -/
def putCombiningPos (t : Term) (cp : Int) : Term :=
  let x := if t.pendingWrap then t.cx + 1 else t.cx
  if x = 0 then t
  else
    let x := if (t.grid.get (x - 1) t.cy).cont then x - 2 else x - 1
    t.addMark x t.cy cp

/-- a combining mark joins the glyph printed last if the cursor has not moved since; otherwise the positional
    rule applies; at column 0 it is dropped -/
def putCombining (t : Term) (cp : Int) : Term :=
  if !t.cursorKnown then t.garbageAll
  else
    match t.last with
    | some (x, y, cx', cy', pw') =>
      if cx' = t.cx ∧ cy' = t.cy ∧ pw' = t.pendingWrap then t.addMark x y cp else t.putCombiningPos cp
    | none => t.putCombiningPos cp

/-- print the glyph `cp` occupying `wd` ∈ {0,1,2} columns -/
def putGlyph (t : Term) (cp : Int) (wd : Nat) : Term :=
  match wd with
  | 0 => t.putCombining cp
  | 1 => t.putNarrow cp
  | _ => t.putWide cp

/-- is the DEC special graphics set invoked into GL? -/
def acsActive (m : Modes) : Bool := if m.shiftOut then m.acsG1 else m.acsG0

def widthOf (t : Term) (cp : Int) : Nat :=
  if !t.cfg.utf8 then 1
  else
    let w := t.cfg.rw cp
    if w ≤ 0 then 0 else if w = 1 then 1 else 2

/-- a printable byte < 0x80 (or any printable byte in 8-bit mode) -/
def printByte (t : Term) (b : Nat) : Term :=
  if t.modes.altFont ≠ 0 then t.putGlyph (t.cfg.acsMap b) 1
  else if acsActive t.modes && decide (0x5f ≤ b) && decide (b ≤ 0x7e) then t.putGlyph (t.cfg.acsMap b) 1
  else t.putGlyph (b : Int) (t.widthOf b)

/-- a code point decoded from UTF-8 (≥ 0x80) -/
def printCp (t : Term) (cp : Nat) : Term :=
  if cp < 0xA0 then t.complain ("c1 u+00" ++ hex2 cp)
  else t.putGlyph (cp : Int) (t.widthOf cp)

def replacement (t : Term) : Term := t.putGlyph 0xFFFD 1

/-! ### parameters -/

/-- split at every occurrence of `sep` (always at least one piece) -/
def splitBy (sep : Nat) : List Nat → List (List Nat)
  | [] => [[]]
  | b :: bs =>
    if b = sep then [] :: splitBy sep bs
    else match splitBy sep bs with
      | [] => [[b]]
      | p :: ps => (b :: p) :: ps

def isDigit (b : Nat) : Bool := decide (48 ≤ b) && decide (b ≤ 57)

def parseNat (ds : List Nat) : Nat := ds.foldl (fun a d => a * 10 + (d - 48)) 0

/-- `some none` for the empty string (default), `some (some n)` for decimal digits, `none` otherwise -/
def parseNum (ds : List Nat) : Option (Option Nat) :=
  if ds.isEmpty then some none else if ds.all isDigit then some (some (parseNat ds)) else none

def allSome {α : Type} : List (Option α) → Option (List α)
  | [] => some []
  | none :: _ => none
  | some a :: r => (allSome r).map (a :: ·)

/-- one parameter = its `:`-separated sub-parameters -/
abbrev Param := List (Option Nat)

def parseParams (bs : List Nat) : Option (List Param) :=
  allSome ((splitBy 0x3b bs).map fun p => allSome ((splitBy 0x3a p).map parseNum))

structure CsiArgs where
  /-- private marker byte (`?` `>` `<` `=`) or 0 -/
  priv : Nat := 0
  params : List Param := []
  inter : List Nat := []
  deriving DecidableEq, Repr

def isParamByte (b : Nat) : Bool := decide (0x30 ≤ b) && decide (b ≤ 0x3f)
def isInterByte (b : Nat) : Bool := decide (0x20 ≤ b) && decide (b ≤ 0x2f)

def parseCsiBody (body : List Nat) : Option CsiArgs :=
  let (priv, rest) := match body with
    | b :: r => if 0x3c ≤ b ∧ b ≤ 0x3f then (b, r) else (0, body)
    | [] => (0, [])
  let ps := rest.takeWhile isParamByte
  let is := rest.dropWhile isParamByte
  if is.all isInterByte then
    match parseParams ps with
    | some params => some { priv := priv, params := params, inter := is }
    | none => none
  else none

/-- first sub-parameter of parameter `i`, `d` when absent or empty -/
def arg (ps : List Param) (i d : Nat) : Nat :=
  match ps[i]? with
  | some (some n :: _) => n
  | _ => d

/-- count-like parameter: absent, empty or 0 mean 1 -/
def argCount (ps : List Param) (i : Nat) : Nat :=
  let n := arg ps i 1
  if n = 0 then 1 else n

/-- no parameter uses `:` sub-parameters -/
def flat (ps : List Param) : Bool := ps.all fun p => p.length ≤ 1

/-- the parameter list is just the implicit empty parameter -/
def noParams (ps : List Param) : Bool := ps == [[none]]

/-! ### SGR -/

def colorOk (c : ColorSel) : Bool :=
  match c with
  | .default => true
  | .idx n => n ≤ 255
  | .rgb r g b => r ≤ 255 && g ≤ 255 && b ≤ 255

/-- set colour for SGR 38 / 48 / 58 -/
def setExt (p : Pen) (which : Nat) (c : ColorSel) : Pen :=
  if which = 38 then { p with fg := c } else if which = 48 then { p with bg := c } else { p with ulColor := c }

/-- a simple (non-extended) SGR parameter; `none` = not in scope -/
def sgrSimple (p : Pen) (n : Nat) : Option Pen :=
  if n = 0 then some { link := p.link }
  else if n = 1 then some { p with bold := true }
  else if n = 2 then some { p with dim := true }
  else if n = 3 then some { p with italic := true }
  else if n = 4 then some { p with ul := 1 }
  else if n = 5 then some { p with blink := true }
  else if n = 7 then some { p with reverse := true }
  else if n = 9 then some { p with strike := true }
  else if n = 21 then some { p with ul := 2 }
  else if n = 22 then some { p with bold := false, dim := false }
  else if n = 23 then some { p with italic := false }
  else if n = 24 then some { p with ul := 0 }
  else if n = 25 then some { p with blink := false }
  else if n = 27 then some { p with reverse := false }
  else if n = 28 then some p
  else if n = 29 then some { p with strike := false }
  else if 30 ≤ n ∧ n ≤ 37 then some { p with fg := .idx (n - 30) }
  else if n = 39 then some { p with fg := .default }
  else if 40 ≤ n ∧ n ≤ 47 then some { p with bg := .idx (n - 40) }
  else if n = 49 then some { p with bg := .default }
  else if n = 59 then some { p with ulColor := .default }
  else if 90 ≤ n ∧ n ≤ 97 then some { p with fg := .idx (n - 90 + 8) }
  else if 100 ≤ n ∧ n ≤ 107 then some { p with bg := .idx (n - 100 + 8) }
  else none

/-- colon form `38:5:n`, `38:2::r:g:b`, `38:2:cs:r:g:b`, `38:2:r:g:b` (sub-parameters after the 38) -/
def colonColor (subs : Param) : Option ColorSel :=
  match subs with
  | [some 5, some n] => some (.idx n)
  | [some 2, some r, some g, some b] => some (.rgb r g b)
  | [some 2, _, some r, some g, some b] => some (.rgb r g b)
  | _ => none

/-- one SGR parameter `p` (with access to the following parameters `rest` for the `;` forms of 38/48/58);
    `k` continues with the parameters that are left -/
def sgrStep (k : List Param → Term → Term) (p : Param) (rest : List Param) (t : Term) : Term :=
  match p with
  | [] | [none] => k rest { t with pen := { link := t.pen.link }, penKnown := true }
  | [some n] =>
    if n = 38 ∨ n = 48 ∨ n = 58 then
      match rest with
      | [some 5] :: [some i] :: rest' =>
        if i ≤ 255 then k rest' { t with pen := setExt t.pen n (.idx i) }
        else k rest' (t.complain "sgr colour index out of range")
      | [some 2] :: [some r] :: [some g] :: [some b] :: rest' =>
        if colorOk (.rgb r g b) then k rest' { t with pen := setExt t.pen n (.rgb r g b) }
        else k rest' (t.complain "sgr rgb component out of range")
      | _ => t.complain "sgr malformed extended colour"
    else if n = 0 then k rest { t with pen := { link := t.pen.link }, penKnown := true }
    else if n = 10 ∨ n = 11 ∨ n = 12 then k rest { t with modes := { t.modes with altFont := n - 10 } }
    else match sgrSimple t.pen n with
      | some p' => k rest { t with pen := p' }
      | none => k rest (t.complain "sgr unknown parameter")
  | some n :: subs =>
    if n = 4 then
      match subs with
      | [some s] => if s ≤ 5 then k rest { t with pen := { t.pen with ul := s } }
                    else k rest (t.complain "sgr underline style out of range")
      | _ => k rest (t.complain "sgr malformed 4:")
    else if n = 38 ∨ n = 48 ∨ n = 58 then
      match colonColor subs with
      | some c => if colorOk c then k rest { t with pen := setExt t.pen n c }
                  else k rest (t.complain "sgr colour out of range")
      | none => k rest (t.complain "sgr malformed extended colour")
    else k rest (t.complain "sgr unexpected sub-parameters")
  | none :: _ => k rest (t.complain "sgr unexpected sub-parameters")

/-- SGR over the parameter list; `fuel` ≥ number of parameters.  (Written out rather than through `sgrStep`:
    this form evaluates fast in the kernel; `applySgr_step` in `Ecma48Lemmas` shows it is `sgrStep (applySgr fuel)`.) -/
def applySgr : Nat → List Param → Term → Term
  | 0, _, t => t
  | _, [], t => t
  | fuel + 1, p :: rest, t =>
    match p with
    | [] | [none] => applySgr fuel rest { t with pen := { link := t.pen.link }, penKnown := true }
    | [some n] =>
      if n = 38 ∨ n = 48 ∨ n = 58 then
        match rest with
        | [some 5] :: [some i] :: rest' =>
          if i ≤ 255 then applySgr fuel rest' { t with pen := setExt t.pen n (.idx i) }
          else applySgr fuel rest' (t.complain "sgr colour index out of range")
        | [some 2] :: [some r] :: [some g] :: [some b] :: rest' =>
          if colorOk (.rgb r g b) then applySgr fuel rest' { t with pen := setExt t.pen n (.rgb r g b) }
          else applySgr fuel rest' (t.complain "sgr rgb component out of range")
        | _ => t.complain "sgr malformed extended colour"
      else if n = 0 then applySgr fuel rest { t with pen := { link := t.pen.link }, penKnown := true }
      else if n = 10 ∨ n = 11 ∨ n = 12 then applySgr fuel rest { t with modes := { t.modes with altFont := n - 10 } }
      else match sgrSimple t.pen n with
        | some p' => applySgr fuel rest { t with pen := p' }
        | none => applySgr fuel rest (t.complain "sgr unknown parameter")
    | some n :: subs =>
      if n = 4 then
        match subs with
        | [some s] => if s ≤ 5 then applySgr fuel rest { t with pen := { t.pen with ul := s } }
                      else applySgr fuel rest (t.complain "sgr underline style out of range")
        | _ => applySgr fuel rest (t.complain "sgr malformed 4:")
      else if n = 38 ∨ n = 48 ∨ n = 58 then
        match colonColor subs with
        | some c => if colorOk c then applySgr fuel rest { t with pen := setExt t.pen n c }
                    else applySgr fuel rest (t.complain "sgr colour out of range")
        | none => applySgr fuel rest (t.complain "sgr malformed extended colour")
      else applySgr fuel rest (t.complain "sgr unexpected sub-parameters")
    | none :: _ => applySgr fuel rest (t.complain "sgr unexpected sub-parameters")

def sgr (t : Term) (ps : List Param) : Term := applySgr ps.length ps t

/-! ### modes -/

def swapScreens (t : Term) : Term :=
  { t with grid := t.other, other := t.grid, saved := t.savedOther, savedOther := t.saved,
           modes := { t.modes with altScreen := !t.modes.altScreen } }

/-- DECSET / DECRST of one private mode -/
def decMode (t : Term) (n : Nat) (on : Bool) : Term :=
  let m := t.modes
  if n = 1 then { t with modes := { m with cursorKeysApp := on } }
  else if n = 4 then { t with modes := { m with smoothScroll := on } }
  else if n = 7 then { t with modes := { m with autoMargin := on }, pendingWrap := t.pendingWrap && on }
  else if n = 12 then { t with modes := { m with cursorBlink12 := on } }
  else if n = 25 then { t with modes := { m with cursorVisible := on } }
  else if n = 47 then (if m.altScreen = on then t else t.swapScreens)
  else if n = 1049 then
    if on then
      (if m.altScreen then t.saveCursor else { t.saveCursor.swapScreens with pendingWrap := false }.eraseAll)
    else
      (if m.altScreen then t.swapScreens.restoreCursor else t.restoreCursor)
  else if n = 1000 then { t with modes := { m with mouse1000 := on } }
  else if n = 1002 then { t with modes := { m with mouse1002 := on } }
  else if n = 1003 then { t with modes := { m with mouse1003 := on } }
  else if n = 1004 then { t with modes := { m with focus1004 := on } }
  else if n = 1006 then { t with modes := { m with mouse1006 := on } }
  else if n = 2004 then { t with modes := { m with paste2004 := on } }
  else t.complain "mode unknown private mode"

def ansiMode (t : Term) (n : Nat) (on : Bool) : Term :=
  if n = 4 then { t with modes := { t.modes with insertMode := on } }
  else if n = 34 then { t with modes := { t.modes with sm34 := on } }
  else t.complain "mode unknown ansi mode"

def eachParam (ps : List Param) (f : Term → Nat → Term) (t : Term) : Term :=
  ps.foldl (fun t p => match p with
    | [some n] => f t n
    | _ => t.complain "csi-param empty or sub-parameter in mode list") t

def pushTitle (t : Term) : Term := { t with modes := { t.modes with titleStack := t.modes.title :: t.modes.titleStack } }
def popTitle (t : Term) : Term :=
  match t.modes.titleStack with
  | [] => t
  | s :: r => { t with modes := { t.modes with title := s, titleStack := r } }

def windowOp (t : Term) (ps : List Param) : Term :=
  if !flat ps then t.complain "winop sub-parameters" else
  match ps.map (fun p => p.headD none) with
  | [some 22] | [some 22, some 0] | [some 22, some 0, _] | [some 22, some 2] | [some 22, some 2, _] => t.pushTitle
  | [some 22, some 1] | [some 22, some 1, _] => t
  | [some 23] | [some 23, some 0] | [some 23, some 0, _] | [some 23, some 2] | [some 23, some 2, _] => t.popTitle
  | [some 23, some 1] | [some 23, some 1, _] => t
  | [some 8, some hh, some ww] => { t with modes := { t.modes with resizeReq := some (hh, ww) } }
  | _ => t.complain "winop unsupported window operation"

/-! ### CSI dispatch -/

def dispatchPlain (t : Term) (ps : List Param) (final : Nat) : Term :=
  if final = 0x6d then t.sgr ps                                            -- m
  else if final = 0x74 then t.windowOp ps                                  -- t
  else if !flat ps then t.complain "csi-param unexpected sub-parameters"
  else if final = 0x48 ∨ final = 0x66 then                                 -- H f
    if ps.length ≤ 2 then t.cursorTo (argCount ps 0 - 1) (argCount ps 1 - 1) else t.complain "csi-param too many parameters"
  else if final = 0x68 then eachParam ps (fun t n => t.ansiMode n true) t  -- h
  else if final = 0x6c then eachParam ps (fun t n => t.ansiMode n false) t -- l
  else if final = 0x72 then                                                -- r (only the reset form)
    (if noParams ps then { t with cx := 0, cy := 0, pendingWrap := false, cursorKnown := true }
     else t.complain "csi-param scrolling region not supported")
  else if 1 < ps.length then t.complain "csi-param too many parameters"
  else if final = 0x41 then t.cursorUp (argCount ps 0)
  else if final = 0x42 then t.cursorDown (argCount ps 0)
  else if final = 0x43 then t.cursorFwd (argCount ps 0)
  else if final = 0x44 then t.cursorBack (argCount ps 0)
  else if final = 0x4a then                                                -- J
    (if arg ps 0 0 ≤ 3 then t.eraseDisplay (arg ps 0 0) else t.complain "csi-param ED mode")
  else if final = 0x4b then                                                -- K
    (if arg ps 0 0 ≤ 2 then t.eraseLine (arg ps 0 0) else t.complain "csi-param EL mode")
  else if final = 0x40 then t.insertChars (argCount ps 0)                  -- @
  else if final = 0x50 then t.deleteChars (argCount ps 0)                  -- P
  else t.complain ("csi-final " ++ hex2 final)

def dispatchCsi (t : Term) (body : List Nat) (final : Nat) : Term :=
  match parseCsiBody body with
  | none => t.complain "csi-byte invalid parameter or intermediate bytes"
  | some a =>
    if a.priv = 0 ∧ a.inter = [] then dispatchPlain t a.params final
    else if a.priv = 0x3f ∧ a.inter = [] then                                  -- ?
      if final = 0x68 then eachParam a.params (fun t n => t.decMode n true) t
      else if final = 0x6c then eachParam a.params (fun t n => t.decMode n false) t
      else if final = 0x63 then                                                -- ? … c (linux cursor)
        (if flat a.params then { t with modes := { t.modes with linuxCursor := a.params.map fun p => (p.headD none).getD 0 } }
         else t.complain "csi-param unexpected sub-parameters")
      else t.complain ("csi-final ?" ++ hex2 final)
    else if a.priv = 0x3e ∧ a.inter = [] then                                  -- >
      if final = 0x74 ∧ a.params = [[some 2]] then { t with modes := { t.modes with titleModes2 := true } }
      else t.complain ("csi-final >" ++ hex2 final)
    else if a.priv = 0 ∧ a.inter = [0x20] ∧ final = 0x71 then                  -- SP q  DECSCUSR
      (if flat a.params ∧ a.params.length = 1 ∧ arg a.params 0 0 ≤ 6 then
         { t with modes := { t.modes with cursorShape := arg a.params 0 0 } }
       else t.complain "csi-param DECSCUSR")
    else if a.priv = 0 ∧ a.inter = [0x22] ∧ final = 0x71 then                  -- " q  DECSCA
      (if flat a.params ∧ a.params.length = 1 ∧ arg a.params 0 0 ≤ 2 then t else t.complain "csi-param DECSCA")
    else if a.inter ≠ [] then t.complain ("csi-byte unsupported intermediate bytes, final " ++ hex2 final)
    else t.complain ("csi-final unsupported private marker, final " ++ hex2 final)

/-! ### OSC -/

/-- lossy UTF-8 decoder state for OSC text (titles, URIs): output so far (reversed), missing continuation
    bytes, accumulated value -/
structure TextSt where
  out : List Char := []
  need : Nat := 0
  acc : Nat := 0

def textStart (s : TextSt) (b : Nat) : TextSt :=
  if b < 0x80 then { out := Char.ofNat b :: s.out }
  else if 0xC2 ≤ b ∧ b ≤ 0xDF then { out := s.out, need := 1, acc := b - 0xC0 }
  else if 0xE0 ≤ b ∧ b ≤ 0xEF then { out := s.out, need := 2, acc := b - 0xE0 }
  else if 0xF0 ≤ b ∧ b ≤ 0xF4 then { out := s.out, need := 3, acc := b - 0xF0 }
  else { out := Char.ofNat 0xFFFD :: s.out }

def textStep (utf8 : Bool) (s : TextSt) (b : Nat) : TextSt :=
  if !utf8 then { out := Char.ofNat b :: s.out }
  else if 0 < s.need then
    if 0x80 ≤ b ∧ b < 0xC0 then
      (if s.need = 1 then { out := Char.ofNat (s.acc * 64 + (b - 0x80)) :: s.out }
       else { out := s.out, need := s.need - 1, acc := s.acc * 64 + (b - 0x80) })
    else textStart { out := Char.ofNat 0xFFFD :: s.out } b
  else textStart s b

def decodeText (utf8 : Bool) (bs : List Nat) : List Char :=
  let s := bs.foldl (textStep utf8) {}
  (if 0 < s.need then Char.ofNat 0xFFFD :: s.out else s.out).reverse

def text (t : Term) (bs : List Nat) : String := String.ofList (decodeText t.cfg.utf8 bs)

def hexVal (b : Nat) : Option Nat :=
  if 48 ≤ b ∧ b ≤ 57 then some (b - 48)
  else if 97 ≤ b ∧ b ≤ 102 then some (b - 87)
  else if 65 ≤ b ∧ b ≤ 70 then some (b - 55)
  else none

def hexByte (a b : Nat) : Option Nat :=
  match hexVal a, hexVal b with
  | some x, some y => some (x * 16 + y)
  | _, _ => none

/-- `#rrggbb` or `rgb:rr/gg/bb` -/
def parseColorSpec (bs : List Nat) : Option (Nat × Nat × Nat) :=
  match bs with
  | [0x23, r1, r2, g1, g2, b1, b2] =>
    match hexByte r1 r2, hexByte g1 g2, hexByte b1 b2 with
    | some r, some g, some b => some (r, g, b)
    | _, _, _ => none
  | [0x72, 0x67, 0x62, 0x3a, r1, r2, 0x2f, g1, g2, 0x2f, b1, b2] =>
    match hexByte r1 r2, hexByte g1 g2, hexByte b1 b2 with
    | some r, some g, some b => some (r, g, b)
    | _, _, _ => none
  | _ => none

/-- split at the first `;` -/
def splitFirst (bs : List Nat) : List Nat × Option (List Nat) :=
  match bs.span (· != 0x3b) with
  | (a, []) => (a, none)
  | (a, _ :: r) => (a, some r)

def dispatchOsc (t : Term) (payload : List Nat) : Term :=
  let (code, rest) := splitFirst payload
  if code.isEmpty ∨ !code.all isDigit then t.complain "osc-code non-numeric OSC code" else
  let n := parseNat code
  if n = 0 ∨ n = 2 then
    match rest with
    | some s => { t with modes := { t.modes with title := t.text s } }
    | none => t.complain "osc-arg title missing"
  else if n = 8 then
    match rest with
    | some s =>
      match splitFirst s with
      | (params, some uri) =>
        { t with linkKnown := true,
                 pen := { t.pen with link := if uri.isEmpty then none else some (t.text params, t.text uri) } }
      | (_, none) => t.complain "osc-arg hyperlink needs params;uri"
    | none => t.complain "osc-arg hyperlink needs params;uri"
  else if n = 12 then
    match rest with
    | some s =>
      if s.isEmpty then t.complain "osc-arg empty cursor colour"
      else if s = [0x3f] then t.complain "osc-arg colour query"
      else match parseColorSpec s with
        | some c => { t with modes := { t.modes with cursorColor := some c, cursorColorName := "" } }
        | none => { t with modes := { t.modes with cursorColor := none, cursorColorName := t.text s } }
    | none => t.complain "osc-arg cursor colour missing"
  else if n = 112 then
    match rest with
    | none | some [] => { t with modes := { t.modes with cursorColor := none, cursorColorName := "" } }
    | some _ => t.complain "osc-arg OSC 112 takes no argument"
  else if n = 52 then
    match rest with
    | some _ => t
    | none => t.complain "osc-arg clipboard needs selection;data"
  else if n = 1 ∨ n = 4 ∨ n = 10 ∨ n = 11 ∨ n = 104 ∨ n = 110 ∨ n = 111 then t
  else t.complain "osc-code unsupported OSC"

/-! ### the byte state machine -/

def c0 (t : Term) (b : Nat) : Term :=
  if b = 0x1b then { t with st := .esc }
  else if b = 0x07 then { t with modes := { t.modes with bells := t.modes.bells + 1 } }
  else if b = 0x08 then t.backspace
  else if b = 0x09 then t.tab
  else if b = 0x0a then t.lineFeed
  else if b = 0x0d then t.carriageReturn
  else if b = 0x0e then { t with modes := { t.modes with shiftOut := true } }
  else if b = 0x0f then { t with modes := { t.modes with shiftOut := false } }
  else if b = 0x0c ∧ t.cfg.ffClears then t.clearHome
  else t.complain ("c0 " ++ hex2 b)

/-- the byte after ESC (also used for 8-bit C1 controls: 0x80+n ≙ ESC 0x40+n) -/
def feedEsc (t : Term) (b : Nat) : Term :=
  let t := { t with st := .ground }
  if b = 0x5b then { t with st := .csi [] }                                 -- [
  else if b = 0x5d then { t with st := .osc [] }                            -- ]
  else if b = 0x37 then t.saveCursor                                        -- 7
  else if b = 0x38 then t.restoreCursor                                     -- 8
  else if b = 0x3d then { t with modes := { t.modes with keypadApp := true } }   -- =
  else if b = 0x3e then { t with modes := { t.modes with keypadApp := false } }  -- >
  else if 0x20 ≤ b ∧ b ≤ 0x2f then { t with st := .escInter b }
  else if b = 0x44 then t.lineFeed                                          -- D  IND
  else if b = 0x45 then t.lineFeed.carriageReturn                           -- E  NEL
  else if b = 0x4d then t.reverseIndex                                      -- M  RI
  else if b = 0x50 ∨ b = 0x58 ∨ b = 0x5e ∨ b = 0x5f then                    -- P X ^ _
    { t.complain ("string unsupported control string ESC " ++ hex2 b) with st := .str }
  else if b = 0x1b then { t.complain "esc-cut ESC ESC" with st := .esc }
  else if b < 0x20 then (t.complain "esc-cut control after ESC").c0 b
  else t.complain ("esc unknown ESC " ++ hex2 b)

def feedEscInter (t : Term) (i b : Nat) : Term :=
  let t := { t with st := .ground }
  if b = 0x1b then { t.complain "esc-cut escape sequence cut by ESC" with st := .esc }
  else if b < 0x30 ∨ 0x7f ≤ b then t.complain "esc-cut escape sequence not completed"
  else if i = 0x28 then
    (if b = 0x42 then { t with modes := { t.modes with acsG0 := false } }
     else if b = 0x30 then { t with modes := { t.modes with acsG0 := true } }
     else t.complain ("charset unsupported G0 set " ++ hex2 b))
  else if i = 0x29 then
    (if b = 0x42 then { t with modes := { t.modes with acsG1 := false } }
     else if b = 0x30 then { t with modes := { t.modes with acsG1 := true } }
     else t.complain ("charset unsupported G1 set " ++ hex2 b))
  else t.complain ("esc unknown ESC " ++ hex2 i ++ " " ++ hex2 b)

def feedCsi (t : Term) (rev : List Nat) (b : Nat) : Term :=
  if 0x20 ≤ b ∧ b ≤ 0x3f then { t with st := .csi (b :: rev) }
  else if 0x40 ≤ b ∧ b ≤ 0x7e then dispatchCsi { t with st := .ground } rev.reverse b
  else if b = 0x1b then { t.complain "csi-cut control sequence cut by ESC" with st := .esc }
  else if b < 0x20 then t.complain ("csi-ctl control " ++ hex2 b ++ " inside control sequence")
  else { t.complain ("csi-byte " ++ hex2 b ++ " inside control sequence") with st := .ground }

def feedOsc (t : Term) (rev : List Nat) (b : Nat) : Term :=
  if b = 0x07 then dispatchOsc { t with st := .ground } rev.reverse
  else if b = 0x1b then { t with st := .oscEsc rev }
  else if b = 0x9c ∧ !t.cfg.utf8 ∧ t.cfg.c1Controls then dispatchOsc { t with st := .ground } rev.reverse
  else if b < 0x20 ∨ b = 0x7f then t.complain ("osc-ctl control " ++ hex2 b ++ " inside OSC")
  else { t with st := .osc (b :: rev) }

def feedOscEsc (t : Term) (rev : List Nat) (b : Nat) : Term :=
  if b = 0x5c then dispatchOsc { t with st := .ground } rev.reverse
  else feedEsc (t.complain "osc-cut OSC cut by ESC") b

def feedStr (t : Term) (b : Nat) : Term :=
  if b = 0x1b then { t with st := .strEsc }
  else if b = 0x07 then { t with st := .ground }
  else t

def feedStrEsc (t : Term) (b : Nat) : Term :=
  if b = 0x5c then { t with st := .ground } else feedEsc t b

def feedGround (t : Term) (b : Nat) : Term :=
  if b < 0x20 then t.c0 b
  else if b = 0x7f then t.complain "del"
  else if b < 0x80 then t.printByte b
  else if t.cfg.utf8 then
    if 0xC2 ≤ b ∧ b ≤ 0xDF then { t with st := .utf8 1 (b - 0xC0) 0x80 }
    else if 0xE0 ≤ b ∧ b ≤ 0xEF then { t with st := .utf8 2 (b - 0xE0) 0x800 }
    else if 0xF0 ≤ b ∧ b ≤ 0xF4 then { t with st := .utf8 3 (b - 0xF0) 0x10000 }
    else (t.complain ("utf8 invalid byte " ++ hex2 b)).replacement
  else if b < 0xA0 ∧ t.cfg.c1Controls then
    (if 0x84 ≤ b then t.feedEsc (b - 0x40) else t.complain ("c1 " ++ hex2 b))
  else t.printByte b

def feedUtf8 (t : Term) (need acc lo b : Nat) : Term :=
  if 0x80 ≤ b ∧ b < 0xC0 then
    let acc := acc * 64 + (b - 0x80)
    if need ≤ 1 then
      let t := { t with st := .ground }
      if acc < lo ∨ 0x10FFFF < acc ∨ (0xD800 ≤ acc ∧ acc ≤ 0xDFFF) then
        (t.complain "utf8 overlong, surrogate or out-of-range code point").replacement
      else t.printCp acc
    else { t with st := .utf8 (need - 1) acc lo }
  else
    feedGround ({ t with st := .ground }.complain "utf8 truncated sequence").replacement b

def feedByte (t : Term) (b : Nat) : Term :=
  match t.st with
  | .ground => t.feedGround b
  | .esc => t.feedEsc b
  | .escInter i => t.feedEscInter i b
  | .csi rev => t.feedCsi rev b
  | .osc rev => t.feedOsc rev b
  | .oscEsc rev => t.feedOscEsc rev b
  | .str => t.feedStr b
  | .strEsc => t.feedStrEsc b
  | .utf8 need acc lo => t.feedUtf8 need acc lo b

def feed (t : Term) (bs : List Nat) : Term := bs.foldl feedByte t

end Term

end Tcell.Spec.Ecma48
