import Tcell.Model.PipelineReal
import Tcell.Props.C05
import Tcell.Props.C02
import Tcell.Props.C11
/-
C05, connected to the REAL parser — no abstract hypothesis left.

`Tcell.Props.C05` proves conservation for the pipeline transition system with an abstract parser that obeys `ChunkLaw`.
`Tcell.Props.C02` proves that law for the real parser model under the decidable `Stable`, and `Stable` for the key table of
EVERY built-in terminal description (`db_stable`).  `Tcell.Props.C11` proves `stream_delivery` for the real parser model.
This file puts the three together for `Tcell.Model.Pipeline.realParser` — the very instance the trace replay of engine `pipe`
runs the real screen's schedule points against (`lean/Driver/Pipe.lean`).

  * `realParser_chunkLaw`            `Stable cfg → ChunkLaw (realParser cfg)`   (from `C02.collect_append`)
  * `pipeline_exactly_once`          no timer expiry: delivered ++ forwarded ++ queued ++ pending = `collect` of all bytes received
  * `db_pipeline_exactly_once`       … for every built-in terminal description, any screen size, any capacities, any schedule
  * `lossless_before_shutdown`       `lossy` (the ghost "something was discarded") stays false in every run that contains no
                                     Fini, no Suspend and no closing of a ChannelEvents quit channel: the hypothesis
                                     `s.lossy = false` of the theorems is implied by a condition on the *history*
  * `db_pipeline_exactly_once_before_shutdown`   the same statement with that condition instead of the ghost flag
  * the escape timer: `DecOp`, `opsOf` (the actual sequence of decode steps of a run: `chunk c` = `mainChunk` took `c` out
    of keychan, `expire` = `timerScan`), `decodeOps` (what the pipeline does), `flushDecode` (the specification: bytes
    accumulate; an expiry decodes everything accumulated in ONE read with the timeout flag and, by `C02.expire_drains`,
    leaves nothing; the open stretch at the end is ONE read without the flag)
      - `run_decode`                       any parser: decoded / registers / buffer = `decodeOps` over `opsOf` (so `mainChunk`
                                           and `timerScan` are the only steps that decode, and they decode exactly this)
      - `decodeOps_eq_flush`               real parser, `Stable`: `decodeOps` = `flushDecode` — chunking inside a stretch
                                           between two expiries is irrelevant, only the positions of the expiries matter
      - `pipeline_exactly_once_expire`, `db_pipeline_exactly_once_expire`   UNCONDITIONAL exactly-once (expiry steps allowed)
      - `flush_no_expire`, `expire_needs_buffered`, `expire_harmless_when_drained`   how / when an expiry can matter at all
  * `resize_at_full_queue`, `resize_with_room`, `post_at_boundary`   the boundary situations of engine `pipe` (kinds 5, 6) in the model
  * `text_through_pipeline`, `db_text_through_pipeline`   with `C11.stream_delivery`: typed / pasted text, paste markers and
    focus reports injected into the tty in arbitrary chunks come out of PollEvent / ChannelEvents as exactly one event per
    item, in order, once everything is drained

How the nondeterministic label `timerScan` (the 50 ms escape timer fired and `time.Now().After(t.keyexpire)`,
tscreen.go:1934-1946) enters.  The property says "with no escape timeout expiring in between" for chunk independence:
that is the hypothesis `∀ l ∈ ls, l ≠ .timerScan` of `pipeline_exactly_once` / `text_through_pipeline`, and it cannot be
dropped (`expire_changes_decoding`: ESC, expiry, `[A` gives Esc,`[`,`A`; without the expiry it is the Up key).  Exactly-once
needs no such condition: `pipeline_exactly_once_expire` holds for EVERY label list; its right-hand side is
`flushDecode` over the actual decode steps.  `timerScan` is only enabled while bytes are buffered
(`expire_needs_buffered`), i.e. only at a point where the stretch received so far does NOT decode completely; where it does,
an expiry would change nothing (`expire_harmless_when_drained`).

Quantification: every label list (interleavings of input arrival in any chunking, read faults, resize notifications, any
number of posts, polls at arbitrary moments or never, Suspend/Resume/Fini), every `Pipeline.Cfg` (capacities, shutdown
variant), every screen size and X11 variant of the parser configuration; no bound anywhere.  `s.lossy = false` = nothing was
discarded by a shutdown (`C05.lossy_only_after_shutdown`, `lossless_before_shutdown`).
Still PARTIAL in the sense of `Tcell.Props.C05`: statements about the model; Go scheduler, wall clock and tty drivers are
not modelled; the tie to the code is the sampled trace inclusion of engine `pipe` plus the `parsechunk`/`text` engines
for the parser.
-/
set_option linter.unusedSimpArgs false
namespace Tcell.Props.C05Real
open Tcell Tcell.Model Tcell.Model.Pipeline Tcell.Props.C05 Tcell.Lemmas.Chunk

abbrev PCfg := Tcell.Model.Pipeline.Cfg
abbrev RState := State Event PState

/-! ### the chunk law of the real parser -/

/-- **`realParser_chunkLaw`.**  The real parser model obeys the chunk law that `Tcell.Props.C05` assumes, for every
configuration satisfying the decidable `Stable` (prefix-free key table, table guard, decoder laws, repaired clipboard
parser where active).  `nil` is `C02.collect_total`, `append` is `C02.collect_append` with no timeout on the second read. -/
theorem realParser_chunkLaw (cfg : Model.Cfg) (hs : Stable cfg) : ChunkLaw (realParser cfg) where
  nil := fun _ => rfl
  append := fun st a b => by
    simp only [realParser_collect]
    rw [C02.collect_append cfg hs st a b false]

/-- the chunk law for the screen of every built-in terminal description, at any size, either X11 variant -/
theorem db_chunkLaw : ∀ p ∈ Gen.dbTables, ∀ (w h : Int) (x11 : Bool), ChunkLaw (realParser (C02.dbCfgAt p w h x11)) :=
  fun p hp w h x11 => realParser_chunkLaw _
    (C02.stable_congr (C02.dbCfg p) (C02.dbCfgAt p w h x11) (C02.db_stable p hp) rfl rfl rfl rfl rfl rfl)

theorem db_stable_at : ∀ p ∈ Gen.dbTables, ∀ (w h : Int) (x11 : Bool), Stable (C02.dbCfgAt p w h x11) :=
  fun p hp w h x11 => C02.stable_congr (C02.dbCfg p) (C02.dbCfgAt p w h x11) (C02.db_stable p hp) rfl rfl rfl rfl rfl rfl

/-! ### conservation with either consumer -/

variable {Ev PSt : Type}

/-- the single consumer: a PollEvent loop (no `ceEv` step) or one ChannelEvents reader (no `pollEv` step) -/
def SingleConsumer (ls : List Label) : Prop := (∀ l ∈ ls, l ≠ .ceEv) ∨ (∀ l ∈ ls, l ≠ .pollEv)

theorem inv_either (P : Parser Ev PSt) (c : PCfg) (pst0 : PSt) (ls : List Label) (s : State Ev PSt)
    (hcons : SingleConsumer ls) (hr : run P c (init pst0) ls = some s) : QueueInv s ∧ KeysInv s ∧ BytesInv s := by
  rcases hcons with h | h
  · have := pipeline_inv P c pst0 ls s h hr; exact ⟨this.1, this.2.1, this.2.2.1⟩
  · exact pipeline_inv_chan P c pst0 ls s h hr

/-- everything decoded so far is with the application, in ChannelEvents' hands, in the event queue, or still pending in
`scanInput` — in this order, nothing twice, nothing missing (any parser) -/
theorem keys_conserved (P : Parser Ev PSt) (c : PCfg) (pst0 : PSt) (ls : List Label) (s : State Ev PSt)
    (hcons : SingleConsumer ls) (hr : run P c (init pst0) ls = some s) (hl : s.lossy = false) :
    keysOf (s.delivered ++ s.ch ++ cePend s ++ s.eventQ) ++ pending s = s.decoded ∧
    s.received ++ s.keychan.flatten ++ held s ++ s.unread.flatten = s.allInput := by
  obtain ⟨hq, hk, hb⟩ := inv_either P c pst0 ls s hcons hr
  rcases hq with hq | hq
  · rcases hk with hk | hk
    · rcases hb with hb | hb
      · exact ⟨by rw [hq, hk], hb⟩
      · simp [hl] at hb
    · simp [hl] at hk
  · simp [hl] at hq

/-! ### exactly once, no escape-timer expiry -/

/-- **`pipeline_exactly_once`** (any `Stable` parser configuration).  In every reachable state of the pipeline — any
capacities, any schedule, any polling pattern, the input injected in any chunking — in which no escape timeout has decoded
anything on its own and nothing was discarded by a shutdown:
the key events delivered to the application ++ those ChannelEvents holds ++ those still queued ++ those pending in
`scanInput` are EXACTLY the events `collectEventsFromInput` yields for ALL bytes mainLoop has received so far, in ONE read
(in order, exactly once); parser registers and buffered bytes are those of that one read; and every injected byte is
received, in keychan, held by inputLoop or unread (back-pressure, not loss). -/
theorem pipeline_exactly_once (cfg : Model.Cfg) (hs : Stable cfg) (c : PCfg) (pst0 : PState) (ls : List Label) (s : RState)
    (hcons : SingleConsumer ls) (hno : ∀ l ∈ ls, l ≠ .timerScan)
    (hr : run (realParser cfg) c (init pst0) ls = some s) (hl : s.lossy = false) :
    keysOf (s.delivered ++ s.ch ++ cePend s ++ s.eventQ) ++ pending s = (collect cfg pst0 s.received false).evs ∧
    s.pst = (collect cfg pst0 s.received false).st ∧ s.buf = (collect cfg pst0 s.received false).rest ∧
    s.received ++ s.keychan.flatten ++ held s ++ s.unread.flatten = s.allInput := by
  obtain ⟨hk, hb⟩ := keys_conserved (realParser cfg) c pst0 ls s hcons hr hl
  have hd := decode_independent_of_chunking (realParser cfg) (realParser_chunkLaw cfg hs) c pst0 ls s hno hr
  rcases hd with hd | hd
  · simp only [realParser_collect, Prod.mk.injEq] at hd
    exact ⟨by rw [hk, hd.1], hd.2.1.symm, hd.2.2.symm, hb⟩
  · simp [hl] at hd

/-- **`db_pipeline_exactly_once`.**  `pipeline_exactly_once` for the screen of EVERY built-in terminal description (its
real key table, its active parsers, the tree's parser variants, UTF-8), any screen size, either X11 variant. -/
theorem db_pipeline_exactly_once : ∀ p ∈ Gen.dbTables, ∀ (w h : Int) (x11 : Bool) (c : PCfg) (pst0 : PState)
    (ls : List Label) (s : RState), SingleConsumer ls → (∀ l ∈ ls, l ≠ .timerScan) →
    run (realParser (C02.dbCfgAt p w h x11)) c (init pst0) ls = some s → s.lossy = false →
    keysOf (s.delivered ++ s.ch ++ cePend s ++ s.eventQ) ++ pending s
        = (collect (C02.dbCfgAt p w h x11) pst0 s.received false).evs ∧
    s.pst = (collect (C02.dbCfgAt p w h x11) pst0 s.received false).st ∧
    s.buf = (collect (C02.dbCfgAt p w h x11) pst0 s.received false).rest ∧
    s.received ++ s.keychan.flatten ++ held s ++ s.unread.flatten = s.allInput :=
  fun p hp w h x11 c pst0 ls s hcons hno hr hl =>
    pipeline_exactly_once _ (db_stable_at p hp w h x11) c pst0 ls s hcons hno hr hl

/-! ### `lossy` needs a shutdown in the history -/

/-- the three ways an application starts discarding: Fini, Suspend, closing the quit channel it gave to ChannelEvents -/
def Label.shutdown : Label → Bool
  | .callFini | .callSuspend | .closeUserQuit => true
  | _ => false

/-- no shutdown has begun: nothing is closed, the life-cycle caller is idle; a screen that is not running has no loops and
an empty buffer; a running one has an open stopQ -/
structure Quiet (s : State Ev PSt) : Prop where
  lossy : s.lossy = false
  quit : s.quit = false
  userQuit : s.userQuit = false
  call : s.callPc = .idle
  idle : s.running = false → s.inPc = .idle ∧ s.mainPc.isIdle = true ∧ s.buf = []
  stop : s.running = true → s.stop = false

theorem quiet_init (pst0 : PSt) : Quiet (init pst0 : State Ev PSt) := by
  constructor <;> simp [init, MainPc.isIdle]

set_option maxHeartbeats 8000000 in
theorem step_quiet (P : Parser Ev PSt) (c : PCfg) (s : State Ev PSt) (l : Label) (s' : State Ev PSt)
    (hg : Label.shutdown l = false) (hi : Quiet s) (h : step P c s l = some s') : Quiet s' := by
  obtain ⟨h1, h2, h3, h4, h5, h6⟩ := hi
  cases l <;> simp [Label.shutdown] at hg <;> simp only [step] at h <;> (try split at h) <;>
    (try simp only [Model.Pipeline.guard_eq_some, Option.some.injEq, reduceCtorEq, Bool.and_eq_true] at h) <;>
    (try (obtain ⟨hg', rfl⟩ := h)) <;> (try subst h) <;> (try contradiction)
  all_goals first
    | exact ⟨h1, h2, h3, h4, h5, h6⟩
    | (constructor <;> simp_all [push, engage, MainPc.isIdle, MainPc.isSel, MainPc.isTimerCase, MainPc.isResizing, MainPc.isExiting] <;> done)
    | (cases hrun : s.running <;> constructor <;>
        simp_all [push, engage, MainPc.isIdle, MainPc.isSel, MainPc.isTimerCase, MainPc.isResizing, MainPc.isExiting] <;> done)
    | (cases hm : s.mainPc <;> cases hn : s.inPc <;> cases hrun : s.running <;> constructor <;>
        simp_all [push, engage, MainPc.isIdle, MainPc.isSel, MainPc.isTimerCase, MainPc.isResizing, MainPc.isExiting] <;> done)

/-- **`lossless_before_shutdown`.**  A run that contains no Fini, no Suspend and no closing of a ChannelEvents quit channel
never discards anything, whatever else happens (full queues, a consumer that never polls, read errors, resizes, posts): the
ghost flag `lossy` is false in its final state. -/
theorem lossless_before_shutdown (P : Parser Ev PSt) (c : PCfg) (pst0 : PSt) (ls : List Label) (s : State Ev PSt)
    (hns : ∀ l ∈ ls, Label.shutdown l = false) (hr : run P c (init pst0) ls = some s) : s.lossy = false :=
  (run_induction P c (fun l => Label.shutdown l = false) Quiet (fun s l s' hg hi h => step_quiet P c s l s' hg hi h)
    ls (init pst0) s (quiet_init pst0) hns hr).lossy

/-- `db_pipeline_exactly_once` with the condition on the history instead of the ghost flag: as long as the application
has not called Fini or Suspend (and has not closed the ChannelEvents quit channel), for every built-in terminal … -/
theorem db_pipeline_exactly_once_before_shutdown : ∀ p ∈ Gen.dbTables, ∀ (w h : Int) (x11 : Bool) (c : PCfg)
    (pst0 : PState) (ls : List Label) (s : RState), SingleConsumer ls → (∀ l ∈ ls, l ≠ .timerScan) →
    (∀ l ∈ ls, Label.shutdown l = false) →
    run (realParser (C02.dbCfgAt p w h x11)) c (init pst0) ls = some s →
    keysOf (s.delivered ++ s.ch ++ cePend s ++ s.eventQ) ++ pending s
        = (collect (C02.dbCfgAt p w h x11) pst0 s.received false).evs ∧
    s.received ++ s.keychan.flatten ++ held s ++ s.unread.flatten = s.allInput :=
  fun p hp w h x11 c pst0 ls s hcons hno hns hr =>
    have hl := lossless_before_shutdown _ c pst0 ls s hns hr
    have := db_pipeline_exactly_once p hp w h x11 c pst0 ls s hcons hno hr hl
    ⟨this.1, this.2.2.2⟩

/-! ### the escape timer: the actual sequence of decode steps -/

/-- one decode step of mainLoop: a chunk taken out of keychan (`buf.Write(chunk); scanInput(buf, false)`, tscreen.go:1948)
or an expired escape timer (`scanInput(buf, true)`, tscreen.go:1943) -/
inductive DecOp where
  | chunk (c : Bytes)
  | expire
deriving DecidableEq, Repr

/-- the decode step a label performs in state `s` (none for all labels but `mainChunk`, `timerScan`) -/
def opOf (s : State Ev PSt) : Label → List DecOp
  | .mainChunk => match s.keychan with
    | ch :: _ => [.chunk ch]
    | [] => []
  | .timerScan => [.expire]
  | _ => []

/-- the decode steps of a run, in order -/
def opsOf (P : Parser Ev PSt) (c : PCfg) : State Ev PSt → List Label → List DecOp
  | _, [] => []
  | s, l :: ls =>
    match step P c s l with
    | some s' => opOf s l ++ opsOf P c s' ls
    | none => []

/-- the bytes of the chunk steps -/
def chunkBytes : List DecOp → Bytes
  | [] => []
  | .chunk c :: r => c ++ chunkBytes r
  | .expire :: r => chunkBytes r

def hasExpire : List DecOp → Bool
  | [] => false
  | .chunk _ :: r => hasExpire r
  | .expire :: _ => true

/-- what mainLoop computes over a sequence of decode steps, from registers `st` and buffer `buf`: events, registers, buffer -/
def decodeOps (P : Parser Ev PSt) : PSt → Bytes → List DecOp → List Ev × PSt × Bytes
  | st, buf, [] => ([], st, buf)
  | st, buf, .chunk ch :: ops =>
    let r := P.collect st (buf ++ ch) false
    let t := decodeOps P r.2.1 r.2.2 ops
    (r.1 ++ t.1, t.2)
  | st, buf, .expire :: ops =>
    let r := P.collect st buf true
    let t := decodeOps P r.2.1 r.2.2 ops
    (r.1 ++ t.1, t.2)

theorem decodeOps_append (P : Parser Ev PSt) : ∀ (a b : List DecOp) (st : PSt) (buf : Bytes),
    decodeOps P st buf (a ++ b) =
      ((decodeOps P st buf a).1 ++ (decodeOps P (decodeOps P st buf a).2.1 (decodeOps P st buf a).2.2 b).1,
       (decodeOps P (decodeOps P st buf a).2.1 (decodeOps P st buf a).2.2 b).2) := by
  intro a
  induction a with
  | nil => intro b st buf; simp [decodeOps]
  | cons o a ih =>
    intro b st buf
    cases o with
    | chunk ch => simp only [List.cons_append, decodeOps, ih, List.append_assoc]
    | expire => simp only [List.cons_append, decodeOps, ih, List.append_assoc]

theorem chunkBytes_append : ∀ (a b : List DecOp), chunkBytes (a ++ b) = chunkBytes a ++ chunkBytes b := by
  intro a
  induction a with
  | nil => intro b; rfl
  | cons o a ih => intro b; cases o <;> simp [chunkBytes, ih]

set_option maxHeartbeats 8000000 in
/-- `lossy` is sticky -/
theorem step_lossy_mono (P : Parser Ev PSt) (c : PCfg) (s : State Ev PSt) (l : Label) (s' : State Ev PSt)
    (h : step P c s l = some s') (hl : s'.lossy = false) : s.lossy = false := by
  cases l <;> simp only [step] at h <;> (try split at h) <;>
    (try simp only [Model.Pipeline.guard_eq_some, Option.some.injEq, reduceCtorEq, Bool.and_eq_true] at h) <;>
    (try (obtain ⟨hg', rfl⟩ := h)) <;> (try subst h) <;> (try contradiction)
  all_goals first
    | exact hl
    | (simp_all [push, engage]; done)
    | (cases hf : s.finiOnce <;> simp_all [push, engage]; done)
    | (cases hb : s.lossy <;> simp_all [push, engage] <;> done)

theorem run_lossy_mono (P : Parser Ev PSt) (c : PCfg) : ∀ (ls : List Label) (s0 s : State Ev PSt),
    run P c s0 ls = some s → s.lossy = false → s0.lossy = false := by
  intro ls
  induction ls with
  | nil => intro s0 s hr hl; simp [run] at hr; exact hr ▸ hl
  | cons l ls ih =>
    intro s0 s hr hl
    simp only [run] at hr
    cases h : step P c s0 l with
    | none => simp [h] at hr
    | some s1 => simp only [h] at hr; exact step_lossy_mono P c s0 l s1 h (ih s1 s hr hl)

set_option maxHeartbeats 8000000 in
/-- one step: decoded events, registers and buffer change exactly by the decode step the label performs (and by nothing else),
as long as nothing is discarded; the received bytes grow by the chunk taken -/
theorem step_decode (P : Parser Ev PSt) (c : PCfg) (s : State Ev PSt) (l : Label) (s' : State Ev PSt)
    (h : step P c s l = some s') (hl : s'.lossy = false) :
    (s'.decoded, s'.pst, s'.buf) =
      (s.decoded ++ (decodeOps P s.pst s.buf (opOf s l)).1, (decodeOps P s.pst s.buf (opOf s l)).2) ∧
    s'.received = s.received ++ chunkBytes (opOf s l) := by
  cases l <;> simp only [step] at h <;> (try split at h) <;>
    (try simp only [Model.Pipeline.guard_eq_some, Option.some.injEq, reduceCtorEq, Bool.and_eq_true] at h) <;>
    (try (obtain ⟨hg', rfl⟩ := h)) <;> (try subst h) <;> (try contradiction)
  all_goals first
    | (simp [opOf, decodeOps, chunkBytes, push]; done)
    | (simp_all [opOf, decodeOps, chunkBytes, push, engage]; done)
    | (cases hf : s.finiOnce <;> simp_all [opOf, decodeOps, chunkBytes, push, engage]; done)

/-- **`run_decode`** (any parser).  Along every run in which nothing is discarded, the events decoded, the parser registers
and the buffered bytes are exactly `decodeOps` over the run's decode steps, and the bytes received are the bytes of its
chunk steps: `mainChunk` and `timerScan` are the only steps that decode, and this is all they do. -/
theorem run_decode (P : Parser Ev PSt) (c : PCfg) : ∀ (ls : List Label) (s0 s : State Ev PSt),
    run P c s0 ls = some s → s.lossy = false →
    (s.decoded, s.pst, s.buf) =
      (s0.decoded ++ (decodeOps P s0.pst s0.buf (opsOf P c s0 ls)).1, (decodeOps P s0.pst s0.buf (opsOf P c s0 ls)).2) ∧
    s.received = s0.received ++ chunkBytes (opsOf P c s0 ls) := by
  intro ls
  induction ls with
  | nil =>
    intro s0 s hr _
    simp [run] at hr
    subst hr
    simp [opsOf, decodeOps, chunkBytes]
  | cons l ls ih =>
    intro s0 s hr hl
    simp only [run] at hr
    cases h : step P c s0 l with
    | none => simp [h] at hr
    | some s1 =>
      simp only [h] at hr
      have hl1 := run_lossy_mono P c ls s1 s hr hl
      obtain ⟨h1, h1r⟩ := step_decode P c s0 l s1 h hl1
      obtain ⟨h2, h2r⟩ := ih s1 s hr hl
      simp only [Prod.mk.injEq] at h1
      obtain ⟨hd, hp⟩ := h1
      have hp1 : s1.pst = (decodeOps P s0.pst s0.buf (opOf s0 l)).2.1 := by rw [← hp]
      have hb1 : s1.buf = (decodeOps P s0.pst s0.buf (opOf s0 l)).2.2 := by rw [← hp]
      simp only [opsOf, h, decodeOps_append, chunkBytes_append]
      rw [h2, h2r, h1r, hd, hp1, hb1]
      simp [List.append_assoc]

/-- the specification of the escape timer.  `acc` = the bytes received since the last expiry (or since the start).  A chunk
only accumulates; an expiry decodes everything accumulated in ONE read with the timeout flag and starts afresh (nothing is
left, `C02.expire_drains`); at the end the open stretch is decoded in ONE read without the flag. -/
def flushDecode (cfg : Model.Cfg) : PState → Bytes → List DecOp → List Event × PState × Bytes
  | st, acc, [] => ((collect cfg st acc false).evs, (collect cfg st acc false).st, (collect cfg st acc false).rest)
  | st, acc, .chunk ch :: ops => flushDecode cfg st (acc ++ ch) ops
  | st, acc, .expire :: ops =>
    let t := flushDecode cfg (collect cfg st acc true).st [] ops
    ((collect cfg st acc true).evs ++ t.1, t.2)

/-- **`decodeOps_eq_flush`** (real parser, `Stable`).  What mainLoop computes chunk by chunk equals the specification: however
the bytes between two expiries of the escape timer were split into reads, they are decoded as one read.  General form: start
from the result of having read `acc` from registers `st0`. -/
theorem decodeOps_eq_flush (cfg : Model.Cfg) (hs : Stable cfg) : ∀ (ops : List DecOp) (st0 : PState) (acc : Bytes),
    ((collect cfg st0 acc false).evs ++
        (decodeOps (realParser cfg) (collect cfg st0 acc false).st (collect cfg st0 acc false).rest ops).1,
      (decodeOps (realParser cfg) (collect cfg st0 acc false).st (collect cfg st0 acc false).rest ops).2)
    = flushDecode cfg st0 acc ops := by
  intro ops
  induction ops with
  | nil => intro st0 acc; simp [decodeOps, flushDecode]
  | cons o ops ih =>
    intro st0 acc
    cases o with
    | chunk ch =>
      have ha := C02.collect_append cfg hs st0 acc ch false
      simp only at ha
      have := ih st0 (acc ++ ch)
      simp only [decodeOps, flushDecode, realParser_collect]
      rw [← this, ha]
      simp [List.append_assoc]
    | expire =>
      have ha := C02.collect_append cfg hs st0 acc [] true
      simp only [List.append_nil] at ha
      have hd := C02.expire_drains' cfg hs (collect cfg st0 acc false).st (collect cfg st0 acc false).rest
      have := ih (collect cfg st0 acc true).st []
      simp only [C02.collect_total, List.nil_append] at this
      simp only [decodeOps, flushDecode, realParser_collect]
      rw [← this, ha, hd]
      simp [List.append_assoc]

/-- from the initial situation (nothing buffered) -/
theorem decodeOps_eq_flush0 (cfg : Model.Cfg) (hs : Stable cfg) (ops : List DecOp) (st0 : PState) :
    decodeOps (realParser cfg) st0 [] ops = flushDecode cfg st0 [] ops := by
  have := decodeOps_eq_flush cfg hs ops st0 []
  simpa [C02.collect_total] using this

/-- without an expiry the specification is ONE read of all the bytes -/
theorem flush_no_expire (cfg : Model.Cfg) : ∀ (ops : List DecOp) (st : PState) (acc : Bytes), hasExpire ops = false →
    flushDecode cfg st acc ops =
      ((collect cfg st (acc ++ chunkBytes ops) false).evs, (collect cfg st (acc ++ chunkBytes ops) false).st,
       (collect cfg st (acc ++ chunkBytes ops) false).rest) := by
  intro ops
  induction ops with
  | nil => intro st acc _; simp [flushDecode, chunkBytes]
  | cons o ops ih =>
    intro st acc h
    cases o with
    | chunk ch => simp only [hasExpire] at h; simp [flushDecode, chunkBytes, ih st (acc ++ ch) h, List.append_assoc]
    | expire => simp [hasExpire] at h

/-- the escape timer decodes only while bytes are buffered (`if buf.Len() > 0`, tscreen.go:1938): an `expire` step happens
only where the stretch received so far does not decode completely -/
theorem expire_needs_buffered (P : Parser Ev PSt) (c : PCfg) (s s' : State Ev PSt) (h : step P c s .timerScan = some s') :
    s.buf ≠ [] := by
  simp only [step, Model.Pipeline.guard_eq_some, Bool.and_eq_true] at h
  intro hb
  simp [hb] at h

/-- where the stretch does decode completely, an expiry changes nothing: one read with the timeout flag = one read without -/
theorem expire_harmless_when_drained (cfg : Model.Cfg) (hs : Stable cfg) (st : PState) (a : Bytes)
    (h : (collect cfg st a false).rest = []) :
    (collect cfg st a true).evs = (collect cfg st a false).evs ∧ (collect cfg st a true).st = (collect cfg st a false).st ∧
    (collect cfg st a true).rest = [] := by
  have ha := C02.collect_append cfg hs st a [] true
  simp only [List.append_nil, h] at ha
  rw [ha]
  simp [C02.collect_total]

/-- **`pipeline_exactly_once_expire`** — exactly-once, UNCONDITIONAL in the escape timer.  For EVERY label list (expiries
of the escape timer anywhere, any number of them): as long as nothing was discarded by a shutdown, the key events delivered
++ forwarded ++ queued ++ pending are exactly the events of `flushDecode` over the run's actual decode steps — every byte
received is decoded exactly once, in order, the stretches between expiries as one read each; and the bytes of the chunk
steps are the bytes received. -/
theorem pipeline_exactly_once_expire (cfg : Model.Cfg) (hs : Stable cfg) (c : PCfg) (pst0 : PState) (ls : List Label)
    (s : RState) (hcons : SingleConsumer ls) (hr : run (realParser cfg) c (init pst0) ls = some s) (hl : s.lossy = false) :
    keysOf (s.delivered ++ s.ch ++ cePend s ++ s.eventQ) ++ pending s
        = (flushDecode cfg pst0 [] (opsOf (realParser cfg) c (init pst0) ls)).1 ∧
    (s.pst, s.buf) = (flushDecode cfg pst0 [] (opsOf (realParser cfg) c (init pst0) ls)).2 ∧
    chunkBytes (opsOf (realParser cfg) c (init pst0) ls) = s.received ∧
    s.received ++ s.keychan.flatten ++ held s ++ s.unread.flatten = s.allInput := by
  obtain ⟨hk, hb⟩ := keys_conserved (realParser cfg) c pst0 ls s hcons hr hl
  obtain ⟨hd, hrc⟩ := run_decode (realParser cfg) c ls (init pst0) s hr hl
  have e1 : (init pst0 : RState).decoded = [] := rfl
  have e2 : (init pst0 : RState).pst = pst0 := rfl
  have e3 : (init pst0 : RState).buf = [] := rfl
  have e4 : (init pst0 : RState).received = [] := rfl
  rw [e1, e2, e3, decodeOps_eq_flush0 cfg hs] at hd
  rw [e4] at hrc
  simp only [List.nil_append, Prod.mk.injEq] at hd hrc
  refine ⟨by rw [hk, hd.1], ?_, hrc.symm, hb⟩
  rw [← hd.2]

/-- **`db_pipeline_exactly_once_expire`.**  The unconditional statement for every built-in terminal description. -/
theorem db_pipeline_exactly_once_expire : ∀ p ∈ Gen.dbTables, ∀ (w h : Int) (x11 : Bool) (c : PCfg) (pst0 : PState)
    (ls : List Label) (s : RState), SingleConsumer ls →
    run (realParser (C02.dbCfgAt p w h x11)) c (init pst0) ls = some s → s.lossy = false →
    keysOf (s.delivered ++ s.ch ++ cePend s ++ s.eventQ) ++ pending s
        = (flushDecode (C02.dbCfgAt p w h x11) pst0 [] (opsOf (realParser (C02.dbCfgAt p w h x11)) c (init pst0) ls)).1 ∧
    chunkBytes (opsOf (realParser (C02.dbCfgAt p w h x11)) c (init pst0) ls) = s.received ∧
    s.received ++ s.keychan.flatten ++ held s ++ s.unread.flatten = s.allInput :=
  fun p hp w h x11 c pst0 ls s hcons hr hl =>
    have := pipeline_exactly_once_expire _ (db_stable_at p hp w h x11) c pst0 ls s hcons hr hl
    ⟨this.1, this.2.2.1, this.2.2.2⟩

/-! ### text through the whole pipeline -/

/-- the chunks injected into the tty by a label list, in order -/
def injected : List Label → List Bytes
  | [] => []
  | .inject ch :: ls => ch :: injected ls
  | _ :: ls => injected ls

set_option maxHeartbeats 8000000 in
theorem step_allInput (P : Parser Ev PSt) (c : PCfg) (s : State Ev PSt) (l : Label) (s' : State Ev PSt)
    (h : step P c s l = some s') : s'.allInput = s.allInput ++ (injected [l]).flatten := by
  cases l <;> simp only [step] at h <;> (try split at h) <;>
    (try simp only [Model.Pipeline.guard_eq_some, Option.some.injEq, reduceCtorEq, Bool.and_eq_true] at h) <;>
    (try (obtain ⟨hg', rfl⟩ := h)) <;> (try subst h) <;> (try contradiction)
  all_goals first
    | (simp [injected, push]; done)
    | (simp_all [injected, push, engage]; done)
    | (cases hf : s.finiOnce <;> simp_all [injected, push, engage]; done)

theorem injected_cons (l : Label) (ls : List Label) : injected (l :: ls) = injected [l] ++ injected ls := by
  cases l <;> simp [injected]

/-- `allInput` (ghost) is the concatenation of the chunks the label list injects -/
theorem run_allInput (P : Parser Ev PSt) (c : PCfg) : ∀ (ls : List Label) (s0 s : State Ev PSt),
    run P c s0 ls = some s → s.allInput = s0.allInput ++ (injected ls).flatten := by
  intro ls
  induction ls with
  | nil => intro s0 s hr; simp [run] at hr; subst hr; simp [injected]
  | cons l ls ih =>
    intro s0 s hr
    simp only [run] at hr
    cases h : step P c s0 l with
    | none => simp [h] at hr
    | some s1 =>
      simp only [h] at hr
      rw [ih s1 s hr, step_allInput P c s0 l s1 h, injected_cons l ls]
      simp [List.append_assoc]

/-- nothing is on its way any more: the tty is read empty, inputLoop holds no chunk, keychan and eventQ are empty, nothing
is pending in `scanInput`, nothing is in ChannelEvents' hands -/
def Drained (s : State Ev PSt) : Prop :=
  s.unread.flatten = [] ∧ held s = [] ∧ s.keychan.flatten = [] ∧ pending s = [] ∧ s.eventQ = [] ∧ s.ch = [] ∧ cePend s = []

/-- **`text_through_pipeline`** (any `Stable` configuration with a 7-bit-initial key table).  Let the terminal send any
sequence of characters, paste markers and focus reports (`C11.Item`, each admissible for the configuration), injected into the
tty in ARBITRARY chunks (`(injected ls).flatten` = the bytes of the items: splits inside multi-byte characters and inside
escape sequences included), under any schedule, capacities and polling pattern, with no escape timeout expiring in between
and no shutdown discard.  Once the pipeline is drained, the application has received exactly one event per item, in order
(and nothing else that is input), nothing is buffered, the parser registers are as at the start. -/
theorem text_through_pipeline (cfg : Model.Cfg) (hs : Stable cfg) (hk : keysAscii cfg.keys = true) (c : PCfg) (pst0 : PState)
    (hesc : pst0.escaped = false) (items : List C11.Item) (hok : ∀ i ∈ items, C11.ItemOk cfg i)
    (ls : List Label) (s : RState) (hcons : SingleConsumer ls) (hno : ∀ l ∈ ls, l ≠ .timerScan)
    (hinj : (injected ls).flatten = items.flatMap C11.Item.bytes)
    (hr : run (realParser cfg) c (init pst0) ls = some s) (hl : s.lossy = false) (hd : Drained s) :
    keysOf s.delivered = items.map C11.Item.event ∧ s.buf = [] ∧ s.pst = pst0 := by
  obtain ⟨he, hp, hb, hby⟩ := pipeline_exactly_once cfg hs c pst0 ls s hcons hno hr hl
  obtain ⟨d1, d2, d3, d4, d5, d6, d7⟩ := hd
  have hall := run_allInput (realParser cfg) c ls (init pst0) s hr
  have hrecv : s.received = items.flatMap C11.Item.bytes := by
    rw [d1, d2, d3] at hby
    simp only [List.append_nil] at hby
    rw [hby, hall, hinj]
    simp [init]
  have hsd := C11.stream_delivery cfg hk pst0 hesc items hok [s.received] (by simp [hrecv])
  simp only [feedAll, List.nil_append] at hsd
  have hevs : (collect cfg pst0 s.received false).evs = items.map C11.Item.event := by
    have := congrArg Collected.evs hsd; simpa using this
  have hst : (collect cfg pst0 s.received false).st = pst0 := by
    have := congrArg Collected.st hsd; simpa using this
  have hrest : (collect cfg pst0 s.received false).rest = [] := by
    have := congrArg Collected.rest hsd; simpa using this
  rw [d4, d5, d6, d7] at he
  refine ⟨?_, by rw [hb, hrest], by rw [hp, hst]⟩
  rw [← hevs, ← he]
  simp

/-- what a built-in terminal may send as text: UTF-8 encoded runes of the text domain (every scalar value except C0, DEL and
U+FFFD), paste markers where tcell enables bracketed paste, focus reports where it enables focus reporting -/
def DbItemOk (p : Terminfo × List Gen.KeyRow) : C11.Item → Prop
  | .char e => ∃ r : Int, Utf8TextRune r ∧ e = (Utf8.encode r, r)
  | .pasteStart => C11.pasteEnabled p.1 = true
  | .pasteEnd => C11.pasteEnabled p.1 = true
  | .focusIn => C11.focusEnabled p.1 = true
  | .focusOut => C11.focusEnabled p.1 = true

theorem dbItemOk (p : Terminfo × List Gen.KeyRow) (hp : p ∈ Gen.dbTables) (w h : Int) (x11 : Bool) (i : C11.Item)
    (hi : DbItemOk p i) : C11.ItemOk (C02.dbCfgAt p w h x11) i := by
  cases i with
  | char e =>
    obtain ⟨r, ⟨h1, h2, h3, h4, h5⟩, rfl⟩ := hi
    show Tcell.Lemmas.Text.TextChar decUtf8 (Utf8.encode r, r)
    by_cases ha : r ≤ 126
    · left
      refine ⟨r.toNat, by omega, by omega, ?_⟩
      rw [C11.encChar_utf8 r ⟨h1, ha⟩]
      have : ((r.toNat : Nat) : Int) = r := by omega
      rw [this]
    · right
      exact Tcell.Lemmas.Text.utf8_codecChar r (by omega) h3 h4 h5
  | pasteStart =>
    have := (List.all_eq_true.mp C11.db_paste_keys) p hp
    have hi' : C11.pasteEnabled p.1 = true := hi
    simp only [hi', Bool.not_true, Bool.false_or] at this
    exact this
  | pasteEnd =>
    have := (List.all_eq_true.mp C11.db_paste_keys) p hp
    have hi' : C11.pasteEnabled p.1 = true := hi
    simp only [hi', Bool.not_true, Bool.false_or] at this
    exact this
  | focusIn =>
    have := (List.all_eq_true.mp C11.db_focus_clear) p hp
    have hi' : C11.focusEnabled p.1 = true := hi
    simp only [hi', Bool.not_true, Bool.false_or] at this
    exact this
  | focusOut =>
    have := (List.all_eq_true.mp C11.db_focus_clear) p hp
    have hi' : C11.focusEnabled p.1 = true := hi
    simp only [hi', Bool.not_true, Bool.false_or] at this
    exact this

/-- **`db_text_through_pipeline`.**  For the screen of EVERY built-in terminal description, any size, either X11 variant:
typed or pasted UTF-8 text (with the paste brackets and focus reports the terminal adds where tcell enabled them), injected
into the tty in arbitrary chunks, is delivered through inputLoop → keychan → mainLoop/scanInput → eventQ → PollEvent or
ChannelEvents rune for rune, in order, exactly once, when drained — under every schedule, all capacities, any polling
pattern, provided no escape timeout expires in between and no shutdown discards. -/
theorem db_text_through_pipeline : ∀ p ∈ Gen.dbTables, ∀ (w h : Int) (x11 : Bool) (c : PCfg) (pst0 : PState),
    pst0.escaped = false → ∀ (items : List C11.Item), (∀ i ∈ items, DbItemOk p i) →
    ∀ (ls : List Label) (s : RState), SingleConsumer ls → (∀ l ∈ ls, l ≠ .timerScan) →
    (injected ls).flatten = items.flatMap C11.Item.bytes →
    run (realParser (C02.dbCfgAt p w h x11)) c (init pst0) ls = some s → s.lossy = false → Drained s →
    keysOf s.delivered = items.map C11.Item.event ∧ s.buf = [] ∧ s.pst = pst0 :=
  fun p hp w h x11 c pst0 hesc items hok ls s hcons hno hinj hr hl hd =>
    text_through_pipeline _ (db_stable_at p hp w h x11)
      ((List.all_eq_true.mp C11.db_keys_ascii) p hp) c pst0 hesc items
      (fun i hi => dbItemOk p hp w h x11 i (hok i hi)) ls s hcons hno hinj hr hl hd

/-! ### the boundary situations the engine `pipe` drives the real screen into (kinds 5 and 6) -/

/-- **resize at an exactly full queue.**  `resize()` posts its EventResize without blocking (tscreen.go:1250): with the event
queue full the only enabled resize step is `resizeDrop`, and it leaves the WHOLE state unchanged — in particular every queued,
pending and delivered event (the resize event itself is what is dropped, never an input event); with room the only enabled
one is `resizeSent`, which appends exactly one `.resize` item and nothing else. -/
theorem resize_at_full_queue (P : Parser Ev PSt) (c : PCfg) (s : State Ev PSt) (hf : full c.eqCap s.eventQ = true) :
    step P c s .resizeDrop = some s ∧ step P c s .resizeSent = none := by
  simp [step, Model.Pipeline.guard, hf]

theorem resize_with_room (P : Parser Ev PSt) (c : PCfg) (s : State Ev PSt) (hf : full c.eqCap s.eventQ = false) :
    step P c s .resizeDrop = none ∧
    step P c s .resizeSent = some { s with eventQ := s.eventQ ++ [.resize], log := s.log ++ [.resize] } := by
  simp [step, Model.Pipeline.guard, hf, push]

/-- **PostEvent at capacity − 1, then at capacity** (two posts in a row, from whichever goroutines): the first returns nil and
its event is the last one the queue takes, the second returns ErrEventQFull and changes nothing but the caller's own
sequence counter — whatever else the state holds. -/
theorem post_at_boundary (P : Parser Ev PSt) (c : PCfg) (s : State Ev PSt) (h1 : s.eventQ.length + 1 = c.eqCap) :
    ∃ s1 s2, step P c s .post = some s1 ∧ step P c s1 .post = some s2 ∧
      postOk c s = true ∧ postOk c s1 = false ∧
      s1.eventQ = s.eventQ ++ [.posted s.nextSeq] ∧ s2.eventQ = s1.eventQ ∧ s2.log = s1.log ∧
      s1.log = s.log ++ [.posted s.nextSeq] ∧ full c.eqCap s2.eventQ = true := by
  have hnf : full c.eqCap s.eventQ = false := by simp [full]; omega
  have hf1 : full c.eqCap (s.eventQ ++ [Item.posted s.nextSeq]) = true := by simp [full]; omega
  refine ⟨{ push s (.posted s.nextSeq) with nextSeq := s.nextSeq + 1 },
    { push s (.posted s.nextSeq) with nextSeq := s.nextSeq + 1 + 1 }, ?_, ?_, ?_, ?_, ?_, ?_, ?_, ?_, ?_⟩
  · simp [step, hnf]
  · simp [step, push, hf1]
  · simp [postOk, hnf]
  · simp [postOk, push, hf1]
  · simp [push]
  · simp [push]
  · simp [push]
  · simp [push]
  · simp [push, hf1]

example : ∃ s : State Nat Unit, s.eventQ.length + 1 = (⟨3, 1, 1, false⟩ : PCfg).eqCap :=
  ⟨{ pst := (), eventQ := [.resize, .resize] }, rfl⟩

/-! ### the hypotheses are satisfiable; the timer condition cannot be dropped -/

/-- "é" + F-key-free text through a pipeline with queues of capacity 1: the two bytes of "é" arrive in two chunks, "a" and
the first byte of "€" in a third … ; the consumer polls only when forced to -/
def exRun : List Label :=
  [.callInit, .inject [0xC3], .inject [0xA9, 97],
   .inToRead, .inReadChunk, .inSent, .mainChunk, .chunkEnd,            -- C3 alone: nothing decoded, one byte buffered
   .inToRead, .inReadChunk, .inSent, .mainChunk, .scanSent,            -- A9 61: "é" and "a"; eventQ (cap 1) takes "é"
   .pollEv, .scanSent, .chunkEnd, .pollEv]

example : SingleConsumer exRun ∧ (∀ l ∈ exRun, l ≠ .timerScan) ∧ (∀ l ∈ exRun, Label.shutdown l = false) := by
  refine ⟨Or.inl ?_, ?_, ?_⟩ <;> decide

/-- the run exists, ends drained and not lossy, and delivers é, a: `text_through_pipeline` applies and is not vacuous -/
example :
    (run (realParser C02.exCfg) { eqCap := 1, kcCap := 1 } (init {}) exRun).map
      (fun s => (keysOf s.delivered, s.lossy,
        s.unread.isEmpty && s.keychan.isEmpty && s.eventQ.isEmpty && s.buf.isEmpty && (pending s).isEmpty)) =
    some ([runeEvent 0xE9, runeEvent 97], false, true) := by decide

example : (injected exRun).flatten = ([C11.Item.char ([0xC3, 0xA9], 0xE9), C11.Item.char ([97], 97)]).flatMap C11.Item.bytes := by
  decide

/-- the database is not empty and contains an entry on which paste and focus items are admissible -/
example : ∃ p ∈ Gen.dbTables, DbItemOk p .pasteStart ∧ DbItemOk p .focusIn ∧ DbItemOk p (.char (Utf8.encode 0x20AC, 0x20AC)) := by
  obtain ⟨p, hp, h1, h2, _⟩ : ∃ p ∈ Gen.dbTables, C11.pasteEnabled p.1 = true ∧ C11.focusEnabled p.1 = true ∧
      Tcell.Model.focusClear (C11.toTable p.2) = true := by decide +kernel
  exact ⟨p, hp, h1, h2, 0x20AC, by decide, rfl⟩

/-- ESC, then the timer expires, then `[A`: Esc, `[`, `A` … -/
def exExpire : List Label :=
  [.callInit, .inject [27], .inject [91, 65],
   .inToRead, .inReadChunk, .inSent, .mainChunk, .chunkEnd,
   .mainTimer, .timerScan, .scanSent, .timerEnd,
   .inToRead, .inReadChunk, .inSent, .mainChunk, .scanSent, .scanSent, .chunkEnd]
/-- … the same schedule without the expiry: the Up key -/
def exNoExpire : List Label :=
  [.callInit, .inject [27], .inject [91, 65],
   .inToRead, .inReadChunk, .inSent, .mainChunk, .chunkEnd,
   .inToRead, .inReadChunk, .inSent, .mainChunk, .scanSent, .chunkEnd]

/-- **`expire_changes_decoding`.**  The condition "no escape timeout expiring in between" of chunk independence cannot be
dropped: the same bytes in the same chunks decode differently when the timer fires between them.  (Exactly-once still
holds in both runs: `pipeline_exactly_once_expire`.) -/
theorem expire_changes_decoding :
    (run (realParser C02.exCfg) { eqCap := 4, kcCap := 1 } (init {}) exExpire).map (fun s => (keysOf s.eventQ, s.received)) =
      some ([.key 27 0 0, .key 256 91 0, .key 256 65 0], [27, 91, 65]) ∧
    (run (realParser C02.exCfg) { eqCap := 4, kcCap := 1 } (init {}) exNoExpire).map (fun s => (keysOf s.eventQ, s.received)) =
      some ([.key 257 0 0], [27, 91, 65]) ∧
    opsOf (realParser C02.exCfg) { eqCap := 4, kcCap := 1 } (init {}) exExpire = [.chunk [27], .expire, .chunk [91, 65]] := by
  decide

end Tcell.Props.C05Real
