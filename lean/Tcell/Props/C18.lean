/-
C18 — SimulationScreen is a faithful test double.

Theorems about the model `Tcell.Model.Sim` (simulation.go).  Generic in the encoder `enc`, the decoder `dec`, the rune
width function, all states (hence all draw histories that lead to them), sizes, coordinates, runes, styles.
Where the pinned tree violates the statement the model has a `pinned` and a `repaired` side (`SimVariant`): the
full-strength theorem is about `repaired`, the pinned behaviour gets a proved counterexample.
-/
import Tcell.Model.Sim
import Tcell.Lemmas.Sim
import Tcell.Props.C17
namespace Tcell.Props.C18
open Tcell

/-! ### what a drawn cell shows -/

/-- what the property says a visible cell reports: runes = main :: combining as last set (`GetContent`), style = the style
set with StyleDefault resolved to the screen style, a wide rune in the last column blank, bytes by `simBytes`. -/
theorem render_spec (v : SimVariant) (enc : Encoder) (s : Sim) (x y : Int) :
    let g := s.back.getContent x y
    (x > s.physw - g.2.2.2 → s.render v enc x y = { bytes := [32], style := s.resolve g.2.2.1, runes := [32] }) ∧
    (¬ x > s.physw - g.2.2.2 → s.render v enc x y =
        { bytes := Sim.simBytes v enc s.fallback (g.1 :: g.2.1), style := s.resolve g.2.2.1, runes := g.1 :: g.2.1 }) := by
  unfold Sim.render
  constructor <;> intro h <;> simp [h]

theorem resolve_default (s : Sim) : s.resolve {} = s.style := by simp [Sim.resolve]
theorem resolve_other (s : Sim) (st : Style) (h : st ≠ {}) : s.resolve st = st := by simp [Sim.resolve, h]

/-- **sim_drawCell_effect** (per cell, every variant — the step lemma behind `sim_show_faithful`; formerly
`sim_show_faithful_partial`): when `draw` reaches a cell that is dirty and on the display, the reported cell becomes exactly
`render` (runes, resolved style, blank in the last column, bytes), no other reported cell changes, and the width is
returned.  (Whether the cell is also marked clean is where the pinned tree differed: `last_column_stale`.) -/
theorem sim_drawCell_effect (v : SimVariant) (enc : Encoder) (s : Sim) (x y : Int)
    (hd : s.back.dirty x y = true) (hp : s.inPhys x y) :
    ((s.drawCell v enc x y).1.front x y = s.render v enc x y) ∧
    (∀ i j, ¬ (i = x ∧ j = y) → (s.drawCell v enc x y).1.front i j = s.front i j) ∧
    (s.drawCell v enc x y).2 = (s.back.getContent x y).2.2.2 := by
  have hp' : ¬ ¬ s.inPhys x y := fun h => h hp
  by_cases hc : (s.physw - (s.back.getContent x y).2.2.2 < x ∧ v.lastColClean = false)
  · refine ⟨?_, ?_, ?_⟩
    · simp [Sim.drawCell, hd, hp', hc, Sim.setFront]
    · intro i j h; simp [Sim.drawCell, hd, hp', hc, Sim.setFront, h]
    · simp [Sim.drawCell, hd, hp', hc]
  · refine ⟨?_, ?_, ?_⟩
    · simp [Sim.drawCell, hd, hp', hc, Sim.setFront]
    · intro i j h; simp [Sim.drawCell, hd, hp', hc, Sim.setFront, h]
    · simp [Sim.drawCell, hd, hp', hc]

/-- a cell that is clean (or off the display) is left alone -/
theorem drawCell_clean (v : SimVariant) (enc : Encoder) (s : Sim) (x y : Int) (hd : s.back.dirty x y = false) :
    (s.drawCell v enc x y).1 = s := by
  unfold Sim.drawCell; simp [hd]

/-! ### after Show, every visible cell shows what was last set — over all draw histories -/

/-- **sim_show_faithful** (full strength; history induction reusing C08's specification ghost, as C19 `page_faithful`).
Start from a freshly initialised SimulationScreen (80×25, any fallback map `fb`, any screen style `scr`) and perform ANY
history of SetContent / Fill / LockRegion steps / Show / Sync / SetSize / ShowCursor / InjectKey / InjectMouse — any
length, coordinates, sizes, runes, combining lists, styles.  Then every in-range cell that is unlocked and that the
logical buffer reports clean shows, in the cells `GetContents` reports (`front`), EXACTLY `render` of its logical content:
by `render_spec` the runes as `GetContent` gives them, the style last set with StyleDefault resolved to the screen style,
the bytes by the simulator's encoding rules, and a blank for a wide rune in the last column.
Hypotheses: `RwOk rw` (go-runewidth gives 0 for NUL, 1 for a blank, widths in 0..2); the variant has the two fixes that the
statement needs — `lastColClean` (/repo 829ffac) and `setSizeEvent` (/repo 3535525) — which the current tree has (the `sim`
engine probes the five sites and runs the matching model variant; for the pinned variant the statement is false:
`last_column_stale`); Fill runes are one column wide (`SimOp.ok`, the API contract of `Fill`, cell.go:218).
Outside the statement, as in C19: `SetStyle` and `RegisterRuneFallback` after a cell was drawn are not retroactive (no
redraw happens), so the screen style and the fallback map are fixed along the history (`setStyle_not_retroactive`). -/
theorem sim_show_faithful (rw : Rune → Int) (hrw : RwOk rw) (v : SimVariant) (hv1 : v.lastColClean = true)
    (hv2 : v.setSizeEvent = true) (enc : Encoder) (fb : RuneMap) (scr : Style) (ops : List SimOp)
    (hok : ∀ op ∈ ops, op.ok rw) (x y : Int) :
    let s := ({ Sim.init fb with style := scr } : Sim).runS rw v enc ops
    s.back.inRange x y → (s.back.cells x y).lock = false → s.back.dirty x y = false →
    s.front x y = s.render v enc x y := by
  intro s hr hl hd
  exact SimL.faithful_of_inv rw v enc fb scr hrw s
    (SimL.runS_inv rw v enc fb scr hrw hv1 hv2 ops _ hok (SimL.init_inv rw v enc fb scr hrw)) x y hr hl hd

/-- **sim_shown_cells_faithful**: after any such history followed by `Show`, every in-range unlocked position the draw
walk stopped at (column 0 of every row, then each position plus the reported width of its rune: every cell not hidden
behind a wide rune) shows `render` of its logical content — "after Show, every visible cell shows what was last set". -/
theorem sim_shown_cells_faithful (rw : Rune → Int) (hrw : RwOk rw) (v : SimVariant) (hv1 : v.lastColClean = true)
    (hv2 : v.setSizeEvent = true) (enc : Encoder) (fb : RuneMap) (scr : Style) (ops : List SimOp)
    (hok : ∀ op ∈ ops, op.ok rw) :
    let s0 := ({ Sim.init fb with style := scr } : Sim).runS rw v enc ops
    let s := s0.showScr v enc
    ∀ q ∈ SimL.showVisits v enc s0, s.back.inRange q.1 q.2 → (s.back.cells q.1 q.2).lock = false →
      s.front q.1 q.2 = s.render v enc q.1 q.2 := by
  intro s0 s q hq hr hl
  have h0 := SimL.runS_inv rw v enc fb scr hrw hv1 hv2 ops _ hok (SimL.init_inv rw v enc fb scr hrw)
  have hcl := SimL.show_visits_clean rw v enc fb scr hrw hv1 s0 h0 q hq
  have h1 : SimL.SInv rw v enc fb scr s := SimL.stepS_inv rw v enc fb scr hrw hv1 hv2 s0 .present trivial h0
  exact SimL.faithful_of_inv rw v enc fb scr hrw s h1 q.1 q.2 hr hl hcl

/-- **sim_show_frame**: a `Show` (no size change pending, no `Sync`) dirties nothing: every cell dirty after it was dirty
before it — it only draws and marks clean. -/
theorem sim_show_frame (v : SimVariant) (enc : Encoder) (s : Sim) (hpw : s.physw = s.back.w) (hph : s.physh = s.back.h)
    (hc : s.clear = false) : ∀ i j, (s.showScr v enc).back.dirty i j = true → s.back.dirty i j = true :=
  SimL.show_dirtyLe v enc s hpw hph hc

/-- the walk starts every row at column 0 -/
example (v : SimVariant) (enc : Encoder) (y : Int) (s : Sim) (fuel : Nat) (hw : 0 < s.back.w) :
    0 ∈ SimL.rowVisits v enc y (fuel + 1) s 0 := by
  simp [SimL.rowVisits, hw]

/-- a width function satisfying `RwOk` (世 wide, NUL zero-width) -/
def exRw : Rune → Int := fun r => if r = 0 then 0 else if r = 19990 then 2 else 1

theorem exRw_ok : RwOk exRw := by
  refine ⟨by decide, by decide, ?_, ?_⟩ <;> intro r <;> unfold exRw <;> split <;> (try split) <;> omega

/-- the hypotheses of `sim_show_faithful` are satisfiable and the statement is not vacuous: on a 3×1 screen, after
`SetContent(0,0,'A',bold); SetContent(2,0,'世'); Show` the reported cell (0,0) is a bold `A`, the wide rune in the last
column is reported as a blank, both cells are clean, and a second history step (`Fill(' ')`; `Show`) replaces them -/
example :
    let ops := [SimOp.setSize 3 1, .setContent 0 0 65 [] { attrs := 1 }, .setContent 2 0 19990 [] {}, .present]
    let s := (Sim.init []).runS exRw .repaired C17.exEnc ops
    let s2 := s.runS exRw .repaired C17.exEnc [.fill 32 {}, .present]
    (∀ op ∈ ops ++ [.fill 32 {}, .present], op.ok exRw) ∧
    s.back.dirty 0 0 = false ∧ s.back.dirty 2 0 = false ∧
    s.front 0 0 = { bytes := [65], style := { attrs := 1 }, runes := [65] } ∧
    s.front 2 0 = { bytes := [32], style := {}, runes := [32] } ∧
    s2.front 0 0 = { bytes := [32], style := {}, runes := [32] } := by
  refine ⟨?_, by decide, by decide, by decide, by decide, by decide⟩
  intro op h
  simp at h
  rcases h with h | h | h | h | h | h <;> subst h <;> simp [SimOp.ok, exRw]

/-- `SetStyle` is not retroactive (why `sim_show_faithful` fixes the screen style): a default-style cell drawn under screen
style `{}` keeps reporting `{}` after the screen style becomes bold and `Show` runs again — no cell is dirty, nothing is
redrawn — while `render` under the new style would report bold. -/
theorem setStyle_not_retroactive :
    let s := (Sim.init []).runS exRw .repaired C17.exEnc [.setSize 2 1, .setContent 0 0 65 [] {}, .present]
    let s' := ({ s with style := { attrs := 1 } } : Sim).showScr .repaired C17.exEnc
    (s'.front 0 0).style = {} ∧ (s'.render .repaired C17.exEnc 0 0).style = { attrs := 1 } ∧ s'.back.dirty 0 0 = false := by
  decide

/-! ### Bytes: the simulator's rules against the real screen's rules -/

/-- the simulator's chain for the first rune of a cell: encoder output, else registered fallback, else the raw rune if it is
printable ASCII, else `?` (no ACS: the simulator has no terminal description) -/
theorem simBytes_first (v : SimVariant) (enc : Encoder) (fb : RuneMap) (r : Rune) :
    Sim.simBytes v enc fb [r] =
      if (enc r).out.isEmpty || (enc r).out.head? == some 0x1A then
        match fb.get? r with
        | some f => f
        | none => if 32 ≤ r ∧ r ≤ 126 then [r.toNat % 256] else [63]
      else (enc r).out := by
  unfold Sim.simBytes Sim.encStep
  simp only [List.foldl_cons, List.foldl_nil, List.isEmpty_nil, Bool.and_false, List.nil_append]
  split
  · cases fb.get? r <;> simp
  · rfl

/-- one step of the repaired simulator loop is the real screen's `encodeRune` (without ACS map), provided the encoder reports
an error only together with an empty output (validated for every charset by the harness) and accepts printable ASCII -/
theorem encStep_eq_encodeRune (enc : Encoder) (fb : RuneMap) (bytes : Bytes) (r : Rune)
    (herr : (enc r).err = true → (enc r).out = [])
    (hascii : 32 ≤ r ∧ r ≤ 126 → (enc r).bad = false) :
    Sim.encStep .repaired enc fb bytes r = ({ enc := enc, acs := [], fallback := fb } : EncState).encodeRune r bytes := by
  unfold Sim.encStep EncState.encodeRune EncResult.bad
  cases he : (enc r).err
  · simp only [Bool.false_or]
    cases hb : ((enc r).out.isEmpty || (enc r).out.head? == some 0x1A)
    · simp
    · simp only [if_true, SimVariant.repaired, Bool.true_and]
      cases hbe : bytes.isEmpty
      · simp
      · simp only [Bool.not_true, if_false, if_true, RuneMap.get?, List.find?_nil, Option.map_none]
        cases hf : (List.find? (fun p => p.1 == r) fb) with
        | some f => simp
        | none =>
          simp only [Option.map_none]
          by_cases ha : 32 ≤ r ∧ r ≤ 126
          · have := hascii ha
            unfold EncResult.bad at this
            simp [he, hb] at this
          · simp [ha]
  · have ho := herr he
    simp only [ho, List.isEmpty_nil, Bool.true_or, Bool.or_true, if_true, SimVariant.repaired, Bool.true_and]
    cases hbe : bytes.isEmpty
    · simp
    · simp only [Bool.not_true, if_false, if_true, RuneMap.get?, List.find?_nil, Option.map_none]
      cases hf : (List.find? (fun p => p.1 == r) fb) with
      | some f => simp
      | none =>
        simp only [Option.map_none]
        by_cases ha : 32 ≤ r ∧ r ≤ 126
        · have := hascii ha
          unfold EncResult.bad at this
          simp [he] at this
        · simp [ha]

/-- **sim_bytes_same_rules** (repaired): the Bytes of a cell are what the real screen's `encodeCell` writes for the same runes
with the same fallback map and no ACS map — "the same fallback rules as a real screen". -/
theorem sim_bytes_same_rules (enc : Encoder) (fb : RuneMap) (mainc : Rune) (comb : List Rune)
    (herr : ∀ r, (enc r).err = true → (enc r).out = [])
    (hascii : ∀ r, 32 ≤ r ∧ r ≤ 126 → (enc r).bad = false) :
    Sim.simBytes .repaired enc fb (mainc :: comb) = ({ enc := enc, acs := [], fallback := fb } : EncState).encodeCell mainc comb := by
  unfold Sim.simBytes EncState.encodeCell
  simp only [List.foldl_cons]
  rw [encStep_eq_encodeRune enc fb [] mainc (herr mainc) (hascii mainc)]
  generalize ({ enc := enc, acs := [], fallback := fb } : EncState).encodeRune mainc [] = b0
  induction comb generalizing b0 with
  | nil => rfl
  | cons c cs ih =>
    simp only [List.foldl_cons]
    rw [encStep_eq_encodeRune enc fb b0 c (herr c) (hascii c)]
    exact ih _

/-- On the pinned tree the rules differ: a combining rune that is not encodable but has a registered fallback is appended by
the simulator (`a` + U+2500 in a Latin-1-like charset reports `a-`) and elided by the real screen (`a`). -/
theorem sim_bytes_pinned_differs :
    Sim.simBytes .pinned C17.exEnc [(9472, [45])] [97, 9472] = [97, 45] ∧
    ({ enc := C17.exEnc, acs := [], fallback := [(9472, [45])] } : EncState).encodeCell 97 [9472] = [97] ∧
    Sim.simBytes .repaired C17.exEnc [(9472, [45])] [97, 9472] = [97] := by decide

/-! ### the wide rune in the last column -/

/-- a 1×1 display whose only cell was drawn as a blank in style `{}`, then holds the wide rune 世 in bold -/
def exLastCol (rw : Rune → Int) : Sim :=
  let s0 : Sim := { physw := 1, physh := 1, back := ({} : Buf).resize 1 1 }
  let s1 := s0.showScr .pinned C17.exEnc
  { s1 with back := s1.back.setContent rw 0 0 19990 [] { attrs := 1 } }

/-- `Clear()` = `Fill(' ', StyleDefault)` (screen.go:393) -/
def clearScr (s : Sim) : Sim := { s with back := s.back.fill 32 {} }

/-- **last_column_stale** (pinned tree): the early return for a wide rune in the last column does not mark the cell clean, so the
buffer still believes the display shows the *previous* content; putting that previous content back with `Clear()` is then
"no change" and
the reported cell keeps the bold style of the blank that replaced the wide rune — the simulator reports a style the
application did not last set.  With the cell marked clean (repaired) the last Show redraws it. -/
theorem last_column_stale :
    let rw : Rune → Int := fun r => if r = 19990 then 2 else 1
    let s2 := (exLastCol rw).showScr .pinned C17.exEnc
    let s3 := clearScr s2
    ((s3.showScr .pinned C17.exEnc).front 0 0).style = { attrs := 1 } ∧
    (let r2 := (exLastCol rw).showScr { lastColClean := true } C17.exEnc
     let r3 := clearScr r2
     ((r3.showScr { lastColClean := true } C17.exEnc).front 0 0).style = {}) := by
  decide

/-! ### SetSize -/

theorem resize_dims (b : Buf) (w h : Int) : (b.resize w h).w = w ∧ (b.resize w h).h = h := by
  unfold Buf.resize; split
  · rename_i hh; exact ⟨hh.2, hh.1⟩
  · exact ⟨rfl, rfl⟩

/-- **setsize_overlap**: SetSize keeps every reported cell of the overlapping region, reports the new size, and resets the cursor. -/
theorem setsize_overlap (v : SimVariant) (s : Sim) (w h x y : Int)
    (hx : 0 ≤ x ∧ x < w ∧ x < s.physw) (hy : 0 ≤ y ∧ y < h ∧ y < s.physh) :
    (s.setSize v w h).front x y = s.front x y ∧ (s.setSize v w h).physw = w ∧ (s.setSize v w h).physh = h := by
  by_cases hv : v.setSizeEvent = true
  · by_cases hr : (w ≠ s.back.w ∨ h ≠ s.back.h)
    · simp [Sim.setSize, Sim.resize, Sim.post, hv, hr, hx, hy]
    · simp [Sim.setSize, Sim.resize, Sim.post, hv, hr, hx, hy]
  · simp [Sim.setSize, hv, hx, hy]

/-- **setsize_posts_resize** (repaired): a SetSize that changes the size queues a resize event carrying the new size. -/
theorem setsize_posts_resize (s : Sim) (w h : Int) (hne : w ≠ s.back.w ∨ h ≠ s.back.h) :
    (s.setSize .repaired w h).evq = s.evq ++ [.resize w h] ∧ (s.setSize .repaired w h).back.w = w ∧ (s.setSize .repaired w h).back.h = h := by
  unfold Sim.setSize Sim.resize Sim.post
  simp only [SimVariant.repaired, if_true]
  rw [if_pos hne]
  exact ⟨rfl, resize_dims _ _ _⟩

/-- On the pinned tree SetSize queues nothing and leaves the logical buffer already at the new size, so the `resize()` of the
following Show/Sync sees no difference and posts nothing either: no resize event is ever produced. -/
theorem setsize_pinned_no_event (s : Sim) (w h : Int) :
    (s.setSize .pinned w h).evq = s.evq ∧ ((s.setSize .pinned w h).resize).evq = s.evq := by
  unfold Sim.setSize
  simp only [SimVariant.pinned]
  refine ⟨rfl, ?_⟩
  unfold Sim.resize
  have := resize_dims s.back w h
  simp [this.1, this.2]

/-! ### cursor -/

/-- **cursor_query**: after ShowCursor(x, y) the query reports the position, visible exactly when it is on the display. -/
theorem cursor_query (s : Sim) (x y : Int) :
    (s.setCursor x y).getCursor = (x, y, decide (0 ≤ x ∧ 0 ≤ y ∧ x < s.physw ∧ y < s.physh)) := by
  unfold Sim.setCursor Sim.showCursor Sim.getCursor
  simp only [Prod.mk.injEq, true_and]
  rw [Bool.eq_iff_iff]
  simp
  omega

/-! ### injected events -/

def postAll (s : Sim) (evs : List SimEv) : Sim := evs.foldl Sim.post s

theorem postAll_evq (s : Sim) (evs : List SimEv) : (postAll s evs).evq = s.evq ++ evs := by
  induction evs generalizing s with
  | nil => simp [postAll]
  | cons e es ih => simp only [postAll, List.foldl_cons] at *; rw [ih]; simp [Sim.post]

/-- drain by repeated PollEvent -/
def pollAll : Nat → Sim → List SimEv
  | 0, _ => []
  | n + 1, s => match s.poll with
    | (some e, s') => e :: pollAll n s'
    | (none, _) => []

theorem pollAll_evq (s : Sim) : pollAll s.evq.length s = s.evq := by
  generalize hq : s.evq = q
  induction q generalizing s with
  | nil => simp [pollAll]
  | cons e es ih =>
    simp only [List.length_cons, pollAll, Sim.poll, hq]
    congr 1
    exact ih { s with evq := es } rfl

/-- **inject_keys_fifo**: events injected with InjectKey / InjectMouse (any keys, runes, modifiers, positions, buttons, in any
interleaving) come out of PollEvent after the events already queued, in order, exactly as constructed by NewEventKey /
NewEventMouse (the queue has room: the model's precondition, the harness keeps a poller running). -/
theorem inject_keys_fifo (s : Sim) (evs : List SimEv) :
    pollAll (s.evq.length + evs.length) (postAll s evs) = s.evq ++ evs := by
  have h := pollAll_evq (postAll s evs)
  rw [postAll_evq] at h
  simpa using h

theorem injectKey_is_post (s : Sim) (k : Int) (r : Rune) (m : Int) : s.injectKey k r m = s.post (newEventKey k r m) := rfl
theorem injectMouse_is_post (s : Sim) (x y b m : Int) : s.injectMouse x y b m = s.post (.mouse x y b m) := rfl
/-- a key other than a control rune is delivered with exactly the key, rune and modifiers given -/
theorem newEventKey_exact (k : Int) (r : Rune) (m : Int) (h : k ≠ 256 ∨ (32 ≤ r ∧ r ≠ 127)) : newEventKey k r m = .key k r m := by
  unfold newEventKey
  rcases h with h | h
  · simp [h]
  · have : ¬ (r < 32 ∨ r = 127) := by
      intro h'
      rcases h' with h' | h'
      · exact absurd h.1 (Int.not_le.mpr h')
      · exact h.2 h'
    simp [this]

/-! ### InjectKeyBytes -/

/-- a UTF-8 decoder restricted to what the examples need: `a`, `€` = E2 82 AC and its proper prefixes (which a UTF-8 decoder
rejects with nout = 0, as the real one does) -/
def exDecUtf8 : Decoder := fun p =>
  if p = [0xE2, 0x82, 0xAC] then { nout := 3, nin := 3, r := 0x20AC } else {}

/-- a GBK-like decoder: `你` = C4 E3; the one-byte prefix decodes to U+FFFD with nout = 3, nin = 1 (what x/text reports at EOF) -/
def exDecGbk : Decoder := fun p =>
  if p = [0xC4, 0xE3] then { nout := 3, nin := 2, r := 0x4F60 }
  else if p = [0xC4] ∨ p = [0xE3] then { nout := 3, nin := 1, r := 0xFFFD } else {}

/-- **inject_last_multibyte** (pinned tree): `InjectKeyBytes("a€")` delivers only `a` and returns false — the inner loop
`for l := 1; l < len(b); l++` never tries the whole remaining buffer.  Repaired: both keys, true. -/
theorem inject_last_multibyte :
    Sim.injectLoop .pinned exDecUtf8 4 [97, 0xE2, 0x82, 0xAC] [] false = ([.key 256 97 0], true) ∧
    Sim.injectLoop .repaired exDecUtf8 4 [97, 0xE2, 0x82, 0xAC] [] false = ([.key 256 97 0, .key 256 0x20AC 0], false) := by
  decide

/-- **inject_multibyte_dropped** (pinned tree): in a legacy multi-byte charset the one-byte prefix of every two-byte character
decodes to U+FFFD with nout ≠ 0, so the character is consumed byte by byte without any event — `你a` delivers only `a`
and even returns true.  Repaired (U+FFFD prefixes skipped): both keys. -/
theorem inject_multibyte_dropped :
    Sim.injectLoop { injectLE := true } exDecGbk 4 [0xC4, 0xE3, 97] [] false = ([.key 256 97 0], false) ∧
    Sim.injectLoop .repaired exDecGbk 4 [0xC4, 0xE3, 97] [] false = ([.key 256 0x4F60 0, .key 256 97 0], false) := by
  decide

/-- Codec laws for a character `c` encoded as `e` (validated against the real decoders by the harness: UTF-8 and every
multi-byte charset, every BMP character in the thorough tier): -/
structure CharLaw (dec : Decoder) (c : Rune) (e : Bytes) : Prop where
  nonempty : e ≠ []
  /-- a character whose encoding starts below 0x80 is one printable ASCII byte equal to the rune -/
  ascii : ∀ b rest, e = b :: rest → b < 128 → rest = [] ∧ 32 ≤ b ∧ b ≤ 126 ∧ c = (b : Int)
  /-- no proper prefix decodes to a rune other than U+FFFD -/
  prefixes : ∀ l, 0 < l → l < e.length → (dec (e.take l)).nout = 0 ∨ (dec (e.take l)).r = 0xFFFD
  /-- the whole encoding decodes to the character and consumes exactly itself -/
  whole : e.head?.any (· ≥ 128) → (dec e).nout ≠ 0 ∧ (dec e).nin = e.length ∧ (dec e).r = c ∧ c ≠ 0xFFFD ∧ 32 ≤ c ∧ c ≠ 127

/-- the inner loop finds the first candidate length that is not skipped -/
theorem injectTry_skip (v : SimVariant) (hv : v.injectSkipErr = true) (dec : Decoder) (b : Bytes) (pre : List Nat) (l0 : Nat) (post : List Nat)
    (hpre : ∀ l ∈ pre, (dec (b.take l)).nout = 0 ∨ (dec (b.take l)).r = 0xFFFD)
    (hhit : (dec (b.take l0)).nout ≠ 0 ∧ (dec (b.take l0)).r ≠ 0xFFFD) :
    Sim.injectTry v dec b (pre ++ l0 :: post) =
      some (some (newEventKey 256 (dec (b.take l0)).r 0), (dec (b.take l0)).nin) := by
  induction pre with
  | nil => simp [Sim.injectTry, hhit.1, hhit.2]
  | cons l ls ih =>
    have hl := hpre l (List.mem_cons_self ..)
    have ih' := ih (fun l' h' => hpre l' (List.mem_cons_of_mem _ h'))
    simp only [List.cons_append, Sim.injectTry]
    rcases hl with hl | hl
    · simp [hl, ih']
    · by_cases hn : (dec (b.take l)).nout = 0
      · simp [hn, ih']
      · simp [hn, hl, hv, ih']

theorem lens_split (n k : Nat) (hk : 0 < k) (hkn : k ≤ n) :
    (List.range n).map (· + 1) = ((List.range (k - 1)).map (· + 1)) ++ k :: ((List.range (n - k)).map (· + (k + 1))) := by
  have hn : n = (k - 1) + (1 + (n - k)) := by omega
  conv => lhs; rw [hn, List.range_add, List.range_add]
  simp only [List.map_append, List.map_map, List.range_one, List.map_cons, List.map_nil, List.cons_append, List.nil_append]
  congr 1
  congr 1
  · omega
  · apply List.map_congr_left; intro a _; simp; omega

/-- one character at the head of the buffer is delivered as one KeyRune and exactly its bytes are consumed -/
theorem injectLoop_char (dec : Decoder) (c : Rune) (e rest : Bytes) (law : CharLaw dec c e)
    (n : Nat) (evs : List SimEv) (failed : Bool) :
    Sim.injectLoop .repaired dec (n + 1) (e ++ rest) evs failed =
      Sim.injectLoop .repaired dec n rest (evs ++ [.key 256 c 0]) failed := by
  cases e with
  | nil => exact absurd rfl law.nonempty
  | cons b tl =>
    by_cases hb : b < 128
    · obtain ⟨htl, h32, h126, hc⟩ := law.ascii b tl rfl hb
      subst htl
      have hb2 : (32 : Int) ≤ (b : Int) ∧ (b : Int) ≠ 127 := ⟨by omega, by omega⟩
      have hk : newEventKey 256 (b : Int) 0 = .key 256 (b : Int) 0 := newEventKey_exact _ _ _ (Or.inr hb2)
      have h1 : 32 ≤ b ∧ b ≤ 127 := by omega
      simp only [List.cons_append, List.nil_append, Sim.injectLoop, h1, and_self, if_true, hk, hc]
    · have hge : b ≥ 128 := by omega
      obtain ⟨hno, hni, hr, hfffd, h32, h127⟩ := law.whole (by simp [hge])
      have h1 : ¬ (32 ≤ b ∧ b ≤ 127) := by omega
      simp only [List.cons_append, Sim.injectLoop, h1, if_false, hb]
      have hlen : (b :: tl).length ≤ (b :: (tl ++ rest)).length := by simp
      have hpos : 0 < (b :: tl).length := by simp
      have hsplit := lens_split (b :: (tl ++ rest)).length (b :: tl).length hpos hlen
      have htake : ∀ l, l ≤ (b :: tl).length → (b :: (tl ++ rest)).take l = (b :: tl).take l := by
        intro l hl
        have : b :: (tl ++ rest) = (b :: tl) ++ rest := rfl
        rw [this, List.take_append_of_le_length hl]
      have htry := injectTry_skip .repaired rfl dec (b :: (tl ++ rest)) ((List.range ((b :: tl).length - 1)).map (· + 1)) (b :: tl).length
        ((List.range ((b :: (tl ++ rest)).length - (b :: tl).length)).map (· + ((b :: tl).length + 1)))
        (by
          intro l hl
          simp only [List.mem_map, List.mem_range] at hl
          obtain ⟨a, ha, rfl⟩ := hl
          rw [htake (a + 1) (by omega)]
          exact law.prefixes (a + 1) (by omega) (by omega))
        (by
          rw [htake _ (Nat.le_refl _), List.take_length]
          exact ⟨hno, by rw [hr]; exact hfffd⟩)
      unfold Sim.injectLens
      have hle : SimVariant.repaired.injectLE = true := rfl
      simp only [hle, if_true]
      rw [hsplit, htry, htake _ (Nat.le_refl _), List.take_length, hni, hr]
      have hk : newEventKey 256 c 0 = .key 256 c 0 := newEventKey_exact _ _ _ (Or.inr ⟨h32, h127⟩)
      have hdrop : (b :: (tl ++ rest)).drop (b :: tl).length = rest := by
        have : b :: (tl ++ rest) = (b :: tl) ++ rest := rfl
        rw [this, List.drop_left]
      simp only [hk, hdrop]

/-- **inject_bytes_text** (repaired): any valid text in the charset — a list of characters with their encodings obeying the
codec laws, multi-byte characters included, also at the end — injected as the concatenation of the encodings comes out
as one KeyRune event per character, in order, and InjectKeyBytes returns true. -/
theorem inject_bytes_text (dec : Decoder) (text : List (Rune × Bytes)) (hlaw : ∀ ce ∈ text, CharLaw dec ce.1 ce.2)
    (s : Sim) :
    let b := (text.map (·.2)).flatten
    s.injectKeyBytes .repaired dec b = ({ s with evq := s.evq ++ text.map (fun ce => .key 256 ce.1 0) }, true) := by
  have key : ∀ (text : List (Rune × Bytes)), (∀ ce ∈ text, CharLaw dec ce.1 ce.2) → ∀ (n : Nat) (evs : List SimEv) (failed : Bool),
      text.length ≤ n →
      Sim.injectLoop .repaired dec (n + 1) ((text.map (·.2)).flatten) evs failed = (evs ++ text.map (fun ce => SimEv.key 256 ce.1 0), failed) := by
    intro text
    induction text with
    | nil => intro _ n evs failed _; simp [Sim.injectLoop]
    | cons ce rest ih =>
      intro hl n evs failed hn
      simp only [List.map_cons, List.flatten_cons]
      cases n with
      | zero => simp at hn
      | succ m =>
        rw [injectLoop_char dec ce.1 ce.2 _ (hl ce (List.mem_cons_self ..))]
        rw [ih (fun x hx => hl x (List.mem_cons_of_mem _ hx)) m _ _ (by simpa using hn)]
        simp
  intro b
  unfold Sim.injectKeyBytes
  have hlen : text.length ≤ b.length := by
    show text.length ≤ ((text.map (·.2)).flatten).length
    clear key
    induction text with
    | nil => simp
    | cons ce rest ih =>
      have hne := (hlaw ce (List.mem_cons_self ..)).nonempty
      have := ih (fun x hx => hlaw x (List.mem_cons_of_mem _ hx))
      have hpos : 0 < ce.2.length := List.length_pos_iff.mpr hne
      simp only [List.map_cons, List.flatten_cons, List.length_append, List.length_cons]
      omega
  rw [key text hlaw b.length [] false hlen]
  simp

/-! ### non-vacuity -/

/-- the UTF-8 example decoder satisfies the codec law for `€` -/
example : CharLaw exDecUtf8 0x20AC [0xE2, 0x82, 0xAC] where
  nonempty := by decide
  ascii := by intro b rest h hb; simp at h; omega
  prefixes := by
    intro l h0 hl
    have : l = 1 ∨ l = 2 := by simp at hl; omega
    rcases this with rfl | rfl <;> decide
  whole := by intro _; decide
/-- and for `a` -/
example : CharLaw exDecUtf8 97 [97] where
  nonempty := by decide
  ascii := by intro b rest h hb; simp at h; obtain ⟨rfl, rfl⟩ := h; decide
  prefixes := by intro l h0 hl; simp at hl; omega
  whole := by intro h; simp at h
/-- the GBK-like decoder satisfies the law for `你` although its one-byte prefix decodes to U+FFFD -/
example : CharLaw exDecGbk 0x4F60 [0xC4, 0xE3] where
  nonempty := by decide
  ascii := by intro b rest h hb; simp at h; omega
  prefixes := by
    intro l h0 hl
    have : l = 1 := by simp at hl; omega
    subst this; decide
  whole := by intro _; decide

example : ((Sim.init []).setSize .repaired 3 2).evq = [.resize 3 2] := by decide
example : ((Sim.init []).setCursor 2 1).getCursor = (2, 1, true) := by decide
example : (((Sim.init []).setSize .pinned 3 2).setCursor 5 1).getCursor = (5, 1, false) := by decide

end Tcell.Props.C18
