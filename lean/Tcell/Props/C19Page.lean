/-
C19 – the page: `page_frame` (a Show touches only cells that were dirty at entry), `visited_clean` (every cell
the draw walk stops at is clean afterwards) and `page_faithful` (history induction: every in-range cell that is
unlocked and reported clean shows, on the page grid rebuilt from the JS calls, exactly the rendering of its
logical contents).  The dirty-tracking part of the induction is C08's `ghostInv_step`, reused as is
(lemmas in Tcell/Lemmas/WScreen.lean).
-/
import Tcell.Lemmas.WScreen
namespace Tcell.Props.C19
open Tcell Tcell.Buf Tcell.WScreen

variable (p : Pal) (scr : Style)

/-- **page_frame.**  Every `drawCell` call a `Show` makes into JavaScript targets a cell that was dirty when the
`Show` started (so cells that did not change since they were last drawn are not touched), and `Show` makes no
`resize` call and – outside a `Sync` – no `clearScreen` call. -/
theorem page_frame (s : WS) (hc : s.clear = false) :
    ∀ c ∈ (WScreen.show p s).2,
      (∃ x y pc, c = JsCall.drawCell x y pc ∧ s.cells.dirty x y = true) ∨ c = JsCall.present := by
  intro c hcm
  unfold WScreen.show draw at hcm
  simp only [hc, Bool.false_eq_true, if_false, List.nil_append] at hcm
  rcases List.mem_append.1 hcm with h | h
  · exact Or.inl ((drawRows_frame p s.style s.w s.h.toNat 0 s.cells).2 c h)
  · simp only [List.mem_singleton] at h; exact Or.inr h


/-- **visited_clean.**  After the loops of `draw`, every position they stopped at is reported clean (it was clean or
locked already, or it has just been drawn). -/
theorem visited_clean (w : Int) : ∀ (n : Nat) (y : Int) (b : Buf),
    ∀ q ∈ visits p scr w n y b, (drawRows p scr w n y b).1.dirty q.1 q.2 = false := by
  intro n
  induction n with
  | zero => intro y b q h; simp [visits] at h
  | succ n ih =>
    intro y b q h
    unfold visits at h
    unfold drawRows
    rcases List.mem_append.1 h with h1 | h2
    · obtain ⟨x', hx', rfl⟩ := List.mem_map.1 h1
      have hcl := rowVisits_clean p scr w y w.toNat 0 b x' hx'
      have hle := (drawRows_frame p scr w n (y + 1) (drawRow p scr w y w.toNat 0 b).1).1
      cases hd : (drawRows p scr w n (y + 1) (drawRow p scr w y w.toNat 0 b).1).1.dirty x' y
      · rfl
      · rw [hle _ _ hd] at hcl; exact absurd hcl (by simp)
    · exact ih _ _ q h2


/-- the walk starts every row at column 0 -/
example (w y : Int) (b : Buf) (fuel : Nat) (hw : 0 < w) : 0 ∈ rowVisits p scr w y (fuel + 1) 0 b := by
  simp [rowVisits, hw]


/-- **page_faithful.**  On the tree of either Fill variant (`fz = Tcell.currentFillBlanksZeroWidth` is the tree as it is:
Fill stores a blank for a rune that has no width, cell.go Fill; `fz = false` the pinned Fill), start from `Init` and perform
any history of SetContent / Fill (ANY rune, zero-width, control and invalid ones included) / LockCell / UnlockCell /
LockRegion (screen.go:424 with its re-dirtying of a wide rune left of a really unlocked row, `Tcell.lockRowsG`) /
Show / Sync / SetSize (any length, any coordinates, sizes, runes, styles).  Rebuild the page grid from the JS calls
the backend made.  Then every in-range cell that is unlocked and not dirty – in particular every cell the last
`Show` stopped at (`visited_clean`) – shows exactly the rendering of its logical contents as `GetContent` reports
them: the text with its combining runes, foreground/background/underline colour through `paletteColor`,
attribute bits and underline style (`view`).  (Screen style fixed at its initial value; `SetStyle` after a frame
leaves already drawn default-style cells as they were, see `setStyle_not_retroactive`.) -/
theorem page_faithful (fz : Bool) (rw : Rune → Int) (ops : List WOp) (hok : ∀ op ∈ ops, op.ok rw) (x y : Int) :
    let sp := runW p fz rw (WS.init, Page.blank) ops
    sp.1.cells.inRange x y → (sp.1.cells.cells x y).lock = false → sp.1.cells.dirty x y = false →
    sp.2 x y = some (view p sp.1.style sp.1.cells x y) := by
  intro sp hr hl hd
  obtain ⟨hst, _, g, hg, hpg, hw⟩ := runW_inv p ({} : Style) fz rw ops _ hok (init_inv p)
  have hd' : (sp.1.cells.cells x y).isDirty = false := by
    unfold dirty at hd; rw [if_pos hr] at hd; exact hd
  obtain ⟨h1, h2⟩ := (Cell.isDirty_false_iff _ hl).1 hd'
  have := hpg x y _ (hg x y hr h1)
  rw [this, h2, hst, view_eq_renderRaw p _ _ x y hr (hw x y)]


/-- **shown_cells_faithful.**  After any history followed by `Show`, every in-range unlocked position the draw walk
stopped at (column 0 of every row, then each position plus the reported width of its rune: every cell not hidden
behind a wide rune) shows the rendering of its logical contents. -/
theorem shown_cells_faithful (fz : Bool) (rw : Rune → Int) (ops : List WOp) (hok : ∀ op ∈ ops, op.ok rw) :
    let sp0 := runW p fz rw (WS.init, Page.blank) ops
    let sp := stepW p fz rw sp0 .present
    ∀ q ∈ visits p sp0.1.style sp0.1.w sp0.1.h.toNat 0 sp0.1.cells,
      sp.1.cells.inRange q.1 q.2 → (sp.1.cells.cells q.1 q.2).lock = false →
      sp.2 q.1 q.2 = some (view p sp.1.style sp.1.cells q.1 q.2) := by
  intro sp0 sp q hq hr hl
  have hcl : sp.1.cells.dirty q.1 q.2 = false := visited_clean p sp0.1.style sp0.1.w sp0.1.h.toNat 0 sp0.1.cells q hq
  have hf := page_faithful p fz rw (ops ++ [.present])
    (by intro op h; rcases List.mem_append.1 h with h | h
        · exact hok op h
        · simp only [List.mem_singleton] at h; subst h; trivial) q.1 q.2
  simp only [runW_append] at hf
  exact hf hr hl hcl


/-- `SetStyle` is not retroactive: a `Show` on a screen whose cells are all clean makes no `drawCell` call whatever
the (new) screen style is, so default-style cells drawn earlier keep the colours of the style in force when they
were drawn.  (This is why `page_faithful` fixes the screen style; the oracle judges each call against the style
in force when it is made.) -/
theorem setStyle_not_retroactive (s : WS) (st : Style) (hc : s.clear = false) (hclean : ∀ x y, s.cells.dirty x y = false) :
    ∀ c ∈ (WScreen.show p { s with style := st }).2, c = JsCall.present := by
  intro c hcm
  rcases page_frame p { s with style := st } hc c hcm with ⟨x, y, _, _, hd⟩ | h
  · rw [hclean x y] at hd; exact absurd hd (by simp)
  · exact h


/-- the hypotheses of `page_faithful` are satisfiable and the statement is not vacuous: after
`SetContent(1,0,'A',[U+0301],red on default); Show` the page holds "A◌́" in xterm red at (1,0) -/
example :
    let pal : Pal := { palette := [(2^32 + 1, 0xcd0000)], values := [] }
    let ops := [WOp.setSize 3 1, WOp.setContent 1 0 65 [0x301] { fg := 2^32 + 1 }, WOp.present]
    (∀ op ∈ ops, op.ok (fun _ => 1)) ∧
    (runW pal currentFillBlanksZeroWidth (fun _ => 1) (WS.init, Page.blank) ops).2 1 0
      = some { text := [65, 0x301], fg := 0xcd0000, bg := 0, attrs := 0, us := 0, uc := 0 } := by
  refine ⟨by intro op h; simp at h; rcases h with h | h | h <;> subst h <;> simp [WOp.ok], by decide⟩

/-- … and with a Fill of a zero-width rune (U+200B) on the tree as it is, followed by a LockRegion / unlock beside a wide
rune: after `Fill(U+200B); SetContent(0,0,世); Show; LockRegion(1,0,1,1,true); LockRegion(1,0,1,1,false); Show` cell (2,0)
shows a blank and cell (0,0) the wide rune -/
example :
    let pal : Pal := { palette := [], values := [] }
    let rw : Rune → Int := fun r => if r = 0x200b then 0 else if r = 0x4e16 then 2 else 1
    let ops := [WOp.setSize 3 1, WOp.fill 0x200b {}, WOp.setContent 0 0 0x4e16 [] {}, WOp.present,
                WOp.lockRegion 1 0 1 1 true, WOp.lockRegion 1 0 1 1 false, WOp.present]
    (∀ op ∈ ops, op.ok rw) ∧
    ((runW pal true rw (WS.init, Page.blank) ops).2 2 0).map (·.text) = some [32] ∧
    ((runW pal true rw (WS.init, Page.blank) ops).2 0 0).map (·.text) = some [0x4e16] := by
  refine ⟨by intro op h; simp at h; rcases h with h | h | h | h | h | h | h <;> subst h <;> simp [WOp.ok], by decide, by decide⟩



end Tcell.Props.C19
