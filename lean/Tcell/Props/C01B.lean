/-
C01 / C13 / C09 — **Layer B**: from abstract commands to bytes.

What is proved here (kernel-checked, no bound on sizes, histories, runes, colours or styles):

* `db_layerB` — 41 of the 49 entries of the regenerated terminal database are in the class `LayerB.XtermLike` (every capability
  string the draw path uses is, once TPuts has removed its padding, one of the listed standard ECMA-48 / xterm forms, or absent
  where the library tolerates that; the draw path does not use the bottom-right insert-character trick); `db_cornerLike` — the four
  corner-trick entries (beterm, cygwin, sun, sun-color) are in the sister class `LayerB.CornerLike` (the same strings, the trick in
  use, `ich1` = ICH); `db_outside` — the other four do not speak ECMA-48 (hpterm, vt52, wy50, wy60).
* `rwClip_ok` — the regenerated go-runewidth table, restricted to Go's `rune` range, satisfies the hypotheses
  `RwOk` and `LayerB.RwB` made about the rune-width function.
* `show_faithful_bytes_partial` — **the byte-level reference emulator** (`Spec.Ecma48`), fed exactly the bytes
  `Render.renderAll rc cmds` that the (byte-exact) model writes for every operation of ANY history, shows after Show in
  every unlocked visited cell the payload last set there with the SGR state `LayerB.penOf rc style` that style denotes,
  two columns wide for a wide rune (continuation cell to the right), with the cursor at the requested cell and visible;
  `output_wellformed_partial` — and the strict tokenizer has not complained about a single byte and is in the ground
  state (C09); `sync_faithful_bytes_partial` — the same after Sync from arbitrary display contents.
  These follow from Layer A (`Props.C01`) by the simulation `LayerB.rep_reach`:
  `Rep t a → AdmitAll a cmds → Rep (t.feed (renderAll rc cmds)) (a.applyAll cmds)` (`LayerB.sim_all`) and the proof that
  every command list of every draw is admissible (`LayerB.draw_admits`).
* `cup_accepted_all` (C09) — the expansion of `cup` is accepted by the strict tokenizer for ALL rows and columns.

* **`xl_show_faithful_bytes`, `xl_sync_faithful_bytes`, `xl_output_wellformed`, `xl_rep_after`** and their database instances
  **`db_show_faithful_bytes`, `db_sync_faithful_bytes`, `db_output_wellformed`** — the same statements WITHOUT the hypothesis
  `CfgB` for every terminal description in `XtermLike` (the 41 database entries; also those entries after LookupTerminfo
  has added the direct-colour strings, `tiDirect_xl`), for the configuration the driver builds (`drawCfgOf`/`renderCfgOf`).
  `CapsFx` is proved for the class in `Lemmas/LayerBXtermFx.lean` (`xl_capsFx`): `xl_goto_effect` (`cup` with or without
  `$<5>` / `$<10>`), `xl_setPen_effect` (the whole style block for EVERY style without hyperlink: sgr0 in nine forms, sendFgBg
  with default / reset (`op` in five forms) / palette / direct / fitted colours through setaf, setab, setfgbg in five families of
  spellings, the three RGB strings, or — monochrome — nothing but a flip of reverse video; bold, underline colour indexed / direct / reset + smul + the
  four underline styles, reverse, blink, dim, italic, strike — each possibly absent or padded —, OSC 8 off where the screen has
  hyperlink strings → pen = `penOf rc s` exactly), `xl_hide_effect` (two `civis` forms), `xl_show_effect` (five `cnorm` forms or
  none + DECSCUSR for cursor styles 0…6), `xl_clear_effect` (sgr0 + OSC 8 off + colours + either `clear` form, padded or not:
  every cell a known blank with the style's background, cursor home).  Non-vacuity: `bDemo`, `bDirect` (xterm-256color), `bVt`
  (vt100: monochrome, padded, no civis, no OSC 8) — kernel-evaluated emulator grids.

* **the bottom-right corner trick at the level of bytes** (`Lemmas/LayerBCmd.lean`, `LayerBAdmit.lean`, `LayerBCorner.lean`):
  `sim_insertChar` — the simulation step for `Cmd.insertChar` (`ich1` = `CSI @` = ICH on the emulator vs `ATerm.insertAt`) in the
  situation the trick creates (`AdmitIch`); it is a case of `sim_cmd` now (`Admit .insertChar`), and `corner_step` / `draw_admits` prove
  that every `ich1` of every draw of every history is issued in that situation (cursor in column `w-2` on the narrow glyph just
  written, on a screen of at least two columns): so `rep_reach`, `show_faithful_bytes_partial`, `sync_faithful_bytes_partial`,
  `output_wellformed_partial` no longer ask `c.Plain` but `c.Walk` (`cornerTrick` arbitrary) + `IchFx` + Layer A's history side
  condition `World.SafeRun` (vacuous without the trick).  **`cl_show_faithful_bytes`, `cl_sync_faithful_bytes`,
  `cl_output_wellformed`, `cl_rep_after`** — the headline statements for every description in `CornerLike`, and their database
  instances **`db_show_faithful_bytes_corner`, `db_sync_faithful_bytes_corner`, `db_output_wellformed_corner`** for beterm, cygwin,
  sun, sun-color.  To admit the last three the class `CapsOk` was widened by forms, not by names: `op` spelled as a full SGR reset
  (`CSI m`, `CSI 0 m`: sendFgBg writes `op` right after `sgr0`, `PenReset`), no `smul` (nothing is underlined: `ulStyleOf`), `clear` =
  FF on a terminal that clears on FF (`Quiet.ff`: the emulator is configured with `ffClears`, as a Sun console behaves; without it
  the tokenizer rejects the byte — `bSun`).  Non-vacuity: `bCyg`, `bCyg2` (a later Show that repaints only the bottom-right cell next
  to a wide rune covering column `w-2`), Sync on cygwin, `bSun` (Sync = FF), `bSunC`, `bBe` — kernel-evaluated emulator grids with the
  glyph in the bottom-right cell.  `corner_trick_bytes` / `cygwin_corner_bytes` (contributor AF) remain: the first half of the trick from
  ANY represented state.

The generic theorems keep the suffix `_partial` because they are relative to `CfgB`; for the `xl_`/`db_` theorems what remains
assumed / outside is:
  (1) `FitOk rc` — the colour-fitting function (go-colorful's nearest-colour search, an external function, parameter
      `RenderCfg.fit`) returns an entry of the screen's palette, if the screen has a palette (nothing on monochrome terminals).
      Nothing else is assumed about it: the theorem holds for whatever palette entry it picks, and `penOf` names that entry.
      `fitOk_findColor` / `xl_fitOk_findColor`: tcell's own `FindColor` scan (model `Color.findColor`) over the screen's
      palette satisfies it for ANY colour distance, so what is really assumed is only that the `fit` table the model is run
      with is that scan (checked per run by the correspondence).
  (2) hyperlinks (`Style.url ≠ ""`) and cursor-colour requests are outside the domain (`OpB`); terminals outside `XtermLike` and
      `CornerLike` (4 database entries, see `db_outside`) are covered only by the generic `_partial` theorems; on the four
      corner-trick entries the statements are about histories satisfying `World.SafeRun` (at every draw: at least two columns, no
      locked cell in the last row — Layer A's side condition, needed there: `Props.C01.corner_trick_lock_desync`).
  (3) the bytes written by Init (engage) are not modelled here: the emulator state `e0` at the start is any state with
      the parser in the ground state, UTF-8, no alternate character set, replace mode and no complaint (`Good`) that is `Quiet`:
      on a terminal for which the screen has no hyperlink strings no hyperlink is active, on a terminal without `civis`/`cnorm`
      the cursor is visible, a terminal whose `clear` is FF clears on FF (vacuous for entries that have both strings and a CSI
      `clear`, e.g. the xterm family; true of `Term.init` with `ffClears` set accordingly, `quiet_init`).  The library
      cannot re-establish either — it writes nothing — so the environment move `corrupt` leaves the hyperlink state of such a
      terminal alone (`LayerB.corruptFor`; cursor visibility is never touched by `corrupt`).
  (4) `XtermLike` asks, beyond the standard forms, that the direct-colour strings come all three or not at all, that the
      indexed / direct underline-colour strings come together and that `civis` / `cnorm` come together (true of every entry and
      of what tcell synthesises; `penOf` would otherwise have to name which of the strings exist).
  (5) on a terminal without `civis` an off-screen cursor is not hidden but parked: `DisplaysBytes.parked` (the emulator's cursor
      is in the bottom-right cell), `DisplaysBytes.hidden` only speaks about terminals with `civis`.
-/
import Tcell.Lemmas.LayerBWorld
import Tcell.Lemmas.LayerBXterm
import Tcell.Lemmas.LayerBXtermFx
import Tcell.Lemmas.LayerBCorner
import Tcell.Props.C01
import Tcell.Props.C09
namespace Tcell.Props.C01B
open Tcell Tcell.LayerB Tcell.Spec.Ecma48

/-! ### the class over the regenerated database -/

/-- the 41 entries of the built-in database Layer B is proved for without side condition (no corner trick) -/
def layerBNames : List String :=
  ["aixterm", "alacritty", "alacritty-direct", "ansi", "dtterm", "eterm", "eterm-color", "foot", "gnome", "gnome-256color", "konsole",
   "konsole-256color", "kterm", "linux", "pcansi", "rxvt", "rxvt-256color", "rxvt-88color", "rxvt-unicode", "rxvt-unicode-256color",
   "screen", "screen-256color", "st", "st-256color", "tmux", "tmux-256color", "vt100", "vt102", "vt220", "vt320", "vt400",
   "vt420", "wy99-ansi", "wy99a-ansi", "xfce", "xterm", "xterm-256color", "xterm-88color", "xterm-direct", "xterm-ghostty",
   "xterm-kitty"]

/-- the corner-trick entries (auto-margin terminals with `ich1` and no way to switch auto-margin off) Layer B is proved for:
    the class `CornerLike` -/
def cornerNames : List String := ["beterm", "cygwin", "sun", "sun-color"]

/-- the entries outside both classes, by reason -/
def cornerTrickNames : List String := ["beterm", "cygwin", "sun", "sun-color"]
def cornerOutsideNames : List String := []
def nonEcmaNames : List String := ["hpterm", "vt52", "wy50", "wy60"]

set_option maxRecDepth 100000 in
/-- exactly these 41 of the 49 entries of the built-in database are in the class `XtermLike`.  Compared with the 22 entries of
the xterm family the class started with, it now admits: descriptions for which the library derives no hyperlink strings
(no mouse / xterm flag: dtterm, ansi, eterm(-color), vt100…vt420, wy99(a)-ansi; the linux console), no `civis`/`cnorm`
(ansi, eterm(-color), kterm, vt100, vt102: the cursor is parked at the bottom-right corner instead), no colours at all
(eterm, vt100…vt420, wy99(a)-ansi: nothing is written for a colour, a dark foreground flips reverse video), `$<n>` padding
after `cup` / `sgr0` / `clear` / `smul` / `bold` / `rev` / `blink` (vt100, vt102, vt400, vt420, wy99(a)-ansi: TPuts strips it),
`civis`/`cnorm` with the linux console's `CSI ? n c`, `sgr0` with `CSI " q` (wy99) or `;10 … ESC ( B`, and the palette
strings `%p1%{30}%+%d` (eterm-color), always-`38;5;n` (rxvt-unicode(-256color)) and `38:5:n` (foot); aixterm and pcansi, whose
`op` does not restore the default colours but SETS colours (`CSI 32 m CSI 40 m`, `CSI 37;40 m`): a style with `ColorReset`
is shown green / white on black there, and that is what `penOf` says (`opSel`, `fgSel`, `bgSel`).  Not in this class: the four
corner-trick entries (class `CornerLike`, `db_cornerLike`); hpterm, vt52, wy50, wy60 do not speak ECMA-48 (`db_outside`). -/
theorem db_layerB : (Gen.db.all fun e => XtermLike e == layerBNames.contains e.name) = true := by decide +kernel

set_option maxRecDepth 100000 in
/-- exactly the entries `cornerNames` of the built-in database are in the class `CornerLike` -/
theorem db_cornerLike : (Gen.db.all fun e => CornerLike e == cornerNames.contains e.name) = true := by decide +kernel

set_option maxRecDepth 100000 in
/-- the entries outside both classes are exactly the two named groups; the corner-trick entries (inside or outside) are exactly the
entries on which drawCell uses the trick; no entry is in both classes -/
theorem db_outside : (Gen.db.all fun e => (XtermLike e || CornerLike e) !=
    (cornerOutsideNames ++ nonEcmaNames).contains e.name) = true ∧
    (Gen.db.all fun e => cornerTrickNames.contains e.name == usesCornerTrick e) = true ∧
    (Gen.db.all fun e => !(XtermLike e && CornerLike e)) = true ∧
    (Gen.db.all fun e => cornerTrickNames.contains e.name == (cornerNames ++ cornerOutsideNames).contains e.name) = true := by
  refine ⟨?_, ?_, ?_, ?_⟩ <;> decide +kernel

theorem db_cornerLike' : ∀ e ∈ Gen.db, e.name ∈ cornerNames → CornerLike e = true := by
  intro e he hn
  have := List.all_eq_true.mp db_cornerLike e he
  have hc : cornerNames.contains e.name = true := by simpa using hn
  rw [hc] at this; simpa using this

theorem db_layerB' : ∀ e ∈ Gen.db, e.name ∈ layerBNames → XtermLike e = true := by
  intro e he hn
  have := List.all_eq_true.mp db_layerB e he
  have hc : layerBNames.contains e.name = true := by simpa using hn
  rw [hc] at this; simpa using this

/-! ### the rune-width table satisfies the Layer-B hypotheses -/

open Tcell.Props.C09 (rwTable)

/-- go-runewidth on Go's `rune` (int32) range; values a `rune` cannot hold have no width -/
def rwClip (r : Int) : Int := if -2147483648 ≤ r ∧ r ≤ 2147483647 then rwTable r else 0

/-- linear certificate: every listed range that meets [lo, hi] has width 0 and one listed range covers [lo, hi] -/
def zeroCert (lo hi : Int) : Bool :=
  Gen.rwRanges.all (fun p => decide (p.2.1 < lo) || decide (hi < p.1) || decide (p.2.2 = 0)) &&
  Gen.rwRanges.any (fun p => decide (p.1 ≤ lo) && decide (hi ≤ p.2.1))

theorem rwTable_zero_of_cert (lo hi : Int) (hc : zeroCert lo hi = true) (r : Int) (h1 : lo ≤ r) (h2 : r ≤ hi) : rwTable r = 0 := by
  simp only [zeroCert, Bool.and_eq_true, List.all_eq_true, List.any_eq_true, Bool.or_eq_true, decide_eq_true_eq] at hc
  obtain ⟨hall, q, hq, hq1, hq2⟩ := hc
  unfold rwTable
  cases hf : Gen.rwRanges.find? (fun p => p.1 ≤ r ∧ r ≤ p.2.1) with
  | none =>
    have := List.find?_eq_none.mp hf q hq
    simp at this; omega
  | some p =>
    have hp := List.mem_of_find?_eq_some hf
    have hpr := List.find?_some hf
    simp only [decide_eq_true_eq] at hpr
    rcases hall p hp with (h | h) | h
    · omega
    · omega
    · exact h

theorem cert_neg : zeroCert (-2147483648) (-1) = true := by decide +kernel
theorem cert_c1 : zeroCert 127 159 = true := by decide +kernel
theorem cert_sur : zeroCert 0xD800 0xDFFF = true := by decide +kernel
theorem cert_hi : zeroCert 0x110000 2147483647 = true := by decide +kernel
theorem table_ascii : ∀ k : Fin 95, rwTable (32 + (k.val : Int)) = 1 := by decide +kernel

theorem rwClip_ok : RwOk rwClip ∧ RwB rwClip := by
  have tk := Tcell.Props.C09.table_rwOk
  have hasc : ∀ b : Int, 32 ≤ b → b < 127 → rwClip b = 1 := by
    intro b h1 h2
    have := table_ascii ⟨(b - 32).toNat, by omega⟩
    have e : 32 + (((b - 32).toNat : Nat) : Int) = b := by omega
    simp only [e] at this
    unfold rwClip; rw [if_pos (by omega)]; exact this
  refine ⟨{ zero := ?_, space := hasc 32 (by decide) (by decide), nonneg := ?_, le2 := ?_ },
          { ascii := hasc, scalar := ?_, nonneg := ?_, le2 := ?_ }⟩
  · unfold rwClip; rw [if_pos (by decide)]; exact tk.zero
  · intro r; unfold rwClip; split
    · exact tk.nonneg r
    · omega
  · intro r; unfold rwClip; split
    · exact tk.le2 r
    · omega
  · intro r hr
    unfold rwClip at hr
    split at hr
    · rename_i hin
      have n1 : ¬ (r ≤ -1) := fun h => hr (rwTable_zero_of_cert _ _ cert_neg r hin.1 h)
      have n2 : ¬ (127 ≤ r ∧ r ≤ 159) := fun h => hr (rwTable_zero_of_cert _ _ cert_c1 r h.1 h.2)
      have n3 : ¬ (0xD800 ≤ r ∧ r ≤ 0xDFFF) := fun h => hr (rwTable_zero_of_cert _ _ cert_sur r h.1 h.2)
      have n4 : ¬ (0x110000 ≤ r) := fun h => hr (rwTable_zero_of_cert _ _ cert_hi r h hin.2)
      refine ⟨?_, n2⟩
      simp only [Utf8.validRune, decide_eq_true_eq]
      omega
    · exact absurd rfl hr
  · intro r; unfold rwClip; split
    · exact tk.nonneg r
    · omega
  · intro r; unfold rwClip; split
    · exact tk.le2 r
    · omega

/-! ### histories: the emulator grid shows the logical screen -/

variable {c : DrawCfg} {rc : RenderCfg}

theorem init_bwinv (w h : Int) (hs : SizeOk w h) : BWInv c (World.init w h) :=
  { b := { buf := BufB.resize (fun _ _ => cellB_default c.rw) w h, style := rfl, size := hs, ccol := ⟨(by decide : Color.valid 0 = false), (by decide : (0 : Nat) ≠ colorReset)⟩ },
    tty := hs }

theorem init_rep (w h : Int) (e0 : Term) (he : Good c.rw e0) (hq : Quiet rc e0) (hw : (e0.grid.w : Int) = w)
    (hh : (e0.grid.h : Int) = h) : Rep c rc e0 (World.init w h).t :=
  { good := he, quiet := hq, w := hw, h := hh, cells := fun _ _ _ _ => trivial, conts := fun _ _ _ => Or.inr rfl,
    cur := by intro x y h; simp [World.init] at h
    pen := by intro s h; simp [World.init] at h
    vis := by intro b h; simp [World.init] at h
    shape := by intro cs cc h; simp [World.init] at h }

/-- the byte-level world after a history, started on an emulator in any good state of the right size -/
def after (c : DrawCfg) (rc : RenderCfg) (w h : Int) (e0 : Term) (ops : List ScrOp) : BWorld :=
  (BWorld.mk (World.init w h) e0).run c rc ops

theorem after_wd (w h : Int) (e0 : Term) (ops : List ScrOp) : (after c rc w h e0 ops).wd = (World.init w h).run c ops :=
  run_wd c rc ops _

/-- **Rep after every history** (the simulation invariant, usable between Shows); `hsafe`: Layer A's side condition for the
bottom-right corner trick held at every draw (vacuous on terminals that do not use the trick, `World.SafeRun.of_plain`) -/
theorem rep_after_partial (hc : CfgB c rc) (w h : Int) (hs : SizeOk w h) (e0 : Term) (he : Good c.rw e0) (hq : Quiet rc e0)
    (hw : (e0.grid.w : Int) = w) (hh : (e0.grid.h : Int) = h) (ops : List ScrOp) (hv : ∀ op ∈ ops, op.Valid c ∧ OpB c op)
    (hsafe : World.SafeRun c (World.init w h) ops) :
    Rep c rc (after c rc w h e0 ops).e (after c rc w h e0 ops).wd.t :=
  rep_reach hc ops _ (init_inv hc.rwOk w h) (init_bwinv w h hs) (init_rep w h e0 he hq hw hh) hv hsafe

/-- **C09, draw histories**: whatever the history, the strict tokenizer of the reference emulator has accepted every
byte the model wrote (no complaint) and the stream ends in the ground state (every control sequence is complete). -/
theorem output_wellformed_partial (hc : CfgB c rc) (w h : Int) (hs : SizeOk w h) (e0 : Term) (he : Good c.rw e0) (hq : Quiet rc e0)
    (hw : (e0.grid.w : Int) = w) (hh : (e0.grid.h : Int) = h) (ops : List ScrOp) (hv : ∀ op ∈ ops, op.Valid c ∧ OpB c op)
    (hsafe : World.SafeRun c (World.init w h) ops) :
    (after c rc w h e0 ops).e.malformed = [] ∧ (after c rc w h e0 ops).e.st = .ground :=
  let R := rep_after_partial hc w h hs e0 he hq hw hh ops hv hsafe
  ⟨R.good.mal, R.good.st⟩

/-- what the emulator grid shows for the cells Layer A's `Displays` speaks about: every clean unlocked cell (every cell the
draw loop visited is one, `Displays.cleaned`); `nl` = the repaired drawCell painted a wide rune as a blank of width 1 because
the next column is locked -/
structure DisplaysBytes (c : DrawCfg) (rc : RenderCfg) (b : BWorld) : Prop where
  cells : ∀ x y : Nat, b.wd.sw.s.cells.inRange x y → (b.wd.sw.s.cells.cells x y).lock = false →
    b.wd.sw.s.cells.dirty x y = false →
      ∃ st' nl, (b.e.grid.get x y).garbage = false ∧ (b.e.grid.get x y).cont = false ∧
        (b.e.grid.get x y).runes.flatMap Utf8.encode =
          (Scr.cellTextG c b.wd.sw.s.w x (obsMain c.rw (b.wd.sw.s.cells.cells x y).currMain) (b.wd.sw.s.cells.cells x y).currComb
            (obsWidth c.rw (b.wd.sw.s.cells.cells x y).currMain) nl).1 ∧
        (b.e.grid.get x y).pen = penOf rc st' ∧
        ((b.wd.sw.s.cells.cells x y).currStyle ≠ {} → st' = (b.wd.sw.s.cells.cells x y).currStyle) ∧
        ((b.wd.sw.s.cells.cells x y).currStyle = {} → ∀ d', b.wd.d = some d' → st' = d') ∧
        (nl = true → obsWidth c.rw (b.wd.sw.s.cells.cells x y).currMain > 1 →
          c.guardLocked = true ∧ b.wd.sw.s.cells.locked ((x : Int) + 1) y = true) ∧
        ((Scr.cellTextG c b.wd.sw.s.w x (obsMain c.rw (b.wd.sw.s.cells.cells x y).currMain) (b.wd.sw.s.cells.cells x y).currComb
            (obsWidth c.rw (b.wd.sw.s.cells.cells x y).currMain) nl).2 > 1 →
          (x : Int) + 1 < b.wd.sw.s.w → (b.e.grid.get (x + 1) y).cont = true ∧ (b.e.grid.get (x + 1) y).garbage = false)
  cursor : b.wd.sw.s.cells.inRange b.wd.sw.s.cursorx b.wd.sw.s.cursory →
    b.e.cursorKnown = true ∧ (b.e.cx : Int) = b.wd.sw.s.cursorx ∧ (b.e.cy : Int) = b.wd.sw.s.cursory ∧
    b.e.pendingWrap = false ∧ b.e.modes.cursorVisible = true
  hidden : ¬ b.wd.sw.s.cells.inRange b.wd.sw.s.cursorx b.wd.sw.s.cursory → c.hasHide = true → b.e.modes.cursorVisible = false
  /-- a terminal without a hide-cursor string: the cursor is parked in the bottom-right cell (tscreen.go:1041) -/
  parked : ¬ b.wd.sw.s.cells.inRange b.wd.sw.s.cursorx b.wd.sw.s.cursory → c.hasHide = false →
    0 < b.wd.sw.s.w → 0 < b.wd.sw.s.h →
    b.e.cursorKnown = true ∧ (b.e.cx : Int) = b.wd.sw.s.w - 1 ∧ (b.e.cy : Int) = b.wd.sw.s.h - 1 ∧ b.e.pendingWrap = false

theorem displaysBytes_of (hc : CfgB c rc) {b : BWorld} {pre : Buf} (inv : WInv c b.wd) (R : Rep c rc b.e b.wd.t)
    (D : Displays c pre b.wd)
    (hsz : b.wd.sw.s.w = b.wd.sw.ttyw ∧ b.wd.sw.s.h = b.wd.sw.ttyh) : DisplaysBytes c rc b := by
  have hdim : ∀ x y : Int, b.wd.sw.s.cells.inRange x y → x < b.e.grid.w ∧ y < b.e.grid.h := by
    intro x y hr
    have := R.w; have := R.h; have := inv.tdim; have := inv.buf.cw; have := inv.buf.ch
    simp only [Buf.inRange_iff] at hr; omega
  refine { cells := ?_, cursor := ?_, hidden := ?_, parked := ?_ }
  · intro x y hr hl hdy
    obtain ⟨st', nl, hg, h1, h2, h4, h3⟩ := D.cells x y hr hl hdy
    have hd := hdim x y hr
    have cr := R.cells x y (by omega) (by omega)
    rw [hg] at cr
    simp only [shownOfG, CellRep] at cr
    refine ⟨st', nl, cr.2.1, cr.1, cr.2.2.1, cr.2.2.2, h1, h2, h4, ?_⟩
    intro hw hlt
    have hc' := h3 _ st' (by rw [hg]; simp only [shownOfG]; rw [decide_eq_true hw]) hlt
    have hx1 : x + 1 < b.e.grid.w := by have := R.w; have := inv.tdim; omega
    have cr2 := R.cells (x + 1) y hx1 (by omega)
    have e : (((x + 1 : Nat) : Int)) = (x : Int) + 1 := by omega
    rw [e, hc'] at cr2
    exact cr2
  · intro hr
    obtain ⟨hcur, hvis, _⟩ := D.cursor.1 hr
    have h0 : 0 ≤ b.wd.sw.s.cursorx ∧ 0 ≤ b.wd.sw.s.cursory := by simp only [Buf.inRange_iff] at hr; omega
    obtain ⟨ck, ccy, c1, _⟩ := R.cur _ _ hcur h0.1 h0.2
    obtain ⟨ccx, cpw⟩ := c1 (hdim _ _ hr).1
    exact ⟨ck, by omega, by omega, cpw, R.vis true hvis⟩
  · intro hr hh
    exact R.vis false ((D.cursor.2 hr).1 hh)
  · intro hr hh hw0 hh0
    have hcur := (D.cursor.2 hr).2 hh
    have ex : b.wd.t.clampX b.wd.sw.s.w = b.wd.sw.s.w - 1 := by
      unfold ATerm.clampX; have := inv.tdim; split <;> (try split) <;> omega
    have ey : b.wd.t.clampY b.wd.sw.s.h = b.wd.sw.s.h - 1 := by
      unfold ATerm.clampY; have := inv.tdim; split <;> (try split) <;> omega
    rw [ex, ey] at hcur
    obtain ⟨ck, ccy, c1, _⟩ := R.cur _ _ hcur (by omega) (by omega)
    have hgw : (b.e.grid.w : Int) = b.wd.sw.s.w := by have := R.w; have := inv.tdim; omega
    obtain ⟨ccx, cpw⟩ := c1 (by omega)
    exact ⟨ck, by omega, by omega, cpw⟩

theorem draw_size (s : Scr) : (s.draw c).1.w = s.w ∧ (s.draw c).1.h = s.h :=
  ⟨(draw_rel c s).1.w, (draw_rel c s).1.h⟩

theorem show_size {wd : World} (inv : WInv c wd) :
    (wd.step c .show).sw.s.w = (wd.step c .show).sw.ttyw ∧ (wd.step c .show).sw.s.h = (wd.step c .show).sw.ttyh := by
  have hf := inv.fini
  have e : (wd.step c .show).sw = { wd.sw with s := ((wd.sw.s.resize (some (wd.sw.ttyw, wd.sw.ttyh))).draw c).1 } := by
    simp only [World.step, ScrW.step, Scr.show, hf, Bool.false_eq_true, if_false]; split <;> rfl
  rw [e]; simp only [(draw_size _).1, (draw_size _).2]
  unfold Scr.resize; simp only
  split
  · rename_i h; exact ⟨h.1.symm, h.2.symm⟩
  · exact ⟨rfl, rfl⟩

theorem sync_size (hrw : RwOk c.rw) {wd : World} (inv : WInv c wd) :
    (wd.step c .sync).sw.s.w = (wd.step c .sync).sw.ttyw ∧ (wd.step c .sync).sw.s.h = (wd.step c .sync).sw.ttyh := by
  have hf := inv.fini
  have e : (wd.step c .sync).sw = { wd.sw with s := ((wd.sw.s.prepSync (some (wd.sw.ttyw, wd.sw.ttyh))).draw c).1 } := by
    simp only [World.step, ScrW.step, Scr.sync, hf, Bool.false_eq_true, if_false]
  obtain ⟨_, _, e1, e2, _⟩ := (prep_ok hrw wd.sw.s wd.sw.ttyw wd.sw.ttyh inv.buf inv.fini inv.clear).1
  rw [e]; simp only [(draw_size _).1, (draw_size _).2, e1, e2]; exact ⟨trivial, trivial⟩

theorem bwinv_after (hc : CfgB c rc) (w h : Int) (hs : SizeOk w h) (e0 : Term) (ops : List ScrOp)
    (hv : ∀ op ∈ ops, op.Valid c ∧ OpB c op) (hsafe : World.SafeRun c (World.init w h) ops) :
    BWInv c (after c rc w h e0 ops).wd := by
  have : ∀ (os : List ScrOp) (b0 : BWorld), WInv c b0.wd → BWInv c b0.wd → (∀ op ∈ os, op.Valid c ∧ OpB c op) →
      World.SafeRun c b0.wd os → BWInv c (b0.run c rc os).wd := by
    intro os
    induction os with
    | nil => intro b0 _ h _ _; exact h
    | cons o os ih =>
      intro b0 i0 h0 hv0 hs0
      have ho := hv0 o (List.mem_cons_self ..)
      exact ih (b0.step c rc o) (step_inv_c hc.rwOk hc.walk i0 o ho.1 hs0.1) (bwinv_step i0 h0 o ho.2)
        (fun o' h' => hv0 o' (List.mem_cons_of_mem _ h')) hs0.2
  exact this ops _ (init_inv hc.rwOk w h) (init_bwinv w h hs) hv hsafe

/-- **Show is faithful, at the level of bytes.**  After any valid history, if nothing outside the library has disturbed
the display since it was last completely repainted, or the window size changed and this Show notices it: the reference
emulator, having interpreted every byte the model wrote, shows in every unlocked visited cell exactly the payload last set
there with the SGR state its style denotes (wide runes with their continuation cell, a blank for a wide rune in the last
column), the cursor is at the requested cell and visible — or invisible if that cell is off-screen.  On a terminal that needs
the bottom-right corner trick this includes the bottom-right cell (written one column early and pushed into place with `ich1`);
`hsafe` is Layer A's side condition along the history and for this Show (at least two columns, no locked cell in the last row
whenever the library draws; vacuous on terminals that do not use the trick). -/
theorem show_faithful_bytes_partial (hc : CfgB c rc) (w h : Int) (hs : SizeOk w h) (e0 : Term) (he : Good c.rw e0) (hq : Quiet rc e0)
    (hw : (e0.grid.w : Int) = w) (hh : (e0.grid.h : Int) = h) (ops : List ScrOp) (hv : ∀ op ∈ ops, op.Valid c ∧ OpB c op)
    (hsafe : World.SafeRun c (World.init w h) (ops ++ [.show])) :
    let b := after c rc w h e0 ops
    (b.wd.trusted = true ∨ ¬ (b.wd.sw.ttyw = b.wd.sw.s.w ∧ b.wd.sw.ttyh = b.wd.sw.s.h)) →
      DisplaysBytes c rc (b.step c rc .show) := by
  intro b htr
  obtain ⟨hs1, hs2⟩ := safeRun_split ops _ .show hsafe
  have hvA : ∀ op ∈ ops, op.Valid c := fun o ho => (hv o ho).1
  have hwd : b.wd = (World.init w h).run c ops := after_wd w h e0 ops
  rw [← hwd] at hs2
  have inv : WInv c b.wd := by rw [hwd]; exact reach_inv_c hc.rwOk hc.walk w h ops hvA hs1
  have bi : BWInv c b.wd := bwinv_after hc w h hs e0 ops hv hs1
  have R := rep_after_partial hc w h hs e0 he hq hw hh ops hv hs1
  have R' := rep_step hc inv bi R .show trivial hs2
  have inv' : WInv c (b.step c rc .show).wd := (show_step_c hc.rwOk hc.walk inv hs2).1
  have D := (show_step_c hc.rwOk hc.walk inv hs2).2 htr
  exact displaysBytes_of hc inv' R' D (show_size inv)

/-- **Sync is faithful at the level of bytes, from arbitrary display contents** (no trust hypothesis). -/
theorem sync_faithful_bytes_partial (hc : CfgB c rc) (w h : Int) (hs : SizeOk w h) (e0 : Term) (he : Good c.rw e0) (hq : Quiet rc e0)
    (hw : (e0.grid.w : Int) = w) (hh : (e0.grid.h : Int) = h) (ops : List ScrOp) (hv : ∀ op ∈ ops, op.Valid c ∧ OpB c op)
    (hsafe : World.SafeRun c (World.init w h) (ops ++ [.sync])) :
    DisplaysBytes c rc ((after c rc w h e0 ops).step c rc .sync) := by
  obtain ⟨hs1, hs2⟩ := safeRun_split ops _ .sync hsafe
  have hv' : ∀ op ∈ ops ++ [ScrOp.sync], op.Valid c ∧ OpB c op := by
    intro o ho; rcases List.mem_append.1 ho with ho | ho
    · exact hv o ho
    · simp only [List.mem_singleton] at ho; subst ho; exact ⟨trivial, trivial⟩
  have hvA : ∀ op ∈ ops, op.Valid c := fun o ho => (hv o ho).1
  have e : (after c rc w h e0 ops).step c rc .sync = after c rc w h e0 (ops ++ [ScrOp.sync]) := by
    simp [after, BWorld.run, List.foldl_append]
  rw [← after_wd (c := c) (rc := rc) w h e0 ops] at hs2
  have inv : WInv c (after c rc w h e0 ops).wd := by rw [after_wd]; exact reach_inv_c hc.rwOk hc.walk w h ops hvA hs1
  have R := rep_after_partial hc w h hs e0 he hq hw hh (ops ++ [ScrOp.sync]) hv' hsafe
  rw [← e] at R
  exact displaysBytes_of hc (sync_step_c hc.rwOk hc.walk inv hs2).1 R (sync_step_c hc.rwOk hc.walk inv hs2).2.1
    (sync_size hc.rwOk inv)


/-! ### the class discharges the hypothesis `CfgB.fx`: byte-level theorems without `CapsFx` -/

/-- **`CfgB` for every `XtermLike` terminal description**: the only things left to assume are about the *configuration*, not
about the terminal — the rune-width function is well-behaved (`RwOk`, `RwB`: proved for the regenerated table, `rwClip_ok`),
the locale is UTF-8, the draw path does not use the corner trick and knows whether there is a hide-cursor string (both follow
from `XtermLike` for the configuration `drawCfgOf` the driver builds), and the external colour-fitting function returns palette
entries. -/
theorem cfgB_of_xtermlike (hx : XtermLike rc.ti = true) (hd : rc.d = derive rc.ti) (hfit : FitOk rc)
    (hrw : RwOk c.rw) (hrwB : RwB c.rw) (hp : Utf8Payload c) (hpl : c.Plain) (hh : c.hasHide = !rc.ti.hideCursor.isEmpty) :
    CfgB c rc :=
  { rwOk := hrw, rwB := hrwB, pay := hp, walk := hpl.walk, fx := xl_capsFx c (capsOk_of_xl hx) hd hfit hh,
    ich := fun h => by rw [hpl.ct] at h; cases h }

/-- the draw configuration of a terminal description in a UTF-8 locale with the regenerated width table, as the driver
builds it (Driver/Draw.lean `mkCfgs`); `lg`/`wg`/`fz` = which repairs of drawCell / Fill the tree under test has -/
def drawCfgOf (ti : Terminfo) (lg wg fz : Bool) : DrawCfg :=
  { rw := rwClip, payload := fun m comb => Utf8.encode m ++ comb.flatMap Utf8.encode, hasHide := !ti.hideCursor.isEmpty,
    hasCursorStyle := fun cs => match (derive ti).cursorStyles with | some l => cs < l.length | none => false,
    hasCursorRGB := !(derive ti).cursorRGB.isEmpty,
    cornerTrick := ti.autoMargin && ti.disableAutoMargin.isEmpty && !ti.insertChar.isEmpty,
    guardLocked := lg, walkGuard := wg, fillZW := fz }

/-- the render configuration of a terminal description (`mkCfgs`): `tc` = the application did not disable direct colour -/
def renderCfgOf (ti : Terminfo) (tc : Bool) (fit fit0 : Nat → Nat) : RenderCfg :=
  { ti := ti, d := derive ti, truecolor := tc && !(ti.setFgBgRGB.isEmpty && ti.setFgRGB.isEmpty && ti.setBgRGB.isEmpty),
    fit := fit, fit0 := fit0 }

theorem plain_of_ti (ti : Terminfo) (hx : XtermLike ti = true) (lg wg fz : Bool) (hwg : wg = true → lg = true) :
    (drawCfgOf ti lg wg fz).Plain := ⟨xl_noCorner hx, hwg⟩

theorem cfgB_of_ti (ti : Terminfo) (hx : XtermLike ti = true) (lg wg fz tc : Bool) (fit fit0 : Nat → Nat)
    (hwg : wg = true → lg = true) (hfit : FitOk (renderCfgOf ti tc fit fit0)) :
    CfgB (drawCfgOf ti lg wg fz) (renderCfgOf ti tc fit fit0) := by
  exact cfgB_of_xtermlike (c := drawCfgOf ti lg wg fz) (rc := renderCfgOf ti tc fit fit0) hx rfl hfit
    rwClip_ok.1 rwClip_ok.2 (fun _ _ => rfl) ⟨xl_noCorner hx, hwg⟩ rfl


/-- `FitOk` for the configuration of an `XtermLike` entry whose colour fit is tcell's `FindColor` over the screen's palette
(any colour distance): not an assumption about the library -/
theorem xl_fitOk_findColor {α : Type} (m : Color.Metric α) (ti : Terminfo) (tc : Bool) (fit0 : Nat → Nat) :
    FitOk (renderCfgOf ti tc (fun c => Color.findColor m c (screenPalette (renderCfgOf ti tc (fun _ => 0) fit0))) fit0) := by
  apply fitOk_findColor m
  intro c; rfl

section
variable (ti : Terminfo) (hx : XtermLike ti = true) (lg wg fz tc : Bool) (fit fit0 : Nat → Nat)
  (hwg : wg = true → lg = true) (hfit : FitOk (renderCfgOf ti tc fit fit0))
include hx hwg hfit

/-- **Show is faithful at the level of bytes on every `XtermLike` terminal** — `show_faithful_bytes_partial` with the
hypothesis `CfgB` (in particular `CapsFx`) discharged.  For every terminal description of the class, every variant of the
draw path (`lg`, `wg`, `fz`), direct colour on or off, every window size, every start state of the emulator with the parser
in the ground state, and every history of valid operations in the Layer-B domain (`OpB`: no hyperlink, no cursor colour):
the reference emulator fed exactly the bytes the byte-exact model writes shows after Show, in every unlocked visited cell,
the payload last set there with the SGR state `penOf` (colours, all attributes, underline style and colour) its style
denotes, wide runes with their continuation cell, the cursor where requested and visible. -/
theorem xl_show_faithful_bytes (w h : Int) (hs : SizeOk w h) (e0 : Term) (he : Good rwClip e0) (hq : Quiet (renderCfgOf ti tc fit fit0) e0)
    (hw : (e0.grid.w : Int) = w) (hh : (e0.grid.h : Int) = h) (ops : List ScrOp)
    (hv : ∀ op ∈ ops, op.Valid (drawCfgOf ti lg wg fz) ∧ OpB (drawCfgOf ti lg wg fz) op) :
    let b := after (drawCfgOf ti lg wg fz) (renderCfgOf ti tc fit fit0) w h e0 ops
    (b.wd.trusted = true ∨ ¬ (b.wd.sw.ttyw = b.wd.sw.s.w ∧ b.wd.sw.ttyh = b.wd.sw.s.h)) →
      DisplaysBytes (drawCfgOf ti lg wg fz) (renderCfgOf ti tc fit fit0)
        (b.step (drawCfgOf ti lg wg fz) (renderCfgOf ti tc fit fit0) .show) :=
  show_faithful_bytes_partial (cfgB_of_ti ti hx lg wg fz tc fit fit0 hwg hfit) w h hs e0 he hq hw hh ops hv
    (World.SafeRun.of_plain (plain_of_ti ti hx lg wg fz hwg) _ _)

/-- **Sync is faithful at the level of bytes on every `XtermLike` terminal, from arbitrary display contents** -/
theorem xl_sync_faithful_bytes (w h : Int) (hs : SizeOk w h) (e0 : Term) (he : Good rwClip e0) (hq : Quiet (renderCfgOf ti tc fit fit0) e0)
    (hw : (e0.grid.w : Int) = w) (hh : (e0.grid.h : Int) = h) (ops : List ScrOp)
    (hv : ∀ op ∈ ops, op.Valid (drawCfgOf ti lg wg fz) ∧ OpB (drawCfgOf ti lg wg fz) op) :
    DisplaysBytes (drawCfgOf ti lg wg fz) (renderCfgOf ti tc fit fit0)
      ((after (drawCfgOf ti lg wg fz) (renderCfgOf ti tc fit fit0) w h e0 ops).step (drawCfgOf ti lg wg fz)
        (renderCfgOf ti tc fit fit0) .sync) :=
  sync_faithful_bytes_partial (cfgB_of_ti ti hx lg wg fz tc fit fit0 hwg hfit) w h hs e0 he hq hw hh ops hv
    (World.SafeRun.of_plain (plain_of_ti ti hx lg wg fz hwg) _ _)

/-- **C09 on every `XtermLike` terminal**: over every draw history the strict tokenizer accepts every byte and the stream
ends in the ground state -/
theorem xl_output_wellformed (w h : Int) (hs : SizeOk w h) (e0 : Term) (he : Good rwClip e0) (hq : Quiet (renderCfgOf ti tc fit fit0) e0)
    (hw : (e0.grid.w : Int) = w) (hh : (e0.grid.h : Int) = h) (ops : List ScrOp)
    (hv : ∀ op ∈ ops, op.Valid (drawCfgOf ti lg wg fz) ∧ OpB (drawCfgOf ti lg wg fz) op) :
    (after (drawCfgOf ti lg wg fz) (renderCfgOf ti tc fit fit0) w h e0 ops).e.malformed = [] ∧
      (after (drawCfgOf ti lg wg fz) (renderCfgOf ti tc fit fit0) w h e0 ops).e.st = .ground :=
  output_wellformed_partial (cfgB_of_ti ti hx lg wg fz tc fit fit0 hwg hfit) w h hs e0 he hq hw hh ops hv
    (World.SafeRun.of_plain (plain_of_ti ti hx lg wg fz hwg) _ _)

/-- the simulation invariant after every history, on every `XtermLike` terminal -/
theorem xl_rep_after (w h : Int) (hs : SizeOk w h) (e0 : Term) (he : Good rwClip e0) (hq : Quiet (renderCfgOf ti tc fit fit0) e0)
    (hw : (e0.grid.w : Int) = w) (hh : (e0.grid.h : Int) = h) (ops : List ScrOp)
    (hv : ∀ op ∈ ops, op.Valid (drawCfgOf ti lg wg fz) ∧ OpB (drawCfgOf ti lg wg fz) op) :
    Rep (drawCfgOf ti lg wg fz) (renderCfgOf ti tc fit fit0)
      (after (drawCfgOf ti lg wg fz) (renderCfgOf ti tc fit fit0) w h e0 ops).e
      (after (drawCfgOf ti lg wg fz) (renderCfgOf ti tc fit fit0) w h e0 ops).wd.t :=
  rep_after_partial (cfgB_of_ti ti hx lg wg fz tc fit fit0 hwg hfit) w h hs e0 he hq hw hh ops hv
    (World.SafeRun.of_plain (plain_of_ti ti hx lg wg fz hwg) _ _)
end

/-- **the headline for the built-in database**: for each of the 41 entries of the class (`layerBNames`) Show is faithful at the
level of bytes (no hypothesis on the terminal description left) -/
theorem db_show_faithful_bytes : ∀ e ∈ Gen.db, e.name ∈ layerBNames →
    ∀ (lg wg fz tc : Bool) (fit fit0 : Nat → Nat), (wg = true → lg = true) → FitOk (renderCfgOf e tc fit fit0) →
    ∀ (w h : Int), SizeOk w h → ∀ (e0 : Term), Good rwClip e0 → Quiet (renderCfgOf e tc fit fit0) e0 → (e0.grid.w : Int) = w → (e0.grid.h : Int) = h →
    ∀ (ops : List ScrOp), (∀ op ∈ ops, op.Valid (drawCfgOf e lg wg fz) ∧ OpB (drawCfgOf e lg wg fz) op) →
      let b := after (drawCfgOf e lg wg fz) (renderCfgOf e tc fit fit0) w h e0 ops
      (b.wd.trusted = true ∨ ¬ (b.wd.sw.ttyw = b.wd.sw.s.w ∧ b.wd.sw.ttyh = b.wd.sw.s.h)) →
        DisplaysBytes (drawCfgOf e lg wg fz) (renderCfgOf e tc fit fit0)
          (b.step (drawCfgOf e lg wg fz) (renderCfgOf e tc fit fit0) .show) :=
  fun e he hn lg wg fz tc fit fit0 hwg hfit w h hs e0 hg hq hw hh ops hv =>
    xl_show_faithful_bytes e (db_layerB' e he hn) lg wg fz tc fit fit0 hwg hfit w h hs e0 hg hq hw hh ops hv

theorem db_sync_faithful_bytes : ∀ e ∈ Gen.db, e.name ∈ layerBNames →
    ∀ (lg wg fz tc : Bool) (fit fit0 : Nat → Nat), (wg = true → lg = true) → FitOk (renderCfgOf e tc fit fit0) →
    ∀ (w h : Int), SizeOk w h → ∀ (e0 : Term), Good rwClip e0 → Quiet (renderCfgOf e tc fit fit0) e0 → (e0.grid.w : Int) = w → (e0.grid.h : Int) = h →
    ∀ (ops : List ScrOp), (∀ op ∈ ops, op.Valid (drawCfgOf e lg wg fz) ∧ OpB (drawCfgOf e lg wg fz) op) →
      DisplaysBytes (drawCfgOf e lg wg fz) (renderCfgOf e tc fit fit0)
        ((after (drawCfgOf e lg wg fz) (renderCfgOf e tc fit fit0) w h e0 ops).step (drawCfgOf e lg wg fz)
          (renderCfgOf e tc fit fit0) .sync) :=
  fun e he hn lg wg fz tc fit fit0 hwg hfit w h hs e0 hg hq hw hh ops hv =>
    xl_sync_faithful_bytes e (db_layerB' e he hn) lg wg fz tc fit fit0 hwg hfit w h hs e0 hg hq hw hh ops hv

theorem db_output_wellformed : ∀ e ∈ Gen.db, e.name ∈ layerBNames →
    ∀ (lg wg fz tc : Bool) (fit fit0 : Nat → Nat), (wg = true → lg = true) → FitOk (renderCfgOf e tc fit fit0) →
    ∀ (w h : Int), SizeOk w h → ∀ (e0 : Term), Good rwClip e0 → Quiet (renderCfgOf e tc fit fit0) e0 → (e0.grid.w : Int) = w → (e0.grid.h : Int) = h →
    ∀ (ops : List ScrOp), (∀ op ∈ ops, op.Valid (drawCfgOf e lg wg fz) ∧ OpB (drawCfgOf e lg wg fz) op) →
      (after (drawCfgOf e lg wg fz) (renderCfgOf e tc fit fit0) w h e0 ops).e.malformed = [] ∧
        (after (drawCfgOf e lg wg fz) (renderCfgOf e tc fit fit0) w h e0 ops).e.st = .ground :=
  fun e he hn lg wg fz tc fit fit0 hwg hfit w h hs e0 hg hq hw hh ops hv =>
    xl_output_wellformed e (db_layerB' e he hn) lg wg fz tc fit fit0 hwg hfit w h hs e0 hg hq hw hh ops hv

/-! ### corner-trick terminals: the class `CornerLike` -/

/-- **`CfgB` for every `CornerLike` terminal description** (the draw path uses the bottom-right insert-character trick, every
string is in the class, `ich1` is ICH), for the configuration the driver builds -/
theorem cfgB_of_cl (ti : Terminfo) (hx : CornerLike ti = true) (lg wg fz tc : Bool) (fit fit0 : Nat → Nat)
    (hwg : wg = true → lg = true) (hfit : FitOk (renderCfgOf ti tc fit fit0)) :
    CfgB (drawCfgOf ti lg wg fz) (renderCfgOf ti tc fit fit0) :=
  { rwOk := rwClip_ok.1, rwB := rwClip_ok.2, pay := fun _ _ => rfl, walk := ⟨hwg⟩,
    fx := xl_capsFx (drawCfgOf ti lg wg fz) (rc := renderCfgOf ti tc fit fit0) (capsOk_of_cl hx) rfl hfit rfl,
    ich := fun _ => ichFx_of (drawCfgOf ti lg wg fz) (renderCfgOf ti tc fit fit0) (cl_ich hx) }

theorem cl_cornerTrick (ti : Terminfo) (hx : CornerLike ti = true) (lg wg fz : Bool) : (drawCfgOf ti lg wg fz).cornerTrick = true :=
  cl_corner hx

section
variable (ti : Terminfo) (hx : CornerLike ti = true) (lg wg fz tc : Bool) (fit fit0 : Nat → Nat)
  (hwg : wg = true → lg = true) (hfit : FitOk (renderCfgOf ti tc fit fit0))
include hx hwg hfit

/-- **Show is faithful at the level of bytes on every `CornerLike` terminal, the bottom-right cell included.**  For every terminal
description of the class (auto-margin terminal that cannot switch auto-margin off, with an insert-character string that is ICH,
every other string in the standard forms), every variant of the draw path, every window size, every start state of the
emulator and every history of valid operations in the Layer-B domain along which Layer A's side condition holds (`World.SafeRun`:
whenever the library draws, the screen has at least two columns and no cell of its last row is locked): the reference emulator,
fed exactly the bytes the byte-exact model writes — among them, for the bottom-right cell, `cup (w-2, h-1)`, the style block, the
glyph, `cup (w-2, h-1)`, `ich1`, and the repaint of the cell that covers column `w-2` —, shows after Show in every unlocked visited
cell, THE BOTTOM-RIGHT CELL INCLUDED, the payload last set there with the SGR state `penOf` of its style; the cursor is where
requested and visible (or parked / hidden).  Nothing has scrolled: the cells of every other row are covered by the same statement. -/
theorem cl_show_faithful_bytes (w h : Int) (hs : SizeOk w h) (e0 : Term) (he : Good rwClip e0) (hq : Quiet (renderCfgOf ti tc fit fit0) e0)
    (hw : (e0.grid.w : Int) = w) (hh : (e0.grid.h : Int) = h) (ops : List ScrOp)
    (hv : ∀ op ∈ ops, op.Valid (drawCfgOf ti lg wg fz) ∧ OpB (drawCfgOf ti lg wg fz) op)
    (hsafe : World.SafeRun (drawCfgOf ti lg wg fz) (World.init w h) (ops ++ [.show])) :
    let b := after (drawCfgOf ti lg wg fz) (renderCfgOf ti tc fit fit0) w h e0 ops
    (b.wd.trusted = true ∨ ¬ (b.wd.sw.ttyw = b.wd.sw.s.w ∧ b.wd.sw.ttyh = b.wd.sw.s.h)) →
      DisplaysBytes (drawCfgOf ti lg wg fz) (renderCfgOf ti tc fit fit0)
        (b.step (drawCfgOf ti lg wg fz) (renderCfgOf ti tc fit fit0) .show) :=
  show_faithful_bytes_partial (cfgB_of_cl ti hx lg wg fz tc fit fit0 hwg hfit) w h hs e0 he hq hw hh ops hv hsafe

/-- **Sync is faithful at the level of bytes on every `CornerLike` terminal, from arbitrary display contents** -/
theorem cl_sync_faithful_bytes (w h : Int) (hs : SizeOk w h) (e0 : Term) (he : Good rwClip e0) (hq : Quiet (renderCfgOf ti tc fit fit0) e0)
    (hw : (e0.grid.w : Int) = w) (hh : (e0.grid.h : Int) = h) (ops : List ScrOp)
    (hv : ∀ op ∈ ops, op.Valid (drawCfgOf ti lg wg fz) ∧ OpB (drawCfgOf ti lg wg fz) op)
    (hsafe : World.SafeRun (drawCfgOf ti lg wg fz) (World.init w h) (ops ++ [.sync])) :
    DisplaysBytes (drawCfgOf ti lg wg fz) (renderCfgOf ti tc fit fit0)
      ((after (drawCfgOf ti lg wg fz) (renderCfgOf ti tc fit fit0) w h e0 ops).step (drawCfgOf ti lg wg fz)
        (renderCfgOf ti tc fit fit0) .sync) :=
  sync_faithful_bytes_partial (cfgB_of_cl ti hx lg wg fz tc fit fit0 hwg hfit) w h hs e0 he hq hw hh ops hv hsafe

/-- **C09 on every `CornerLike` terminal**: over every draw history (side condition as above) the strict tokenizer accepts every
byte — the `ich1` of the corner trick included — and the stream ends in the ground state -/
theorem cl_output_wellformed (w h : Int) (hs : SizeOk w h) (e0 : Term) (he : Good rwClip e0) (hq : Quiet (renderCfgOf ti tc fit fit0) e0)
    (hw : (e0.grid.w : Int) = w) (hh : (e0.grid.h : Int) = h) (ops : List ScrOp)
    (hv : ∀ op ∈ ops, op.Valid (drawCfgOf ti lg wg fz) ∧ OpB (drawCfgOf ti lg wg fz) op)
    (hsafe : World.SafeRun (drawCfgOf ti lg wg fz) (World.init w h) ops) :
    (after (drawCfgOf ti lg wg fz) (renderCfgOf ti tc fit fit0) w h e0 ops).e.malformed = [] ∧
      (after (drawCfgOf ti lg wg fz) (renderCfgOf ti tc fit fit0) w h e0 ops).e.st = .ground :=
  output_wellformed_partial (cfgB_of_cl ti hx lg wg fz tc fit fit0 hwg hfit) w h hs e0 he hq hw hh ops hv hsafe

/-- the simulation invariant after every history, on every `CornerLike` terminal -/
theorem cl_rep_after (w h : Int) (hs : SizeOk w h) (e0 : Term) (he : Good rwClip e0) (hq : Quiet (renderCfgOf ti tc fit fit0) e0)
    (hw : (e0.grid.w : Int) = w) (hh : (e0.grid.h : Int) = h) (ops : List ScrOp)
    (hv : ∀ op ∈ ops, op.Valid (drawCfgOf ti lg wg fz) ∧ OpB (drawCfgOf ti lg wg fz) op)
    (hsafe : World.SafeRun (drawCfgOf ti lg wg fz) (World.init w h) ops) :
    Rep (drawCfgOf ti lg wg fz) (renderCfgOf ti tc fit fit0)
      (after (drawCfgOf ti lg wg fz) (renderCfgOf ti tc fit fit0) w h e0 ops).e
      (after (drawCfgOf ti lg wg fz) (renderCfgOf ti tc fit fit0) w h e0 ops).wd.t :=
  rep_after_partial (cfgB_of_cl ti hx lg wg fz tc fit fit0 hwg hfit) w h hs e0 he hq hw hh ops hv hsafe
end

/-- **the headline for the corner-trick entries of the built-in database** (`cornerNames`): Show is faithful at the level of bytes,
the bottom-right cell included, with no hypothesis on the terminal description; what is assumed of the history is Layer A's side
condition `World.SafeRun` (decidable, `cornerSafeB`) -/
theorem db_show_faithful_bytes_corner : ∀ e ∈ Gen.db, e.name ∈ cornerNames →
    ∀ (lg wg fz tc : Bool) (fit fit0 : Nat → Nat), (wg = true → lg = true) → FitOk (renderCfgOf e tc fit fit0) →
    ∀ (w h : Int), SizeOk w h → ∀ (e0 : Term), Good rwClip e0 → Quiet (renderCfgOf e tc fit fit0) e0 → (e0.grid.w : Int) = w → (e0.grid.h : Int) = h →
    ∀ (ops : List ScrOp), (∀ op ∈ ops, op.Valid (drawCfgOf e lg wg fz) ∧ OpB (drawCfgOf e lg wg fz) op) →
      World.SafeRun (drawCfgOf e lg wg fz) (World.init w h) (ops ++ [.show]) →
      let b := after (drawCfgOf e lg wg fz) (renderCfgOf e tc fit fit0) w h e0 ops
      (b.wd.trusted = true ∨ ¬ (b.wd.sw.ttyw = b.wd.sw.s.w ∧ b.wd.sw.ttyh = b.wd.sw.s.h)) →
        DisplaysBytes (drawCfgOf e lg wg fz) (renderCfgOf e tc fit fit0)
          (b.step (drawCfgOf e lg wg fz) (renderCfgOf e tc fit fit0) .show) :=
  fun e he hn lg wg fz tc fit fit0 hwg hfit w h hs e0 hg hq hw hh ops hv hsafe =>
    cl_show_faithful_bytes e (db_cornerLike' e he hn) lg wg fz tc fit fit0 hwg hfit w h hs e0 hg hq hw hh ops hv hsafe

theorem db_sync_faithful_bytes_corner : ∀ e ∈ Gen.db, e.name ∈ cornerNames →
    ∀ (lg wg fz tc : Bool) (fit fit0 : Nat → Nat), (wg = true → lg = true) → FitOk (renderCfgOf e tc fit fit0) →
    ∀ (w h : Int), SizeOk w h → ∀ (e0 : Term), Good rwClip e0 → Quiet (renderCfgOf e tc fit fit0) e0 → (e0.grid.w : Int) = w → (e0.grid.h : Int) = h →
    ∀ (ops : List ScrOp), (∀ op ∈ ops, op.Valid (drawCfgOf e lg wg fz) ∧ OpB (drawCfgOf e lg wg fz) op) →
      World.SafeRun (drawCfgOf e lg wg fz) (World.init w h) (ops ++ [.sync]) →
      DisplaysBytes (drawCfgOf e lg wg fz) (renderCfgOf e tc fit fit0)
        ((after (drawCfgOf e lg wg fz) (renderCfgOf e tc fit fit0) w h e0 ops).step (drawCfgOf e lg wg fz)
          (renderCfgOf e tc fit fit0) .sync) :=
  fun e he hn lg wg fz tc fit fit0 hwg hfit w h hs e0 hg hq hw hh ops hv hsafe =>
    cl_sync_faithful_bytes e (db_cornerLike' e he hn) lg wg fz tc fit fit0 hwg hfit w h hs e0 hg hq hw hh ops hv hsafe

theorem db_output_wellformed_corner : ∀ e ∈ Gen.db, e.name ∈ cornerNames →
    ∀ (lg wg fz tc : Bool) (fit fit0 : Nat → Nat), (wg = true → lg = true) → FitOk (renderCfgOf e tc fit fit0) →
    ∀ (w h : Int), SizeOk w h → ∀ (e0 : Term), Good rwClip e0 → Quiet (renderCfgOf e tc fit fit0) e0 → (e0.grid.w : Int) = w → (e0.grid.h : Int) = h →
    ∀ (ops : List ScrOp), (∀ op ∈ ops, op.Valid (drawCfgOf e lg wg fz) ∧ OpB (drawCfgOf e lg wg fz) op) →
      World.SafeRun (drawCfgOf e lg wg fz) (World.init w h) ops →
      (after (drawCfgOf e lg wg fz) (renderCfgOf e tc fit fit0) w h e0 ops).e.malformed = [] ∧
        (after (drawCfgOf e lg wg fz) (renderCfgOf e tc fit fit0) w h e0 ops).e.st = .ground :=
  fun e he hn lg wg fz tc fit fit0 hwg hfit w h hs e0 hg hq hw hh ops hv hsafe =>
    cl_output_wellformed e (db_cornerLike' e he hn) lg wg fz tc fit fit0 hwg hfit w h hs e0 hg hq hw hh ops hv hsafe

/-! ### C09: cursor addressing is accepted by the strict tokenizer for ALL positions -/

/-- for every terminal whose strings are in the class (`CapsOk`: `XtermLike` and `CornerLike`) and every row and column a Go int can hold,
the bytes `TPuts(TGoto(col,row))` writes are accepted by the strict tokenizer (no complaint, complete sequence) — replaces the sampled
positions of `C09.param_caps_accepted_samples` for `cup`. -/
theorem cup_accepted_all_caps (hx : CapsOk rc.ti = true) (ff : Bool) (x y : Nat)
    (hx1 : (x : Int) + 1 < TParm.maxInt64) (hy1 : (y : Int) + 1 < TParm.maxInt64) :
    Tcell.Props.C09.accepts ff (Render.render rc (.goto x y)) = true := by
  unfold Tcell.Props.C09.accepts
  have g : Good (fun _ => 1) (Term.init { w := 4, h := 2, ffClears := ff }) := ⟨rfl, rfl, rfl, rfl, rfl, rfl, rfl, rfl⟩
  rw [xl_goto_effect hx g x y hx1 hy1]
  rfl

theorem cup_accepted_all (hx : XtermLike rc.ti = true) (ff : Bool) (x y : Nat)
    (hx1 : (x : Int) + 1 < TParm.maxInt64) (hy1 : (y : Int) + 1 < TParm.maxInt64) :
    Tcell.Props.C09.accepts ff (Render.render rc (.goto x y)) = true :=
  cup_accepted_all_caps (capsOk_of_xl hx) ff x y hx1 hy1

/-- … and on the four corner-trick entries (`CornerLike`) -/
theorem cup_accepted_all_corner (hx : CornerLike rc.ti = true) (ff : Bool) (x y : Nat)
    (hx1 : (x : Int) + 1 < TParm.maxInt64) (hy1 : (y : Int) + 1 < TParm.maxInt64) :
    Tcell.Props.C09.accepts ff (Render.render rc (.goto x y)) = true :=
  cup_accepted_all_caps (capsOk_of_cl hx) ff x y hx1 hy1

example : CornerLike Gen.e27 = true := by decide +kernel

/-! ### the hypotheses are satisfiable -/

/-- a freshly initialised emulator is `Quiet` for every terminal description: no hyperlink active, cursor visible — provided it
is configured to clear on FF where the description's `clear` is FF -/
theorem quiet_init (rc : RenderCfg) (cfg : Config)
    (hff : Tcell.Spec.TermCaps.stripPadding rc.ti.clear = [12] → cfg.ffClears = true) : Quiet rc (Term.init cfg) :=
  ⟨fun _ => ⟨rfl, rfl⟩, fun _ => rfl, hff⟩

example : SizeOk 80 24 := by unfold SizeOk TParm.maxInt64; omega
example : Good rwClip (Term.init { w := 80, h := 24, rw := rwClip }) := ⟨rfl, rfl, rfl, rfl, rfl, rfl, rfl, rfl⟩
example : OpB { rw := rwClip, payload := fun m comb => Utf8.encode m ++ comb.flatMap Utf8.encode, hasHide := true, cornerTrick := false, guardLocked := false }
    (.setContent 2 0 0x61 [0x301] {}) := ⟨by
      intro k hk; simp only [List.mem_singleton] at hk; subst hk
      exact ⟨by decide +kernel, by decide, by decide⟩, rfl⟩


/-! ### non-vacuity of the `XtermLike` theorems: xterm-256color, a coloured, underlined wide rune -/

/-- the regenerated `xterm-256color` entry, direct colour off, a (dummy) fitting function that always answers palette
entry 17, the tree as it is (locked-neighbour guard and Fill repair compiled in) -/
def rcDemo : RenderCfg := renderCfgOf Gen.e44 false (fun _ => 2^32 + 17) (fun _ => 2^32)
def dcDemo : DrawCfg := drawCfgOf Gen.e44 true false true
def e0Demo : Term := Term.init { w := 4, h := 2, rw := rwClip }
/-- palette red 196 on an RGB background (fitted: no direct colour here), bold, curly underline in palette colour 33 -/
def stDemo : Style := { fg := 2^32 + 196, bg := 2^33 + 2^32 + 0x102030, ulStyle := 3, ulColor := 2^32 + 33, attrs := 1 }
def opsDemo : List ScrOp := [.setContent 0 0 0x4e16 [] stDemo, .setContent 2 0 0x61 [0x301] {}, .showCursor 2 0]
def bDemo : BWorld := (after dcDemo rcDemo 4 2 e0Demo opsDemo).step dcDemo rcDemo .show

theorem e44_mem : Gen.e44 ∈ Gen.db := by simp [Gen.db]
theorem e44_name : Gen.e44.name ∈ layerBNames := by decide

theorem fitDemo : FitOk rcDemo := by
  intro _ col
  have : Render.nColors rcDemo = 256 := by decide
  have e : rcDemo.fit col = 2^32 + 17 := rfl
  rw [this, e]; omega

theorem opsDemo_ok : ∀ op ∈ opsDemo, op.Valid dcDemo ∧ OpB dcDemo op := by
  intro op hop
  simp only [opsDemo, List.mem_cons, List.not_mem_nil, or_false] at hop
  rcases hop with rfl | rfl | rfl
  · exact ⟨by simp [ScrOp.Valid, attrInvalid, stDemo], by simp, rfl⟩
  · refine ⟨by simp [ScrOp.Valid, attrInvalid], ?_, rfl⟩
    intro k hk; simp only [List.mem_singleton] at hk; subst hk
    exact ⟨by decide +kernel, by decide, by decide⟩
  · exact ⟨by simp [ScrOp.Valid], trivial⟩

/-- every hypothesis of `db_show_faithful_bytes` holds for this world -/
example : DisplaysBytes dcDemo rcDemo bDemo :=
  db_show_faithful_bytes Gen.e44 e44_mem e44_name true false true false _ _ (fun h => absurd h (by decide)) fitDemo 4 2
    (by unfold SizeOk TParm.maxInt64; omega) e0Demo ⟨rfl, rfl, rfl, rfl, rfl, rfl, rfl, rfl⟩ (quiet_init _ _ (by decide +kernel)) rfl rfl opsDemo
    opsDemo_ok (Or.inl (by decide +kernel))

set_option maxRecDepth 100000 in
/-- … and this is what the emulator grid shows (kernel evaluation of the emulator on the bytes of the model): the wide rune
with `SGR 0 ; 38;5;196 ; 48;5;17 ; 1 ; 58:5:33 ; 4 ; 4:3`, its continuation cell, the combining mark on `a`, the cursor -/
example : (bDemo.e.grid.get 0 0).runes = [0x4e16] ∧
    (bDemo.e.grid.get 0 0).pen = { fg := .idx 196, bg := .idx 17, bold := true, ul := 3, ulColor := .idx 33 } ∧
    (bDemo.e.grid.get 0 0).pen = penOf rcDemo stDemo ∧
    (bDemo.e.grid.get 0 0).garbage = false ∧ (bDemo.e.grid.get 1 0).cont = true ∧
    (bDemo.e.grid.get 2 0).runes = [0x61, 0x301] ∧ (bDemo.e.grid.get 2 0).pen = {} ∧
    (bDemo.e.cx, bDemo.e.cy) = (2, 0) ∧ bDemo.e.modes.cursorVisible = true ∧ bDemo.e.malformed = [] := by decide +kernel

/-- direct colour: the same entry after `terminfo.LookupTerminfo` has added the three RGB strings (COLORTERM=truecolor,
terminfo.go:799-816) is still in the class, and the RGB background reaches the emulator exactly -/
def tiDirect : Terminfo := { Gen.e44 with setFgRGB := setfRGB, setBgRGB := setbRGB, setFgBgRGB := setfbRGB }
theorem tiDirect_xl : XtermLike tiDirect = true := by decide +kernel
def rcDirect : RenderCfg := renderCfgOf tiDirect true (fun _ => 2^32 + 17) (fun _ => 2^32)
def dcDirect : DrawCfg := drawCfgOf tiDirect true false true
def bDirect : BWorld := (after dcDirect rcDirect 4 2 e0Demo opsDemo).step dcDirect rcDirect .show

set_option maxRecDepth 100000 in
example : (bDirect.e.grid.get 0 0).pen =
      { fg := .idx 196, bg := .rgb 0x10 0x20 0x30, bold := true, ul := 3, ulColor := .idx 33 } ∧
    (bDirect.e.grid.get 0 0).pen = penOf rcDirect stDemo ∧ bDirect.e.malformed = [] := by decide +kernel

/-! ### non-vacuity for the widened class: vt100 — monochrome, `$<n>` padding, no `civis`/`cnorm`, no hyperlink strings -/

def rcVt : RenderCfg := renderCfgOf Gen.e31 false (fun _ => 0) (fun c => if c = 2^32 + 4 then Render.colorBlack else Render.colorWhite)
def dcVt : DrawCfg := drawCfgOf Gen.e31 true false true
/-- navy (dark: `fit0` answers black, so reverse video is flipped) on red, bold, underlined -/
def stVt : Style := { fg := 2^32 + 4, bg := 2^32 + 1, ulStyle := 1, attrs := 1 }
/-- the requested cursor position is off-screen: on this terminal the cursor is parked bottom-right -/
def opsVt : List ScrOp := [.setContent 0 0 0x4e16 [] stVt, .setContent 2 0 0x61 [0x301] {}, .showCursor 9 9]
def bVt : BWorld := (after dcVt rcVt 4 2 e0Demo opsVt).step dcVt rcVt .show

theorem e31_mem : Gen.e31 ∈ Gen.db := by simp [Gen.db]
theorem e31_name : Gen.e31.name ∈ layerBNames := by decide

/-- a monochrome screen has no palette: `FitOk` asks nothing -/
theorem fitVt : FitOk rcVt := fun h => absurd (by decide) h

theorem opsVt_ok : ∀ op ∈ opsVt, op.Valid dcVt ∧ OpB dcVt op := by
  intro op hop
  simp only [opsVt, List.mem_cons, List.not_mem_nil, or_false] at hop
  rcases hop with rfl | rfl | rfl
  · exact ⟨by simp [ScrOp.Valid, attrInvalid, stVt], by simp, rfl⟩
  · refine ⟨by simp [ScrOp.Valid, attrInvalid], ?_, rfl⟩
    intro k hk; simp only [List.mem_singleton] at hk; subst hk
    exact ⟨by decide +kernel, by decide, by decide⟩
  · exact ⟨by simp [ScrOp.Valid], trivial⟩

example : DisplaysBytes dcVt rcVt bVt :=
  db_show_faithful_bytes Gen.e31 e31_mem e31_name true false true false _ _ (fun h => absurd h (by decide)) fitVt 4 2
    (by unfold SizeOk TParm.maxInt64; omega) e0Demo ⟨rfl, rfl, rfl, rfl, rfl, rfl, rfl, rfl⟩ (quiet_init _ _ (by decide +kernel)) rfl rfl opsVt
    opsVt_ok (Or.inl (by decide +kernel))

set_option maxRecDepth 100000 in
/-- … and what the emulator shows: no colours, bold + underline + reverse video (flipped by the dark foreground), the cursor
parked in the bottom-right cell and still visible, not a byte of padding or of an OSC 8 in the stream (`malformed = []`) -/
example : (bVt.e.grid.get 0 0).runes = [0x4e16] ∧
    (bVt.e.grid.get 0 0).pen = { bold := true, ul := 1, reverse := true } ∧
    (bVt.e.grid.get 0 0).pen = penOf rcVt stVt ∧
    (bVt.e.grid.get 0 0).garbage = false ∧ (bVt.e.grid.get 1 0).cont = true ∧
    (bVt.e.grid.get 2 0).runes = [0x61, 0x301] ∧ (bVt.e.grid.get 2 0).pen = {} ∧
    (bVt.e.cx, bVt.e.cy) = (3, 1) ∧ bVt.e.modes.cursorVisible = true ∧ bVt.e.malformed = [] ∧
    Render.renderAll rcVt [.goto 0 0, .setPen stVt] = [27,91,49,59,49,72, 27,91,109,15, 27,91,49,109, 27,91,52,109, 27,91,55,109] := by
  decide +kernel

/-! ### the corner trick at the level of bytes: cygwin -/

set_option maxRecDepth 100000 in
/-- the entries whose strings are in the class (`CapsOk`) but which are not `XtermLike` are exactly the four corner-trick entries (since
the class admits `op` spelled as a full SGR reset, a missing `smul` and `clear` = FF: all four, not only cygwin); cygwin's `ich1` is `CSI @` -/
theorem db_corner_caps : (Gen.db.all fun e => (CapsOk e && !XtermLike e) == cornerNames.contains e.name) = true ∧
    Gen.e05.name = "cygwin" ∧ CapsOk Gen.e05 = true ∧ Tcell.Spec.TermCaps.stripPadding Gen.e05.insertChar = [27, 91, 64] := by
  decide +kernel

/-- the corner trick for the configuration the driver builds from a terminal description whose strings are in the class -/
theorem ti_corner_trick_bytes (ti : Terminfo) (hx : CapsOk ti = true)
    (hi : Tcell.Spec.TermCaps.stripPadding ti.insertChar = [27, 91, 64]) (lg wg fz tc : Bool) (fit fit0 : Nat → Nat)
    (hfit : FitOk (renderCfgOf ti tc fit fit0)) : CornerTrickFx (drawCfgOf ti lg wg fz) (renderCfgOf ti tc fit fit0) :=
  xl_corner_trick_bytes (dc := drawCfgOf ti lg wg fz) (rc := renderCfgOf ti tc fit fit0) rwClip_ok.2 hx rfl hfit rfl hi

/-- **the first half of the bottom-right corner trick on cygwin, at the level of bytes**, with no hypothesis about the terminal
description: from any emulator state that represents the abstract terminal, `goto (w-2, y); setPen s; put glyph; goto (w-2, y);
ich1` puts the glyph with its rendition into the last column; the cursor never enters the last column (no pending wrap) -/
theorem cygwin_corner_bytes (lg wg fz tc : Bool) (fit fit0 : Nat → Nat) (hfit : FitOk (renderCfgOf Gen.e05 tc fit fit0)) :
    CornerTrickFx (drawCfgOf Gen.e05 lg wg fz) (renderCfgOf Gen.e05 tc fit fit0) :=
  ti_corner_trick_bytes Gen.e05 db_corner_caps.2.2.1 db_corner_caps.2.2.2 lg wg fz tc fit fit0 hfit

/-! ### non-vacuity of the `CornerLike` history theorems: cygwin, an actual write to the bottom-right cell -/

def rcCyg : RenderCfg := renderCfgOf Gen.e05 false (fun _ => 2^32) (fun _ => 2^32)
def dcCyg : DrawCfg := drawCfgOf Gen.e05 true false true
/-- `a` in column 2 of the last row, a bold `x` in the bottom-right cell of a 4×2 screen -/
def opsCyg : List ScrOp := [.setContent 2 1 0x61 [] {}, .setContent 3 1 0x78 [] { attrs := 1 }]
def bCyg : BWorld := (after dcCyg rcCyg 4 2 e0Demo opsCyg).step dcCyg rcCyg .show

theorem e05_mem : Gen.e05 ∈ Gen.db := by simp [Gen.db]
theorem e05_name : Gen.e05.name ∈ cornerNames := by decide

theorem fitCyg : FitOk rcCyg := by
  intro _ col
  have : Render.nColors rcCyg = 8 := by decide
  have e : rcCyg.fit col = 2^32 := rfl
  rw [this, e]; omega

theorem opsCyg_ok : ∀ op ∈ opsCyg, op.Valid dcCyg ∧ OpB dcCyg op := by
  intro op hop
  simp only [opsCyg, List.mem_cons, List.not_mem_nil, or_false] at hop
  rcases hop with rfl | rfl
  · exact ⟨by simp [ScrOp.Valid, attrInvalid], by simp, rfl⟩
  · exact ⟨by simp [ScrOp.Valid, attrInvalid], by simp, rfl⟩

/-- Layer A's side condition along this history: two columns at least, no locked cell in the last row at the Show -/
theorem opsCyg_safe : World.SafeRun dcCyg (World.init 4 2) (opsCyg ++ [.show]) :=
  ⟨trivial, trivial, cornerSafe_of_B (by decide +kernel), trivial⟩

/-- every hypothesis of `db_show_faithful_bytes_corner` holds for this world -/
example : DisplaysBytes dcCyg rcCyg bCyg :=
  db_show_faithful_bytes_corner Gen.e05 e05_mem e05_name true false true false _ _ (fun h => absurd h (by decide)) fitCyg 4 2
    (by unfold SizeOk TParm.maxInt64; omega) e0Demo ⟨rfl, rfl, rfl, rfl, rfl, rfl, rfl, rfl⟩ (quiet_init _ _ (by decide +kernel)) rfl rfl opsCyg
    opsCyg_ok opsCyg_safe (Or.inl (by decide +kernel))

set_option maxRecDepth 100000 in
/-- … and what the emulator shows (kernel evaluation of the emulator on the bytes of the model): the trick is in use, the bold `x`
is in the bottom-right cell, `a` left of it, the cursor ended at home, nothing scrolled (row 0 still blank), no complaint -/
example : dcCyg.cornerTrick = true ∧
    (bCyg.e.grid.get 3 1).runes = [0x78] ∧ (bCyg.e.grid.get 3 1).pen = { bold := true } ∧ (bCyg.e.grid.get 3 1).garbage = false ∧
    (bCyg.e.grid.get 2 1).runes = [0x61] ∧ (bCyg.e.grid.get 2 1).pen = {} ∧ (bCyg.e.grid.get 2 1).garbage = false ∧
    (bCyg.e.grid.get 0 0).runes = [32] ∧ bCyg.e.pendingWrap = false ∧ bCyg.e.malformed = [] := by decide +kernel

/-- a later Show that repaints ONLY the bottom-right cell, next to a wide rune that covers column `w-2`: the trick writes `y` over
the right half of `世`, pushes it right with `ich1` and repaints the wide rune from its start column (`cornerPx`) -/
def opsCyg2 : List ScrOp :=
  [.setContent 1 1 0x4e16 [] {}, .setContent 3 1 0x78 [] { attrs := 1 }, .show, .setContent 3 1 0x79 [] { attrs := 4 }]
def bCyg2 : BWorld := (after dcCyg rcCyg 4 2 e0Demo opsCyg2).step dcCyg rcCyg .show

theorem opsCyg2_ok : ∀ op ∈ opsCyg2, op.Valid dcCyg ∧ OpB dcCyg op := by
  intro op hop
  simp only [opsCyg2, List.mem_cons, List.not_mem_nil, or_false] at hop
  rcases hop with rfl | rfl | rfl | rfl
  · exact ⟨by simp [ScrOp.Valid, attrInvalid], by simp, rfl⟩
  · exact ⟨by simp [ScrOp.Valid, attrInvalid], by simp, rfl⟩
  · exact ⟨trivial, trivial⟩
  · exact ⟨by simp [ScrOp.Valid, attrInvalid], by simp, rfl⟩

theorem opsCyg2_safe : World.SafeRun dcCyg (World.init 4 2) (opsCyg2 ++ [.show]) :=
  ⟨trivial, trivial, cornerSafe_of_B (by decide +kernel), trivial, cornerSafe_of_B (by decide +kernel), trivial⟩

example : DisplaysBytes dcCyg rcCyg bCyg2 :=
  db_show_faithful_bytes_corner Gen.e05 e05_mem e05_name true false true false _ _ (fun h => absurd h (by decide)) fitCyg 4 2
    (by unfold SizeOk TParm.maxInt64; omega) e0Demo ⟨rfl, rfl, rfl, rfl, rfl, rfl, rfl, rfl⟩ (quiet_init _ _ (by decide +kernel)) rfl rfl opsCyg2
    opsCyg2_ok opsCyg2_safe (Or.inl (by decide +kernel))

set_option maxRecDepth 100000 in
/-- the second Show wrote the corner trick and nothing else (between the two cursor parkings of a terminal without `civis`: `cup 2;3`,
style, `y`, `cup 2;3`, `CSI @`, `cup 2;2`, style, `世`, `cup 1;1`), and the emulator shows the reverse-video `y` bottom-right, the wide
rune intact, the cursor parked in the bottom-right cell with no wrap pending -/
example : (bCyg2.e.grid.get 3 1).runes = [0x79] ∧ (bCyg2.e.grid.get 3 1).pen = { reverse := true } ∧
    (bCyg2.e.grid.get 3 1).garbage = false ∧
    (bCyg2.e.grid.get 1 1).runes = [0x4e16] ∧ (bCyg2.e.grid.get 2 1).cont = true ∧ (bCyg2.e.grid.get 1 1).garbage = false ∧
    (bCyg2.e.grid.get 0 1).runes = [32] ∧ (bCyg2.e.grid.get 0 0).runes = [32] ∧
    (bCyg2.e.cx, bCyg2.e.cy) = (3, 1) ∧ bCyg2.e.pendingWrap = false ∧ bCyg2.e.malformed = [] ∧
    ((after dcCyg rcCyg 4 2 e0Demo opsCyg2).wd.sw.step dcCyg .show).2 =
      [.goto 4 2, .goto 2 1, .setPen { attrs := 4 }, .put [0x79] 1, .goto 2 1, .insertChar,
       .goto 1 1, .setPen {}, .put [0xe4, 0xb8, 0x96] 2, .goto 0 0, .goto 4 2] := by decide +kernel

/-- C09 on the same history (both Shows included): every hypothesis of `db_output_wellformed_corner` holds -/
def opsCyg3 : List ScrOp := opsCyg2 ++ [.show]

theorem opsCyg3_ok : ∀ op ∈ opsCyg3, op.Valid dcCyg ∧ OpB dcCyg op := by
  intro op hop
  rcases List.mem_append.1 hop with h | h
  · exact opsCyg2_ok op h
  · simp only [List.mem_singleton] at h; subst h; exact ⟨trivial, trivial⟩

example : (after dcCyg rcCyg 4 2 e0Demo opsCyg3).e.malformed = [] ∧ (after dcCyg rcCyg 4 2 e0Demo opsCyg3).e.st = .ground :=
  db_output_wellformed_corner Gen.e05 e05_mem e05_name true false true false (fun _ => 2^32) (fun _ => 2^32)
    (fun h => absurd h (by decide)) fitCyg 4 2
    (by unfold SizeOk TParm.maxInt64; omega) e0Demo ⟨rfl, rfl, rfl, rfl, rfl, rfl, rfl, rfl⟩ (quiet_init _ _ (by decide +kernel)) rfl rfl
    opsCyg3 opsCyg3_ok opsCyg2_safe

/-- `cup` for all positions on a corner-trick entry: the hypothesis of `cup_accepted_all_corner` holds for cygwin -/
example : Tcell.Props.C09.accepts false (Render.render rcCyg (.goto 100000 70000)) = true :=
  cup_accepted_all_corner (rc := rcCyg) (db_cornerLike' Gen.e05 e05_mem e05_name) false 100000 70000
    (by unfold TParm.maxInt64; omega) (by unfold TParm.maxInt64; omega)

/-- the state sendFgBg finds: right after SGR reset the pen is `PenReset` -/
example (t : Term) : PenReset (reset t) := ⟨rfl, rfl⟩

/-- Sync on the same history: every hypothesis of `db_sync_faithful_bytes_corner` holds -/
example : DisplaysBytes dcCyg rcCyg ((after dcCyg rcCyg 4 2 e0Demo opsCyg2).step dcCyg rcCyg .sync) :=
  db_sync_faithful_bytes_corner Gen.e05 e05_mem e05_name true false true false _ _ (fun h => absurd h (by decide)) fitCyg 4 2
    (by unfold SizeOk TParm.maxInt64; omega) e0Demo ⟨rfl, rfl, rfl, rfl, rfl, rfl, rfl, rfl⟩ (quiet_init _ _ (by decide +kernel)) rfl rfl opsCyg2
    opsCyg2_ok ⟨trivial, trivial, cornerSafe_of_B (by decide +kernel), trivial, cornerSafe_of_B (by decide +kernel), trivial⟩

/-! ### non-vacuity for the forms admitted for the other corner-trick entries: sun (`clear` = FF, monochrome, no `smul`),
sun-color (`op` = `CSI 0 m`, `38;5;n` palette strings, no `setfgbg`), beterm (`op` = `CSI m`) -/

def rcSun : RenderCfg := renderCfgOf Gen.e27 false (fun _ => 0) (fun _ => Render.colorWhite)
def dcSun : DrawCfg := drawCfgOf Gen.e27 true false true
/-- an emulator that clears on FF, as a Sun console does -/
def e0Sun : Term := Term.init { w := 4, h := 2, rw := rwClip, ffClears := true }
/-- reverse video, underlined: the description has no `smul`, so no underline is shown (`ulStyleOf`) -/
def stSun : Style := { ulStyle := 1, attrs := 4 }
def opsSun : List ScrOp := [.setContent 0 0 0x61 [] {}, .setContent 3 1 0x78 [] stSun]
/-- Sync: clearScreen writes FF -/
def bSun : BWorld := (after dcSun rcSun 4 2 e0Sun opsSun).step dcSun rcSun .sync

theorem e27_mem : Gen.e27 ∈ Gen.db := by simp [Gen.db]
theorem e27_name : Gen.e27.name ∈ cornerNames := by decide
theorem fitSun : FitOk rcSun := fun h => absurd (by decide) h

theorem opsSun_ok : ∀ op ∈ opsSun, op.Valid dcSun ∧ OpB dcSun op := by
  intro op hop
  simp only [opsSun, List.mem_cons, List.not_mem_nil, or_false] at hop
  rcases hop with rfl | rfl
  · exact ⟨by simp [ScrOp.Valid, attrInvalid], by simp, rfl⟩
  · exact ⟨by simp [ScrOp.Valid, attrInvalid, stSun], by simp, rfl⟩

example : DisplaysBytes dcSun rcSun bSun :=
  db_sync_faithful_bytes_corner Gen.e27 e27_mem e27_name true false true false _ _ (fun h => absurd h (by decide)) fitSun 4 2
    (by unfold SizeOk TParm.maxInt64; omega) e0Sun ⟨rfl, rfl, rfl, rfl, rfl, rfl, rfl, rfl⟩ (quiet_init _ _ (fun _ => rfl)) rfl rfl opsSun
    opsSun_ok ⟨trivial, trivial, cornerSafe_of_B (by decide +kernel), trivial⟩

set_option maxRecDepth 100000 in
/-- … the grid after the FF and the repaint: reverse video without underline in the bottom-right cell, `a` at home, blanks elsewhere, no
complaint; `clearScreen` wrote `CSI m` and FF and nothing else.  On an emulator that does NOT clear on FF the same bytes are rejected (the
hypothesis `Quiet.ff` is needed). -/
example : dcSun.cornerTrick = true ∧
    (bSun.e.grid.get 3 1).runes = [0x78] ∧ (bSun.e.grid.get 3 1).pen = { reverse := true } ∧
    (bSun.e.grid.get 3 1).pen = penOf rcSun stSun ∧ (bSun.e.grid.get 3 1).garbage = false ∧
    (bSun.e.grid.get 0 0).runes = [0x61] ∧ (bSun.e.grid.get 1 0).runes = [32] ∧ (bSun.e.grid.get 1 0).garbage = false ∧
    bSun.e.pendingWrap = false ∧ bSun.e.malformed = [] ∧
    Render.render rcSun (.clear {}) = [27, 91, 109, 12] ∧
    ((after dcSun rcSun 4 2 e0Demo opsSun).step dcSun rcSun .sync).e.malformed ≠ [] := by decide +kernel

def rcSunC : RenderCfg := renderCfgOf Gen.e28 false (fun _ => 2^32 + 17) (fun _ => 2^32)
def dcSunC : DrawCfg := drawCfgOf Gen.e28 true false true
/-- `ColorReset` foreground (so `op` = `CSI 0 m` is written) on palette colour 200, bold -/
def stSunC : Style := { fg := colorReset, bg := 2^32 + 200, attrs := 1 }
def opsSunC : List ScrOp := [.setContent 3 1 0x78 [] stSunC]
def bSunC : BWorld := (after dcSunC rcSunC 4 2 e0Sun opsSunC).step dcSunC rcSunC .show

theorem e28_mem : Gen.e28 ∈ Gen.db := by simp [Gen.db]
theorem e28_name : Gen.e28.name ∈ cornerNames := by decide
theorem fitSunC : FitOk rcSunC := by
  intro _ col
  have : Render.nColors rcSunC = 256 := by decide
  have e : rcSunC.fit col = 2^32 + 17 := rfl
  rw [this, e]; omega

theorem opsSunC_ok : ∀ op ∈ opsSunC, op.Valid dcSunC ∧ OpB dcSunC op := by
  intro op hop
  simp only [opsSunC, List.mem_cons, List.not_mem_nil, or_false] at hop
  subst hop
  exact ⟨by simp [ScrOp.Valid, attrInvalid, stSunC], by simp, rfl⟩

example : DisplaysBytes dcSunC rcSunC bSunC :=
  db_show_faithful_bytes_corner Gen.e28 e28_mem e28_name true false true false _ _ (fun h => absurd h (by decide)) fitSunC 4 2
    (by unfold SizeOk TParm.maxInt64; omega) e0Sun ⟨rfl, rfl, rfl, rfl, rfl, rfl, rfl, rfl⟩ (quiet_init _ _ (fun _ => rfl)) rfl rfl opsSunC
    opsSunC_ok ⟨trivial, cornerSafe_of_B (by decide +kernel), trivial⟩ (Or.inl (by decide +kernel))

set_option maxRecDepth 100000 in
example : (bSunC.e.grid.get 3 1).runes = [0x78] ∧ (bSunC.e.grid.get 3 1).pen = { bg := .idx 200, bold := true } ∧
    (bSunC.e.grid.get 3 1).pen = penOf rcSunC stSunC ∧ (bSunC.e.grid.get 3 1).garbage = false ∧ bSunC.e.malformed = [] ∧
    Render.render rcSunC (.setPen stSunC) = [27,91,109, 27,91,48,109, 27,91,52,56,59,53,59,50,48,48,109, 27,91,49,109] := by
  decide +kernel

def rcBe : RenderCfg := renderCfgOf Gen.e04 false (fun _ => 2^32) (fun _ => 2^32)
def dcBe : DrawCfg := drawCfgOf Gen.e04 true false true
/-- red on `ColorReset` (so `op` = `CSI m` is written), bold, reverse -/
def stBe : Style := { fg := 2^32 + 1, bg := colorReset, attrs := 5 }
def opsBe : List ScrOp := [.setContent 3 1 0x78 [] stBe]
def bBe : BWorld := (after dcBe rcBe 4 2 e0Demo opsBe).step dcBe rcBe .show

theorem e04_mem : Gen.e04 ∈ Gen.db := by simp [Gen.db]
theorem e04_name : Gen.e04.name ∈ cornerNames := by decide
theorem fitBe : FitOk rcBe := by
  intro _ col
  have : Render.nColors rcBe = 8 := by decide
  have e : rcBe.fit col = 2^32 := rfl
  rw [this, e]; omega

theorem opsBe_ok : ∀ op ∈ opsBe, op.Valid dcBe ∧ OpB dcBe op := by
  intro op hop
  simp only [opsBe, List.mem_cons, List.not_mem_nil, or_false] at hop
  subst hop
  exact ⟨by simp [ScrOp.Valid, attrInvalid, stBe], by simp, rfl⟩

example : DisplaysBytes dcBe rcBe bBe :=
  db_show_faithful_bytes_corner Gen.e04 e04_mem e04_name true false true false _ _ (fun h => absurd h (by decide)) fitBe 4 2
    (by unfold SizeOk TParm.maxInt64; omega) e0Demo ⟨rfl, rfl, rfl, rfl, rfl, rfl, rfl, rfl⟩ (quiet_init _ _ (by decide +kernel)) rfl rfl opsBe
    opsBe_ok ⟨trivial, cornerSafe_of_B (by decide +kernel), trivial⟩ (Or.inl (by decide +kernel))

set_option maxRecDepth 100000 in
example : (bBe.e.grid.get 3 1).runes = [0x78] ∧ (bBe.e.grid.get 3 1).pen = { fg := .idx 1, bold := true, reverse := true } ∧
    (bBe.e.grid.get 3 1).pen = penOf rcBe stBe ∧ (bBe.e.grid.get 3 1).garbage = false ∧ bBe.e.malformed = [] := by
  decide +kernel

/-- aixterm: `op` (`CSI 32 m CSI 40 m`) sets green on black, and `penOf` says so: a style with `ColorReset` as foreground -/
def rcAix : RenderCfg := renderCfgOf Gen.e00 false (fun _ => 2^32) (fun _ => 2^32)
example : Gen.e00.name = "aixterm" ∧ penOf rcAix { fg := colorReset } = { fg := .idx 2, bg := .idx 0 } ∧
    (e0Demo.feed (Render.render rcAix (.setPen { fg := colorReset }))).pen = penOf rcAix { fg := colorReset } ∧
    (e0Demo.feed (Render.render rcAix (.setPen { fg := colorReset, bg := 2^32 + 1 }))).pen = { fg := .idx 2, bg := .idx 1 } := by
  decide +kernel

end Tcell.Props.C01B
