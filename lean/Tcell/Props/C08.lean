/-
C08 — CellBuffer stores what was set and its dirty flag never misses a change.
Property theorems only (helpers are in Tcell.Lemmas.Cell).  All statements quantify over every buffer
size, coordinate, rune, combining list, style and, where a history is mentioned, every finite op list.
`rw` is the rune-width function (go-runewidth, regenerated table); nothing here depends on which one.
-/
import Tcell.Lemmas.Cell
namespace Tcell.Props.C08
open Tcell Tcell.Buf

variable (rw : Rune → Int)

/-! ### storage -/

/-- In range, SetContent stores rune and combining list as given and the style with the ColorNone merge
(a ColorNone foreground / background keeps the colour the cell had). -/
theorem set_stores (b : Buf) (x y : Int) (m : Rune) (c : List Rune) (s : Style) (h : b.inRange x y) :
    let c' := (b.setContent rw x y m c s).cells x y
    c'.currMain = m ∧ c'.currComb = c ∧
    c'.currStyle = { s with fg := if s.fg = colorNone then (b.cells x y).currStyle.fg else s.fg,
                            bg := if s.bg = colorNone then (b.cells x y).currStyle.bg else s.bg } := by
  simp only [setContent_cells, if_pos h, and_self, if_true, true_and, Cell.store_currMain, Cell.store_currComb,
    Cell.store_currStyle, Style.merge]
  rcases preDirty_cases b x y m c x y with e | e <;> rw [e] <;> simp

/-- GetContent after an in-range SetContent: the stored triple, with a blank of width 1 substituted when
the stored width is 0 or the rune is a C0 control. -/
theorem get_set (b : Buf) (x y : Int) (m : Rune) (c : List Rune) (s : Style) (h : b.inRange x y) :
    let b' := b.setContent rw x y m c s
    let cs := (b'.cells x y).currStyle
    let w := (b'.cells x y).width
    b'.getContent x y = if w = 0 ∨ m < 32 then (32, c, cs, 1) else (m, c, cs, w) := by
  have hs := set_stores rw b x y m c s h
  have hr : (b.setContent rw x y m c s).inRange x y := by simpa [inRange_iff] using h
  simp only [getContent, if_pos hr, hs.1, hs.2.1]

/-- Out-of-range writes are ignored. -/
theorem set_oob_noop (b : Buf) (x y : Int) (m : Rune) (c : List Rune) (s : Style) (h : ¬ b.inRange x y) :
    b.setContent rw x y m c s = b := by simp [setContent, h]

/-- Out-of-range reads return the zero rune with the default style (and width 0). -/
theorem get_oob (b : Buf) (x y : Int) (h : ¬ b.inRange x y) : b.getContent x y = (0, [], {}, 0) := by
  simp [getContent, h]

/-- SetContent changes the content (rune, combining, style), width and lock of no other cell. -/
theorem set_frame (b : Buf) (x y i j : Int) (m : Rune) (c : List Rune) (s : Style) (hne : ¬ (i = x ∧ j = y)) :
    let c' := (b.setContent rw x y m c s).cells i j
    let c0 := b.cells i j
    c'.content = c0.content ∧ c'.width = c0.width ∧ c'.lock = c0.lock := by
  simp only [setContent_cells, hne, if_false]
  split
  · rcases preDirty_cases b x y m c i j with e | e <;> rw [e] <;> simp
  · simp

/-- SetContent never changes the size. -/
theorem set_size (b : Buf) (x y : Int) (m : Rune) (c : List Rune) (s : Style) :
    (b.setContent rw x y m c s).size = b.size := by
  simp [size]

/-- Fill stores the rune with no combining runes in every cell, merging ColorNone per cell. -/
theorem fill_spec (b : Buf) (r : Rune) (s : Style) (x y : Int) :
    let c' := (b.fill r s).cells x y
    c'.currMain = r ∧ c'.currComb = [] ∧ c'.width = 1 ∧
    c'.currStyle = { s with fg := if s.fg = colorNone then (b.cells x y).currStyle.fg else s.fg,
                            bg := if s.bg = colorNone then (b.cells x y).currStyle.bg else s.bg } := by
  simp [Cell.filled, Style.merge]

/-- Resize preserves the content of the overlapping region and yields exactly the requested size. -/
theorem resize_overlap (b : Buf) (w h x y : Int) (hx : 0 ≤ x) (hy : 0 ≤ y)
    (h1 : x < w) (h2 : y < h) (h3 : x < b.w) (h4 : y < b.h) :
    ((b.resize w h).cells x y).content = (b.cells x y).content ∧
    ((b.resize w h).cells x y).width = (b.cells x y).width ∧ (b.resize w h).size = (w, h) := by
  refine ⟨?_, ?_, by simp [size, resize_w, resize_h]⟩
  · by_cases hh : b.h = h ∧ b.w = w
    · obtain ⟨ha, hb⟩ := hh; subst ha hb; rw [resize_same]
    · rw [resize_cells _ _ _ _ _ hh, if_pos ⟨hx, hy, h1, h2, h3, h4⟩]; simp
  · by_cases hh : b.h = h ∧ b.w = w
    · obtain ⟨ha, hb⟩ := hh; subst ha hb; rw [resize_same]
    · rw [resize_cells _ _ _ _ _ hh, if_pos ⟨hx, hy, h1, h2, h3, h4⟩]; simp

/-- Cells that an effective Resize adds are empty (zero rune, default style). -/
theorem resize_new_cells (b : Buf) (w h x y : Int) (hne : ¬ (b.h = h ∧ b.w = w)) (hnew : ¬ (x < b.w ∧ y < b.h)) :
    ((b.resize w h).cells x y).content = (0, [], {}) := by
  rw [resize_cells _ _ _ _ _ hne]
  have : ¬ (0 ≤ x ∧ 0 ≤ y ∧ x < w ∧ y < h ∧ x < b.w ∧ y < b.h) := by omega
  simp [this, Cell.content]

/-! ### reported width -/

/-- Width invariant of a cell: the stored width is that of the stored rune, or the cell was normalised
from the zero rune to a blank by SetDirty(false), or it was written by Fill (width 1 by fiat). -/
def WidthOk (c : Cell) : Prop := c.width = rw c.currMain ∨ (c.width = 0 ∧ c.currMain = 32) ∨ c.width = 1

theorem widthOk_step (h0 : rw 0 = 0) (b : Buf) (hb : ∀ x y, WidthOk rw (b.cells x y)) (op : CbOp) :
    ∀ i j, WidthOk rw ((b.apply rw op).cells i j) := by
  intro i j
  have hij := hb i j
  cases op with
  | setContent x y m c s =>
    simp only [Buf.apply, setContent_cells]
    have pre : WidthOk rw ((b.preDirty x y m c).cells i j) := by
      rcases preDirty_cases b x y m c i j with e | e <;> rw [e]
      · exact hij
      · simpa [WidthOk] using hij
    split
    · split
      · simp only [WidthOk, Cell.store_width, Cell.store_currMain] at pre ⊢
        by_cases hh : ((b.preDirty x y m c).cells i j).currMain = m
        · simp only [hh, ne_eq, not_true_eq_false, if_false]; rw [hh] at pre; exact pre
        · simp only [ne_eq, hh, not_false_eq_true, if_true]; left; trivial
      · exact pre
    · exact hij
  | fill r s => right; right; simp [Buf.apply]
  | resize w h =>
    simp only [Buf.apply]
    by_cases hh : b.h = h ∧ b.w = w
    · obtain ⟨ha, hb'⟩ := hh; subst ha hb'; rw [resize_same]; exact hij
    · rw [resize_cells _ _ _ _ _ hh]; split
      · simpa [WidthOk] using hij
      · left; simp [h0]
  | invalidate => simpa [Buf.apply, WidthOk] using hij
  | setDirty x y d =>
    cases d
    · simp only [Buf.apply, setDirty_false_cells]; split
      · simp only [WidthOk, Cell.markClean_width, Cell.markClean_currMain] at hij ⊢
        by_cases hz : (b.cells i j).currMain = 0
        · simp only [hz, if_true, and_true]
          rcases hij with h1 | h1 | h1
          · right; left; rw [h1, hz, h0]
          · exact absurd h1.2 (by rw [hz]; decide)
          · right; right; exact h1
        · simpa [hz] using hij
      · exact hij
    · simp only [Buf.apply, setDirty_true_cells]; split
      · simpa [WidthOk] using hij
      · exact hij
  | lockCell x y =>
    simp only [Buf.apply, lockCell_cells]; split
    · simpa [WidthOk] using hij
    · exact hij
  | unlockCell x y =>
    simp only [Buf.apply, unlockCell_cells]; split
    · simpa [WidthOk] using hij
    · exact hij

/-- For every history, every cell satisfies `WidthOk`, given `rw 0 = 0`
(a generated obligation on the regenerated width table). -/
theorem width_inv (h0 : rw 0 = 0) (ops : List CbOp) (x y : Int) :
    WidthOk rw ((Buf.run rw Buf.empty ops).cells x y) := by
  suffices H : ∀ (b : Buf), (∀ x y, WidthOk rw (b.cells x y)) → ∀ x y, WidthOk rw ((Buf.run rw b ops).cells x y) by
    apply H; intro x y; left; simp [Buf.empty, h0]
  induction ops with
  | nil => intro b hb; exact hb
  | cons op ops ih => intro b hb; exact ih _ (widthOk_step rw h0 b hb op)

/-- Reported width: for a cell not last written by Fill, GetContent's width is that of the rune, and a
blank of width 1 stands in for zero-width and control runes (`rw 32 = 1` is a generated obligation). -/
theorem reported_width (h32 : rw 32 = 1) (b : Buf) (x y : Int) (hr : b.inRange x y)
    (hw : (b.cells x y).width = rw (b.cells x y).currMain ∨ ((b.cells x y).width = 0 ∧ (b.cells x y).currMain = 32)) :
    ((b.getContent x y).2.2.2 =
      if rw (b.cells x y).currMain = 0 ∨ (b.cells x y).currMain < 32 then 1 else rw (b.cells x y).currMain) ∧
    ((b.getContent x y).1 =
      if rw (b.cells x y).currMain = 0 ∨ (b.cells x y).currMain < 32 then 32 else (b.cells x y).currMain) := by
  simp only [getContent, if_pos hr]
  rcases hw with hw | ⟨hw, hm⟩
  · rw [hw]; split <;> simp_all
  · simp [hw, hm, h32]

/-! ### dirty tracking over histories -/

/-- The link between the implementation's `last*` fields and the specification ghost. -/
def GhostInv (b : Buf) (g : Ghost) : Prop :=
  ∀ x y, b.inRange x y → (b.cells x y).lastMain ≠ 0 → g x y = some (b.cells x y).last

theorem ghostInv_step (b : Buf) (g : Ghost) (op : CbOp) (hinv : GhostInv b g) :
    GhostInv (b.apply rw op) (g.step b (b.apply rw op) op) := by
  intro i j hr hl
  cases op with
  | setContent x y m c s =>
    simp only [Buf.apply, Ghost.step] at hr hl ⊢
    have hri : b.inRange i j := by simpa [inRange_iff] using hr
    rw [setContent_cells] at hl ⊢
    by_cases hxy : b.inRange x y
    · rw [if_pos hxy] at hl ⊢
      rw [if_pos hxy]
      have key : ((b.preDirty x y m c).cells i j).lastMain ≠ 0 →
          (if (b.cells x y).width > 0 ∧ (m ≠ (b.cells x y).currMain ∨ c ≠ (b.cells x y).currComb) then
              fun i j => if j = y ∧ x ≤ i ∧ i < x + (b.cells x y).width then Option.none else g i j
            else g) i j = some ((b.preDirty x y m c).cells i j).last := by
        rw [preDirty_cells]
        intro hl'
        by_cases hc : (b.cells x y).width > 0 ∧ (m ≠ (b.cells x y).currMain ∨ c ≠ (b.cells x y).currComb)
        · rw [if_pos hc]
          by_cases hs : j = y ∧ x ≤ i ∧ i < x + (b.cells x y).width
          · exfalso
            rw [if_pos ⟨hc, hs.1, hs.2.1, hs.2.2, hri⟩] at hl'; simp at hl'
          · have hn : ¬ ((((b.cells x y).width > 0 ∧ (m ≠ (b.cells x y).currMain ∨ c ≠ (b.cells x y).currComb)) ∧
                j = y ∧ x ≤ i ∧ i < x + (b.cells x y).width ∧ b.inRange i j)) := fun h => hs ⟨h.2.1, h.2.2.1, h.2.2.2.1⟩
            rw [if_neg hn] at hl' ⊢
            simp only [hs, if_false]; exact hinv i j hri hl'
        · have hn : ¬ ((((b.cells x y).width > 0 ∧ (m ≠ (b.cells x y).currMain ∨ c ≠ (b.cells x y).currComb)) ∧
                j = y ∧ x ≤ i ∧ i < x + (b.cells x y).width ∧ b.inRange i j)) := fun h => hc h.1
          rw [if_neg hn] at hl' ⊢
          rw [if_neg hc]; exact hinv i j hri hl'
      split at hl
      · rename_i h2; rw [if_pos h2]; simp only [Cell.store_lastMain] at hl; rw [Cell.store_last]; exact key hl
      · rename_i h2; rw [if_neg h2]; exact key hl
    · rw [if_neg hxy] at hl ⊢; rw [if_neg hxy]; exact hinv i j hri hl
  | fill r s =>
    simp only [Buf.apply, Ghost.step, fill_cells, Cell.filled_lastMain, Cell.filled_last] at hr hl ⊢
    exact hinv i j (by simpa [inRange_iff] using hr) hl
  | resize w h =>
    simp only [Buf.apply, Ghost.step] at hr hl ⊢
    by_cases hh : b.h = h ∧ b.w = w
    · rw [if_pos hh]; obtain ⟨ha, hb'⟩ := hh; subst ha hb'; rw [resize_same] at hr hl ⊢; exact hinv i j hr hl
    · exfalso; rw [resize_cells _ _ _ _ _ hh] at hl; split at hl <;> simp at hl
  | invalidate => simp [Buf.apply] at hl
  | setDirty x y d =>
    simp only [Buf.apply, Ghost.step] at hr hl ⊢
    have hri : b.inRange i j := by simpa [inRange_iff] using hr
    cases d
    · simp only [setDirty_false_cells] at hl ⊢
      by_cases hxy : b.inRange x y
      · rw [if_pos hxy]
        by_cases he : i = x ∧ j = y
        · obtain ⟨h1, h2⟩ := he; subst h1 h2
          simp [hxy]
        · have : ¬ (i = x ∧ j = y ∧ b.inRange x y) := fun h => he ⟨h.1, h.2.1⟩
          rw [if_neg this] at hl ⊢; simp only [he, if_false]; exact hinv i j hri hl
      · have : ¬ (i = x ∧ j = y ∧ b.inRange x y) := fun h => hxy h.2.2
        rw [if_neg this] at hl ⊢; rw [if_neg hxy]; exact hinv i j hri hl
    · simp only [setDirty_true_cells] at hl ⊢
      by_cases hxy : b.inRange x y
      · rw [if_pos hxy]
        by_cases he : i = x ∧ j = y
        · exfalso
          rw [if_pos ⟨he.1, he.2, hxy⟩] at hl; simp at hl
        · have : ¬ (i = x ∧ j = y ∧ b.inRange x y) := fun h => he ⟨h.1, h.2.1⟩
          rw [if_neg this] at hl ⊢; simp only [he, if_false]; exact hinv i j hri hl
      · have : ¬ (i = x ∧ j = y ∧ b.inRange x y) := fun h => hxy h.2.2
        rw [if_neg this] at hl ⊢; rw [if_neg hxy]; exact hinv i j hri hl
  | lockCell x y =>
    simp only [Buf.apply, Ghost.step, lockCell_cells] at hr hl ⊢
    have hri : b.inRange i j := by simpa [inRange_iff] using hr
    split at hl
    · rename_i h2; rw [if_pos h2]; simp only [Cell.setLock_lastMain, Cell.setLock_last] at hl ⊢; exact hinv i j hri hl
    · rename_i h2; rw [if_neg h2]; exact hinv i j hri hl
  | unlockCell x y =>
    simp only [Buf.apply, Ghost.step, unlockCell_cells] at hr hl ⊢
    have hri : b.inRange i j := by simpa [inRange_iff] using hr
    split at hl
    · simp at hl
    · rename_i h2; rw [if_neg h2]
      by_cases hxy : b.inRange x y
      · rw [if_pos hxy]
        have : ¬ (i = x ∧ j = y) := fun h => h2 ⟨h.1, h.2, hxy⟩
        simp only [this, if_false]; exact hinv i j hri hl
      · rw [if_neg hxy]; exact hinv i j hri hl

theorem ghostInv_run (ops : List CbOp) (b : Buf) (g : Ghost) (h : GhostInv b g) :
    GhostInv (runGhost rw (b, g) ops).1 (runGhost rw (b, g) ops).2 := by
  induction ops generalizing b g with
  | nil => exact h
  | cons op ops ih => simp only [runGhost]; exact ih _ _ (ghostInv_step rw b g op h)

/-- the buffer component of the ghost run is the plain run -/
theorem runGhost_fst (ops : List CbOp) (b : Buf) (g : Ghost) : (runGhost rw (b, g) ops).1 = Buf.run rw b ops := by
  induction ops generalizing b g with
  | nil => rfl
  | cons op ops ih => simp only [runGhost, Buf.run, List.foldl_cons]; exact ih _ _

/-- **Dirty never misses a change.**  After any history from the empty buffer, if an in-range unlocked
cell is reported clean, the observer's snapshot from the last time it was marked clean exists and equals
the present rune, combining runes and style.  Contrapositive: content differing from what it was when
last marked clean — or an Invalidate / effective Resize / unlock / forced-dirty / wide-rune change over
that column since — makes Dirty true. -/
theorem dirty_sound (ops : List CbOp) (x y : Int) :
    let s := runGhost rw (Buf.empty, Ghost.none) ops
    s.1.inRange x y → (s.1.cells x y).lock = false → s.1.dirty x y = false →
      s.2 x y = some (s.1.cells x y).content := by
  intro s hr hl hd
  have hinv : GhostInv s.1 s.2 :=
    ghostInv_run rw ops _ _ (by intro x y hr; simp [Buf.empty, inRange_iff] at hr; omega)
  simp only [dirty, if_pos hr] at hd
  rw [Cell.isDirty_false_iff _ hl] at hd
  rw [hinv x y hr hd.1, hd.2]

/-- Right after SetDirty(x,y,false) the cell is reported clean. -/
theorem clean_after_setDirty_false (b : Buf) (x y : Int) : (b.setDirty x y false).dirty x y = false := by
  unfold dirty
  split
  · rename_i h
    have h' : b.inRange x y := by simpa [inRange_iff] using h
    simp only [setDirty_false_cells, h', and_self, if_true]
    cases hl : (b.cells x y).markClean.lock
    · rw [Cell.isDirty_false_iff _ hl]; exact ⟨Cell.markClean_lastMain_ne _, by simp⟩
    · unfold Cell.isDirty; rw [hl]; rfl
  · rfl

/-- A locked cell is reported clean whatever its content. -/
theorem locked_reports_clean (b : Buf) (x y : Int) (h : (b.cells x y).lock = true) : b.dirty x y = false := by
  unfold dirty; split <;> simp [Cell.isDirty, h]

/-- After Invalidate every unlocked in-range cell is dirty. -/
theorem dirty_after_invalidate (b : Buf) (x y : Int) (hr : b.inRange x y) (hl : (b.cells x y).lock = false) :
    b.invalidate.dirty x y = true := by
  have : b.invalidate.inRange x y := by simpa [inRange_iff] using hr
  simp [dirty, this, Cell.isDirty, hl]

/-- After an effective Resize every in-range cell is dirty (and unlocked). -/
theorem dirty_after_resize (b : Buf) (w h x y : Int) (hne : ¬ (b.h = h ∧ b.w = w))
    (hr : (b.resize w h).inRange x y) : (b.resize w h).dirty x y = true := by
  simp only [dirty, if_pos hr, resize_cells _ _ _ _ _ hne]
  split <;> simp [Cell.isDirty]

/-- After UnlockCell the cell is dirty. -/
theorem dirty_after_unlock (b : Buf) (x y : Int) (hr : b.inRange x y) : (b.unlockCell x y).dirty x y = true := by
  have h2 : (b.unlockCell x y).inRange x y := by simpa [inRange_iff] using hr
  simp [dirty, h2, unlockCell_cells, hr, Cell.isDirty]

/-- Changing the rune or combining list of a cell of (old) width k dirties every in-range, unlocked
column x … x+k−1 it covered. -/
theorem wide_change_dirties_span (b : Buf) (x y i : Int) (m : Rune) (c : List Rune) (s : Style)
    (hr : b.inRange x y) (hchg : m ≠ (b.cells x y).currMain ∨ c ≠ (b.cells x y).currComb)
    (hi : x ≤ i ∧ i < x + (b.cells x y).width) (hir : b.inRange i y) (hl : (b.cells i y).lock = false) :
    (b.setContent rw x y m c s).dirty i y = true := by
  have hw : (b.cells x y).width > 0 := by omega
  have hr' : (b.setContent rw x y m c s).inRange i y := by simpa [inRange_iff] using hir
  have hpre : (b.preDirty x y m c).cells i y = (b.cells i y).markDirty := by
    rw [preDirty_cells, if_pos ⟨⟨hw, hchg⟩, rfl, hi.1, hi.2, hir⟩]
  simp only [dirty, if_pos hr', setContent_cells, if_pos hr, hpre]
  split <;> simp [Cell.isDirty, hl]

/-! ### both trees: the pinned Fill and the Fill repaired by fixes/C09-fill-zero-width.patch

`Buf.applyV fz` / `Buf.runV fz` / `runGhostV fz` are the op semantics of the tree of variant `fz`
(`fz = false`: pinned, Fill stores every rune as given; `fz = true`: Fill stores a blank for a zero-width rune; width 1 on both).
The theorems above are about `fz = false` (`applyV_false`); the ones below hold for both. -/

theorem applyV_false (b : Buf) (op : CbOp) : b.applyV false rw op = b.apply rw op := by
  cases op <;> first | rfl | exact fillV_false rw b _ _

theorem runV_false (ops : List CbOp) (b : Buf) : Buf.runV false rw b ops = Buf.run rw b ops := by
  induction ops generalizing b with
  | nil => rfl
  | cons op ops ih =>
    show Buf.runV false rw (b.applyV false rw op) ops = Buf.run rw (b.apply rw op) ops
    rw [applyV_false]; exact ih _

/-- Fill of either tree stores a rune with no combining runes and width 1 in every cell, merging ColorNone per cell;
the rune is the one given, except that the repaired tree stores a blank for a zero-width rune. -/
theorem fillV_spec (fz : Bool) (b : Buf) (r : Rune) (s : Style) (x y : Int) :
    let c' := (b.fillV fz rw r s).cells x y
    c'.currMain = (if fz = true ∧ rw r = 0 then 32 else r) ∧ c'.currComb = [] ∧ c'.width = 1 ∧
    c'.currStyle = { s with fg := if s.fg = colorNone then (b.cells x y).currStyle.fg else s.fg,
                            bg := if s.bg = colorNone then (b.cells x y).currStyle.bg else s.bg } := by
  simp [Cell.filled, Cell.fillRune, Style.merge]

/-- **GetContent after the repaired Fill**, for EVERY rune (zero-width, control, wide, out of range): the rune with
a blank substituted exactly as after SetContent (`get_set`), no combining runes, the merged style, width 1. -/
theorem get_fill_repaired (b : Buf) (r : Rune) (s : Style) (x y : Int) (hr : b.inRange x y) :
    (b.fillV true rw r s).getContent x y =
      (if rw r = 0 ∨ r < 32 then 32 else r, [], (b.cells x y).currStyle.merge s, 1) := by
  have hr' : (b.fillV true rw r s).inRange x y := by simpa [inRange_iff] using hr
  simp only [getContent, if_pos hr', fillV_cells, Cell.filled]
  by_cases h0 : rw r = 0
  · simp [Cell.fillRune_true_zero rw r h0, h0]
  · by_cases h1 : r < 32 <;> simp [Cell.fillRune_ne0 true rw r h0, h0, h1]

/-- …whereas the pinned Fill hands back a zero-width rune at or above ' ' unblanked (the defect `C08-fill-zero-width` /
`C09-fill-control`; concrete instance: `Tcell.Props.C09.fill_c1_not_blank`). -/
theorem get_fill_pinned (b : Buf) (r : Rune) (s : Style) (x y : Int) (hr : b.inRange x y) :
    (b.fill r s).getContent x y = (if r < 32 then 32 else r, [], (b.cells x y).currStyle.merge s, 1) := by
  have hr' : (b.fill r s).inRange x y := by simpa [inRange_iff] using hr
  simp only [getContent, if_pos hr', fill_cells, Cell.filled]
  by_cases h1 : r < 32 <;> simp [h1]

/-- side condition of the reported-width law on an op: Fill is used with a rune of width 1 — or, on the repaired
tree, of width 0 (with `0 ≤ rw r`: with a rune *not wider than 1*, see `fillOk_repaired_iff`) -/
def FillOk (fz : Bool) : CbOp → Prop
  | .fill r _ => rw r = 1 ∨ (fz = true ∧ rw r = 0)
  | _ => True

theorem fillOk_repaired_iff (r : Rune) (s : Style) (hnn : 0 ≤ rw r) : FillOk rw true (.fill r s) ↔ rw r ≤ 1 := by
  simp only [FillOk, true_and]; omega

/-- the exact width invariant: the stored width is that of the stored rune, or the cell was normalised from the
zero rune to a blank by SetDirty(false) (= the hypothesis `hw` of `reported_width`; `WidthOk` without its "written by
Fill" disjunct) -/
def WidthExact (c : Cell) : Prop := c.width = rw c.currMain ∨ (c.width = 0 ∧ c.currMain = 32)

theorem widthExact_step (fz : Bool) (h0 : rw 0 = 0) (h32 : rw 32 = 1) (b : Buf) (hb : ∀ x y, WidthExact rw (b.cells x y)) (op : CbOp)
    (hop : FillOk rw fz op) : ∀ i j, WidthExact rw ((b.applyV fz rw op).cells i j) := by
  intro i j
  have hij := hb i j
  cases op with
  | setContent x y m c s =>
    simp only [Buf.applyV, Buf.apply, setContent_cells]
    have pre : WidthExact rw ((b.preDirty x y m c).cells i j) := by
      rcases preDirty_cases b x y m c i j with e | e <;> rw [e]
      · exact hij
      · simpa [WidthExact] using hij
    split
    · split
      · simp only [WidthExact, Cell.store_width, Cell.store_currMain] at pre ⊢
        by_cases hh : ((b.preDirty x y m c).cells i j).currMain = m
        · simp only [hh, ne_eq, not_true_eq_false, if_false]; rw [hh] at pre; exact pre
        · simp only [ne_eq, hh, not_false_eq_true, if_true]; left; trivial
      · exact pre
    · exact hij
  | fill r s =>
    simp only [Buf.applyV, fillV_cells, WidthExact, Cell.filled]
    left
    rcases hop with h | ⟨hf, h⟩
    · rw [Cell.fillRune_ne0 fz rw r (by omega), h]
    · subst hf; rw [Cell.fillRune_true_zero rw r h, h32]
  | resize w h =>
    simp only [Buf.applyV, Buf.apply]
    by_cases hh : b.h = h ∧ b.w = w
    · obtain ⟨ha, hb'⟩ := hh; subst ha hb'; rw [resize_same]; exact hij
    · rw [resize_cells _ _ _ _ _ hh]; split
      · simpa [WidthExact] using hij
      · left; simp [h0]
  | invalidate => simpa [Buf.applyV, Buf.apply, WidthExact] using hij
  | setDirty x y d =>
    cases d
    · simp only [Buf.applyV, Buf.apply, setDirty_false_cells]; split
      · simp only [WidthExact, Cell.markClean_width, Cell.markClean_currMain] at hij ⊢
        by_cases hz : (b.cells i j).currMain = 0
        · simp only [hz, if_true, and_true]
          rcases hij with h1 | h1
          · right; rw [h1, hz, h0]
          · exact absurd h1.2 (by rw [hz]; decide)
        · simpa [hz] using hij
      · exact hij
    · simp only [Buf.applyV, Buf.apply, setDirty_true_cells]; split
      · simpa [WidthExact] using hij
      · exact hij
  | lockCell x y =>
    simp only [Buf.applyV, Buf.apply, lockCell_cells]; split
    · simpa [WidthExact] using hij
    · exact hij
  | unlockCell x y =>
    simp only [Buf.applyV, Buf.apply, unlockCell_cells]; split
    · simpa [WidthExact] using hij
    · exact hij

theorem widthExact_inv (fz : Bool) (h0 : rw 0 = 0) (h32 : rw 32 = 1) (ops : List CbOp) (hops : ∀ op ∈ ops, FillOk rw fz op) (x y : Int) :
    WidthExact rw ((Buf.runV fz rw Buf.empty ops).cells x y) := by
  suffices H : ∀ (ops : List CbOp) (b : Buf), (∀ op ∈ ops, FillOk rw fz op) → (∀ x y, WidthExact rw (b.cells x y)) →
      ∀ x y, WidthExact rw ((Buf.runV fz rw b ops).cells x y) by
    apply H ops _ hops; intro x y; left; simp [Buf.empty, h0]
  intro ops
  induction ops with
  | nil => intro b _ hb; exact hb
  | cons op ops ih =>
    intro b ho hb
    exact ih _ (fun o h => ho o (List.mem_cons_of_mem _ h))
      (widthExact_step rw fz h0 h32 b hb op (ho op (List.mem_cons_self ..)))

/-- **The reported-width law, full strength, on either tree.**  After every history in which Fill is used with runes
of width 1 — on the repaired tree: with runes *not wider than one column*, zero-width, control and invalid ones
included (`fillOk_repaired_iff`) — GetContent of every in-range cell reports the width of the stored rune `m`, i.e.
`max 1 (rw m)`, with a blank of width 1 standing in for zero-width and control runes.  (Fill with a wide rune is
outside Fill's documented domain on both trees: it records width 1.) -/
theorem reported_width_law (fz : Bool) (h0 : rw 0 = 0) (h32 : rw 32 = 1) (ops : List CbOp)
    (hops : ∀ op ∈ ops, FillOk rw fz op) (x y : Int) (hr : (Buf.runV fz rw Buf.empty ops).inRange x y) :
    let b := Buf.runV fz rw Buf.empty ops
    let m := (b.cells x y).currMain
    ((b.getContent x y).2.2.2 = if rw m = 0 ∨ m < 32 then 1 else rw m) ∧
    ((b.getContent x y).1 = if rw m = 0 ∨ m < 32 then 32 else m) :=
  reported_width rw h32 _ x y hr (widthExact_inv rw fz h0 h32 ops hops x y)

/-- the ghost invariant is preserved by every op on either tree -/
theorem ghostInv_stepV (fz : Bool) (b : Buf) (g : Ghost) (op : CbOp) (hinv : GhostInv b g) :
    GhostInv (b.applyV fz rw op) (g.step b (b.applyV fz rw op) op) := by
  cases op with
  | fill r s =>
    intro i j hr hl
    simp only [Buf.applyV, Ghost.step, fillV_cells, Cell.filled_lastMain, Cell.filled_last] at hr hl ⊢
    exact hinv i j (by simpa [inRange_iff] using hr) hl
  | setContent x y m c s => exact ghostInv_step rw b g _ hinv
  | resize w h => exact ghostInv_step rw b g _ hinv
  | invalidate => exact ghostInv_step rw b g _ hinv
  | setDirty x y d => exact ghostInv_step rw b g _ hinv
  | lockCell x y => exact ghostInv_step rw b g _ hinv
  | unlockCell x y => exact ghostInv_step rw b g _ hinv

theorem ghostInv_runV (fz : Bool) (ops : List CbOp) (b : Buf) (g : Ghost) (h : GhostInv b g) :
    GhostInv (runGhostV fz rw (b, g) ops).1 (runGhostV fz rw (b, g) ops).2 := by
  induction ops generalizing b g with
  | nil => exact h
  | cons op ops ih => simp only [runGhostV]; exact ih _ _ (ghostInv_stepV rw fz b g op h)

/-- **Dirty never misses a change, on either tree** (`dirty_sound` is the instance `fz = false`). -/
theorem dirty_soundV (fz : Bool) (ops : List CbOp) (x y : Int) :
    let s := runGhostV fz rw (Buf.empty, Ghost.none) ops
    s.1.inRange x y → (s.1.cells x y).lock = false → s.1.dirty x y = false →
      s.2 x y = some (s.1.cells x y).content := by
  intro s hr hl hd
  have hinv : GhostInv s.1 s.2 :=
    ghostInv_runV rw fz ops _ _ (by intro x y hr; simp [Buf.empty, inRange_iff] at hr; omega)
  simp only [dirty, if_pos hr] at hd
  rw [Cell.isDirty_false_iff _ hl] at hd
  rw [hinv x y hr hd.1, hd.2]

/-! ### non-vacuity: a concrete 3×2 buffer with a wide rune exercises the hypotheses -/

def rwDemo : Rune → Int := fun r => if r = 0x4e16 then 2 else if r = 0 then 0 else 1

def demoOps : List CbOp :=
  [.resize 3 2, .setContent 0 0 0x4e16 [] {}, .setDirty 0 0 false, .setDirty 1 0 false,
   .setContent 0 0 0x61 [0x301] { fg := colorNone }]

example : (Buf.run rwDemo Buf.empty demoOps).inRange 1 0 := by decide
example : (Buf.run rwDemo Buf.empty demoOps).dirty 1 0 = true := by decide
example : (Buf.run rwDemo Buf.empty demoOps).dirty 0 0 = true := by decide
example : (Buf.run rwDemo Buf.empty (demoOps ++ [.setDirty 0 0 false])).dirty 0 0 = false := by decide
example : ((runGhost rwDemo (Buf.empty, Ghost.none) (demoOps ++ [.setDirty 0 0 false])).2 0 0) =
    some (0x61, [0x301], {}) := by decide

/-- the hypotheses of `reported_width_law` are satisfiable on the repaired tree with a zero-width Fill rune, and the two
trees differ exactly there -/
def rwDemoZ : Rune → Int := fun r => if r = 0x4e16 then 2 else if r = 0 ∨ r = 0x200b ∨ r = 0x9b then 0 else 1
def demoFill : List CbOp := [.resize 2 1, .fill 0x200b {}, .setContent 1 0 0x200b [0x301] {}]
example : ∀ op ∈ demoFill, FillOk rwDemoZ true op := by
  intro op h; simp only [demoFill, List.mem_cons, List.not_mem_nil, or_false] at h
  rcases h with h | h | h <;> subst h <;> simp [FillOk, rwDemoZ]
example : (Buf.runV true rwDemoZ Buf.empty demoFill).getContent 0 0 = (32, [], {}, 1) := by decide
example : (Buf.runV true rwDemoZ Buf.empty demoFill).getContent 1 0 = (32, [0x301], {}, 1) := by decide
example : (Buf.runV false rwDemoZ Buf.empty demoFill).getContent 0 0 = (0x200b, [], {}, 1) := by decide
example : (Buf.runV false rwDemoZ Buf.empty demoFill).getContent 1 0 = (0x200b, [0x301], {}, 1) := by decide

end Tcell.Props.C08
