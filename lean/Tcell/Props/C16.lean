import Tcell.Model.Cell
import Tcell.Model.Color
import Tcell.Spec.Color
import Tcell.Gen.Consts
import Tcell.Lemmas.Color
import Tcell.Lemmas.FindColor
/-
C16 — "Colour table, names and conversions are exact; FindColor is optimal".

Table theorems are kernel evaluations over the regenerated `Gen.colorValues` / `Gen.colorNames` (so they are re-proved
against whatever color.go says today); conversion laws are proved for all inputs (no `bv_decide`: bit facts via
`Nat.testBit`, arithmetic via `omega`); the FindColor theorems hold for every metric, palette and colour.
-/
namespace Tcell.Props.C16
open Tcell Tcell.Color Tcell.Spec.Color

/-! ## constants and table sanity -/

/-- the model's flag constants are the ones of color.go (regenerated `Gen.Consts`) -/
theorem consts_match :
    fValid = Gen.colorValid ∧ fIsRGB = Gen.colorIsRGB ∧ fSpecial = Gen.colorSpecial ∧ cDefault = Gen.colorDefault ∧
    Tcell.colorReset = Gen.colorReset ∧ Tcell.colorNone = Gen.colorNone := by decide

/-- strictly increasing = sorted without duplicates -/
def increasing : List Nat → Bool
  | a :: b :: t => decide (a < b) && increasing (b :: t)
  | _ => true

/-- the regenerated ColorValues has no duplicate key (list lookup = Go map lookup) -/
theorem colorValues_keys_increasing : increasing (Gen.colorValues.map (·.1)) = true := by decide +kernel

/-- an RGB-flagged key of ColorValues (the named colours ≥ 256) maps to its own low 24 bits, so `Hex()` does not depend on
which branch answers -/
theorem colorValues_rgb_consistent :
    ∀ p ∈ Gen.colorValues, p.1.testBit 33 = true → p.2 = ((p.1 % 2^24 : Nat) : Int) := by decide +kernel

/-! ## palette = xterm -/

/-- ColorValues holds, for each of the 256 palette colours, exactly the xterm RGB value -/
theorem palette_xterm : ∀ i : Nat, i < 256 → lookupValue (paletteColor i) = some (xtermRGB i : Int) := by decide +kernel

/-- … and so do `Hex()` and `RGB()` of `PaletteColor(i)`; the palette colours are valid and not RGB-flagged -/
theorem palette_hex : ∀ i : Nat, i < 256 → hex (paletteColor i) = (xtermRGB i : Int) := by decide +kernel

theorem palette_rgb : ∀ i : Nat, i < 256 →
    rgb (paletteColor i) = (((xtermChannels i).1 : Int), ((xtermChannels i).2.1 : Int), ((xtermChannels i).2.2 : Int)) := by
  decide +kernel

theorem palette_flags : ∀ i : Nat, i < 256 → valid (paletteColor i) = true ∧ isRGB (paletteColor i) = false := by
  decide +kernel

/-- `TrueColor()` of a palette colour is the RGB-flagged colour of its xterm value -/
theorem palette_trueColor : ∀ i : Nat, i < 256 → trueColor (paletteColor i) = newHexColor (xtermRGB i) := by
  decide +kernel

/-- the xterm reference really is 16 basic colours + cube + grey ramp (spot values from the xterm chart) -/
example : xtermRGB 1 = 0x800000 ∧ xtermRGB 15 = 0xffffff ∧ xtermRGB 16 = 0 ∧ xtermRGB 21 = 0x0000ff ∧ xtermRGB 67 = 0x5f87af ∧
    xtermRGB 196 = 0xff0000 ∧ xtermRGB 231 = 0xffffff ∧ xtermRGB 232 = 0x080808 ∧ xtermRGB 255 = 0xeeeeee := by decide

/-! ## names = CSS -/

/-- `GetColor(name)` has the CSS value: the name is known and its colour's `Hex()` is the CSS one -/
def NameOk (p : String × Nat) : Prop := ∃ c, lookupName p.1 = some c ∧ valid c = true ∧ hex c = (p.2 : Int)

instance (p : String × Nat) : Decidable (NameOk p) :=
  match h : lookupName p.1 with
  | some c => if h2 : valid c = true ∧ hex c = (p.2 : Int) then isTrue ⟨c, h, h2.1, h2.2⟩
              else isFalse (fun ⟨c', h1, hv, hh⟩ => by rw [h] at h1; cases h1; exact h2 ⟨hv, hh⟩)
  | none => isFalse (fun ⟨_, h1, _⟩ => by rw [h] at h1; cases h1)

/-- every W3C/CSS colour name that tcell knows has exactly its CSS value (no wrong entry) -/
theorem names_css_values : ∀ p ∈ cssNames, ∀ c, lookupName p.1 = some c → valid c = true ∧ hex c = (p.2 : Int) := by
  have h : ∀ p ∈ cssNames, (match lookupName p.1 with
      | some c => decide (valid c = true ∧ hex c = (p.2 : Int)) | none => true) = true := by decide +kernel
  intro p hp c hc
  have := h p hp
  rw [hc] at this
  simpa using this

/-- **names_css** (full strength, current tree): EVERY one of the 148 W3C/CSS colour names is known to `GetColor` and has
exactly its CSS value.  Kernel evaluation over the regenerated `Gen.colorNames`; holds since /repo 4dcedc1 added `cyan` and
`magenta` (before that commit only the statement with those two names excepted held — finding `C16-css-names-missing`; on such
a tree this declaration fails to check and the oracle of engine `color` reports the missing names on the real code). -/
theorem names_css : ∀ p ∈ cssNames, NameOk p := by decide +kernel

/-- the two names the pinned tree lacked are among the names the theorem covers, with the CSS values of their synonyms
aqua / fuchsia -/
example : ("cyan", 0x00ffff) ∈ cssNames ∧ ("magenta", 0xff00ff) ∈ cssNames ∧ NameOk ("cyan", 0x00ffff) ∧ NameOk ("magenta", 0xff00ff) := by
  decide +kernel

/-- tree-independent form (also true on a tree without the two names, where the premise is false): presence of the two names
is the only thing `names_css` needs beyond `names_css_values`. -/
theorem names_css_of_cyan_magenta :
    (lookupName "cyan").isSome = true → (lookupName "magenta").isSome = true → ∀ p ∈ cssNames, NameOk p := by
  decide +kernel

/-- conversely, every name tcell lists is a CSS name and carries the CSS value (no non-standard extras, no wrong value) -/
theorem names_subset_css : ∀ p ∈ Gen.colorNames, valid p.2 = true ∧ (cssValue p.1).map (fun v => (v : Int)) = some (hex p.2) := by
  decide +kernel

/-- `GetColor` returns the table entry for a known name -/
theorem getColor_name (n : String) (c : Nat) (h : lookupName n = some c) : getColor n = c := by
  unfold getColor; rw [h]

/-- non-vacuity: the CSS table is the 148-name table and e.g. rebeccapurple is checked -/
example : cssNames.length = 148 ∧ NameOk ("rebeccapurple", 0x663399) ∧ NameOk ("darkslategrey", 0x2f4f4f) := by decide +kernel

/-! ## conversions, for all colours -/

/-- NewRGBColor then RGB is the identity on byte triples -/
theorem rgb_newRGBColor (r g b : Int) (hr : 0 ≤ r ∧ r < 256) (hg : 0 ≤ g ∧ g < 256) (hb : 0 ≤ b ∧ b < 256) :
    rgb (newRGBColor r g b) = (r, g, b) := by
  rw [rgb_newRGBColor_general]
  refine Prod.ext ?_ (Prod.ext ?_ ?_) <;> simp only [] <;> omega

/-- for arbitrary int32 arguments the `& 0xff` masks apply (observation outside the statement) -/
theorem rgb_newRGBColor_any (r g b : Int) : rgb (newRGBColor r g b) = (r % 256, g % 256, b % 256) :=
  rgb_newRGBColor_general r g b

theorem hex_newRGBColor (r g b : Int) (hr : 0 ≤ r ∧ r < 256) (hg : 0 ≤ g ∧ g < 256) (hb : 0 ≤ b ∧ b < 256) :
    hex (newRGBColor r g b) = r * 65536 + g * 256 + b := by
  rw [Color.hex_newRGBColor]; omega

/-- Hex ∘ NewHexColor = id on 0 … 2^24-1 -/
theorem hex_newHexColor (v : Int) (h0 : 0 ≤ v) (h1 : v < 2^24) : hex (newHexColor v) = v := by
  rw [hex_newHexColor_general]; omega

/-- for any int32 (negative included) the result is valid, RGB-flagged, and `Hex()` is the low 24 bits of the
two's-complement value (observation outside the statement: `NewHexColor(-1)` is the all-ones colour) -/
theorem newHexColor_any (v : Int) :
    valid (newHexColor v) = true ∧ isRGB (newHexColor v) = true ∧ hex (newHexColor v) = v % 2^24 :=
  ⟨valid_newHexColor v, isRGB_newHexColor v, hex_newHexColor_general v⟩

/-- the value NewHexColor builds for a 24-bit argument is exactly `ColorIsRGB + ColorValid + v` -/
theorem newHexColor_value (v : Int) (h0 : 0 ≤ v) (h1 : v < 2^24) : newHexColor v = fIsRGB + fValid + v.toNat :=
  newHexColor_of_range v h0 h1

/-- NewHexColor ∘ Hex = id on the colours NewHexColor/NewRGBColor produce -/
theorem newHexColor_hex (v : Int) (h0 : 0 ≤ v) (h1 : v < 2^24) : newHexColor (hex (newHexColor v)) = newHexColor v := by
  rw [hex_newHexColor v h0 h1]

/-- TrueColor is idempotent, for every colour value -/
theorem trueColor_idem (c : Nat) : trueColor (trueColor c) = trueColor c := by
  by_cases hv : valid c = true
  · by_cases hr : c.testBit 33 = true
    · rw [trueColor_of_rgbBit c hv hr, trueColor_of_rgbBit c hv hr]
    · have hr' : c.testBit 33 = false := by simpa using hr
      rw [trueColor_of_palette c hv hr']
      exact trueColor_of_rgbBit _ (valid_newHexColor _) (by rw [newHexColor_testBit]; simp)
  · have hv' : valid c = false := by simpa using hv
    rw [trueColor_of_invalid c hv']
    decide

/-- TrueColor of a palette/named (not RGB-flagged) colour is the RGB-flagged colour of its ColorValues entry -/
theorem trueColor_palette (c : Nat) (v : Int) (hv : valid c = true) (hr : c &&& fIsRGB = 0) (hl : lookupValue c = some v) :
    trueColor c = newHexColor v ∧ hex (trueColor c) = v := by
  have hr' : c.testBit 33 = false := by
    have := rgbBit_eq c; rw [hr] at this; simpa using this.symm
  have hh : hex c = v := by rw [hex_of_palette c hv hr', hl]; rfl
  have hrange := colorValues_range (c, v) (lookup_mem (by unfold lookupValue at hl; exact hl))
  constructor
  · rw [trueColor_of_palette c hv hr', hh]
  · rw [trueColor_of_palette c hv hr', hh, hex_newHexColor_general]
    simp only [] at hrange; omega

/-- TrueColor keeps the RGB value (valid colours with a known value), and yields a valid RGB-flagged colour -/
theorem hex_trueColor (c : Nat) (hv : valid c = true) (h0 : 0 ≤ hex c) :
    hex (trueColor c) = hex c ∧ valid (trueColor c) = true ∧ isRGB (trueColor c) = true := by
  have h1 : hex c < 2^24 := by rcases hex_range c with h | h <;> omega
  by_cases hr : c.testBit 33 = true
  · rw [trueColor_of_rgbBit c hv hr]
    refine ⟨rfl, hv, ?_⟩
    rw [isRGB_eq, ← valid_eq, hv, hr]; rfl
  · have hr' : c.testBit 33 = false := by simpa using hr
    rw [trueColor_of_palette c hv hr']
    refine ⟨?_, valid_newHexColor _, isRGB_newHexColor _⟩
    rw [hex_newHexColor_general]; omega

/-- RGB() is the byte split of Hex() -/
theorem rgb_hex (c : Nat) (h0 : 0 ≤ hex c) : rgb c = (hex c / 65536 % 256, hex c / 256 % 256, hex c % 256) :=
  rgb_of_hex_nonneg c h0

/-- canonical RGB colour: exactly the two flags and a 24-bit value (what every constructor returns on in-range arguments) -/
def Canonical (c : Nat) : Prop := c.testBit 33 = true → c = fIsRGB + fValid + c % 2^24

instance (c : Nat) : Decidable (Canonical c) := by unfold Canonical; infer_instance

/-- CSS/GetColor round trip: `GetColor(c.CSS()) = c.TrueColor()` for every valid colour with a known RGB value.
(For an RGB-flagged value carrying extra bits — only obtainable from `NewHexColor` with an argument outside 0…0xffffff —
TrueColor keeps the extra bits and the law fails; that is the `Canonical` hypothesis.) -/
theorem css_roundtrip (c : Nat) (hv : valid c = true) (h0 : 0 ≤ hex c) (hc : Canonical c) :
    getColor (css c) = trueColor c := by
  rw [getColor_css_of_hex_nonneg c hv h0]
  by_cases hr : c.testBit 33 = true
  · rw [trueColor_of_rgbBit c hv hr, hex_of_rgbBit c (by rw [← valid_eq]; exact hv) hr]
    have := hc hr
    rw [newHexColor_of_range _ (by omega) (by omega)]
    unfold fIsRGB fValid at this
    omega
  · have hr' : c.testBit 33 = false := by simpa using hr
    rw [trueColor_of_palette c hv hr']

/-- the round trip also holds for invalid colours (`""` ↦ ColorDefault) and for valid colours without a known value
(`"#-00001"` ↦ the all-ones colour, which is also what TrueColor returns: observation outside the statement) -/
theorem css_roundtrip_other (c : Nat) (h : valid c = false ∨ (c.testBit 33 = false ∧ hex c = -1)) :
    getColor (css c) = trueColor c := by
  by_cases hv : valid c = true
  · rcases h with h | ⟨hr, hm⟩
    · rw [hv] at h; cases h
    · rw [trueColor_of_palette c hv hr, hm]
      unfold css
      rw [hv, hm]
      exact getColor_minus_one
  · have hv' : valid c = false := by simpa using hv
    rw [css_of_invalid c hv', trueColor_of_invalid c hv']
    exact getColor_empty

/-- the text CSS() produces: "#" and six upper-case hex digits of Hex() -/
theorem css_text (c : Nat) (hv : valid c = true) (h0 : 0 ≤ hex c) :
    css c = String.ofList ('#' :: sixDigits (hex c).toNat) := css_of_hex_nonneg c hv h0

/-- GetColor("#RRGGBB") = NewHexColor(0xRRGGBB) -/
theorem getColor_hex (n : Nat) (h : n < 2^24) : getColor (String.ofList ('#' :: sixDigits n)) = newHexColor n :=
  getColor_hash_six n h

/-- FromImageColor takes the high byte of each 16-bit channel: for a colour built from 8-bit channels R,G,B (whose RGBA()
is R·0x101, …) the result has RGB() = (R,G,B) and is NewRGBColor(R,G,B) -/
theorem fromImageColor_rgb (R G B : Nat) (hR : R < 256) (hG : G < 256) (hB : B < 256) :
    rgb (fromImageColor (R * 257) (G * 257) (B * 257)) = ((R : Int), (G : Int), (B : Int)) ∧
    fromImageColor (R * 257) (G * 257) (B * 257) = newRGBColor R G B := by
  unfold fromImageColor
  rw [Nat.shiftRight_eq_div_pow, Nat.shiftRight_eq_div_pow, Nat.shiftRight_eq_div_pow]
  have e : ∀ x : Nat, x < 256 → x * 257 / 256 = x := by intro x hx; omega
  simp only [Nat.reducePow]
  rw [e R hR, e G hG, e B hB]
  exact ⟨rgb_newRGBColor _ _ _ (by omega) (by omega) (by omega), rfl⟩

/-- … and for arbitrary 16-bit channels RGB() is the triple of high bytes -/
theorem fromImageColor_any (r g b : Nat) (hr : r < 2^16) (hg : g < 2^16) (hb : b < 2^16) :
    rgb (fromImageColor r g b) = (((r / 256 : Nat) : Int), ((g / 256 : Nat) : Int), ((b / 256 : Nat) : Int)) := by
  unfold fromImageColor
  rw [Nat.shiftRight_eq_div_pow, Nat.shiftRight_eq_div_pow, Nat.shiftRight_eq_div_pow]
  rw [rgb_newRGBColor _ _ _ (by omega) (by omega) (by omega)]

/-! ## default, invalid and special colours -/

/-- a colour without the valid flag reports Hex() = -1, RGB() = (-1,-1,-1), TrueColor() = ColorDefault, CSS() = "" -/
theorem invalid_reports (c : Nat) (h : valid c = false) :
    hex c = -1 ∧ rgb c = (-1, -1, -1) ∧ trueColor c = cDefault ∧ css c = "" ∧ isRGB c = false := by
  have hh := hex_of_invalid c h
  refine ⟨hh, rgb_of_hex_neg c (by omega), trueColor_of_invalid c h, css_of_invalid c h, ?_⟩
  rw [isRGB_eq, ← valid_eq, h]; rfl

/-- ColorDefault, ColorReset, ColorNone (and every other ColorSpecial|k, k < 2^32) are not valid -/
theorem default_special_invalid :
    valid cDefault = false ∧ valid Tcell.colorReset = false ∧ valid Tcell.colorNone = false := by decide

theorem special_invalid (k : Nat) (hk : k < 2^32) : valid (fSpecial ||| k) = false := by
  rw [valid_eq, Nat.testBit_or]
  have : fSpecial.testBit 32 = false := by decide
  rw [this, Nat.testBit_lt_two_pow hk]; rfl

/-- PaletteColor always sets the valid flag; for 0 ≤ i < 2^32 it is `ColorValid + i` and not RGB-flagged -/
theorem paletteColor_valid (i : Int) : valid (paletteColor i) = true := by
  unfold paletteColor
  rw [valid_eq, Nat.testBit_or]
  have : fValid.testBit 32 = true := by decide
  rw [this]; simp

/-- all constructors stay inside uint64 -/
theorem results_lt (v : Int) (i : Int) (c : Nat) (hc : c < 2^64) :
    newHexColor v < 2^64 ∧ paletteColor i < 2^64 ∧ trueColor c < 2^64 := by
  have hs : ∀ x : Int, ofSigned x < 2^64 := ofSigned_lt
  have f1 : fIsRGB < 2^64 := by decide
  have f2 : fValid < 2^64 := by decide
  refine ⟨?_, ?_, ?_⟩
  · unfold newHexColor
    exact Nat.or_lt_two_pow (Nat.or_lt_two_pow f1 (hs v)) f2
  · unfold paletteColor
    exact Nat.or_lt_two_pow (hs i) f2
  · unfold trueColor
    split
    · decide
    · split
      · exact Nat.or_lt_two_pow hc f2
      · exact Nat.or_lt_two_pow (Nat.or_lt_two_pow (hs _) f1) f2
/-! ## FindColor, for every metric, colour and palette -/

section FindColor
variable {α : Type} (m : Metric α)

/-- FindColor returns a member of a non-empty palette — whatever the metric does (no order hypothesis) -/
theorem findColor_mem (c : Nat) (pal : List Nat) (hne : pal ≠ []) : findColor m c pal ∈ pal :=
  findColor_mem' m c pal hne

/-- … and ColorDefault for the empty palette -/
theorem findColor_nil (c : Nat) : findColor m c [] = cDefault := rfl

/-- the default colour is returned only for the empty palette (given that ColorDefault is not itself listed) -/
theorem findColor_default_iff (c : Nat) (pal : List Nat) (hd : cDefault ∉ pal) :
    findColor m c pal = cDefault ↔ pal = [] := by
  constructor
  · intro h
    cases hp : pal with
    | nil => rfl
    | cons q t =>
      exfalso; apply hd
      have := findColor_mem m c pal (by rw [hp]; simp)
      rw [h] at this; exact this
  · intro h; rw [h]; rfl

/-- **argmin**: no member of the palette is strictly closer to `c` than the result, in the NaN-normalised distance the code
compares (`nd`).  Hypotheses: float `<` on non-NaN values is a strict weak order (`Metric.Ordered`), and ColorDefault (the
scan's "no match yet" sentinel) is not a palette member. -/
theorem findColor_argmin (ho : m.Ordered) (c : Nat) (pal : List Nat) (hd : cDefault ∉ pal) :
    ∀ q ∈ pal, m.lt (m.nd c q) (m.nd c (findColor m c pal)) = false := by
  cases hp : pal with
  | nil => intro q hq; cases hq
  | cons a t =>
    rw [← hp]
    exact (findColor_isFirstMin m ho c pal (by rw [hp]; simp) hd).argmin m ho

/-- **tie-breaking**: the result is the *first* minimum: every earlier member is strictly farther, no later one is closer -/
theorem findColor_first_min (ho : m.Ordered) (c : Nat) (pal : List Nat) (hne : pal ≠ []) (hd : cDefault ∉ pal) :
    ∃ pre suf, pal = pre ++ findColor m c pal :: suf ∧
      (∀ q ∈ pre, m.lt (m.nd c (findColor m c pal)) (m.nd c q) = true) ∧
      (∀ q ∈ suf, m.lt (m.nd c q) (m.nd c (findColor m c pal)) = false) :=
  findColor_isFirstMin m ho c pal hne hd

/-- the initial `dist := 0` is never used -/
theorem findColor_zero_irrelevant (c : Nat) (pal : List Nat) (z : α) :
    findColor { m with zero := z } c pal = findColor m c pal := by
  unfold findColor
  exact fcScan_default_irrel _ c _ _ pal

/-- what the scan guarantees when ColorDefault *is* listed: whenever the running match is ColorDefault the scan restarts,
so the result is FindColor of the remaining suffix -/
theorem findColor_restart (c : Nat) (pre suf : List Nat) (h : findColor m c pre = cDefault) :
    findColor m c (pre ++ suf) = findColor m c suf := by
  unfold findColor at *
  rw [fcScan_append]
  have : fcScan m c (cDefault, m.zero) pre = (cDefault, (fcScan m c (cDefault, m.zero) pre).2) := Prod.ext h rfl
  rw [this]
  exact fcScan_default_irrel m c _ _ suf

end FindColor

/-! ### non-vacuity: concrete ordered metrics, and the ColorDefault-member quirk -/

/-- |q - c| on naturals, no NaNs -/
def absMetric : Metric Nat :=
  { dist := fun c q => if c ≤ q then q - c else c - q, isNaN := fun _ => false, inf := 0, lt := fun a b => decide (a < b), zero := 0 }

theorem absMetric_ordered : absMetric.Ordered := by
  refine ⟨rfl, ?_, ?_, ?_⟩
  · intro a _; simp [absMetric]
  · intro a b c _ _ _ h1 h2; simp [absMetric] at *; omega
  · intro a b c _ _ _ h1; simp [absMetric] at *; omega

/-- the hypotheses of `findColor_argmin` / `findColor_first_min` are satisfiable and the result is the first of two
equidistant members (8 and 12 around 10) -/
example : absMetric.Ordered ∧ cDefault ∉ [20, 8, 12, 3] ∧ findColor absMetric 10 [20, 8, 12, 3] = 8 :=
  ⟨absMetric_ordered, by decide, by decide⟩

/-- the quirk: with ColorDefault (0) listed, the member after it is taken unconditionally; here 100 is returned although
9 is strictly closer to 10 — `cDefault ∉ pal` in `findColor_argmin` cannot be dropped -/
theorem findColor_default_member_quirk :
    findColor absMetric 10 [9, 0, 100] = 9 ∧ findColor absMetric 1 [9, 0, 100] = 100 ∧
    absMetric.lt (absMetric.nd 1 9) (absMetric.nd 1 100) = true := by decide

/-- IEEE-754 `<` on binary64 bit patterns (the metric the driver runs the scan with) satisfies the order hypotheses, for
every distance table -/
theorem bitsMetric_ordered (table : List (Nat × Nat)) : (bitsMetric table).Ordered := by
  refine ⟨by show f64IsNaN f64Inf = false; decide, ?_, ?_, ?_⟩
  · intro a ha
    simp only [bitsMetric, f64Lt] at *
    simp
  · intro a b c ha hb hc h1 h2
    simp only [bitsMetric, f64Lt] at *
    simp only [ha, hb, hc, Bool.not_false, Bool.true_and, decide_eq_true_eq] at *
    omega
  · intro a b c ha hb hc h1
    simp only [bitsMetric, f64Lt] at *
    simp only [ha, hb, hc, Bool.not_false, Bool.true_and, decide_eq_true_eq] at *
    omega

/-- NaN handling: a NaN distance is treated as +Inf, so a member with a real distance beats it and the first member still
sticks when everything is NaN -/
example : findColor (bitsMetric [(5, f64NaN), (6, 0x3FF0000000000000)]) 1 [5, 6] = 6 ∧
    findColor (bitsMetric [(5, f64NaN), (6, f64NaN)]) 1 [5, 6] = 5 := by decide

/-- concrete conversions (hypotheses of the laws above are satisfiable) -/
example : rgb (newRGBColor 18 52 86) = (18, 52, 86) ∧ hex (newHexColor 0x123456) = 0x123456 ∧
    css (newHexColor 0x00ff7f) = "#00FF7F" ∧ getColor "#00ff7f" = newHexColor 0x00ff7f ∧
    getColor "red" = paletteColor 9 ∧ trueColor (paletteColor 9) = newHexColor 0xff0000 ∧
    Canonical (newHexColor 0x123456) ∧ valid (paletteColor 300) = true ∧ hex (paletteColor 300) = -1 := by decide +kernel

end Tcell.Props.C16
