import Tcell.Model.WScreen
import Tcell.Model.WLock
import Tcell.Gen.WebKeys
import Tcell.Gen.WLockFacts
namespace Tcell.Props.C19
open Tcell Tcell.WScreen

theorem placeholder : True := trivial

end Tcell.Props.C19
