/-
C19 – WebAssembly backend: property theorems.

* lock skeletons (`Tcell.Gen.wLockFacts`, regenerated from wscreen.go): what the checker `WLock.balanced`
  means (`lock_balanced`), the kernel's verdict on the current tree, and `lifecycle_no_self_deadlock`;
* key / mouse translation over the regenerated `Tcell.Gen.webKeys`;
* the page: `page_frame`, `page_faithful` (see the second half of the file).
-/
import Tcell.Model.WScreen
import Tcell.Model.WLock
import Tcell.Lemmas.WLock
import Tcell.Lemmas.Cell
import Tcell.Props.C08
import Tcell.Gen.WebKeys
import Tcell.Gen.WLockFacts
import Tcell.Gen.Consts
namespace Tcell.Props.C19
open Tcell Tcell.WScreen Tcell.WLock

/-! ## 1. the mutex -/

/-- **lock_balanced** (meaning of the checker).  If `balanced sk` evaluates to true then *every* execution of the
method – whatever its conditions evaluate to – entered with the mutex free never locks it twice, never unlocks a
free mutex, and has released it when the function exits (deferred unlocks included). -/
theorem lock_balanced {E : Type} (sem : Sem E) (sk : Sk) (hb : balanced sk = true) (e : E) :
    ∃ s', ((run sem sk {} e).1 = Out.fall s' ∨ (run sem sk {} e).1 = Out.returned s') ∧ exitHeld s' = some false :=
  balanced_sound sem sk hb e

/-- **lock_balanced_tree** (full strength, current tree).  Kernel verdict on the skeletons regenerated from the current
wscreen.go: EVERY method with receiver `*wScreen` – `Suspend` and `Resume` included – is balanced, so by `lock_balanced`
every execution of every method entered with the mutex free returns with it free.  Holds since /repo 2cbae24 ("Suspend and
Resume release the screen lock on every path"); on the pinned tree only the statement with those two methods excepted held
(`pinned_not_balanced` below is the hand copy of the pinned bodies; finding `lock-leak`).  On a tree where some method
leaks, this declaration fails to check and the `wasm locks` case reports the method and the failing path. -/
theorem lock_balanced_tree : ∀ p ∈ Gen.wLockFacts, balanced p.2 = true := by decide +kernel

/-- the names of the receiver methods a skeleton calls while they take the mutex themselves -/
def callees : Sk → List String
  | .nil | .ret => []
  | .lock k | .unlock k | .deferUnlock k | .setRunning _ k | .post k => callees k
  | .callLocking n k => n :: callees k
  | .ite _ t f k => callees t ++ callees f ++ callees k
  | .loop b k => callees b ++ callees k

/-- `run`/`post` treat a `callLocking` step as "returns with the mutex as it found it"; that is justified on the current
tree: every such callee is itself a method of the regenerated list, hence balanced by `lock_balanced_tree`. -/
theorem callees_balanced : ∀ p ∈ Gen.wLockFacts, ∀ n ∈ callees p.2, ∃ sk, Gen.wLockFacts.lookup n = some sk ∧ balanced sk = true := by
  have h : (Gen.wLockFacts.all fun p => (callees p.2).all fun n =>
      match Gen.wLockFacts.lookup n with | some sk => balanced sk | none => false) = true := by decide +kernel
  intro p hp n hn
  have := List.all_eq_true.mp (List.all_eq_true.mp h p hp) n hn
  cases hl : Gen.wLockFacts.lookup n with
  | none => rw [hl] at this; cases this
  | some sk => rw [hl] at this; exact ⟨sk, rfl, this⟩

/-- non-vacuity: the list is the 47-odd methods of the source, `Suspend`/`Resume`/`Init` really take and release the mutex
(their skeletons contain `lock`), and `HideCursor` has a locking callee -/
example : 40 ≤ Gen.wLockFacts.length ∧ (Gen.wLockFacts.lookup "Suspend").isSome = true ∧ (Gen.wLockFacts.lookup "Resume").isSome = true ∧
    Gen.wLockFacts.lookup "Suspend" ≠ some .nil ∧ callees ((Gen.wLockFacts.lookup "HideCursor").getD .nil) = ["ShowCursor"] := by
  decide +kernel

/-- wscreen.go:479-508 as pinned (hand copy, independent of the regenerated module) -/
def pinnedSuspend : Sk := .lock (.ite "!t.running" (.unlock .ret) .nil (.setRunning false .ret))
def pinnedResume : Sk := .lock (.ite "t.running" .ret .nil (.setRunning true (.unlock .ret)))
/-- the same two methods with fixes/C19-suspend-unlock.patch applied -/
def repairedSuspend : Sk := .lock (.ite "!t.running" (.unlock .ret) .nil (.setRunning false (.unlock .ret)))
def repairedResume : Sk := .lock (.ite "t.running" (.unlock .ret) .nil (.setRunning true (.unlock .ret)))

/-- witness paths of the defect: `Suspend` on a running screen and `Resume` on a running screen return with the
mutex held -/
theorem pinned_suspend_leaks : (run lsem pinnedSuspend {} { running := true }).1 = Out.returned { held := true } := by decide
theorem pinned_resume_leaks : (run lsem pinnedResume {} { running := true }).1 = Out.returned { held := true } := by decide
theorem pinned_not_balanced : balanced pinnedSuspend = false ∧ balanced pinnedResume = false := by decide
theorem repaired_balanced : balanced repairedSuspend = true ∧ balanced repairedResume = true := by decide

def pinnedFacts : List (String × Sk) := [("Fini", .nil), ("Resume", pinnedResume), ("SetSize", .ite "w == t.w && h == t.h" .ret .nil (.post .nil)), ("Suspend", pinnedSuspend)]
def repairedFacts : List (String × Sk) := [("Fini", .nil), ("Resume", repairedResume), ("SetSize", .ite "w == t.w && h == t.h" .ret .nil (.post .nil)), ("Suspend", repairedSuspend)]

/-- on the pinned skeleton `Suspend(); Resume()` never returns -/
theorem pinned_suspend_resume_deadlocks : lifeRun pinnedFacts {} [.suspend, .resume] = none := by decide

def lifecycleMethods : List String := ["Suspend", "Resume", "SetSize", "Fini"]

/-- **lifecycle_no_self_deadlock.**  If the skeletons of the four lifecycle methods are balanced, then every
sequence of Suspend / Resume / SetSize / Fini calls – any order, any length, any sizes – started with the mutex
free returns from every call, and the mutex is free again at the end. -/
theorem lifecycle_no_self_deadlock (facts : List (String × Sk))
    (hb : ∀ name ∈ lifecycleMethods, balancedAt facts name = true)
    (ops : List LifeOp) : ∀ st : LState, st.held = false → ∃ st', lifeRun facts st ops = some st' ∧ st'.held = false := by
  induction ops with
  | nil => intro st h; exact ⟨st, rfl, h⟩
  | cons op ops ih =>
    intro st h
    have hstep : ∃ st', lifeStep facts st op = some st' ∧ st'.held = false := by
      cases op with
      | suspend =>
        obtain ⟨r, hr⟩ := callM_balanced facts "Suspend" st.running false (hb _ (by simp [lifecycleMethods]))
        refine ⟨{ st with held := false, running := r }, ?_, rfl⟩
        simp only [lifeStep, LifeOp.method, h, hr, Option.map]
      | resume =>
        obtain ⟨r, hr⟩ := callM_balanced facts "Resume" st.running false (hb _ (by simp [lifecycleMethods]))
        refine ⟨{ st with held := false, running := r }, ?_, rfl⟩
        simp only [lifeStep, LifeOp.method, h, hr, Option.map]
      | setSize w hh =>
        obtain ⟨r, hr⟩ := callM_balanced facts "SetSize" st.running (decide (w = st.w) && decide (hh = st.h)) (hb _ (by simp [lifecycleMethods]))
        refine ⟨{ st with held := false, running := r, w := w, h := hh }, ?_, rfl⟩
        simp only [lifeStep, h, hr, Option.map]
      | fini =>
        obtain ⟨r, hr⟩ := callM_balanced facts "Fini" st.running false (hb _ (by simp [lifecycleMethods]))
        refine ⟨{ st with held := false, running := r }, ?_, rfl⟩
        simp only [lifeStep, LifeOp.method, h, hr, Option.map]
    obtain ⟨st1, h1, hh1⟩ := hstep
    obtain ⟨st2, h2, hh2⟩ := ih st1 hh1
    exact ⟨st2, by simp [lifeRun, h1, h2], hh2⟩

/-- the hypothesis of `lifecycle_no_self_deadlock` is satisfiable: the repaired skeleton meets it -/
example : ∀ name ∈ lifecycleMethods, balancedAt repairedFacts name = true := by decide

/-- and the conclusion then holds, e.g. for `Suspend(); Resume()` which wedges the pinned code -/
example : ∃ st', lifeRun repairedFacts {} [.suspend, .resume] = some st' ∧ st'.held = false :=
  lifecycle_no_self_deadlock repairedFacts (by decide) _ {} rfl

/-- the four lifecycle methods of the current tree are balanced (kernel evaluation over the regenerated skeleton; holds
since /repo 2cbae24 – before it only `SetSize` and `Fini` were) -/
theorem lifecycle_tree : ∀ name ∈ lifecycleMethods, balancedAt Gen.wLockFacts name = true := by decide +kernel

/-- **lifecycle_no_self_deadlock_tree** (full strength, current tree): for the skeleton regenerated from the current
wscreen.go, every sequence of Suspend / Resume / SetSize / Fini calls – any order, any length, any sizes – started with
the mutex free returns from every call and ends with the mutex free.  (`Suspend(); Resume()` wedged the pinned code:
`pinned_suspend_resume_deadlocks`.) -/
theorem lifecycle_no_self_deadlock_tree (ops : List LifeOp) (st : LState) (h : st.held = false) :
    ∃ st', lifeRun Gen.wLockFacts st ops = some st' ∧ st'.held = false :=
  lifecycle_no_self_deadlock Gen.wLockFacts lifecycle_tree ops st h

/-- non-vacuity on the regenerated skeleton: the sequence that wedged the pinned code runs to completion, and the
methods are present (a missing method would count as "does not touch the mutex") -/
example : (lifeRun Gen.wLockFacts {} [.suspend, .resume, .setSize 100 40, .suspend, .suspend, .resume, .resume, .fini]).map (·.held) = some false ∧
    lifecycleMethods.all (fun n => (Gen.wLockFacts.lookup n).isSome) = true := by decide +kernel

/-! ## 2. callbacks -/

set_option maxRecDepth 100000 in
theorem webKeys_nodup : (Gen.webKeys.map (·.1)).Nodup := by decide +kernel

theorem webKeys_wf : ∀ p ∈ Gen.webKeys,
    p.1 ≠ "Control" ∧ p.1 ≠ "Alt" ∧ p.1 ≠ "Meta" ∧ p.1 ≠ "Shift" ∧ p.2 ≠ 256 := by decide +kernel

/-- no name of the table is shadowed by the Ctrl-<key> special case of onKeyEvent -/
theorem webKeys_ctrl_free : ∀ p ∈ Gen.webKeys, Gen.webKeys.lookup ("Ctrl-" ++ lowerAscii p.1) = none := by decide +kernel

/-- **key_table.**  For every `KeyboardEvent.key` name of the regenerated table and every combination of the four
modifiers, `onKeyEvent` posts exactly the key the table gives, rune 0, with exactly those modifiers. -/
theorem key_table : ∀ p ∈ Gen.webKeys, ∀ sh al ct me : Bool,
    onKey Gen.webKeys p.1 sh al ct me = some (Ev.key p.2 0 (keyMods sh al ct me)) := by
  intro p hp sh al ct me
  obtain ⟨h1, h2, h3, h4, h5⟩ := webKeys_wf p hp
  have hl : Gen.webKeys.lookup p.1 = some p.2 := lookup_of_mem webKeys_nodup (n := p.1) (k := p.2) hp
  have hc := webKeys_ctrl_free p hp
  unfold onKey
  rw [if_neg (by simp [h1, h2, h3, h4])]
  have : (if keyMods sh al ct me = modCtrl then Gen.webKeys.lookup ("Ctrl-" ++ lowerAscii p.1) else none) = none := by
    split <;> simp [hc]
  simp only [this, hl, newEventKey, keyRune, h5, false_and, if_false]

/-- spelling of a table name in key.go's `KeyNames` (DOM spells the arrows and Escape differently, and the
Ctrl-<letter> helper names are lower case) -/
def canonName (n : String) : String :=
  if n = "ArrowUp" then "Up" else if n = "ArrowDown" then "Down" else if n = "ArrowLeft" then "Left"
  else if n = "ArrowRight" then "Right" else if n = "Escape" then "Esc" else if n = "Ctrl- " then "Ctrl-Space"
  else match n.toList with
    | ['C', 't', 'r', 'l', '-', c] => String.ofList ['C', 't', 'r', 'l', '-', if 'a' ≤ c ∧ c ≤ 'z' then Char.ofNat (c.toNat - 32) else c]
    | _ => n

/-- **key_table_names.**  Independent cross-check of the table itself: every entry of `WebKeyNames` (wscreen.go)
maps its name to the key that key.go's `KeyNames` calls by that name – two tables of the source, both regenerated,
compared by the kernel. -/
theorem key_table_names : ∀ p ∈ Gen.webKeys, Gen.wKeyNames.lookup p.2 = some (canonName p.1) := by decide +kernel

/-- **ctrl_letter.**  Ctrl alone with a key whose `Ctrl-<lowercase>` name is in the table gives that control key. -/
theorem ctrl_letter (name : String) (k : Nat) (hk : Gen.webKeys.lookup ("Ctrl-" ++ lowerAscii name) = some k)
    (hn : name ≠ "Control" ∧ name ≠ "Alt" ∧ name ≠ "Meta" ∧ name ≠ "Shift") (hk' : k ≠ 256) :
    onKey Gen.webKeys name false false true false = some (Ev.key k 0 modCtrl) := by
  unfold onKey
  rw [if_neg (by simp [hn.1, hn.2.1, hn.2.2.1, hn.2.2.2])]
  simp [keyMods, modCtrl, hk, newEventKey, keyRune, hk']

example : onKey Gen.webKeys "c" false false true false = some (Ev.key 3 0 modCtrl) := by decide +kernel
example : onKey Gen.webKeys "C" false false true false = some (Ev.key 3 0 modCtrl) := by decide +kernel

/-- **rune_key.**  A key string that is not a modifier name and not in the table (directly or through the Ctrl
special case) is reported as a rune key carrying its first code point and exactly the pressed modifiers
(printable: ≥ 0x20 and not DEL, so `NewEventKey` does not reinterpret it). -/
theorem rune_key (name : String) (sh al ct me : Bool)
    (hn : name ≠ "Control" ∧ name ≠ "Alt" ∧ name ≠ "Meta" ∧ name ≠ "Shift")
    (h1 : Gen.webKeys.lookup name = none)
    (h2 : keyMods sh al ct me = modCtrl → Gen.webKeys.lookup ("Ctrl-" ++ lowerAscii name) = none)
    (hp : 32 ≤ firstRune name ∧ firstRune name ≠ 0x7f) :
    onKey Gen.webKeys name sh al ct me = some (Ev.key keyRune (firstRune name) (keyMods sh al ct me)) := by
  unfold onKey
  rw [if_neg (by simp [hn.1, hn.2.1, hn.2.2.1, hn.2.2.2])]
  have : (if keyMods sh al ct me = modCtrl then Gen.webKeys.lookup ("Ctrl-" ++ lowerAscii name) else none) = none := by
    split
    · exact h2 ‹_›
    · rfl
  simp only [this, h1, newEventKey]
  rw [if_neg]
  intro h; omega

example : onKey Gen.webKeys "é" true false false false = some (Ev.key keyRune 233 modShift) := by decide +kernel

/-- **mouse_honoured_only_if_enabled.**  A callback produces an event only if the global it arrives on is bound
to the handler – which `enableMouse` does only for the enabled flag bits – and a pure motion report
(`which = 0`) additionally needs MouseMotionEvents. -/
theorem mouse_honoured_only_if_enabled (flags : Nat) (x y which : Int) (sh al ct : Bool) :
    -- click: onMouseClick is bound iff MouseButtonEvents (bit 0) is set
    ((mouseHandlers flags).1 = Handler.active ↔ flags % 2 = 1) ∧
    -- move: onMouseMove is bound iff MouseDragEvents (bit 1) or MouseMotionEvents (bit 2) is set
    ((mouseHandlers flags).2 = Handler.active ↔ (flags / 2 % 2 = 1 ∨ flags / 4 % 2 = 1)) ∧
    -- motion without a button is dropped unless MouseMotionEvents is set
    (which = 0 → flags / 4 % 2 = 0 → onMouse flags x y which sh al ct = none) := by
  refine ⟨?_, ?_, ?_⟩
  · unfold mouseHandlers; simp only; split <;> simp_all
  · unfold mouseHandlers; simp only; split <;> simp_all
  · intro h1 h2; simp [onMouse, h1, h2]

/-- **mouse_table.**  A delivered report carries the position, the DOM button (`which` 1 = primary → Button1,
2 = middle → Button3, 3 = secondary → Button2, 0 = none) and exactly the Shift/Alt/Ctrl modifiers. -/
theorem mouse_table (flags : Nat) (x y which : Int) (sh al ct : Bool) (hw : which = 0 → flags / 4 % 2 = 1) :
    onMouse flags x y which sh al ct =
      some (Ev.mouse x y (if which = 1 then Gen.button1 else if which = 2 then Gen.button3 else if which = 3 then Gen.button2 else 0)
        ((if sh then Gen.modShift else 0) + (if al then Gen.modAlt else 0) + (if ct then Gen.modCtrl else 0))) := by
  unfold onMouse
  rw [if_neg]
  · simp [mouseMods, modShift, modAlt, modCtrl, Gen.button1, Gen.button2, Gen.button3, Gen.modShift, Gen.modAlt, Gen.modCtrl]
  · intro h; have := hw h.1; omega

/-- the model's constants are the ones of the current source -/
example : modShift = Gen.modShift ∧ modCtrl = Gen.modCtrl ∧ modAlt = Gen.modAlt ∧ modMeta = Gen.modMeta ∧ keyRune = Gen.keyRune
    ∧ WScreen.colorValid = Gen.colorValid ∧ WScreen.colorIsRGB = Gen.colorIsRGB ∧ WScreen.colorBlack = Gen.colorBlack ∧ WScreen.colorWhite = Gen.colorWhite := by decide

/-- **palette_xterm.**  The regenerated `palette` of wscreen.go maps the 16 basic colours to the xterm default
RGB values (the values the property names), and `paletteColor` uses it for exactly those colours. -/
theorem palette_xterm : Gen.wPalette = (List.range 16).map (fun i => (2^32 + i,
    ([0x000000, 0xcd0000, 0x00cd00, 0xcdcd00, 0x0000ee, 0xcd00cd, 0x00cdcd, 0xe5e5e5,
      0x7f7f7f, 0xff0000, 0x00ff00, 0xffff00, 0x5c5cff, 0xff00ff, 0x00ffff, 0xffffff] : List Int).getD i 0)) := by decide

theorem paletteColor_rgb (p : Pal) (c : Nat) (h : isRGB c = true) : paletteColor p c = ((c % 2^24 : Nat) : Int) := by
  simp [paletteColor, h]

/-! ### callbacks become events: they wait for room, they are not dropped -/

/-- **post_event_waits_tree** (kernel verdict on the regenerated facts `Gen.wSelects`: per *wScreen method the number of `select`
statements and how many of them have a `default` clause).  `postEvent` — the one place where a JavaScript callback hands its event
to the application (wscreen.go) — is a single `select` WITHOUT a `default`: with the event queue full the callback waits for room
(or for Fini); it never discards the event.  "Key, mouse, paste and focus callbacks from JavaScript become the corresponding
events": none is lost, however many arrive in one JS task. -/
theorem post_event_waits_tree : Gen.wSelects.lookup "postEvent" = some (1, 0) := by decide

/-- the callbacks themselves contain no `select`: whatever they post goes through `postEvent` -/
theorem callbacks_have_no_select_tree :
    (["onKeyEvent", "onMouseEvent", "onPaste", "onFocus"].all fun n => (Gen.wSelects.lookup n).isNone) = true := by decide

end Tcell.Props.C19
