namespace Tcell.Props.C05
theorem placeholder : True := trivial
end Tcell.Props.C05
