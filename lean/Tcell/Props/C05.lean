import Tcell.Lemmas.Pipeline
/-
C05 — events are delivered exactly once, in order, with back-pressure not loss.   PARTIAL: theorems about the
transition-system model `Tcell.Model.Pipeline` (tied to the code by trace inclusion, engine `pipe`, which replays the real
screen's schedule points on the model instantiated with the real parser model).  The parser is abstract here: any `collect`
that satisfies the chunk law (`ChunkLaw`; proved for the real parser model under property C02, not used from there).

All theorems quantify over every label list (= every interleaving of input arrival, resize notifications, posting
goroutines, a poller that polls at arbitrary moments or not at all), every capacity, every chunking of the input.
`lossy` is the model's ghost flag for "something was discarded"; `lossy_only_after_shutdown` shows that this needs a closed
`quit`/`stopQ`, i.e. a Fini or Suspend: before that, nothing is ever dropped, duplicated or reordered, however full the
queues are (back-pressure: a producer whose queue is full simply has no enabled step).
Not covered by a theorem: `When()` (the model has no clock; the harness checks it on every delivered event).
-/
namespace Tcell.Props.C05
open Tcell Tcell.Model.Pipeline

variable {Ev PSt : Type}

/-- the chunk law of the parser: decoding `a ++ b` in one go = decoding `a`, then the leftover followed by `b` -/
structure ChunkLaw (P : Parser Ev PSt) : Prop where
  nil : ∀ st, P.collect st [] false = ([], st, [])
  append : ∀ st a b, P.collect st (a ++ b) false =
    ((P.collect st a false).1 ++ (P.collect (P.collect st a false).2.1 ((P.collect st a false).2.2 ++ b) false).1,
     (P.collect (P.collect st a false).2.1 ((P.collect st a false).2.2 ++ b) false).2.1,
     (P.collect (P.collect st a false).2.1 ((P.collect st a false).2.2 ++ b) false).2.2)

def keysOf : List (Item Ev) → List Ev
  | [] => []
  | .key e :: r => e :: keysOf r
  | _ :: r => keysOf r

def postedOf : List (Item Ev) → List Nat
  | [] => []
  | .posted n :: r => n :: postedOf r
  | _ :: r => postedOf r

@[simp] theorem keysOf_append (a b : List (Item Ev)) : keysOf (a ++ b) = keysOf a ++ keysOf b := by
  induction a with
  | nil => rfl
  | cons x r ih => cases x <;> simp [keysOf, ih]

def pending (s : State Ev PSt) : List Ev :=
  match s.mainPc with
  | .scan p _ => p
  | _ => []

def held (s : State Ev PSt) : Bytes :=
  match s.inPc with
  | .hold ch => ch
  | _ => []

def cePend (s : State Ev PSt) : List (Item Ev) :=
  match s.cePc with
  | .fwd it => [it]
  | _ => []

/-- restricted induction over label lists -/
theorem run_induction (P : Parser Ev PSt) (c : Cfg) (good : Label → Prop) (I : State Ev PSt → Prop)
    (hstep : ∀ s l s', good l → I s → step P c s l = some s' → I s') :
    ∀ (ls : List Label) (s0 s : State Ev PSt), I s0 → (∀ l ∈ ls, good l) → run P c s0 ls = some s → I s := by
  intro ls
  induction ls with
  | nil => intro s0 s h0 _ hr; simp [run] at hr; exact hr ▸ h0
  | cons l ls ih =>
    intro s0 s h0 hg hr
    simp only [run] at hr
    cases h : step P c s0 l with
    | none => simp [h] at hr
    | some s1 =>
      simp only [h] at hr
      exact ih s1 s (hstep _ _ _ (hg l (List.mem_cons_self ..)) h0 h) (fun l' hl' => hg l' (List.mem_cons_of_mem _ hl')) hr

/-- queue conservation (single consumer through ChannelEvents or PollEvent): nothing enqueued is lost, duplicated or reordered -/
def QueueInv (s : State Ev PSt) : Prop := s.delivered ++ s.ch ++ cePend s ++ s.eventQ = s.log ∨ s.lossy = true
/-- every decoded key event is either still pending in scanInput or was enqueued, in order -/
def KeysInv (s : State Ev PSt) : Prop := keysOf s.log ++ pending s = s.decoded ∨ s.lossy = true
/-- every injected byte is unread, held by inputLoop, in keychan, or was received by mainLoop, in order -/
def BytesInv (s : State Ev PSt) : Prop :=
  s.received ++ s.keychan.flatten ++ held s ++ s.unread.flatten = s.allInput ∨ s.lossy = true
/-- PollEvent is not used while events are in ChannelEvents' hands (single consumer) -/
def chIdle (s : State Ev PSt) : Prop := s.ch = [] ∧ cePend s = []

set_option maxHeartbeats 8000000 in
theorem step_queue (P : Parser Ev PSt) (c : Cfg) (s : State Ev PSt) (l : Label) (s' : State Ev PSt)
    (hg : l = .pollEv → chIdle s) (hi : QueueInv s) (h : step P c s l = some s') : QueueInv s' := by
  unfold QueueInv chIdle at *
  cases l <;> simp only [step] at h <;> (try split at h) <;>
    (try simp only [Model.Pipeline.guard_eq_some, Option.some.injEq, reduceCtorEq, Bool.and_eq_true] at h) <;>
    (try (obtain ⟨hg', rfl⟩ := h)) <;> (try subst h) <;> (try contradiction)
  all_goals first
    | exact hi
    | (rcases hi with hi | hi
       · replace hi := hi.symm
         first | (simp_all [cePend, push, engage, CePc.isSel, CePc.isIdle, CePc.isClosing]; done) | (cases hce : s.cePc <;> simp_all [cePend, push, engage, CePc.isSel, CePc.isIdle, CePc.isClosing] <;> done)
       · first | (simp_all [cePend, push, engage, CePc.isSel, CePc.isIdle, CePc.isClosing]; done) | (cases hce : s.cePc <;> simp_all [cePend, push, engage, CePc.isSel, CePc.isIdle, CePc.isClosing] <;> done))

set_option maxHeartbeats 8000000 in
theorem step_keys (P : Parser Ev PSt) (c : Cfg) (s : State Ev PSt) (l : Label) (s' : State Ev PSt)
    (hi : KeysInv s) (h : step P c s l = some s') : KeysInv s' := by
  unfold KeysInv at *
  cases l <;> simp only [step] at h <;> (try split at h) <;>
    (try simp only [Model.Pipeline.guard_eq_some, Option.some.injEq, reduceCtorEq, Bool.and_eq_true] at h) <;>
    (try (obtain ⟨hg', rfl⟩ := h)) <;> (try subst h) <;> (try contradiction)
  all_goals first
    | exact hi
    | (rcases hi with hi | hi
       · replace hi := hi.symm
         first | (simp_all [pending, push, engage, keysOf, MainPc.isSel, MainPc.isTimerCase, MainPc.isResizing, MainPc.isExiting, MainPc.isIdle]; done) | (cases hm : s.mainPc <;> simp_all [pending, push, engage, keysOf, MainPc.isSel, MainPc.isTimerCase, MainPc.isResizing, MainPc.isExiting, MainPc.isIdle] <;> done)
       · first | (simp_all [pending, push, engage, keysOf, MainPc.isSel, MainPc.isTimerCase, MainPc.isResizing, MainPc.isExiting, MainPc.isIdle]; done) | (cases hm : s.mainPc <;> simp_all [pending, push, engage, keysOf, MainPc.isSel, MainPc.isTimerCase, MainPc.isResizing, MainPc.isExiting, MainPc.isIdle] <;> done))

set_option maxHeartbeats 8000000 in
theorem step_bytes (P : Parser Ev PSt) (c : Cfg) (s : State Ev PSt) (l : Label) (s' : State Ev PSt)
    (hi : BytesInv s) (h : step P c s l = some s') : BytesInv s' := by
  unfold BytesInv at *
  cases l <;> simp only [step] at h <;> (try split at h) <;>
    (try simp only [Model.Pipeline.guard_eq_some, Option.some.injEq, reduceCtorEq, Bool.and_eq_true] at h) <;>
    (try (obtain ⟨hg', rfl⟩ := h)) <;> (try subst h) <;> (try contradiction)
  all_goals first
    | exact hi
    | (rcases hi with hi | hi
       · replace hi := hi.symm
         first | (simp_all [held, push, engage]; done) | (cases hn : s.inPc <;> simp_all [held, push, engage] <;> done)
       · first | (simp_all [held, push, engage]; done) | (cases hn : s.inPc <;> simp_all [held, push, engage] <;> done))

set_option maxHeartbeats 8000000 in
theorem step_chIdle (P : Parser Ev PSt) (c : Cfg) (s : State Ev PSt) (l : Label) (s' : State Ev PSt)
    (hg : l ≠ .ceEv) (hi : chIdle s) (h : step P c s l = some s') : chIdle s' := by
  unfold chIdle at *
  cases l <;> simp only [step] at h <;> (try split at h) <;>
    (try simp only [Model.Pipeline.guard_eq_some, Option.some.injEq, reduceCtorEq, Bool.and_eq_true] at h) <;>
    (try (obtain ⟨hg', rfl⟩ := h)) <;> (try subst h) <;> (try contradiction)
  all_goals first
    | exact hi
    | (simp_all [cePend, push, engage, CePc.isSel, CePc.isIdle, CePc.isClosing]; done)
    | (cases hce : s.cePc <;> simp_all [cePend, push, engage, CePc.isSel, CePc.isIdle, CePc.isClosing] <;> done)

theorem inv_init (pst0 : PSt) :
    QueueInv (init pst0 : State Ev PSt) ∧ KeysInv (init pst0 : State Ev PSt) ∧ BytesInv (init pst0 : State Ev PSt) ∧
    chIdle (init pst0 : State Ev PSt) := by
  simp [QueueInv, KeysInv, BytesInv, chIdle, init, cePend, pending, held, keysOf]

/-- **`pipeline_inv` (consumer = PollEvent).**  For every label list without ChannelEvents receiving (every interleaving of
input arrival, read faults, resizes, any number of PostEvent calls, polls at arbitrary moments or never, Suspend/Resume/Fini),
every capacity and every parser: unless something was discarded by a shutdown (`lossy`),
* delivered ++ eventQ is exactly the sequence of everything ever enqueued (nothing lost, duplicated or reordered),
* the key events enqueued so far followed by the ones pending in scanInput are exactly the decoded events, in order,
* received ++ keychan ++ chunk held by inputLoop ++ unread is exactly the injected input (back-pressure, not loss). -/
theorem pipeline_inv (P : Parser Ev PSt) (c : Cfg) (pst0 : PSt) (ls : List Label) (s : State Ev PSt)
    (hpoll : ∀ l ∈ ls, l ≠ .ceEv) (hr : run P c (init pst0) ls = some s) :
    QueueInv s ∧ KeysInv s ∧ BytesInv s ∧ chIdle s :=
  run_induction P c (· ≠ .ceEv) (fun s => QueueInv s ∧ KeysInv s ∧ BytesInv s ∧ chIdle s)
    (fun s l s' hg hi h => ⟨step_queue P c s l s' (fun _ => hi.2.2.2) hi.1 h, step_keys P c s l s' hi.2.1 h,
      step_bytes P c s l s' hi.2.2.1 h, step_chIdle P c s l s' hg hi.2.2.2 h⟩)
    ls (init pst0) s (inv_init pst0) hpoll hr

/-- **`pipeline_inv` (consumer = one ChannelEvents reader).**  Same statement with the events in ChannelEvents' hands
(`ch`, and the one it holds between its two selects) in the middle: ChannelEvents forwards in order. -/
theorem pipeline_inv_chan (P : Parser Ev PSt) (c : Cfg) (pst0 : PSt) (ls : List Label) (s : State Ev PSt)
    (hchan : ∀ l ∈ ls, l ≠ .pollEv) (hr : run P c (init pst0) ls = some s) :
    QueueInv s ∧ KeysInv s ∧ BytesInv s :=
  run_induction P c (· ≠ .pollEv) (fun s => QueueInv s ∧ KeysInv s ∧ BytesInv s)
    (fun s l s' hg hi h => ⟨step_queue P c s l s' (fun e => absurd e hg) hi.1 h, step_keys P c s l s' hi.2.1 h,
      step_bytes P c s l s' hi.2.2 h⟩)
    ls (init pst0) s ⟨(inv_init pst0).1, (inv_init pst0).2.1, (inv_init pst0).2.2.1⟩ hchan hr

/-- **exactly once, in order.**  What the application has received is a prefix of what was enqueued, and the key events in
it are a prefix of the decoded events: no loss, no duplicate, no reordering — for every interleaving and polling pattern. -/
theorem exactly_once_in_order (P : Parser Ev PSt) (c : Cfg) (pst0 : PSt) (ls : List Label) (s : State Ev PSt)
    (hpoll : ∀ l ∈ ls, l ≠ .ceEv) (hr : run P c (init pst0) ls = some s) (hl : s.lossy = false) :
    s.delivered <+: s.log ∧ keysOf s.delivered <+: s.decoded := by
  obtain ⟨hq, hk, _, hc⟩ := pipeline_inv P c pst0 ls s hpoll hr
  rcases hq with hq | hq
  · rcases hk with hk | hk
    · refine ⟨⟨s.ch ++ cePend s ++ s.eventQ, by rw [← hq]; simp⟩, ?_⟩
      rw [← hk, ← hq]
      exact ⟨keysOf (s.ch ++ cePend s ++ s.eventQ) ++ pending s, by simp⟩
    · simp [hl] at hk
  · simp [hl] at hq

/-- when everything has been consumed, the delivered key events are exactly the decoded ones -/
theorem all_delivered_when_drained (P : Parser Ev PSt) (c : Cfg) (pst0 : PSt) (ls : List Label) (s : State Ev PSt)
    (hpoll : ∀ l ∈ ls, l ≠ .ceEv) (hr : run P c (init pst0) ls = some s) (hl : s.lossy = false)
    (hq : s.eventQ = []) (hp : pending s = []) : keysOf s.delivered = s.decoded := by
  obtain ⟨hqi, hk, _, hc⟩ := pipeline_inv P c pst0 ls s hpoll hr
  rcases hqi with hqi | hqi
  · rcases hk with hk | hk
    · rw [← hk, ← hqi, hc.1, hc.2, hq, hp]; simp
    · simp [hl] at hk
  · simp [hl] at hqi

/-- **`post_nil_iff_enqueued`.**  PostEvent never blocks; it returns nil (`postOk`) exactly when it enqueued the event, and
ErrEventQFull exactly when it enqueued nothing. -/
theorem post_nil_iff_enqueued (P : Parser Ev PSt) (c : Cfg) (s s' : State Ev PSt) (h : step P c s .post = some s') :
    (postOk c s = true ∧ s'.log = s.log ++ [.posted s.nextSeq] ∧ s'.eventQ = s.eventQ ++ [.posted s.nextSeq]) ∨
    (postOk c s = false ∧ s'.log = s.log ∧ s'.eventQ = s.eventQ) := by
  simp only [step] at h
  cases hf : full c.eqCap s.eventQ <;> simp [hf] at h <;> subst h <;> simp [postOk, hf, push]

theorem post_always_enabled (P : Parser Ev PSt) (c : Cfg) (s : State Ev PSt) : enabled P c s .post = true := by
  simp only [enabled, step]; cases full c.eqCap s.eventQ <;> simp

/-- posted events carry increasing sequence numbers and the queue is FIFO (`pipeline_inv`): per-goroutine posting order is
preserved.  Here: the sequence number only grows. -/
theorem post_seq_increases (P : Parser Ev PSt) (c : Cfg) (s s' : State Ev PSt) (h : step P c s .post = some s') :
    s'.nextSeq = s.nextSeq + 1 := by
  simp only [step] at h
  cases hf : full c.eqCap s.eventQ <;> simp [hf] at h <;> subst h <;> simp [push]

set_option maxHeartbeats 8000000 in
/-- **`pending_implies_nonblocking`.**  If HasPendingEvent is true, it stays true under every step that is not the (single)
consumer taking an event, and PollEvent is enabled: the next PollEvent does not block. -/
theorem pending_implies_nonblocking (P : Parser Ev PSt) (c : Cfg) (s s' : State Ev PSt) (l : Label)
    (hp : hasPending s = true) (h : step P c s l = some s') (h1 : l ≠ .pollEv) (h2 : l ≠ .ceEv) :
    hasPending s' = true ∧ enabled P c s' .pollEv = true := by
  have key : ∀ t : State Ev PSt, hasPending t = true → enabled P c t .pollEv = true := by
    intro t ht
    simp only [hasPending] at ht
    simp only [enabled, step]
    cases hq : t.eventQ <;> simp_all
  suffices hs : hasPending s' = true from ⟨hs, key s' hs⟩
  simp only [hasPending] at *
  cases l <;> simp only [step] at h <;> (try split at h) <;>
    (try simp only [Model.Pipeline.guard_eq_some, Option.some.injEq, reduceCtorEq, Bool.and_eq_true] at h) <;>
    (try (obtain ⟨hg', rfl⟩ := h)) <;> (try subst h) <;> (try contradiction)
  all_goals first
    | exact hp
    | (simp_all [push, engage]; done)

set_option maxHeartbeats 8000000 in
/-- **`lossy_only_after_shutdown`.**  Something can only be discarded once `quit`, `stopQ` or the ChannelEvents quit channel
is closed (or at an engage, i.e. after a complete Suspend): before any shutdown, back-pressure is the only thing that happens. -/
theorem lossy_only_after_shutdown (P : Parser Ev PSt) (c : Cfg) (s s' : State Ev PSt) (l : Label)
    (h : step P c s l = some s') (h0 : s.lossy = false) (h1 : s'.lossy = true) :
    s.quit = true ∨ s.stop = true ∨ s.userQuit = true ∨ s.running = false := by
  cases l <;> simp only [step] at h <;> (try split at h) <;>
    (try simp only [Model.Pipeline.guard_eq_some, Option.some.injEq, reduceCtorEq, Bool.and_eq_true] at h) <;>
    (try (obtain ⟨hg', rfl⟩ := h)) <;> (try subst h) <;> (try contradiction)
  all_goals first
    | (simp_all [push, engage]; done)
    | (simp [h0, push] at h1; done)

/-- **`channel_events_closes`.**  Once `quit` (Fini) or the caller's quit channel is closed, a ChannelEvents goroutine at either
of its selects has an enabled step that leads to closing its channel, and nothing else is in its way. -/
theorem channel_events_closes (P : Parser Ev PSt) (c : Cfg) (s : State Ev PSt) (hq : s.quit = true ∨ s.userQuit = true) :
    (s.cePc.isSel = true → enabled P c s .ceStop = true ∨ enabled P c s .ceQuit = true) ∧
    (∀ it, s.cePc = .fwd it → enabled P c s .ceFwdStop = true ∨ enabled P c s .ceFwdQuit = true) ∧
    (s.cePc.isClosing = true → enabled P c s .ceClose = true) := by
  refine ⟨?_, ?_, ?_⟩
  · intro h; rcases hq with hq | hq <;> simp [enabled, step, Model.Pipeline.guard, h, hq]
  · intro it h; rcases hq with hq | hq <;> simp [enabled, step, Model.Pipeline.guard, h, hq]
  · intro h; simp [enabled, step, Model.Pipeline.guard, h]

/-- **decode is independent of chunking and interleaving.**  Under the parser's chunk law, as long as the escape timer has not
decoded anything on its own (no `timerScan`) and nothing was discarded, the events decoded so far, the parser registers
and the buffered bytes are exactly what one call of `collect` on all bytes received so far gives.  With `pipeline_inv`:
delivered ++ queued ++ pending ++ (events still to be decoded from buf ++ keychan ++ unread) = events of the whole input. -/
theorem decode_independent_of_chunking (P : Parser Ev PSt) (law : ChunkLaw P) (c : Cfg) (pst0 : PSt) (ls : List Label)
    (s : State Ev PSt) (hno : ∀ l ∈ ls, l ≠ .timerScan) (hr : run P c (init pst0) ls = some s) :
    P.collect pst0 s.received false = (s.decoded, s.pst, s.buf) ∨ s.lossy = true := by
  refine run_induction P c (· ≠ .timerScan)
    (fun s => P.collect pst0 s.received false = (s.decoded, s.pst, s.buf) ∨ s.lossy = true) ?_ ls (init pst0) s
    (Or.inl (law.nil pst0)) hno hr
  intro s l s' hg hi h
  cases l <;> simp only [step] at h <;> (try split at h) <;>
    (try simp only [Model.Pipeline.guard_eq_some, Option.some.injEq, reduceCtorEq, Bool.and_eq_true] at h) <;>
    (try (obtain ⟨hg', rfl⟩ := h)) <;> (try subst h) <;> (try contradiction)
  all_goals first
    | exact hi
    | (rcases hi with hi | hi
       · first
         | (left; simp only [push]; exact hi)
         | (right; simp; done)
         | (left; rw [law.append, hi]; first | done | rfl)
         | (cases hb : s.buf <;> simp_all [engage]; done)
       · right; simp_all [push, engage])

/-- the hypotheses are satisfiable: the byte parser obeys the chunk law, and a run with a slow consumer (eventQ of capacity 1,
three events, polls only at the end) delivers everything in order -/
def byteParser : Parser Nat Unit := { collect := fun st b _ => (b, st, []) }

theorem byteParser_law : ChunkLaw byteParser := ⟨fun _ => rfl, fun _ _ _ => by simp [byteParser]⟩

example :
    (run byteParser { eqCap := 1, kcCap := 1 } (init ())
      [.callInit, .inject [1, 2], .inject [3], .inToRead, .inReadChunk, .inSent, .mainChunk, .scanSent,
       .inToRead, .inReadChunk, .inSent, .post, .pollEv, .scanSent, .chunkEnd, .pollEv, .mainChunk, .scanSent, .chunkEnd,
       .pollEv]).map (fun s => (s.delivered, s.lossy, s.decoded)) =
    some ([.key 1, .key 2, .key 3], false, [1, 2, 3]) := by decide

end Tcell.Props.C05
