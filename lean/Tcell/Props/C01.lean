/-
C01 — terminal display equals the logical screen after Show, Sync and resize.   **Layer A.**

What is proved here, for *every* finite history of SetContent/SetCell/Fill/Clear/SetStyle/ShowCursor/
SetCursorStyle/LockRegion/Show/Sync/window-resize/external-corruption operations, every screen size, every
coordinate (in or out of range), every rune / combining list / style, and every terminal description
without the bottom-right "insert character" trick (tscreen.go:815; of the built-in database only beterm,
cygwin, sun and sun-color use it — `Tcell.Props.C01.noCornerTrick_db` lists them by kernel evaluation):

  the *abstract* terminal (`Tcell.ATerm`, interpreting the draw path's abstract commands with deferred
  wrap, two-column glyphs and "overwriting half a wide glyph blanks the other half") shows, after Show /
  Sync / a notified resize, in every unlocked cell that is not the hidden right half of a wide rune, exactly
  the payload of the rune and combining runes last set there, in the style last set there (StyleDefault
  resolved to the screen style), two columns wide for a wide rune, a blank for a wide rune in the last
  column, with the cursor visible at the requested cell, or hidden / parked bottom-right when off-screen.

`hct : c.Plain` = no corner trick; the locked-neighbour guard of drawCell (`c.guardLocked`, see
`Tcell.currentGuardsLockedNeighbour`) is ARBITRARY: the theorems cover the pinned drawCell (`guardLocked = false`), the tree as
it is (`guardLocked = true`, fixes/C13-wide-left-of-locked.patch committed) and the tree with the proposed
fixes/C13-locked-wide-walk.patch on top (`walkGuard = true`).  On the repaired trees a wide rune whose right neighbour is locked
when it is painted is shown as a blank of width 1 — the policy of the last column; the invariant (`SyncInv.g1`, `BlankOk`)
remembers that such a cell is a blank only while the neighbour stays locked: LockRegion(…, false) re-dirties it
(`Tcell.redirtyLeft`), so the first Show afterwards draws it two columns wide again, while a rune painted two columns wide
before its neighbour was locked stays as painted.  `Displays.cells` states the clause explicitly (`nl`), and
`Tcell.Props.C13.displays_repaired_cell` derives contributor R's `DisplaysRepairedCell` from it.
"Visited" cells are those the draw loop of this very Show visits (`visitedG`, evaluated on the buffer the loop starts from):
on the tree as it is the loop's skipping depends on which cells are Dirty (finding C13-locked-wide-walk), so it cannot be
read off the final buffer; for `guardLocked = false` it is the pinned `visited` (`visitedG_eq_visited`).

The theorems are named `…_partial` because two things are not covered by them: (1) the four corner-trick
entries, (2) Layer B — that the *bytes* rendered for each abstract command drive a byte-level ECMA-48
terminal (`Tcell.Spec.Ecma48`) the way `ATerm.apply` says; that layer is validated on every run by the
correspondence (model bytes = implementation bytes) and by the reference emulator judging the
implementation's own bytes (see DESIGN.md §5 C01).
-/
import Tcell.Lemmas.World
import Tcell.Base.Utf8
namespace Tcell.Props.C01
open Tcell

variable {c : DrawCfg}

/-- **Show is faithful** (Layer A). After any valid history, if nothing outside the library has disturbed the
display since it was last completely repainted (`trusted`), or the window size changed and this Show notices it,
then after Show every visited unlocked cell is clean and displayed as last set, and the cursor is where it
should be. -/
theorem show_faithful_partial (hrw : RwOk c.rw) (hct : c.Plain) (w h : Int) (ops : List ScrOp)
    (hv : ∀ op ∈ ops, op.Valid c) :
    let wd := (World.init w h).run c ops
    (wd.trusted = true ∨ ¬ (wd.sw.ttyw = wd.sw.s.w ∧ wd.sw.ttyh = wd.sw.s.h)) →
      Displays c (wd.sw.s.resize (some (wd.sw.ttyw, wd.sw.ttyh))).cells (wd.step c .show) :=
  fun h' => (show_step hrw hct (reach_inv hrw hct w h ops hv)).2 h'

/-- **Sync is faithful from arbitrary terminal contents** (Layer A): no trust hypothesis — whatever happened to
the display before (external corruption, unnoticed resizes), after Sync it shows the logical screen; it is trusted
again and every StyleDefault cell is shown in the current screen style. -/
theorem sync_faithful_partial (hrw : RwOk c.rw) (hct : c.Plain) (w h : Int) (ops : List ScrOp)
    (hv : ∀ op ∈ ops, op.Valid c) :
    let wd := (World.init w h).run c ops
    Displays c (wd.sw.s.prepSync (some (wd.sw.ttyw, wd.sw.ttyh))).cells (wd.step c .sync) ∧ (wd.step c .sync).trusted = true ∧
      (wd.step c .sync).d = some (wd.step c .sync).sw.s.style :=
  (sync_step hrw hct (reach_inv hrw hct w h ops hv)).2

/-- **A reported new size is honoured from arbitrary contents** (Layer A): after the window changed to w'×h' and
the resize notification was processed, the display (whose contents the resize left arbitrary) shows the logical
screen at the new size. -/
theorem resize_faithful_partial (hrw : RwOk c.rw) (hct : c.Plain) (w h : Int) (ops : List ScrOp)
    (hv : ∀ op ∈ ops, op.Valid c) (w' h' : Int) :
    let wd := (World.init w h).run c ops
    Displays c (wd.sw.s.prepResize (some (w', h'))).cells (wd.step c (.ttyResizeNotify w' h')) ∧
      (wd.step c (.ttyResizeNotify w' h')).trusted = true ∧
      (wd.step c (.ttyResizeNotify w' h')).d = some (wd.step c (.ttyResizeNotify w' h')).sw.s.style :=
  (notify_step hrw hct (reach_inv hrw hct w h ops hv) w' h').2

/-- The same when the notification is lost: the next Show notices the new size itself. -/
theorem resize_noticed_by_show_partial (hrw : RwOk c.rw) (hct : c.Plain) (w h : Int) (ops : List ScrOp)
    (hv : ∀ op ∈ ops, op.Valid c) (w' h' : Int)
    (hne : ¬ (w' = ((World.init w h).run c ops).sw.s.w ∧ h' = ((World.init w h).run c ops).sw.s.h)) :
    let wd := ((World.init w h).run c ops).step c (.ttyResizeQuiet w' h')
    Displays c (wd.sw.s.resize (some (wd.sw.ttyw, wd.sw.ttyh))).cells (wd.step c .show) := by
  intro wd
  have hv' : ∀ op ∈ ops ++ [ScrOp.ttyResizeQuiet w' h'], op.Valid c := by
    intro op ho; rcases List.mem_append.1 ho with ho | ho
    · exact hv op ho
    · simp only [List.mem_singleton] at ho; subst ho; trivial
  have inv := reach_inv hrw hct w h (ops ++ [ScrOp.ttyResizeQuiet w' h']) hv'
  simp only [World.run, List.foldl_append, List.foldl_cons, List.foldl_nil] at inv
  exact (show_step hrw hct inv).2 (Or.inr hne)

/-- Every reachable world satisfies the cross-Show invariant whenever it is trusted: clean unlocked cells show
what they held when they were painted, continuation cells belong to dirty or locked cells, the terminal grid is
well formed. (The invariant the three theorems above rest on; useful on its own between Shows.) -/
theorem invariant_partial (hrw : RwOk c.rw) (hct : c.Plain) (w h : Int) (ops : List ScrOp)
    (hv : ∀ op ∈ ops, op.Valid c) :
    let wd := (World.init w h).run c ops
    wd.trusted = true → SyncInv c wd.d wd.sw.s wd.t :=
  fun ht => (reach_inv hrw hct w h ops hv).tr ht

/-! ## the corner-trick family: every terminal description, the four bottom-right insert-character entries included

`hct : c.Walk` asks nothing about `c.cornerTrick`.  The trick branch of drawCell (write the corner glyph at column w-2,
`ich1`, repaint the cell that covers column w-2 — `Scr.drawCell`, `Scr.cornerPx`, with the cover repaint of fix 2b80961)
is carried through the cross-Show invariant (`Lemmas/DrawCorner.lean: visit_corner`) on the abstract terminal whose
`insertChar` is ICH (`ATerm.insertAt`).  The honest SIDE CONDITION is `World.SafeRun` / `World.SafeAt`
(Lemmas/World.lean; decidable, `cornerSafeB`): at every Show / Sync / noticed resize on a terminal that needs the trick,
the screen has at least two columns and **no cell of its last row is locked**.  It is vacuous for `cornerTrick = false`
(`World.SafeRun.of_plain`), so this family subsumes the one above.  Why the whole last row and not only the neighbour:
`corner_trick_lock_desync` below — one locked cell far to the left can put drawCell's `px` loop (stored widths) out of
phase with the draw loop (which steps over a wide rune beside a locked cell by one column), and then the trick destroys
a clean unlocked wide rune.  With the neighbour itself locked the trick writes into a locked cell (open finding
C13-corner-trick-locked-neighbour).  `_partial`: Layer A only, and the side condition (incl. a screen one column wide,
where the trick degenerates). -/

theorem show_faithful_corner_partial (hrw : RwOk c.rw) (hct : c.Walk) (w h : Int) (ops : List ScrOp)
    (hv : ∀ op ∈ ops, op.Valid c) (hsafe : World.SafeRun c (World.init w h) ops)
    (hlast : ((World.init w h).run c ops).SafeAt c .show) :
    let wd := (World.init w h).run c ops
    (wd.trusted = true ∨ ¬ (wd.sw.ttyw = wd.sw.s.w ∧ wd.sw.ttyh = wd.sw.s.h)) →
      Displays c (wd.sw.s.resize (some (wd.sw.ttyw, wd.sw.ttyh))).cells (wd.step c .show) :=
  fun h' => (show_step_c hrw hct (reach_inv_c hrw hct w h ops hv hsafe) hlast).2 h'

theorem sync_faithful_corner_partial (hrw : RwOk c.rw) (hct : c.Walk) (w h : Int) (ops : List ScrOp)
    (hv : ∀ op ∈ ops, op.Valid c) (hsafe : World.SafeRun c (World.init w h) ops)
    (hlast : ((World.init w h).run c ops).SafeAt c .sync) :
    let wd := (World.init w h).run c ops
    Displays c (wd.sw.s.prepSync (some (wd.sw.ttyw, wd.sw.ttyh))).cells (wd.step c .sync) ∧ (wd.step c .sync).trusted = true ∧
      (wd.step c .sync).d = some (wd.step c .sync).sw.s.style :=
  (sync_step_c hrw hct (reach_inv_c hrw hct w h ops hv hsafe) hlast).2

theorem resize_faithful_corner_partial (hrw : RwOk c.rw) (hct : c.Walk) (w h : Int) (ops : List ScrOp)
    (hv : ∀ op ∈ ops, op.Valid c) (hsafe : World.SafeRun c (World.init w h) ops) (w' h' : Int)
    (hlast : ((World.init w h).run c ops).SafeAt c (.ttyResizeNotify w' h')) :
    let wd := (World.init w h).run c ops
    Displays c (wd.sw.s.prepResize (some (w', h'))).cells (wd.step c (.ttyResizeNotify w' h')) ∧
      (wd.step c (.ttyResizeNotify w' h')).trusted = true ∧
      (wd.step c (.ttyResizeNotify w' h')).d = some (wd.step c (.ttyResizeNotify w' h')).sw.s.style :=
  (notify_step_c hrw hct (reach_inv_c hrw hct w h ops hv hsafe) w' h' hlast).2

theorem resize_noticed_by_show_corner_partial (hrw : RwOk c.rw) (hct : c.Walk) (w h : Int) (ops : List ScrOp)
    (hv : ∀ op ∈ ops, op.Valid c) (hsafe : World.SafeRun c (World.init w h) ops) (w' h' : Int)
    (hne : ¬ (w' = ((World.init w h).run c ops).sw.s.w ∧ h' = ((World.init w h).run c ops).sw.s.h))
    (hlast : (((World.init w h).run c ops).step c (.ttyResizeQuiet w' h')).SafeAt c .show) :
    let wd := ((World.init w h).run c ops).step c (.ttyResizeQuiet w' h')
    Displays c (wd.sw.s.resize (some (wd.sw.ttyw, wd.sw.ttyh))).cells (wd.step c .show) := by
  intro wd
  have hv' : ∀ op ∈ ops ++ [ScrOp.ttyResizeQuiet w' h'], op.Valid c := by
    intro op ho; rcases List.mem_append.1 ho with ho | ho
    · exact hv op ho
    · simp only [List.mem_singleton] at ho; subst ho; trivial
  have inv := reach_inv_c hrw hct w h (ops ++ [ScrOp.ttyResizeQuiet w' h']) hv' (World.SafeRun.append ops _ _ hsafe trivial)
  simp only [World.run, List.foldl_append, List.foldl_cons, List.foldl_nil] at inv
  exact (show_step_c hrw hct inv hlast).2 (Or.inr hne)

theorem invariant_corner_partial (hrw : RwOk c.rw) (hct : c.Walk) (w h : Int) (ops : List ScrOp)
    (hv : ∀ op ∈ ops, op.Valid c) (hsafe : World.SafeRun c (World.init w h) ops) :
    let wd := (World.init w h).run c ops
    wd.trusted = true → SyncInv c wd.d wd.sw.s wd.t :=
  fun ht => (reach_inv_c hrw hct w h ops hv hsafe).tr ht

/-- the corner family contains the plain one: without the trick the side condition holds for every history -/
theorem safeRun_of_plain (hct : c.Plain) (wd : World) (ops : List ScrOp) : World.SafeRun c wd ops :=
  World.SafeRun.of_plain hct ops wd

/-- Trust is only ever lost to the environment: library operations keep it. -/
theorem trusted_kept (wd : World) (op : ScrOp) (ht : wd.trusted = true)
    (hop : match op with | .ttyResizeQuiet _ _ => False | .corrupt => False | _ => True) :
    (wd.step c op).trusted = true := by
  cases op <;> simp_all [World.step]
  split <;> simp_all

/-! ### non-vacuity: a concrete 4×2 screen with a wide rune, a combining mark, a style and a lock -/

def rwDemo : Rune → Int := fun r => if r = 0x4e16 then 2 else if r = 0 ∨ r = 0x301 then 0 else 1
def cfgDemo : DrawCfg :=
  { rw := rwDemo, payload := fun m comb => Utf8.encode m ++ comb.flatMap Utf8.encode, hasHide := true, cornerTrick := false,
    guardLocked := false, walkGuard := false }   -- the pinned drawCell, whatever the `current…` defaults say

theorem cfgDemo_plain : cfgDemo.Plain := ⟨rfl, fun h => absurd h (by decide)⟩

/-- the same configuration with the locked-neighbour guard compiled in (the tree as it is), and with the walk fix on top -/
def cfgGuard : DrawCfg := { cfgDemo with guardLocked := true }
def cfgWalk : DrawCfg := { cfgDemo with guardLocked := true, walkGuard := true }
theorem cfgGuard_plain : cfgGuard.Plain := ⟨rfl, fun h => absurd h (by decide)⟩
theorem cfgWalk_plain : cfgWalk.Plain := ⟨rfl, fun _ => rfl⟩

theorem rwDemo_ok : RwOk rwDemo :=
  { zero := by decide, space := by decide,
    nonneg := by intro r; unfold rwDemo; split <;> (try split) <;> omega,
    le2 := by intro r; unfold rwDemo; split <;> (try split) <;> omega }

def opsDemo : List ScrOp :=
  [.setContent 0 0 0x4e16 [] { fg := 2^32 + 1 }, .setContent 2 0 0x61 [0x301] {}, .lockRegion 3 1 1 1 true,
   .setStyle { bg := 2^32 + 4 }, .showCursor 2 0]

example : ∀ op ∈ opsDemo, op.Valid cfgDemo := by simp [opsDemo, ScrOp.Valid, attrInvalid]
example : ((World.init 4 2).run cfgDemo opsDemo).trusted = true := by decide
-- after Show the wide rune occupies cells (0,0) and (1,0), the combining mark rides on 'a', the cursor is at (2,0)
example : (((World.init 4 2).run cfgDemo opsDemo).step cfgDemo .show).t.grid 0 0 =
    .shown [0xe4, 0xb8, 0x96] true { fg := 2^32 + 1 } := by decide +kernel
example : (((World.init 4 2).run cfgDemo opsDemo).step cfgDemo .show).t.grid 1 0 = .cont := by decide
example : (((World.init 4 2).run cfgDemo opsDemo).step cfgDemo .show).t.grid 2 0 =
    .shown [0x61, 0xcc, 0x81] false { bg := 2^32 + 4 } := by decide +kernel
example : (((World.init 4 2).run cfgDemo opsDemo).step cfgDemo .show).t.cur = some (2, 0) := by decide
example : visitedG cfgDemo ((World.init 4 2).run cfgDemo opsDemo).sw.s.cells 1 0 = false := by decide
example : visitedG cfgDemo ((World.init 4 2).run cfgDemo opsDemo).sw.s.cells 2 0 = true := by decide

/-! non-vacuity with the guard compiled in: a wide rune left of a locked cell (3×1 screen: 'b' at (1,0) shown, then locked;
a wide rune put at (0,0)).  The hypotheses of the theorems hold, the Show paints the rune as a blank of width 1, and after
LockRegion(…, false) the next Show draws it two columns wide. -/

def opsGuard : List ScrOp :=
  [.setContent 1 0 0x62 [] {}, .show, .lockRegion 1 0 1 1 true, .setContent 0 0 0x4e16 [] {}]

example : ∀ op ∈ opsGuard, op.Valid cfgGuard := by simp [opsGuard, ScrOp.Valid, attrInvalid]
example : ((World.init 3 1).run cfgGuard opsGuard).trusted = true := by decide
example : visitedG cfgGuard ((World.init 3 1).run cfgGuard opsGuard).sw.s.cells 0 0 = true := by decide
example : (((World.init 3 1).run cfgGuard opsGuard).step cfgGuard .show).t.grid 0 0 = .shown [32] false {} := by decide +kernel
example : (((World.init 3 1).run cfgGuard opsGuard).step cfgGuard .show).t.grid 1 0 = .shown [0x62] false {} := by decide +kernel
example : (((World.init 3 1).run cfgGuard (opsGuard ++ [.show, .lockRegion 1 0 1 1 false])).step cfgGuard .show).t.grid 0 0 =
    .shown [0xe4, 0xb8, 0x96] true {} := by decide +kernel

/-! non-vacuity of the corner family: a 4×2 screen on a terminal that needs the trick (`cornerTrick := true`, the tree as it
is), a wide rune in the last row covering the second to last column, a locked cell in the FIRST row (allowed).  The corner
cell is changed between two Shows: the second Show runs the trick (write at column 2, ich1, repaint the wide rune at
column 1 which covers column 2). -/

def cfgCorner : DrawCfg := { cfgDemo with cornerTrick := true, guardLocked := true, walkGuard := true }
theorem cfgCorner_walk : cfgCorner.Walk := ⟨fun _ => rfl⟩

def opsCorner : List ScrOp :=
  [.setContent 0 1 0x61 [] {}, .setContent 1 1 0x4e16 [] {}, .setContent 3 1 0x5a [] {}, .lockRegion 0 0 1 1 true, .show,
   .setContent 3 1 0x59 [] { fg := 2^32 + 1 }]

example : ∀ op ∈ opsCorner, op.Valid cfgCorner := by simp [opsCorner, ScrOp.Valid, attrInvalid]
theorem opsCorner_safe : World.SafeRun cfgCorner (World.init 4 2) opsCorner :=
  ⟨trivial, trivial, trivial, trivial, cornerSafe_of_B (by decide +kernel), trivial, trivial⟩
theorem opsCorner_safe_show : ((World.init 4 2).run cfgCorner opsCorner).SafeAt cfgCorner .show :=
  cornerSafe_of_B (by decide +kernel)
example : ((World.init 4 2).run cfgCorner opsCorner).trusted = true := by decide
example : cfgCorner.cornerTrick = true := rfl
-- the corner cell is dirty, so this Show runs the trick; the `px` loop finds the wide rune at column 1
example : ((World.init 4 2).run cfgCorner opsCorner).sw.s.cells.dirty 3 1 = true := by decide +kernel
example : Scr.coverStart ((World.init 4 2).run cfgCorner opsCorner).sw.s.cells 1 3 0 3 = 1 := by decide +kernel
-- afterwards: the new glyph in the corner, the wide rune intact on columns 1-2, 'a' untouched, cursor parked at home
example : (((World.init 4 2).run cfgCorner opsCorner).step cfgCorner .show).t.grid 3 1 = .shown [0x59] false { fg := 2^32 + 1 } := by
  decide +kernel
example : (((World.init 4 2).run cfgCorner opsCorner).step cfgCorner .show).t.grid 1 1 = .shown [0xe4, 0xb8, 0x96] true {} := by
  decide +kernel
example : (((World.init 4 2).run cfgCorner opsCorner).step cfgCorner .show).t.grid 2 1 = .cont := by decide +kernel
example : (((World.init 4 2).run cfgCorner opsCorner).step cfgCorner .show).t.grid 0 1 = .shown [0x61] false {} := by decide +kernel
-- the theorem applies
example := show_faithful_corner_partial (c := cfgCorner) (by exact rwDemo_ok) cfgCorner_walk 4 2 opsCorner
  (by simp [opsCorner, ScrOp.Valid, attrInvalid]) opsCorner_safe opsCorner_safe_show

/-- **Why the side condition speaks about the whole last row** (8×1 screen, the tree as it is + the trick): the cell at column 1
is locked and holds a wide rune, column 0 holds a wide rune (painted as a blank of width 1, the draw loop steps by ONE
column there), columns 2…5 hold wide runes, column 6 a narrow one.  The draw loop visits 0,1,3,5,7; drawCell's `px`
loop walks by stored widths 0,2,4,6 and picks column 6 — a cell the display does not show (it is the right half of the rune
at column 5).  The trick writes the corner glyph over that right half and repaints column 6: the clean, unlocked, visited
wide rune at column 5 is destroyed (`garbage`) though no lock is anywhere near the corner.  Model-level witness (the model
is tied to tscreen.go by the byte-exact correspondence).  NOT listed as a finding: the two walks can only get out of phase
when a wide rune is stored in the hidden right half of another one (overlapping wide runes), cells the draw oracle
deliberately does not judge (`./check C01 --replay` of this history reports nothing); it is the reason why the invariant
cannot be carried with only the neighbour of the corner unlocked.  Related: open finding C13-corner-trick-locked-neighbour. -/
theorem corner_trick_lock_desync :
    let ops : List ScrOp := [.setContent 0 0 0x4e16 [] {}, .setContent 1 0 0x4e16 [] {}, .setContent 2 0 0x4e16 [] {},
      .setContent 3 0 0x4e16 [] {}, .setContent 4 0 0x4e16 [] {}, .setContent 5 0 0x4e16 [] {}, .setContent 6 0 0x78 [] {},
      .setContent 7 0 0x5a [] {}, .lockRegion 1 0 1 1 true, .show]
    let wd := (World.init 8 1).run cfgCorner ops
    wd.t.grid 5 0 = .garbage ∧ wd.sw.s.cells.dirty 5 0 = false ∧ wd.sw.s.cells.locked 5 0 = false ∧
      visitedG cfgCorner ((World.init 8 1).run cfgCorner (ops.take 9)).sw.s.cells 5 0 = true ∧
      wd.sw.s.cells.locked 6 0 = false ∧ wd.sw.s.cells.locked 7 0 = false ∧ wd.trusted = true := by
  decide +kernel

end Tcell.Props.C01
