/-
C07 — parameterized capability strings evaluate per terminfo(5).
Model: Tcell.Model.TParm (byte machine with the skip register of terminfo.go:340-589; `pinned` mirrors the tree,
`repaired` = with fixes/C07-*.patch).  Reference: Tcell.Spec.Terminfo5 (lexer, parser, AST, structural evaluator).
-/
import Tcell.Lemmas.TParmFmt
import Tcell.Gen.TerminfoDB
namespace Tcell.Props.C07
open Tcell Tcell.TParm Tcell.Spec.Terminfo5

/-! ### the pinned code does not refine terminfo(5): witnesses (each is reproduced on the Go code by the oracle) -/

/-- `%?%p1%t%?%p2%tA%eB%;%eC%;` -/
def nestedProg : Bytes := [37,63,37,112,49,37,116,37,63,37,112,50,37,116,65,37,101,66,37,59,37,101,67,37,59]

/-- A conditional nested inside a skipped branch: the pinned machine answers "B", terminfo(5) says "C"
(the outer test is false, so only the outer else part may run). -/
theorem nested_cond_counterexample :
    (tparmV pinned nestedProg [.int 0, .int 1] noVars).1 = [66] ∧
    (parse nestedProg).map (fun a => (Spec.Terminfo5.tparm a [.int 0, .int 1] noVars).1) = some [67] := by
  decide

/-- … and the repaired machine (nesting counter in the two skip states) answers "C". -/
theorem nested_cond_repaired : (tparmV repaired nestedProg [.int 0, .int 1] noVars).1 = [67] := by decide

/-- `%p1%p2%A%d` with (1,1): the pinned code has no `%A`/`%O` (echoes "%A" and prints the top of stack). -/
theorem logical_and_counterexample :
    (tparmV pinned [37,112,49,37,112,50,37,65,37,100] [.int 1, .int 1] noVars).1 = [37,65,49] ∧
    (parse [37,112,49,37,112,50,37,65,37,100]).map (fun a => (Spec.Terminfo5.tparm a [.int 1, .int 1] noVars).1) = some [49] ∧
    (tparmV repaired [37,112,49,37,112,50,37,65,37,100] [.int 1, .int 1] noVars).1 = [49] := by
  decide

/-- `%p1%#x` with 255: terminfo(5) needs the colon only before `-` and `+`; the pinned code echoes "%#x". -/
theorem format_flag_counterexample :
    (tparmV pinned [37,112,49,37,35,120] [.int 255] noVars).1 = [37,35,120] ∧
    (parse [37,112,49,37,35,120]).map (fun a => (Spec.Terminfo5.tparm a [.int 255] noVars).1) = some [48,120,102,102] ∧
    (tparmV repaired [37,112,49,37,35,120] [.int 255] noVars).1 = [48,120,102,102] := by
  decide

/-! ### never hangs, never panics: the loop is fuelled by the input length and that is always enough -/

/-- Every iteration of the loop consumes at least one byte of the program, whatever the bytes are. -/
theorem step_consumes (v : Variant) (inp : Bytes) (s : St) (k : Skip) (h : inp ≠ []) :
    (step v inp s k).1.length < inp.length := step_length v inp s k h

/-- `TParm` halts on arbitrary bytes: running with the input length as fuel has consumed the whole program, i.e. any
additional fuel changes nothing.  (Every Go operation the model mirrors is total in the model: empty-stack pops,
out-of-range `%p`, division by zero and a premature end of the string have explicit results, so there is no panic
state to reach.) -/
theorem tparm_total (v : Variant) (prog : Bytes) (s : St) (k : Skip) (extra : Nat) :
    run v (prog.length + extra) prog s k = run v prog.length prog s k := run_extra_fuel v prog.length prog s k extra (Nat.le_refl _)

example : run pinned ([37, 112, 37].length + 100) [37, 112, 37] {} .emit = run pinned [37, 112, 37].length [37, 112, 37] {} .emit :=
  tparm_total pinned [37, 112, 37] {} .emit 100

/-! ### refinement of the terminfo(5) reference -/

/-- **tparm_straight_line** (formerly `tparm_refines_spec_partial`; superseded as the headline by `tparm_refines_spec`, kept
under a non-`_partial` name because it is not a corollary of it: it holds for BOTH machine variants and without the
`specified` side condition).  Straight-line special case: for every
sequence of valid tokens other than `%{n}`, printf formats, `%A`/`%O` and the conditional markers, any parameters and
any static variables, the pinned and the repaired machine compute exactly what the terminfo(5) reference computes.
(The full statements are `tparm_refines_spec` for the repaired and `tparm_pinned_refines_spec` for the pinned
machine below; the full statement is false for the pinned machine, `nested_cond_counterexample`.) -/
theorem tparm_straight_line (v : Variant) (ts : List Tok)
    (h : ∀ t ∈ ts, simpleTok t = true ∧ t.valid = true) (params : List Value) (sv : Vars) :
    tparmV v (ofToks ts).render params sv = Spec.Terminfo5.tparm (ofToks ts) params sv := by
  simp only [tparmV, Spec.Terminfo5.tparm, run_straight v ts h _ _ (Nat.le_refl _)]

/-- the hypotheses are satisfiable: `ESC [ %i %p1 %d ; %p2 %d H` (the ANSI cursor address program) is such a program -/
example : ∃ ts : List Tok, (∀ t ∈ ts, simpleTok t = true ∧ t.valid = true) ∧
    (ofToks ts).render = [27,91,37,105,37,112,49,37,100,59,37,112,50,37,100,72] :=
  ⟨[.lit 27, .lit 91, .incr, .param 1, .outD, .lit 59, .param 2, .outD, .lit 72], by decide, by decide⟩

/-- `parse` only ever returns an AST whose concrete syntax is the input: well-formedness is `∃ a, render a = s`. -/
theorem parse_sound (s : Bytes) (a : Prog) (h : parse s = some a) : a.render = s ∧ a.valid = true := by
  unfold parse at h
  split at h
  · exact absurd h (by simp)
  · split at h
    · split at h
      · rename_i hv
        simp only [Bool.and_eq_true, beq_iff_eq] at hv
        cases h; exact ⟨hv.2, hv.1⟩
      · exact absurd h (by simp)
    · exact absurd h (by simp)

/-! ### the full refinement (DESIGN.md A.2) -/

/-- the machine state `TParm` starts in -/
def st0 (params : List Value) (sv : Vars) : St := { params := pad9 params, svars := sv }

/-- Refinement with Go's formatter, no side condition: for EVERY well-formed program (`parse s = some a`: balanced
`%? … %t … %e … %;` with else-if chains and arbitrary nesting, every token of terminfo(5) including `%{n}`, `%'c'`,
`%l`, `%P`/`%g`, `%i`, all arithmetic/bit/logical/comparison operators and printf formats
`%[:][flags][width][.prec][doxXsc]`), all parameters and all static variables, the repaired byte-level skip-register
machine (= terminfo.go at /repo HEAD) computes exactly what the *structural* evaluator computes on the parse tree –
output bytes and static variables – where a printf token means "pop, format with Go's `fmt`, append" (`semM`).
The skip register, the nesting counter and the byte-level scanning are gone from the right-hand side. -/
theorem tparm_refines_ast (s : Bytes) (a : Prog) (h : parse s = some a) (params : List Value) (sv : Vars) :
    tparmV repaired s params sv =
      ((a.evalG semM Spec.Terminfo5.test (st0 params sv)).out, (a.evalG semM Spec.Terminfo5.test (st0 params sv)).svars) := by
  obtain ⟨hr, hv⟩ := parse_sound s a h
  have := run_render repaired a hv (Prog.all_true a _ tokOk_repaired) (Or.inl rfl) (st0 params sv)
  rw [hr] at this
  simp only [tparmV]
  rw [show ({ params := pad9 params, svars := sv } : St) = st0 params sv from rfl, this]

/-- **`tparm_refines_spec`**: for every well-formed program, all parameters and all static variables, the repaired
machine returns exactly what the terminfo(5) reference returns (output bytes AND resulting static variables) on
every run the reference specifies.  `specified a params sv` is the reference's own judgement domain: it is `true`
unless the run executes a printf token in a state where C printf(3) leaves the result undefined or dependent on the
C `int` width (negative or `+`/space-flagged `%o %x %X`, `#` with value 0 or with the `0` flag, `%c` outside 0..127,
`0` flag on `%s`/`%c`, `%+.0d` of 0, non-ASCII `%s` under width/precision) – there Go's `fmt` and C differ or C says
nothing and neither the reference nor the oracle judge.  For programs without printf tokens the hypothesis is always
true (`tparm_refines_spec_noformat`); `tparm_refines_ast` is the statement without it.
Proof: skip lemma + induction on the AST (`Lemmas/TParmRefine`), Go-`fmt` = C-printf on the specified domain for all
flags, widths and precisions (`Lemmas/TParmFmt.semM_eq_sem`). -/
theorem tparm_refines_spec (s : Bytes) (a : Prog) (h : parse s = some a) (params : List Value) (sv : Vars)
    (hs : specified a params sv = true) :
    tparmV repaired s params sv = Spec.Terminfo5.tparm a params sv := by
  rw [tparm_refines_ast s a h params sv]
  have := evalG_semM_eq a (parse_sound s a h).2 params sv hs
  simp only [st0, Spec.Terminfo5.tparm, this]

/-- the hypotheses are satisfiable on a program with an else-if chain, a nested conditional in a skipped branch,
`%{n}`, a comparison and a printf format: `%?%p1%{8}%<%t%?%p2%tA%eB%;%e%p1%{16}%<%tC%e%p1%03d%;` with (20, 1) -/
example : ∃ a, parse [37,63,37,112,49,37,123,56,125,37,60,37,116,37,63,37,112,50,37,116,65,37,101,66,37,59,37,101,
      37,112,49,37,123,49,54,125,37,60,37,116,67,37,101,37,112,49,37,48,51,100,37,59] = some a ∧
    specified a [.int 20, .int 1] noVars = true ∧ (Spec.Terminfo5.tparm a [.int 20, .int 1] noVars).1 = [48,50,48] := by
  decide

/-- … and without any side condition for programs that contain no printf-format token (every other token of
terminfo(5) is allowed, any nesting). -/
theorem tparm_refines_spec_noformat (s : Bytes) (a : Prog) (h : parse s = some a) (hn : a.all notFmt = true)
    (params : List Value) (sv : Vars) :
    tparmV repaired s params sv = Spec.Terminfo5.tparm a params sv :=
  tparm_refines_spec s a h params sv (specified_of_notFmt a (parse_sound s a h).2 hn params sv)

example : ∃ a, parse nestedProg = some a ∧ a.all notFmt = true := by decide

/-- The pinned machine (no nesting counter, no `%A`/`%O`, no `#`/space flag without a colon) refines the reference
on the class the database uses: no conditional nested inside another conditional (`depth ≤ 1`; else-if chains
are fine) and only tokens the pinned code implements.  Outside this class it need not (`nested_cond_counterexample`,
`logical_and_counterexample`, `format_flag_counterexample`). -/
theorem tparm_pinned_refines_spec (s : Bytes) (a : Prog) (h : parse s = some a) (hd : a.depth ≤ 1)
    (hp : a.all Tok.pinnedOk = true) (params : List Value) (sv : Vars) (hs : specified a params sv = true) :
    tparmV pinned s params sv = Spec.Terminfo5.tparm a params sv := by
  obtain ⟨hr, hv⟩ := parse_sound s a h
  have := run_render pinned a hv (Prog.all_imp _ _ tokOk_pinned a hp) (Or.inr hd) (st0 params sv)
  rw [hr] at this
  have h2 := evalG_semM_eq a hv params sv hs
  simp only [tparmV, Spec.Terminfo5.tparm]
  rw [show ({ params := pad9 params, svars := sv } : St) = st0 params sv from rfl, this]
  simp only [st0, h2]

/-! ### database layer (kernel evaluation over the regenerated entries) -/

/-- the capability fields tcell passes to TParm, with the number of parameters it supplies
(tscreen.go:753-800 colours, 820-1043 TGoto, 857/866 underline colour, 903 url, 989 cursor colour, 1969 window size,
2041/2128 title; terminfo.go:648-672) -/
def paramFields (t : Terminfo) : List (Bytes × Nat) :=
  [(t.setFg, 1), (t.setBg, 1), (t.setFgBg, 2), (t.setFgRGB, 3), (t.setBgRGB, 3), (t.setFgBgRGB, 6),
   (t.setCursor, 2), (t.underlineColor, 1), (t.underlineColorRGB, 3), (t.enterUrl, 2), (t.cursorColorRGB, 3),
   (t.setWindowSize, 2), (t.setWindowTitle, 1)]

/-- the parameterized strings tscreen.go hard-codes (prepareUnderlines 391/401, prepareExtendedOSC 424/431/451/458,
prepareCursorStyles 496+501 after the `%p1%s` → `#%p1%02x%p2%02x%p3%02x` replacement) -/
def hardCoded : List (Bytes × Nat) :=
  [([27,91,53,56,58,53,58,37,112,49,37,100,109], 1),                                     -- ESC[58:5:%p1%dm
   ([27,91,53,56,58,50,58,58,37,112,49,37,100,58,37,112,50,37,100,58,37,112,51,37,100,109], 3), -- ESC[58:2::%p1%d:%p2%d:%p3%dm
   ([27,93,56,59,37,112,50,37,115,59,37,112,49,37,115,27,92], 2),                        -- ESC]8;%p2%s;%p1%s ESC\
   ([27,91,56,59,37,112,49,37,112,50,37,100,59,37,100,116], 2),                          -- ESC[8;%p1%p2%d;%dt
   ([27,91,62,50,116,27,93,50,59,37,112,49,37,115,27,92], 1),                            -- ESC[>2t ESC]2;%p1%s ESC\
   ([27,93,53,50,59,99,59,37,112,49,37,115,27,92], 1),                                   -- ESC]52;c;%p1%s ESC\
   ([27,93,49,50,59,35,37,112,49,37,48,50,120,37,112,50,37,48,50,120,37,112,51,37,48,50,120,7], 3)] -- ESC]12;#%p1%02x%p2%02x%p3%02x BEL

/-- well-formed, uses only the parameters tcell supplies, and lies in the class for which the pinned code is proved
to refine the reference (`tparm_straight_line`) -/
def okFor (s : Bytes) (arity : Nat) : Bool :=
  match parse s with
  | some a => a.maxParam ≤ arity && a.depth ≤ 1 && a.all Tok.pinnedOk
  | none => false

/-- Every parameterized string of every built-in entry is a well-formed terminfo(5) program that uses only `%p`
indices within the arity tcell supplies for that field, with no conditional nested in a conditional. -/
theorem db_strings_wellformed : ∀ e ∈ Gen.db, ∀ f ∈ paramFields e, okFor f.1 f.2 = true := by
  have h : (Gen.db.all fun e => (paramFields e).all fun f => okFor f.1 f.2) = true := by decide +kernel
  intro e he f hf
  exact List.all_eq_true.mp (List.all_eq_true.mp h e he) f hf

/-- … and so is every parameterized string tscreen.go hard-codes. -/
theorem hardcoded_strings_wellformed : ∀ f ∈ hardCoded, okFor f.1 f.2 = true := by
  have h : (hardCoded.all fun f => okFor f.1 f.2) = true := by decide +kernel
  intro f hf
  exact List.all_eq_true.mp h f hf

theorem okFor_refines (s : Bytes) (n : Nat) (h : okFor s n = true) :
    ∃ a, parse s = some a ∧ ∀ (v : Variant), v = pinned ∨ v = repaired → ∀ (params : List Value) (sv : Vars),
      specified a params sv = true → tparmV v s params sv = Spec.Terminfo5.tparm a params sv := by
  unfold okFor at h
  cases hp : parse s with
  | none => simp [hp] at h
  | some a =>
    simp only [hp, Bool.and_eq_true, decide_eq_true_eq] at h
    refine ⟨a, rfl, ?_⟩
    intro v hv params sv hs
    rcases hv with rfl | rfl
    · exact tparm_pinned_refines_spec s a hp h.1.2 h.2 params sv hs
    · exact tparm_refines_spec s a hp params sv hs

/-- **Corollary (every string tcell ever evaluates).**  For every parameterized string of every built-in entry
(`Gen.db`, regenerated from the Go source) and every sequence tscreen.go hard-codes, the string parses and the
refinement applies: for all parameters and static variables, both the pinned and the repaired machine return what
the terminfo(5) reference returns (on every run the reference specifies; only the hard-coded `%02x` cursor-colour
string and no database string contains a printf token). -/
theorem db_strings_refine : ∀ e ∈ Gen.db, ∀ f ∈ paramFields e,
    ∃ a, parse f.1 = some a ∧ ∀ (v : Variant), v = pinned ∨ v = repaired → ∀ (params : List Value) (sv : Vars),
      specified a params sv = true → tparmV v f.1 params sv = Spec.Terminfo5.tparm a params sv :=
  fun e he f hf => okFor_refines f.1 f.2 (db_strings_wellformed e he f hf)

theorem hardcoded_strings_refine : ∀ f ∈ hardCoded,
    ∃ a, parse f.1 = some a ∧ ∀ (v : Variant), v = pinned ∨ v = repaired → ∀ (params : List Value) (sv : Vars),
      specified a params sv = true → tparmV v f.1 params sv = Spec.Terminfo5.tparm a params sv :=
  fun f hf => okFor_refines f.1 f.2 (hardcoded_strings_wellformed f hf)

/-- no database string contains a printf-format token, so for them `specified` holds on every run -/
theorem db_strings_noformat : ∀ e ∈ Gen.db, ∀ f ∈ paramFields e,
    ∀ a, parse f.1 = some a → a.all notFmt = true := by
  have h : (Gen.db.all fun e => (paramFields e).all fun f =>
      match parse f.1 with | some a => a.all notFmt | none => true) = true := by decide +kernel
  intro e he f hf a ha
  have := List.all_eq_true.mp (List.all_eq_true.mp h e he) f hf
  simpa [ha] using this

example : Gen.db ≠ [] ∧ okFor [27,91,37,105,37,112,49,37,100,59,37,112,50,37,100,72] 2 = true := by decide +kernel

end Tcell.Props.C07
