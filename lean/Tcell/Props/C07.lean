import Tcell.Lemmas.TParm
import Tcell.Gen.TerminfoDB
namespace Tcell.Props.C07
end Tcell.Props.C07
