import Tcell.Model.PipelineReal
import Tcell.Props.C06
import Tcell.Props.C02
/-
C06 for the REAL parser instance of the pipeline model (`Tcell.Model.Pipeline.realParser`, the instance engine `pipe` replays
the real screen against).

Every theorem of `Tcell.Props.C06` is generic in the parser record `P` and needs NO hypothesis about it: progress
(`no_stuck_after_shutdown`), the ranking function (`rank_decreases`, `bounded_termination`), inertness after Fini and the
restart after Resume only look at program counters, channel fill levels and flags; the parser enters through the *number*
of events a scan returns (a finite list, whatever it is).  The instantiations below are therefore immediate.

What the generic statements do hide is that `P.collect` is ONE atomic step of the model (`mainChunk`, `timerScan`), while
in the code it is the `for` loop of `collectEventsFromInput` (tscreen.go:1808-1850) running under the screen lock: if that
loop did not terminate, mainLoop would never reach its next select and Fini/Suspend would wait for ever in `wg.Wait()`
although the model says a step is enabled.  `real_scan_terminates` discharges this from C02 (`never_stalls`: every
productive iteration strictly shortens the buffer): the loop ends after at most `len(buf)` iterations — the fuel of the
model function `collect` is never what stops it, any larger fuel gives the same result; `db_scan_terminates` is the same
for every built-in terminal description.
-/
namespace Tcell.Props.C06Real
open Tcell Tcell.Model Tcell.Model.Pipeline Tcell.Lemmas.Chunk

abbrev PCfg := Tcell.Model.Pipeline.Cfg
abbrev RState := State Event PState

/-- **`real_scan_terminates`.**  For every `Stable` configuration: running the loop of `collectEventsFromInput` with ANY
iteration budget ≥ `len(buf)` gives exactly the result of the model function `collect` (whose budget is `len(buf)`): the
loop always ends by itself — on an empty buffer, a "wait for more input" or an order-dependent match — after at most
`len(buf)` productive iterations.  So the atomic model steps `mainChunk` / `timerScan` stand for a terminating piece of
code, and no hypothesis "collect terminates" is hidden in the C06 theorems. -/
theorem real_scan_terminates (cfg : Model.Cfg) (hs : Stable cfg) (e : Bool) (st : PState) (b : Bytes) (fuel : Nat)
    (h : b.length ≤ fuel) : collectAux cfg e fuel st b = collect cfg st b e :=
  collectAux_fuel cfg (progress_of_stable cfg hs) e fuel st b h

/-- … and every productive iteration consumes at least one byte (C02 `never_stalls`, restated for reference) -/
theorem real_scan_consumes (cfg : Model.Cfg) (hs : Stable cfg) (st : PState) (b : Bytes) (e : Bool) (evs : List Event)
    (st' : PState) (rest : Bytes) (hb : b ≠ []) (h : step1 cfg st b e = .emit evs st' rest) : rest.length < b.length :=
  C02.never_stalls cfg hs st b e evs st' rest hb h

theorem db_scan_terminates : ∀ p ∈ Gen.dbTables, ∀ (w h : Int) (x11 : Bool) (e : Bool) (st : PState) (b : Bytes) (fuel : Nat),
    b.length ≤ fuel → collectAux (C02.dbCfgAt p w h x11) e fuel st b = collect (C02.dbCfgAt p w h x11) st b e :=
  fun p hp w h x11 e st b fuel hf =>
    real_scan_terminates _ (C02.stable_congr (C02.dbCfg p) (C02.dbCfgAt p w h x11) (C02.db_stable p hp) rfl rfl rfl rfl rfl rfl)
      e st b fuel hf

/-- **`db_no_stuck_after_shutdown`.**  For the screen of EVERY built-in terminal description (real key table, real parser
model), any size, all queue capacities and fill levels, all injected chunks and read errors, every interleaving: on the
repaired tree (`fixed`, /repo 68fe3e1) a reachable state in which Fini or Suspend has been called and has not returned has
an enabled internal step.  (Immediate: `C06.no_stuck_after_shutdown` needs nothing from the parser.) -/
theorem db_no_stuck_after_shutdown : ∀ p ∈ Gen.dbTables, ∀ (w h : Int) (x11 : Bool) (c : PCfg) (pst0 : PState) (s : RState),
    c.fixed = true → Reachable (realParser (C02.dbCfgAt p w h x11)) c pst0 s → shutdownInProgress s = true →
    ∃ l, l.internal = true ∧ enabled (realParser (C02.dbCfgAt p w h x11)) c s l = true :=
  fun _ _ _ _ _ c pst0 s hfix hr hsd => C06.no_stuck_after_shutdown _ c pst0 s hfix hr hsd

/-- the same for any parser configuration at all (no `Stable` needed) -/
theorem real_no_stuck_after_shutdown (cfg : Model.Cfg) (c : PCfg) (pst0 : PState) (s : RState) (hfix : c.fixed = true)
    (hr : Reachable (realParser cfg) c pst0 s) (hsd : shutdownInProgress s = true) :
    ∃ l, l.internal = true ∧ enabled (realParser cfg) c s l = true :=
  C06.no_stuck_after_shutdown _ c pst0 s hfix hr hsd

/-- **`db_bounded_termination`.**  Once stopQ is closed, a run of internal select-fair steps of the real-parser pipeline has
at most `rank` steps; `rank` counts, for the main loop, the events the real parser returns for the buffered bytes. -/
theorem db_bounded_termination : ∀ p ∈ Gen.dbTables, ∀ (w h : Int) (x11 : Bool) (c : PCfg) (ls : List Label) (s s' : RState),
    s.stop = true → (∀ l ∈ ls, l.internal = true ∧ C06.selectFair l = true) →
    run (realParser (C02.dbCfgAt p w h x11)) c s ls = some s' →
    ls.length + C06.rank (realParser (C02.dbCfgAt p w h x11)) s' ≤ C06.rank (realParser (C02.dbCfgAt p w h x11)) s :=
  fun _ _ _ _ _ c ls s s' hstop hall hr => C06.bounded_termination _ c ls s s' hstop hall hr

/-- **`db_after_fini_inert`**, **`db_resume_restarts_loops`**: the remaining C06 statements for the real-parser instance -/
theorem db_after_fini_inert : ∀ p ∈ Gen.dbTables, ∀ (w h : Int) (x11 : Bool) (c : PCfg) (pst0 : PState) (s s' : RState),
    Reachable (realParser (C02.dbCfgAt p w h x11)) c pst0 s → s.callPc = .ret true →
    step (realParser (C02.dbCfgAt p w h x11)) c s .callRet = some s' →
    s'.quit = true ∧ enabled (realParser (C02.dbCfgAt p w h x11)) c s' .pollNil = true ∧ s'.inPc = .idle ∧
    s'.mainPc.isIdle = true ∧ s'.wg = 0 ∧ s'.closed = true ∧
    step (realParser (C02.dbCfgAt p w h x11)) c s' .callFini = some s' :=
  fun _ _ _ _ _ c pst0 s s' hr hc h =>
    have := C06.after_fini_inert _ c pst0 s s' hr hc h
    ⟨this.1, this.2.1, this.2.2.1, this.2.2.2.1, this.2.2.2.2.1, this.2.2.2.2.2.1, this.2.2.2.2.2.2.1⟩

theorem db_resume_restarts_loops : ∀ p ∈ Gen.dbTables, ∀ (w h : Int) (x11 : Bool) (c : PCfg) (pst0 : PState) (s : RState),
    Reachable (realParser (C02.dbCfgAt p w h x11)) c pst0 s → s.callPc = .idle → s.running = false →
    ∃ s', step (realParser (C02.dbCfgAt p w h x11)) c s .callResume = some s' ∧ s'.running = true ∧ s'.stop = false ∧
      s'.inPc = .top ∧ s'.mainPc.isSel = true ∧ s'.buf = [] ∧ s'.wg = 2 ∧ s'.keychan = s.keychan ∧ s'.eventQ = s.eventQ ∧
      s'.unread = s.unread ∧ enabled (realParser (C02.dbCfgAt p w h x11)) c s' .inToRead = true :=
  fun _ _ _ _ _ c pst0 s hr hc hrun => by
    obtain ⟨s', h1, h2, h3, _, _, h6, h7, h8, h9, h10, h11, h12⟩ := C06.resume_restarts_loops _ c pst0 s hr hc hrun
    have hu : s'.unread = s.unread := by
      have inv := reachable_inv6 _ c pst0 s hr
      have hwg := inv.quiet hrun (by simp [hc])
      have hal := inv.wg
      have hi : s.inPc = .idle := by
        by_cases hi : s.inPc = .idle
        · exact hi
        · simp [inAlive, hi] at hal; omega
      have hm : s.mainPc.isIdle = true := by
        cases hm : s.mainPc.isIdle with
        | true => rfl
        | false => simp [mainAlive, hm] at hal; omega
      simp [step, Model.Pipeline.guard, hc, hrun, hi, hm] at h1
      subst h1
      simp [engage]
    exact ⟨s', h1, h2, h3, h6, h7, h8, h9, h10, h11, hu, h12⟩

/-- the hypotheses are satisfiable on the real-parser instance: a Suspend with a full event queue and a consumer that does
not poll (the situation that hung before /repo 68fe3e1) runs to completion on the repaired variant; input that arrives while
the screen is suspended stays in the tty and is read after Resume -/
example :
    let c : PCfg := { eqCap := 1, kcCap := 1, fixed := true }
    (run (realParser C02.exCfg) c (init {})
      [.callInit, .inject [97], .inject [98], .inToRead, .inReadChunk, .inSent, .mainChunk, .scanSent, .chunkEnd,
       .inToRead, .inReadChunk, .inSent, .mainChunk,                       -- 'b' pending, eventQ = ['a'] full
       .callSuspend, .disStopped, .inStop, .inExit, .scanStop, .chunkEnd, .mainStop, .mainExit, .disJoined, .callRet,
       .inject [99],                                                          -- arrives while suspended
       .callResume, .pollEv, .inToRead, .inReadChunk, .inSent, .mainChunk, .scanSent, .chunkEnd, .pollEv]).map
      (fun s => (s.delivered, s.callPc, s.running, s.lossy)) =
    some ([Item.key (Event.key 256 97 0), Item.key (Event.key 256 99 0)], CallPc.idle, true, true) := by decide

end Tcell.Props.C06Real
