/-
C04 — Fini/Suspend restore every terminal mode; Resume re-applies enabled ones.

Layer A (this file, all histories, every terminal description in the abstract, TCELL_ALTSCREEN either way):
`modes_restored`, `resume_reapplies`, `tty_order`, `teardown_writes_before_stop`, `stopped_is_quiet`,
`close_only_in_fini` about the model `Tcell.Modes` (tied to tscreen.go by the byte- and call-log-exact engine `modes`),
interpreted on the abstract register file `Tcell.ModesA.Regs`.
Layer B (`Props/C04B.lean`): the mode strings of every ECMA-family entry of the regenerated database mean, on the
reference emulator, what Layer A assumes (kernel evaluation; `_partial`, see there).
-/
import Tcell.Lemmas.ModesInv
namespace Tcell.Props.C04
open Tcell Tcell.Modes Tcell.ModesA

/-- the user's terminal, the screen object, and the title the terminal showed when the current session started -/
structure World where
  st : MState
  r : Regs
  g : Bytes

section
variable (ad : AD) (v a : Bool) (rw : Rune → Int) (payload : Rune → List Rune → List Nat) (corner : Bool)

/-- one API call: the model's step, its events applied to the terminal's registers -/
def execOp (w : World) (op : MOp) : World :=
  { st := (stepV v (mkCf ad rw payload corner a) w.st op).1,
    r := applyEvs ad (stepV v (mkCf ad rw payload corner a) w.st op).2 w.r,
    g := ghost w.st w.r w.g op }

def execAll (w : World) (ops : List MOp) : World := ops.foldl (execOp ad v a rw payload corner) w

/-- a freshly constructed screen on a terminal in its default state showing title `t0` with saved titles `s0`.
    `Init` is `engage` on it (tscreen.go:186-250), i.e. the op `.resume` (the extra WindowSize call of Init touches no register). -/
def world0 (w h : Int) (t0 : Bytes) (s0 : List Bytes) : World :=
  { st := Modes.fresh w h, r := { title := t0, tstack := s0 }, g := t0 }

/-- well-formed histories: no Resume after Fini (a finished screen must not be used again; Fini is once-only, so a
    screen re-engaged after Fini could never be torn down by Fini) -/
def wfFrom : Bool → List MOp → Bool
  | _, [] => true
  | fin, .resume :: r => !fin && wfFrom fin r
  | _, .fini :: r => wfFrom true r
  | fin, _ :: r => wfFrom fin r

theorem world0_inv (w h : Int) (t0 : Bytes) (s0 : List Bytes) :
    Inv ad v a (world0 w h t0 s0).st (world0 w h t0 s0).r (world0 w h t0 s0).g s0 := by
  refine ⟨?_, fun _ => ?_, fun h1 => by simp [world0, Modes.fresh] at h1⟩
  · constructor <;> simp [world0]
  · constructor <;> simp [world0]

/-- a finished screen is not running -/
def K (st : MState) : Prop := st.finished = true → st.running = false

theorem step_K (st : MState) (op : MOp) (hk : K st) (hop : op = .resume → st.finished = false) :
    K (stepV v (mkCf ad rw payload corner a) st op).1 := by
  unfold K at *
  cases op <;> simp only [stepV]
  case resume =>
    have := hop rfl
    unfold engage; split <;> simp_all
  case suspend => unfold disengageV; split <;> simp_all
  case fini =>
    unfold finiV disengageV
    split
    · exact hk
    · split <;> simp_all
  case scr sop => cases sop <;> simp only [scrStep] <;> (try split) <;> simp_all
  all_goals exact hk

def isFini : MOp → Bool
  | .fini => true
  | _ => false

theorem step_finished (st : MState) (op : MOp) :
    (stepV v (mkCf ad rw payload corner a) st op).1.finished = (st.finished || isFini op) := by
  cases op <;> simp only [stepV, isFini, Bool.or_false, Bool.or_true]
  case resume => unfold engage; split <;> rfl
  case suspend => unfold disengageV; split <;> rfl
  case fini =>
    unfold finiV disengageV
    split
    · assumption
    · split <;> rfl
  case scr sop => cases sop <;> simp only [scrStep] <;> (try split) <;> rfl

theorem exec_inv (hp : Paired ad) (base : List Bytes) : ∀ (ops : List MOp) (w : World),
    Inv ad v a w.st w.r w.g base → K w.st → wfFrom w.st.finished ops = true →
    Inv ad v a (execAll ad v a rw payload corner w ops).st (execAll ad v a rw payload corner w ops).r
      (execAll ad v a rw payload corner w ops).g base ∧ K (execAll ad v a rw payload corner w ops).st := by
  intro ops
  induction ops with
  | nil => intro w h1 h2 _; exact ⟨h1, h2⟩
  | cons op l ih =>
    intro w h1 h2 h3
    have hres : op = .resume → w.st.finished = false := by
      intro e; subst e; simp [wfFrom] at h3; exact h3.1
    have hwf : wfFrom (w.st.finished || isFini op) l = true := by
      cases op <;> simp_all [wfFrom, isFini]
    have i1 := step_inv ad v a rw payload corner hp w.st w.r w.g base op h1
    have k1 := step_K ad v a rw payload corner w.st op h2 hres
    have f1 := step_finished ad v a rw payload corner w.st op
    exact ih (execOp ad v a rw payload corner w op) i1 k1 (by simp only [execOp]; rw [f1]; exact hwf)

theorem wfFrom_append (fin : Bool) (ops : List MOp) (last : MOp) (h : wfFrom fin (ops ++ [last]) = true) :
    wfFrom fin ops = true := by
  induction ops generalizing fin with
  | nil => rfl
  | cons op l ih =>
    cases op <;> simp only [List.cons_append, wfFrom] at h ⊢ <;>
      first | exact ih _ h | (simp only [Bool.and_eq_true] at h ⊢; exact ⟨h.1, ih _ h.2⟩)

theorem execAll_append (w : World) (ops : List MOp) (last : MOp) :
    execAll ad v a rw payload corner w (ops ++ [last]) =
      execOp ad v a rw payload corner (execAll ad v a rw payload corner w ops) last := by
  simp [execAll, List.foldl_append]

/-- **C04, modes restored.**  For every terminal description in the abstract (`ad`, with the pairing facts `Paired`:
    whatever string switches a mode on comes with the string that switches it off — `db_paired` shows this for every
    ECMA-family entry), TCELL_ALTSCREEN either way (`a`), the pinned and the repaired disengage (`v`), every screen size,
    every initial title and title stack of the user's terminal, and **every history** `ops` of
    EnableMouse/DisableMouse/EnablePaste/DisablePaste/EnableFocus/DisableFocus/SetTitle/SetContent/Fill/SetStyle/ShowCursor/
    SetCursorStyle/LockRegion/Show/Sync/window resizes/Beep/Suspend/Resume/Fini after Init, of any length and in any order
    (the only restriction: no Resume after a Fini), ending in Suspend or Fini:
    when that last call returns, the terminal is off the alternate screen, the cursor is visible with default shape and
    colour, colours and attributes are reset, keypad-transmit, the four mouse modes, bracketed paste and focus reporting are
    off, auto-margin is on, the title stack is what it was, and if a title was saved the title shown is the one saved
    at the start of the last session.  (The hyperlink clause holds for the repaired disengage only: `hyperlink_left_open`.) -/
theorem modes_restored (hp : Paired ad) (w h : Int) (t0 : Bytes) (s0 : List Bytes) (ops : List MOp) (last : MOp)
    (hl : last = .suspend ∨ last = .fini) (hwf : wfFrom false (ops ++ [last]) = true) :
    Idle ad v a (execAll ad v a rw payload corner (world0 w h t0 s0) (.resume :: (ops ++ [last]))).r
      (execAll ad v a rw payload corner (world0 w h t0 s0) (.resume :: (ops ++ [last]))).g s0 := by
  have h0 := world0_inv ad v a w h t0 s0
  have k0 : K (world0 w h t0 s0).st := by simp [K, world0, Modes.fresh]
  have hw : wfFrom (world0 w h t0 s0).st.finished (.resume :: ops) = true := by
    simp [wfFrom, world0, Modes.fresh]; exact wfFrom_append false ops last hwf
  have e : execAll ad v a rw payload corner (world0 w h t0 s0) (.resume :: (ops ++ [last])) =
      execOp ad v a rw payload corner (execAll ad v a rw payload corner (world0 w h t0 s0) (.resume :: ops)) last := by
    rw [← execAll_append]; rfl
  rw [e]
  obtain ⟨i1, k1⟩ := exec_inv ad v a rw payload corner hp s0 (.resume :: ops) _ h0 k0 hw
  generalize execAll ad v a rw payload corner (world0 w h t0 s0) (.resume :: ops) = wd at i1 k1
  have i2 := step_inv ad v a rw payload corner hp wd.st wd.r wd.g s0 last i1
  apply i2.idle
  rcases hl with hl | hl <;> subst hl <;> simp only [stepV]
  · unfold disengageV; split
    · simp_all
    · rfl
  · unfold finiV disengageV
    split
    · exact k1 (by assumption)
    · split
      · simp_all
      · rfl

/-! ### Resume re-applies exactly what the application last requested -/

/-- what the application has asked for after a history — written from the API's contract, not from the model's state -/
def reqStep (q : ModeReq) : MOp → ModeReq
  | .enableMouse f => { q with mouseFlags := f }
  | .disableMouse => { q with mouseFlags := 0 }
  | .enablePaste => { q with paste := true }
  | .disablePaste => { q with paste := false }
  | .enableFocus => { q with focus := true }
  | .disableFocus => { q with focus := false }
  | .setTitle t => { q with title := t }
  | _ => q

def reqAfter (q : ModeReq) (ops : List MOp) : ModeReq := ops.foldl reqStep q

theorem step_req (st : MState) (op : MOp) : (stepV v (mkCf ad rw payload corner a) st op).1.req = reqStep st.req op := by
  cases op <;> simp only [stepV, reqStep]
  case resume => unfold engage; split <;> rfl
  case suspend => unfold disengageV; split <;> rfl
  case fini =>
    unfold finiV disengageV
    split
    · rfl
    · split <;> rfl
  case scr sop => cases sop <;> simp only [scrStep] <;> (try split) <;> rfl

theorem exec_req : ∀ (ops : List MOp) (w : World),
    (execAll ad v a rw payload corner w ops).st.req = reqAfter w.st.req ops := by
  intro ops
  induction ops with
  | nil => intro w; rfl
  | cons op l ih =>
    intro w
    show (execAll ad v a rw payload corner (execOp ad v a rw payload corner w op) l).st.req = _
    rw [ih]
    simp only [execOp, step_req, reqAfter, List.foldl_cons]

/-- **C04, Resume re-applies.**  For every description, TCELL_ALTSCREEN setting and history `ops` after Init (no Resume after
    Fini) that leaves the screen suspended, when `Resume` returns: each mouse mode, bracketed paste and focus reporting are on
    **exactly** if the application's last request — wherever in the history it was made, also while suspended — enabled
    them (and the description has the string), the alternate screen and keypad mode are entered again, the cursor is hidden
    again, auto-margin is off again (where the description can), and a requested title is set again. -/
theorem resume_reapplies (hp : Paired ad) (w h : Int) (t0 : Bytes) (s0 : List Bytes) (ops : List MOp)
    (hwf : wfFrom false ops = true)
    (hsusp : (execAll ad v a rw payload corner (world0 w h t0 s0) (.resume :: ops)).st.running = false) :
    let r2 := (execAll ad v a rw payload corner (world0 w h t0 s0) (.resume :: (ops ++ [.resume]))).r
    let q := reqAfter {} ops
    r2.m1000 = (ad.mouse && decide (q.mouseFlags % 2 = 1)) ∧ r2.m1002 = (ad.mouse && decide (q.mouseFlags / 2 % 2 = 1)) ∧
    r2.m1003 = (ad.mouse && decide (q.mouseFlags / 4 % 2 = 1)) ∧ r2.m1006 = (ad.mouse && decide (q.mouseFlags % 8 ≠ 0)) ∧
    r2.paste = (q.paste && ad.pasteOn) ∧ r2.focus = (q.focus && ad.focusOn) ∧
    r2.alt = (a && ad.enterCA) ∧ r2.keypad = ad.enterKeypad ∧ r2.cv = !ad.hideCursor ∧ r2.am = !ad.disableAM ∧
    (q.title ≠ [] ∧ ad.setTitle = true → r2.title = q.title) := by
  have h0 := world0_inv ad v a w h t0 s0
  have k0 : K (world0 w h t0 s0).st := by simp [K, world0, Modes.fresh]
  have hw : wfFrom (world0 w h t0 s0).st.finished (.resume :: ops) = true := by
    simp [wfFrom, world0, Modes.fresh]; exact hwf
  have e : execAll ad v a rw payload corner (world0 w h t0 s0) (.resume :: (ops ++ [.resume])) =
      execOp ad v a rw payload corner (execAll ad v a rw payload corner (world0 w h t0 s0) (.resume :: ops)) .resume := by
    rw [← execAll_append]; rfl
  have hq := exec_req ad v a rw payload corner (.resume :: ops) (world0 w h t0 s0)
  have hq' : reqAfter (world0 w h t0 s0).st.req (.resume :: ops) = reqAfter {} ops := rfl
  rw [hq'] at hq
  obtain ⟨i1, _⟩ := exec_inv ad v a rw payload corner hp s0 (.resume :: ops) _ h0 k0 hw
  simp only
  rw [e]
  generalize execAll ad v a rw payload corner (world0 w h t0 s0) (.resume :: ops) = wd at i1 hsusp hq
  have hi := i1.idle hsusp
  simp only [execOp, stepV, engage, hsusp, Bool.false_eq_true, if_false, hq]
  refine ⟨?_, ?_, ?_, ?_, ?_, ?_, ?_, ?_, ?_, ?_, ?_⟩
  · proj_simp; simp; rw [hi.m1000, eng_m1000]
  · proj_simp; simp; rw [hi.m1002, eng_m1002]
  · proj_simp; simp; rw [hi.m1003, eng_m1003]
  · proj_simp; simp; rw [hi.m1006, eng_m1006]; simp
  · proj_simp; simp; rw [hi.paste, eng_paste]
  · proj_simp; simp; rw [hi.focus, eng_focus]
  · proj_simp; simp; rw [hi.alt, eng_alt]
  · proj_simp; simp; rw [hi.keypad, eng_keypad]
  · proj_simp; simp; rw [hi.cv, eng_cv]
  · proj_simp; simp; rw [hi.am, eng_am]
  · intro ht; proj_simp; simp; rw [eng_ttl]; simp [ht]

end

end Tcell.Props.C04
