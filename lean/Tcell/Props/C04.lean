/-
C04 — Fini/Suspend restore every terminal mode; Resume re-applies enabled ones.

Layer A (this file, all histories, every terminal description in the abstract, TCELL_ALTSCREEN either way):
`modes_restored`, `resume_reapplies`, `tty_order`, `teardown_writes_before_stop`, `stopped_is_quiet`,
`close_only_in_fini` about the model `Tcell.Modes` (tied to tscreen.go by the byte- and call-log-exact engine `modes`),
interpreted on the abstract register file `Tcell.ModesA.Regs`.
Layer B (`Props/C04B.lean`): the mode strings of every ECMA-family entry of the regenerated database mean, on the
reference emulator, what Layer A assumes (kernel evaluation; `_partial`, see there).
-/
import Tcell.Lemmas.ModesInv
namespace Tcell.Props.C04
open Tcell Tcell.Modes Tcell.ModesA

/-- the user's terminal, the screen object, and the title the terminal showed when the current session started -/
structure World where
  st : MState
  r : Regs
  g : Bytes

section
variable (ad : AD) (v a : Bool) (rw : Rune → Int) (payload : Rune → List Rune → List Nat) (corner : Bool)

/-- one API call: the model's step, its events applied to the terminal's registers -/
def execOp (w : World) (op : MOp) : World :=
  { st := (stepV v (mkCf ad rw payload corner a) w.st op).1,
    r := applyEvs ad (stepV v (mkCf ad rw payload corner a) w.st op).2 w.r,
    g := ghost w.st w.r w.g op }

def execAll (w : World) (ops : List MOp) : World := ops.foldl (execOp ad v a rw payload corner) w

/-- a freshly constructed screen on a terminal in its default state showing title `t0` with saved titles `s0`.
    `Init` is `engage` on it (tscreen.go:186-250), i.e. the op `.resume` (the extra WindowSize call of Init touches no register). -/
def world0 (w h : Int) (t0 : Bytes) (s0 : List Bytes) : World :=
  { st := Modes.fresh w h, r := { title := t0, tstack := s0 }, g := t0 }

/-- well-formed histories: no Resume after Fini (a finished screen must not be used again; Fini is once-only, so a
    screen re-engaged after Fini could never be torn down by Fini) -/
def wfFrom : Bool → List MOp → Bool
  | _, [] => true
  | fin, .resume :: r => !fin && wfFrom fin r
  | _, .fini :: r => wfFrom true r
  | fin, _ :: r => wfFrom fin r

theorem world0_inv (w h : Int) (t0 : Bytes) (s0 : List Bytes) :
    Inv ad v a (world0 w h t0 s0).st (world0 w h t0 s0).r (world0 w h t0 s0).g s0 := by
  refine ⟨?_, fun _ => ?_, fun h1 => by simp [world0, Modes.fresh] at h1⟩
  · constructor <;> simp [world0]
  · constructor <;> simp [world0]

/-- a finished screen is not running -/
def K (st : MState) : Prop := st.finished = true → st.running = false

theorem step_K (st : MState) (op : MOp) (hk : K st) (hop : op = .resume → st.finished = false) :
    K (stepV v (mkCf ad rw payload corner a) st op).1 := by
  unfold K at *
  cases op <;> simp only [stepV]
  case resume =>
    have := hop rfl
    unfold engage; split <;> simp_all
  case suspend => unfold disengageV; split <;> simp_all
  case fini =>
    unfold finiV disengageV
    split
    · exact hk
    · split <;> simp_all
  case scr sop => cases sop <;> simp only [scrStep] <;> (try split) <;> simp_all
  all_goals exact hk

def isFini : MOp → Bool
  | .fini => true
  | _ => false

theorem step_finished (st : MState) (op : MOp) :
    (stepV v (mkCf ad rw payload corner a) st op).1.finished = (st.finished || isFini op) := by
  cases op <;> simp only [stepV, isFini, Bool.or_false, Bool.or_true]
  case resume => unfold engage; split <;> rfl
  case suspend => unfold disengageV; split <;> rfl
  case fini =>
    unfold finiV disengageV
    split
    · assumption
    · split <;> rfl
  case scr sop => cases sop <;> simp only [scrStep] <;> (try split) <;> rfl

theorem exec_inv (hp : Paired ad) (base : List Bytes) : ∀ (ops : List MOp) (w : World),
    Inv ad v a w.st w.r w.g base → K w.st → wfFrom w.st.finished ops = true →
    Inv ad v a (execAll ad v a rw payload corner w ops).st (execAll ad v a rw payload corner w ops).r
      (execAll ad v a rw payload corner w ops).g base ∧ K (execAll ad v a rw payload corner w ops).st := by
  intro ops
  induction ops with
  | nil => intro w h1 h2 _; exact ⟨h1, h2⟩
  | cons op l ih =>
    intro w h1 h2 h3
    have hres : op = .resume → w.st.finished = false := by
      intro e; subst e; simp [wfFrom] at h3; exact h3.1
    have hwf : wfFrom (w.st.finished || isFini op) l = true := by
      cases op <;> simp_all [wfFrom, isFini]
    have i1 := step_inv ad v a rw payload corner hp w.st w.r w.g base op h1
    have k1 := step_K ad v a rw payload corner w.st op h2 hres
    have f1 := step_finished ad v a rw payload corner w.st op
    exact ih (execOp ad v a rw payload corner w op) i1 k1 (by simp only [execOp]; rw [f1]; exact hwf)

theorem wfFrom_append (fin : Bool) (ops : List MOp) (last : MOp) (h : wfFrom fin (ops ++ [last]) = true) :
    wfFrom fin ops = true := by
  induction ops generalizing fin with
  | nil => rfl
  | cons op l ih =>
    cases op <;> simp only [List.cons_append, wfFrom] at h ⊢ <;>
      first | exact ih _ h | (simp only [Bool.and_eq_true] at h ⊢; exact ⟨h.1, ih _ h.2⟩)

theorem execAll_append (w : World) (ops : List MOp) (last : MOp) :
    execAll ad v a rw payload corner w (ops ++ [last]) =
      execOp ad v a rw payload corner (execAll ad v a rw payload corner w ops) last := by
  simp [execAll, List.foldl_append]

/-- **C04, modes restored.**  For every terminal description in the abstract (`ad`, with the pairing facts `Paired`:
    whatever string switches a mode on comes with the string that switches it off — `db_paired` shows this for every
    ECMA-family entry), TCELL_ALTSCREEN either way (`a`), the pinned and the repaired disengage (`v`), every screen size,
    every initial title and title stack of the user's terminal, and **every history** `ops` of
    EnableMouse/DisableMouse/EnablePaste/DisablePaste/EnableFocus/DisableFocus/SetTitle/SetContent/Fill/SetStyle/ShowCursor/
    SetCursorStyle/LockRegion/Show/Sync/window resizes/Beep/Suspend/Resume/Fini after Init, of any length and in any order
    (the only restriction: no Resume after a Fini), ending in Suspend or Fini:
    when that last call returns, the terminal is off the alternate screen, the cursor is visible with default shape and
    colour, colours and attributes are reset, keypad-transmit, the four mouse modes, bracketed paste and focus reporting are
    off, auto-margin is on, the title stack is what it was, and if a title was saved the title shown is the one saved
    at the start of the last session.  (The hyperlink clause holds for the repaired disengage only: `hyperlink_left_open`.) -/
theorem modes_restored (hp : Paired ad) (w h : Int) (t0 : Bytes) (s0 : List Bytes) (ops : List MOp) (last : MOp)
    (hl : last = .suspend ∨ last = .fini) (hwf : wfFrom false (ops ++ [last]) = true) :
    Idle ad v a (execAll ad v a rw payload corner (world0 w h t0 s0) (.resume :: (ops ++ [last]))).r
      (execAll ad v a rw payload corner (world0 w h t0 s0) (.resume :: (ops ++ [last]))).g s0 := by
  have h0 := world0_inv ad v a w h t0 s0
  have k0 : K (world0 w h t0 s0).st := by simp [K, world0, Modes.fresh]
  have hw : wfFrom (world0 w h t0 s0).st.finished (.resume :: ops) = true := by
    simp [wfFrom, world0, Modes.fresh]; exact wfFrom_append false ops last hwf
  have e : execAll ad v a rw payload corner (world0 w h t0 s0) (.resume :: (ops ++ [last])) =
      execOp ad v a rw payload corner (execAll ad v a rw payload corner (world0 w h t0 s0) (.resume :: ops)) last := by
    rw [← execAll_append]; rfl
  rw [e]
  obtain ⟨i1, k1⟩ := exec_inv ad v a rw payload corner hp s0 (.resume :: ops) _ h0 k0 hw
  generalize execAll ad v a rw payload corner (world0 w h t0 s0) (.resume :: ops) = wd at i1 k1
  have i2 := step_inv ad v a rw payload corner hp wd.st wd.r wd.g s0 last i1
  apply i2.idle
  rcases hl with hl | hl <;> subst hl <;> simp only [stepV]
  · unfold disengageV; split
    · simp_all
    · rfl
  · unfold finiV disengageV
    split
    · exact k1 (by assumption)
    · split
      · simp_all
      · rfl

/-! ### Resume re-applies exactly what the application last requested -/

/-- what the application has asked for after a history — written from the API's contract, not from the model's state -/
def reqStep (q : ModeReq) : MOp → ModeReq
  | .enableMouse f => { q with mouseFlags := f }
  | .disableMouse => { q with mouseFlags := 0 }
  | .enablePaste => { q with paste := true }
  | .disablePaste => { q with paste := false }
  | .enableFocus => { q with focus := true }
  | .disableFocus => { q with focus := false }
  | .setTitle t => { q with title := t }
  | _ => q

def reqAfter (q : ModeReq) (ops : List MOp) : ModeReq := ops.foldl reqStep q

theorem step_req (st : MState) (op : MOp) : (stepV v (mkCf ad rw payload corner a) st op).1.req = reqStep st.req op := by
  cases op <;> simp only [stepV, reqStep]
  case resume => unfold engage; split <;> rfl
  case suspend => unfold disengageV; split <;> rfl
  case fini =>
    unfold finiV disengageV
    split
    · rfl
    · split <;> rfl
  case scr sop => cases sop <;> simp only [scrStep] <;> (try split) <;> rfl

theorem exec_req : ∀ (ops : List MOp) (w : World),
    (execAll ad v a rw payload corner w ops).st.req = reqAfter w.st.req ops := by
  intro ops
  induction ops with
  | nil => intro w; rfl
  | cons op l ih =>
    intro w
    show (execAll ad v a rw payload corner (execOp ad v a rw payload corner w op) l).st.req = _
    rw [ih]
    simp only [execOp, step_req, reqAfter, List.foldl_cons]

/-- **C04, Resume re-applies.**  For every description, TCELL_ALTSCREEN setting and history `ops` after Init (no Resume after
    Fini) that leaves the screen suspended, when `Resume` returns: each mouse mode, bracketed paste and focus reporting are on
    **exactly** if the application's last request — wherever in the history it was made, also while suspended — enabled
    them (and the description has the string), the alternate screen and keypad mode are entered again, the cursor is hidden
    again, auto-margin is off again (where the description can), and a requested title is set again. -/
theorem resume_reapplies (hp : Paired ad) (w h : Int) (t0 : Bytes) (s0 : List Bytes) (ops : List MOp)
    (hwf : wfFrom false ops = true)
    (hsusp : (execAll ad v a rw payload corner (world0 w h t0 s0) (.resume :: ops)).st.running = false) :
    let r2 := (execAll ad v a rw payload corner (world0 w h t0 s0) (.resume :: (ops ++ [.resume]))).r
    let q := reqAfter {} ops
    r2.m1000 = (ad.mouse && decide (q.mouseFlags % 2 = 1)) ∧ r2.m1002 = (ad.mouse && decide (q.mouseFlags / 2 % 2 = 1)) ∧
    r2.m1003 = (ad.mouse && decide (q.mouseFlags / 4 % 2 = 1)) ∧ r2.m1006 = (ad.mouse && decide (q.mouseFlags % 8 ≠ 0)) ∧
    r2.paste = (q.paste && ad.pasteOn) ∧ r2.focus = (q.focus && ad.focusOn) ∧
    r2.alt = (a && ad.enterCA) ∧ r2.keypad = ad.enterKeypad ∧ r2.cv = !ad.hideCursor ∧ r2.am = !ad.disableAM ∧
    (q.title ≠ [] ∧ ad.setTitle = true → r2.title = q.title) := by
  have h0 := world0_inv ad v a w h t0 s0
  have k0 : K (world0 w h t0 s0).st := by simp [K, world0, Modes.fresh]
  have hw : wfFrom (world0 w h t0 s0).st.finished (.resume :: ops) = true := by
    simp [wfFrom, world0, Modes.fresh]; exact hwf
  have e : execAll ad v a rw payload corner (world0 w h t0 s0) (.resume :: (ops ++ [.resume])) =
      execOp ad v a rw payload corner (execAll ad v a rw payload corner (world0 w h t0 s0) (.resume :: ops)) .resume := by
    rw [← execAll_append]; rfl
  have hq := exec_req ad v a rw payload corner (.resume :: ops) (world0 w h t0 s0)
  have hq' : reqAfter (world0 w h t0 s0).st.req (.resume :: ops) = reqAfter {} ops := rfl
  rw [hq'] at hq
  obtain ⟨i1, _⟩ := exec_inv ad v a rw payload corner hp s0 (.resume :: ops) _ h0 k0 hw
  simp only
  rw [e]
  generalize execAll ad v a rw payload corner (world0 w h t0 s0) (.resume :: ops) = wd at i1 hsusp hq
  have hi := i1.idle hsusp
  simp only [execOp, stepV, engage, hsusp, Bool.false_eq_true, if_false, hq]
  refine ⟨?_, ?_, ?_, ?_, ?_, ?_, ?_, ?_, ?_, ?_, ?_⟩
  · proj_simp; simp; rw [hi.m1000, eng_m1000]
  · proj_simp; simp; rw [hi.m1002, eng_m1002]
  · proj_simp; simp; rw [hi.m1003, eng_m1003]
  · proj_simp; simp; rw [hi.m1006, eng_m1006]; simp
  · proj_simp; simp; rw [hi.paste, eng_paste]
  · proj_simp; simp; rw [hi.focus, eng_focus]
  · proj_simp; simp; rw [hi.alt, eng_alt]
  · proj_simp; simp; rw [hi.keypad, eng_keypad]
  · proj_simp; simp; rw [hi.cv, eng_cv]
  · proj_simp; simp; rw [hi.am, eng_am]
  · intro ht; proj_simp; simp; rw [eng_ttl]; simp [ht]

/-! ### the Tty is driven in contract order -/

/-- the Tty contract as an automaton over the calls (tty.go:23-60 and the property text): Start only on a stopped tty;
    Drain only on a started one; Stop only on a started tty that has been drained in this session and whose resize
    callback is unregistered; Close only on a stopped tty, once.  `ok` records that no call broke a rule. -/
structure TtySt where
  started : Bool := false
  drained : Bool := false
  nrNil : Bool := true
  closed : Bool := false
  ok : Bool := true

def ttyStep (s : TtySt) : Ev → TtySt
  | .call .start => { s with ok := s.ok && !s.started, started := true, drained := false }
  | .call .drain => { s with ok := s.ok && s.started, drained := true }
  | .call .notifyNil => { s with nrNil := true }
  | .call .notifyFn => { s with nrNil := false }
  | .call .stop => { s with ok := s.ok && s.started && s.drained && s.nrNil, started := false }
  | .call .close => { s with ok := s.ok && !s.started && !s.closed, closed := true }
  | _ => s

@[simp] theorem tty_put (s : TtySt) (k : Cap) : ttyStep s (.put k) = s := rfl
@[simp] theorem tty_frame (s : TtySt) (c : List Cmd) : ttyStep s (.frame c) = s := rfl
@[simp] theorem tty_ws (s : TtySt) : ttyStep s (.call .windowSize) = s := rfl
theorem foldl_tty_ite (s : TtySt) (p : Prop) [Decidable p] (x y : List Ev) :
    (if p then x else y).foldl ttyStep s = if p then x.foldl ttyStep s else y.foldl ttyStep s := by split <;> rfl

/-- writes never move the automaton -/
theorem tty_writes (s : TtySt) (l : List Ev) (h : ∀ e ∈ l, (∃ k, e = .put k) ∨ (∃ c, e = .frame c) ∨ e = .call .windowSize) :
    l.foldl ttyStep s = s := by
  induction l generalizing s with
  | nil => rfl
  | cons e r ih =>
    rw [List.foldl_cons]
    have : ttyStep s e = s := by
      rcases h e (by simp) with ⟨k, rfl⟩ | ⟨c, rfl⟩ | rfl <;> rfl
    rw [this]; exact ih s (fun e he => h e (by simp [he]))

theorem enableMouse_writes (cf : ModeCfg) (f : Nat) : ∀ e ∈ Modes.enableMouse cf f,
    (∃ k, e = .put k) ∨ (∃ c, e = .frame c) ∨ e = .call .windowSize := by
  intro e he
  unfold Modes.enableMouse at he
  split at he
  · simp only [List.mem_append, List.mem_singleton] at he
    rcases he with (((he | he) | he) | he) | he
    · exact Or.inl ⟨_, he⟩
    all_goals (split at he <;> simp at he; exact Or.inl ⟨_, he⟩)
  · simp at he

theorem enablePasting_writes (cf : ModeCfg) (on : Bool) : ∀ e ∈ Modes.enablePasting cf on,
    (∃ k, e = .put k) ∨ (∃ c, e = .frame c) ∨ e = .call .windowSize := by
  intro e he
  unfold Modes.enablePasting at he
  split at he <;> split at he <;> simp at he <;> exact Or.inl ⟨_, he⟩

theorem engageEvs_writes (cf : ModeCfg) (q : ModeReq) : ∀ e ∈ engageEvs cf q,
    (∃ k, e = .put k) ∨ (∃ c, e = .frame c) ∨ e = .call .windowSize := by
  intro e he
  unfold engageEvs Modes.enableFocusReporting at he
  simp only [List.mem_append] at he
  rcases he with ((((he | he) | he) | he) | he) | he
  · exact enableMouse_writes cf _ e he
  · exact enablePasting_writes cf _ e he
  · split at he
    · split at he <;> simp at he; exact Or.inl ⟨_, he⟩
    · simp at he
  · split at he
    · simp only [List.mem_append, List.mem_singleton] at he
      rcases he with he | he
      · exact Or.inl ⟨_, he⟩
      · split at he <;> simp at he; exact Or.inl ⟨_, he⟩
    · simp at he
  · simp at he; rcases he with he | he | he | he | he <;> exact Or.inl ⟨_, he⟩
  · split at he <;> simp at he; exact Or.inl ⟨_, he⟩

theorem disengageEvs_writes (cf : ModeCfg) (sh ti : Bool) : ∀ e ∈ disengageEvsV v cf sh ti,
    (∃ k, e = .put k) ∨ (∃ c, e = .frame c) ∨ e = .call .windowSize := by
  intro e he
  unfold disengageEvsV Modes.disableFocusReporting at he
  simp only [List.mem_append] at he
  rcases he with (((((((((he | he) | he) | he) | he) | he) | he) | he) | he) | he)
  all_goals first
    | exact enableMouse_writes cf _ e he
    | exact enablePasting_writes cf _ e he
    | (simp at he; rcases he with he | he <;> exact Or.inl ⟨_, he⟩)
    | (simp at he; exact Or.inl ⟨_, he⟩)
    | (split at he <;> simp at he; exact Or.inl ⟨_, he⟩)
    | (split at he
       · simp only [List.mem_append] at he
         rcases he with he | he
         · split at he <;> simp at he; exact Or.inl ⟨_, he⟩
         · simp at he; rcases he with he | he <;> exact Or.inl ⟨_, he⟩
       · simp at he)

/-- the automaton agrees with the screen: started = running, closed = finished, and no rule was broken so far -/
def TtyRel (s : TtySt) (st : MState) : Prop := s.ok = true ∧ s.started = st.running ∧ s.closed = st.finished

theorem disengage_tty (s : TtySt) (st : MState) (h : TtyRel s st) :
    TtyRel ((disengageV v (mkCf ad rw payload corner a) st).2.foldl ttyStep s) (disengageV v (mkCf ad rw payload corner a) st).1 := by
  unfold disengageV
  split
  · exact h
  · rename_i hr
    simp only [List.foldl_append, List.foldl_cons, List.foldl_nil]
    rw [tty_writes _ _ (disengageEvs_writes v _ _ _)]
    obtain ⟨h1, h2, h3⟩ := h
    simp at hr
    simp [TtyRel, ttyStep, h1, h2, h3, hr]

theorem step_tty (s : TtySt) (st : MState) (op : MOp) (h : TtyRel s st) :
    TtyRel ((stepV v (mkCf ad rw payload corner a) st op).2.foldl ttyStep s) (stepV v (mkCf ad rw payload corner a) st op).1 := by
  have wr : ∀ (st' : MState) (l : List Ev), st'.running = st.running → st'.finished = st.finished →
      (∀ e ∈ l, (∃ k, e = .put k) ∨ (∃ c, e = .frame c) ∨ e = .call .windowSize) → TtyRel (l.foldl ttyStep s) st' := by
    intro st' l h1 h2 h3
    rw [tty_writes s l h3]
    exact ⟨h.1, h1 ▸ h.2.1, h2 ▸ h.2.2⟩
  cases op <;> simp only [stepV]
  case enableMouse f => exact wr _ _ rfl rfl (by split; exact enableMouse_writes _ _; simp)
  case disableMouse => exact wr _ _ rfl rfl (by split; exact enableMouse_writes _ _; simp)
  case enablePaste => exact wr _ _ rfl rfl (by split; exact enablePasting_writes _ _; simp)
  case disablePaste => exact wr _ _ rfl rfl (by split; exact enablePasting_writes _ _; simp)
  case enableFocus =>
    refine wr _ _ rfl rfl ?_
    intro e he; unfold Modes.enableFocusReporting at he
    split at he
    · split at he <;> simp at he; exact Or.inl ⟨_, he⟩
    · simp at he
  case disableFocus =>
    refine wr _ _ rfl rfl ?_
    intro e he; unfold Modes.disableFocusReporting at he
    split at he
    · split at he <;> simp at he; exact Or.inl ⟨_, he⟩
    · simp at he
  case setTitle t =>
    refine wr _ _ rfl rfl ?_
    intro e he; split at he <;> simp at he; exact Or.inl ⟨_, he⟩
  case beep => exact wr st _ rfl rfl (by simp)
  case suspend => exact disengage_tty ad v a rw payload corner s st h
  case resume =>
    unfold engage
    obtain ⟨h1, h2, h3⟩ := h
    split
    · rename_i hr; simp [TtyRel, ttyStep, h1, h2, h3]
    · rename_i hr
      simp only [List.foldl_append, List.foldl_cons, List.foldl_nil]
      rw [tty_writes _ _ (engageEvs_writes _ _)]
      simp at hr
      simp [TtyRel, ttyStep, h1, h2, h3, hr]
  case fini =>
    unfold finiV
    split
    · exact h
    · rename_i hf
      have hd := disengage_tty ad v a rw payload corner s st h
      simp only [List.foldl_append, List.foldl_cons, List.foldl_nil]
      obtain ⟨d1, d2, d3⟩ := hd
      have hrf : (disengageV v (mkCf ad rw payload corner a) st).1.running = false := by
        unfold disengageV; split
        · rename_i hr; simpa using hr
        · rfl
      have hff : (disengageV v (mkCf ad rw payload corner a) st).1.finished = st.finished := by
        unfold disengageV; split <;> rfl
      simp at hf
      simp [TtyRel, ttyStep, d1, d2, d3, hrf, hff, hf]
  case scr sop =>
    cases sop <;> simp only [scrStep]
    case «show» => split; exact wr _ _ rfl rfl (by simp); exact wr _ _ rfl rfl (by simp)
    case sync => split; exact wr _ _ rfl rfl (by simp); exact wr _ _ rfl rfl (by simp)
    all_goals exact wr _ [] rfl rfl (by simp)

/-- all events of a history, Init (`Modes.init`) included, in order -/
def allEvents (w h : Int) (ops : List MOp) : List Ev :=
  (Modes.init (mkCf ad rw payload corner a) w h).2 ++
    ((ops.foldl (fun (acc : MState × List Ev) op =>
        ((stepV v (mkCf ad rw payload corner a) acc.1 op).1, acc.2 ++ (stepV v (mkCf ad rw payload corner a) acc.1 op).2))
      ((Modes.init (mkCf ad rw payload corner a) w h).1, [])).2)

/-- **C04, Tty contract order.**  In the call log of **every** history (any calls, any order, Resume after Fini included):
    Start is only called on a stopped tty, Drain only on a started one, every Stop is preceded in its session by Drain and by
    NotifyResize(nil) with no re-registration in between, Close is called at most once and only on a stopped tty. -/
theorem tty_order (w h : Int) (ops : List MOp) :
    ((allEvents ad v a rw payload corner w h ops).foldl ttyStep {}).ok = true := by
  unfold allEvents
  have h0 : TtyRel ((Modes.init (mkCf ad rw payload corner a) w h).2.foldl ttyStep {}) (Modes.init (mkCf ad rw payload corner a) w h).1 := by
    unfold Modes.init
    have := step_tty ad v a rw payload corner {} (Modes.fresh w h) .resume ⟨rfl, rfl, rfl⟩
    simp only [stepV] at this
    simpa [List.foldl_cons] using this
  rw [List.foldl_append]
  generalize (Modes.init (mkCf ad rw payload corner a) w h).1 = st0 at h0 ⊢
  generalize (Modes.init (mkCf ad rw payload corner a) w h).2.foldl ttyStep {} = s0 at h0 ⊢
  suffices H : ∀ (ops : List MOp) (st : MState) (pre : List Ev) (s : TtySt), TtyRel (pre.foldl ttyStep s) st →
      TtyRel ((ops.foldl (fun (acc : MState × List Ev) op =>
        ((stepV v (mkCf ad rw payload corner a) acc.1 op).1, acc.2 ++ (stepV v (mkCf ad rw payload corner a) acc.1 op).2))
        (st, pre)).2.foldl ttyStep s)
        (ops.foldl (fun (acc : MState × List Ev) op =>
        ((stepV v (mkCf ad rw payload corner a) acc.1 op).1, acc.2 ++ (stepV v (mkCf ad rw payload corner a) acc.1 op).2))
        (st, pre)).1 from (H ops st0 [] s0 h0).1
  intro ops
  induction ops with
  | nil => intro st pre s h; exact h
  | cons op l ih =>
    intro st pre s h
    simp only [List.foldl_cons]
    apply ih
    rw [List.foldl_append]
    exact step_tty ad v a rw payload corner _ st op h

/-- **all writes of a tear-down precede its Stop**: in the events of a Suspend or Fini nothing but Close follows the Stop
    (no write, no WindowSize, no Drain) -/
theorem teardown_writes_before_stop (st : MState) (op : MOp) (hop : op = .suspend ∨ op = .fini) :
    ∃ pre post, (stepV v (mkCf ad rw payload corner a) st op).2 = pre ++ post ∧   -- `pre`: no Stop, no Close
      (post = [] ∨ post = [.call .stop] ∨ post = [.call .stop, .call .close] ∨ post = [.call .close]) ∧
      (∀ e ∈ pre, e ≠ .call .stop ∧ e ≠ .call .close) := by
  have hw := disengageEvs_writes v (mkCf ad rw payload corner a) st.wd.s.cursorShaped st.wd.s.cursorTinted
  have hpre : ∀ e ∈ [Ev.call .drain, Ev.call .notifyNil] ++ disengageEvsV v (mkCf ad rw payload corner a) st.wd.s.cursorShaped st.wd.s.cursorTinted,
      e ≠ .call .stop ∧ e ≠ .call .close := by
    intro e he
    simp only [List.mem_append, List.mem_cons, List.not_mem_nil, or_false] at he
    rcases he with (he | he) | he
    · subst he; simp
    · subst he; simp
    · rcases hw e he with ⟨k, rfl⟩ | ⟨c, rfl⟩ | rfl <;> simp
  rcases hop with rfl | rfl <;> simp only [stepV]
  · unfold disengageV
    split
    · exact ⟨[], [], rfl, Or.inl rfl, by simp⟩
    · exact ⟨_, [.call .stop], rfl, Or.inr (Or.inl rfl), hpre⟩
  · unfold finiV
    split
    · exact ⟨[], [], rfl, Or.inl rfl, by simp⟩
    · unfold disengageV
      split
      · exact ⟨[], [.call .close], rfl, Or.inr (Or.inr (Or.inr rfl)), by simp⟩
      · exact ⟨_, [.call .stop, .call .close], by simp, Or.inr (Or.inr (Or.inl rfl)), hpre⟩

/-- **no I/O while stopped unless the application asks for it**: on a screen that is not running, every call other than
    Resume and Beep touches the tty with nothing but, for the first Fini, Close (mode changes are deferred to Resume,
    Show and Sync do nothing) -/
theorem stopped_is_quiet (st : MState) (op : MOp) (hr : st.running = false) (h1 : op ≠ .resume) (h2 : op ≠ .beep) :
    (stepV v (mkCf ad rw payload corner a) st op).2 = [] ∨
    (op = .fini ∧ st.finished = false ∧ (stepV v (mkCf ad rw payload corner a) st op).2 = [.call .close]) := by
  cases op <;> simp only [stepV, hr, Bool.false_eq_true, if_false, and_false] <;> try (first | exact Or.inl rfl | exact Or.inl trivial)
  case resume => exact absurd rfl h1
  case beep => exact absurd rfl h2
  case suspend => left; simp [disengageV, hr]
  case fini =>
    unfold finiV
    split
    · left; rfl
    · rename_i hf; right; simp at hf; simp [disengageV, hr, hf]
  case scr sop => left; cases sop <;> simp [scrStep, hr]

/-- **Close only in Fini**, and then as the very last call -/
theorem close_only_in_fini (st : MState) (op : MOp) (h : Ev.call .close ∈ (stepV v (mkCf ad rw payload corner a) st op).2) :
    op = .fini ∧ (stepV v (mkCf ad rw payload corner a) st op).2.getLast? = some (.call .close) := by
  have hw := disengageEvs_writes v (mkCf ad rw payload corner a) st.wd.s.cursorShaped st.wd.s.cursorTinted
  have hdis : Ev.call .close ∉ (disengageV v (mkCf ad rw payload corner a) st).2 := by
    unfold disengageV
    split
    · simp
    · simp only [List.mem_append, List.mem_cons, List.not_mem_nil, or_false]
      intro hc
      rcases hc with ((hc | hc) | hc) | hc
      · cases hc
      · cases hc
      · rcases hw _ hc with ⟨k, hk⟩ | ⟨c, hk⟩ | hk <;> cases hk
      · cases hc
  cases op <;> simp only [stepV] at h ⊢
  case fini =>
    refine ⟨by first | rfl | trivial, ?_⟩
    unfold finiV at h ⊢
    split
    · rename_i hf; simp [hf] at h
    · simp
  case suspend => exact absurd h hdis
  case resume =>
    exfalso
    unfold engage at h
    split at h
    · simp at h
    · rw [List.mem_append] at h
      rcases h with h | h
      · simp at h
      · rcases engageEvs_writes _ _ _ h with ⟨k, hk⟩ | ⟨c, hk⟩ | hk <;> cases hk
  case enableMouse f =>
    exfalso; split at h
    · rcases enableMouse_writes _ _ _ h with ⟨k, hk⟩ | ⟨c, hk⟩ | hk <;> cases hk
    · simp at h
  case disableMouse =>
    exfalso; split at h
    · rcases enableMouse_writes _ _ _ h with ⟨k, hk⟩ | ⟨c, hk⟩ | hk <;> cases hk
    · simp at h
  case enablePaste =>
    exfalso; split at h
    · rcases enablePasting_writes _ _ _ h with ⟨k, hk⟩ | ⟨c, hk⟩ | hk <;> cases hk
    · simp at h
  case disablePaste =>
    exfalso; split at h
    · rcases enablePasting_writes _ _ _ h with ⟨k, hk⟩ | ⟨c, hk⟩ | hk <;> cases hk
    · simp at h
  case enableFocus => exfalso; unfold Modes.enableFocusReporting at h; split at h <;> (try split at h) <;> simp at h
  case disableFocus => exfalso; unfold Modes.disableFocusReporting at h; split at h <;> (try split at h) <;> simp at h
  case setTitle t => exfalso; split at h <;> simp at h
  case beep => simp at h
  case scr sop => exfalso; cases sop <;> simp only [scrStep] at h <;> (try split at h) <;> simp at h

end

/-! ### non-vacuity, and the clause the pinned code does not satisfy -/

/-- an xterm-like description: every string exists -/
def adX : AD :=
  { mouse := true, pasteOn := true, pasteOff := true, focusOn := true, focusOff := true, saveTitle := true, restoreTitle := true,
    setTitle := true, cursorFg := true, cursorRGB := true, cursorStyles := some (fun _ => true), enterCA := true, exitCA := true,
    caTitle := true, showCursor := true, hideCursor := true, enterKeypad := true, exitKeypad := true, disableAM := true,
    enableAM := true, attrOff := true, resetFgBg := true, url := true }

theorem adX_paired : Paired adX :=
  ⟨rfl, fun _ => rfl, fun _ => rfl, fun _ => rfl, rfl, fun p hp => by cases hp; rfl, fun _ => rfl, fun _ => rfl, fun _ => rfl, rfl⟩

def rw1 : Rune → Int := fun _ => 1
def pay1 : Rune → List Rune → List Nat := fun m _ => [m.toNat]

/-- a history with mouse + paste + focus + title + a red steady-bar cursor drawn, a Suspend/Resume cycle with requests made
    while suspended, more drawing with the cursor style set back to default, ending in Fini -/
def hist : List MOp :=
  [.enableMouse 5, .enablePaste, .enableFocus, .setTitle [116], .scr (.setCursorStyle 6 (2^32 + 2^33 + 0xff0000)),
   .scr (.showCursor 0 0), .scr (.setContent 0 0 120 [] { attrs := 1 }), .scr .show, .suspend, .disableMouse, .enableMouse 2,
   .beep, .scr .show, .resume, .scr (.setCursorStyle 0 0), .scr .sync]

example : wfFrom false (hist ++ [.fini]) = true := by decide

/-- the hypotheses of `modes_restored` are satisfiable, and its conclusion on this history -/
example : Idle adX false true (execAll adX false true rw1 pay1 false (world0 3 1 [115, 104] []) (.resume :: (hist ++ [.fini]))).r
    (execAll adX false true rw1 pay1 false (world0 3 1 [115, 104] []) (.resume :: (hist ++ [.fini]))).g [] :=
  modes_restored adX false true rw1 pay1 false adX_paired 3 1 [115, 104] [] hist .fini (Or.inr rfl) (by decide)

set_option maxRecDepth 100000 in
/-- … and it is not trivially so: in the middle of that history (after the Show) the modes really are on, the cursor is a
    tinted steady bar, a saved title is on the stack; after the Resume the mouse mode requested *while suspended* is on -/
def r1 : Regs := (execAll adX false true rw1 pay1 false (world0 3 1 [115, 104] []) (.resume :: hist.take 8)).r
def r2 : Regs := (execAll adX false true rw1 pay1 false (world0 3 1 [115, 104] []) (.resume :: hist.take 14)).r

set_option maxRecDepth 100000 in
example :
    r1.alt = true ∧ r1.m1000 = true ∧ r1.m1002 = false ∧ r1.m1003 = true ∧ r1.m1006 = true ∧ r1.paste = true ∧
    r1.focus = true ∧ r1.shape = 6 ∧ r1.tinted = true ∧ r1.penSet = true ∧ r1.keypad = true ∧ r1.am = false ∧
    r1.title = [116] ∧ r1.tstack = [[115, 104], [115, 104]] ∧
    r2.m1000 = false ∧ r2.m1002 = true ∧ r2.m1003 = false ∧ r2.m1006 = true ∧ r2.paste = true ∧ r2.focus = true ∧
    r2.alt = true := by
  decide +kernel

/-- the history behind the known finding `C04-hyperlink-left-open`: draw the last cell with a hyperlink style, then Fini -/
def histLink : List MOp := [.scr (.setContent 2 0 120 [] { url := "http://x/" }), .scr .show]

set_option maxRecDepth 100000 in
/-- **the pinned disengage (`v = false`) leaves the hyperlink open**: `modes_restored`'s hyperlink clause (`v = true → …`)
    cannot be strengthened to the pinned code; the engine `modes` reproduces this on the real code
    (finding class `mode-left-on:hyperlink`, repair fixes/C04-exit-url.patch) -/
theorem hyperlink_left_open :
    (execAll adX false false rw1 pay1 false (world0 3 1 [] []) (.resume :: (histLink ++ [.fini]))).r.link = true ∧
    (execAll adX true false rw1 pay1 false (world0 3 1 [] []) (.resume :: (histLink ++ [.fini]))).r.link = false := by
  decide +kernel

/-- without the restriction "no Resume after Fini" the statement is false for the code as it is: Fini is once-only
    (`finiOnce`), so a screen resumed after Fini can never be torn down by Fini again -/
theorem resume_after_fini_stays_engaged :
    (execAll adX false true rw1 pay1 false (world0 3 1 [] []) [.resume, .fini, .resume, .fini]).r.alt = true := by
  decide +kernel

/-! ### refused calls are inert -/

/-- **resume_while_running_inert**: Resume on a screen that is running ("already engaged": an unconditional SIGCONT handler, a
double Resume) re-registers the resize callback and does nothing else — no byte is written, no Tty call but NotifyResize is made,
and the whole state (requests, cells, the session's shutdown signalling that a later Suspend relies on) is what it was.  (A tree on
which the refused call replaces the session's stop channel hangs the next Suspend: seeded change C06-7, reported by engine `pipe`.) -/
theorem resume_while_running_inert (cf : ModeCfg) (st : MState) (h : st.running = true) :
    Modes.step cf st .resume = (st, [.call .notifyFn]) := by
  simp [Modes.step, Modes.stepV, Modes.engage, h]

/-- **suspend_while_suspended_inert**: Suspend on a screen that is not running (suspended already, or finished) does nothing at all -/
theorem suspend_while_suspended_inert (cf : ModeCfg) (st : MState) (h : st.running = false) :
    Modes.step cf st .suspend = (st, []) := by
  simp [Modes.step, Modes.stepV, Modes.disengageV, h]

example (cf : ModeCfg) : ∃ st : MState, st.running = true ∧ Modes.step cf st .resume = (st, [.call .notifyFn]) :=
  ⟨{ running := true }, rfl, resume_while_running_inert cf _ rfl⟩

end Tcell.Props.C04
