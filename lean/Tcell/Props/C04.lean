import Tcell.Model.Modes
namespace Tcell.Props.C04
open Tcell Tcell.Modes

/-- placeholder first theorem (replaced below as the proofs deepen): a second Fini touches nothing -/
theorem fini_idempotent (v : Bool) (cf : ModeCfg) (st : MState) : (finiV v cf (finiV v cf st).1).2 = [] := by
  unfold finiV
  split <;> simp_all

end Tcell.Props.C04
