import Tcell.Lemmas.TParm
import Tcell.Gen.TerminfoDB
namespace Tcell.Props.C15
end Tcell.Props.C15
