/-
C15 — TPuts strips only padding; TGoto and TColor are right for every terminal.
Models: Tcell.Model.TPuts (TPuts / TGoto / TColor of terminfo.go:596-675), Tcell.Model.TParm.
References: Tcell.Spec.TermCaps (padding grammar, addressing conventions, SGR decoder).
-/
import Tcell.Lemmas.Cup
import Tcell.Gen.TerminfoDB
namespace Tcell.Props.C15
open Tcell Tcell.TParm Tcell.TPuts Tcell.Spec.TermCaps

/-! ### TPuts -/

/-- `a$<x>b`: the pinned code removes `$<x>` although it is not a padding specification; the reference keeps it and
so does the repaired code (fixes/C15-tputs-nonpadding.patch). -/
theorem tputs_nonpadding_counterexample :
    (tputsV false [] [97,36,60,120,62,98]).bytes = [97,98] ∧
    stripPadding [97,36,60,120,62,98] = [97,36,60,120,62,98] ∧
    (tputsV true [] [97,36,60,120,62,98]).bytes = [97,36,60,120,62,98] := by decide

/-- a well-formed specification is removed by all three: `ESC[H$<5.5*/>x` -/
example : (tputsV false [] [27,91,72,36,60,53,46,53,42,47,62,120]).bytes = [27,91,72,120] ∧
    stripPadding [27,91,72,36,60,53,46,53,42,47,62,120] = [27,91,72,120] ∧
    (tputsV true [0] [27,91,72,36,60,53,46,53,42,47,62,120]) = ⟨[27,91,72,120], [5500000]⟩ := by decide

theorem tputsAux_delays_nil (st : Bool) (f : Nat) (s : Bytes) (o : Out) (h : o.delays = []) :
    (tputsAux st [] f s o).delays = [] := by
  induction f generalizing s o with
  | zero => simpa [tputsAux] using h
  | succ f ih =>
    simp only [tputsAux]
    split
    · simpa using h
    · split
      · simpa using h
      · split
        · exact ih _ _ (by simpa using h)
        · exact ih _ _ (by simpa using h)

/-- TPuts sleeps only when the terminal description has a pad character: with an empty `PadChar` no delay is
ever taken, whatever the string. -/
theorem delay_only_with_padchar (st : Bool) (s : Bytes) : (tputsV st [] s).delays = [] :=
  tputsAux_delays_nil st _ s {} rfl

/-- A string without `$<` is written unchanged. -/
theorem no_marker_identity (st : Bool) (pad s : Bytes) (h : findMarker s = none) : (tputsV st pad s).bytes = s := by
  simp [tputsV, tputsAux, h]

/-- An unterminated `$<…` (no `>` after the first `$<`) is written verbatim, together with everything before it. -/
theorem unterminated_verbatim (st : Bool) (pad s pre post : Bytes) (h : findMarker s = some (pre, post))
    (hg : findGt post = none) : (tputsV st pad s).bytes = s := by
  have := findMarker_split s pre post h
  simp only [tputsV, tputsAux, h, hg]
  simp [this]

example : (tputsV false [] [97,36,60,53]).bytes = [97,36,60,53] :=
  unterminated_verbatim false [] _ [97] [53] (by decide) (by decide)

/-- **`tputs_spec`**: for EVERY byte string `s` and any pad character, the bytes the repaired TPuts (terminfo.go
596-644 at /repo HEAD: `strings.Index` for `$<`, then for `>`, `isPadding`) writes are exactly `s` with every
well-formed padding specification `$< digit+ [. digit*] (*|/)* >` removed, as the grammar-directed reference
`stripPadding` defines it: a `$<…>` whose content is not a padding specification stays, an unterminated `$<` stays,
scanning resumes right after a kept `$<` (so `$<$<5>` loses only the inner specification).  For the pinned code the
statement is false (`tputs_nonpadding_counterexample`). -/
theorem tputs_spec (pad s : Bytes) : (tputsV true pad s).bytes = stripPadding s := by
  have := tputsAux_bytes pad (s.length + 1) s {} (Nat.lt_succ_self _)
  simpa [tputsV] using this

example : (tputsV true [0] [36,60,36,60,53,62,120,36,60,49,46,62,36,60,46,62]).bytes = [36,60,120,36,60,46,62] := by decide

/-- the same for the model variant that mirrors the tree under check -/
theorem tputs_spec_current (pad s : Bytes) : (tputs pad s).bytes = stripPadding s := tputs_spec pad s

/-- what TPuts writes is a subsequence of the string (it only ever removes bytes) -/
theorem output_is_subsequence (pad s : Bytes) : ((tputsV true pad s).bytes).Sublist s := by
  rw [tputs_spec]; exact strip_sublist s

/-- on a terminal with a pad character the delays TPuts sleeps are, in order, those of exactly the padding
specifications the reference grammar recognises (`padSpecs`), each converted by the code's `n[.m]` ms arithmetic
(`delayOf`: digits accumulate, every digit after the dot divides the unit by ten) -/
theorem tputs_delays (pad s : Bytes) (h : pad ≠ []) :
    (tputsV true pad s).delays = (padSpecs s).map delayOf := by
  have hp : pad.isEmpty = false := by cases pad <;> simp_all
  have := tputsAux_delays pad hp (s.length + 1) s {} (Nat.lt_succ_self _)
  simpa [tputsV] using this

example : (tputsV true [0] [97,36,60,53,62,98,36,60,120,62,36,60,49,46,53,42,62]).delays = [5000000, 1500000] ∧
    padSpecs [97,36,60,53,62,98,36,60,120,62,36,60,49,46,53,42,62] = [[53], [49,46,53,42]] := by decide

/-! ### TGoto: closed forms of every distinct SetCursor program of the database -/

/-- `ESC [ %i %p1 %d ; %p2 %d H` -/
def cupAnsi : Bytes := [27,91,37,105,37,112,49,37,100,59,37,112,50,37,100,72]
/-- `ESC & a %p1 %d y %p2 %d C` (hpterm) -/
def cupHp : Bytes := [27,38,97,37,112,49,37,100,121,37,112,50,37,100,67]
/-- `ESC Y %p1 %' ' %+ %c %p2 %' ' %+ %c` (vt52) -/
def cupVt52 : Bytes := [27,89,37,112,49,37,39,32,39,37,43,37,99,37,112,50,37,39,32,39,37,43,37,99]
/-- `ESC = %p1 %' ' %+ %c %p2 %' ' %+ %c` (wy50, wy60) -/
def cupWyse : Bytes := [27,61,37,112,49,37,39,32,39,37,43,37,99,37,112,50,37,39,32,39,37,43,37,99]

/-- the programs the closed forms below cover: ANSI, ANSI with a `$<5>` / `$<10>` padding suffix, HP, VT52, Wyse -/
def knownCup : List Bytes := [cupAnsi, cupAnsi ++ [36,60,53,62], cupAnsi ++ [36,60,49,48,62], cupHp, cupVt52, cupWyse]

/-- Every built-in entry's SetCursor is one of the programs with a proved closed form (kernel evaluation over the
regenerated database; a new entry with another cup program re-opens this obligation). -/
theorem db_cursor_known : ∀ e ∈ Gen.db, e.setCursor ∈ knownCup := by
  have h : (Gen.db.all fun e => knownCup.contains e.setCursor) = true := by decide +kernel
  intro e he
  have := List.all_eq_true.mp h e he
  simpa using this

/-! closed forms: for ALL rows and columns (64-bit ints), any static variables, pinned and repaired machine.
`TGoto(col,row) = TParm(SetCursor,row,col)` (terminfo.go:648). -/

set_option maxRecDepth 4000 in
/-- ANSI: `ESC [ row+1 ; col+1 H` in decimal -/
theorem cup_ansi (v : Variant) (row col : Int) (sv : Vars) :
    tparmV v cupAnsi [.int row, .int col] sv =
      ([27, 91] ++ itoa (wrap64 (row + 1)) ++ [59] ++ itoa (wrap64 (col + 1)) ++ [72], sv) := by
  simp [tparmV, cupAnsi, run, step, execOp, pad9, put, popInt, hd0, isDigit, incParam, Value.toInt, List.modify]

set_option maxRecDepth 4000 in
/-- ANSI with the `$<5>` suffix (vt100, vt102): the suffix is returned verbatim (TPuts removes it later) -/
theorem cup_ansi_pad5 (v : Variant) (row col : Int) (sv : Vars) :
    tparmV v (cupAnsi ++ [36,60,53,62]) [.int row, .int col] sv =
      ([27, 91] ++ itoa (wrap64 (row + 1)) ++ [59] ++ itoa (wrap64 (col + 1)) ++ [72] ++ [36,60,53,62], sv) := by
  simp [tparmV, cupAnsi, run, step, execOp, pad9, put, popInt, hd0, isDigit, incParam, Value.toInt, List.modify]

set_option maxRecDepth 4000 in
/-- ANSI with the `$<10>` suffix (vt420) -/
theorem cup_ansi_pad10 (v : Variant) (row col : Int) (sv : Vars) :
    tparmV v (cupAnsi ++ [36,60,49,48,62]) [.int row, .int col] sv =
      ([27, 91] ++ itoa (wrap64 (row + 1)) ++ [59] ++ itoa (wrap64 (col + 1)) ++ [72] ++ [36,60,49,48,62], sv) := by
  simp [tparmV, cupAnsi, run, step, execOp, pad9, put, popInt, hd0, isDigit, incParam, Value.toInt, List.modify]

set_option maxRecDepth 4000 in
/-- HP: `ESC & a row y col C`, 0-based decimal -/
theorem cup_hp (v : Variant) (row col : Int) (sv : Vars) :
    tparmV v cupHp [.int row, .int col] sv =
      ([27, 38, 97] ++ itoa row ++ [121] ++ itoa col ++ [67], sv) := by
  simp [tparmV, cupHp, run, step, execOp, pad9, put, popInt, hd0, isDigit, Value.toInt]

set_option maxRecDepth 4000 in
/-- VT52: `ESC Y`, then row+32 and col+32 as single bytes (Go's `byte(ai)` truncation mod 256) -/
theorem cup_vt52 (v : Variant) (row col : Int) (sv : Vars) :
    tparmV v cupVt52 [.int row, .int col] sv =
      ([27, 89, (wrap64 (row + 32) % 256).toNat, (wrap64 (col + 32) % 256).toNat], sv) := by
  simp [tparmV, cupVt52, run, step, execOp, pad9, put, popInt, hd0, isDigit, Value.toInt, binop]

set_option maxRecDepth 4000 in
/-- Wyse: `ESC =`, then row+32 and col+32 as single bytes -/
theorem cup_wyse (v : Variant) (row col : Int) (sv : Vars) :
    tparmV v cupWyse [.int row, .int col] sv =
      ([27, 61, (wrap64 (row + 32) % 256).toNat, (wrap64 (col + 32) % 256).toNat], sv) := by
  simp [tparmV, cupWyse, run, step, execOp, pad9, put, popInt, hd0, isDigit, Value.toInt, binop]

/-- in the range the offset-32 conventions can express the byte is exactly position+32 -/
theorem offset32_byte (n : Int) (h0 : 0 ≤ n) (h : n < 224) : (wrap64 (n + 32) % 256).toNat = n.toNat + 32 := by
  unfold wrap64 two63 two64; omega

/-- and the ANSI parameter is exactly position+1 for every non-negative position a Go int can hold -/
theorem ansi_param (n : Int) (h0 : 0 ≤ n) (h : n < maxInt64) : wrap64 (n + 1) = n + 1 := by
  unfold wrap64 two63 two64; unfold maxInt64 at h; omega

/-- the terminal's convention (by name) is the one its SetCursor program implements: after removing padding the
program of every built-in entry is the canonical program of its family -/
def cupOf : CupFamily → Bytes
  | .ansi => cupAnsi | .vt52 => cupVt52 | .wyse => cupWyse | .hp => cupHp

theorem db_cursor_family : ∀ e ∈ Gen.db, stripPadding e.setCursor = cupOf (familyOfName e.name) := by
  have h : (Gen.db.all fun e => stripPadding e.setCursor == cupOf (familyOfName e.name)) = true := by decide +kernel
  intro e he
  simpa using List.all_eq_true.mp h e he

/-- every per-family decoder inverts the convention's encoder, for ALL rows and columns (no bound) -/
theorem decode_encode_all (fam : CupFamily) (row col : Nat) : fam.decode (fam.encode row col) = some (row, col) :=
  decode_encode fam row col

/-- each entry's (SetCursor program, convention of its name) is one of six known pairs -/
def knownCupFam : List (Bytes × CupFamily) :=
  [(cupAnsi, .ansi), (cupAnsi ++ [36,60,53,62], .ansi), (cupAnsi ++ [36,60,49,48,62], .ansi),
   (cupHp, .hp), (cupVt52, .vt52), (cupWyse, .wyse)]

theorem db_cursor_known_family : ∀ e ∈ Gen.db, (e.setCursor, familyOfName e.name) ∈ knownCupFam := by
  have h : (Gen.db.all fun e => knownCupFam.contains (e.setCursor, familyOfName e.name)) = true := by decide +kernel
  intro e he
  simpa using List.all_eq_true.mp h e he

theorem strip_four (a b : Nat) (x y : Nat) (hx : x ≠ 36) (hy : y ≠ 36) : stripPadding [x, y, a, b] = [x, y, a, b] := by
  have h3 : matchPad [a, b] = none := by
    unfold matchPad
    split
    · rename_i r heq
      simp only [List.cons.injEq] at heq
      obtain ⟨_, _, rfl⟩ := heq
      rfl
    · rfl
  rw [strip_cons, matchPad_none_of' x _ (by intro h; exact hx h.1)]
  simp only
  rw [strip_cons, matchPad_none_of' y _ (by intro h; exact hy h.1)]
  simp only
  rw [strip_cons, h3]
  simp only
  rw [strip_cons, matchPad_none_of' b [] (by simp)]
  rfl

theorem digits_no36 (n : Nat) : ∀ b ∈ natDigits n, b ≠ 36 := by
  intro b hb
  have := (isDigit_iff b).mp (natDigits_digits n b hb)
  omega

/-- **TGoto, general statement.**  For every built-in entry and EVERY position the entry's addressing convention can
express (ANSI and HP: all rows/columns a Go `int` can hold after the 1-based shift, i.e. `< 2^63 - 1`; the offset-32
conventions VT52 / Wyse: `row, col < 224`), the bytes that reach the terminal for `TGoto(col,row)` (capability output
with the padding removed) are exactly the string the convention defines for that position … -/
theorem tgoto_is_encode : ∀ e ∈ Gen.db, ∀ (row col : Nat) (sv : Vars),
    (familyOfName e.name).expressible row col = true → row < 9223372036854775807 → col < 9223372036854775807 →
    stripPadding (tgoto e (col : Int) (row : Int) sv).1 = (familyOfName e.name).encode row col := by
  intro e he row col sv hx hr hc
  have hk := db_cursor_known_family e he
  have hr1 : wrap64 ((row : Int) + 1) = ((row + 1 : Nat) : Int) := by
    rw [ansi_param _ (by omega) (by unfold maxInt64; omega)]; omega
  have hc1 : wrap64 ((col : Int) + 1) = ((col + 1 : Nat) : Int) := by
    rw [ansi_param _ (by omega) (by unfold maxInt64; omega)]; omega
  have hansi : ∀ b ∈ [27, 91] ++ natDigits (row + 1) ++ [59] ++ natDigits (col + 1) ++ [72], b ≠ 36 := by
    intro b hb
    simp only [List.mem_append, List.mem_cons, List.mem_singleton, List.not_mem_nil, or_false] at hb
    rcases hb with (((hb | hb) | hb) | hb) | hb
    · omega
    · exact digits_no36 _ b hb
    · omega
    · exact digits_no36 _ b hb
    · omega
  generalize hfam : familyOfName e.name = fam at hk hx
  simp only [knownCupFam, List.mem_cons, Prod.mk.injEq, List.not_mem_nil, or_false] at hk
  simp only [tgoto, tparm]
  rcases hk with ⟨hp, rfl⟩ | ⟨hp, rfl⟩ | ⟨hp, rfl⟩ | ⟨hp, rfl⟩ | ⟨hp, rfl⟩ | ⟨hp, rfl⟩
  · rw [hp, cup_ansi, hr1, hc1, itoa_nonneg, itoa_nonneg]
    exact strip_no36 _ hansi
  · rw [hp, cup_ansi_pad5, hr1, hc1, itoa_nonneg, itoa_nonneg, strip_append_no36 _ _ hansi]
    simp only [CupFamily.encode, show stripPadding [36,60,53,62] = [] by decide, List.append_nil]
  · rw [hp, cup_ansi_pad10, hr1, hc1, itoa_nonneg, itoa_nonneg, strip_append_no36 _ _ hansi]
    simp only [CupFamily.encode, show stripPadding [36,60,49,48,62] = [] by decide, List.append_nil]
  · rw [hp, cup_hp, itoa_nonneg, itoa_nonneg]
    apply strip_no36
    intro b hb
    simp only [List.mem_append, List.mem_cons, List.mem_singleton, List.not_mem_nil, or_false] at hb
    rcases hb with ((((hb | hb | hb) | hb) | hb) | hb) | hb
    · omega
    · omega
    · omega
    · exact digits_no36 _ b hb
    · omega
    · exact digits_no36 _ b hb
    · omega
  · simp only [CupFamily.expressible, Bool.and_eq_true, decide_eq_true_eq] at hx
    rw [hp, cup_vt52, offset32_byte _ (by omega) (by omega), offset32_byte _ (by omega) (by omega)]
    simp only [Int.toNat_natCast, CupFamily.encode]
    exact strip_four _ _ 27 89 (by decide) (by decide)
  · simp only [CupFamily.expressible, Bool.and_eq_true, decide_eq_true_eq] at hx
    rw [hp, cup_wyse, offset32_byte _ (by omega) (by omega), offset32_byte _ (by omega) (by omega)]
    simp only [Int.toNat_natCast, CupFamily.encode]
    exact strip_four _ _ 27 61 (by decide) (by decide)

/-- … and hence the decoder of the entry's convention reads back exactly `(row, col)`:
`decodeFamily (TGoto col row) = (col, row)` for all expressible positions of every built-in terminal
(this replaces the sampled `decode_encode_sample_partial`). -/
theorem tgoto_decode : ∀ e ∈ Gen.db, ∀ (row col : Nat) (sv : Vars),
    (familyOfName e.name).expressible row col = true → row < 9223372036854775807 → col < 9223372036854775807 →
    (familyOfName e.name).decode (stripPadding (tgoto e (col : Int) (row : Int) sv).1) = some (row, col) := by
  intro e he row col sv hx hr hc
  rw [tgoto_is_encode e he row col sv hx hr hc]
  exact decode_encode _ row col

/-- the hypotheses are satisfiable: the database has entries of every convention, and (4, 28) – whose VT52 encoding
`ESC Y $ <` even contains the bytes of a padding marker – is expressible -/
example : ([CupFamily.ansi, .vt52, .wyse, .hp].all fun fam => Gen.db.any fun e => familyOfName e.name == fam) = true
    ∧ CupFamily.vt52.expressible 4 28 = true ∧ CupFamily.vt52.encode 4 28 = [27, 89, 36, 60] := by decide +kernel

/-! ### TColor (terminfo.go:654-675) -/

/-- negative components are elided: nothing is emitted when both are negative -/
theorem tcolor_negative_elided (t : Terminfo) (fi bi : Int) (sv : Vars) (hf : fi < 0) (hb : bi < 0) :
    tcolor t fi bi sv = ([], sv) := by
  have h1 : ¬ (fi > 7) := by omega
  have h2 : ¬ (bi > 7) := by omega
  have h3 : ¬ (fi ≥ 0) := by omega
  have h4 : ¬ (bi ≥ 0) := by omega
  simp [tcolor, h1, h2, h3, h4]

/-- out-of-range components are elided (colour index ≥ the terminal's colour count, for terminals with more than 8
colours or indices ≥ 16) -/
theorem tcolor_out_of_range_elided (t : Terminfo) (fi bi : Int) (sv : Vars)
    (hf : t.colors ≤ fi) (hb : t.colors ≤ bi) (h16f : 16 ≤ fi ∨ t.colors ≠ 8) (h16b : 16 ≤ bi ∨ t.colors ≠ 8) :
    tcolor t fi bi sv = ([], sv) := by
  have e1 : (if (t.colors == 8 && decide (fi > 7) && decide (fi < 16)) = true then fi - 8 else fi) = fi := by
    rcases h16f with h | h
    · have : ¬ fi < 16 := by omega
      simp [this]
    · simp [h]
  have e2 : (if (t.colors == 8 && decide (bi > 7) && decide (bi < 16)) = true then bi - 8 else bi) = bi := by
    rcases h16b with h | h
    · have : ¬ bi < 16 := by omega
      simp [this]
    · simp [h]
  have h3 : ¬ (t.colors > fi) := by omega
  have h4 : ¬ (t.colors > bi) := by omega
  simp only [tcolor, e1, e2]
  simp [h3, h4]

/-- bright colours fold onto the basic eight on an 8-colour terminal -/
theorem tcolor_fold8 (t : Terminfo) (fi bi : Int) (sv : Vars) (h8 : t.colors = 8)
    (hf : 8 ≤ fi ∧ fi < 16) (hb : 8 ≤ bi ∧ bi < 16) :
    tcolor t fi bi sv = tcolor t (fi - 8) (bi - 8) sv := by
  have a1 : fi > 7 := by omega
  have a2 : bi > 7 := by omega
  have a3 : ¬ (fi - 8 > 7) := by omega
  have a4 : ¬ (bi - 8 > 7) := by omega
  simp [tcolor, h8, a1, a2, a3, a4, hf.2, hb.2]

set_option maxRecDepth 4000 in
/-- closed form of the basic setaf / setab programs `ESC [ 3 %p1 %d m`, `ESC [ 4 %p1 %d m` (16 entries) -/
theorem setaf_basic (v : Variant) (d : Nat) (n : Int) (sv : Vars) :
    tparmV v [27,91,d,37,112,49,37,100,109] [.int n] sv = (([27,91] ++ (if d = 37 then [] else [d])) ++ itoa n ++ [109], sv) ∨ d = 37 := by
  by_cases hd : d = 37
  · exact Or.inr hd
  · left
    simp [tparmV, run, step, execOp, pad9, put, popInt, hd0, isDigit, Value.toInt, hd]

set_option maxRecDepth 8000 in
/-- closed form of the 256-colour setaf program (14 entries):
`ESC [ %? %p1 %{8} %< %t 3 %p1 %d %e %p1 %{16} %< %t 9 %p1 %{8} %- %d %e 38;5; %p1 %d %; m` -/
theorem setaf_256 (v : Variant) (n : Int) (sv : Vars) :
    (tparmV v [27,91,37,63,37,112,49,37,123,56,125,37,60,37,116,51,37,112,49,37,100,37,101,37,112,49,37,123,49,54,125,
        37,60,37,116,57,37,112,49,37,123,56,125,37,45,37,100,37,101,51,56,59,53,59,37,112,49,37,100,37,59,109] [.int n] sv).1 =
      [27,91] ++ (if n < 8 then 51 :: itoa n else if n < 16 then 57 :: itoa (wrap64 (n - 8))
                  else [51,56,59,53,59] ++ itoa n) ++ [109] := by
  by_cases h8 : n < 8
  · simp [tparmV, run, step, execOp, skipOp, pad9, put, popInt, hd0, isDigit, Value.toInt, binop, readInt, ofBool, h8, wrap64, two63, two64]
  · by_cases h16 : n < 16
    · simp [tparmV, run, step, execOp, skipOp, pad9, put, popInt, hd0, isDigit, Value.toInt, binop, readInt, ofBool, h8, h16, wrap64, two63, two64]
    · simp [tparmV, run, step, execOp, skipOp, pad9, put, popInt, hd0, isDigit, Value.toInt, binop, readInt, ofBool, h8, h16, wrap64, two63, two64]

/-! ### closed forms of every distinct SetFg / SetBg / SetFgBg program of the database, for ALL colour indices -/

/-- `ESC [ %? %p1 %{8} %< %t 3 %p1 %d %e %p1 %{16} %< %t 9 %p1 %{8} %- %d %e 38;5; %p1 %d %; m` -/
def setaf256 : Bytes := [27,91,37,63,37,112,49,37,123,56,125,37,60,37,116,51,37,112,49,37,100,37,101,37,112,49,37,123,49,54,125,37,60,37,116,57,37,112,49,37,123,56,125,37,45,37,100,37,101,51,56,59,53,59,37,112,49,37,100,37,59,109]
/-- the same with `4`, `10`, `48;5;` -/
def setab256 : Bytes := [27,91,37,63,37,112,49,37,123,56,125,37,60,37,116,52,37,112,49,37,100,37,101,37,112,49,37,123,49,54,125,37,60,37,116,49,48,37,112,49,37,123,56,125,37,45,37,100,37,101,52,56,59,53,59,37,112,49,37,100,37,59,109]
/-- foot: `38:5:` / `48:5:` -/
def setafFoot : Bytes := [27,91,37,63,37,112,49,37,123,56,125,37,60,37,116,51,37,112,49,37,100,37,101,37,112,49,37,123,49,54,125,37,60,37,116,57,37,112,49,37,123,56,125,37,45,37,100,37,101,51,56,58,53,58,37,112,49,37,100,37,59,109]
def setabFoot : Bytes := [27,91,37,63,37,112,49,37,123,56,125,37,60,37,116,52,37,112,49,37,100,37,101,37,112,49,37,123,49,54,125,37,60,37,116,49,48,37,112,49,37,123,56,125,37,45,37,100,37,101,52,56,58,53,58,37,112,49,37,100,37,59,109]
/-- eterm-color: `ESC [ %p1 %{30} %+ %d m` and `ESC [ %p1 %'(' %+ %d m` -/
def setafEterm : Bytes := [27,91,37,112,49,37,123,51,48,125,37,43,37,100,109]
def setabEterm : Bytes := [27,91,37,112,49,37,39,40,39,37,43,37,100,109]
/-- rxvt-unicode, sun-color: `ESC [ 38;5; %p1 %d m` / `ESC [ 48;5; %p1 %d m` -/
def setafRxvt : Bytes := [27,91,51,56,59,53,59,37,112,49,37,100,109]
def setabRxvt : Bytes := [27,91,52,56,59,53,59,37,112,49,37,100,109]
/-- `ESC [ 3 %p1 %d m` / `ESC [ 4 %p1 %d m` -/
def setafBasic : Bytes := [27,91,51,37,112,49,37,100,109]
def setabBasic : Bytes := [27,91,52,37,112,49,37,100,109]
/-- SetFgBg programs -/
def fgbgBasic : Bytes := [27,91,51,37,112,49,37,100,59,52,37,112,50,37,100,109]
def fgbg256 : Bytes := [27,91,37,63,37,112,49,37,123,56,125,37,60,37,116,51,37,112,49,37,100,37,101,37,112,49,37,123,49,54,125,37,60,37,116,57,37,112,49,37,123,56,125,37,45,37,100,37,101,51,56,59,53,59,37,112,49,37,100,37,59,59,37,63,37,112,50,37,123,56,125,37,60,37,116,52,37,112,50,37,100,37,101,37,112,50,37,123,49,54,125,37,60,37,116,49,48,37,112,50,37,123,56,125,37,45,37,100,37,101,52,56,59,53,59,37,112,50,37,100,37,59,109]
def fgbgEterm : Bytes := [27,91,37,112,49,37,123,51,48,125,37,43,37,100,59,37,112,50,37,39,40,39,37,43,37,100,109]
def fgbgFoot : Bytes := [27,91,37,63,37,112,49,37,123,56,125,37,60,37,116,51,37,112,49,37,100,37,101,37,112,49,37,123,49,54,125,37,60,37,116,57,37,112,49,37,123,56,125,37,45,37,100,37,101,51,56,58,53,58,37,112,49,37,100,37,59,59,37,63,37,112,50,37,123,56,125,37,60,37,116,52,37,112,50,37,100,37,101,37,112,50,37,123,49,54,125,37,60,37,116,49,48,37,112,50,37,123,56,125,37,45,37,100,37,101,52,56,58,53,58,37,112,50,37,100,37,59,109]
def fgbgRxvt : Bytes := [27,91,51,56,59,53,59,37,112,49,37,100,59,52,56,59,53,59,37,112,50,37,100,109]

def knownSetFg : List Bytes := [[], setafBasic, setaf256, setafFoot, setafEterm, setafRxvt]
def knownSetBg : List Bytes := [[], setabBasic, setab256, setabFoot, setabEterm, setabRxvt]
def knownSetFgBg : List Bytes := [[], fgbgBasic, fgbg256, fgbgFoot, fgbgEterm, fgbgRxvt]

/-- Every built-in entry's SetFg / SetBg / SetFgBg is the empty string or one of the programs with a closed form
below (kernel evaluation over the regenerated database; a new entry with another program re-opens this). -/
theorem db_color_known : ∀ e ∈ Gen.db,
    e.setFg ∈ knownSetFg ∧ e.setBg ∈ knownSetBg ∧ e.setFgBg ∈ knownSetFgBg := by
  have h : (Gen.db.all fun e => knownSetFg.contains e.setFg && knownSetBg.contains e.setBg
      && knownSetFgBg.contains e.setFgBg) = true := by decide +kernel
  intro e he
  have := List.all_eq_true.mp h e he
  simpa [Bool.and_eq_true, and_assoc] using this

/-- the selection a 256-colour program makes: `a n` for the basic eight, `b (n-8)` for the bright eight, else the
extended form `c n` -/
def sgr256 (a b c : Bytes) (n : Int) : Bytes :=
  if n < 8 then a ++ itoa n else if n < 16 then b ++ itoa (wrap64 (n - 8)) else c ++ itoa n

theorem tparm_empty (v : Variant) (ps : List Value) (sv : Vars) : tparmV v [] ps sv = ([], sv) := by
  simp [tparmV, run]

set_option maxRecDepth 4000 in
theorem setaf_basic_cf (v : Variant) (n : Int) (sv : Vars) :
    tparmV v setafBasic [.int n] sv = ([27, 91, 51] ++ itoa n ++ [109], sv) := by
  simp [tparmV, setafBasic, run, step, execOp, pad9, put, popInt, hd0, isDigit, Value.toInt]

set_option maxRecDepth 4000 in
theorem setab_basic_cf (v : Variant) (n : Int) (sv : Vars) :
    tparmV v setabBasic [.int n] sv = ([27, 91, 52] ++ itoa n ++ [109], sv) := by
  simp [tparmV, setabBasic, run, step, execOp, pad9, put, popInt, hd0, isDigit, Value.toInt]

set_option maxRecDepth 4000 in
theorem setaf_rxvt (v : Variant) (n : Int) (sv : Vars) :
    tparmV v setafRxvt [.int n] sv = ([27, 91, 51, 56, 59, 53, 59] ++ itoa n ++ [109], sv) := by
  simp [tparmV, setafRxvt, run, step, execOp, pad9, put, popInt, hd0, isDigit, Value.toInt]

set_option maxRecDepth 4000 in
theorem setab_rxvt (v : Variant) (n : Int) (sv : Vars) :
    tparmV v setabRxvt [.int n] sv = ([27, 91, 52, 56, 59, 53, 59] ++ itoa n ++ [109], sv) := by
  simp [tparmV, setabRxvt, run, step, execOp, pad9, put, popInt, hd0, isDigit, Value.toInt]

set_option maxRecDepth 4000 in
/-- eterm-color foreground: `30 + n` -/
theorem setaf_eterm (v : Variant) (n : Int) (sv : Vars) :
    tparmV v setafEterm [.int n] sv = ([27, 91] ++ itoa (wrap64 (n + 30)) ++ [109], sv) := by
  simp [tparmV, setafEterm, run, step, execOp, pad9, put, popInt, hd0, isDigit, Value.toInt, binop, readInt, wrap64,
    two63, two64]

set_option maxRecDepth 4000 in
/-- eterm-color background: `40 + n` (`%'('` pushes 40) -/
theorem setab_eterm (v : Variant) (n : Int) (sv : Vars) :
    tparmV v setabEterm [.int n] sv = ([27, 91] ++ itoa (wrap64 (n + 40)) ++ [109], sv) := by
  simp [tparmV, setabEterm, run, step, execOp, pad9, put, popInt, hd0, isDigit, Value.toInt, binop]

set_option maxRecDepth 8000 in
theorem setaf_256_cf (v : Variant) (n : Int) (sv : Vars) :
    tparmV v setaf256 [.int n] sv = ([27, 91] ++ sgr256 [51] [57] [51,56,59,53,59] n ++ [109], sv) := by
  by_cases h8 : n < 8
  · simp [sgr256, tparmV, setaf256, run, step, execOp, skipOp, pad9, put, popInt, hd0, isDigit, Value.toInt, binop, readInt, ofBool, h8, wrap64, two63, two64]
  · by_cases h16 : n < 16
    · simp [sgr256, tparmV, setaf256, run, step, execOp, skipOp, pad9, put, popInt, hd0, isDigit, Value.toInt, binop, readInt, ofBool, h8, h16, wrap64, two63, two64]
    · simp [sgr256, tparmV, setaf256, run, step, execOp, skipOp, pad9, put, popInt, hd0, isDigit, Value.toInt, binop, readInt, ofBool, h8, h16, wrap64, two63, two64]

set_option maxRecDepth 8000 in
theorem setab_256_cf (v : Variant) (n : Int) (sv : Vars) :
    tparmV v setab256 [.int n] sv = ([27, 91] ++ sgr256 [52] [49,48] [52,56,59,53,59] n ++ [109], sv) := by
  by_cases h8 : n < 8
  · simp [sgr256, tparmV, setab256, run, step, execOp, skipOp, pad9, put, popInt, hd0, isDigit, Value.toInt, binop, readInt, ofBool, h8, wrap64, two63, two64]
  · by_cases h16 : n < 16
    · simp [sgr256, tparmV, setab256, run, step, execOp, skipOp, pad9, put, popInt, hd0, isDigit, Value.toInt, binop, readInt, ofBool, h8, h16, wrap64, two63, two64]
    · simp [sgr256, tparmV, setab256, run, step, execOp, skipOp, pad9, put, popInt, hd0, isDigit, Value.toInt, binop, readInt, ofBool, h8, h16, wrap64, two63, two64]

set_option maxRecDepth 8000 in
theorem setaf_foot (v : Variant) (n : Int) (sv : Vars) :
    tparmV v setafFoot [.int n] sv = ([27, 91] ++ sgr256 [51] [57] [51,56,58,53,58] n ++ [109], sv) := by
  by_cases h8 : n < 8
  · simp [sgr256, tparmV, setafFoot, run, step, execOp, skipOp, pad9, put, popInt, hd0, isDigit, Value.toInt, binop, readInt, ofBool, h8, wrap64, two63, two64]
  · by_cases h16 : n < 16
    · simp [sgr256, tparmV, setafFoot, run, step, execOp, skipOp, pad9, put, popInt, hd0, isDigit, Value.toInt, binop, readInt, ofBool, h8, h16, wrap64, two63, two64]
    · simp [sgr256, tparmV, setafFoot, run, step, execOp, skipOp, pad9, put, popInt, hd0, isDigit, Value.toInt, binop, readInt, ofBool, h8, h16, wrap64, two63, two64]

set_option maxRecDepth 8000 in
theorem setab_foot (v : Variant) (n : Int) (sv : Vars) :
    tparmV v setabFoot [.int n] sv = ([27, 91] ++ sgr256 [52] [49,48] [52,56,58,53,58] n ++ [109], sv) := by
  by_cases h8 : n < 8
  · simp [sgr256, tparmV, setabFoot, run, step, execOp, skipOp, pad9, put, popInt, hd0, isDigit, Value.toInt, binop, readInt, ofBool, h8, wrap64, two63, two64]
  · by_cases h16 : n < 16
    · simp [sgr256, tparmV, setabFoot, run, step, execOp, skipOp, pad9, put, popInt, hd0, isDigit, Value.toInt, binop, readInt, ofBool, h8, h16, wrap64, two63, two64]
    · simp [sgr256, tparmV, setabFoot, run, step, execOp, skipOp, pad9, put, popInt, hd0, isDigit, Value.toInt, binop, readInt, ofBool, h8, h16, wrap64, two63, two64]

set_option maxRecDepth 4000 in
theorem fgbg_basic (v : Variant) (f b : Int) (sv : Vars) :
    tparmV v fgbgBasic [.int f, .int b] sv = ([27, 91, 51] ++ itoa f ++ [59, 52] ++ itoa b ++ [109], sv) := by
  simp [tparmV, fgbgBasic, run, step, execOp, pad9, put, popInt, hd0, isDigit, Value.toInt]

set_option maxRecDepth 4000 in
theorem fgbg_rxvt (v : Variant) (f b : Int) (sv : Vars) :
    tparmV v fgbgRxvt [.int f, .int b] sv =
      ([27, 91, 51, 56, 59, 53, 59] ++ itoa f ++ [59, 52, 56, 59, 53, 59] ++ itoa b ++ [109], sv) := by
  simp [tparmV, fgbgRxvt, run, step, execOp, pad9, put, popInt, hd0, isDigit, Value.toInt]

set_option maxRecDepth 4000 in
theorem fgbg_eterm (v : Variant) (f b : Int) (sv : Vars) :
    tparmV v fgbgEterm [.int f, .int b] sv =
      ([27, 91] ++ itoa (wrap64 (f + 30)) ++ [59] ++ itoa (wrap64 (b + 40)) ++ [109], sv) := by
  simp [tparmV, fgbgEterm, run, step, execOp, pad9, put, popInt, hd0, isDigit, Value.toInt, binop, readInt, wrap64,
    two63, two64]

set_option maxRecDepth 16000 in
set_option maxHeartbeats 1000000 in
theorem fgbg_256 (v : Variant) (f b : Int) (sv : Vars) :
    tparmV v fgbg256 [.int f, .int b] sv =
      ([27, 91] ++ sgr256 [51] [57] [51,56,59,53,59] f ++ [59] ++ sgr256 [52] [49,48] [52,56,59,53,59] b ++ [109], sv) := by
  by_cases hf8 : f < 8 <;> by_cases hf16 : f < 16 <;> by_cases hb8 : b < 8 <;> by_cases hb16 : b < 16 <;>
    first
      | (exfalso; omega)
      | simp [sgr256, tparmV, fgbg256, run, step, execOp, skipOp, pad9, put, popInt, hd0, isDigit, Value.toInt, binop,
          readInt, ofBool, hf8, hf16, hb8, hb16, wrap64, two63, two64]

set_option maxRecDepth 16000 in
set_option maxHeartbeats 1000000 in
theorem fgbg_foot (v : Variant) (f b : Int) (sv : Vars) :
    tparmV v fgbgFoot [.int f, .int b] sv =
      ([27, 91] ++ sgr256 [51] [57] [51,56,58,53,58] f ++ [59] ++ sgr256 [52] [49,48] [52,56,58,53,58] b ++ [109], sv) := by
  by_cases hf8 : f < 8 <;> by_cases hf16 : f < 16 <;> by_cases hb8 : b < 8 <;> by_cases hb16 : b < 16 <;>
    first
      | (exfalso; omega)
      | simp [sgr256, tparmV, fgbgFoot, run, step, execOp, skipOp, pad9, put, popInt, hd0, isDigit, Value.toInt, binop,
          readInt, ofBool, hf8, hf16, hb8, hb16, wrap64, two63, two64]

end Tcell.Props.C15
