namespace Tcell.Props.C06
theorem placeholder : True := trivial
end Tcell.Props.C06
