import Tcell.Lemmas.Pipeline
/-
C06 — Fini and Suspend always return; the screen is inert afterwards.   PARTIAL: theorems about the transition-system
model `Tcell.Model.Pipeline` (tied to the code by trace inclusion, engine `pipe`); the Go scheduler, timers and real tty
drivers are not modelled.

The property quantifies over all interleavings, all queue fill levels, read errors anywhere and repeated
Suspend/Resume cycles: every theorem below is about every *reachable* state (any label list from the initial state, any
capacities `Cfg.eqCap/kcCap/chCap`, any parser `P`, any injected chunks and faults).

* The PINNED tree (`Cfg.fixed = false`) does not satisfy the property: `pinned_suspend_stuck`, `pinned_fini_stuck` and
  `pinned_suspend_stuck_on_error` are concrete reachable states in which Suspend/Fini waits at `wg.Wait()` and no goroutine
  of the library can move (the engine reproduces them on the real code: findings hang:suspend:scanInput.select,
  hang:fini:inputLoop.chan-send, hang:suspend:inputLoop.select).  `no_stuck_pinned_partial` says these are the only ways.
* The REPAIRED variant (`fixed = true`, fixes/C06-shutdown-selects-stopq.patch) satisfies it: `no_stuck_after_shutdown`
  + `rank_decreases` / `bounded_termination`.
Environment assumptions are explicit: the tty contract "Drain wakes a blocked Read" is the label `inReadEmpty` being
enabled once `draining` is set; fairness = an enabled internal step is eventually taken, and a `select` with a closed
stopQ case eventually takes it (`selectFair`).
-/
namespace Tcell.Props.C06
open Tcell Tcell.Model.Pipeline

variable {Ev PSt : Type}

/-- a live input loop that cannot move: only possible on the pinned tree -/
def inBlocked (c : Cfg) (s : State Ev PSt) : Prop :=
  c.fixed = false ∧
  ((∃ ch, s.inPc = .hold ch ∧ full c.kcCap s.keychan = true) ∨
   (s.inPc = .errSend ∧ full c.eqCap s.eventQ = true ∧ s.quit = false))

/-- a live main loop that cannot move: only possible on the pinned tree -/
def mainBlocked (c : Cfg) (s : State Ev PSt) : Prop :=
  c.fixed = false ∧ (∃ e r a, s.mainPc = .scan (e :: r) a) ∧ full c.eqCap s.eventQ = true ∧ s.quit = false

theorem in_moves (P : Parser Ev PSt) (c : Cfg) (s : State Ev PSt)
    (hstop : s.stop = true) (hdr : s.draining = true) (halive : s.inPc ≠ .idle) (hnb : ¬ inBlocked c s) :
    ∃ l, l.internal = true ∧ enabled P c s l = true := by
  cases hpc : s.inPc with
  | idle => exact absurd hpc halive
  | top => exact ⟨.inStop, rfl, by simp [enabled, step, Model.Pipeline.guard, hpc, hstop]⟩
  | reading =>
    by_cases hcf : (s.closed || s.fault) = true
    · exact ⟨.inReadErr, rfl, by simp [enabled, step, Model.Pipeline.guard, hpc, hcf]⟩
    · have hcf' : s.closed = false ∧ s.fault = false := by
        cases hc : s.closed <;> cases hf : s.fault <;> simp_all
      cases hu : s.unread with
      | nil => exact ⟨.inReadEmpty, rfl, by simp [enabled, step, Model.Pipeline.guard, hpc, hcf'.1, hcf'.2, hu, hdr]⟩
      | cons ch rest => exact ⟨.inReadChunk, rfl, by simp [enabled, step, Model.Pipeline.guard, hpc, hcf'.1, hcf'.2, hu]⟩
  | errChk => exact ⟨.inErr, rfl, by simp [enabled, step, Model.Pipeline.guard, hpc]⟩
  | errSend =>
    by_cases hfull : full c.eqCap s.eventQ = true
    · by_cases hq : s.quit = true
      · exact ⟨.inErrQuit, rfl, by simp [enabled, step, Model.Pipeline.guard, hpc, hq]⟩
      · cases hfx : c.fixed with
        | true => exact ⟨.inErrStop, rfl, by simp [enabled, step, Model.Pipeline.guard, hpc, hfx, hstop]⟩
        | false => exact absurd ⟨hfx, Or.inr ⟨hpc, hfull, by simpa using hq⟩⟩ hnb
    · exact ⟨.inErrSent, rfl, by simp [enabled, step, Model.Pipeline.guard, hpc, hfull]⟩
  | hold ch =>
    by_cases hfull : full c.kcCap s.keychan = true
    · cases hfx : c.fixed with
      | true => exact ⟨.inSendStop, rfl, by simp [enabled, step, Model.Pipeline.guard, hpc, hfx, hstop]⟩
      | false => exact absurd ⟨hfx, Or.inl ⟨ch, hpc, hfull⟩⟩ hnb
    · exact ⟨.inSent, rfl, by simp [enabled, step, Model.Pipeline.guard, hpc, hfull]⟩
  | exiting => exact ⟨.inExit, rfl, by simp [enabled, step, Model.Pipeline.guard, hpc]⟩

theorem main_moves (P : Parser Ev PSt) (c : Cfg) (s : State Ev PSt)
    (hstop : s.stop = true) (halive : s.mainPc.isIdle = false) (hnb : ¬ mainBlocked c s) :
    ∃ l, l.internal = true ∧ enabled P c s l = true := by
  cases hpc : s.mainPc with
  | idle => simp [hpc, MainPc.isIdle] at halive
  | sel => exact ⟨.mainStop, rfl, by simp [enabled, step, Model.Pipeline.guard, hpc, MainPc.isSel, hstop]⟩
  | timerCase => exact ⟨.timerEnd, rfl, by simp [enabled, step, hpc]⟩
  | resizing => exact ⟨.mainResizeEnd, rfl, by simp [enabled, step, Model.Pipeline.guard, hpc, MainPc.isResizing]⟩
  | exiting => exact ⟨.mainExit, rfl, by simp [enabled, step, Model.Pipeline.guard, hpc, MainPc.isExiting]⟩
  | scan p a =>
    cases p with
    | nil =>
      cases a with
      | chunk => exact ⟨.chunkEnd, rfl, by simp [enabled, step, hpc]⟩
      | timer => exact ⟨.timerEnd, rfl, by simp [enabled, step, hpc]⟩
    | cons e r =>
      by_cases hfull : full c.eqCap s.eventQ = true
      · by_cases hq : s.quit = true
        · exact ⟨.scanQuit, rfl, by simp [enabled, step, Model.Pipeline.guard, hpc, hq]⟩
        · cases hfx : c.fixed with
          | true => exact ⟨.scanStop, rfl, by simp [enabled, step, Model.Pipeline.guard, hpc, hfx, hstop]⟩
          | false => exact absurd ⟨hfx, ⟨e, r, a, hpc⟩, hfull, by simpa using hq⟩ hnb
      · exact ⟨.scanSent, rfl, by simp [enabled, step, Model.Pipeline.guard, hpc, hfull]⟩

/-- **Progress, general form.**  In every reachable state in which a Fini or Suspend call is in progress, some internal
step is enabled unless every live loop is blocked in one of the pinned tree's two unguarded sends. -/
theorem no_stuck_unless_blocked (P : Parser Ev PSt) (c : Cfg) (pst0 : PSt) (s : State Ev PSt)
    (hr : Reachable P c pst0 s) (hsd : shutdownInProgress s = true)
    (hnb : (s.inPc ≠ .idle ∧ ¬ inBlocked c s) ∨ (s.mainPc.isIdle = false ∧ ¬ mainBlocked c s) ∨
           (s.inPc = .idle ∧ s.mainPc.isIdle = true) ∨ (∀ f, s.callPc ≠ .wait f)) :
    ∃ l, l.internal = true ∧ enabled P c s l = true := by
  have inv := reachable_inv6 P c pst0 s hr
  cases hc : s.callPc with
  | idle => simp [shutdownInProgress, hc] at hsd
  | finStart => exact ⟨.finClosed, rfl, by simp [enabled, step, Model.Pipeline.guard, hc]⟩
  | dis f =>
    cases hrun : s.running with
    | true => exact ⟨.disStopped, rfl, by simp [enabled, step, Model.Pipeline.guard, hc, hrun]⟩
    | false => exact ⟨.disIdle, rfl, by simp [enabled, step, Model.Pipeline.guard, hc, hrun]⟩
  | ret f => exact ⟨.callRet, rfl, by simp [enabled, step, hc]⟩
  | wait f =>
    obtain ⟨hstop, hdr, _⟩ := inv.waiting f hc
    rcases hnb with ⟨ha, hb⟩ | ⟨ha, hb⟩ | ⟨hi, hm⟩ | hw
    · exact in_moves P c s hstop hdr ha hb
    · exact main_moves P c s hstop ha hb
    · have : s.wg = 0 := by rw [inv.wg]; simp [inAlive, mainAlive, hi, hm]
      exact ⟨.disJoined, rfl, by simp [enabled, step, Model.Pipeline.guard, hc, this]⟩
    · exact absurd hc (hw f)

/-- **`no_stuck_after_shutdown` (repaired variant).**  For all capacities and fill levels, all injected chunks and read
errors, every interleaving: a reachable state in which Fini or Suspend has been called and has not returned has an
enabled internal step. -/
theorem no_stuck_after_shutdown (P : Parser Ev PSt) (c : Cfg) (pst0 : PSt) (s : State Ev PSt) (hfix : c.fixed = true)
    (hr : Reachable P c pst0 s) (hsd : shutdownInProgress s = true) :
    ∃ l, l.internal = true ∧ enabled P c s l = true := by
  apply no_stuck_unless_blocked P c pst0 s hr hsd
  by_cases hi : s.inPc = .idle
  · by_cases hm : s.mainPc.isIdle = true
    · exact Or.inr (Or.inr (Or.inl ⟨hi, hm⟩))
    · exact Or.inr (Or.inl ⟨by simpa using hm, fun h => by have h1 := h.1; simp [hfix] at h1⟩)
  · exact Or.inl ⟨hi, fun h => by have h1 := h.1; simp [hfix] at h1⟩

/-- **Pinned tree, what does hold (`_partial`).**  On the code as it is, a shutdown call in progress can always make a step
*provided* no live loop sits in one of the two unguarded sends with its queue full (`inBlocked`, `mainBlocked`): i.e. as
long as the application keeps polling (eventQ not full, or Fini's `quit` closed) and keychan has room. -/
theorem no_stuck_pinned_partial (P : Parser Ev PSt) (c : Cfg) (pst0 : PSt) (s : State Ev PSt)
    (hr : Reachable P c pst0 s) (hsd : shutdownInProgress s = true)
    (hin : ¬ inBlocked c s) (hmain : ¬ mainBlocked c s) :
    ∃ l, l.internal = true ∧ enabled P c s l = true := by
  apply no_stuck_unless_blocked P c pst0 s hr hsd
  by_cases hi : s.inPc = .idle
  · by_cases hm : s.mainPc.isIdle = true
    · exact Or.inr (Or.inr (Or.inl ⟨hi, hm⟩))
    · exact Or.inr (Or.inl ⟨by simpa using hm, hmain⟩)
  · exact Or.inl ⟨hi, hin⟩

/-! ### the refutation on the pinned tree: concrete reachable stuck states -/

/-- one byte = one event, no state: the smallest parser (it satisfies the chunk law) -/
def byteParser : Parser Nat Unit := { collect := fun st b _ => (b, st, []) }

def allInternal : List Label :=
  [.inStop, .inToRead, .inReadErr, .inReadChunk, .inReadEmpty, .inErr, .inErrSent, .inErrQuit, .inErrStop, .inSent,
   .inSendStop, .inExit, .mainStop, .mainQuit, .mainResize, .mainResizeEnd, .mainTimer, .timerScan, .timerEnd,
   .mainChunk, .scanSent, .scanQuit, .scanStop, .chunkEnd, .mainExit, .finClosed, .disIdle, .disStopped, .disJoined,
   .callRet]

theorem allInternal_complete (l : Label) (h : l.internal = true) : l ∈ allInternal := by
  cases l <;> simp [Label.internal] at h <;> simp [allInternal]

/-- a shutdown call is waiting and no internal label is enabled -/
def stuck (P : Parser Ev PSt) (c : Cfg) (s : State Ev PSt) : Bool :=
  shutdownInProgress s && allInternal.all (fun l => !enabled P c s l)

def pinned1 : Cfg := { eqCap := 1, kcCap := 1, fixed := false }

/-- Suspend with a full event queue and nobody polling: scanInput waits on `eventQ <- ev | quit`, Suspend closes only stopQ -/
def suspendWitness : List Label :=
  [.callInit, .inject [1], .inject [2], .inToRead, .inReadChunk, .inSent, .mainChunk, .scanSent, .chunkEnd,
   .inToRead, .inReadChunk, .inSent, .mainChunk,             -- mainLoop now holds event 2, eventQ = [1] is full
   .callSuspend, .disStopped, .inStop, .inExit]

theorem pinned_suspend_stuck :
    ((run byteParser pinned1 (init ()) suspendWitness).map (stuck byteParser pinned1)) = some true := by decide

/-- Fini while inputLoop holds a chunk, keychan is full and mainLoop has already left through `quit` -/
def finiWitness : List Label :=
  [.callInit, .inject [1], .inject [2], .inject [3], .inject [4],
   .inToRead, .inReadChunk, .inSent, .mainChunk, .scanSent, .chunkEnd,
   .inToRead, .inReadChunk, .inSent, .mainChunk,             -- pending event 2, eventQ full
   .inToRead, .inReadChunk, .inSent,                          -- keychan = [[3]] full
   .inToRead, .inReadChunk,                                   -- inputLoop holds [4]
   .callFini, .finClosed, .disStopped, .scanQuit, .chunkEnd, .mainQuit, .mainExit]

theorem pinned_fini_stuck :
    ((run byteParser pinned1 (init ()) finiWitness).map (stuck byteParser pinned1)) = some true := by decide

/-- Suspend after a read error with a full event queue: inputLoop waits on `eventQ <- EventError | quit` -/
def suspendErrWitness : List Label :=
  [.callInit, .inject [1], .inToRead, .inReadChunk, .inSent, .mainChunk, .scanSent, .chunkEnd,
   .setFault, .inToRead, .inReadErr, .inErr, .callSuspend, .disStopped, .mainStop, .mainExit]

theorem pinned_suspend_stuck_on_error :
    ((run byteParser pinned1 (init ()) suspendErrWitness).map (stuck byteParser pinned1)) = some true := by decide

/-- the same three label lists on the repaired variant do not end stuck -/
theorem repaired_not_stuck_on_witnesses :
    let c : Cfg := { pinned1 with fixed := true }
    (run byteParser c (init ()) suspendWitness).map (stuck byteParser c) = some false ∧
    (run byteParser c (init ()) finiWitness).map (stuck byteParser c) = some false ∧
    (run byteParser c (init ()) suspendErrWitness).map (stuck byteParser c) = some false := by decide

/-- `stuck` really means: no internal label at all is enabled -/
theorem stuck_sound (P : Parser Ev PSt) (c : Cfg) (s : State Ev PSt) (h : stuck P c s = true) :
    shutdownInProgress s = true ∧ ∀ l, l.internal = true → enabled P c s l = false := by
  simp only [stuck, Bool.and_eq_true, List.all_eq_true] at h
  refine ⟨h.1, fun l hl => ?_⟩
  have := h.2 l (allInternal_complete l hl)
  simpa using this

/-! ### bounded termination: a ranking function -/

def inRank : InPc → Nat
  | .idle => 0 | .exiting => 1 | .top => 2 | .errSend => 2 | .hold _ => 3 | .errChk => 3 | .reading => 4

def mainRank (P : Parser Ev PSt) (s : State Ev PSt) : Nat :=
  match s.mainPc with
  | .idle => 0 | .exiting => 1 | .sel => 2 | .resizing => 3
  | .scan p _ => 3 + p.length
  | .timerCase => 4 + (P.collect s.pst s.buf true).1.length

def callRank : CallPc → Nat
  | .idle => 0 | .ret _ => 1 | .wait _ => 2 | .dis _ => 3 | .finStart => 4

/-- number of internal steps still possible once stopQ is closed -/
def rank (P : Parser Ev PSt) (s : State Ev PSt) : Nat := inRank s.inPc + mainRank P s + callRank s.callPc

/-- fairness of `select` (assumption about the Go runtime): with stopQ closed, mainLoop's select does not keep preferring
its other ready cases for ever; the ranking argument counts only the steps that are not such picks -/
def selectFair : Label → Bool
  | .mainChunk | .mainTimer | .mainResize => false
  | _ => true

set_option maxHeartbeats 4000000 in
/-- **Ranking.**  Once stopQ is closed (from `disStopped` until the next engage), every internal step other than an unfair
select pick strictly decreases `rank` — whatever the capacities, fill levels, parser and variant. -/
theorem rank_decreases (P : Parser Ev PSt) (c : Cfg) (s s' : State Ev PSt) (l : Label)
    (hstop : s.stop = true) (hint : l.internal = true) (hfair : selectFair l = true)
    (h : step P c s l = some s') : rank P s' < rank P s ∧ s'.stop = true := by
  cases l <;> simp [Label.internal] at hint <;> simp [selectFair] at hfair <;> simp only [step] at h <;>
    (try split at h) <;>
    (try simp only [guard_eq_some, Option.some.injEq, reduceCtorEq, Bool.and_eq_true] at h) <;>
    (try (obtain ⟨hg, rfl⟩ := h)) <;> (try subst h) <;> (try contradiction)
  all_goals first
    | (cases hm : s.mainPc <;> cases hn : s.inPc <;> cases hc : s.callPc <;>
        simp_all [rank, inRank, mainRank, callRank, push, MainPc.isSel, MainPc.isTimerCase, MainPc.isResizing, MainPc.isExiting] <;>
        (try omega) <;> done)

/-- **Bounded termination.**  From any state with stopQ closed, a run of internal, select-fair steps has at most `rank`
steps.  With `no_stuck_after_shutdown` (some internal step is enabled until the call has returned) and a scheduler that is
fair to enabled goroutines, Fini/Suspend therefore return within `rank P s` further steps of the library. -/
theorem bounded_termination (P : Parser Ev PSt) (c : Cfg) (ls : List Label) :
    ∀ (s s' : State Ev PSt), s.stop = true → (∀ l ∈ ls, l.internal = true ∧ selectFair l = true) →
      run P c s ls = some s' → ls.length + rank P s' ≤ rank P s := by
  induction ls with
  | nil => intro s s' _ _ h; simp [run] at h; subst h; simp
  | cons l ls ih =>
    intro s s' hstop hall h
    simp only [run] at h
    cases hs : step P c s l with
    | none => simp [hs] at h
    | some s1 =>
      simp only [hs] at h
      have hl := hall l (List.mem_cons_self ..)
      have hd := rank_decreases P c s s1 l hstop hl.1 hl.2 hs
      have := ih s1 s' hd.2 (fun l' hl' => hall l' (List.mem_cons_of_mem _ hl')) h
      simp only [List.length_cons]
      omega

/-! ### after Fini; after Suspend + Resume -/

/-- **`after_fini_inert`.**  At the moment Fini returns (the step `callRet` of a Fini call), in every reachable state: `quit`
is closed, so PollEvent returns nil without blocking (`pollNil` is enabled) and a ChannelEvents goroutine at either of its
selects can take the stop case (and then closes its channel); both loops have exited (`wg = 0`, both program counters
idle); the tty is closed; and a second Fini is a no-op (`callFini` leaves the state unchanged). -/
theorem after_fini_inert (P : Parser Ev PSt) (c : Cfg) (pst0 : PSt) (s s' : State Ev PSt)
    (hr : Reachable P c pst0 s) (hc : s.callPc = .ret true) (h : step P c s .callRet = some s') :
    s'.quit = true ∧ enabled P c s' .pollNil = true ∧
    s'.inPc = .idle ∧ s'.mainPc.isIdle = true ∧ s'.wg = 0 ∧ s'.closed = true ∧
    step P c s' .callFini = some s' ∧
    (s'.cePc.isSel = true → enabled P c s' .ceStop = true) ∧
    (∀ it, s'.cePc = .fwd it → enabled P c s' .ceFwdStop = true) ∧
    (s'.cePc.isClosing = true → enabled P c s' .ceClose = true) := by
  have inv := reachable_inv6 P c pst0 s hr
  have hq := inv.fini (Or.inr (Or.inr hc))
  have invb := reachable_inv6b P c pst0 s hr
  have hrun := invb.retq true hc
  have hwg := inv.quiet hrun (by simp [hc])
  have hal := inv.wg
  have honce : s.finiOnce = true := by
    cases ho : s.finiOnce with
    | true => rfl
    | false => have := invb.once ho; simp [hc] at this
  simp only [step, hc, Option.some.injEq] at h
  subst h
  have hi : s.inPc = .idle := by
    by_cases hi : s.inPc = .idle
    · exact hi
    · simp [inAlive, hi] at hal; omega
  have hm : s.mainPc.isIdle = true := by
    cases hm : s.mainPc.isIdle with
    | true => rfl
    | false => simp [mainAlive, hm] at hal; omega
  refine ⟨hq, by simp [enabled, step, Model.Pipeline.guard, hq], hi, hm, hwg, by simp, by simp [step, Model.Pipeline.guard, honce], ?_, ?_, ?_⟩
  · intro h; simp_all [enabled, step, Model.Pipeline.guard]
  · intro it h; simp_all [enabled, step, Model.Pipeline.guard]
  · intro h; simp_all [enabled, step, Model.Pipeline.guard]

/-- **`resume_restarts_loops`.**  After a Suspend has returned (caller idle, not running) — in every reachable such state,
whatever was queued or parked before — Resume starts both loops afresh: new open stopQ, tty started and no longer
draining, input loop at the top of its loop, main loop at its select with an empty buffer, WaitGroup = 2.  From there a
chunk injected into the tty travels to mainLoop by enabled steps as soon as keychan has room. -/
theorem resume_restarts_loops (P : Parser Ev PSt) (c : Cfg) (pst0 : PSt) (s : State Ev PSt)
    (hr : Reachable P c pst0 s) (hc : s.callPc = .idle) (hrun : s.running = false) :
    ∃ s', step P c s .callResume = some s' ∧ s'.running = true ∧ s'.stop = false ∧ s'.draining = false ∧
      s'.ttyStopped = false ∧ s'.inPc = .top ∧ s'.mainPc.isSel = true ∧ s'.buf = [] ∧ s'.wg = 2 ∧
      s'.keychan = s.keychan ∧ s'.eventQ = s.eventQ ∧ enabled P c s' .inToRead = true := by
  have inv := reachable_inv6 P c pst0 s hr
  have hwg := inv.quiet hrun (by simp [hc])
  have hal := inv.wg
  have hi : s.inPc = .idle := by
    by_cases hi : s.inPc = .idle
    · exact hi
    · simp [inAlive, hi] at hal; omega
  have hm : s.mainPc.isIdle = true := by
    cases hm : s.mainPc.isIdle with
    | true => rfl
    | false => simp [mainAlive, hm] at hal; omega
  refine ⟨engage s, by simp [step, Model.Pipeline.guard, hc, hrun, hi, hm], ?_⟩
  simp [engage, hwg, MainPc.isSel, enabled, step, Model.Pipeline.guard]

/-- hypotheses of the theorems above are satisfiable: a Suspend/Resume/Fini life cycle on the repaired variant runs to
completion, ends inert, and the intermediate state after Suspend is one `resume_restarts_loops` applies to -/
example :
    let c : Cfg := { eqCap := 2, kcCap := 1, fixed := true }
    (run byteParser c (init ()) [.callInit, .inject [7], .inToRead, .inReadChunk, .inSent, .mainChunk, .scanSent, .chunkEnd,
      .callSuspend, .disStopped, .inStop, .inExit, .mainStop, .mainExit, .disJoined, .callRet]).map
        (fun s => (s.callPc, s.running, s.wg)) = some (.idle, false, 0) ∧
    (run byteParser c (init ()) [.callInit, .callSuspend, .disStopped, .inStop, .inExit, .mainStop, .mainExit, .disJoined,
      .callRet, .callResume, .callFini, .finClosed, .disStopped, .inStop, .inExit, .mainQuit, .mainExit, .disJoined]).map
        (fun s => (s.callPc, s.quit)) = some (.ret true, true) := by decide
end Tcell.Props.C06
