/-
C17, head of the statement: "When the locale selects a non-UTF-8 character set …" — WHICH character set the locale
variables select (charset_unix.go getCharset, model `Tcell.Locale`).  For every environment:

* `unset_is_empty_*`   a variable set to the empty string is the same input as an unset one (POSIX XBD 8.2);
* `lcall_wins` / `lcctype_second` / `lang_last`   LC_ALL, then LC_CTYPE, then LANG: the first non-empty one decides, alone;
* `c_posix`            the C / POSIX locale selects US-ASCII;
* `codeset`            `language[_territory].codeset[@modifier]` selects exactly `codeset` (no '.' / '@' in the language part,
                       no '@' in the codeset), whatever the modifier;
* `no_codeset`         a locale without a codeset (no '.' before the first '@') that is not C / POSIX selects UTF-8 (tcell's
                       documented default);
* `modifier_ignored`   text after the first '@' never matters.
Engine `locale` compares the model with what a real terminfo screen reports (Screen.CharacterSet() after Init / ErrNoCharset)
for every combination of unset / empty / pool values of the three variables.
-/
import Tcell.Model.Locale
namespace Tcell.Props.C17Locale
open Tcell.Locale

theorem getenv_none : getenv none = [] := rfl
theorem getenv_empty : getenv (some "") = [] := rfl

/-- set-but-empty = unset, for each of the three variables -/
theorem unset_is_empty_lcall (b c : Option String) : getCharset ⟨some "", b, c⟩ = getCharset ⟨none, b, c⟩ := rfl
theorem unset_is_empty_lcctype (a c : Option String) : getCharset ⟨a, some "", c⟩ = getCharset ⟨a, none, c⟩ := rfl
theorem unset_is_empty_lang (a b : Option String) : getCharset ⟨a, b, some ""⟩ = getCharset ⟨a, b, none⟩ := rfl

/-- LC_ALL, when not empty, decides alone -/
theorem lcall_wins (s : String) (b c : Option String) (h : s.toList ≠ []) :
    getCharset ⟨some s, b, c⟩ = getCharset ⟨some s, none, none⟩ := by
  simp [getCharset, localeOf, getenv, h]

/-- with LC_ALL empty or unset, a non-empty LC_CTYPE decides alone -/
theorem lcctype_second (a : Option String) (s : String) (c : Option String) (ha : getenv a = []) (h : s.toList ≠ []) :
    getCharset ⟨a, some s, c⟩ = getCharset ⟨none, some s, none⟩ := by
  simp only [getCharset, localeOf, ha]; simp [getenv, h]

/-- with both empty or unset, LANG decides -/
theorem lang_last (a b c : Option String) (ha : getenv a = []) (hb : getenv b = []) :
    getCharset ⟨a, b, c⟩ = getCharset ⟨none, none, c⟩ := by
  simp only [getCharset, localeOf, ha, hb]; simp [getenv]

/-- nothing set at all: UTF-8 -/
theorem nothing_set : getCharset {} = "UTF-8" := by decide

theorem c_posix : getCharset ⟨some "C", none, none⟩ = "US-ASCII" ∧ getCharset ⟨some "POSIX", none, none⟩ = "US-ASCII" ∧
    getCharset ⟨none, none, some "C"⟩ = "US-ASCII" := by decide

/-! ### the codeset of `language.codeset@modifier` -/

theorem before_append_sep (c : Char) (l r : List Char) (h : c ∉ l) : before c (l ++ c :: r) = l := by
  induction l with
  | nil => simp [before]
  | cons x xs ih =>
    have hx : x ≠ c := fun e => h (by simp [e])
    have hxs : c ∉ xs := fun m => h (by simp [m])
    simp [before, hx, ih hxs]

theorem before_absent (c : Char) (l : List Char) (h : c ∉ l) : before c l = l := by
  induction l with
  | nil => rfl
  | cons x xs ih =>
    have hx : x ≠ c := fun e => h (by simp [e])
    have hxs : c ∉ xs := fun m => h (by simp [m])
    simp [before, hx, ih hxs]

theorem afterFirst_append_sep (c : Char) (l r : List Char) (h : c ∉ l) : afterFirst c (l ++ c :: r) = some r := by
  induction l with
  | nil => simp [afterFirst]
  | cons x xs ih =>
    have hx : x ≠ c := fun e => h (by simp [e])
    have hxs : c ∉ xs := fun m => h (by simp [m])
    simp [afterFirst, hx, ih hxs]

theorem afterFirst_absent (c : Char) (l : List Char) (h : c ∉ l) : afterFirst c l = none := by
  induction l with
  | nil => rfl
  | cons x xs ih =>
    have hx : x ≠ c := fun e => h (by simp [e])
    have hxs : c ∉ xs := fun m => h (by simp [m])
    simp [afterFirst, hx, ih hxs]

/-- a locale string with a '.' in it is neither "C" nor "POSIX" -/
theorem dotted_not_c (l r : List Char) : ¬ (l ++ '.' :: r = "POSIX".toList ∨ l ++ '.' :: r = "C".toList) := by
  intro h
  have hm : '.' ∈ l ++ '.' :: r := by simp
  rcases h with h | h <;> (rw [h] at hm; revert hm; decide)

/-- **`language.codeset` selects `codeset`** (no modifier) -/
theorem codeset_plain (lang cs : List Char) (h1 : '.' ∉ lang) (h2 : '@' ∉ lang) (h3 : '@' ∉ cs) :
    charsetOf (lang ++ '.' :: cs) = cs := by
  have hb : before '@' (lang ++ '.' :: cs) = lang ++ '.' :: cs := by
    apply before_absent; intro m
    rcases List.mem_append.mp m with m | m
    · exact h2 m
    · rcases List.mem_cons.mp m with m | m
      · exact absurd m (by decide)
      · exact h3 m
  unfold charsetOf
  rw [if_neg (dotted_not_c lang cs), hb, afterFirst_append_sep '.' lang cs h1]

/-- **`language.codeset@modifier` selects `codeset`**, whatever the modifier -/
theorem codeset (lang cs md : List Char) (h1 : '.' ∉ lang) (h2 : '@' ∉ lang) (h3 : '@' ∉ cs) :
    charsetOf (lang ++ '.' :: (cs ++ '@' :: md)) = cs := by
  have hb : before '@' (lang ++ '.' :: (cs ++ '@' :: md)) = lang ++ '.' :: cs := by
    have : lang ++ '.' :: (cs ++ '@' :: md) = (lang ++ '.' :: cs) ++ '@' :: md := by simp
    rw [this]; apply before_append_sep; intro m
    rcases List.mem_append.mp m with m | m
    · exact h2 m
    · rcases List.mem_cons.mp m with m | m
      · exact absurd m (by decide)
      · exact h3 m
  unfold charsetOf
  rw [if_neg (dotted_not_c lang _), hb, afterFirst_append_sep '.' lang cs h1]

/-- **no codeset: UTF-8** — a locale that is not C / POSIX and has no '.' before its first '@' -/
theorem no_codeset (lang md : List Char) (h1 : '.' ∉ lang) (h2 : '@' ∉ lang)
    (hc : ¬ (lang ++ '@' :: md = "POSIX".toList ∨ lang ++ '@' :: md = "C".toList)) :
    charsetOf (lang ++ '@' :: md) = "UTF-8".toList := by
  unfold charsetOf
  rw [if_neg hc, before_append_sep '@' lang md h2, afterFirst_absent '.' lang h1]

theorem no_codeset_plain (lang : List Char) (h1 : '.' ∉ lang) (h2 : '@' ∉ lang)
    (hc : ¬ (lang = "POSIX".toList ∨ lang = "C".toList)) : charsetOf lang = "UTF-8".toList := by
  unfold charsetOf
  rw [if_neg hc, before_absent '@' lang h2, afterFirst_absent '.' lang h1]

/-- **the modifier never matters** for a locale with a codeset or a language part other than C / POSIX -/
theorem modifier_ignored (lang cs md md' : List Char) (h1 : '.' ∉ lang) (h2 : '@' ∉ lang) (h3 : '@' ∉ cs) :
    charsetOf (lang ++ '.' :: (cs ++ '@' :: md)) = charsetOf (lang ++ '.' :: (cs ++ '@' :: md')) := by
  rw [codeset lang cs md h1 h2 h3, codeset lang cs md' h1 h2 h3]

/-! ### the statement on environments, and non-vacuity -/

/-- whatever LC_CTYPE and LANG say, LC_ALL=`lang.cs@md` selects `cs` -/
theorem env_codeset (lang cs md : List Char) (b c : Option String) (h1 : '.' ∉ lang) (h2 : '@' ∉ lang) (h3 : '@' ∉ cs) :
    getCharset ⟨some (String.ofList (lang ++ '.' :: (cs ++ '@' :: md))), b, c⟩ = String.ofList cs := by
  have hne : (String.ofList (lang ++ '.' :: (cs ++ '@' :: md))).toList ≠ [] := by simp
  rw [lcall_wins _ b c hne]
  simp [getCharset, localeOf, getenv, codeset lang cs md h1 h2 h3]

example : getCharset ⟨some "de_DE.ISO8859-15@euro", some "C", some "ja_JP.EUC-JP"⟩ = "ISO8859-15" := by decide
example : getCharset ⟨some "", some "ru_RU.KOI8-R", some "C"⟩ = "KOI8-R" := by decide
example : getCharset ⟨none, some "", some "zh_CN.GBK"⟩ = "GBK" := by decide
example : getCharset ⟨some "C.UTF-8", none, none⟩ = "UTF-8" := by decide   -- only the bare C / POSIX names mean US-ASCII
example : getCharset ⟨none, none, some "POSIX.ISO8859-1"⟩ = "ISO8859-1" := by decide
example : getCharset ⟨some "en_US", none, none⟩ = "UTF-8" := by decide
example : getCharset ⟨some "x@y.z", none, none⟩ = "UTF-8" := by decide     -- the '.' behind the '@' is part of the modifier
example : getCharset ⟨some "a.b.c", none, none⟩ = "b.c" := by decide       -- the FIRST '.' separates the codeset

end Tcell.Props.C17Locale
