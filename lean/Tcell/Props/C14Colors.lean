import Tcell.Model.TParm
import Tcell.Model.TPuts
import Tcell.Spec.Ecma48
import Tcell.Gen.TerminfoDB
/-!
# C14 — "whose colour count is consistent with its colour strings", semantically

`Props/C14.lean` checks the *presence* of colour strings against the colour count.  Here the strings are **run**:
for every built-in entry of the ECMA-48 family and every palette index `i` below the entry's colour count (capped at
256, the largest index the library ever passes to `SetFg`/`SetBg`/`SetFgBg`, terminfo.go `TColor`), the bytes the TParm
model produces for that index, with padding removed as TPuts does, are fed to the reference ECMA-48 emulator
(`Tcell.Spec.Ecma48`), which must end in ground state, without a complaint, with **exactly colour `i` selected** as
foreground (resp. background) and the other colour untouched.  An entry that claims 16 colours but only has the
8-colour `ESC [ 3 %p1 %d m` (index 9 ↦ `ESC [ 39 m` = "default colour") fails; so does a 256-colour entry whose
else-branch writes `48;5` for the foreground.

Everything is decided by kernel evaluation over the regenerated database (`decide +kernel`): ≈ 45 entries × up to 256
indices × 3 strings, each one run of the TParm machine and of the emulator.
-/
namespace Tcell.Props.C14Colors
open Tcell Tcell.Spec.Ecma48

/-- ECMA-48 family: the cursor-addressing string starts with CSI -/
def isEcma (e : Terminfo) : Bool := match e.setCursor with | 27 :: 91 :: _ => true | _ => false

/-- the emulator after the bytes that reach the terminal for capability expansion `s` (padding removed) -/
def after (s : Bytes) : Term := ((Term.init { w := 4, h := 2 }).feed (TPuts.tputs [] s).bytes).finish

def expand (prog : Bytes) (ps : List Int) : Bytes := (TParm.tparm prog (ps.map TParm.Value.int) TParm.noVars).1

/-- `s` is a complete, accepted control string that leaves the pen with foreground `fg` and background `bg`
(and nothing else changed with respect to the default pen) -/
def selects (s : Bytes) (fg bg : ColorSel) : Bool :=
  let t := after s
  t.malformed.isEmpty && t.pen == { fg := fg, bg := bg }

/-- the number of palette indices the library may pass: `min Colors 256` -/
def nColors (e : Terminfo) : Nat := min e.colors.toNat 256

/-- what the check depends on: the (capped) colour count and the three programs -/
structure ColorProgs where
  n : Nat
  fg : Bytes
  bg : Bytes
  fgbg : Bytes
deriving DecidableEq

def progsOf (e : Terminfo) : ColorProgs := ⟨nColors e, e.setFg, e.setBg, e.setFgBg⟩

def fgSelect (p : ColorProgs) : Bool :=
  (List.range p.n).all fun i => selects (expand p.fg [i]) (ColorSel.idx i) .default
def bgSelect (p : ColorProgs) : Bool :=
  (List.range p.n).all fun i => selects (expand p.bg [i]) .default (ColorSel.idx i)
def fgbgSelect (p : ColorProgs) : Bool :=
  p.fgbg.isEmpty || (List.range p.n).all fun i =>
    selects (expand p.fgbg [i, (i + 1) % p.n]) (ColorSel.idx i) (ColorSel.idx ((i + 1) % p.n))

/-- every index below the colour count is selected by SetFg, by SetBg and (when present) by SetFgBg -/
def colorStringsSelect (e : Terminfo) : Bool :=
  fgSelect (progsOf e) && bgSelect (progsOf e) && fgbgSelect (progsOf e)

/-- the distinct colour-program tuples of the ECMA-family entries (the kernel runs each once) -/
def distinctProgs : List ColorProgs := ((Gen.db.filter isEcma).map progsOf).eraseDups

theorem db_progs_listed : ((Gen.db.filter isEcma).all fun e => distinctProgs.contains (progsOf e)) = true := by
  decide +kernel

set_option maxRecDepth 1000000 in
set_option maxHeartbeats 4000000 in
theorem distinct_fg : distinctProgs.all fgSelect = true := by decide +kernel
set_option maxRecDepth 1000000 in
set_option maxHeartbeats 4000000 in
theorem distinct_bg : distinctProgs.all bgSelect = true := by decide +kernel
set_option maxRecDepth 1000000 in
set_option maxHeartbeats 4000000 in
theorem distinct_fgbg : distinctProgs.all fgbgSelect = true := by decide +kernel

/-- **The colour count of every ECMA-family entry is consistent with its colour strings**: each palette index below
the count is really selected by the entry's `SetFg` / `SetBg` / `SetFgBg` programs (reference emulator verdict). -/
theorem db_color_strings_select : ∀ e ∈ Gen.db, isEcma e = true → colorStringsSelect e = true := by
  intro e he hE
  have hm : distinctProgs.contains (progsOf e) = true :=
    List.all_eq_true.mp db_progs_listed e (List.mem_filter.mpr ⟨he, hE⟩)
  have hmem : progsOf e ∈ distinctProgs := List.contains_iff_mem.mp hm
  simp only [colorStringsSelect, Bool.and_eq_true]
  exact ⟨⟨List.all_eq_true.mp distinct_fg _ hmem, List.all_eq_true.mp distinct_bg _ hmem⟩,
    List.all_eq_true.mp distinct_fgbg _ hmem⟩

/-- non-vacuity: the database has ECMA-family entries with several distinct colour counts -/
example : (distinctProgs.map (·.n)).eraseDups.length ≥ 3 := by decide +kernel

/-- the plain 8-colour strings `ESC [ 3 %p1 %d m` / `ESC [ 4 %p1 %d m` with a given colour count -/
def plain8 (n : Int) : Terminfo :=
  { colors := n, setCursor := [27, 91, 72], setFg := [27, 91, 51, 37, 112, 49, 37, 100, 109],
    setBg := [27, 91, 52, 37, 112, 49, 37, 100, 109] }

/-- the check is not trivially true: a 16-colour claim over the plain 8-colour strings is rejected (index 8 gives
`ESC [ 38 m`, an incomplete extended-colour selector; index 9 gives `ESC [ 39 m`, "default foreground") -/
example : colorStringsSelect (plain8 16) = false := by decide +kernel

/-- … and the same strings with the honest count 8 are accepted -/
example : colorStringsSelect (plain8 8) = true := by decide +kernel

end Tcell.Props.C14Colors
