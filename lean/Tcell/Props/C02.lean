import Tcell.Lemmas.ChunkStable
import Tcell.Lemmas.ChunkUtf8
import Tcell.Props.C03
import Tcell.Gen.ParserMode
/-
C02 — "Input decoding is independent of read chunking and consumes every byte".

Model: `Tcell.Model.Parser` (`collect` = `collectEventsFromInput`, tscreen.go:1722-1812, with its six parsers).
One `Feed` of the screen's main loop is `collect cfg st (buffered ++ chunk) expire` (tscreen.go:1852-1905: `buf.Write(chunk)`,
`scanInput(buf, false)`; the timer path calls `scanInput(buf, true)`).

Hypothesis `Stable cfg` (Tcell.Lemmas.ChunkStable): prefix-free key table (`pf`), the decidable table guard `keyGuard`
(`guard`), the decoder laws `DecLaws` (`dec`), and — because the pinned `parseClipboard` is **not** prefix-monotone — the
repaired clipboard parser of fixes/C02-clipboard.patch wherever that parser is active (`clip`).

* `collect_append`            ∀ a b st e: one read of `a ++ b` = read `a` (no timeout), then read `b` with what was left over
* `feed_chunks_eq_feed_concat` every partition into reads (only the last read may carry the timeout) = one read
* `parser_monotone`           per-parser prefix monotonicity (complete / reject persist, consumption 1..|a|) for every parser
                              of `parsers cfg`; individual lemmas `mono_parseRune … mono_parseClipboardF`
* `step_monotone`, `no_swallow`, `no_swallow_collect`   a recognised sequence consumes exactly its own bytes; what follows
                              is decoded as if it had arrived alone (in the state the sequence leaves)
* `expire_drains`             after the escape timeout nothing stays buffered;  `never_stalls` (every iteration shortens
                              the buffer);  `collect_total` (what the Go panics would correspond to)
* `not_order_dependent`       under `Stable` the result never depends on map iteration order
* `decLaws_utf8`, `decLaws_table`   the decoder laws hold for UTF-8 and for every single-byte charset
* `db_guard`, `db_stable`     `Stable` for the key table of EVERY regenerated database entry, no exception (kernel evaluation;
                              full strength since /repo 7758baa and 6c7d26f), and the corollary the property wants:
* `db_chunk_independent`      every partition into reads = one read, for the screen of every built-in entry (UTF-8)
                              `rxvt_focus_clash`: why the rxvt entries had to be excepted before 7758baa
* `pinned_clipboard_*`        the pinned `parseClipboard` violates the statement: concrete counterexamples (`decide`),
                              the same inputs are fixed cases of the `parsechunk` engine (classes `chunk-dependent`,
                              `swallow`)
* `sgr_junk_swallowed`        pinned `parseSgrMouse` ignores unknown bytes: chunk independent, but swallows them
                              (finding `swallow-into-mouse-report`); `sgr_pinned_esc_waits`: and keeps every `ESC x` waiting
* `sgr_no_junk`               the repaired parser (fixes/C02-sgr-strict.patch, `Cfg.sgrStrict`) consumes exactly the bytes
                              of one SGR report (independent grammar `Spec.SgrGrammar.isSgrReport`), for all buffers;
                              `sgr_report_recognised` (both variants accept every report), `sgr_strict_exact` (iff);
                              `sgr_strict_delivers`, `sgr_strict_esc_immediate`; every theorem above holds for both
                              variants (`Stable` does not mention the variant; `stable_sgr_variant`, `db_stable_strict`)
-/
namespace Tcell.Props.C02
open Tcell Tcell.Model Tcell.Lemmas.Collect Tcell.Lemmas.PrefixFree Tcell.Lemmas.Chunk

/-! ### chunk independence -/

/-- **collect_append.**  For every configuration satisfying `Stable`, all byte strings `a b` (no length bound), every
parser state and either value of the timeout flag of the second read: decoding `a ++ b` in one read gives the events of
reading `a` first (no timeout in between) followed by the events of reading `b` on top of what the first read left
buffered; final state and leftover agree too. -/
theorem collect_append (cfg : Cfg) (hs : Stable cfg) (st : PState) (a b : Bytes) (e : Bool) :
    collect cfg st (a ++ b) e =
      (let r1 := collect cfg st a false
       let r2 := collect cfg r1.st (r1.rest ++ b) e
       ⟨r1.evs ++ r2.evs, r2.st, r2.rest, r2.amb⟩) :=
  collect_append_stable cfg hs st a b e

/-- the main loop over a list of reads: all but the last without timeout; the last read `last` carries `e`.
Result: all events, final parser state, bytes still buffered. -/
def feeds (cfg : Cfg) (st : PState) (buf : Bytes) : List Bytes → Bytes → Bool → List Event × PState × Bytes
  | [], last, e =>
    let r := collect cfg st (buf ++ last) e
    (r.evs, r.st, r.rest)
  | c :: cs, last, e =>
    let r := collect cfg st (buf ++ c) false
    let t := feeds cfg r.st r.rest cs last e
    (r.evs ++ t.1, t.2)

/-- **every partition.**  Folding the reads over any list of chunks equals one read of their concatenation (any number of
chunks, any chunk sizes incl. empty and single bytes, any bytes already buffered, any state). -/
theorem feed_chunks_eq_feed_concat (cfg : Cfg) (hs : Stable cfg) (last : Bytes) (e : Bool) :
    ∀ (cs : List Bytes) (st : PState) (buf : Bytes),
      feeds cfg st buf cs last e = feeds cfg st buf [] (cs.flatten ++ last) e := by
  intro cs
  induction cs with
  | nil => intro st buf; simp
  | cons c cs ih =>
    intro st buf
    have h := collect_append_stable cfg hs st (buf ++ c) (cs.flatten ++ last) e
    simp only [feeds, ih, List.flatten_cons, List.append_assoc] at h ⊢
    rw [h]
    simp [feed2]

/-! ### per-parser prefix monotonicity -/

/-- every parser the loop tries is prefix-monotone: a `complete n evs st'` or `reject` verdict on `a` is the verdict on
every `a ++ b`, and `1 ≤ n ≤ |a|` -/
theorem parser_monotone (cfg : Cfg) (hs : Stable cfg) : ∀ p ∈ parsers cfg, Mono p := parsers_mono cfg hs

/-- `parseRune` for any decoder satisfying `DecBound` -/
theorem parseRune_monotone (dec : Bytes → DecResult) (hd : DecBound dec) : Mono (parseRune dec) := mono_parseRune dec hd
theorem parseFunctionKey_monotone (T : KeyTable) (hT : PrefixFree T) (hne : NoEmptySeq T) : Mono (parseFunctionKey T) :=
  mono_parseFunctionKey T hT hne
theorem parseFocus_monotone : Mono parseFocus := mono_parseFocus
theorem parseXtermMouse_monotone (cfg : Cfg) : Mono (parseXtermMouse cfg) := mono_parseXtermMouse cfg
theorem parseSgrMouse_monotone (cfg : Cfg) : Mono (parseSgrMouse cfg) := mono_parseSgrMouse cfg
/-- the repaired clipboard parser (fixes/C02-clipboard.patch) -/
theorem parseClipboardF_monotone : Mono parseClipboardF := mono_parseClipboardF

/-! ### no swallowing -/

/-- one loop iteration: whatever it emitted on `a` without timeout it emits on `a ++ b`, leaving `b` untouched -/
theorem step_monotone (cfg : Cfg) (hs : Stable cfg) (st : PState) (a b : Bytes) (e : Bool) (ha : a ≠ [])
    (evs : List Event) (st' : PState) (rest : Bytes) (h : step1 cfg st a false = .emit evs st' rest) :
    step1 cfg st (a ++ b) e = .emit evs st' (rest ++ b) := step1_mono cfg hs st a b e evs st' rest ha h

/-- **no swallow (one sequence).**  A sequence `s` recognised as a whole (key, mouse report, focus report, paste bracket,
clipboard reply, character) consumes exactly `|s|` bytes: any bytes `t` behind it are left for the next iteration. -/
theorem no_swallow (cfg : Cfg) (hs : Stable cfg) (st : PState) (s t : Bytes) (e : Bool) (hne : s ≠ [])
    (evs : List Event) (st' : PState) (h : step1 cfg st s false = .emit evs st' []) :
    step1 cfg st (s ++ t) e = .emit evs st' t := by
  have := step1_mono cfg hs st s t e evs st' [] hne h
  simpa using this

/-- **no swallow (streams).**  If `s` alone decodes completely (nothing left buffered), then `s ++ t` decodes to the events
of `s` followed by the events `t` gives in the state `s` leaves: nothing before or after a recognised stretch is lost. -/
theorem no_swallow_collect (cfg : Cfg) (hs : Stable cfg) (st : PState) (s t : Bytes) (e : Bool)
    (h : (collect cfg st s false).rest = []) :
    collect cfg st (s ++ t) e =
      (let r := collect cfg (collect cfg st s false).st t e
       ⟨(collect cfg st s false).evs ++ r.evs, r.st, r.rest, r.amb⟩) := by
  rw [collect_append cfg hs]
  simp [h]

/-! ### totality, progress, drain -/

/-- **never stalls**: every productive iteration strictly shortens the buffer (so the Go `for` loop terminates and the
fuel of `collect` is never exhausted) -/
theorem never_stalls (cfg : Cfg) (hs : Stable cfg) (st : PState) (b : Bytes) (e : Bool) (evs : List Event) (st' : PState)
    (rest : Bytes) (hb : b ≠ []) (h : step1 cfg st b e = .emit evs st' rest) : rest.length < b.length :=
  progress_of_stable cfg hs st b e evs st' rest hb h

/-- **collect_total.**  The model is a total function; the places where the Go code could panic are guarded:
`b[0]` in parseRune (tscreen.go:1700) and in the fall-through (1820) are reached only with `len(b) > 0` (loop head 1769:
`step1` is applied to `_ :: _` only); `b[:len(b)-1]`, `b[:len(b)-2]` (pinned) and `b[:i]`, `b[:i-1]` (repaired, `i ≥ 1`
in state 1) in parseClipboard are reached only with `len(b) > 7`; ReadByte errors are ignored.  The statement: on the
empty buffer nothing is called and nothing is produced. -/
theorem collect_total (cfg : Cfg) (st : PState) (e : Bool) : collect cfg st [] e = ⟨[], st, [], false⟩ := rfl

theorem step1_expire_not_wait (cfg : Cfg) (st : PState) (b : Bytes) (hb : b ≠ []) : step1 cfg st b true ≠ .wait := by
  intro h
  unfold step1 at h
  rw [tryParsers_eq] at h
  cases hf : firstHit st b (parsers cfg) with
  | some v => rw [hf] at h; cases v <;> simp at h
  | none =>
    rw [hf] at h
    simp only [or_true, if_true] at h
    cases b with
    | nil => exact hb rfl
    | cons c t =>
      unfold fallThrough at h
      by_cases hc : c = 27
      · simp only [hc, if_true] at h
        cases t <;> cases h
      · simp [hc] at h

/-- under `Stable` no result depends on map iteration order -/
theorem not_order_dependent (cfg : Cfg) (hs : Stable cfg) (st : PState) (b : Bytes) (e : Bool) :
    step1 cfg st b e ≠ .ambiguous := step1_not_ambiguous cfg hs st b e

/-- **expire_drains.**  Once the escape timeout has expired no byte remains buffered (all byte strings, all states). -/
theorem expire_drains (cfg : Cfg) (hs : Stable cfg) : ∀ (k : Nat) (b : Bytes) (st : PState), b.length ≤ k →
    (collect cfg st b true).rest = [] ∧ (collect cfg st b true).amb = false := by
  intro k
  induction k with
  | zero =>
    intro b st hk
    have : b = [] := List.eq_nil_of_length_eq_zero (by omega)
    subst this; exact ⟨rfl, rfl⟩
  | succ k ih =>
    intro b st hk
    cases hb : b with
    | nil => exact ⟨rfl, rfl⟩
    | cons c t =>
      have hne : b ≠ [] := by rw [hb]; simp
      rw [← hb]
      cases hstep : step1 cfg st b true with
      | wait => exact absurd hstep (step1_expire_not_wait cfg st b hne)
      | ambiguous => exact absurd hstep (step1_not_ambiguous cfg hs st b true)
      | emit evs st' rest =>
        have hlt := progress_of_stable cfg hs st b true evs st' rest hne hstep
        rw [collect_emit cfg (progress_of_stable cfg hs) st b hne true evs st' rest hstep]
        exact ih rest st' (by omega)

theorem expire_drains' (cfg : Cfg) (hs : Stable cfg) (st : PState) (b : Bytes) : (collect cfg st b true).rest = [] :=
  (expire_drains cfg hs b.length b st (Nat.le_refl _)).1

/-! ### decoder laws -/

theorem decLaws_table (tbl : List Int) : DecLaws (decTable tbl) where
  bound := by
    intro p r n h
    cases p with
    | nil => simp [decTable] at h
    | cons c t =>
      unfold decTable at h
      by_cases hc : c < 128 <;> simp [hc] at h <;> (rw [← h.2]; simp)
  local4 := by
    intro p q r n hl _
    cases p with
    | nil => simp at hl
    | cons c t =>
      unfold decTable
      by_cases hc : c < 128
      · simp only [List.cons_append, hc, if_true]; exact ⟨_, _, rfl⟩
      · simp only [List.cons_append, hc, if_false]; exact ⟨_, _, rfl⟩

theorem decLaws_utf8 : DecLaws decUtf8 := Tcell.Lemmas.ChunkUtf8.decLaws_utf8

/-! ### a satisfiable instance -/

def exT : KeyTable :=
  [⟨[13], 13, 0⟩, ⟨[27, 79, 80], 279, 0⟩, ⟨[27, 91, 49, 59, 53, 80], 279, 2⟩, ⟨[27, 91, 50, 48, 48, 126], 16384, 0⟩,
   ⟨[27, 91, 65], 257, 0⟩]
/-- xterm-like configuration with mouse and (repaired) clipboard parser, UTF-8 -/
def exCfg : Cfg := { keys := exT, mouse := true, clipboard := true, clipFixed := true, dec := decUtf8, w := 80, h := 24 }
/-- the same with the pinned clipboard parser -/
def exPinned : Cfg := { exCfg with clipFixed := false }

theorem exCfg_stable : Stable exCfg where
  pf := prefixFree_of_chain exT (by decide)
  guard := by decide
  dec := decLaws_utf8
  clip := fun _ => rfl

/-- OSC 52 reply `ESC ] 5 2 ; c ; aGVsbG8= BEL` ("hello") -/
def replyBel : Bytes := [27, 93, 53, 50, 59, 99, 59, 97, 71, 86, 115, 98, 71, 56, 61, 7]
/-- `ESC ] 5 2 ; c ; QUJD ESC \` ("ABC", ST terminated) -/
def replySt : Bytes := [27, 93, 53, 50, 59, 99, 59, 81, 85, 74, 68, 27, 92]

-- the hypotheses are satisfiable, and the theorem is not vacuous on the instance:
example : collect exCfg {} (replyBel ++ [120]) false
    = ⟨[.clipboard [104, 101, 108, 108, 111], .key 256 120 0], {}, [], false⟩ := by decide
example : collect exCfg {} (replySt ++ [27, 91, 73] ++ [27, 91, 60, 48, 59, 53, 59, 53, 77]) false
    = ⟨[.clipboard [65, 66, 67], .focus true, .mouse 4 4 1 0], { buttondn := true }, [], false⟩ := by decide
example : feeds exCfg {} [] [[27, 93, 53], [50, 59, 99, 59, 97, 71, 86, 115, 98], [71, 56, 61, 7, 120]] [] false
    = feeds exCfg {} [] [] ([[27, 93, 53], [50, 59, 99, 59, 97, 71, 86, 115, 98], [71, 56, 61, 7, 120]].flatten ++ []) false :=
  feed_chunks_eq_feed_concat exCfg exCfg_stable [] false _ {} []
example : (collect exCfg {} [27] true).rest = [] := expire_drains' exCfg exCfg_stable {} [27]

/-! ### the pinned `parseClipboard` violates the statement (finding `chunk-dependent`, `swallow`) -/

/-- **event lost.**  Reply + `x` in ONE read: the BEL branch drops the last byte of the *buffer* (`x`), hands
`aGVsbG8=\a` to the base64 decoder, which fails: no clipboard event, only `x` … -/
theorem pinned_clipboard_one_read :
    collect exPinned {} (replyBel ++ [120]) false = ⟨[.key 256 120 0], {}, [], false⟩ := by decide
/-- … in TWO reads (`reply`, then `x`) the event is delivered: the result depends on chunking -/
theorem pinned_clipboard_two_reads :
    feeds exPinned {} [] [replyBel] [120] false = ([.clipboard [104, 101, 108, 108, 111], .key 256 120 0], {}, []) := by decide
/-- hence `collect_append` fails for the pinned parser: `Stable.clip` cannot be dropped -/
theorem pinned_clipboard_not_chunk_independent :
    collect exPinned {} (replyBel ++ [120]) false ≠
      (let r1 := collect exPinned {} replyBel false
       let r2 := collect exPinned r1.st (r1.rest ++ [120]) false
       ⟨r1.evs ++ r2.evs, r2.st, r2.rest, r2.amb⟩) := by decide
/-- the ST branch (`b[:len(b)-2]`) has the same defect -/
theorem pinned_clipboard_st :
    collect exPinned {} (replySt ++ [120]) false = ⟨[.key 256 120 0], {}, [], false⟩
    ∧ feeds exPinned {} [] [replySt] [120] false = ([.clipboard [65, 66, 67], .key 256 120 0], {}, []) := by decide
/-- the pinned parser is not prefix-monotone: `complete` with an event on `reply`, `complete` without one on `reply ++ x` -/
theorem pinned_clipboard_not_monotone :
    parseClipboard {} replyBel = .complete 16 [.clipboard [104, 101, 108, 108, 111]] {}
    ∧ parseClipboard {} (replyBel ++ [120]) = .complete 16 [] {} := by decide
/-- **bytes swallowed.**  The seven prefix bytes are skipped unchecked: `ESC a b c d e f g h BEL` (ten bytes that are no
OSC 52 reply) is consumed whole by the clipboard parser and produces nothing — even after the escape timeout -/
theorem pinned_clipboard_swallows :
    collect exPinned {} [27, 97, 98, 99, 100, 101, 102, 103, 104, 7] true = ⟨[], {}, [], false⟩ := by decide
/-- the repaired parser delivers them (Alt-a, b … h, Ctrl-G) -/
theorem fixed_clipboard_delivers :
    (collect exCfg {} [27, 97, 98, 99, 100, 101, 102, 103, 104, 7] true).evs.length = 9 := by decide

/-- pinned `parseSgrMouse` ignores bytes that have no `case` (tscreen.go:1402): `ESC q [ < 0 ; 5 ; 5 M` is consumed as a
mouse report and the `q` disappears.  This does not depend on chunking (the parser is prefix-monotone) but it is a
swallowed byte; reachable on the real code (oracle class `swallow`). -/
theorem sgr_junk_swallowed :
    collect exCfg {} [27, 113, 91, 60, 48, 59, 53, 59, 53, 77] false = ⟨[.mouse 4 4 1 0], { buttondn := true }, [], false⟩ := by
  decide

/-- … and while the buffer holds `ESC x` the pinned SGR parser still reports "partial" (the `x` is skipped, the loop runs
off the end), so on a mouse terminal Alt-x is not delivered until the escape timeout fires -/
theorem sgr_pinned_esc_waits :
    collect exCfg {} [27, 120] false = ⟨[], {}, [27, 120], false⟩
    ∧ collect exCfg {} [27, 120] true = ⟨[.key 256 120 4], {}, [], false⟩ := by decide

/-! ### the repaired `parseSgrMouse` (fixes/C02-sgr-strict.patch: `default: return false, false`) -/

/-- `exCfg` with the repaired SGR parser -/
def exStrict : Cfg := { exCfg with sgrStrict := true }

/-- `Stable` does not mention the SGR variant: the guard of the pinned variant gives the guard of either one (the strict
parser completes only where the pinned one does), so every theorem of this file that assumes `Stable` – `collect_append`,
`feed_chunks_eq_feed_concat`, `parser_monotone`, `no_swallow*`, `expire_drains`, `not_order_dependent` – holds for both -/
theorem stable_sgr_variant (cfg : Cfg) (hs : Stable cfg) (hp : cfg.sgrStrict = false) (b : Bool) :
    Stable { cfg with sgrStrict := b } :=
  { pf := hs.pf, guard := keyGuard_of_pinned cfg { cfg with sgrStrict := b } rfl rfl rfl rfl hp hs.guard, dec := hs.dec,
    clip := hs.clip }

theorem exStrict_stable : Stable exStrict := stable_sgr_variant exCfg exCfg_stable rfl true

/-- the strict parser is prefix-monotone like the pinned one (`parseSgrMouse_monotone` is stated for every `cfg`) -/
example : Mono (parseSgrMouse exStrict) := parseSgrMouse_monotone exStrict

open Tcell.Spec.SgrGrammar in
/-- **sgr_no_junk.**  For the repaired parser, every buffer `b` (no length bound), every parser state: if `parseSgrMouse`
completes on `b` and removes `n` bytes, then `n ≤ |b|` and the `n` bytes removed are exactly one syntactically valid SGR
mouse report – introducer `ESC [` or `0x9B`, `<`, three optionally negative decimal fields separated by `;`, final `M`
or `m` (`Spec.SgrGrammar.isSgrReport`, a recogniser of that regular expression written from ctlseqs; a field may be empty,
which the parser reads as 0).  Hence no byte that is not part of a report is ever consumed by it: nothing in front of the
report, nothing inside it, nothing behind it. -/
theorem sgr_no_junk (cfg : Cfg) (hs : cfg.sgrStrict = true) (st : PState) (b : Bytes) (n : Nat) (evs : List Event)
    (st' : PState) (h : parseSgrMouse cfg st b = .complete n evs st') :
    isSgrReport (b.take n) = true ∧ n ≤ b.length := by
  constructor
  · have := sgrRun_grammar cfg hs st n evs st' b {} 0 h
    simpa [Tcell.Lemmas.SgrStrict.okFrom] using this
  · exact ((parseSgrMouse_monotone cfg).bound st b n evs st' h).2

/-- the same at the level of the loop: when an iteration of `collectEventsFromInput` is decided by the SGR parser, the
bytes it takes off the buffer are one report and what follows it is left untouched -/
theorem sgr_no_junk_append (cfg : Cfg) (hs : cfg.sgrStrict = true) (st : PState) (b : Bytes) (n : Nat) (evs : List Event)
    (st' : PState) (h : parseSgrMouse cfg st b = .complete n evs st') :
    ∃ r t, b = r ++ t ∧ r.length = n ∧ Tcell.Spec.SgrGrammar.isSgrReport r = true := by
  obtain ⟨hg, hn⟩ := sgr_no_junk cfg hs st b n evs st' h
  exact ⟨b.take n, b.drop n, (List.take_append_drop n b).symm, by simp [List.length_take, Nat.min_eq_left hn], hg⟩

open Tcell.Spec.SgrGrammar in
/-- **every report is recognised** (both variants): if `r` is an SGR report of the grammar, `parseSgrMouse` completes on
`r ++ t` for every continuation `t` and removes exactly the `|r|` bytes of the report -/
theorem sgr_report_recognised (cfg : Cfg) (st : PState) (r t : Bytes) (h : isSgrReport r = true) :
    ∃ evs st', parseSgrMouse cfg st (r ++ t) = .complete r.length evs st' := by
  have := sgrRun_of_grammar cfg st t r {} 0 (by simpa [Tcell.Lemmas.SgrStrict.okFrom] using h)
  simpa [parseSgrMouse] using this

open Tcell.Spec.SgrGrammar in
/-- **the repaired parser completes exactly on reports**: for every buffer `b` and every `n`, `parseSgrMouse` completes
removing `n` bytes iff the first `n` bytes of `b` are one SGR report of the grammar -/
theorem sgr_strict_exact (cfg : Cfg) (hs : cfg.sgrStrict = true) (st : PState) (b : Bytes) (n : Nat) :
    (∃ evs st', parseSgrMouse cfg st b = .complete n evs st') ↔ (n ≤ b.length ∧ isSgrReport (b.take n) = true) := by
  constructor
  · rintro ⟨evs, st', h⟩
    have := sgr_no_junk cfg hs st b n evs st' h
    exact ⟨this.2, this.1⟩
  · rintro ⟨hn, hg⟩
    have := sgr_report_recognised cfg st (b.take n) (b.drop n) hg
    rwa [List.take_append_drop, List.length_take, Nat.min_eq_left hn] at this

example : ∃ evs st', parseSgrMouse exStrict {} ([0x9b, 60, 51, 53, 59, 45, 49, 59, 49, 50, 51, 109] ++ [120]) = .complete 12 evs st' :=
  sgr_report_recognised exStrict {} _ [120] (by decide)
example : (∃ evs st', parseSgrMouse exStrict {} [27, 91, 60, 48, 59, 53, 59, 53, 77, 120] = .complete 9 evs st') :=
  (sgr_strict_exact exStrict rfl {} _ 9).mpr (by decide)

-- the hypotheses are satisfiable: a report followed by more input
example : parseSgrMouse exStrict {} [27, 91, 60, 48, 59, 53, 59, 53, 77, 120, 121] = .complete 9 [.mouse 4 4 1 0] { buttondn := true } := by
  decide
-- and the pinned parser does not have the property: it consumes ten bytes that are no report
example : parseSgrMouse exCfg {} [27, 113, 91, 60, 48, 59, 53, 59, 53, 77] = .complete 10 [.mouse 4 4 1 0] { buttondn := true }
    ∧ Tcell.Spec.SgrGrammar.isSgrReport [27, 113, 91, 60, 48, 59, 53, 59, 53, 77] = false := by decide

/-- the input of `sgr_junk_swallowed` on the repaired parser: every byte is delivered (Alt-q, then `[<0;5;5M` as text) -/
theorem sgr_strict_delivers :
    collect exStrict {} [27, 113, 91, 60, 48, 59, 53, 59, 53, 77] false
      = ⟨[.key 256 113 4, .key 256 91 0, .key 256 60 0, .key 256 48 0, .key 256 59 0, .key 256 53 0, .key 256 59 0,
          .key 256 53 0, .key 256 77 0], {}, [], false⟩ := by decide

/-- … an invalid byte in front of a report stays in front of it (it waits for the timeout as a possible character
start, then is delivered; the report behind it still decodes) -/
theorem sgr_strict_delivers_ff :
    collect exStrict {} [255, 27, 91, 60, 48, 59, 53, 59, 53, 77] true = ⟨[.key 256 255 0, .mouse 4 4 1 0], { buttondn := true }, [], false⟩
    ∧ collect exCfg {} [255, 27, 91, 60, 48, 59, 53, 59, 53, 77] true = ⟨[.mouse 4 4 1 0], { buttondn := true }, [], false⟩ := by decide

/-- … and Alt-x no longer waits for the escape timeout on a mouse terminal -/
theorem sgr_strict_esc_immediate : collect exStrict {} [27, 120] false = ⟨[.key 256 120 4], {}, [], false⟩ := by decide

/-! ### database layer: `Stable` for every regenerated entry -/

open Tcell.Props.C03 in
/-- configuration of the screen built for a database entry: key table as extracted from the real constructor (and proved
equal to `buildKeys` by the exhaustive `keytable` correspondence), the parsers `collectEventsFromInput` activates for it,
and the clipboard / SGR-mouse parser variants of the tree under test (`Gen.clipFixed`, `Gen.sgrStrict`: the translator's
behavioural probes, the same questions engine `parsechunk` asks to choose the model variant it is compared with) -/
def dbCfgV (p : Terminfo × List Gen.KeyRow) (sgr : Bool) : Cfg :=
  { keys := toTable p.2, mouse := mouseActive p.1, clipboard := clipboardActive p.1, clipFixed := Gen.clipFixed,
    sgrStrict := sgr, dec := decUtf8, w := 80, h := 24 }

open Tcell.Props.C03 in
/-- … with the SGR parser variant of the tree under test -/
def dbCfg (p : Terminfo × List Gen.KeyRow) : Cfg := dbCfgV p Gen.sgrStrict

/-- the current tree has the clipboard parser of /repo 6c7d26f (cuts at the terminator it found, checks its prefix) -/
theorem tree_clip_fixed : Gen.clipFixed = true := by decide

/-- … and the strict SGR mouse parser of /repo 9fa9988 (`Stable` does not need this: both variants are prefix-monotone) -/
theorem tree_sgr_strict : Gen.sgrStrict = true := by decide

/-- some key sequence of the table properly extends a focus report `ESC [ I` / `ESC [ O` -/
def focusClash (T : KeyTable) : Bool :=
  T.any fun e => (hasPrefix e.seq [27, 91, 73] || hasPrefix e.seq [27, 91, 79]) && decide (3 < e.seq.length)

set_option maxRecDepth 1000000 in
/-- the kernel evaluation of `db_guard`, in two halves of the entry list (each well under a minute) -/
theorem db_guard_lo : (Gen.dbTables.take 25).all (fun p => keyGuard (dbCfgV p false)) = true := by decide +kernel
set_option maxRecDepth 1000000 in
theorem db_guard_hi : (Gen.dbTables.drop 25).all (fun p => keyGuard (dbCfgV p false)) = true := by decide +kernel

/-- **DB: table guard** (full strength, current tree) — for EVERY entry of the regenerated database, no exception: every key
sequence is non-empty and 7-bit initial, and focus / X11 / SGR / clipboard parsers (those active for the entry) complete on
no proper prefix of a key — evaluated for the pinned (lenient) SGR parser, which completes on a superset of what the strict
one completes on, so the guard transfers to the strict variant (`keyGuard_of_pinned`).  One linear pass per entry (`keyGuard` runs each active parser once on each key's longest proper
prefix; no pair of keys is compared).  Holds since /repo 7758baa: before it the rxvt family defined Ctrl-arrows as
`ESC [ O a…d`, which extend the focus-out report `ESC [ O` (`rxvt_focus_clash` below), and only the statement with
focus-clashing tables excepted held. -/
theorem db_guard : Gen.dbTables.all (fun p => keyGuard (dbCfgV p false)) = true := by
  rw [← List.take_append_drop 25 Gen.dbTables, List.all_append, db_guard_lo, db_guard_hi]; rfl

/-- no table of the current database has a key extending a focus report (the former exception is empty) -/
theorem db_no_focus_clash : Gen.dbTables.all (fun p => !focusClash (dbCfg p).keys) = true := by decide +kernel

/-- **DB: `Stable`** (full strength) for EVERY database entry, with the UTF-8 decoder (and, by `stable_of_dec` /
`stable_congr`, any decoder satisfying `DecLaws`, any screen size, either X11 variant) -/
theorem db_stable_sgr (sgr : Bool) : ∀ p ∈ Gen.dbTables, Stable (dbCfgV p sgr) := fun p hp =>
  stable_sgr_variant (dbCfgV p false)
    { pf := Tcell.Props.C03.db_prefix_free p hp
      guard := List.all_eq_true.mp db_guard p hp
      dec := decLaws_utf8
      clip := fun _ => tree_clip_fixed } rfl sgr

/-- **DB: `Stable`** for the parser variants of the tree under test -/
theorem db_stable : ∀ p ∈ Gen.dbTables, Stable (dbCfg p) := fun p hp => db_stable_sgr Gen.sgrStrict p hp

/-- the key `ESC [ O a` (rxvt Ctrl-Up in the pinned database) against the focus-out report `ESC [ O` -/
def exRxvt : Cfg :=
  { keys := [⟨[13], 13, 0⟩, ⟨[27, 91, 65], 257, 0⟩, ⟨[27, 91, 79, 97], 257, 2⟩], mouse := true, clipboard := false,
    dec := decUtf8, w := 80, h := 24 }
/-- the guard rejects it … -/
example : keyGuard exRxvt = false ∧ focusClash exRxvt.keys = true := by decide
/-- … and rightly so: in one read the four bytes are Ctrl-Up, split after `ESC [ O` they are focus-out and `a` -/
theorem rxvt_focus_clash :
    collect exRxvt {} [27, 91, 79, 97] false = ⟨[.key 257 0 2], {}, [], false⟩
    ∧ feeds exRxvt {} [] [[27, 91, 79]] [97] false = ([.focus false, .key 256 97 0], {}, []) := by decide

/-- the guard does not look at the decoder … -/
theorem stable_of_dec (cfg : Cfg) (hs : Stable cfg) (dec : Bytes → DecResult) (hd : DecLaws dec) :
    Stable { cfg with dec := dec } :=
  { pf := hs.pf, guard := by rw [keyGuard_congr cfg { cfg with dec := dec } rfl rfl rfl rfl rfl]; exact hs.guard, dec := hd, clip := hs.clip }

/-- … nor at the screen size or the X11 variant: `Stable` transfers between configurations with the same key table,
active parsers, clipboard and SGR variants and decoder -/
theorem stable_congr (cfg cfg' : Cfg) (hs : Stable cfg) (hk : cfg'.keys = cfg.keys) (hm : cfg'.mouse = cfg.mouse)
    (hc : cfg'.clipboard = cfg.clipboard) (hf : cfg'.clipFixed = cfg.clipFixed) (hst : cfg'.sgrStrict = cfg.sgrStrict)
    (hd : cfg'.dec = cfg.dec) : Stable cfg' :=
  { pf := hk ▸ hs.pf, guard := by rw [keyGuard_congr cfg cfg' hk hm hc hf hst]; exact hs.guard, dec := hd ▸ hs.dec,
    clip := fun h => by rw [hf]; exact hs.clip (hc ▸ h) }

/-- the screen of a database entry at an arbitrary size and with either X11 mouse variant -/
def dbCfgAt (p : Terminfo × List Gen.KeyRow) (w h : Int) (x11 : Bool) : Cfg := { dbCfg p with w := w, h := h, x11Fixed := x11 }

/-- **db_chunk_independent** — the property for every built-in terminal.  For the screen of EVERY entry of the regenerated
database (its real key table, its active parsers, the tree's clipboard parser, UTF-8 input), any screen size and either
X11 variant: every partition of the input into reads – any number of chunks, any sizes incl. empty and single bytes, any
bytes already buffered, any parser state, only the last read may carry the escape timeout – produces exactly the events,
final state and leftover of ONE read of the concatenation. -/
theorem db_chunk_independent : ∀ p ∈ Gen.dbTables, ∀ (w h : Int) (x11 : Bool) (cs : List Bytes) (last : Bytes) (e : Bool)
    (st : PState) (buf : Bytes),
    feeds (dbCfgAt p w h x11) st buf cs last e = feeds (dbCfgAt p w h x11) st buf [] (cs.flatten ++ last) e :=
  fun p hp w h x11 cs last e st buf =>
    feed_chunks_eq_feed_concat (dbCfgAt p w h x11)
      (stable_congr (dbCfg p) (dbCfgAt p w h x11) (db_stable p hp) rfl rfl rfl rfl rfl rfl) last e cs st buf

/-- … and after the escape timeout nothing stays buffered, for every built-in entry -/
theorem db_expire_drains : ∀ p ∈ Gen.dbTables, ∀ (st : PState) (b : Bytes), (collect (dbCfg p) st b true).rest = [] :=
  fun p hp st b => expire_drains' (dbCfg p) (db_stable p hp) st b

/-- non-vacuity: the database is non-empty, contains the rxvt family that used to be excepted (now with `ESC O a`), and on
the regenerated rxvt table the formerly clashing stream decodes the same in one read and split after `ESC [ O` -/
example : 40 ≤ Gen.dbTables.length ∧
    (∃ p ∈ Gen.dbTables, p.1.name = "rxvt" ∧ mouseActive p.1 = true ∧
      (dbCfg p).keys.any (fun e => bytesEq e.seq [27, 79, 97]) = true ∧
      feeds (dbCfg p) {} [] [[27, 91, 79]] [97] false = feeds (dbCfg p) {} [] [] [27, 91, 79, 97] false ∧
      (feeds (dbCfg p) {} [] [] [27, 91, 79, 97] false).1 = [.focus false, .key 256 97 0]) := by
  decide +kernel

/-- `collect_append` for every database entry (UTF-8) -/
theorem db_collect_append : ∀ p ∈ Gen.dbTables, ∀ (st : PState) (a b : Bytes) (e : Bool),
    collect (dbCfg p) st (a ++ b) e = feed2 (dbCfg p) st a b e :=
  fun p hp st a b e => collect_append_stable (dbCfg p) (db_stable p hp) st a b e

/-- explicitly for the strict SGR parser (/repo 9fa9988) and for the lenient one, whatever the tree implements: `Stable` and
chunk independence for EVERY database entry -/
theorem db_stable_strict : ∀ p ∈ Gen.dbTables, Stable { dbCfg p with sgrStrict := true } :=
  fun p hp => db_stable_sgr true p hp

theorem db_collect_append_strict : ∀ p ∈ Gen.dbTables, ∀ (st : PState) (a b : Bytes) (e : Bool),
    collect { dbCfg p with sgrStrict := true } st (a ++ b) e = feed2 { dbCfg p with sgrStrict := true } st a b e :=
  fun p hp st a b e => collect_append_stable _ (db_stable_strict p hp) st a b e

theorem db_collect_append_lenient : ∀ p ∈ Gen.dbTables, ∀ (st : PState) (a b : Bytes) (e : Bool),
    collect { dbCfg p with sgrStrict := false } st (a ++ b) e = feed2 { dbCfg p with sgrStrict := false } st a b e :=
  fun p hp st a b e => collect_append_stable _ (db_stable_sgr false p hp) st a b e

end Tcell.Props.C02
