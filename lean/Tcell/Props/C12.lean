import Tcell.Lemmas.MouseSeq
import Tcell.Spec.XtermMouse
import Tcell.Gen.Consts
/-
C12 — "Mouse reports decode to the right position, buttons and modifiers".

Model: `Tcell.Model.Parser` (tscreen.go:1295-1812).  Specification: `Tcell.Spec.XtermMouse` (xterm ctlseqs).
All theorems are about `collect`, the model of `collectEventsFromInput`, on the bytes a terminal sends.

* `sgr_decode`            one SGR report, all b x y (any sign, any number of digits, |·| < 2^63 = Go int), both finals,
                          both introducers → exactly one mouse event, nothing left in the buffer
* `sgr_event_spec`        that event has the position, modifiers and (for every code the statement fixes) buttons of the
                          independent specification, and the button-held register follows the specification
* `x11_decode`            one X11 report, all bytes Cb Cx Cy → exactly one event (closed form `x11Out`)
* `x11_pinned_wrong_iff`  the pinned tree decodes exactly the motion codes 32..63 wrongly (drag with left/middle → wheel,
                          right-drag while held → no button): the finding `x11-motion-as-wheel` / `x11-drag-loses-button`
* `x11_fixed_event_spec`  with the repair of fixes/C12-x11-offset.patch the X11 path satisfies the specification
* `reports_decode`, `reports_match_spec`   arbitrary report sequences: one event per report, matching the spec run
* `release_buttonless`, `motion_without_press_buttonless`, `drag_keeps_button`, `press_then_release_ends_buttonless`
-/
namespace Tcell.Props.C12
open Tcell Tcell.Model Tcell.Dec
open Tcell.Lemmas.SgrMouse Tcell.Lemmas.Collect Tcell.Lemmas.MouseStep Tcell.Lemmas.MouseSeq
open Tcell.Spec.XtermMouse

/-! ### constants used by model and spec = constants of the current source (regenerated) -/
example : (1 : Nat) = Gen.button1 ∧ (2 : Nat) = Gen.button2 ∧ (4 : Nat) = Gen.button3 := by decide
example : (256 : Nat) = Gen.wheelUp ∧ (512 : Nat) = Gen.wheelDown := by decide
example : Model.modShift = Gen.modShift ∧ Model.modCtrl = Gen.modCtrl ∧ Model.modAlt = Gen.modAlt ∧ Model.modMeta = Gen.modMeta := by decide
example : button1 = Gen.button1 ∧ button2 = Gen.button2 ∧ button3 = Gen.button3 ∧ wheelUp = Gen.wheelUp ∧ wheelDown = Gen.wheelDown := by decide
example : Spec.XtermMouse.modShift = Gen.modShift ∧ Spec.XtermMouse.modCtrl = Gen.modCtrl ∧ Spec.XtermMouse.modAlt = Gen.modAlt := by decide

/-! ### the UTF-8 decoder never claims the 8-bit introducer -/

theorem decUtf8_silent_9b : DecSilent decUtf8 0x9b := by
  intro p r n
  simp [decUtf8, utf8Validate, utf8DecodeRune]

/-- a configuration satisfying every hypothesis below (used by the `example`s) -/
def exCfg : Cfg :=
  { keys := [⟨[27, 79, 80], 279, 0⟩, ⟨[27, 91, 65], 257, 0⟩, ⟨[13], 13, 0⟩], mouse := true, clipboard := true,
    dec := decUtf8, w := 80, h := 24 }

theorem exCfg_ok : MouseOK exCfg := ⟨rfl, decUtf8_silent_9b⟩
theorem exCfg_clear : mouseClear exCfg.keys = true := by decide

/-! ### one SGR report -/

/-- **SGR decode.**  For every button code `b`, coordinates `x y` (negative, zero, multi-digit: any integers a Go `int`
holds), final `M` or `m`, 7-bit or 8-bit CSI introducer, parser state and `expire` flag: the bytes
`intro < b ; x ; y final` fed alone produce exactly one mouse event and leave nothing buffered. -/
theorem sgr_decode (cfg : Cfg) (hc : MouseOK cfg) (hT : mouseClear cfg.keys = true) (st : PState)
    (intro : Bytes) (hi : IsIntro intro) (b x y : Int) (hb : Fits b) (hx : Fits x) (hy : Fits y)
    (fin : Nat) (hf : fin = 77 ∨ fin = 109) (expire : Bool) :
    collect cfg st (render intro b x y fin) expire
      = ⟨[sgrEvent cfg st b x y fin], sgrState st b fin, [], false⟩ := by
  have h := collect_reports cfg hc hT expire [.sgr intro b x y fin] (by intro r hr; simp at hr; subst hr; exact ⟨hi, hb, hx, hy, hf⟩) st
  simpa [renderAll, outs, MRep.bytes, MRep.out] using h

example : collect exCfg {} (render [27, 91] 0 (-3) 1234 77) false
    = ⟨[.mouse 0 23 1 0], { buttondn := true }, [], false⟩ := by
  rw [sgr_decode exCfg exCfg_ok exCfg_clear {} _ (Or.inl rfl) 0 (-3) 1234 (by unfold Fits two63; omega) (by unfold Fits two63; omega) (by unfold Fits two63; omega) 77 (Or.inl rfl)]
  decide

/-! ### the event against the specification -/

def heldOf (dn : Bool) : Held := if dn then .yes else .no

/-- the model's event has the spec's position and modifiers, and the spec's buttons whenever the statement fixes them -/
def Matches (ev : Event) (ex : Expect) : Prop :=
  ∃ btn, ev = .mouse ex.x ex.y btn ex.mods ∧ (ex.buttons = none ∨ ex.buttons = some btn)

def evBtnMods : Event → Nat × Nat
  | .mouse _ _ b m => (b, m)
  | _ => (0, 0)

def cfg0 : Cfg := { keys := [], mouse := true, clipboard := false, dec := decUtf8, w := 1, h := 1 }

theorem buildMouseEvent_eq (cfg : Cfg) (x y btn : Int) :
    buildMouseEvent cfg x y btn
      = .mouse (clip1 x cfg.w) (clip1 y cfg.h) (evBtnMods (buildMouseEvent cfg0 0 0 btn)).1
          (evBtnMods (buildMouseEvent cfg0 0 0 btn)).2 := rfl

theorem clip1_spec (v lim : Int) (h : 1 ≤ lim) : clip1 (v - 1) lim = clip v lim := by
  unfold clip1 clip
  dsimp only
  split <;> split <;> omega

/-- what must hold for button code `c8` (low eight bits), register `dn`, release flag and spec held-state -/
def StepOK (c8 : Nat) (dn rel : Bool) (held : Held) : Prop :=
  let p := sgrButtons { buttondn := dn } (c8 : Int) rel
  let bm := evBtnMods (buildMouseEvent cfg0 0 0 (p.1 : Int))
  let sp := buttons held ⟨(c8 : Int), 0, 0, rel⟩
  (held = .unknown ∨ held = heldOf dn) →
    bm.2 = mods (bits (c8 : Int)) ∧ (sp.1 = none ∨ sp.1 = some bm.1) ∧ (sp.2 = .unknown ∨ sp.2 = heldOf p.2)

instance (c8 : Nat) (dn rel : Bool) (held : Held) : Decidable (StepOK c8 dn rel held) := by
  unfold StepOK; infer_instance

set_option maxRecDepth 100000 in
theorem stepOK_all : (List.range 256).all (fun c8 => [true, false].all fun dn => [true, false].all fun rel =>
    [Held.no, Held.yes, Held.unknown].all fun held => decide (StepOK c8 dn rel held)) = true := by decide +kernel

theorem stepOK (c8 : Nat) (h : c8 < 256) (dn rel : Bool) (held : Held) : StepOK c8 dn rel held := by
  have h1 := List.all_eq_true.mp stepOK_all c8 (List.mem_range.mpr h)
  have h2 := List.all_eq_true.mp h1 dn (by cases dn <;> simp)
  have h3 := List.all_eq_true.mp h2 rel (by cases rel <;> simp)
  have h4 := List.all_eq_true.mp h3 held (by cases held <;> simp)
  exact of_decide_eq_true h4

theorem stepOK' (c8 : Nat) (h : c8 < 256) (dn rel : Bool) (held : Held) (hh : held = .unknown ∨ held = heldOf dn) :
    (evBtnMods (buildMouseEvent cfg0 0 0 ((sgrButtons { buttondn := dn } (c8 : Int) rel).1 : Int))).2 = mods (bits (c8 : Int))
    ∧ ((buttons held ⟨(c8 : Int), 0, 0, rel⟩).1 = none
       ∨ (buttons held ⟨(c8 : Int), 0, 0, rel⟩).1
           = some (evBtnMods (buildMouseEvent cfg0 0 0 ((sgrButtons { buttondn := dn } (c8 : Int) rel).1 : Int))).1)
    ∧ ((buttons held ⟨(c8 : Int), 0, 0, rel⟩).2 = .unknown
       ∨ (buttons held ⟨(c8 : Int), 0, 0, rel⟩).2 = heldOf (sgrButtons { buttondn := dn } (c8 : Int) rel).2) :=
  stepOK c8 h dn rel held hh

theorem sgrButtons_congr (st st' : PState) (b b' : Int) (rel : Bool) (h1 : (b % 128).toNat = (b' % 128).toNat)
    (h2 : st.buttondn = st'.buttondn) : sgrButtons st b rel = sgrButtons st' b' rel := by
  unfold sgrButtons
  simp only [h1, h2]

theorem buttons_congr (held : Held) (r r' : Report) (h1 : bits r.code = bits r'.code) (h2 : r.release = r'.release) :
    buttons held r = buttons held r' := by
  unfold buttons
  simp only [h1, h2]

/-- core step: the event built from `sgrButtons` against `expect`, for any code, coordinates, release flag -/
theorem core_step_spec (cfg : Cfg) (hw : 1 ≤ cfg.w) (hh : 1 ≤ cfg.h) (st : PState) (b x y : Int) (rel : Bool)
    (held : Held) (hheld : held = .unknown ∨ held = heldOf st.buttondn) :
    Matches (buildMouseEvent cfg (x - 1) (y - 1) ((sgrButtons st b rel).1 : Int)) (expect cfg.w cfg.h held ⟨b, x, y, rel⟩).1
    ∧ ((expect cfg.w cfg.h held ⟨b, x, y, rel⟩).2 = .unknown
       ∨ (expect cfg.w cfg.h held ⟨b, x, y, rel⟩).2 = heldOf (sgrButtons st b rel).2) := by
  have hc8 : (b % 256).toNat < 256 := by omega
  have hk := stepOK' (b % 256).toNat hc8 st.buttondn rel held hheld
  have e1 : sgrButtons st b rel = sgrButtons { buttondn := st.buttondn } (((b % 256).toNat : Nat) : Int) rel :=
    sgrButtons_congr _ _ _ _ _ (by omega) rfl
  have e2 : buttons held ⟨b, x, y, rel⟩ = buttons held ⟨(((b % 256).toNat : Nat) : Int), 0, 0, rel⟩ :=
    buttons_congr _ _ _ (by simp only [bits]; omega) rfl
  have e3 : bits b = bits (((b % 256).toNat : Nat) : Int) := by simp only [bits]; omega
  rw [← e1, ← e2, ← e3] at hk
  obtain ⟨hm, hb, hh'⟩ := hk
  refine ⟨⟨(evBtnMods (buildMouseEvent cfg0 0 0 ((sgrButtons st b rel).1 : Int))).1, ?_, ?_⟩, ?_⟩
  · rw [buildMouseEvent_eq, clip1_spec _ _ hw, clip1_spec _ _ hh, hm]
    rfl
  · exact hb
  · exact hh'

/-- **SGR event = specification.**  Position: reported cell 0-based clipped into the screen; modifiers: Shift/Alt/Ctrl bits;
buttons: as ctlseqs + the property's held-button rule wherever the statement fixes them; the `buttondn` register
afterwards is the specification's held state (whenever the spec knows it). -/
theorem sgr_event_spec (cfg : Cfg) (hw : 1 ≤ cfg.w) (hh : 1 ≤ cfg.h) (st : PState) (b x y : Int) (fin : Nat)
    (held : Held) (hheld : held = .unknown ∨ held = heldOf st.buttondn) :
    Matches (sgrEvent cfg st b x y fin) (expect cfg.w cfg.h held ⟨b, x, y, fin = 109⟩).1
    ∧ ((expect cfg.w cfg.h held ⟨b, x, y, fin = 109⟩).2 = .unknown
       ∨ (expect cfg.w cfg.h held ⟨b, x, y, fin = 109⟩).2 = heldOf (sgrState st b fin).buttondn) :=
  core_step_spec cfg hw hh st b x y (fin = 109) held hheld

example : (sgrEvent exCfg {} 18 5 7 77) = .mouse 4 6 2 2 := by decide
example : (expect 80 24 .no ⟨18, 5, 7, false⟩).1 = ⟨4, 6, some 2, 2⟩ := by decide

/-! ### X11 -/

/-- **X11 decode (model closed form).**  For all bytes Cb Cx Cy and both introducers: exactly one event, nothing left. -/
theorem x11_decode (cfg : Cfg) (hc : MouseOK cfg) (hT : mouseClear cfg.keys = true) (st : PState)
    (intro : Bytes) (hi : IsIntro intro) (cb cx cy : Nat) (expire : Bool) :
    collect cfg st (renderX11 intro cb cx cy) expire
      = ⟨[(x11Out cfg st cb cx cy).1], (x11Out cfg st cb cx cy).2, [], false⟩ := by
  have h := collect_reports cfg hc hT expire [.x11 intro cb cx cy] (by intro r hr; simp at hr; subst hr; exact hi) st
  simpa [renderAll, outs, MRep.bytes, MRep.out] using h

/-- button of the event the PINNED tree builds for X11 button byte `cb` (offset not removed, no held register) -/
def x11PinnedBtn (cb : Nat) : Nat := (evBtnMods (buildMouseEvent cfg0 0 0 (cb : Int))).1

/-- the pinned X11 path contradicts the specification on report `cb` with held register `dn` -/
def X11Wrong (cb : Nat) (dn : Bool) : Prop :=
  ∃ k, (buttons (heldOf dn) (ofX11 cb 33 33)).1 = some k ∧ x11PinnedBtn cb ≠ k

instance (cb : Nat) (dn : Bool) : Decidable (X11Wrong cb dn) :=
  match h : (buttons (heldOf dn) (ofX11 cb 33 33)).1 with
  | none => isFalse (by intro ⟨k, hk, _⟩; rw [h] at hk; cases hk)
  | some k =>
    if hne : x11PinnedBtn cb ≠ k then isTrue ⟨k, h, hne⟩
    else isFalse (by intro ⟨k', hk, hk'⟩; rw [h] at hk; cases hk; exact hne hk')

set_option maxRecDepth 100000 in
/-- **Exactly which X11 reports the pinned tree decodes wrongly**: those whose code (Cb − 32) is a motion report
32..63 with the left or middle button (decoded as WheelUp / WheelDown) or with the right button while a button is held
(decoded as no button).  Every other code the statement fixes is decoded correctly, because bit 5 of the un-subtracted
byte is ignored by `btn & 0x43`.  -/
theorem x11_pinned_wrong_iff : ∀ cb, 32 ≤ cb → cb < 256 → ∀ dn : Bool,
    X11Wrong cb dn ↔ (64 ≤ cb ∧ cb < 96 ∧ (cb % 4 = 0 ∨ cb % 4 = 1 ∨ (cb % 4 = 2 ∧ dn = true))) := by
  have h : (List.range 256).all (fun cb => [true, false].all fun dn =>
      decide (32 ≤ cb → (X11Wrong cb dn ↔ (64 ≤ cb ∧ cb < 96 ∧ (cb % 4 = 0 ∨ cb % 4 = 1 ∨ (cb % 4 = 2 ∧ dn = true)))))) = true := by
    decide +kernel
  intro cb h1 h2 dn
  have a := List.all_eq_true.mp h cb (List.mem_range.mpr h2)
  have b := List.all_eq_true.mp a dn (by cases dn <;> simp)
  exact of_decide_eq_true b h1

/-- the witness of the finding: a left-button drag report `CSI M @ ! !` (code 32) decodes to WheelUp -/
theorem x11_motion_as_wheel_counterexample :
    (collect exCfg { buttondn := true } (renderX11 [27, 91] 64 33 33) false).evs = [.mouse 0 0 256 0] := by
  rw [x11_decode exCfg exCfg_ok exCfg_clear _ _ (Or.inl rfl)]
  decide

set_option maxRecDepth 100000 in
theorem x11_rel_eq (cb : Nat) :
    (decide ((((cb : Int) - 32) % 128).toNat % 4 = 3 ∧ (((cb : Int) - 32) % 128).toNat / 64 % 2 = 0
        ∧ (((cb : Int) - 32) % 128).toNat / 32 % 2 = 0))
      = (ofX11 cb 0 0).release := by
  have hc : (((cb : Int) - 32) % 256).toNat < 256 := by omega
  have e : (((cb : Int) - 32) % 128).toNat = (((cb : Int) - 32) % 256).toNat % 128 := by omega
  have h : ∀ c8, c8 < 256 → decide ((c8 % 128) % 4 = 3 ∧ (c8 % 128) / 64 % 2 = 0 ∧ (c8 % 128) / 32 % 2 = 0)
      = (c8 % 4 == 3 && !bit c8 5 && !bit c8 6) := by decide +kernel
  simp only [ofX11, bits, e]
  exact h _ hc

/-- **Repaired X11 path = specification** (variant `x11Fixed`, fixes/C12-x11-offset.patch): for every byte triple the
event matches the specification of the report `ofX11 cb cx cy` and the held register follows it. -/
theorem x11_fixed_event_spec (cfg : Cfg) (hfx : cfg.x11Fixed = true) (hw : 1 ≤ cfg.w) (hh : 1 ≤ cfg.h) (st : PState)
    (cb cx cy : Nat) (held : Held) (hheld : held = .unknown ∨ held = heldOf st.buttondn) :
    Matches (x11Out cfg st cb cx cy).1 (expect cfg.w cfg.h held (ofX11 cb cx cy)).1
    ∧ ((expect cfg.w cfg.h held (ofX11 cb cx cy)).2 = .unknown
       ∨ (expect cfg.w cfg.h held (ofX11 cb cx cy)).2 = heldOf (x11Out cfg st cb cx cy).2.buttondn) := by
  have hrel := x11_rel_eq cb
  have h := core_step_spec cfg hw hh st ((cb : Int) - 32) ((cx : Int) - 32) ((cy : Int) - 32) (ofX11 cb 0 0).release held hheld
  have e : ofX11 cb cx cy = ⟨(cb : Int) - 32, (cx : Int) - 32, (cy : Int) - 32, (ofX11 cb 0 0).release⟩ := rfl
  rw [e]
  simp only [x11Out, hfx, if_true]
  rw [hrel]
  exact h

/-! ### sequences of reports: the press / drag / release machine -/

/-- **Any sequence of reports** (SGR and X11 mixed, any introducers) decodes to exactly one event per report, in order,
with nothing left in the buffer — `outs` folds the per-report closed forms over the `buttondn` register. -/
theorem reports_decode (cfg : Cfg) (hc : MouseOK cfg) (hT : mouseClear cfg.keys = true) (expire : Bool)
    (rs : List MRep) (hv : ∀ r ∈ rs, r.Valid) (st : PState) :
    collect cfg st (renderAll rs) expire = ⟨(outs cfg st rs).1, (outs cfg st rs).2, [], false⟩ :=
  collect_reports cfg hc hT expire rs hv st

theorem outs_length (cfg : Cfg) : ∀ (rs : List MRep) (st : PState), (outs cfg st rs).1.length = rs.length := by
  intro rs
  induction rs with
  | nil => intro st; rfl
  | cons r rs ih => intro st; simp [outs, ih]

/-- the report a terminal meant -/
def toReport : MRep → Report
  | .sgr _ b x y fin => ⟨b, x, y, fin = 109⟩
  | .x11 _ cb cx cy => ofX11 cb cx cy

/-- the code path that handles the report satisfies the specification: SGR always, X11 in the repaired variant -/
def Covered (cfg : Cfg) : MRep → Prop
  | .sgr .. => True
  | .x11 .. => cfg.x11Fixed = true

theorem rep_step_spec (cfg : Cfg) (hw : 1 ≤ cfg.w) (hh : 1 ≤ cfg.h) (st : PState) (r : MRep) (hcv : Covered cfg r)
    (held : Held) (hheld : held = .unknown ∨ held = heldOf st.buttondn) :
    Matches (r.out cfg st).1 (expect cfg.w cfg.h held (toReport r)).1
    ∧ ((expect cfg.w cfg.h held (toReport r)).2 = .unknown
       ∨ (expect cfg.w cfg.h held (toReport r)).2 = heldOf (r.out cfg st).2.buttondn) := by
  cases r with
  | sgr intro b x y fin => exact sgr_event_spec cfg hw hh st b x y fin held hheld
  | x11 intro cb cx cy => exact x11_fixed_event_spec cfg hcv hw hh st cb cx cy held hheld

/-- pointwise `Matches` of two lists of equal length -/
inductive AllMatch : List Event → List Expect → Prop where
  | nil : AllMatch [] []
  | cons {ev ex evs exs} : Matches ev ex → AllMatch evs exs → AllMatch (ev :: evs) (ex :: exs)

/-- **The state machine over arbitrary report sequences.**  Running the specification (`Spec.XtermMouse.run`: press
starts held, release ends it, motion shows its button only while held, wheel leaves it alone) over the reports gives,
report by report, the position, modifiers and — wherever the statement fixes them — buttons of the model's events. -/
theorem reports_match_spec (cfg : Cfg) (hw : 1 ≤ cfg.w) (hh : 1 ≤ cfg.h) :
    ∀ (rs : List MRep), (∀ r ∈ rs, Covered cfg r) → ∀ (st : PState) (held : Held),
      (held = .unknown ∨ held = heldOf st.buttondn) →
      AllMatch (outs cfg st rs).1 (run cfg.w cfg.h held (rs.map toReport)) := by
  intro rs
  induction rs with
  | nil => intro _ st held _; exact AllMatch.nil
  | cons r rs ih =>
    intro hcv st held hheld
    have hs := rep_step_spec cfg hw hh st r (hcv r (by simp)) held hheld
    simp only [outs, List.map, run]
    exact AllMatch.cons hs.1 (ih (fun x hx => hcv x (by simp [hx])) _ _ hs.2)

example : (outs exCfg {} [.sgr [27, 91] 0 5 5 77, .sgr [0x9b] 32 6 5 77, .sgr [27, 91] 0 6 5 109, .sgr [27, 91] 35 7 5 77]).1
    = [.mouse 4 4 1 0, .mouse 5 4 1 0, .mouse 5 4 0 0, .mouse 6 4 0 0] := by decide

def buttonsOf (ev : Event) : Nat := (evBtnMods ev).1

theorem buttonsOf_sgrEvent (cfg : Cfg) (st : PState) (b x y : Int) (fin : Nat) :
    buttonsOf (sgrEvent cfg st b x y fin)
      = (evBtnMods (buildMouseEvent cfg0 0 0 ((sgrButtons st b (fin = 109)).1 : Int))).1 := rfl

theorem buttondn_sgrState (st : PState) (b : Int) (fin : Nat) :
    (sgrState st b fin).buttondn = (sgrButtons st b (fin = 109)).2 := rfl

/-- a release report carries no buttons and clears the register, whatever came before -/
theorem release_buttonless (cfg : Cfg) (st : PState) (b x y : Int) :
    buttonsOf (sgrEvent cfg st b x y 109) = 0 ∧ (sgrState st b 109).buttondn = false := by
  have e1 : sgrButtons st b true = sgrButtons { buttondn := st.buttondn } (((b % 256).toNat : Nat) : Int) true :=
    sgrButtons_congr _ _ _ _ _ (by omega) rfl
  have hall : ∀ c8 : Nat, c8 < 256 → ∀ dn : Bool,
      (evBtnMods (buildMouseEvent cfg0 0 0 ((sgrButtons { buttondn := dn } (c8 : Int) true).1 : Int))).1 = 0
      ∧ (sgrButtons { buttondn := dn } (c8 : Int) true).2 = false := by decide +kernel
  have := hall (b % 256).toNat (by omega) st.buttondn
  rw [buttonsOf_sgrEvent, buttondn_sgrState]
  simp only [decide_true, e1]
  exact this

/-- motion with no button held carries no buttons (and does not start a press) -/
theorem motion_without_press_buttonless (cfg : Cfg) (st : PState) (hst : st.buttondn = false) (b x y : Int)
    (hmotion : bit (bits b) 5 = true) :
    buttonsOf (sgrEvent cfg st b x y 77) = 0 ∧ (sgrState st b 77).buttondn = false := by
  have e1 : sgrButtons st b false = sgrButtons { buttondn := false } (((b % 256).toNat : Nat) : Int) false :=
    sgrButtons_congr _ _ _ _ _ (by omega) (by simp [hst])
  have hall : ∀ c8 : Nat, c8 < 256 → bit c8 5 = true →
      (evBtnMods (buildMouseEvent cfg0 0 0 ((sgrButtons { buttondn := false } (c8 : Int) false).1 : Int))).1 = 0
      ∧ (sgrButtons { buttondn := false } (c8 : Int) false).2 = false := by decide +kernel
  have := hall (b % 256).toNat (by omega) (by simpa [bits] using hmotion)
  rw [buttonsOf_sgrEvent, buttondn_sgrState]
  simp only [show ((77 : Nat) = 109) = False from by simp, decide_false, e1]
  exact this

/-- motion while a button is held keeps that button (codes 32..34 plus modifiers) and the register stays set -/
theorem drag_keeps_button (cfg : Cfg) (st : PState) (hst : st.buttondn = true) (b x y : Int)
    (hmotion : bit (bits b) 5 = true) (h6 : bit (bits b) 6 = false) :
    buttonsOf (sgrEvent cfg st b x y 77) = buttonOf (bits b % 4) ∧ (sgrState st b 77).buttondn = true := by
  have e1 : sgrButtons st b false = sgrButtons { buttondn := true } (((b % 256).toNat : Nat) : Int) false :=
    sgrButtons_congr _ _ _ _ _ (by omega) (by simp [hst])
  have hall : ∀ c8 : Nat, c8 < 256 → bit c8 5 = true → bit c8 6 = false →
      (evBtnMods (buildMouseEvent cfg0 0 0 ((sgrButtons { buttondn := true } (c8 : Int) false).1 : Int))).1 = buttonOf (c8 % 4)
      ∧ (sgrButtons { buttondn := true } (c8 : Int) false).2 = true := by decide +kernel
  have := hall (b % 256).toNat (by omega) (by simpa [bits] using hmotion) (by simpa [bits] using h6)
  rw [buttonsOf_sgrEvent, buttondn_sgrState]
  simp only [show ((77 : Nat) = 109) = False from by simp, decide_false, e1, bits]
  exact this

/-- a wheel-left / wheel-right report (xterm codes 66/67 with any modifier bits, in any press state) is never reported
as wheel-up, wheel-down or a primary/middle/secondary button: the event carries no button at all -/
theorem hwheel_not_a_button (cfg : Cfg) (st : PState) (b x y : Int) (hw : hwheel (bits b) = true) :
    buttonsOf (sgrEvent cfg st b x y 77) = 0 ∧ ∀ m ∈ forbidden (bits b), buttonsOf (sgrEvent cfg st b x y 77) ≠ m := by
  have hall : ∀ dn : Bool, ∀ c8 : Nat, c8 < 256 → hwheel c8 = true →
      (evBtnMods (buildMouseEvent cfg0 0 0 ((sgrButtons { buttondn := dn } (c8 : Int) false).1 : Int))).1 = 0 := by
    decide +kernel
  have e1 : sgrButtons st b false = sgrButtons { buttondn := st.buttondn } (((b % 256).toNat : Nat) : Int) false :=
    sgrButtons_congr _ _ _ _ _ (by omega) rfl
  have h0 : buttonsOf (sgrEvent cfg st b x y 77) = 0 := by
    have := hall st.buttondn (b % 256).toNat (by omega) (by simpa [bits] using hw)
    rw [buttonsOf_sgrEvent]
    simp only [show ((77 : Nat) = 109) = False from by simp, decide_false, e1]
    exact this
  refine ⟨h0, ?_⟩
  intro m hm
  rw [h0]
  simp only [forbidden, hw, if_true] at hm
  simp [button1, button2, button3, wheelUp, wheelDown] at hm
  omega

example : hwheel (bits 66) = true ∧ hwheel (bits (67 + 16)) = true ∧ hwheel (bits 64) = false ∧ hwheel (bits 2) = false := by decide
example : buttonsOf (sgrEvent exCfg {} 66 10 5 77) = 0 := by decide

theorem outs_append (cfg : Cfg) : ∀ (rs ss : List MRep) (st : PState),
    outs cfg st (rs ++ ss) = ((outs cfg st rs).1 ++ (outs cfg (outs cfg st rs).2 ss).1, (outs cfg (outs cfg st rs).2 ss).2) := by
  intro rs
  induction rs with
  | nil => intro ss st; simp [outs]
  | cons r rs ih => intro ss st; simp [outs, ih]

/-- **Every press is eventually followed by a buttonless event when a release arrives**: after any history of
reports (presses, drags, wheels, in any state), a release report yields a last event without buttons and leaves the
register clear, so the next motion is buttonless again. -/
theorem press_then_release_ends_buttonless (cfg : Cfg) (rs : List MRep) (st : PState) (intro : Bytes) (b x y : Int) :
    let o := outs cfg st (rs ++ [.sgr intro b x y 109])
    (o.1.getLast?.map buttonsOf = some 0) ∧ o.2.buttondn = false := by
  have hr := release_buttonless cfg (outs cfg st rs).2 b x y
  simp only [outs_append, outs, MRep.out]
  refine ⟨?_, hr.2⟩
  simp [hr.1]

end Tcell.Props.C12
