/-
C09 — the output stream is well-formed and cell content cannot inject control bytes.

Proved here:
* `payload_clean` — for EVERY rune value (all of `Int`: C0, DEL, C1, zero-width, format characters, surrogates,
  negative and > 0x10FFFF values included) the bytes written as primary cell content in a UTF-8 locale contain no
  C0 byte and no DEL, and never encode a C1 scalar; the rune shown is a blank whenever the library's width table
  says "zero width" or the rune is a C0 control.  The facts about the width table it rests on are re-checked by
  the kernel on the table regenerated from go-runewidth on every run (`table_*` theorems).
* `fixed_caps_accepted` — every non-parameterised capability string of every ECMA-48-family entry of the
  regenerated database that the draw / engage / disengage paths emit is accepted by the strict reference tokenizer
  (the Lean ECMA-48 emulator) without complaint, after padding removal — kernel evaluation over the database.
* `param_caps_accepted_samples` — the parameterised ones on a grid of parameter values; this is a kernel-evaluated
  *test*, not the unbounded claim (the unbounded claim for cursor addressing is `Tcell.Props.C01B.cup_accepted_all`; closed forms of the other expansions: `Tcell.LayerB.parm_*`).
What is validated rather than proved: that every byte stream the implementation writes is accepted by the strict
tokenizer (checked on every run for draw histories and the all-code-points sweep).
-/
import Tcell.Lemmas.DrawDefs
import Tcell.Props.C08
import Tcell.Base.Utf8
import Tcell.Gen.RuneWidth
import Tcell.Gen.TerminfoDB
import Tcell.Model.TPuts
import Tcell.Model.TParm
import Tcell.Spec.Ecma48
namespace Tcell.Props.C09
open Tcell

/-! ### the regenerated width table -/

/-- go-runewidth as the regenerated table: width of the first listed range containing `r`, 1 elsewhere -/
def rwTable (r : Int) : Int :=
  match Gen.rwRanges.find? (fun p => p.1 ≤ r ∧ r ≤ p.2.1) with
  | some p => p.2.2
  | none => 1

theorem rwTable_mem (r : Int) : rwTable r = 1 ∨ ∃ p ∈ Gen.rwRanges, rwTable r = p.2.2 := by
  unfold rwTable
  cases h : Gen.rwRanges.find? (fun p => p.1 ≤ r ∧ r ≤ p.2.1) with
  | none => left; rfl
  | some p => right; exact ⟨p, List.mem_of_find?_eq_some h, rfl⟩

/-- every listed width is 0 or 2 -/
theorem table_widths : Gen.rwRanges.all (fun p => p.2.2 = 0 ∨ p.2.2 = 2) = true := by decide +kernel

theorem table_zero : rwTable 0 = 0 := by decide +kernel
theorem table_space : rwTable 32 = 1 := by decide +kernel

/-- the width table satisfies what the draw-path theorems (C01, C13) assume of the rune-width function -/
theorem table_rwOk : RwOk rwTable := by
  have hw : ∀ p ∈ Gen.rwRanges, p.2.2 = 0 ∨ p.2.2 = 2 := by
    have := table_widths; simpa [List.all_eq_true] using this
  refine { zero := table_zero, space := table_space, nonneg := ?_, le2 := ?_ }
  · intro r; rcases rwTable_mem r with h | ⟨p, hp, h⟩
    · omega
    · rcases hw p hp with h' | h' <;> omega
  · intro r; rcases rwTable_mem r with h | ⟨p, hp, h⟩
    · omega
    · rcases hw p hp with h' | h' <;> omega

/-- DEL and every C1 scalar have width 0 in the table (so they are shown as blanks) -/
theorem table_del_c1 : ∀ k : Fin 33, rwTable (127 + (k.val : Int)) = 0 := by decide +kernel

theorem table_del_c1' (r : Int) (h1 : 127 ≤ r) (h2 : r ≤ 159) : rwTable r = 0 := by
  have := table_del_c1 ⟨(r - 127).toNat, by omega⟩
  have e : 127 + (((r - 127).toNat : Nat) : Int) = r := by omega
  simp only [e] at this; exact this

/-- C0 controls have width 0 as well (they are blanked by `r < ' '` anyway) -/
theorem table_c0 : ∀ k : Fin 32, rwTable (k.val : Int) = 0 := by decide +kernel

/-- zero-width and bidi / format characters that ARE zero width in the table (hence shown as blanks):
soft hyphen, ZWSP, ZWNJ, ZWJ, LRM, RLM, LRE, RLE, PDF, LRO, RLO, BOM, Mongolian vowel separator, interlinear annotation.
WHY STILL PARTIAL on the current tree: the full statement — every format / default-ignorable character the property names has
width 0 and is therefore written as a blank — is FALSE for the regenerated table: `format_chars_not_blank` below proves width 1
for the bidi isolates U+2066–2069, U+061C, U+2060–2064 and the tag characters.  The table is go-runewidth v0.0.16's (the
dependency pinned by go.mod), not tcell's own code, so no `fix:` commit in /repo changed it; the open finding
`C09-format-width1` is reproduced on every run by engine `drawcp` (all code points through the strict tokenizer). -/
theorem table_format_chars_partial :
    ([0xAD, 0x200B, 0x200C, 0x200D, 0x200E, 0x200F, 0x202A, 0x202B, 0x202C, 0x202D, 0x202E, 0xFEFF, 0x180E, 0xFFF9,
      0xFFFA, 0xFFFB, 0x206A, 0x206F] : List Int).all (fun r => rwTable r = 0) = true := by
  decide +kernel

/-- …and the ones that are NOT: the pinned go-runewidth gives width 1 to the bidi isolates U+2066–2069, the Arabic
letter mark U+061C, the invisible operators U+2060–2064 and the tag characters, so a cell holding one of them as its
primary rune is written to the terminal as that character, not as a blank (finding `C09-format-width1`) -/
theorem format_chars_not_blank :
    ([0x2066, 0x2067, 0x2068, 0x2069, 0x061C, 0x2060, 0x2064, 0xE0001, 0xE0020] : List Int).all
      (fun r => rwTable r = 1 ∧ obsMain rwTable r = r) = true := by
  decide +kernel

/-- invalid code points: the first and last listed ranges cover everything below 0 and above 0x10FFFF, with
width 0, and the surrogates are zero width too -/
theorem table_invalid_ends :
    Gen.rwRanges.head? = some (-2147483648, -1, 0) ∧ Gen.rwRanges.getLast? = some (1114112, 2147483647, 0) ∧
    (Gen.rwRanges.dropLast.all (fun p => p.2.1 < 1114112)) = true ∧
    ([0xD800, 0xDBFF, 0xDC00, 0xDFFF] : List Int).all (fun r => rwTable r = 0) = true := by decide +kernel

theorem table_negative (r : Int) (h1 : -2147483648 ≤ r) (h2 : r < 0) : rwTable r = 0 := by
  have hh := table_invalid_ends.1
  unfold rwTable
  cases hl : Gen.rwRanges with
  | nil => rw [hl] at hh; simp at hh
  | cons p ps =>
    rw [hl] at hh; simp only [List.head?_cons, Option.some.injEq] at hh
    subst hh
    simp only [List.find?_cons]
    have : (decide ((-2147483648 : Int) ≤ r ∧ r ≤ -1)) = true := by simp; omega
    simp [this]

/-! ### the payload of a cell -/

/-- bytes of the UTF-8 encoding of a rune that is not a C0 control, DEL or a C1 scalar: no C0 byte, no DEL -/
theorem encode_clean (m : Int) (h32 : 32 ≤ m) (hnc : ¬ (127 ≤ m ∧ m ≤ 159)) :
    ∀ b ∈ Utf8.encode m, 32 ≤ b ∧ b ≠ 127 ∧ b < 256 := by
  intro b hb
  unfold Utf8.encode at hb
  split at hb
  · rename_i hv
    simp only [Utf8.validRune, Bool.and_eq_true, decide_eq_true_eq, Bool.not_eq_true'] at hv
    have hm : m = ((m.toNat : Nat) : Int) := by omega
    generalize m.toNat = n at hb hm
    subst hm
    unfold Utf8.encodeNat at hb
    split at hb
    · simp only [List.mem_singleton] at hb; subst hb; omega
    · split at hb
      · simp only [List.mem_cons, List.mem_singleton, List.not_mem_nil, or_false] at hb
        rcases hb with h | h <;> subst h <;> omega
      · split at hb
        · simp only [List.mem_cons, List.mem_singleton, List.not_mem_nil, or_false] at hb
          rcases hb with h | h | h <;> subst h <;> omega
        · simp only [List.mem_cons, List.mem_singleton, List.not_mem_nil, or_false] at hb
          rcases hb with h | h | h | h <;> subst h <;> omega
  · simp only [List.mem_cons, List.mem_singleton, List.not_mem_nil, or_false] at hb
    rcases hb with h | h | h <;> subst h <;> omega

/-- **No rune can inject a control.**  For every rune value `r` whatsoever, with `m` the rune GetContent hands
to the draw path for it (`obsMain`): `m` is a blank whenever `r` is zero-width or a C0 control; `m` is never a C0
control, DEL or a C1 scalar; and the UTF-8 bytes written for it contain no byte below 0x20 and no 0x7F. -/
theorem payload_clean (r : Int) :
    let m := obsMain rwTable r
    ((rwTable r = 0 ∨ r < 32) → m = 32) ∧ 32 ≤ m ∧ ¬ (127 ≤ m ∧ m ≤ 159) ∧
    (∀ b ∈ Utf8.encode m, 32 ≤ b ∧ b ≠ 127 ∧ b < 256) := by
  intro m
  by_cases h : rwTable r = 0 ∨ r < 32
  · have hm : m = 32 := by show obsMain rwTable r = 32; unfold obsMain; rw [if_pos h]
    refine ⟨fun _ => hm, by rw [hm]; decide, by rw [hm]; decide, ?_⟩
    rw [hm]; exact encode_clean 32 (by decide) (by decide)
  · have hm : m = r := by show obsMain rwTable r = r; unfold obsMain; rw [if_neg h]
    have h32 : 32 ≤ r := by omega
    have hw : rwTable r ≠ 0 := by omega
    have hc : ¬ (127 ≤ r ∧ r ≤ 159) := fun hc => hw (table_del_c1' r hc.1 hc.2)
    refine ⟨fun h' => absurd h' h, by rw [hm]; exact h32, by rw [hm]; exact hc, ?_⟩
    rw [hm]; exact encode_clean r h32 hc

/-- the same with combining runes restricted as the property restricts them (zero-width, not controls): the whole
cell payload is free of C0 bytes and DEL -/
theorem payload_clean_comb (r : Int) (comb : List Int)
    (hc : ∀ c ∈ comb, 32 ≤ c ∧ ¬ (127 ≤ c ∧ c ≤ 159)) :
    ∀ b ∈ Utf8.encode (obsMain rwTable r) ++ comb.flatMap Utf8.encode, 32 ≤ b ∧ b ≠ 127 ∧ b < 256 := by
  intro b hb
  rcases List.mem_append.1 hb with h | h
  · exact (payload_clean r).2.2.2 b h
  · obtain ⟨c, hcm, hbc⟩ := List.mem_flatMap.1 h
    exact encode_clean c (hc c hcm).1 (hc c hcm).2 b hbc

example : obsMain rwTable 0x1b = 32 ∧ obsMain rwTable 0x9b = 32 ∧ obsMain rwTable 0x202e = 32 ∧ obsMain rwTable (-5) = 32 ∧
    obsMain rwTable 0x41 = 0x41 ∧ obsMain rwTable 0x4e16 = 0x4e16 := by decide +kernel

/-! ### cells written by Fill

`payload_clean` is about `obsMain`, the substitution GetContent performs on a cell whose stored width is that of its rune
(cells written by SetContent, `Tcell.Props.C08.get_set`).  Fill chooses the width itself (cell.go:244). -/

/-- **Pinned tree: Fill lets a C1 control through.**  After `Fill(0x9B, StyleDefault)` on a 1×1 buffer GetContent hands
the draw path U+009B itself (width 1) although the width table says "zero width", and its UTF-8 encoding C2 9B is the
C1 control CSI (in an ISO 8859 locale: the single byte 9B).  Finding `C09-fill-control`; same for DEL, every C1
control and every zero-width / format / invalid rune at or above ' ' (`Tcell.Props.C08.get_fill_pinned`). -/
theorem fill_c1_not_blank :
    ((Buf.empty.resize 1 1).fill 0x9b {}).getContent 0 0 = (0x9b, [], {}, 1) ∧ rwTable 0x9b = 0 ∧
    Utf8.encode 0x9b = [0xc2, 0x9b] := by decide +kernel

/-- **Repaired tree (fixes/C09-fill-zero-width.patch): no rune supplied through Fill can inject a control.**  For every
buffer, every in-range cell and EVERY rune value `r`, the rune GetContent hands to the draw path after `Fill(r, s)` is
`obsMain rwTable r` — the same substitution as after SetContent — hence a blank whenever `r` is zero-width or a C0
control, never a C0 control, DEL or a C1 scalar, and its UTF-8 bytes contain no byte below 0x20 and no 0x7F. -/
theorem payload_clean_fill (b : Buf) (r : Int) (s : Style) (x y : Int) (hr : b.inRange x y) :
    let m := ((b.fillV true rwTable r s).getContent x y).1
    m = obsMain rwTable r ∧ ((rwTable r = 0 ∨ r < 32) → m = 32) ∧ 32 ≤ m ∧ ¬ (127 ≤ m ∧ m ≤ 159) ∧
    (∀ b ∈ Utf8.encode m, 32 ≤ b ∧ b ≠ 127 ∧ b < 256) := by
  intro m
  have hm : m = obsMain rwTable r := by
    show ((b.fillV true rwTable r s).getContent x y).1 = obsMain rwTable r
    rw [Tcell.Props.C08.get_fill_repaired rwTable b r s x y hr]; rfl
  rw [hm]
  exact ⟨rfl, payload_clean r⟩

/-- the repaired Fill on the concrete instance of `fill_c1_not_blank`, and on DEL, ZWSP, RLO, a surrogate and an
out-of-range value: blanks -/
example : ([0x9b, 0x7f, 0x200b, 0x202e, 0xd800, 0x110000, -1] : List Int).all (fun r =>
    ((Buf.empty.resize 1 1).fillV true rwTable r {}).getContent 0 0 = (32, [], {}, 1)) = true := by decide +kernel
example : ((Buf.empty.resize 1 1).fillV true rwTable 0x41 {}).getContent 0 0 = (0x41, [], {}, 1) := by decide +kernel

/-! ### capability strings and the strict tokenizer -/

open Tcell.Spec.Ecma48

def isEcma (e : Terminfo) : Bool := match e.setCursor with | 27 :: 91 :: _ => true | _ => false

/-- what reaches the terminal for a capability string: padding specifications removed (TPuts) -/
def emitted (s : Bytes) : Bytes := (TPuts.tputs [] s).bytes

/-- the strict tokenizer accepts the byte string: no complaint, not even at end of stream -/
def accepts (ff : Bool) (s : Bytes) : Bool :=
  (((Term.init { w := 4, h := 2, ffClears := ff }).feed s).finish).malformed.isEmpty

/-- the non-parameterised capabilities the draw, engage and disengage paths write -/
def fixedCaps (e : Terminfo) : List Bytes :=
  [e.clear, e.enterCA, e.exitCA, e.showCursor, e.hideCursor, e.attrOff, e.underline, e.bold, e.blink, e.reverse, e.dim,
   e.italic, e.enterKeypad, e.exitKeypad, e.resetFgBg, e.enterAcs, e.exitAcs, e.enableAcs, e.strikeThrough,
   e.insertChar, e.disableAutoMargin, e.enableAutoMargin, e.enablePaste, e.disablePaste, e.enableFocusReporting,
   e.disableFocusReporting, e.doubleUnderline, e.curlyUnderline, e.dottedUnderline, e.dashedUnderline,
   e.underlineColorReset, e.cursorDefault, e.cursorBlinkingBlock, e.cursorSteadyBlock, e.cursorBlinkingUnderline,
   e.cursorSteadyUnderline, e.cursorBlinkingBar, e.cursorSteadyBar, e.cursorColorReset, e.exitUrl]

set_option maxRecDepth 100000 in
/-- every fixed capability string of every ECMA-family entry is a complete, well-formed control string -/
theorem fixed_caps_accepted :
    (Gen.db.filter isEcma).all (fun e => (fixedCaps e).all (fun s => accepts (e.clear == [12]) (emitted s))) = true := by
  decide +kernel

def iv (l : List Int) : List TParm.Value := l.map TParm.Value.int

/-- parameterised capabilities expanded on a grid of values (positions, palette indices below the entry's colour
count — the only ones the library passes — and RGB components) -/
def paramSamples (e : Terminfo) : List Bytes :=
  let p (prog : Bytes) (ps : List Int) : Bytes := if prog.isEmpty then [] else (TParm.tparm prog (iv ps) TParm.noVars).1
  ([(0, 0), (0, 9), (9, 0), (23, 79), (99, 99), (999, 1023)].map fun rc => p e.setCursor [rc.1, rc.2]) ++
  (([0, 1, 7, 8, 9, 15, 16, 87, 255].filter (· < e.colors)).flatMap fun c =>
    [p e.setFg [c], p e.setBg [c], p e.setFgBg [c, c], p e.setFgBg [c, 0], p e.underlineColor [c]]) ++
  ([(0, 0, 0), (1, 2, 3), (255, 128, 0), (255, 255, 255)].flatMap fun c =>
    [p e.setFgRGB [c.1, c.2.1, c.2.2], p e.setBgRGB [c.1, c.2.1, c.2.2], p e.setFgBgRGB [c.1, c.2.1, c.2.2, c.2.2, c.2.1, c.1],
     p e.underlineColorRGB [c.1, c.2.1, c.2.2]])

set_option maxRecDepth 100000 in
/-- kernel-evaluated TEST (a sample, not the unbounded claim): parameterised capability strings of every
ECMA-family entry, expanded by the TParm model on a grid of parameter values, are well-formed -/
theorem param_caps_accepted_samples :
    (Gen.db.filter isEcma).all (fun e => (paramSamples e).all (fun s => accepts (e.clear == [12]) (emitted s))) = true := by
  decide +kernel

end Tcell.Props.C09
