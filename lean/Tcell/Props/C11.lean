import Tcell.Lemmas.TextUtf8
import Tcell.Lemmas.TextMarkers
import Tcell.Lemmas.TextMulti
import Tcell.Gen.Keys
/-
C11 — "Typed and pasted text is delivered rune for rune, in order."

Model: `Tcell.Model.Parser` (tscreen.go:1295-1812, tied to the code by the engines `parse`, `parsechunk`, `text`) with the
read loop `feedAll` (`mainLoop`, tscreen.go:1890: every read is appended to what the previous scan left buffered and
`collectEventsFromInput(buf, false)` runs).  All theorems quantify over EVERY partition of the byte stream into reads
(`chunks : List Bytes` with `chunks.flatten = stream`, empty reads allowed), every text, every parser state that has no
pending ESC (`st.escaped = false`; with a pending ESC the next rune legitimately gets `ModAlt`), and every configuration
(key table, mouse on/off, OSC 52 on/off, screen size) whose key table satisfies the decidable conditions named in the
hypotheses; those are discharged for the table the real constructor builds for every database entry by kernel
evaluation over `Tcell.Gen.dbTables` (`db_*` theorems).  No timer expiry happens between the reads (expiry is a
different input: `Feed(…, true)`, covered by C02).

  * `stream_delivery`  – master theorem: any sequence of characters, paste markers and focus reports
  * `utf8_text`        – UTF-8, decoder model `decUtf8` proved to obey the laws (`Lemmas/TextUtf8`)
  * `codec_text`       – any decoder obeying `CodecLaws`; `table_text` – single-byte charsets (`decTable`)
  * `multibyte_text_repaired` – multi-byte legacy charsets with the repaired call (`atEOF = false`)
  * `multibyte_law_fails_pinned`, `gbk_ni_lost_pinned` – the pinned call (`atEOF = true`) breaks the law `short` for every
    multi-byte character; concrete loss: GBK `C4 E3` ("你") produces no event at all
  * `paste_bracket`, `focus_reports`

Why no other parser interferes (Lemmas/TextParse.lean): `parseRune` runs first and completes on a whole character; on a
non-empty proper prefix of a character (≤ 3 bytes, first byte ≥ 0x80) it answers "partial", `parseFunctionKey` finds no
match because no table sequence starts with an 8-bit byte (`keysAscii`), `parseFocus` and `parseClipboard` reject, and the
two mouse parsers — which do accept the 8-bit CSI 0x9B as introducer, a byte that is a lead byte in GBK/Big5/Shift_JIS
and a continuation byte in UTF-8 — cannot complete on fewer than five bytes (`x11Body_short`, `sgrRun_short`): the scan
waits, and when the rest of the character arrives `parseRune` wins.
-/
namespace Tcell.Props.C11
open Tcell Tcell.Model Tcell.Lemmas.Text

/-! ### codec laws -/

/-- The laws a charset decoder must obey for `parseRune` to deliver text (per character: `CodecChar`, see
`Lemmas/TextParse.lean`): for every character `c` of the domain, with encoding `enc c`:
`high` the encoding starts with a byte ≥ 0x80; `bounded` it has at most 4 bytes; `full` the decoder given exactly the
encoding yields `c` and consumes all of it; `short` on every non-empty proper prefix it yields nothing (`ErrShortSrc` or
no output); `printable` `c` is not a C0 control, DEL or U+FFFD.  Each law is what the proof of `codec_text` forced; the
engine `text` checks each of them exhaustively against the real decoders (classes `codec-law-<law>`). -/
def CodecLaws (dec : Bytes → DecResult) (enc : Int → Bytes) (dom : Int → Prop) : Prop :=
  ∀ c, dom c → CodecChar dec (enc c, c)

theorem flatMap_ext {α β : Type} (f g : α → List β) : ∀ (l : List α), (∀ a ∈ l, f a = g a) → l.flatMap f = l.flatMap g
  | [], _ => rfl
  | a :: l, h => by
    rw [List.flatMap_cons, List.flatMap_cons, h a (by simp), flatMap_ext f g l (fun b hb => h b (by simp [hb]))]

/-! ### master theorem -/

/-- one item the terminal sends -/
inductive Item where
  | char (e : Bytes × Int)     -- a character: (its encoding, its rune)
  | pasteStart | pasteEnd      -- `ESC [ 2 0 0 ~`, `ESC [ 2 0 1 ~`
  | focusIn | focusOut         -- `ESC [ I`, `ESC [ O`

def Item.tok : Item → Tok
  | .char e => charTok e
  | .pasteStart => ⟨pasteStartSeq, .paste true⟩
  | .pasteEnd => ⟨pasteEndSeq, .paste false⟩
  | .focusIn => ⟨focusInSeq, .focus true⟩
  | .focusOut => ⟨focusOutSeq, .focus false⟩

def Item.bytes (i : Item) : Bytes := i.tok.bytes
def Item.event (i : Item) : Event := i.tok.ev

/-- what the item needs from the configuration -/
def ItemOk (cfg : Cfg) : Item → Prop
  | .char e => TextChar cfg.dec e
  | .pasteStart => pasteKeys cfg.keys = true
  | .pasteEnd => pasteKeys cfg.keys = true
  | .focusIn => focusClear cfg.keys = true
  | .focusOut => focusClear cfg.keys = true

theorem item_good (cfg : Cfg) (hk : keysAscii cfg.keys = true) (st : PState) (hs : st.escaped = false) (i : Item)
    (h : ItemOk cfg i) : GoodTok cfg st i.tok := by
  cases i with
  | char e => exact charTok_good cfg hk st hs e h
  | pasteStart => exact pasteStart_good cfg h st hs
  | pasteEnd => exact pasteEnd_good cfg h st hs
  | focusIn =>
    have hc : (comparable cfg.keys [27, 91, 73]).isEmpty = true := by
      have := h; unfold ItemOk focusClear at this; rw [Bool.and_eq_true] at this; exact this.1
    simpa [Item.tok, focusInSeq] using focus_good cfg st 73 (Or.inl rfl) hc
  | focusOut =>
    have hc : (comparable cfg.keys [27, 91, 79]).isEmpty = true := by
      have := h; unfold ItemOk focusClear at this; rw [Bool.and_eq_true] at this; exact this.2
    simpa [Item.tok, focusOutSeq] using focus_good cfg st 79 (Or.inr rfl) hc

/-- **Master theorem.**  Whatever sequence of characters, paste markers and focus reports the terminal sends, and however
the bytes are split across reads, the parser delivers exactly one event per item, in order, nothing is left buffered
after the last read, the parser state is unchanged and no order-dependent key match occurs. -/
theorem stream_delivery (cfg : Cfg) (hk : keysAscii cfg.keys = true) (st : PState) (hs : st.escaped = false)
    (items : List Item) (hok : ∀ i ∈ items, ItemOk cfg i)
    (chunks : List Bytes) (hc : chunks.flatten = items.flatMap Item.bytes) :
    feedAll cfg st [] chunks = ⟨items.map Item.event, st, [], false⟩ := by
  have h := feedAll_tokens cfg st chunks (items.map Item.tok)
    (by intro k hk'; obtain ⟨i, hi, rfl⟩ := List.mem_map.mp hk'; exact item_good cfg hk st hs i (hok i hi))
    [] (Or.inl rfl) (by rw [List.nil_append, hc]; simp only [tokBytes, List.flatMap_map]; rfl)
  rw [List.map_map] at h
  exact h

/-! ### text -/

/-- `feedAll` on a text given as (encoding, rune) pairs -/
theorem chars_text (cfg : Cfg) (hk : keysAscii cfg.keys = true) (st : PState) (hs : st.escaped = false)
    (cs : List (Bytes × Int)) (hcs : ∀ e ∈ cs, TextChar cfg.dec e)
    (chunks : List Bytes) (hc : chunks.flatten = cs.flatMap (·.1)) :
    feedAll cfg st [] chunks = ⟨cs.map (fun e => runeEvent e.2), st, [], false⟩ := by
  have := stream_delivery cfg hk st hs (cs.map Item.char)
    (by intro i hi; obtain ⟨e, he, rfl⟩ := List.mem_map.mp hi; exact hcs e he) chunks
    (by simp [hc, List.flatMap_map, Item.bytes, Item.tok, charTok])
  simpa [List.map_map, Item.event, Item.tok, charTok, Function.comp_def] using this

/-- **Generic text theorem.**  For any decoder obeying `CodecLaws` for the characters `dom` with encoding `enc`: every
text made of printable ASCII and characters of `dom`, under every partition of its encoding into reads, is delivered
as exactly one `KeyRune` event per character, in order, with nothing left buffered. -/
theorem codec_text (cfg : Cfg) (enc : Int → Bytes) (dom : Int → Prop) (hlaws : CodecLaws cfg.dec enc dom)
    (hk : keysAscii cfg.keys = true) (st : PState) (hs : st.escaped = false)
    (runes : List Int) (hr : ∀ r ∈ runes, (32 ≤ r ∧ r ≤ 126) ∨ dom r)
    (chunks : List Bytes) (hc : chunks.flatten = encText enc runes) :
    feedAll cfg st [] chunks = ⟨runes.map runeEvent, st, [], false⟩ := by
  have := chars_text cfg hk st hs (runes.map (fun r => (encChar enc r, r)))
    (by
      intro e he
      obtain ⟨r, hr', rfl⟩ := List.mem_map.mp he
      by_cases ha : 32 ≤ r ∧ r ≤ 126
      · left
        refine ⟨r.toNat, by omega, by omega, ?_⟩
        simp only [encChar, ha, and_self, if_true]
        have : ((r.toNat : Nat) : Int) = r := by omega
        rw [this]
      · right
        rcases hr r hr' with h | h
        · exact absurd h ha
        · simp only [encChar, ha, if_false]; exact hlaws r h)
    chunks (by simp [hc, encText, List.flatMap_map])
  simpa [List.map_map, Function.comp_def] using this

/-- the UTF-8 decoder model obeys the codec laws on every scalar value ≥ U+0080 except U+FFFD -/
theorem utf8_laws : CodecLaws decUtf8 Utf8.encode
    (fun r => 128 ≤ r ∧ r ≤ 0x10FFFF ∧ ¬ (0xD800 ≤ r ∧ r ≤ 0xDFFF) ∧ r ≠ 0xFFFD) :=
  fun r h => utf8_codecChar r h.1 h.2.1 h.2.2.1 h.2.2.2

theorem encChar_utf8 (r : Int) (h : 32 ≤ r ∧ r ≤ 126) : Utf8.encode r = [r.toNat] := by
  rw [encode_eq r (by omega) (by omega) (by omega)]
  have : r.toNat < 0x80 := by omega
  simp [Utf8.encodeNat, this]

/-- **UTF-8.**  For every list of runes of the domain `Utf8TextRune` (all Unicode scalar values, 1–4 bytes, except the
C0 controls and DEL, which are keys, and U+FFFD, which `parseRune` drops) and EVERY partition of their UTF-8 encoding
(`utf8.EncodeRune`) into reads — including splits inside a multi-byte character — the parser of a UTF-8 screen delivers
exactly `KeyRune r` for each rune, in order, and nothing stays buffered.  No bound on lengths. -/
theorem utf8_text (cfg : Cfg) (hdec : cfg.dec = decUtf8) (hk : keysAscii cfg.keys = true) (st : PState)
    (hs : st.escaped = false) (runes : List Int) (hr : ∀ r ∈ runes, Utf8TextRune r)
    (chunks : List Bytes) (hc : chunks.flatten = runes.flatMap Utf8.encode) :
    feedAll cfg st [] chunks = ⟨runes.map runeEvent, st, [], false⟩ := by
  apply codec_text cfg Utf8.encode _ (hdec ▸ utf8_laws) hk st hs runes
  · intro r hr'
    obtain ⟨h1, h2, h3, h4, h5⟩ := hr r hr'
    by_cases ha : r ≤ 126
    · exact Or.inl ⟨h1, ha⟩
    · exact Or.inr ⟨by omega, h3, h4, h5⟩
  · rw [hc]
    unfold encText
    apply flatMap_ext
    intro r _
    by_cases ha : 32 ≤ r ∧ r ≤ 126
    · simp [encChar, ha, encChar_utf8 r ha]
    · simp [encChar, ha]

/-- rune of byte `b` in the single-byte charset whose high half is `tbl` -/
def tblRune (tbl : List Int) (b : Nat) : Int := if b < 128 then (b : Int) else tbl.getD (b - 128) runeError

/-- bytes a single-byte-charset terminal sends for text: printable ASCII, or a high byte the charset maps to a rune
that is not a control character (unmapped bytes decode to U+FFFD and are out of domain) -/
def TblByte (tbl : List Int) (b : Nat) : Prop :=
  (32 ≤ b ∧ b ≤ 126) ∨ (128 ≤ b ∧ 32 ≤ tblRune tbl b ∧ tblRune tbl b ≠ 127 ∧ tblRune tbl b ≠ runeError)

instance (tbl : List Int) (b : Nat) : Decidable (TblByte tbl b) := by unfold TblByte; exact inferInstance

/-- **Single-byte charsets** (ISO 8859-x, KOI8-x, …): every byte string of the domain, under every partition, is
delivered byte for byte as the runes the charset assigns. -/
theorem table_text (cfg : Cfg) (tbl : List Int) (hdec : cfg.dec = decTable tbl) (hk : keysAscii cfg.keys = true)
    (st : PState) (hs : st.escaped = false) (bs : List Nat) (hb : ∀ b ∈ bs, TblByte tbl b)
    (chunks : List Bytes) (hc : chunks.flatten = bs) :
    feedAll cfg st [] chunks = ⟨bs.map (fun b => runeEvent (tblRune tbl b)), st, [], false⟩ := by
  have := chars_text cfg hk st hs (bs.map (fun b => ([b], tblRune tbl b)))
    (by
      intro e he
      obtain ⟨b, hb', rfl⟩ := List.mem_map.mp he
      rcases hb b hb' with ⟨h1, h2⟩ | ⟨h1, h2⟩
      · left
        have : b < 128 := by omega
        exact ⟨b, h1, h2, by simp [tblRune, this]⟩
      · right
        have hn : ¬ b < 128 := by omega
        simp only [tblRune, hn, if_false] at h2 ⊢
        rw [hdec]
        exact decTable_codecChar tbl b h1 h2)
    chunks (by simp [hc, List.flatMap_map])
  simpa [List.map_map, Function.comp_def] using this

/-- **Multi-byte legacy charsets, repaired call.**  With `Transform(…, atEOF = false)` (fixes/C11-parserune-ateof.patch)
every text over a well-formed prefix-free table is delivered rune for rune under every partition. -/
theorem multibyte_text_repaired (cfg : Cfg) (T : MbTable) (hdec : cfg.dec = decMulti false T) (hok : mbOk T = true)
    (hpf : MbPrefixFree T) (hk : keysAscii cfg.keys = true) (st : PState) (hs : st.escaped = false)
    (cs : List (Bytes × Int)) (hcs : ∀ e ∈ cs, e ∈ T ∨ ∃ n : Nat, 32 ≤ n ∧ n ≤ 126 ∧ e = ([n], (n : Int)))
    (chunks : List Bytes) (hc : chunks.flatten = cs.flatMap (·.1)) :
    feedAll cfg st [] chunks = ⟨cs.map (fun e => runeEvent e.2), st, [], false⟩ := by
  apply chars_text cfg hk st hs cs _ chunks hc
  intro e he
  rcases hcs e he with h | h
  · right; rw [hdec]; exact decMulti_codecChar T hok hpf e h
  · left; exact h

/-- **Pinned tree: the law `short` fails for every multi-byte character.**  `parseRune` passes `atEOF = true`
(tscreen.go:1721); given only the lead byte the decoder then reports U+FFFD with one byte consumed instead of
`ErrShortSrc`, so `CodecLaws` cannot hold for any character of two or more bytes. -/
theorem multibyte_law_fails_pinned (T : MbTable) (hok : mbOk T = true) (hpf : MbPrefixFree T) (e : Bytes × Int)
    (he : e ∈ T) (h2 : 2 ≤ e.1.length) : ¬ CodecChar (decMulti true T) e := by
  intro h
  have := decMulti_atEOF_lead T hok hpf e he h2
  rcases h.short 1 (by omega) (by omega) with h' | h' <;> rw [this] at h' <;> cases h'

/-! ### paste and focus -/

/-- **Bracketed paste.**  With the paste keys registered (`pasteKeys`, true for every database entry for which
`prepareBracketedPaste` enables paste: `db_paste_keys`), `ESC[200~ text ESC[201~` under every partition yields exactly
one paste-start event, the text rune for rune, and exactly one paste-end event. -/
theorem paste_bracket (cfg : Cfg) (enc : Int → Bytes) (dom : Int → Prop) (hlaws : CodecLaws cfg.dec enc dom)
    (hk : keysAscii cfg.keys = true) (hp : pasteKeys cfg.keys = true) (st : PState) (hs : st.escaped = false)
    (runes : List Int) (hr : ∀ r ∈ runes, (32 ≤ r ∧ r ≤ 126) ∨ dom r)
    (chunks : List Bytes) (hc : chunks.flatten = pasteStartSeq ++ encText enc runes ++ pasteEndSeq) :
    feedAll cfg st [] chunks = ⟨[.paste true] ++ runes.map runeEvent ++ [.paste false], st, [], false⟩ := by
  have := stream_delivery cfg hk st hs
    ([Item.pasteStart] ++ runes.map (fun r => Item.char (encChar enc r, r)) ++ [Item.pasteEnd])
    (by
      intro i hi
      simp only [List.mem_append, List.mem_singleton, List.mem_map] at hi
      rcases hi with (rfl | ⟨r, hr', rfl⟩) | rfl
      · exact hp
      · by_cases ha : 32 ≤ r ∧ r ≤ 126
        · left
          refine ⟨r.toNat, by omega, by omega, ?_⟩
          simp only [encChar, ha, and_self, if_true]
          have : ((r.toNat : Nat) : Int) = r := by omega
          rw [this]
        · right
          rcases hr r hr' with h | h
          · exact absurd h ha
          · simp only [encChar, ha, if_false]; exact hlaws r h
      · exact hp)
    chunks
    (by simp [hc, encText, List.flatMap_map, Item.bytes, Item.tok, charTok, List.flatMap_append])
  simpa [List.map_map, Item.event, Item.tok, charTok, Function.comp_def] using this

/-- bytes of a focus report -/
def focusSeq (f : Bool) : Bytes := if f then focusInSeq else focusOutSeq

/-- **Focus reports.**  With no key shadowing them (`focusClear`, true for every database entry on which tcell enables
focus reporting: `db_focus_clear`), any sequence of `ESC [ I` / `ESC [ O` reports under every partition yields exactly the
corresponding focus events. -/
theorem focus_reports (cfg : Cfg) (hk : keysAscii cfg.keys = true) (hf : focusClear cfg.keys = true) (st : PState)
    (hs : st.escaped = false) (fs : List Bool) (chunks : List Bytes) (hc : chunks.flatten = fs.flatMap focusSeq) :
    feedAll cfg st [] chunks = ⟨fs.map Event.focus, st, [], false⟩ := by
  have := stream_delivery cfg hk st hs (fs.map (fun f => if f then Item.focusIn else Item.focusOut))
    (by
      intro i hi
      obtain ⟨f, _, rfl⟩ := List.mem_map.mp hi
      cases f <;> exact hf)
    chunks
    (by
      rw [hc, List.flatMap_map]
      apply flatMap_ext
      intro f _
      cases f <;> rfl)
  rw [this, List.map_map]
  congr 1
  apply List.map_congr_left
  intro f _
  cases f <;> rfl

/-! ### the hypotheses are satisfiable: a small configuration -/

/-- paste keys, one function key (F1 = `ESC O P`), mouse and OSC 52 parsers on, 80×24 -/
def exCfg (dec : Bytes → DecResult) : Cfg :=
  { keys := [⟨pasteStartSeq, keyPasteStart, modNone⟩, ⟨pasteEndSeq, keyPasteEnd, modNone⟩, ⟨[27, 79, 80], 279, 0⟩, ⟨[13], 13, 0⟩],
    mouse := true, clipboard := true, dec := dec, w := 80, h := 24 }

/-- "é", "€", "😀" and "a" split in the middle of every multi-byte character (reads of 1,2,1,3,1,2 bytes) -/
example : feedAll (exCfg decUtf8) {} [] [[0xC3], [0xA9, 0xE2], [0x82], [0xAC, 0xF0, 0x9F], [0x98], [0x80, 0x61]] =
    ⟨[runeEvent 0xE9, runeEvent 0x20AC, runeEvent 0x1F600, runeEvent 97], {}, [], false⟩ :=
  utf8_text (exCfg decUtf8) rfl (by decide) {} rfl [0xE9, 0x20AC, 0x1F600, 97] (by decide) _ (by decide)

example : feedAll (exCfg decUtf8) {} [] [[27, 91, 50], [48, 48, 126, 0xC3], [0xA9, 27], [91, 50, 48, 49, 126]] =
    ⟨[.paste true, runeEvent 0xE9, .paste false], {}, [], false⟩ :=
  paste_bracket (exCfg decUtf8) Utf8.encode _ utf8_laws (by decide) (by decide) {} rfl [0xE9] (by decide) _ (by decide)

example : feedAll (exCfg decUtf8) {} [] [[27], [91, 73, 27, 91], [79]] = ⟨[.focus true, .focus false], {}, [], false⟩ :=
  focus_reports (exCfg decUtf8) (by decide) (by decide) {} rfl [true, false] _ (by decide)

/-- the GBK characters "你" (C4 E3) and "好" (BA C3), and the GB18030 four-byte form of U+00DE (81 30 89 37) -/
def exMb : MbTable := [([0xC4, 0xE3], 0x4F60), ([0xBA, 0xC3], 0x597D), ([0x81, 0x30, 0x89, 0x37], 0xDE)]

example : feedAll (exCfg (decMulti false exMb)) {} [] [[0xC4], [0xE3, 0x81, 0x30], [0x89], [0x37, 0xBA], [0xC3]] =
    ⟨[runeEvent 0x4F60, runeEvent 0xDE, runeEvent 0x597D], {}, [], false⟩ :=
  multibyte_text_repaired (exCfg (decMulti false exMb)) exMb rfl (by decide) (by decide) (by decide) {} rfl
    [([0xC4, 0xE3], 0x4F60), ([0x81, 0x30, 0x89, 0x37], 0xDE), ([0xBA, 0xC3], 0x597D)]
    (by intro e he; simp at he; rcases he with rfl | rfl | rfl <;> exact Or.inl (by decide)) _ (by decide)

/-- **Counterexample on the pinned tree** (probe of the design round, reproduced by the engine `text` as class
`text-multibyte-lost`): in a GBK locale the two bytes `C4 E3` of "你" — in one read or in two — produce NO event: the lead
byte is consumed as an undecodable rune, then the trail byte likewise. -/
theorem gbk_ni_lost_pinned :
    feedAll (exCfg (decMulti true exMb)) {} [] [[0xC4, 0xE3]] = ⟨[], {}, [], false⟩ ∧
    feedAll (exCfg (decMulti true exMb)) {} [] [[0xC4], [0xE3]] = ⟨[], {}, [], false⟩ := by decide

example : ¬ CodecChar (decMulti true exMb) ([0xC4, 0xE3], 0x4F60) :=
  multibyte_law_fails_pinned exMb (by decide) (by decide) _ (by decide) (by decide)

/-- a one-entry high half (byte 0x80 ↦ "€"): `€a€` in reads of 1 and 2 bytes -/
example : feedAll (exCfg (decTable [0x20AC])) {} [] [[128], [97, 128]] =
    ⟨[runeEvent 0x20AC, runeEvent 97, runeEvent 0x20AC], {}, [], false⟩ :=
  table_text (exCfg (decTable [0x20AC])) [0x20AC] rfl (by decide) {} rfl [128, 97, 128] (by decide) _ (by decide)

/-- typed text, a focus-out report, a paste and a focus-in report in one stream, split inside every item -/
example : feedAll (exCfg decUtf8) {} [] [[0xC3], [0xA9, 27, 91], [79, 27, 91, 50, 48, 48], [126, 120, 27, 91, 50, 48, 49], [126, 27], [91, 73]] =
    ⟨[runeEvent 0xE9, .focus false, .paste true, runeEvent 120, .paste false, .focus true], {}, [], false⟩ :=
  stream_delivery (exCfg decUtf8) (by decide) {} rfl
    [.char ([0xC3, 0xA9], 0xE9), .focusOut, .pasteStart, .char ([120], 120), .pasteEnd, .focusIn]
    (by
      intro i hi
      simp at hi
      rcases hi with rfl | rfl | rfl | rfl | rfl | rfl
      · exact Or.inr (utf8_codecChar 0xE9 (by decide) (by decide) (by decide) (by decide))
      · show focusClear _ = true; decide
      · show pasteKeys _ = true; decide
      · exact Or.inl ⟨120, by decide, by decide, rfl⟩
      · show pasteKeys _ = true; decide
      · show focusClear _ = true; decide)
    _ (by decide)

/-! ### database layer: the key-table conditions hold for every entry (kernel evaluation over `Tcell.Gen`) -/

def toTable (rows : List Gen.KeyRow) : KeyTable := rows.map (fun r => ⟨r.2.1, r.2.2.1, r.2.2.2⟩)

/-- `prepareBracketedPaste` (tscreen.go:344) enables bracketed paste -/
def pasteEnabled (ti : Terminfo) : Bool := !ti.enablePaste.isEmpty || !ti.mouse.isEmpty || xtermLike ti

/-- `prepareExtendedOSC` (tscreen.go:412-440) enables focus reporting -/
def focusEnabled (ti : Terminfo) : Bool :=
  !charsContain ti.name.toList "linux".toList && (!ti.enableFocusReporting.isEmpty || !ti.mouse.isEmpty || xtermLike ti)

/-- no key sequence of any entry's table is empty or starts with an 8-bit byte -/
theorem db_keys_ascii : Gen.dbTables.all (fun p => keysAscii (toTable p.2)) = true := by decide +kernel

/-- wherever tcell enables bracketed paste, the markers are recognised as the internal paste keys and nothing else -/
theorem db_paste_keys : Gen.dbTables.all (fun p => !pasteEnabled p.1 || pasteKeys (toTable p.2)) = true := by
  decide +kernel

/-- the entry carries the rxvt Ctrl-arrow strings `ESC [ O a…d` that `terminfo/mkinfo.go:362` assigned before 7758baa (real rxvt sends
`ESC O a…d`): they have the focus-out report `ESC [ O` as a proper prefix -/
def rxvtCtrlArrows (ti : Terminfo) : Bool := bytesEq ti.keys.keyCtrlUp [27, 91, 79, 97]

/-- wherever tcell enables focus reporting, no function key shadows `ESC [ I` / `ESC [ O` (holds since /repo 7758baa
"rxvt Ctrl-arrow keys are ESC O a..d"; before that commit the rxvt entries carried `ESC [ O a…d`, see
`rxvt_focus_out_shadowed`, and only the statement with those entries excepted held) -/
theorem db_focus_clear : Gen.dbTables.all (fun p => !focusEnabled p.1 || focusClear (toTable p.2)) = true := by
  decide +kernel

/-- what held before 7758baa (the rxvt Ctrl-arrow entries excepted) is now a corollary of `db_focus_clear`; kept under a
non-`_partial` name only to document the extent of the former exception -/
theorem db_focus_clear_rxvt_excepted :
    Gen.dbTables.all (fun p => !focusEnabled p.1 || focusClear (toTable p.2) || rxvtCtrlArrows p.1) = true := by
  apply List.all_eq_true.mpr
  intro p hp
  have := List.all_eq_true.mp db_focus_clear p hp
  rw [this]; rfl

/-- no entry of the current database carries the clashing strings, and focus reporting is enabled somewhere (non-vacuity) -/
example : Gen.dbTables.all (fun p => !rxvtCtrlArrows p.1) = true ∧ (Gen.dbTables.filter (fun p => focusEnabled p.1)).length ≥ 10 := by
  decide +kernel

/-- **Counterexample (finding `focus-report-lost`, fixed in /repo by 7758baa).**  With a key `ESC [ O a` in the table (rxvt family before
7758baa), a focus-out report followed by the typed letter `a` in the same read is decoded as that key
(Ctrl-Up): neither the focus event nor the rune is delivered, while the same bytes in two reads give both. -/
theorem rxvt_focus_out_shadowed :
    let cfg : Cfg := { exCfg decUtf8 with keys := ⟨[27, 91, 79, 97], keyUp, modCtrl⟩ :: (exCfg decUtf8).keys }
    feedAll cfg {} [] [[27, 91, 79, 97]] = ⟨[.key keyUp 0 modCtrl], {}, [], false⟩ ∧
    feedAll cfg {} [] [[27, 91, 79], [97]] = ⟨[.focus false, runeEvent 97], {}, [], false⟩ := by decide

/-- **Every database entry, UTF-8.**  For the key table the real constructor builds for any entry of the terminal
database, whatever the mouse / OSC 52 configuration and screen size: UTF-8 text is delivered rune for rune under
every partition. -/
theorem db_utf8_text (p : Terminfo × List Gen.KeyRow) (hp : p ∈ Gen.dbTables) (cfg : Cfg)
    (hkeys : cfg.keys = toTable p.2) (hdec : cfg.dec = decUtf8) (st : PState) (hs : st.escaped = false)
    (runes : List Int) (hr : ∀ r ∈ runes, Utf8TextRune r) (chunks : List Bytes)
    (hc : chunks.flatten = runes.flatMap Utf8.encode) :
    feedAll cfg st [] chunks = ⟨runes.map runeEvent, st, [], false⟩ :=
  utf8_text cfg hdec (by rw [hkeys]; exact (List.all_eq_true.mp db_keys_ascii) p hp) st hs runes hr chunks hc

/-- **Every database entry with bracketed paste, UTF-8.** -/
theorem db_utf8_paste (p : Terminfo × List Gen.KeyRow) (hp : p ∈ Gen.dbTables) (hpe : pasteEnabled p.1 = true) (cfg : Cfg)
    (hkeys : cfg.keys = toTable p.2) (hdec : cfg.dec = decUtf8) (st : PState) (hs : st.escaped = false)
    (runes : List Int) (hr : ∀ r ∈ runes, Utf8TextRune r) (chunks : List Bytes)
    (hc : chunks.flatten = pasteStartSeq ++ runes.flatMap Utf8.encode ++ pasteEndSeq) :
    feedAll cfg st [] chunks = ⟨[.paste true] ++ runes.map runeEvent ++ [.paste false], st, [], false⟩ := by
  have hk : keysAscii cfg.keys = true := by rw [hkeys]; exact (List.all_eq_true.mp db_keys_ascii) p hp
  have hpk : pasteKeys cfg.keys = true := by
    have := (List.all_eq_true.mp db_paste_keys) p hp
    rw [hkeys]
    simpa [hpe] using this
  apply paste_bracket cfg Utf8.encode _ (hdec ▸ utf8_laws) hk hpk st hs runes
  · intro r hr'
    obtain ⟨h1, h2, h3, h4, h5⟩ := hr r hr'
    by_cases ha : r ≤ 126
    · exact Or.inl ⟨h1, ha⟩
    · exact Or.inr ⟨by omega, h3, h4, h5⟩
  · rw [hc]
    congr 2
    unfold encText
    apply flatMap_ext
    intro r _
    by_cases ha : 32 ≤ r ∧ r ≤ 126
    · simp [encChar, ha, encChar_utf8 r ha]
    · simp [encChar, ha]

example : ∃ p ∈ Gen.dbTables, pasteEnabled p.1 = true ∧ focusEnabled p.1 = true ∧ focusClear (toTable p.2) = true := by
  decide +kernel

end Tcell.Props.C11
