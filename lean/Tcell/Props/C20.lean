/-
C20 — ViewPort and BoxLayout keep content inside disjoint, correctly sized regions.
Property theorems only (helpers: Tcell.Lemmas.Views).  Integers are unbounded `Int` (Go `int`; the harness stays
inside int64).  ViewPort statements quantify over every ViewPort state (origin, size, offset, content size,
locked or growing, nil or non-nil parent) and every argument; BoxLayout statements over every child list.
-/
import Tcell.Lemmas.Views
import Tcell.Lemmas.ViewsProp
namespace Tcell.Props.C20
open Tcell.Views Tcell.Views.ViewPort

/-! ## ViewPort: containment and translation -/

/-- the visible window in content coordinates -/
def InWindow (v : ViewPort) (x y : Int) : Prop :=
  v.viewx ≤ x ∧ x < v.viewx + v.width ∧ v.viewy ≤ y ∧ y < v.viewy + v.height

/-- the rectangle the ViewPort occupies in its parent -/
def InRect (v : ViewPort) (px py : Int) : Prop :=
  v.physx ≤ px ∧ px < v.physx + v.width ∧ v.physy ≤ py ∧ py < v.physy + v.height

instance (v : ViewPort) (x y : Int) : Decidable (InWindow v x y) := by unfold InWindow; infer_instance
instance (v : ViewPort) (x y : Int) : Decidable (InRect v x y) := by unfold InRect; infer_instance

theorem visible_iff (v : ViewPort) (x y : Int) : v.visible x y = true ↔ InWindow v x y := by
  simp only [visible, InWindow, Bool.and_eq_true, Bool.not_eq_true', Bool.or_eq_false_iff, decide_eq_false_iff_not]
  omega

/-- SetContent never moves or resizes the ViewPort (only the content limits can grow). -/
theorem vp_setContent_geometry (v : ViewPort) (x y ch : Int) (comb : List Int) (s : Nat) :
    let v' := (v.setContent x y ch comb s).1
    v'.viewx = v.viewx ∧ v'.viewy = v.viewy ∧ v'.physx = v.physx ∧ v'.physy = v.physy ∧
    v'.width = v.width ∧ v'.height = v.height := by
  simp only [setContent]; split
  · simp
  · split <;> simp

/-- **Containment and translation.**  Whatever a SetContent forwards to the parent is a single call, carries
the payload unchanged, lies inside the rectangle the ViewPort occupies, and sits at
parent position = content position − scroll offset + origin; and the content position was inside the window. -/
theorem vp_contain (v : ViewPort) (x y ch : Int) (comb : List Int) (s : Nat) :
    ∀ c ∈ (v.setContent x y ch comb s).2,
      (v.setContent x y ch comb s).2 = [c] ∧
      c.x = x - v.viewx + v.physx ∧ c.y = y - v.viewy + v.physy ∧
      c.ch = ch ∧ c.comb = comb ∧ c.style = s ∧
      InRect v c.x c.y ∧ InWindow v x y := by
  intro c hc
  cases hh : v.hasView
  · simp [setContent, hh] at hc
  · by_cases hv : (v.grow x y).visible x y = true
    · have hw := (visible_iff _ x y).1 hv
      simp only [InWindow, grow_viewx, grow_viewy, grow_width, grow_height] at hw
      simp only [setContent, hh, hv, Bool.not_true, Bool.false_eq_true, if_false, if_true, List.mem_singleton] at hc ⊢
      subst hc
      simp only [translate, grow_viewx, grow_viewy, grow_physx, grow_physy, InRect, InWindow, true_and]
      omega
    · simp [setContent, hh, hv] at hc

/-- Exactly the content inside the window is forwarded (when the ViewPort has a parent); content outside the
visible window is discarded, and nothing is forwarded by a ViewPort without parent. -/
theorem vp_forward_iff (v : ViewPort) (x y ch : Int) (comb : List Int) (s : Nat) :
    (v.setContent x y ch comb s).2 ≠ [] ↔ (v.hasView = true ∧ InWindow v x y) := by
  simp only [setContent]
  cases hh : v.hasView
  · simp
  · have : (v.grow x y).visible x y = true ↔ InWindow v x y := by
      rw [visible_iff]; simp [InWindow]
    by_cases hv : (v.grow x y).visible x y = true
    · simp [hv, this.1 hv]
    · simp [hv]; exact fun h => hv (this.2 h)

/-- **Fill containment**: every cell Fill (and Clear) paints in the parent lies inside the ViewPort's rectangle. -/
theorem vp_fill_contain (v : ViewPort) (ch : Int) (s : Nat) :
    ∀ c ∈ v.fill ch s, InRect v c.x c.y ∧ c.ch = ch ∧ c.style = s := by
  intro c hc
  simp only [fill] at hc
  split at hc
  · simp at hc
  · simp only [List.mem_flatMap, List.mem_map, List.mem_range] at hc
    obtain ⟨j, hj, i, hi, rfl⟩ := hc
    simp only [InRect, and_true]
    omega

/-- Fill paints every cell of the rectangle (so with `vp_fill_contain`: exactly the rectangle). -/
theorem vp_fill_covers (v : ViewPort) (ch : Int) (s : Nat) (hv : v.hasView = true) (px py : Int)
    (h : InRect v px py) : ∃ c ∈ v.fill ch s, c.x = px ∧ c.y = py := by
  simp only [fill, hv, Bool.not_true, Bool.false_eq_true, if_false, List.mem_flatMap, List.mem_map, List.mem_range]
  obtain ⟨h1, h2, h3, h4⟩ := h
  refine ⟨_, ⟨(py - v.physy).toNat, by omega, (px - v.physx).toNat, by omega, rfl⟩, ?_, ?_⟩ <;> simp <;> omega

/-! ## ViewPort: clamping -/

/-- What ValidateView establishes on one axis: the offset is non-negative, the window ends inside the
content when the content is at least as large as the view, and the offset is exactly 0 when the content is
smaller than the view. -/
def Clamped (off size lim : Int) : Prop :=
  0 ≤ off ∧ (size ≤ lim → off + size ≤ lim) ∧ (lim < size → off = 0)

def ClampedX (v : ViewPort) : Prop := Clamped v.viewx v.width v.limx
def ClampedY (v : ViewPort) : Prop := Clamped v.viewy v.height v.limy

instance (a b c : Int) : Decidable (Clamped a b c) := by unfold Clamped; infer_instance
instance (v : ViewPort) : Decidable (ClampedX v) := by unfold ClampedX; infer_instance
instance (v : ViewPort) : Decidable (ClampedY v) := by unfold ClampedY; infer_instance

theorem validateViewX_clamped (v : ViewPort) : ClampedX v.validateViewX := by
  simp only [ClampedX, Clamped, vx_viewx, vx_width, vx_limx]
  split <;> split <;> omega

theorem validateViewY_clamped (v : ViewPort) : ClampedY v.validateViewY := by
  simp only [ClampedY, Clamped, vy_viewy, vy_height, vy_limy]
  split <;> split <;> omega

/-- ValidateView is a projection: a clamped ViewPort is left unchanged. -/
theorem validateView_fixed (v : ViewPort) (hx : ClampedX v) (hy : ClampedY v) : v.validateView = v := by
  have h1 : v.validateViewX = v := by
    rcases v with ⟨p1, p2, vx, vy, lx, ly, w, h, l, hv⟩
    simp only [ClampedX, Clamped] at hx
    simp only [validateViewX]; split <;> split <;> simp_all <;> omega
  have h2 : v.validateViewY = v := by
    rcases v with ⟨p1, p2, vx, vy, lx, ly, w, h, l, hv⟩
    simp only [ClampedY, Clamped] at hy
    simp only [validateViewY]; split <;> split <;> simp_all <;> omega
  simp [validateView, h1, h2]

theorem validateView_clamped (v : ViewPort) : ClampedX v.validateView ∧ ClampedY v.validateView := by
  refine ⟨?_, validateViewY_clamped _⟩
  have := validateViewX_clamped v
  simpa [ClampedX, validateView] using this

/-- **Clamping.**  After ScrollLeft/ScrollRight the x axis, after ScrollUp/ScrollDown the y axis, and after
MakeVisible, SetSize, SetContentSize and an effective Center both axes are clamped — from *every* prior
state and for every argument (negative and huge scroll amounts included). -/
theorem vp_clamp (v : ViewPort) (n x y w h : Int) (l : Bool) :
    ClampedX (v.scrollLeft n) ∧ ClampedX (v.scrollRight n) ∧
    ClampedY (v.scrollUp n) ∧ ClampedY (v.scrollDown n) ∧
    (ClampedX (v.makeVisible x y) ∧ ClampedY (v.makeVisible x y)) ∧
    (ClampedX (v.setSize w h) ∧ ClampedY (v.setSize w h)) ∧
    (ClampedX (v.setContentSize w h l) ∧ ClampedY (v.setContentSize w h l)) ∧
    (v.centerSkips x y = false → ClampedX (v.center x y) ∧ ClampedY (v.center x y)) ∧
    (v.centerSkips x y = true → v.center x y = v) := by
  refine ⟨validateViewX_clamped _, validateViewX_clamped _, validateViewY_clamped _, validateViewY_clamped _,
    validateView_clamped _, validateView_clamped _, validateView_clamped _, ?_, ?_⟩
  · intro hs; simp only [center, hs, Bool.false_eq_true, if_false]; exact validateView_clamped _
  · intro hs; simp [center, hs]

/-- A scroll never touches the other axis, the placement, the size or the content size. -/
theorem vp_scroll_frame (v : ViewPort) (n : Int) :
    (v.scrollLeft n).viewy = v.viewy ∧ (v.scrollRight n).viewy = v.viewy ∧
    (v.scrollUp n).viewx = v.viewx ∧ (v.scrollDown n).viewx = v.viewx ∧
    (v.scrollLeft n).limx = v.limx ∧ (v.scrollLeft n).width = v.width ∧
    (v.scrollUp n).limy = v.limy ∧ (v.scrollUp n).height = v.height := by
  simp [scrollLeft, scrollRight, scrollUp, scrollDown]

/-- `Resize` does **not** re-validate the offsets (view.go:257-277 has no ValidateView): a clamped ViewPort can
be left with its window hanging over the end of the content.  Resize is not among the operations the
property names (scrolling, centring, make-visible), so this is outside the statement; the next
scroll/centre/make-visible re-clamps by `vp_clamp`. -/
theorem vp_resize_not_clamped :
    ∃ v : ViewPort, ClampedX v ∧ ¬ ClampedX (v.resize 20 10 0 0 8 5) :=
  ⟨{ viewx := 6, limx := 10, width := 4, height := 5, limy := 5 }, by decide, by decide⟩

/-- What Resize does guarantee: offsets and content size are untouched (so `0 ≤ offset` is preserved). -/
theorem vp_resize_frame (v : ViewPort) (px py x y w h : Int) :
    (v.resize px py x y w h).viewx = v.viewx ∧ (v.resize px py x y w h).viewy = v.viewy ∧
    (v.resize px py x y w h).limx = v.limx ∧ (v.resize px py x y w h).limy = v.limy := by
  simp only [resize]; split <;> simp

/-- Resize with an in-range origin and non-negative parent size keeps the ViewPort inside its parent:
`0 ≤ physx`, `physx + width ≤ px` (and y).  (With an out-of-range origin `physx` keeps its old value while the
width is computed from the requested one: outside the statement, see DESIGN.md.) -/
theorem vp_resize_inside (v : ViewPort) (px py x y w h : Int) (hv : v.hasView = true)
    (hx : 0 ≤ x ∧ x < px) (hy : 0 ≤ y ∧ y < py) :
    let v' := v.resize px py x y w h
    v'.physx = x ∧ v'.physy = y ∧ 0 ≤ v'.width ∧ v'.physx + v'.width ≤ px ∧ 0 ≤ v'.height ∧ v'.physy + v'.height ≤ py ∧
    (0 ≤ w → w ≤ px - x → v'.width = w) ∧ (0 ≤ h → h ≤ py - y → v'.height = h) := by
  simp only [resize, hv, Bool.not_true, Bool.false_eq_true, if_false, hx, hy, and_self, if_true]
  refine ⟨trivial, trivial, ?_, ?_, ?_, ?_, ?_, ?_⟩ <;> split <;> omega

/-- **Auto-grow is monotone**: SetContent never shrinks the content limits; a locked ViewPort (or one without
parent) keeps them; an unlocked one ends with `limx ≥ x` … note the Go code sets the limit to `x` itself
(not `x+1`), so the cell just drawn is *not* inside the limits it created (quirk, mirrored). -/
theorem vp_autogrow_monotone (v : ViewPort) (x y ch : Int) (comb : List Int) (s : Nat) :
    let v' := (v.setContent x y ch comb s).1
    v.limx ≤ v'.limx ∧ v.limy ≤ v'.limy ∧ v'.locked = v.locked ∧
    ((v.locked = true ∨ v.hasView = false) → v'.limx = v.limx ∧ v'.limy = v.limy) ∧
    (v.locked = false → v.hasView = true → x ≤ v'.limx ∧ y ≤ v'.limy ∧
       v'.limx = (if x > v.limx then x else v.limx) ∧ v'.limy = (if y > v.limy then y else v.limy)) := by
  have hg : v.limx ≤ (v.grow x y).limx ∧ v.limy ≤ (v.grow x y).limy ∧
      (v.locked = true → (v.grow x y).limx = v.limx ∧ (v.grow x y).limy = v.limy) ∧
      (v.locked = false → (v.grow x y).limx = (if x > v.limx then x else v.limx) ∧
        (v.grow x y).limy = (if y > v.limy then y else v.limy)) := by
    by_cases h1 : x > v.limx <;> by_cases h2 : y > v.limy <;> cases hl : v.locked <;>
      simp [grow, h1, h2, hl] <;> omega
  obtain ⟨g1, g2, g3, g4⟩ := hg
  simp only [setContent]
  cases hh : v.hasView
  · simp
  · have e : ((if (v.grow x y).visible x y = true then (v.grow x y, [(v.grow x y).translate x y ch comb s])
        else (v.grow x y, [])) : ViewPort × List PCall).1 = v.grow x y := by split <;> rfl
    simp only [Bool.not_true, Bool.false_eq_true, if_false, e, grow_locked, true_and, g1, g2]
    refine ⟨fun h => ?_, fun hl _ => ?_⟩
    · rcases h with h | h
      · exact g3 h
      · simp at h
    · have := g4 hl
      refine ⟨?_, ?_, this.1, this.2⟩
      · rw [this.1]; split <;> omega
      · rw [this.2]; split <;> omega

/-- **MakeVisible makes the cell visible**: for every prior state, a cell inside the content limits
(`0 ≤ x < limx`, `0 ≤ y < limy`) lies in the window afterwards, provided the view has positive size. -/
theorem vp_makeVisible_visible (v : ViewPort) (x y : Int)
    (hx : 0 ≤ x ∧ x < v.limx) (hy : 0 ≤ y ∧ y < v.limy) (hw : 0 < v.width) (hh : 0 < v.height) :
    InWindow (v.makeVisible x y) x y := by
  simp only [InWindow, makeVisible, validateView, vy_viewx, vx_viewx, vy_viewy, vx_viewy, vx_width, vx_height,
    vy_width, vy_height, mvY_viewx, mvX_viewx, mvY_viewy, mvX_viewy, mvX_limx, mvY_limx, mvX_limy, mvY_limy,
    mvX_width, mvY_width, mvX_height, mvY_height, vx_limy]
  refine ⟨?_, ?_, ?_, ?_⟩ <;> (repeat' split) <;> omega

/-- MakeVisible of a cell that is already visible in a clamped ViewPort changes nothing ("the minimum
necessary"). -/
theorem vp_makeVisible_noop (v : ViewPort) (x y : Int) (hin : InWindow v x y)
    (cx : ClampedX v) (cy : ClampedY v) : v.makeVisible x y = v := by
  obtain ⟨a, b, c, d⟩ := hin
  have h1 : v.mvX x = v := by
    simp only [mvX]; split <;> split <;> first | rfl | (exfalso; simp_all; omega)
  have h2 : v.mvY y = v := by
    simp only [mvY]; split <;> split <;> first | rfl | (exfalso; simp_all; omega)
  simp only [makeVisible, h1, h2]
  exact validateView_fixed v cx cy

/-! hypotheses are satisfiable / concrete instances -/
example : (({ physx := 2, physy := 1, viewx := 3, viewy := 0, limx := 20, limy := 5, width := 4, height := 2 } : ViewPort).setContent
    5 1 65 [] 0).2 = [{ x := 4, y := 2, ch := 65, comb := [], style := 0 }] := by decide
example : (({ physx := 2, physy := 1, viewx := 3, viewy := 0, limx := 20, limy := 5, width := 4, height := 2 } : ViewPort).setContent
    7 1 65 [] 0).2 = [] := by decide
example : InWindow (({ viewx := 0, limx := 20, limy := 5, width := 4, height := 2 } : ViewPort).makeVisible 9 4) 9 4 := by
  decide
example : (({ viewx := 0, limx := 20, limy := 5, width := 4, height := 2 } : ViewPort).scrollRight 100).viewx = 16 := by decide
example : (({ viewx := 0, limx := 3, limy := 5, width := 4, height := 2 } : ViewPort).scrollRight 100).viewx = 0 := by decide

/-! ## BoxLayout: geometry of the children rectangles

`layoutPlaces` gives the `Resize` arguments of every child; `childRects` what the children's ViewPorts become
(for arbitrary previous ViewPorts `olds`, all of which have the layout's view as parent).  "Along the axis" is x
for a horizontal and y for a vertical layout (`aStart`, `aLen`); `cStart`, `cLen` are the cross axis.
A rectangle is non-empty when both extents are positive; empty rectangles can keep a stale origin
(ViewPort.Resize ignores an origin outside the parent) and are excluded from order/containment statements —
nothing can be drawn through them (`vp_contain`). -/

section geometry
variable {F : Type} [LayoutNum F]

/-- extents handed to the children: preferred extent + padding -/
def extents (hz : Bool) (avail : Int) (cs : List (Child F)) : List Int :=
  List.zipWith (· + ·) (cs.map (Child.ext hz)) (pads avail (sumInt (cs.map (Child.ext hz))) (cs.map (·.fill)))

def childRects (hz : Bool) (vw vh : Int) (olds : List ViewPort) (cs : List (Child F)) : List ViewPort :=
  List.zipWith (applyPlace vw vh) olds (layoutPlaces hz vw vh cs)

theorem layoutPlaces_eq (hz : Bool) (vw vh : Int) (cs : List (Child F)) :
    layoutPlaces hz vw vh cs = placeAlong hz vw vh 0 (extents hz (if hz then vw else vh) cs) := rfl

/-- Hypotheses under which the geometry theorems hold: the view has non-negative size, the children report
non-negative preferred extents, the paddings are non-negative (proved for exact arithmetic: `pads_nonneg`),
and the children's ViewPorts have a parent. -/
structure GeoOK (hz : Bool) (vw vh : Int) (olds : List ViewPort) (cs : List (Child F)) : Prop where
  vw0 : 0 ≤ vw
  vh0 : 0 ≤ vh
  ext0 : ∀ c ∈ cs, 0 ≤ c.ext hz
  pad0 : ∀ p ∈ pads (if hz then vw else vh) (sumInt (cs.map (Child.ext hz))) (cs.map (·.fill)), 0 ≤ p
  par : ∀ o ∈ olds, o.hasView = true

theorem extents_nonneg {hz : Bool} {vw vh : Int} {olds : List ViewPort} {cs : List (Child F)}
    (g : GeoOK hz vw vh olds cs) : ∀ e ∈ extents hz (if hz then vw else vh) cs, 0 ≤ e := by
  intro e he
  obtain ⟨i, hi⟩ := List.getElem?_of_mem he
  simp only [extents, List.getElem?_zipWith] at hi
  cases h1 : (cs.map (Child.ext hz))[i]? with
  | none => simp [h1] at hi
  | some a =>
    cases h2 : (pads (if hz then vw else vh) (sumInt (cs.map (Child.ext hz))) (cs.map (·.fill)))[i]? with
    | none => simp [h1, h2] at hi
    | some b =>
      simp [h1, h2] at hi
      have ha : 0 ≤ a := by
        have := List.mem_of_getElem? h1
        simp only [List.mem_map] at this
        obtain ⟨c, hc, rfl⟩ := this
        exact g.ext0 c hc
      have hb := g.pad0 b (List.mem_of_getElem? h2)
      omega

/-- the rectangle of child i, described through its slot: position `s` = sum of the extents before it -/
theorem childRect_slot {hz : Bool} {vw vh : Int} {olds : List ViewPort} {cs : List (Child F)}
    (g : GeoOK hz vw vh olds cs) (i : Nat) (r : ViewPort) (hr : (childRects hz vw vh olds cs)[i]? = some r) :
    ∃ e, (extents hz (if hz then vw else vh) cs)[i]? = some e ∧ 0 ≤ e ∧
      let s := sumInt ((extents hz (if hz then vw else vh) cs).take i)
      let avail := if hz then vw else vh
      let cross := if hz then vh else vw
      0 ≤ s ∧ aLen hz r = (if e > avail - s then avail - s else e) ∧ (s < avail → aStart hz r = s) ∧
      cLen hz r = cross ∧ (0 < cross → cStart hz r = 0) := by
  simp only [childRects, List.getElem?_zipWith, layoutPlaces_eq] at hr
  cases ho : olds[i]? with
  | none => simp [ho] at hr
  | some o =>
    cases hp : (placeAlong hz vw vh 0 (extents hz (if hz then vw else vh) cs))[i]? with
    | none => simp [ho, hp] at hr
    | some p =>
      simp [ho, hp] at hr
      have hlen : i < (extents hz (if hz then vw else vh) cs).length := by
        have : i < (placeAlong hz vw vh 0 (extents hz (if hz then vw else vh) cs)).length := by
          rcases Nat.lt_or_ge i (placeAlong hz vw vh 0 (extents hz (if hz then vw else vh) cs)).length with h | h
          · exact h
          · simp [List.getElem?_eq_none h] at hp
        simpa [placeAlong_length] using this
      have he : (extents hz (if hz then vw else vh) cs)[i]? = some ((extents hz (if hz then vw else vh) cs)[i]) :=
        List.getElem?_eq_getElem hlen
      have hp' := placeAlong_get hz vw vh _ 0 i _ he
      rw [hp] at hp'
      simp only [Option.some.injEq, Int.zero_add] at hp'
      have hnn := extents_nonneg g
      have he0 : 0 ≤ (extents hz (if hz then vw else vh) cs)[i] := hnn _ (List.getElem_mem hlen)
      have hs0 := sum_take_nonneg _ i hnn
      refine ⟨_, he, he0, hs0, ?_⟩
      have := applyPlace_slot hz vw vh _ _ o (g.par o (List.mem_of_getElem? ho)) g.vw0 g.vh0 hs0 he0
      rw [← hr, hp']
      exact this

/-- **Order and disjointness.**  Children are placed in list order along the axis and never overlap: the end of
an earlier non-empty child rectangle is at or before the start of every later non-empty one. -/
theorem box_order_disjoint {hz : Bool} {vw vh : Int} {olds : List ViewPort} {cs : List (Child F)}
    (g : GeoOK hz vw vh olds cs) (i j : Nat) (ri rj : ViewPort) (hij : i < j)
    (hi : (childRects hz vw vh olds cs)[i]? = some ri) (hj : (childRects hz vw vh olds cs)[j]? = some rj)
    (ni : 0 < aLen hz ri) (nj : 0 < aLen hz rj) :
    aStart hz ri + aLen hz ri ≤ aStart hz rj := by
  obtain ⟨ei, hei, _, hsi, hli, hsti, _⟩ := childRect_slot g i ri hi
  obtain ⟨ej, hej, _, hsj, hlj, hstj, _⟩ := childRect_slot g j rj hj
  have hstep := sum_take_step _ i j ei (extents_nonneg g) hij hei
  generalize (if hz = true then vw else vh) = avail at *
  split at hli <;> split at hlj <;> omega

/-- **Inside the layout's own view.**  Every non-empty child rectangle lies inside `[0,vw) × [0,vh)` of the
layout's view (children that do not fit are clipped or become empty), and spans the whole cross axis. -/
theorem box_inside {hz : Bool} {vw vh : Int} {olds : List ViewPort} {cs : List (Child F)}
    (g : GeoOK hz vw vh olds cs) (i : Nat) (r : ViewPort) (hi : (childRects hz vw vh olds cs)[i]? = some r)
    (ne : 0 < aLen hz r) (nc : 0 < cLen hz r) :
    0 ≤ aStart hz r ∧ aStart hz r + aLen hz r ≤ (if hz then vw else vh) ∧
    cStart hz r = 0 ∧ cLen hz r = (if hz then vh else vw) := by
  obtain ⟨e, _, _, hs, hl, hst, hc, hcs⟩ := childRect_slot g i r hi
  generalize (if hz = true then vw else vh) = avail at *
  generalize (if hz = true then vh else vw) = cross at *
  split at hl <;> (refine ⟨?_, ?_, ?_, hc⟩ <;> omega)

/-- **At least the preferred extent when space suffices.**  If the extents handed out fit the view (which is the
case when the preferred extents fit and the paddings add up to at most the surplus — `pads_total`), child i
gets exactly preferred + padding ≥ preferred, and its origin is where the running sum puts it. -/
theorem box_pref_when_fits {hz : Bool} {vw vh : Int} {olds : List ViewPort} {cs : List (Child F)}
    (g : GeoOK hz vw vh olds cs) (hfit : sumInt (extents hz (if hz then vw else vh) cs) ≤ (if hz then vw else vh))
    (i : Nat) (r : ViewPort) (c : Child F) (hi : (childRects hz vw vh olds cs)[i]? = some r) (hc : cs[i]? = some c) :
    ∃ p, (pads (if hz then vw else vh) (sumInt (cs.map (Child.ext hz))) (cs.map (·.fill)))[i]? = some p ∧
      aLen hz r = c.ext hz + p ∧ c.ext hz ≤ aLen hz r ∧
      (0 < aLen hz r → aStart hz r = sumInt ((extents hz (if hz then vw else vh) cs).take i)) := by
  obtain ⟨e, he, he0, hs, hl, hst, _⟩ := childRect_slot g i r hi
  have htot := sum_take_le_total _ i e (extents_nonneg g) he
  have he' := he
  simp only [extents, List.getElem?_zipWith, List.getElem?_map, hc, Option.map_some] at he'
  cases hp : (pads (if hz then vw else vh) (sumInt (cs.map (Child.ext hz))) (cs.map (·.fill)))[i]? with
  | none => simp [hp] at he'
  | some p =>
    refine ⟨p, rfl, ?_⟩
    simp [hp] at he'
    have hp0 := g.pad0 p (List.mem_of_getElem? hp)
    generalize (if hz = true then vw else vh) = avail at *
    refine ⟨?_, ?_, ?_⟩ <;> (split at hl <;> omega)

end geometry

/-! ## BoxLayout: distribution of the surplus (exact arithmetic)

The share computation instantiated with `Rat`.  The one property of the number type that is used is the floor
property `ratTrunc_floor_prop` (`trunc q ≤ q < trunc q + 1` for `q ≥ 0`), proved in Tcell.Lemmas.Views; for
float64 the corresponding facts are monitored on the real code by the `box` oracle (exact sum, share ± 1). -/

section shares
open LayoutNum

/-- the surplus: view extent minus the sum of the preferred extents, at least 0 (boxlayout.go:58-61) -/
def surplus (avail used : Int) : Int := if avail - used < 0 then 0 else avail - used

/-- **Exact distribution.**  With non-negative fill factors of which at least one is positive, the paddings
add up to the surplus exactly — cell for cell —, every padding is non-negative and at least the integer part of
the proportional share `surplus · fill_i / Σ fill`, and cells with fill 0 … see `pads_no_fill_cell`.
(The `best == nil` dereference of boxlayout.go:89 is never reached: `best_some`.) -/
theorem pads_total (avail used : Int) (fills : List Rat) (hf : ∀ f ∈ fills, 0 ≤ f) (hpos : ∃ f ∈ fills, 0 < f) :
    (pads avail used fills).length = fills.length ∧
    sumInt (pads avail used fills) = surplus avail used ∧
    ∀ (i : Nat) (p : Int), (pads avail used fills)[i]? = some p →
      ∃ f, fills[i]? = some f ∧ (share (surplus avail used) (totFill fills) f).floor ≤ p ∧ 0 ≤ p := by
  have hex : 0 ≤ surplus avail used := by unfold surplus; split <;> omega
  generalize hE : surplus avail used = extra at *
  have hsum := totFill_eq_sum fills
  have ht : 0 < totFill fills := by rw [hsum]; exact sum_pos_rat fills hf hpos
  have hne : totFill fills ≠ 0 := by grind
  have heq : LayoutNum.eq (totFill fills) (LayoutNum.zero : Rat) = false := by
    show decide (totFill fills = 0) = false
    simpa using hne
  have hcellspec : ∀ f ∈ fills, (shareCell extra (totFill fills) f).pad = (share extra (totFill fills) f).floor ∧
      (shareCell extra (totFill fills) f).fill = f :=
    fun f hm => shareCell_spec extra _ f hex ht (hf f hm)
  have hcells : ∃ c ∈ fills.map (shareCell extra (totFill fills)), LayoutNum.eq c.fill (LayoutNum.zero : Rat) = false := by
    obtain ⟨f, hm, h0⟩ := hpos
    refine ⟨_, List.mem_map_of_mem hm, ?_⟩
    rw [(hcellspec f hm).2]
    show decide (f = 0) = false
    have : f ≠ 0 := by grind
    simpa using this
  have hps : psum (fills.map (shareCell extra (totFill fills))) =
      sumInt ((fills.map (share extra (totFill fills))).map Rat.floor) := by
    unfold psum
    congr 1
    simp only [List.map_map]
    apply List.map_congr_left
    intro f hm
    exact (hcellspec f hm).1
  have hle : psum (fills.map (shareCell extra (totFill fills))) ≤ extra := by
    have h1 := floors_le_sum (fills.map (share extra (totFill fills)))
    rw [sum_shares, ← hsum, Rat.mul_div_cancel hne, ← hps] at h1
    exact Rat.intCast_le_intCast.1 h1
  have hpads : pads avail used fills =
      (distribute (extra - psum (fills.map (shareCell extra (totFill fills)))).toNat
        (fills.map (shareCell extra (totFill fills)))).map (·.pad) := by
    simp only [pads, psum, ← hE, surplus, heq, Bool.false_eq_true, if_false]
  obtain ⟨dl, dp, _, dge⟩ := distribute_spec (extra - psum (fills.map (shareCell extra (totFill fills)))).toNat
    (fills.map (shareCell extra (totFill fills))) hcells
  refine ⟨?_, ?_, ?_⟩
  · rw [hpads, List.length_map, dl, List.length_map]
  · rw [hpads]
    have : sumInt (List.map (fun c => c.pad) (distribute (extra - psum (fills.map (shareCell extra (totFill fills)))).toNat
        (fills.map (shareCell extra (totFill fills))))) = psum (distribute (extra - psum (fills.map (shareCell extra (totFill fills)))).toNat
        (fills.map (shareCell extra (totFill fills)))) := rfl
    rw [this, dp]; omega
  · intro i p hi
    rw [hpads, List.getElem?_map] at hi
    cases hc' : (distribute (extra - psum (fills.map (shareCell extra (totFill fills)))).toNat
        (fills.map (shareCell extra (totFill fills))))[i]? with
    | none => simp [hc'] at hi
    | some c' =>
      simp [hc'] at hi
      obtain ⟨c, hc, hle'⟩ := dge i c' hc'
      rw [List.getElem?_map] at hc
      cases hfi : fills[i]? with
      | none => simp [hfi] at hc
      | some f =>
        simp [hfi] at hc
        have hm := List.mem_of_getElem? hfi
        have hpad := (hcellspec f hm).1
        have hs0 := share_nonneg extra (totFill fills) f hex ht (hf f hm)
        have hfl : 0 ≤ (share extra (totFill fills) f).floor := Rat.le_floor_iff.2 (by simpa using hs0)
        refine ⟨f, rfl, ?_, ?_⟩ <;> (rw [← hc] at hle'; omega)

/-- Without any positive fill factor nothing is distributed: every padding is 0 (children keep exactly their
preferred extent, boxlayout.go:63-65). -/
theorem pads_no_fill (avail used : Int) (fills : List Rat) (h0 : ∀ f ∈ fills, f = 0) :
    ∀ p ∈ pads avail used fills, p = 0 := by
  have hsum : totFill fills = 0 := by
    rw [totFill_eq_sum]
    have h1 := sum_nonneg_rat fills (fun f hm => by rw [h0 f hm]; exact Rat.le_refl)
    have h2 : fills.sum ≤ 0 := by
      have : ∀ (l : List Rat), (∀ f ∈ l, f = 0) → l.sum = 0 := by
        intro l; induction l with
        | nil => intro _; rfl
        | cons a l ih =>
          intro h
          simp only [List.sum_cons, h a List.mem_cons_self, ih (fun f hm => h f (List.mem_cons_of_mem _ hm))]
          grind
      rw [this fills h0]; exact Rat.le_refl
    exact Rat.le_antisymm h2 h1
  have heq : LayoutNum.eq (totFill fills) (LayoutNum.zero : Rat) = true := by
    show decide (totFill fills = 0) = true
    simpa using hsum
  have hcell : ∀ f ∈ fills, (shareCell (surplus avail used) (totFill fills) f).pad = 0 := by
    intro f hm; rw [h0 f hm]; exact (shareCell_zero _ _).1
  have hps : psum (fills.map (shareCell (surplus avail used) (totFill fills))) = 0 := by
    unfold psum
    simp only [List.map_map]
    have : ∀ (l : List Rat), (∀ f ∈ l, (shareCell (surplus avail used) (totFill fills) f).pad = 0) →
        sumInt (l.map ((fun c => c.pad) ∘ shareCell (surplus avail used) (totFill fills))) = 0 := by
      intro l; induction l with
      | nil => intro _; rfl
      | cons a l ih =>
        intro h
        simp only [List.map_cons, sumInt_cons, Function.comp, h a List.mem_cons_self]
        have := ih (fun f hm => h f (List.mem_cons_of_mem _ hm))
        omega
    exact this fills hcell
  have hpads : pads avail used fills = (fills.map (shareCell (surplus avail used) (totFill fills))).map (·.pad) := by
    have h0' : (0 : Int) - psum (fills.map (shareCell (surplus avail used) (totFill fills))) = 0 := by rw [hps]; rfl
    simp only [pads, heq, if_true]
    show (distribute ((0 : Int) - psum (fills.map (shareCell (surplus avail used) (totFill fills)))).toNat _).map _ = _
    rw [h0']; rfl
  intro p hp
  rw [hpads] at hp
  simp only [List.map_map, List.mem_map] at hp
  obtain ⟨f, hm, rfl⟩ := hp
  exact hcell f hm

/-- Consequence used by the geometry theorems: with non-negative fill factors every padding is non-negative. -/
theorem pads_nonneg (avail used : Int) (fills : List Rat) (hf : ∀ f ∈ fills, 0 ≤ f) :
    ∀ p ∈ pads avail used fills, 0 ≤ p := by
  intro p hp
  by_cases hpos : ∃ f ∈ fills, 0 < f
  · obtain ⟨i, hi⟩ := List.getElem?_of_mem hp
    obtain ⟨_, _, _, h⟩ := (pads_total avail used fills hf hpos).2.2 i p hi
    exact h
  · have h0 : ∀ f ∈ fills, f = 0 := by
      intro f hm
      have h1 := hf f hm
      have h2 : ¬ 0 < f := fun h => hpos ⟨f, hm, h⟩
      grind
    rw [pads_no_fill avail used fills h0 p hp]; exact Int.le_refl 0

/-- **pads_proportional** (full strength; formerly `pads_proportional_partial`, which had only the lower half).
"In proportion to the fill factors", cell for cell: with non-negative fill factors of which at least one is positive,
every child's padding is the integer part of its exact share `surplus · fill_i / Σ fill` or that plus one —
`⌊share_i⌋ ≤ pad_i ≤ ⌊share_i⌋ + 1` — and it differs from the exact share by strictly less than one cell,
`|pad_i − share_i| < 1`.  Together with `pads_total` (the paddings add up to the surplus exactly) this is the
largest-remainder apportionment.  The upper half is the comment of boxlayout.go:76-78 ("no single cell gets more than
one more cell") made a theorem: the pass never picks a cell twice, because `Σ frac` exceeds the number of cells still
to hand out minus one, so the maximal `frac` is positive, and a picked cell's `frac` is 0 afterwards
(`Tcell.Views.pass_on_shares`, Lemmas/ViewsProp.lean). -/
theorem pads_proportional (avail used : Int) (fills : List Rat) (hf : ∀ f ∈ fills, 0 ≤ f)
    (hpos : ∃ f ∈ fills, 0 < f) (i : Nat) (p : Int) (hi : (pads avail used fills)[i]? = some p) :
    ∃ f, fills[i]? = some f ∧
      ((share (surplus avail used) (totFill fills) f).floor : Int) ≤ p ∧
      p ≤ (share (surplus avail used) (totFill fills) f).floor + 1 ∧
      share (surplus avail used) (totFill fills) f - 1 < (p : Rat) ∧
      (p : Rat) < share (surplus avail used) (totFill fills) f + 1 := by
  have hex : 0 ≤ surplus avail used := by unfold surplus; split <;> omega
  generalize hE : surplus avail used = extra at *
  have hsum := totFill_eq_sum fills
  have ht : 0 < totFill fills := by rw [hsum]; exact sum_pos_rat fills hf hpos
  have hne : totFill fills ≠ 0 := by grind
  have heq : LayoutNum.eq (totFill fills) (LayoutNum.zero : Rat) = false := by
    show decide (totFill fills = 0) = false
    simpa using hne
  have hpads : pads avail used fills =
      (distribute (extra - psum (fills.map (shareCell extra (totFill fills)))).toNat
        (fills.map (shareCell extra (totFill fills)))).map (·.pad) := by
    simp only [pads, psum, ← hE, surplus, heq, Bool.false_eq_true, if_false]
  obtain ⟨_, hinv⟩ := pass_on_shares extra fills hex hf ht
  rw [hpads, List.getElem?_map] at hi
  cases hc' : (distribute (extra - psum (fills.map (shareCell extra (totFill fills)))).toNat
      (fills.map (shareCell extra (totFill fills))))[i]? with
  | none => simp [hc'] at hi
  | some c' =>
    simp only [hc', Option.map_some, Option.some.injEq] at hi
    obtain ⟨c0, hc0, _, hcase⟩ := hinv i c' hc'
    rw [List.getElem?_map] at hc0
    cases hfi : fills[i]? with
    | none => simp [hfi] at hc0
    | some f =>
      simp only [hfi, Option.map_some, Option.some.injEq] at hc0
      have hm := List.mem_of_getElem? hfi
      have hpad := (shareCell_spec extra (totFill fills) f hex ht (hf f hm)).1
      have hfr := shareCell_frac extra (totFill fills) f hex ht (hf f hm)
      have h1 := Rat.floor_le (share extra (totFill fills) f)
      have h2 := Rat.lt_floor_add_one (share extra (totFill fills) f)
      rw [← hc0] at hcase
      refine ⟨f, rfl, ?_⟩
      rcases hcase with ⟨hp, _⟩ | ⟨hp, _, hpos0⟩
      · have hpe : p = (share extra (totFill fills) f).floor := by rw [← hi, hp, hpad]
        have hpr : (p : Rat) = (((share extra (totFill fills) f).floor : Int) : Rat) := by rw [hpe]
        refine ⟨by omega, by omega, ?_, ?_⟩ <;> grind
      · have hpe : p = (share extra (totFill fills) f).floor + 1 := by rw [← hi, hp, hpad]
        have hpr : (p : Rat) = (((share extra (totFill fills) f).floor : Int) : Rat) + 1 := by
          rw [hpe, Rat.intCast_add]; rfl
        rw [hfr] at hpos0
        refine ⟨by omega, by omega, ?_, ?_⟩ <;> grind

/-- the hypotheses are satisfiable and both cases occur: surplus 6 over fills 1,1,2 has exact shares 3/2, 3/2, 3 and
paddings 2, 1, 3 — the first cell is rounded up, the second down, the third is exact -/
example : pads 10 4 [(1 : Rat), 1, 2] = [2, 1, 3] ∧ share (surplus 10 4) (totFill [(1 : Rat), 1, 2]) 1 = 3 / 2 ∧
    share (surplus 10 4) (totFill [(1 : Rat), 1, 2]) 2 = 3 := by decide +kernel

example : pads 10 4 [(1 : Rat), 1, 2] = [2, 1, 3] := by decide +kernel
example : pads 10 4 [(0 : Rat), 0] = [0, 0] := by decide +kernel
example : pads 3 9 [(1 : Rat), 2] = [0, 0] := by decide +kernel

end shares

/-! ## BoxLayout: putting geometry and shares together (exact arithmetic), re-layout -/

section together

/-- For exact arithmetic the geometry hypotheses reduce to the domain of the property: non-negative view size,
non-negative preferred extents, non-negative fill factors, children ViewPorts attached to the layout's view. -/
theorem geoOK_rat (hz : Bool) (vw vh : Int) (olds : List ViewPort) (cs : List (Child Rat))
    (h1 : 0 ≤ vw) (h2 : 0 ≤ vh) (h3 : ∀ c ∈ cs, 0 ≤ c.ext hz) (h4 : ∀ c ∈ cs, 0 ≤ c.fill)
    (h5 : ∀ o ∈ olds, o.hasView = true) : GeoOK hz vw vh olds cs :=
  ⟨h1, h2, h3, pads_nonneg _ _ _ (by
      intro f hf; obtain ⟨c, hc, rfl⟩ := List.mem_map.1 hf; exact h4 c hc), h5⟩

theorem sum_zipWith_add : ∀ (a b : List Int), a.length = b.length →
    sumInt (List.zipWith (· + ·) a b) = sumInt a + sumInt b
  | [], [], _ => by simp
  | x :: a, y :: b, h => by
    have := sum_zipWith_add a b (by simpa using h)
    simp [this]; omega
  | [], _ :: _, h => by simp at h
  | _ :: _, [], h => by simp at h

/-- **When space suffices the children fill the view exactly.**  If the preferred extents fit and some fill factor
is positive, the extents handed out (preferred + padding) add up to exactly the extent of the view — so
`box_pref_when_fits` applies: every child gets its preferred extent plus its padding, nothing is clipped. -/
theorem extents_fill_view (hz : Bool) (avail : Int) (cs : List (Child Rat)) (h4 : ∀ c ∈ cs, 0 ≤ c.fill)
    (hpos : ∃ c ∈ cs, 0 < c.fill) (hfit : sumInt (cs.map (Child.ext hz)) ≤ avail) :
    sumInt (extents hz avail cs) = avail := by
  have hf : ∀ f ∈ cs.map (·.fill), 0 ≤ f := by
    intro f hf; obtain ⟨c, hc, rfl⟩ := List.mem_map.1 hf; exact h4 c hc
  have hp : ∃ f ∈ cs.map (·.fill), 0 < f := by
    obtain ⟨c, hc, h⟩ := hpos; exact ⟨c.fill, List.mem_map_of_mem hc, h⟩
  obtain ⟨hl, hs, _⟩ := pads_total avail (sumInt (cs.map (Child.ext hz))) (cs.map (·.fill)) hf hp
  unfold extents
  rw [sum_zipWith_add _ _ (by simp [hl]), hs]
  unfold surplus; split <;> omega

/-- **Re-layout is stable**: laying out again with unchanged inputs (same view size, same children) leaves every
child ViewPort as it is — the result of a layout depends only on the orientation, the view size and the
current child list (`layoutPlaces` is a function of exactly these), not on the history of
AddWidget/InsertWidget/RemoveWidget/Resize/SetOrientation calls that produced the list.  In the heap model
(Tcell.Model.ViewsTree) every one of these operations ends in `Heap.layout`, which applies `layoutPlaces` to
the new child list; the `box` engine compares that model with boxlayout.go after every operation. -/
theorem layout_functional (vw vh : Int) (o : ViewPort) (p : Place) :
    applyPlace vw vh (applyPlace vw vh o p) p = applyPlace vw vh o p := by
  simp only [applyPlace, ViewPort.resize]
  cases hv : o.hasView
  · simp [hv]
  · simp only [Bool.not_true, Bool.false_eq_true, if_false]
    congr 1 <;> (split <;> simp_all)

example : GeoOK true 10 3 [({} : ViewPort), {}]
    [({ w := 3, h := 1, fill := (1 : Rat) } : Child Rat), { w := 2, h := 1, fill := 0 }] := by
  apply geoOK_rat
  · decide
  · decide
  · intro c hc; simp at hc; rcases hc with rfl | rfl <;> decide
  · intro c hc; simp at hc; rcases hc with rfl | rfl <;> decide
  · intro o ho; simp at ho; subst ho; rfl

example : extents true 10 [({ w := 3, h := 1, fill := (1 : Rat) } : Child Rat), { w := 2, h := 1, fill := 0 }] = [8, 2] := by
  decide +kernel

end together

end Tcell.Props.C20
