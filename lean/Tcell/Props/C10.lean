import Tcell.Model.Lockset
import Tcell.Gen.LockFacts
/-
Property C10 — concurrent use of one Screen from several goroutines is free of data races, and each Show reaches
the terminal as one contiguous block.

PARTIAL by construction (DESIGN.md §5 C10): the theorems are about the *extracted* model.  `lockset_sound_multi`,
`clean_field_race_free` and `blocks_contiguous` are generic (all thread counts, all schedules, all programs, any
number of mutexes); `guards_exact` / `flagged_exact` / `discipline_partial` / `discipline_tree` are evaluated by the
kernel on the facts the translator regenerates from tscreen.go / screen.go / simulation.go on every run.  Go's memory
model (go statement, channels, WaitGroup, Once) is axiomatised through the phase classification of the facts; the facts
are as good as the translator, which is validated in both directions by the race detector (lib/props/C10.py,
harness/race).

Two variants of the tree are covered by the same source (the kernel evaluates the regenerated facts):
* pinned /repo: the facts flag the tail of `disengage` (Fini, Suspend) — `discipline_except_disengage`, `_partial` forms;
* with fix C10-disengage-lifecycle (a second mutex `lifecycle` held for the whole of engage/disengage, the tail of
  disengage under the screen lock): nothing is flagged and `discipline_tree` / `fields_race_free_tree` give the full
  statements (every fact, every field that needs protection).
-/
namespace Tcell.Props.C10
open Tcell.Model.Lockset

/-! ## the lockset theorem (any number of mutexes) -/

/-- invariant for one mutex `m` and one field `f`: at most one thread holds `m`, and what is left of every thread is
    still `GuardedBy m f` from the lock state the thread is really in -/
def Inv (m f : Nat) (c : Cfg) : Prop :=
  (∀ i j, (c.th i).holds m = true → (c.th j).holds m = true → i = j) ∧
  (∀ i, GuardedBy m f ((c.th i).holds m) (c.th i).rest)

theorem getD_mem_or_nil {α : Type} (ts : List (List α)) (i : Nat) : ts.getD i [] ∈ ts ∨ ts.getD i [] = [] := by
  induction ts generalizing i with
  | nil => right; rfl
  | cons t ts ih =>
    cases i with
    | zero => left; simp
    | succ n =>
      rcases ih n with h | h
      · left; simp only [List.getD_cons_succ]; exact List.mem_cons_of_mem _ h
      · right; simp only [List.getD_cons_succ]; exact h

theorem inv_init (m f : Nat) (ts : List Thread) (h : ∀ t ∈ ts, GuardedBy m f false t) : Inv m f (initCfg ts) := by
  refine ⟨?_, ?_⟩
  · intro i j hi; simp [initCfg] at hi
  · intro i
    simp only [initCfg]
    rcases getD_mem_or_nil ts i with hm | hn
    · exact h _ hm
    · rw [hn]; exact True.intro

/-- a step that leaves the lock set of the moving thread alone does not change who holds `m` -/
theorem holds_upd_same {c : Cfg} {i a k m : Nat} {r : Thread}
    (ha : (upd c.th i ⟨(c.th i).holds, k, r⟩ a).holds m = true) : (c.th a).holds m = true := by
  by_cases ea : a = i
  · subst ea; simpa [upd] using ha
  · simpa [upd, ea] using ha

/-- locking or unlocking ANOTHER mutex `k ≠ m` does not change who holds `m` -/
theorem holds_upd_set {c : Cfg} {i a k s m : Nat} {v : Bool} {r : Thread} (hne : m ≠ k)
    (ha : (upd c.th i ⟨setHold (c.th i).holds k v, s, r⟩ a).holds m = true) : (c.th a).holds m = true := by
  by_cases ea : a = i
  · subst ea; simpa [upd, setHold, hne] using ha
  · simpa [upd, ea] using ha

theorem inv_step (m f : Nat) {c c' : Cfg} (hi : Inv m f c) (hs : Step c c') : Inv m f c' := by
  obtain ⟨hmx, hg⟩ := hi
  cases hs with
  | @lock i k r hr hfree =>
    by_cases hk : m = k
    · subst hk
      refine ⟨?_, ?_⟩
      · intro a b ha hb
        by_cases ea : a = i <;> by_cases eb : b = i
        · rw [ea, eb]
        · simp [upd, eb] at hb; rw [hfree b] at hb; cases hb
        · simp [upd, ea] at ha; rw [hfree a] at ha; cases ha
        · simp [upd, ea] at ha; rw [hfree a] at ha; cases ha
      · intro j
        by_cases ej : j = i
        · subst ej; have := hg j; rw [hr] at this; simpa [GuardedBy] using this
        · simpa [upd, ej] using hg j
    · refine ⟨fun a b ha hb => hmx a b (holds_upd_set hk ha) (holds_upd_set hk hb), ?_⟩
      intro j
      by_cases ej : j = i
      · subst ej; have := hg j; rw [hr] at this; simpa [GuardedBy, setHold, hk] using this
      · simpa [upd, ej] using hg j
  | @unlock i k r hr hh =>
    by_cases hk : m = k
    · subst hk
      refine ⟨?_, ?_⟩
      · intro a b ha hb
        by_cases ea : a = i
        · subst ea; simp [upd] at ha
        · by_cases eb : b = i
          · subst eb; simp [upd] at hb
          · simp [upd, ea] at ha; simp [upd, eb] at hb; exact hmx a b ha hb
      · intro j
        by_cases ej : j = i
        · subst ej; have := hg j; rw [hr] at this; simpa [GuardedBy] using this
        · simpa [upd, ej] using hg j
    · refine ⟨fun a b ha hb => hmx a b (holds_upd_set hk ha) (holds_upd_set hk hb), ?_⟩
      intro j
      by_cases ej : j = i
      · subst ej; have := hg j; rw [hr] at this; simpa [GuardedBy, setHold, hk] using this
      · simpa [upd, ej] using hg j
  | @rd i g r hr =>
    refine ⟨fun a b ha hb => hmx a b (holds_upd_same ha) (holds_upd_same hb), ?_⟩
    intro j
    by_cases ej : j = i
    · subst ej; have := hg j; rw [hr] at this; simp only [upd_same]; exact this.2
    · simpa [upd, ej] using hg j
  | @wr i g r hr =>
    refine ⟨fun a b ha hb => hmx a b (holds_upd_same ha) (holds_upd_same hb), ?_⟩
    intro j
    by_cases ej : j = i
    · subst ej; have := hg j; rw [hr] at this; simp only [upd_same]; exact this.2
    · simpa [upd, ej] using hg j
  | @emit i b r hr =>
    refine ⟨fun a b' ha hb => hmx a b' (holds_upd_same ha) (holds_upd_same hb), ?_⟩
    intro j
    by_cases ej : j = i
    · subst ej; have := hg j; rw [hr] at this; simp only [upd_same]; exact this
    · simpa [upd, ej] using hg j

theorem inv_reach (m f : Nat) {c0 c : Cfg} (h0 : Inv m f c0) (hr : Reach c0 c) : Inv m f c := by
  induction hr with
  | refl => exact h0
  | step _ hs ih => exact inv_step m f ih hs

/-- a thread about to access a field guarded by `m` holds `m` -/
theorem holds_of_nextAccess {m f : Nat} {s : TState} {w : Bool} (hg : GuardedBy m f (s.holds m) s.rest)
    (hn : nextAccess s f = some w) : s.holds m = true := by
  unfold nextAccess at hn
  split at hn
  · rename_i g r heq
    rw [heq] at hg
    by_cases e : g = f
    · exact hg.1 e
    · simp [e] at hn
  · rename_i g r heq
    rw [heq] at hg
    by_cases e : g = f
    · exact hg.1 e
    · simp [e] at hn
  · cases hn

/-- **lockset_sound_multi.**  Threads may take and release any number of exclusive mutexes, in any order, holding
    several at once.  If for field `f` there is ONE mutex `m` such that every access to `f` in every thread is made
    while that thread holds `m`, then no reachable configuration — for any number of threads, any programs, any
    schedule — has a data race on `f`. -/
theorem lockset_sound_multi (ts : List Thread) (f m : Nat) (h : ∀ t ∈ ts, GuardedBy m f false t) :
    ∀ c, Reach (initCfg ts) c → ¬ Race c f := by
  intro c hr ⟨i, j, wi, wj, hne, hi, hj, _⟩
  have inv := inv_reach m f (inv_init m f ts h) hr
  exact hne (inv.1 i j (holds_of_nextAccess (inv.2 i) hi) (holds_of_nextAccess (inv.2 j) hj))

/-- **lockset_sound** (the one-mutex instance the pinned tree needs): every access to `f` under the screen mutex ⇒
    no reachable race on `f`. -/
theorem lockset_sound (ts : List Thread) (f : Nat) (h : ∀ t ∈ ts, GuardedBy screenMutex f false t) :
    ∀ c, Reach (initCfg ts) c → ¬ Race c f := lockset_sound_multi ts f screenMutex h

/-- the hypothesis of `lockset_sound_multi` is satisfiable by a non-trivial program with two mutexes: field 3 is
    guarded by mutex 1 (engage-like thread: takes 1 then 0, writes 3 and 4; disengage-like thread: takes 1 and 0,
    releases 0, reads 3 holding 1 only, re-takes 0) while field 5 is touched without any lock -/
example : ∀ t ∈ [[Action.lock 1, .lock 0, .wr 3, .wr 4, .unlock 0, .unlock 1, .wr 5],
                 [Action.rd 5, .lock 1, .lock 0, .wr 4, .unlock 0, .rd 3, .lock 0, .wr 4, .unlock 0, .unlock 1]],
    GuardedBy 1 3 false t := by
  intro t ht
  simp at ht
  rcases ht with rfl | rfl <;> simp [GuardedBy]

/-- … and in the same two programs field 4 is guarded by mutex 0 -/
example : ∀ t ∈ [[Action.lock 1, .lock 0, .wr 3, .wr 4, .unlock 0, .unlock 1, .wr 5],
                 [Action.rd 5, .lock 1, .lock 0, .wr 4, .unlock 0, .rd 3, .lock 0, .wr 4, .unlock 0, .unlock 1]],
    GuardedBy 0 4 false t := by
  intro t ht
  simp at ht
  rcases ht with rfl | rfl <;> simp [GuardedBy]

/-- the model does exhibit races when the discipline is broken: an unlocked writer (Beep-like) against a locked
    writer (draw-like) on the same field races in a reachable configuration -/
theorem unguarded_races : ∃ c, Reach (initCfg [[Action.wr 7], [Action.lock 0, .wr 7, .unlock 0]]) c ∧ Race c 7 := by
  refine ⟨_, Reach.step Reach.refl (Step.lock (i := 1) (m := 0) (r := [.wr 7, .unlock 0]) rfl (by intro j; simp [initCfg])), ?_⟩
  refine ⟨0, 1, true, true, by decide, ?_, ?_, Or.inl rfl⟩
  · simp [upd, initCfg, nextAccess]
  · simp [upd, initCfg, nextAccess]

/-- holding DIFFERENT mutexes does not help (the mutant "engage does not take `lifecycle`": `wg.Add` under the screen
    mutex only against `wg.Wait` under the lifecycle mutex only): both threads get their lock and race -/
theorem disjoint_locks_race : ∃ c, Reach (initCfg [[Action.lock 0, .wr 7, .unlock 0], [Action.lock 1, .rd 7, .unlock 1]]) c ∧ Race c 7 := by
  let c0 := initCfg [[Action.lock 0, .wr 7, .unlock 0], [Action.lock 1, .rd 7, .unlock 1]]
  have s1 : Step c0 _ := Step.lock (i := 0) (m := 0) (r := [.wr 7, .unlock 0]) rfl (by intro j; simp [c0, initCfg])
  refine ⟨_, Reach.step (Reach.step Reach.refl s1) (Step.lock (i := 1) (m := 1) (r := [.rd 7, .unlock 1]) (by simp [upd, c0, initCfg]) ?_), ?_⟩
  · intro j
    by_cases ej : j = 0
    · subst ej; simp [upd, c0, initCfg, setHold]
    · simp [upd, ej, c0, initCfg]
  · refine ⟨0, 1, true, false, by decide, ?_, ?_, Or.inl rfl⟩
    · simp [upd, c0, initCfg, nextAccess]
    · simp [upd, nextAccess]

/-! ## from facts to threads -/

theorem guarded_of_conforms_aux (facts : List Fact) (e f m : Nat)
    (hf : ∀ x ∈ facts, x.entry = e → x.conc = true → x.field = f → x.holds m = true) :
    ∀ (t : Thread) (h : Nat → Bool),
      (∀ a ∈ accessesOf h t, ∃ x ∈ facts, x.entry = e ∧ x.field = a.1 ∧ x.wr = a.2.1 ∧ x.conc = true ∧ ∀ k ∈ x.locks, a.2.2 k = true) →
      GuardedBy m f (h m) t := by
  intro t
  induction t with
  | nil => intro h _; exact True.intro
  | cons a r ih =>
    intro h hc
    cases a with
    | lock k =>
      have := ih (setHold h k true) (by simpa [accessesOf] using hc)
      simpa [GuardedBy, setHold] using this
    | unlock k =>
      have := ih (setHold h k false) (by simpa [accessesOf] using hc)
      simpa [GuardedBy, setHold] using this
    | rd g =>
      refine ⟨?_, ih h (fun a ha => hc a (by simp [accessesOf, ha]))⟩
      intro eg
      obtain ⟨x, hx, he, hfld, _, hcx, hl⟩ := hc (g, false, h) (by simp [accessesOf])
      have hm := hf x hx he hcx (by rw [hfld]; exact eg)
      exact hl m (by simpa [Fact.holds] using hm)
    | wr g =>
      refine ⟨?_, ih h (fun a ha => hc a (by simp [accessesOf, ha]))⟩
      intro eg
      obtain ⟨x, hx, he, hfld, _, hcx, hl⟩ := hc (g, true, h) (by simp [accessesOf])
      have hm := hf x hx he hcx (by rw [hfld]; exact eg)
      exact hl m (by simpa [Fact.holds] using hm)
    | emit b => exact ih h (by simpa [accessesOf] using hc)

/-- **clean_field_race_free.**  Take any finite set of goroutines, each running any execution path of any entry
    point (a thread whose accesses are among the concurrent-phase facts extracted for that entry point, holding at
    least the mutexes the fact records).  If there is one mutex `m` that all concurrent-phase facts on field `f`
    hold, no reachable configuration has a race on `f`. -/
theorem clean_field_race_free (facts : List Fact) (f m : Nat) (ts : List (Nat × Thread))
    (hc : ∀ p ∈ ts, Conforms facts p.1 p.2)
    (hf : ∀ x ∈ facts, x.conc = true → x.field = f → x.holds m = true) :
    ∀ c, Reach (initCfg (ts.map (·.2))) c → ¬ Race c f := by
  apply lockset_sound_multi (m := m)
  intro t ht
  obtain ⟨p, hp, rfl⟩ := List.mem_map.1 ht
  exact guarded_of_conforms_aux facts p.1 f m (fun x hx _ hcx hfx => hf x hx hcx hfx) p.2 (fun _ => false) (hc p hp)

/-! ## the discipline check is sound (any list of facts) -/

theorem mem_filter_not {α : Type} (p : α → Bool) (l : List α) (x : α) (hx : x ∈ l) : x ∈ l.filter (fun y => !p y) ∨ p x = true := by
  cases h : p x
  · left; exact List.mem_filter.2 ⟨hx, by simp [h]⟩
  · right; rfl

theorem all_of_filter_nil {α : Type} (p : α → Bool) (l : List α) (h : l.filter (fun y => !p y) = []) : ∀ x ∈ l, p x = true := by
  intro x hx
  rcases mem_filter_not p l x hx with hm | hp
  · rw [h] at hm; cases hm
  · exact hp

/-- **discipline_sound** (generic: ANY list of facts, any classification inputs, any number of mutexes).  If the
    decidable check flags nothing, then for every field that is not exempt no schedule of any set of goroutines
    running execution paths of the extracted entry points has a data race on it: the check found a mutex common to
    all concurrent-phase accesses of the field and `lockset_sound_multi` applies. -/
theorem discipline_sound (facts : List Fact) (kinds syncs : List Nat) (nFields nMutex : Nat)
    (h : flaggedOf facts kinds syncs nFields nMutex = [])
    (f : Nat) (hne : f ∉ exemptFields facts kinds syncs nFields)
    (ts : List (Nat × Thread)) (hc : ∀ p ∈ ts, Conforms facts p.1 p.2) :
    ∀ c, Reach (initCfg (ts.map (·.2))) c → ¬ Race c f := by
  apply clean_field_race_free facts f ((guardsOf facts nMutex nFields).getD f 0) ts hc
  intro x hx hcx hfx
  have hok := all_of_filter_nil _ facts h x hx
  simp only [factOk, hcx, hfx, Bool.not_true, Bool.false_or, Bool.or_eq_true] at hok
  rcases hok with he | hh
  · exact absurd (List.contains_iff_mem.1 he) hne
  · exact hh

/-- a miniature of the lifecycle fix (mutex 0 = screen, 1 = lifecycle; fields 0 = cells, 1 = wg.state, 2 = a sync
    primitive; entries 0 = SetContent, 1 = Resume/engage, 2 = Suspend/disengage): wg.Add holds {0,1}, wg.Wait holds {1},
    the tail of disengage writes cells holding {0,1}, SetContent writes cells holding {0} … -/
def miniFixed : List Fact :=
  [⟨0, 0, true, [0], true, false⟩, ⟨1, 0, true, [0, 1], true, false⟩, ⟨1, 1, true, [0, 1], true, false⟩,
   ⟨2, 1, false, [1], true, true⟩, ⟨2, 0, true, [0, 1], true, true⟩]

/-- … nothing is flagged (the hypothesis of `discipline_sound` is satisfiable with two mutexes): cells is guarded by the
    screen mutex, wg.state by lifecycle -/
example : flaggedOf miniFixed [0, 0, 0] [2] 3 2 = [] ∧ guardsOf miniFixed 2 3 = [0, 1, 0] ∧
    0 ∉ exemptFields miniFixed [0, 0, 0] [2] 3 ∧ 1 ∉ exemptFields miniFixed [0, 0, 0] [2] 3 := by decide

/-- the pinned shape (wg.Wait and the tail hold nothing): exactly the two accesses of disengage are flagged -/
example : flaggedOf [⟨0, 0, true, [0], true, false⟩, ⟨1, 0, true, [0], true, false⟩, ⟨1, 1, true, [0], true, false⟩,
    ⟨2, 1, false, [], true, true⟩, ⟨2, 0, true, [], true, true⟩] [0, 0, 0] [2] 3 1
    = [⟨2, 1, false, [], true, true⟩, ⟨2, 0, true, [], true, true⟩] := by decide

/-- the mutant "engage does not take lifecycle" (wg.Add holds {0}, wg.Wait holds {1}): the lock sets of wg.state are
    disjoint, the access that does not hold the lowest-numbered candidate (the Wait) is flagged — cf. `disjoint_locks_race` -/
example : flaggedOf [⟨0, 0, true, [0], true, false⟩, ⟨1, 0, true, [0], true, false⟩, ⟨1, 1, true, [0], true, false⟩,
    ⟨2, 1, false, [1], true, true⟩, ⟨2, 0, true, [0, 1], true, true⟩] [0, 0, 0] [2] 3 2
    = [⟨2, 1, false, [1], true, true⟩] := by decide

/-! ## the discipline on the regenerated facts -/

open Tcell.Gen.LockFacts in
/-- **exempt_exact.**  The kernel recomputes the classification of every struct field from the regenerated facts
    (synchronisation primitive by declared type / never written in the concurrent phase / confined to one internal
    goroutine) and finds the exempt list the translator reported. -/
theorem exempt_exact : exemptFields facts entryKind syncFields nFields = exempt := by decide +kernel

open Tcell.Gen.LockFacts in
/-- **guards_exact.**  The kernel recomputes for every field the mutex its accesses are judged against — a mutex in the
    intersection of the lock sets of all its concurrent-phase accesses when there is one — and finds the list the
    translator reported. -/
theorem guards_exact : guardsOf facts nMutexes nFields = guards := by decide +kernel

open Tcell.Gen.LockFacts in
/-- **flagged_exact.**  The kernel recomputes, with the Lean definition of the discipline, the list of violating
    facts from the regenerated `facts` and finds exactly the list the translator reported (`flagged`).  On the
    pinned tree the list is not empty: it consists of the accesses the tail of disengage makes without any mutex
    (entered from Suspend and Fini; `wg.Wait` included: `wg.Add` holds the screen mutex, `wg.Wait` nothing).  With fix
    C10-disengage-lifecycle it is empty.  The race harness must reproduce every flagged entry point. -/
theorem flagged_exact : flaggedOf facts entryKind syncFields nFields nMutexes = flagged := by
  unfold flaggedOf
  rw [exempt_exact, guards_exact]
  decide +kernel

open Tcell.Gen.LockFacts in
/-- the discipline on one fact of the tree under test: init-phase access, or exempt field (synchronisation primitive,
    never written in the concurrent phase, or confined to one internal goroutine), or the access holds the field's guard -/
abbrev FactOkTree (x : Fact) : Prop :=
  factOk (exemptFields facts entryKind syncFields nFields) (guardsOf facts nMutexes nFields) x = true

open Tcell.Gen.LockFacts in
/-- **discipline_partial.**  Every extracted fact outside the flagged list respects the lockset discipline.
    WHY PARTIAL on the pinned tree: the full `discipline` — `flagged = []` — is false there.  After /repo da67ed6
    (Beep, CanDisplay, SetSize) and 5249fc9 (simscreen methods) the regenerated `flagged` list consists exactly of the
    accesses made by the tail of `disengage` when entered from `tscreen/Fini` and `tscreen/Suspend` (`flagged_only_disengage`:
    `wg.state`, `cells`, `buffering`, `buf`, `tty.out`, `cursorShaped`, `cursorTinted` after the lock was released for
    `wg.Wait`): the findings `C10-disengage-tail` / `C10-loops-overlap`, reproduced by engine `race` under the race
    detector on every run.  On a tree with fix C10-disengage-lifecycle `flagged = []` and `discipline_tree` is the
    full statement. -/
theorem discipline_partial : ∀ x ∈ facts, x ∈ flagged ∨ FactOkTree x := by
  intro x hx
  have := mem_filter_not (factOk (exemptFields facts entryKind syncFields nFields) (guardsOf facts nMutexes nFields)) facts x hx
  rw [← flagged_exact]
  exact this

open Tcell.Gen.LockFacts in
/-- the two entry points whose `disengage` tail is the finding on the pinned tree -/
def disengageEntries : List Nat := [entryNames.idxOf "tscreen/Fini", entryNames.idxOf "tscreen/Suspend"]

open Tcell.Gen.LockFacts in
/-- on the tree under test every flagged fact belongs to `tscreen/Fini` or `tscreen/Suspend`, is a concurrent-phase access
    that does not hold the screen mutex, and both names are real entry points (kernel evaluation over the regenerated
    facts); mutex 0 is the embedded mutex of tScreen -/
theorem flagged_only_disengage :
    flagged.all (fun x => disengageEntries.contains x.entry && x.conc && !x.holds screenMutex) = true ∧
    disengageEntries.all (fun e => decide (e < entryNames.length)) = true ∧
    mutexNames.head? = some "tscreen/Mutex" := by decide +kernel

open Tcell.Gen.LockFacts in
/-- **discipline_except_disengage** (full strength for every other entry point, either variant of the tree): every extracted
    fact of EVERY entry point of tScreen and simscreen other than `tscreen/Fini` and `tscreen/Suspend` — Beep, SetSize,
    CanDisplay and the simscreen methods that were flagged before da67ed6 / 5249fc9 included — respects the lockset discipline. -/
theorem discipline_except_disengage : ∀ x ∈ facts, x.entry ∉ disengageEntries → FactOkTree x := by
  intro x hx hne
  rcases discipline_partial x hx with hf | hok
  · exfalso
    have := List.all_eq_true.1 flagged_only_disengage.1 x hf
    simp only [Bool.and_eq_true, List.contains_iff_mem] at this
    exact hne (by simpa using this.1.1)
  · exact hok

open Tcell.Gen.LockFacts in
/-- non-vacuity: facts of the formerly flagged entry points exist and are covered (Beep writes `buf` holding the screen mutex) -/
example : ∃ x ∈ facts, x.entry = entryNames.idxOf "tscreen/Beep" ∧ x.entry ∉ disengageEntries ∧ x.wr = true ∧ x.holds screenMutex = true := by
  decide +kernel

open Tcell.Gen.LockFacts in
/-- **discipline** (full strength, no exception): when the regenerated flagged list is empty EVERY extracted fact of EVERY
    entry point — Fini and Suspend included — respects the discipline. -/
theorem discipline (h : flagged = []) : ∀ x ∈ facts, FactOkTree x := by
  intro x hx
  rcases discipline_partial x hx with hf | hok
  · rw [h] at hf; cases hf
  · exact hok

open Tcell.Gen.LockFacts in
/-- **discipline_tree** (headline; the kernel decides which variant the tree under test is): on a tree whose regenerated
    flagged list is empty (fix C10-disengage-lifecycle: the `lifecycle` mutex serialises engage/disengage — `wg.Add`
    holds {lifecycle, screen}, `wg.Wait` holds {lifecycle}, the tail of disengage holds both) every fact respects the
    discipline, unconditionally; on the pinned tree every fact of every entry point but Fini/Suspend does. -/
theorem discipline_tree :
    if flagged.isEmpty then ∀ x ∈ facts, FactOkTree x
    else ∀ x ∈ facts, x.entry ∉ disengageEntries → FactOkTree x := by
  split
  · rename_i h
    exact discipline (List.isEmpty_iff.1 h)
  · exact discipline_except_disengage

open Tcell.Gen.LockFacts in
/-- fields of class "must be guarded" that no flagged fact mentions: on these `clean_field_race_free` applies -/
def cleanFields : List Nat :=
  (List.range nFields).filter fun f => !exempt.contains f && !flagged.any (·.field == f)

open Tcell.Gen.LockFacts in
/-- **clean_fields_held.**  For every clean field all concurrent-phase facts hold the field's guard mutex (kernel
    evaluation on the regenerated facts) … -/
theorem clean_fields_held : ∀ f ∈ cleanFields, ∀ x ∈ facts, x.conc = true → x.field = f → x.holds (guards.getD f 0) = true := by
  have h : (cleanFields.all fun f => facts.all fun x => !(x.conc && x.field == f) || x.holds (guards.getD f 0)) = true := by decide +kernel
  intro f hf x hx hc he
  have h1 := List.all_eq_true.1 h f hf
  have h2 := List.all_eq_true.1 h1 x hx
  simp [hc, he] at h2
  exact h2

open Tcell.Gen.LockFacts in
/-- … hence **no schedule of any set of goroutines running extracted entry points races on a clean field**
    (on the pinned tree exactly the guarded-class fields that the tail of disengage does not touch; with fix
    C10-disengage-lifecycle every guarded-class field, see `fields_race_free_tree`). -/
theorem clean_fields_race_free (f : Nat) (hf : f ∈ cleanFields) (ts : List (Nat × Thread))
    (hc : ∀ p ∈ ts, Conforms facts p.1 p.2) : ∀ c, Reach (initCfg (ts.map (·.2))) c → ¬ Race c f :=
  clean_field_race_free facts f (guards.getD f 0) ts hc (clean_fields_held f hf)

open Tcell.Gen.LockFacts in
/-- the clean list is not vacuous on the current tree -/
example : cleanFields ≠ [] := by decide +kernel

open Tcell.Gen.LockFacts in
/-- when nothing is flagged every field that needs protection is clean -/
theorem clean_fields_all (h : flagged = []) (f : Nat) (hlt : f < nFields) (hne : f ∉ exempt) : f ∈ cleanFields := by
  unfold cleanFields
  rw [List.mem_filter]
  refine ⟨List.mem_range.2 hlt, ?_⟩
  rw [h]
  simp [hne]

open Tcell.Gen.LockFacts in
/-- **fields_race_free_tree** (headline; the kernel decides which variant the tree under test is): on a tree whose
    regenerated flagged list is empty, for EVERY struct field of tScreen and simscreen that is not exempt (synchronisation
    primitive / init-only / confined to one internal goroutine) no schedule of any set of goroutines running extracted
    entry points has a data race — `cells`, `buf`, `tty.out`, `running`, `wg.state`, the cursor state … included; on the
    pinned tree the statement is the `cleanFields` one. -/
theorem fields_race_free_tree (f : Nat) (ts : List (Nat × Thread)) (hc : ∀ p ∈ ts, Conforms facts p.1 p.2) :
    if flagged.isEmpty then (f < nFields → f ∉ exempt → ∀ c, Reach (initCfg (ts.map (·.2))) c → ¬ Race c f)
    else (f ∈ cleanFields → ∀ c, Reach (initCfg (ts.map (·.2))) c → ¬ Race c f) := by
  split
  · rename_i h
    intro hlt hne
    exact clean_fields_race_free f (clean_fields_all (List.isEmpty_iff.1 h) f hlt hne) ts hc
  · intro hf
    exact clean_fields_race_free f hf ts hc

open Tcell.Gen.LockFacts in
/-- `wg.state` (the pseudo-field standing for the WaitGroup counter: `Add` a write, `Wait` a read, `Done` pure
    synchronisation) is a field that needs protection on either variant — so `fields_race_free_tree` is about it — and
    `running`, `cells`, `buf`, `tty.out` are too -/
example : ["tscreen/wg.state", "tscreen/running", "tscreen/cells", "tscreen/buf", "tscreen/tty.out"].all
    (fun n => decide (fieldNames.idxOf n < nFields) && !exempt.contains (fieldNames.idxOf n)) = true := by decide +kernel

open Tcell.Gen.LockFacts in
/-- `Conforms` is satisfiable on the regenerated facts: the path `Lock; t.style = …; Unlock` of SetStyle (tscreen.go:687) -/
example : Conforms facts (entryNames.idxOf "tscreen/SetStyle")
    [.lock 0, .wr (fieldNames.idxOf "tscreen/style"), .unlock 0] := by
  intro a ha
  simp only [accessesOf, List.mem_singleton] at ha
  subst ha
  refine ⟨⟨entryNames.idxOf "tscreen/SetStyle", fieldNames.idxOf "tscreen/style", true, [0], true, false⟩, by decide +kernel, rfl, rfl, rfl, rfl, ?_⟩
  intro k hk
  simp at hk
  subst hk
  rfl

/-! ## Show reaches the tty as one contiguous block -/

/-- invariant about the screen mutex (mutex 0) and the output log; the other mutexes play no role -/
def BInv (c : Cfg) : Prop :=
  (∀ i j, (c.th i).holds 0 = true → (c.th j).holds 0 = true → i = j) ∧
  (∀ i, EmitGuarded ((c.th i).holds 0) (c.th i).rest) ∧
  Chunked (tags c) ∧
  (∀ i k, (i, k) ∈ tags c → k ≤ (c.th i).sec) ∧
  (∀ i, (c.th i).holds 0 = true → (i, (c.th i).sec) ∈ tags c → (tags c).head? = some (i, (c.th i).sec))

theorem binv_init (ts : List Thread) (h : ∀ t ∈ ts, EmitGuarded false t) : BInv (initCfg ts) := by
  refine ⟨?_, ?_, ?_, ?_, ?_⟩
  · intro i j hi; simp [initCfg] at hi
  · intro i
    simp only [initCfg]
    rcases getD_mem_or_nil ts i with hm | hn
    · exact h _ hm
    · rw [hn]; exact True.intro
  · simp [tags, initCfg, Chunked]
  · intro i k hk; simp [tags, initCfg] at hk
  · intro i hi; simp [initCfg] at hi

/-- the step of thread `i` replaced its state by one with the same screen-mutex bit and the same section counter:
    the whole invariant, except for the `EmitGuarded` clause of thread `i` itself, carries over -/
theorem binv_frame {c : Cfg} {i : Nat} {s : TState} (hi : BInv c)
    (hh : s.holds 0 = (c.th i).holds 0) (hs : s.sec = (c.th i).sec) (hg : EmitGuarded (s.holds 0) s.rest) :
    BInv ⟨upd c.th i s, c.log⟩ := by
  obtain ⟨hmx, hgd, hch, hbd, hhd⟩ := hi
  have hold : ∀ a, (upd c.th i s a).holds 0 = (c.th a).holds 0 := by
    intro a; by_cases ea : a = i
    · subst ea; simpa [upd] using hh
    · simp [upd, ea]
  have hsec : ∀ a, (upd c.th i s a).sec = (c.th a).sec := by
    intro a; by_cases ea : a = i
    · subst ea; simpa [upd] using hs
    · simp [upd, ea]
  refine ⟨?_, ?_, hch, ?_, ?_⟩
  · intro a b ha hb; rw [hold] at ha hb; exact hmx a b ha hb
  · intro k
    by_cases ek : k = i
    · subst ek; simpa [upd] using hg
    · simpa [upd, ek] using hgd k
  · intro a k hk; show k ≤ (upd c.th i s a).sec; rw [hsec]; exact hbd a k hk
  · intro a ha hin
    show (tags c).head? = some (a, (upd c.th i s a).sec)
    have ha' : (c.th a).holds 0 = true := by rw [← hold]; exact ha
    have hin' : (a, (c.th a).sec) ∈ tags c := by rw [← hsec]; exact hin
    rw [hsec]; exact hhd a ha' hin'

theorem binv_step {c c' : Cfg} (hi : BInv c) (hs : Step c c') : BInv c' := by
  cases hs with
  | @lock i k r hr hfree =>
    by_cases hk : k = 0
    · subst hk
      obtain ⟨hmx, hg, hch, hbd, hhd⟩ := hi
      refine ⟨?_, ?_, hch, ?_, ?_⟩
      · intro a b ha hb
        by_cases ea : a = i <;> by_cases eb : b = i
        · rw [ea, eb]
        · simp [upd, eb] at hb; rw [hfree b] at hb; cases hb
        · simp [upd, ea] at ha; rw [hfree a] at ha; cases ha
        · simp [upd, ea] at ha; rw [hfree a] at ha; cases ha
      · intro j
        by_cases ej : j = i
        · subst ej; have := hg j; rw [hr] at this; simpa [EmitGuarded] using this
        · simpa [upd, ej] using hg j
      · intro a k hk
        have := hbd a k hk
        by_cases ea : a = i
        · subst ea; simp [upd]; omega
        · simpa [upd, ea] using this
      · intro a ha hin
        by_cases ea : a = i
        · subst ea
          simp [upd] at hin
          have := hbd a _ hin
          omega
        · simp [upd, ea] at ha; rw [hfree a] at ha; cases ha
    · have hgi := hi.2.1 i
      rw [hr] at hgi
      exact binv_frame hi (setHold_other _ _ _ _ (fun h0 => hk h0.symm)) (by simp [hk])
        (by simpa [EmitGuarded, hk, setHold, Ne.symm hk] using hgi)
  | @unlock i k r hr hh =>
    by_cases hk : k = 0
    · subst hk
      obtain ⟨hmx, hg, hch, hbd, hhd⟩ := hi
      refine ⟨?_, ?_, hch, ?_, ?_⟩
      · intro a b ha hb
        by_cases ea : a = i
        · subst ea; simp [upd] at ha
        · by_cases eb : b = i
          · subst eb; simp [upd] at hb
          · simp [upd, ea] at ha; simp [upd, eb] at hb; exact hmx a b ha hb
      · intro j
        by_cases ej : j = i
        · subst ej; have := hg j; rw [hr] at this; simpa [EmitGuarded] using this
        · simpa [upd, ej] using hg j
      · intro a k hk
        have := hbd a k hk
        by_cases ea : a = i
        · subst ea; simpa [upd] using this
        · simpa [upd, ea] using this
      · intro a ha hin
        by_cases ea : a = i
        · subst ea; simp [upd] at ha
        · simp [upd, ea] at ha hin ⊢; exact hhd a ha hin
    · have hgi := hi.2.1 i
      rw [hr] at hgi
      exact binv_frame hi (setHold_other _ _ _ _ (fun h0 => hk h0.symm)) rfl
        (by simpa [EmitGuarded, hk, setHold, Ne.symm hk] using hgi)
  | @rd i g r hr =>
    have hgi := hi.2.1 i
    rw [hr] at hgi
    exact binv_frame hi rfl rfl (by simpa [EmitGuarded] using hgi)
  | @wr i g r hr =>
    have hgi := hi.2.1 i
    rw [hr] at hgi
    exact binv_frame hi rfl rfl (by simpa [EmitGuarded] using hgi)
  | @emit i b r hr =>
    obtain ⟨hmx, hg, hch, hbd, hhd⟩ := hi
    have hgi := hg i
    rw [hr] at hgi
    have hih : (c.th i).holds 0 = true := hgi.1
    have htag : tags ⟨upd c.th i ⟨(c.th i).holds, (c.th i).sec, r⟩, (i, (c.th i).sec, b) :: c.log⟩
        = (i, (c.th i).sec) :: tags c := by simp [tags]
    refine ⟨?_, ?_, ?_, ?_, ?_⟩
    · intro a b' ha hb
      exact hmx a b' (holds_upd_same ha) (holds_upd_same hb)
    · intro k
      by_cases ek : k = i
      · subst ek; simp only [upd_same]; exact hgi.2
      · simpa [upd, ek] using hg k
    · rw [htag]
      exact ⟨hch, fun hin => hhd i hih hin⟩
    · intro a k hk
      rw [htag] at hk
      rcases List.mem_cons.1 hk with he | hm
      · cases he; simp [upd]
      · have := hbd a k hm
        by_cases ea : a = i
        · subst ea; simpa [upd] using this
        · simpa [upd, ea] using this
    · intro a ha _
      rw [htag]
      have ha' : (c.th a).holds 0 = true := holds_upd_same ha
      have : a = i := hmx a i ha' hih
      subst this
      simp [upd]

theorem binv_reach {c0 c : Cfg} (h0 : BInv c0) (hr : Reach c0 c) : BInv c := by
  induction hr with
  | refl => exact h0
  | step _ hs ih => exact binv_step ih hs

/-- **show_block_contiguous** (model level).  If every emission to the tty, in every thread, is made while
    holding the screen mutex (mutex 0; whatever other mutexes the threads take, `lifecycle` of the fix included),
    then in every reachable configuration — any number of threads, any schedule — the
    output stream is a sequence of runs, one per (thread, critical section): what one critical section (one
    Show: draw buffers and issues its single Write under the lock) emitted is never split by foreign bytes. -/
theorem blocks_contiguous (ts : List Thread) (h : ∀ t ∈ ts, EmitGuarded false t) :
    ∀ c, Reach (initCfg ts) c → Chunked (tags c) :=
  fun _ hr => (binv_reach (binv_init ts h) hr).2.2.1

theorem chunked_tail {α : Type} {a : α} {l : List α} (h : Chunked (a :: l)) : Chunked l := h.1

theorem chunked_drop {α : Type} (l1 l : List α) (h : Chunked (l1 ++ l)) : Chunked l := by
  induction l1 with
  | nil => exact h
  | cons a l1 ih => exact ih (chunked_tail h)

/-- what `Chunked` means: between two occurrences of the same tag there are only occurrences of that tag -/
theorem chunked_no_split {α : Type} (a : α) (l2 : List α) : ∀ (l1 l3 : List α),
    Chunked (l1 ++ a :: (l2 ++ a :: l3)) → ∀ b ∈ l2, b = a := by
  induction l2 with
  | nil => intro _ _ _ b hb; cases hb
  | cons x l2 ih =>
    intro l1 l3 h b hb
    have h1 : Chunked (a :: (x :: l2 ++ a :: l3)) := chunked_drop l1 _ h
    have hx : x = a := by
      have := h1.2 (by simp)
      simp at this
      exact this
    rcases List.mem_cons.1 hb with rfl | hb'
    · exact hx
    · subst hx
      exact ih [x] l3 (by simpa using h1) b hb'

/-- hypotheses of `blocks_contiguous` are satisfiable: two Show-like threads and a Beep-like thread that takes the lock -/
example : ∀ t ∈ [[Action.lock 0, .emit 27, .emit 91, .unlock 0, .lock 0, .emit 27, .unlock 0], [Action.lock 0, .emit 7, .unlock 0],
                 [Action.lock 1, .lock 0, .emit 27, .unlock 0, .wr 2, .lock 0, .emit 99, .unlock 0, .unlock 1]],
    EmitGuarded false t := by
  intro t ht
  simp at ht
  rcases ht with rfl | rfl | rfl <;> simp [EmitGuarded]

/-- and an unlocked emitter (Beep as it is, tscreen.go:2100) does split a block in the model:
    thread 0 = Show emitting bytes 1,2 under the lock, thread 1 = Beep emitting 7 without it -/
theorem unguarded_emit_splits : ∃ c, Reach (initCfg [[Action.lock 0, .emit 1, .emit 2, .unlock 0], [Action.emit 7]]) c ∧
    ¬ Chunked (tags c) := by
  let c0 := initCfg [[Action.lock 0, .emit 1, .emit 2, .unlock 0], [Action.emit 7]]
  have s1 : Step c0 _ := Step.lock (i := 0) (m := 0) (r := [.emit 1, .emit 2, .unlock 0]) rfl (by intro j; simp [c0, initCfg])
  have s2 := Step.emit (c := ⟨upd c0.th 0 ⟨setHold (c0.th 0).holds 0 true, (c0.th 0).sec + (if (0:Nat) = 0 then 1 else 0), [.emit 1, .emit 2, .unlock 0]⟩, c0.log⟩) (i := 0) (b := 1) (r := [.emit 2, .unlock 0]) (by simp [upd])
  have s3 := Step.emit (c := _) (i := 1) (b := 7) (r := []) (by simp [upd, c0, initCfg]) |> Reach.step (Reach.step (Reach.step Reach.refl s1) s2)
  refine ⟨_, Reach.step s3 (Step.emit (i := 0) (b := 2) (r := [.unlock 0]) (by simp [upd])), ?_⟩
  simp [tags, Chunked, upd, c0, initCfg]

open Tcell.Gen.LockFacts in
/-- **show_block_shape** (facts level; kernel-evaluated on the regenerated facts).  (1) draw sets `buffering` before
    its first emission, resets it in a deferred function and hands `buf` to the tty exactly once, as its last
    statement; the only other functions that hand `t.tty` to a writer are writeString and TPuts and both choose
    `&t.buf` when `buffering`.  (2) Every fact of `Show`, `Sync` and `mainLoop` on `buf`, `buffering` and `tty.out` holds
    the screen mutex.  Together with `blocks_contiguous`: a Show's bytes form one block; the block can only be split or
    polluted by an entry point that is *flagged* on `buf`/`buffering`/`tty.out`. -/
theorem show_block_shape :
    (drawSetsBuffering && drawResetsBufferingDeferred && drawSingleFinalWrite && writersBranchOnBuffering) = true ∧
    (facts.all fun x =>
      !(x.conc && (entryNames.getD x.entry "" == "tscreen/Show" || entryNames.getD x.entry "" == "tscreen/Sync" ||
                   entryNames.getD x.entry "" == "tscreen/mainLoop") &&
        (fieldNames.getD x.field "" == "tscreen/buf" || fieldNames.getD x.field "" == "tscreen/buffering" ||
         fieldNames.getD x.field "" == "tscreen/tty.out")) || x.holds screenMutex) = true := by
  constructor <;> decide +kernel

end Tcell.Props.C10
