import Tcell.Model.Lockset
import Tcell.Gen.LockFacts
/-
Property C10 — concurrent use of one Screen from several goroutines is free of data races, and each Show reaches
the terminal as one contiguous block.

PARTIAL by construction (DESIGN.md §5 C10): the theorems are about the *extracted* model.  `lockset_sound`,
`clean_field_race_free` and `blocks_contiguous` are generic (all thread counts, all schedules, all programs);
`flagged_exact` / `discipline_partial` are evaluated by the kernel on the facts the translator regenerates from
tscreen.go / screen.go / simulation.go on every run.  Go's memory model (go statement, channels, WaitGroup, Once)
is axiomatised through the phase classification of the facts; the facts are as good as the translator, which is
validated in both directions by the race detector (lib/props/C10.py, harness/race).
-/
namespace Tcell.Props.C10
open Tcell.Model.Lockset

/-! ## the lockset theorem -/

/-- invariant: at most one thread holds the mutex, and what is left of every thread is still `Guarded` from the
    lock state the thread is really in -/
def Inv (f : Nat) (c : Cfg) : Prop :=
  (∀ i j, (c.th i).holds = true → (c.th j).holds = true → i = j) ∧ (∀ i, Guarded f (c.th i).holds (c.th i).rest)

theorem getD_mem_or_nil {α : Type} (ts : List (List α)) (i : Nat) : ts.getD i [] ∈ ts ∨ ts.getD i [] = [] := by
  induction ts generalizing i with
  | nil => right; rfl
  | cons t ts ih =>
    cases i with
    | zero => left; simp
    | succ n =>
      rcases ih n with h | h
      · left; simp only [List.getD_cons_succ]; exact List.mem_cons_of_mem _ h
      · right; simp only [List.getD_cons_succ]; exact h

theorem inv_init (f : Nat) (ts : List Thread) (h : ∀ t ∈ ts, Guarded f false t) : Inv f (initCfg ts) := by
  refine ⟨?_, ?_⟩
  · intro i j hi; simp [initCfg] at hi
  · intro i
    simp only [initCfg]
    rcases getD_mem_or_nil ts i with hm | hn
    · exact h _ hm
    · rw [hn]; exact True.intro

theorem inv_step (f : Nat) {c c' : Cfg} (hi : Inv f c) (hs : Step c c') : Inv f c' := by
  obtain ⟨hmx, hg⟩ := hi
  cases hs with
  | @lock i r hr hfree =>
    refine ⟨?_, ?_⟩
    · intro a b ha hb
      by_cases ea : a = i <;> by_cases eb : b = i
      · rw [ea, eb]
      · simp [upd, eb] at hb; rw [hfree b] at hb; cases hb
      · simp [upd, ea] at ha; rw [hfree a] at ha; cases ha
      · simp [upd, ea] at ha; rw [hfree a] at ha; cases ha
    · intro k
      by_cases ek : k = i
      · subst ek; have := hg k; rw [hr] at this; simpa [Guarded] using this
      · simpa [upd, ek] using hg k
  | @unlock i r hr hh =>
    refine ⟨?_, ?_⟩
    · intro a b ha hb
      by_cases ea : a = i
      · subst ea; simp [upd] at ha
      · by_cases eb : b = i
        · subst eb; simp [upd] at hb
        · simp [upd, ea] at ha; simp [upd, eb] at hb; exact hmx a b ha hb
    · intro k
      by_cases ek : k = i
      · subst ek; have := hg k; rw [hr] at this; simpa [Guarded] using this
      · simpa [upd, ek] using hg k
  | @rd i g r hr =>
    refine ⟨?_, ?_⟩
    · intro a b ha hb
      have ha' : (c.th a).holds = true := by
        by_cases ea : a = i
        · subst ea; simpa [upd] using ha
        · simpa [upd, ea] using ha
      have hb' : (c.th b).holds = true := by
        by_cases eb : b = i
        · subst eb; simpa [upd] using hb
        · simpa [upd, eb] using hb
      exact hmx a b ha' hb'
    · intro k
      by_cases ek : k = i
      · subst ek; have := hg k; rw [hr] at this; simp only [upd_same]; exact this.2
      · simpa [upd, ek] using hg k
  | @wr i g r hr =>
    refine ⟨?_, ?_⟩
    · intro a b ha hb
      have ha' : (c.th a).holds = true := by
        by_cases ea : a = i
        · subst ea; simpa [upd] using ha
        · simpa [upd, ea] using ha
      have hb' : (c.th b).holds = true := by
        by_cases eb : b = i
        · subst eb; simpa [upd] using hb
        · simpa [upd, eb] using hb
      exact hmx a b ha' hb'
    · intro k
      by_cases ek : k = i
      · subst ek; have := hg k; rw [hr] at this; simp only [upd_same]; exact this.2
      · simpa [upd, ek] using hg k
  | @emit i b r hr =>
    refine ⟨?_, ?_⟩
    · intro a b' ha hb
      have ha' : (c.th a).holds = true := by
        by_cases ea : a = i
        · subst ea; simpa [upd] using ha
        · simpa [upd, ea] using ha
      have hb' : (c.th b').holds = true := by
        by_cases eb : b' = i
        · subst eb; simpa [upd] using hb
        · simpa [upd, eb] using hb
      exact hmx a b' ha' hb'
    · intro k
      by_cases ek : k = i
      · subst ek; have := hg k; rw [hr] at this; simp only [upd_same]; exact this
      · simpa [upd, ek] using hg k

theorem inv_reach (f : Nat) {c0 c : Cfg} (h0 : Inv f c0) (hr : Reach c0 c) : Inv f c := by
  induction hr with
  | refl => exact h0
  | step _ hs ih => exact inv_step f ih hs

/-- a thread about to access a guarded field holds the mutex -/
theorem holds_of_nextAccess {f : Nat} {s : TState} {w : Bool} (hg : Guarded f s.holds s.rest)
    (hn : nextAccess s f = some w) : s.holds = true := by
  unfold nextAccess at hn
  split at hn
  · rename_i g r heq
    rw [heq] at hg
    by_cases e : g = f
    · exact hg.1 e
    · simp [e] at hn
  · rename_i g r heq
    rw [heq] at hg
    by_cases e : g = f
    · exact hg.1 e
    · simp [e] at hn
  · cases hn

/-- **lockset_sound.**  If every access to field `f` in every thread is made while that thread holds the mutex,
    then no reachable configuration — for any number of threads, any programs, any schedule — has a data race on `f`. -/
theorem lockset_sound (ts : List Thread) (f : Nat) (h : ∀ t ∈ ts, Guarded f false t) :
    ∀ c, Reach (initCfg ts) c → ¬ Race c f := by
  intro c hr ⟨i, j, wi, wj, hne, hi, hj, _⟩
  have inv := inv_reach f (inv_init f ts h) hr
  exact hne (inv.1 i j (holds_of_nextAccess (inv.2 i) hi) (holds_of_nextAccess (inv.2 j) hj))

/-- the hypothesis of `lockset_sound` is satisfiable by a non-trivial program: two threads that both lock, write
    and read field 3, unlock — and touch another field (5) without the lock -/
example : ∀ t ∈ [[Action.lock, .wr 3, .rd 3, .unlock, .wr 5], [Action.rd 5, .lock, .wr 3, .unlock]], Guarded 3 false t := by
  intro t ht
  simp at ht
  rcases ht with rfl | rfl <;> simp [Guarded]

/-- the model does exhibit races when the discipline is broken: an unlocked writer (Beep-like) against a locked
    writer (draw-like) on the same field races in a reachable configuration -/
theorem unguarded_races : ∃ c, Reach (initCfg [[Action.wr 7], [Action.lock, .wr 7, .unlock]]) c ∧ Race c 7 := by
  refine ⟨_, Reach.step Reach.refl (Step.lock (i := 1) (r := [.wr 7, .unlock]) rfl (by intro j; simp [initCfg])), ?_⟩
  refine ⟨0, 1, true, true, by decide, ?_, ?_, Or.inl rfl⟩
  · simp [upd, initCfg, nextAccess]
  · simp [upd, initCfg, nextAccess]

/-! ## from facts to threads -/

theorem guarded_of_conforms_aux (facts : List Fact) (e f : Nat)
    (hf : ∀ x ∈ facts, x.entry = e → x.conc = true → x.field = f → x.held = true) :
    ∀ (t : Thread) (h : Bool), (∀ a ∈ accessesOf h t, ∃ nl, (⟨e, a.1, a.2.1, a.2.2, true, nl⟩ : Fact) ∈ facts) → Guarded f h t := by
  intro t
  induction t with
  | nil => intro h _; exact True.intro
  | cons a r ih =>
    intro h hc
    cases a with
    | lock => exact ih true (by simpa [accessesOf] using hc)
    | unlock => exact ih false (by simpa [accessesOf] using hc)
    | rd g =>
      refine ⟨?_, ih h (fun a ha => hc a (by simp [accessesOf, ha]))⟩
      intro eg
      obtain ⟨nl, hm⟩ := hc (g, false, h) (by simp [accessesOf])
      exact hf _ hm rfl rfl eg
    | wr g =>
      refine ⟨?_, ih h (fun a ha => hc a (by simp [accessesOf, ha]))⟩
      intro eg
      obtain ⟨nl, hm⟩ := hc (g, true, h) (by simp [accessesOf])
      exact hf _ hm rfl rfl eg
    | emit b => exact ih h (by simpa [accessesOf] using hc)

/-- **clean_field_race_free.**  Take any finite set of goroutines, each running any execution path of any entry
    point (a thread whose accesses are among the concurrent-phase facts extracted for that entry point).  If all
    concurrent-phase facts on field `f` are lock-held, no reachable configuration has a race on `f`. -/
theorem clean_field_race_free (facts : List Fact) (f : Nat) (ts : List (Nat × Thread))
    (hc : ∀ p ∈ ts, Conforms facts p.1 p.2)
    (hf : ∀ x ∈ facts, x.conc = true → x.field = f → x.held = true) :
    ∀ c, Reach (initCfg (ts.map (·.2))) c → ¬ Race c f := by
  apply lockset_sound
  intro t ht
  obtain ⟨p, hp, rfl⟩ := List.mem_map.1 ht
  exact guarded_of_conforms_aux facts p.1 f (fun x hx _ hcx hfx => hf x hx hcx hfx) p.2 false (hc p hp)

/-! ## the discipline on the regenerated facts -/

open Tcell.Gen.LockFacts in
/-- **exempt_exact.**  The kernel recomputes the classification of every struct field from the regenerated facts
    (synchronisation primitive by declared type / never written in the concurrent phase / confined to one internal
    goroutine) and finds the exempt list the translator reported. -/
theorem exempt_exact : exemptFields facts entryKind syncFields nFields = exempt := by decide +kernel

open Tcell.Gen.LockFacts in
/-- **flagged_exact.**  The kernel recomputes, with the Lean definition of the discipline, the list of violating
    facts from the regenerated `facts` and finds exactly the list the translator reported (`flagged`).  On the
    pinned tree the list is not empty: it consists of the unlocked accesses of Beep, SetSize, CanDisplay
    (fallback map, encoder state), the tail of disengage (entered from Suspend and Fini), and, on simscreen, of
    Fini's tail, Enable/DisableMouse, Enable/DisablePaste, CanDisplay, SetTitle/GetTitle, SetClipboard/GetClipboard/
    GetClipboardData and InjectKeyBytes.  The race harness must reproduce every flagged entry point. -/
theorem flagged_exact : flaggedOf facts entryKind syncFields nFields = flagged := by
  unfold flaggedOf
  rw [exempt_exact]
  decide +kernel

theorem mem_filter_not {α : Type} (p : α → Bool) (l : List α) (x : α) (hx : x ∈ l) : x ∈ l.filter (fun y => !p y) ∨ p x = true := by
  cases h : p x
  · left; exact List.mem_filter.2 ⟨hx, by simp [h]⟩
  · right; rfl

open Tcell.Gen.LockFacts in
/-- **discipline_partial.**  Every extracted fact outside the flagged list respects the lockset discipline: it is
    an init-phase access, or the mutex is held, or the field is exempt (synchronisation primitive, never written in the
    concurrent phase, or confined to one internal goroutine).
    WHY STILL PARTIAL on the current tree: the full `discipline` — `flagged = []` — is still false.  After /repo da67ed6
    (Beep, CanDisplay, SetSize) and 5249fc9 (simscreen methods) the regenerated `flagged` list consists exactly of the
    accesses made by the tail of `disengage` when entered from `tscreen/Fini` and `tscreen/Suspend` (`flagged_only_disengage`:
    `wg.state`, `cells`, `buffering`, `buf`, `tty.out`, `cursorShaped`, `cursorTinted` after the lock was released for
    `wg.Wait`): the open findings `C10-disengage-tail` / `C10-loops-overlap`, reproduced by engine `race` under the race
    detector on every run (keeping the lock across `wg.Wait` deadlocks with the loops' exit path, so the repair is a
    restructuring of shutdown — not delivered).  What IS full strength now: `discipline_except_disengage` below. -/
theorem discipline_partial : ∀ x ∈ facts, x ∈ flagged ∨
    factOk (exemptFields facts entryKind syncFields nFields) x = true := by
  intro x hx
  have := mem_filter_not (factOk (exemptFields facts entryKind syncFields nFields)) facts x hx
  rw [← flagged_exact]
  exact this

open Tcell.Gen.LockFacts in
/-- the two entry points whose `disengage` tail is the open finding -/
def disengageEntries : List Nat := [entryNames.idxOf "tscreen/Fini", entryNames.idxOf "tscreen/Suspend"]

open Tcell.Gen.LockFacts in
/-- on the current tree every flagged fact belongs to `tscreen/Fini` or `tscreen/Suspend`, is a concurrent-phase access
    without the lock, and both names are real entry points (kernel evaluation over the regenerated facts) -/
theorem flagged_only_disengage :
    flagged.all (fun x => disengageEntries.contains x.entry && x.conc && !x.held) = true ∧
    disengageEntries.all (fun e => decide (e < entryNames.length)) = true := by decide +kernel

open Tcell.Gen.LockFacts in
/-- **discipline_except_disengage** (full strength for every other entry point, current tree): every extracted fact of
    EVERY entry point of tScreen and simscreen other than `tscreen/Fini` and `tscreen/Suspend` — Beep, SetSize, CanDisplay
    and the simscreen methods that were flagged on the pinned tree included — respects the lockset discipline. -/
theorem discipline_except_disengage : ∀ x ∈ facts, x.entry ∉ disengageEntries →
    factOk (exemptFields facts entryKind syncFields nFields) x = true := by
  intro x hx hne
  rcases discipline_partial x hx with hf | hok
  · exfalso
    have := List.all_eq_true.1 flagged_only_disengage.1 x hf
    simp only [Bool.and_eq_true, List.contains_iff_mem] at this
    exact hne (by simpa using this.1.1)
  · exact hok

open Tcell.Gen.LockFacts in
/-- non-vacuity: facts of the formerly flagged entry points exist and are covered (Beep writes `buf` holding the lock) -/
example : ∃ x ∈ facts, x.entry = entryNames.idxOf "tscreen/Beep" ∧ x.entry ∉ disengageEntries ∧ x.wr = true ∧ x.held = true := by
  decide +kernel

open Tcell.Gen.LockFacts in
/-- fields of class "must be guarded" that no flagged fact mentions: on these `clean_field_race_free` applies -/
def cleanFields : List Nat :=
  (List.range nFields).filter fun f => !exempt.contains f && !flagged.any (·.field == f)

theorem all_of_filter_nil {α : Type} (p : α → Bool) (l : List α) (h : l.filter (fun y => !p y) = []) : ∀ x ∈ l, p x = true := by
  intro x hx
  rcases mem_filter_not p l x hx with hm | hp
  · rw [h] at hm; cases hm
  · exact hp

open Tcell.Gen.LockFacts in
/-- **clean_fields_held.**  For every clean field all concurrent-phase facts are lock-held (kernel evaluation on the
    regenerated facts) … -/
theorem clean_fields_held : ∀ f ∈ cleanFields, ∀ x ∈ facts, x.conc = true → x.field = f → x.held = true := by
  have h : (cleanFields.all fun f => facts.all fun x => !(x.conc && x.field == f) || x.held) = true := by decide +kernel
  intro f hf x hx hc he
  have h1 := List.all_eq_true.1 h f hf
  have h2 := List.all_eq_true.1 h1 x hx
  simp [hc, he] at h2
  exact h2

open Tcell.Gen.LockFacts in
/-- … hence **no schedule of any set of goroutines running extracted entry points races on a clean field**
    (cells, w/h, cursor, style, modes, colors map … on the pinned tree exactly the guarded-class fields that
    Beep/SetSize/CanDisplay/disengage do not touch). -/
theorem clean_fields_race_free (f : Nat) (hf : f ∈ cleanFields) (ts : List (Nat × Thread))
    (hc : ∀ p ∈ ts, Conforms facts p.1 p.2) : ∀ c, Reach (initCfg (ts.map (·.2))) c → ¬ Race c f :=
  clean_field_race_free facts f ts hc (clean_fields_held f hf)

open Tcell.Gen.LockFacts in
/-- the clean list is not vacuous on the current tree -/
example : cleanFields ≠ [] := by decide +kernel

open Tcell.Gen.LockFacts in
/-- `Conforms` is satisfiable on the regenerated facts: the path `Lock; t.style = …; Unlock` of SetStyle (tscreen.go:687) -/
example : Conforms facts (entryNames.idxOf "tscreen/SetStyle")
    [.lock, .wr (fieldNames.idxOf "tscreen/style"), .unlock] := by
  intro a ha
  simp only [accessesOf, List.mem_singleton] at ha
  subst ha
  exact ⟨false, by decide +kernel⟩

/-! ## Show reaches the tty as one contiguous block -/

def BInv (c : Cfg) : Prop :=
  (∀ i j, (c.th i).holds = true → (c.th j).holds = true → i = j) ∧
  (∀ i, EmitGuarded (c.th i).holds (c.th i).rest) ∧
  Chunked (tags c) ∧
  (∀ i k, (i, k) ∈ tags c → k ≤ (c.th i).sec) ∧
  (∀ i, (c.th i).holds = true → (i, (c.th i).sec) ∈ tags c → (tags c).head? = some (i, (c.th i).sec))

theorem binv_init (ts : List Thread) (h : ∀ t ∈ ts, EmitGuarded false t) : BInv (initCfg ts) := by
  refine ⟨?_, ?_, ?_, ?_, ?_⟩
  · intro i j hi; simp [initCfg] at hi
  · intro i
    simp only [initCfg]
    rcases getD_mem_or_nil ts i with hm | hn
    · exact h _ hm
    · rw [hn]; exact True.intro
  · simp [tags, initCfg, Chunked]
  · intro i k hk; simp [tags, initCfg] at hk
  · intro i hi; simp [initCfg] at hi

theorem holds_upd_of_ne {c : Cfg} {i a k : Nat} {r : Thread}
    (ha : (upd c.th i ⟨(c.th i).holds, k, r⟩ a).holds = true) : (c.th a).holds = true := by
  by_cases ea : a = i
  · subst ea; simpa [upd] using ha
  · simpa [upd, ea] using ha

theorem binv_step {c c' : Cfg} (hi : BInv c) (hs : Step c c') : BInv c' := by
  obtain ⟨hmx, hg, hch, hbd, hhd⟩ := hi
  cases hs with
  | @lock i r hr hfree =>
    refine ⟨?_, ?_, hch, ?_, ?_⟩
    · intro a b ha hb
      by_cases ea : a = i <;> by_cases eb : b = i
      · rw [ea, eb]
      · simp [upd, eb] at hb; rw [hfree b] at hb; cases hb
      · simp [upd, ea] at ha; rw [hfree a] at ha; cases ha
      · simp [upd, ea] at ha; rw [hfree a] at ha; cases ha
    · intro k
      by_cases ek : k = i
      · subst ek; have := hg k; rw [hr] at this; simpa [EmitGuarded] using this
      · simpa [upd, ek] using hg k
    · intro a k hk
      have := hbd a k hk
      by_cases ea : a = i
      · subst ea; simp [upd]; omega
      · simpa [upd, ea] using this
    · intro a ha hin
      by_cases ea : a = i
      · subst ea
        simp [upd] at hin
        have := hbd a _ hin
        omega
      · simp [upd, ea] at ha; rw [hfree a] at ha; cases ha
  | @unlock i r hr hh =>
    refine ⟨?_, ?_, hch, ?_, ?_⟩
    · intro a b ha hb
      by_cases ea : a = i
      · subst ea; simp [upd] at ha
      · by_cases eb : b = i
        · subst eb; simp [upd] at hb
        · simp [upd, ea] at ha; simp [upd, eb] at hb; exact hmx a b ha hb
    · intro k
      by_cases ek : k = i
      · subst ek; have := hg k; rw [hr] at this; simpa [EmitGuarded] using this
      · simpa [upd, ek] using hg k
    · intro a k hk
      have := hbd a k hk
      by_cases ea : a = i
      · subst ea; simpa [upd] using this
      · simpa [upd, ea] using this
    · intro a ha hin
      by_cases ea : a = i
      · subst ea; simp [upd] at ha
      · simp [upd, ea] at ha hin ⊢; exact hhd a ha hin
  | @rd i g r hr =>
    refine ⟨?_, ?_, hch, ?_, ?_⟩
    · intro a b ha hb
      exact hmx a b (holds_upd_of_ne ha) (holds_upd_of_ne hb)
    · intro k
      by_cases ek : k = i
      · subst ek; have := hg k; rw [hr] at this; simpa [EmitGuarded] using this
      · simpa [upd, ek] using hg k
    · intro a k hk
      have := hbd a k hk
      by_cases ea : a = i
      · subst ea; simpa [upd] using this
      · simpa [upd, ea] using this
    · intro a ha hin
      by_cases ea : a = i
      · subst ea; simp [upd] at ha hin ⊢; exact hhd a ha hin
      · simp [upd, ea] at ha hin ⊢; exact hhd a ha hin
  | @wr i g r hr =>
    refine ⟨?_, ?_, hch, ?_, ?_⟩
    · intro a b ha hb
      exact hmx a b (holds_upd_of_ne ha) (holds_upd_of_ne hb)
    · intro k
      by_cases ek : k = i
      · subst ek; have := hg k; rw [hr] at this; simpa [EmitGuarded] using this
      · simpa [upd, ek] using hg k
    · intro a k hk
      have := hbd a k hk
      by_cases ea : a = i
      · subst ea; simpa [upd] using this
      · simpa [upd, ea] using this
    · intro a ha hin
      by_cases ea : a = i
      · subst ea; simp [upd] at ha hin ⊢; exact hhd a ha hin
      · simp [upd, ea] at ha hin ⊢; exact hhd a ha hin
  | @emit i b r hr =>
    have hgi := hg i
    rw [hr] at hgi
    have hih : (c.th i).holds = true := hgi.1
    have htag : tags ⟨upd c.th i ⟨(c.th i).holds, (c.th i).sec, r⟩, (i, (c.th i).sec, b) :: c.log⟩
        = (i, (c.th i).sec) :: tags c := by simp [tags]
    refine ⟨?_, ?_, ?_, ?_, ?_⟩
    · intro a b' ha hb
      exact hmx a b' (holds_upd_of_ne ha) (holds_upd_of_ne hb)
    · intro k
      by_cases ek : k = i
      · subst ek; simp only [upd_same]; exact hgi.2
      · simpa [upd, ek] using hg k
    · rw [htag]
      exact ⟨hch, fun hin => hhd i hih hin⟩
    · intro a k hk
      rw [htag] at hk
      rcases List.mem_cons.1 hk with he | hm
      · cases he; simp [upd]
      · have := hbd a k hm
        by_cases ea : a = i
        · subst ea; simpa [upd] using this
        · simpa [upd, ea] using this
    · intro a ha _
      rw [htag]
      have ha' : (c.th a).holds = true := holds_upd_of_ne ha
      have : a = i := hmx a i ha' hih
      subst this
      simp [upd]

theorem binv_reach {c0 c : Cfg} (h0 : BInv c0) (hr : Reach c0 c) : BInv c := by
  induction hr with
  | refl => exact h0
  | step _ hs ih => exact binv_step ih hs

/-- **show_block_contiguous** (model level).  If every emission to the tty, in every thread, is made while
    holding the screen mutex, then in every reachable configuration — any number of threads, any schedule — the
    output stream is a sequence of runs, one per (thread, critical section): what one critical section (one
    Show: draw buffers and issues its single Write under the lock) emitted is never split by foreign bytes. -/
theorem blocks_contiguous (ts : List Thread) (h : ∀ t ∈ ts, EmitGuarded false t) :
    ∀ c, Reach (initCfg ts) c → Chunked (tags c) :=
  fun _ hr => (binv_reach (binv_init ts h) hr).2.2.1

theorem chunked_tail {α : Type} {a : α} {l : List α} (h : Chunked (a :: l)) : Chunked l := h.1

theorem chunked_drop {α : Type} (l1 l : List α) (h : Chunked (l1 ++ l)) : Chunked l := by
  induction l1 with
  | nil => exact h
  | cons a l1 ih => exact ih (chunked_tail h)

/-- what `Chunked` means: between two occurrences of the same tag there are only occurrences of that tag -/
theorem chunked_no_split {α : Type} (a : α) (l2 : List α) : ∀ (l1 l3 : List α),
    Chunked (l1 ++ a :: (l2 ++ a :: l3)) → ∀ b ∈ l2, b = a := by
  induction l2 with
  | nil => intro _ _ _ b hb; cases hb
  | cons x l2 ih =>
    intro l1 l3 h b hb
    have h1 : Chunked (a :: (x :: l2 ++ a :: l3)) := chunked_drop l1 _ h
    have hx : x = a := by
      have := h1.2 (by simp)
      simp at this
      exact this
    rcases List.mem_cons.1 hb with rfl | hb'
    · exact hx
    · subst hx
      exact ih [x] l3 (by simpa using h1) b hb'

/-- hypotheses of `blocks_contiguous` are satisfiable: two Show-like threads and a Beep-like thread that takes the lock -/
example : ∀ t ∈ [[Action.lock, .emit 27, .emit 91, .unlock, .lock, .emit 27, .unlock], [Action.lock, .emit 7, .unlock]],
    EmitGuarded false t := by
  intro t ht
  simp at ht
  rcases ht with rfl | rfl <;> simp [EmitGuarded]

/-- and an unlocked emitter (Beep as it is, tscreen.go:2100) does split a block in the model:
    thread 0 = Show emitting bytes 1,2 under the lock, thread 1 = Beep emitting 7 without it -/
theorem unguarded_emit_splits : ∃ c, Reach (initCfg [[Action.lock, .emit 1, .emit 2, .unlock], [Action.emit 7]]) c ∧
    ¬ Chunked (tags c) := by
  let c0 := initCfg [[Action.lock, .emit 1, .emit 2, .unlock], [Action.emit 7]]
  have s1 : Step c0 _ := Step.lock (i := 0) (r := [.emit 1, .emit 2, .unlock]) rfl (by intro j; simp [c0, initCfg])
  have s2 := Step.emit (c := ⟨upd c0.th 0 ⟨true, (c0.th 0).sec + 1, [.emit 1, .emit 2, .unlock]⟩, c0.log⟩) (i := 0) (b := 1) (r := [.emit 2, .unlock]) (by simp [upd])
  have s3 := Step.emit (c := _) (i := 1) (b := 7) (r := []) (by simp [upd, c0, initCfg]) |> Reach.step (Reach.step (Reach.step Reach.refl s1) s2)
  refine ⟨_, Reach.step s3 (Step.emit (i := 0) (b := 2) (r := [.unlock]) (by simp [upd])), ?_⟩
  simp [tags, Chunked, upd, c0, initCfg]

open Tcell.Gen.LockFacts in
/-- **show_block_shape** (facts level; kernel-evaluated on the regenerated facts).  (1) draw sets `buffering` before
    its first emission, resets it in a deferred function and hands `buf` to the tty exactly once, as its last
    statement; the only other functions that hand `t.tty` to a writer are writeString and TPuts and both choose
    `&t.buf` when `buffering`.  (2) Every fact of `Show`, `Sync` and `mainLoop` on `buf`, `buffering` and `tty.out` is
    lock-held.  Together with `blocks_contiguous`: a Show's bytes form one block; the block can only be split or
    polluted by an entry point that is *flagged* on `buf`/`buffering`/`tty.out`. -/
theorem show_block_shape :
    (drawSetsBuffering && drawResetsBufferingDeferred && drawSingleFinalWrite && writersBranchOnBuffering) = true ∧
    (facts.all fun x =>
      !(x.conc && (entryNames.getD x.entry "" == "tscreen/Show" || entryNames.getD x.entry "" == "tscreen/Sync" ||
                   entryNames.getD x.entry "" == "tscreen/mainLoop") &&
        (fieldNames.getD x.field "" == "tscreen/buf" || fieldNames.getD x.field "" == "tscreen/buffering" ||
         fieldNames.getD x.field "" == "tscreen/tty.out")) || x.held) = true := by
  constructor <;> decide +kernel

end Tcell.Props.C10
