/-
C09 — the ACS strings of the draw path and the strict tokenizer ("no stray parameter-language residue").

`C09.fixed_caps_accepted` feeds `emitted e.enterAcs` / `emitted e.exitAcs` — the capability strings *after* `TPuts` — to
the strict tokenizer.  That is not how the draw path emits them: `encodeRune` (tscreen.go:724) appends the string of
`t.acs` and `drawCell` writes the buffer with `writeString`, so what reaches the terminal is the string `buildAcsMap`
composed, verbatim.  The theorems below are about those strings (`acsStrings`), for the `buildAcsMap` of the tree under test
(`C17.treeVariant`, translator probes `Gen.acsAll` / `Gen.acsRawByte` / `Gen.acsStripsPadding`):

* `acs_strings_no_residue` — with fixes/C17-acs-strip-padding.patch no ACS string of ANY database entry contains the
  parameter-language marker `$<`; without it the statement is false (`acs_residue_unstripped`: vt220 writes `$<2>` … `$<4>`,
  finding `C17-acs-padding`), and the kernel decides which tree this is;
* `acs_strings_accepted` — every ACS string of every ECMA-48-family entry whose terminal character is a graphic byte is
  accepted by the strict tokenizer in an 8-bit locale (complete `ESC ( 0` / SO / `CSI 11 m` … sequences, nothing cut);
* `acs_pc_font_controls` — the exception of the previous statement, exactly: ansi, cygwin and pcansi list C0 bytes
  (0x04, 0x10, 0x11, 0x18, 0x19: the PC ROM font's ♦ ► ◄ ↑ ↓) as alternate-font characters.  This is the database's
  content (terminfo `ansi`), not a product of buildAcsMap; recorded, not judged.
-/
import Tcell.Props.C09
import Tcell.Props.C17
namespace Tcell.Props.C09
open Tcell Tcell.Spec.Ecma48

/-- everything the draw path can write for an ACS glyph on entry `e`: the strings of the map, verbatim (`writeString`) -/
def acsStrings (v : EncVariant) (e : Terminfo) : List Bytes := (buildAcsMap v Gen.vtACSNames e).map (·.2)

/-- the marker of terminfo's padding / parameter language -/
def hasPadMarker : Bytes → Bool
  | 36 :: 60 :: _ => true
  | _ :: r => hasPadMarker r
  | [] => false

/-- strict tokenizer, 8-bit locale (ACS strings are only written where the locale cannot encode the rune) -/
def accepts8 (ff : Bool) (s : Bytes) : Bool :=
  (((Term.init { w := 4, h := 2, utf8 := false, ffClears := ff }).feed s).finish).malformed.isEmpty

/-- the terminal's character of the string is a graphic byte: no byte of it is a C0 control other than the ESC / SO / SI
of smacs/rmacs themselves, nor DEL -/
def graphicOnly (s : Bytes) : Bool := s.all fun b => (32 ≤ b && b != 127) || b == 27 || b == 14 || b == 15

/-- **No parameter-language residue in ACS output** (tree under test).  With the padding repair
(`Gen.acsStripsPadding = true`, then the premise is trivially true) NO string the draw path can write for an ACS glyph, on
ANY entry of the database, contains `$<`; on a tree without the repair the same holds for every entry but vt220 and vt420. -/
theorem acs_strings_no_residue :
    ∀ e ∈ Gen.db, (Gen.acsStripsPadding = true ∨ (e.name ≠ "vt220" ∧ e.name ≠ "vt420")) →
      ∀ s ∈ acsStrings C17.treeVariant e, hasPadMarker s = false := by
  decide

/-- the same about the repaired model variant, every entry, whatever the tree -/
theorem acs_strings_no_residue_stripped :
    ∀ e ∈ Gen.db, ∀ s ∈ acsStrings .stripped e, hasPadMarker s = false := by
  decide

/-- pinned counterexample (model variant without the padding repair): every ACS string of vt220 carries the residue, e.g. the
horizontal line `ESC ( 0 $ < 2 > q ESC ( B $ < 4 >` -/
theorem acs_residue_unstripped :
    ∃ e ∈ Gen.db, e.name = "vt220" ∧ (acsStrings .repaired e).all hasPadMarker = true ∧ (acsStrings .repaired e) ≠ [] ∧
      [27, 40, 48, 36, 60, 50, 62, 113, 27, 40, 66, 36, 60, 52, 62] ∈ acsStrings .repaired e := by
  decide

set_option maxRecDepth 100000 in
/-- **ACS strings are well-formed output** (tree under test): every ACS string of every ECMA-48-family entry whose bytes
are graphic (plus the ESC / SO / SI of smacs/rmacs) is accepted by the strict tokenizer without complaint, end of stream
included. -/
theorem acs_strings_accepted :
    (Gen.db.filter isEcma).all (fun e =>
      ((acsStrings C17.treeVariant e).filter graphicOnly).all (fun s => accepts8 (e.clear == [12]) s)) = true := by
  decide +kernel

/-- the strings `acs_strings_accepted` leaves out, exactly: the PC-font control positions of ansi, cygwin and pcansi -/
theorem acs_pc_font_controls :
    ((Gen.db.filter isEcma).filter (fun e => !(acsStrings C17.treeVariant e).all graphicOnly)).map (·.name)
      = ["ansi", "cygwin", "pcansi"] ∧
    (Gen.db.filter isEcma).all (fun e => ((acsStrings C17.treeVariant e).filter (fun s => !graphicOnly s)).all fun s =>
      s.any (fun b => b == 4 || b == 16 || b == 17 || b == 24 || b == 25)) = true := by
  decide

/-- non-vacuity: 40-odd ECMA entries, over a thousand ACS strings judged -/
example : ((Gen.db.filter isEcma).map (fun e => ((acsStrings C17.treeVariant e).filter graphicOnly).length)).sum ≥ 900 := by
  decide

end Tcell.Props.C09
