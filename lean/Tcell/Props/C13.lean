/-
C13 — Show() redraws only cells whose appearance changed; locked cells never.   **Layer A** (see C01).

"Writes cell content" = an abstract `put` command reaches the terminal; `ATerm.writes` logs the cell each
one is addressed to.  Same domain as C01: every history, size, coordinate, rune and style; terminal
descriptions without the bottom-right insert-character trick (on those four entries the trick deliberately
repaints the neighbour of the corner cell — the property's own exception — and is not covered here).

Three variants of drawCell are modelled (`DrawCfg.guardLocked`, default `Tcell.currentGuardsLockedNeighbour`; `DrawCfg.walkGuard`,
default `Tcell.currentWalkGuard`); `hct : c.Plain` = no corner trick, the guard flags ARBITRARY:
* `guardLocked = false` — the pinned tree.  Frame theorem, idle Show, locked-never-addressed, unlock-repaints hold; the
  locked clause of the property is *false* for it (`wide_left_of_locked_overpaints`, finding C13-wide-left-of-locked, fixed).
* `guardLocked = true, walkGuard = false` — the tree AS IT IS (fix 0ca6187).  Frame theorem, locked-never-addressed,
  unlock-repaints and `locked_never_painted_partial` (no payload, right halves of two-column glyphs included, occupies a
  locked cell — stated on the terminal's `covered` log) hold for every history.  **Idle Show is FALSE** for it:
  `idle_show_writes_tree_as_is` — drawCell narrows a wide rune left of a locked cell only when it paints it, so the width
  it returns to the draw loop depends on whether the cell was Dirty; when the locked cell itself holds a wide rune the next,
  idle, Show walks differently and paints the cell right of the locked one, which on a real terminal destroys the locked
  cell's glyph (finding C13-locked-wide-walk, reproduced by the oracle of engine `draw`).  `idle_show_writes_nothing_partial`
  therefore carries the hypothesis `guardLocked = false ∨ walkGuard = true`.
* `guardLocked = true, walkGuard = true` — with the proposed fixes/C13-locked-wide-walk.patch: all theorems, idle Show included.
-/
import Tcell.Lemmas.World
import Tcell.Lemmas.LockGuard
import Tcell.Props.C01
namespace Tcell.Props.C13
open Tcell Tcell.Buf

variable {c : DrawCfg}

/-- **Only dirty cells are written.** During a Show on a trusted display of unchanged size, every cell that
receives payload was reported Dirty by the cell buffer when the Show began (and was visited by the draw loop, i.e.
is not the hidden half of a wide rune).  By C08 (`dirty_sound` and the explicit dirtying rules) a cell is Dirty
only if its rune, combining runes or style differ from what they were when it was last painted, or it lies in
the columns covered or uncovered by a changed wide rune, or it was invalidated / unlocked. -/
theorem show_writes_only_dirty_partial (hrw : RwOk c.rw) (hct : c.Plain) (w h : Int) (ops : List ScrOp)
    (hv : ∀ op ∈ ops, op.Valid c) :
    let wd := (World.init w h).run c ops
    wd.trusted = true → (wd.sw.ttyw = wd.sw.s.w ∧ wd.sw.ttyh = wd.sw.s.h) →
    ∃ ws, (wd.step c .show).t.writes = ws ++ wd.t.writes ∧
      ∀ p ∈ ws, wd.sw.s.cells.dirty p.1 p.2 = true ∧ visitedG c wd.sw.s.cells p.1 p.2 = true :=
  fun ht hsz => show_writes hrw hct (reach_inv hrw hct w h ops hv) ht hsz

/-- **Locked cells are never addressed.** No payload is sent to a cell that is locked when the Show begins. -/
theorem locked_never_addressed_partial (hrw : RwOk c.rw) (hct : c.Plain) (w h : Int) (ops : List ScrOp)
    (hv : ∀ op ∈ ops, op.Valid c) :
    let wd := (World.init w h).run c ops
    wd.trusted = true → (wd.sw.ttyw = wd.sw.s.w ∧ wd.sw.ttyh = wd.sw.s.h) →
    ∃ ws, (wd.step c .show).t.writes = ws ++ wd.t.writes ∧
      ∀ p ∈ ws, (wd.sw.s.cells.cells p.1 p.2).lock = false := by
  intro wd ht hsz
  obtain ⟨ws, h1, h2⟩ := show_writes hrw hct (reach_inv hrw hct w h ops hv) ht hsz
  refine ⟨ws, h1, ?_⟩
  intro p hp
  have hd := (h2 p hp).1
  simp only [dirty] at hd
  split at hd
  · exact isDirty_true_unlocked _ hd
  · exact absurd hd (by simp)

/-- **An idle Show writes nothing.** A Show immediately following a Show (no content change, no resize, no
corruption in between) sends no cell payload at all — for the pinned drawCell and for the repaired one with the walk fix
(`hs`); for the tree as it is see `idle_show_writes_tree_as_is`. -/
theorem idle_show_writes_nothing_partial (hrw : RwOk c.rw) (hct : c.Plain) (hs : c.guardLocked = false ∨ c.walkGuard = true)
    (w h : Int) (ops : List ScrOp) (hv : ∀ op ∈ ops, op.Valid c) :
    let wd := (World.init w h).run c ops
    (wd.trusted = true ∨ ¬ (wd.sw.ttyw = wd.sw.s.w ∧ wd.sw.ttyh = wd.sw.s.h)) →
    ((wd.step c .show).step c .show).t.writes = (wd.step c .show).t.writes := by
  intro wd htr
  have inv0 := reach_inv hrw hct w h ops hv
  obtain ⟨inv1, hdisp⟩ := show_step hrw hct inv0
  have disp := hdisp htr
  -- after the first Show the display is trusted and the sizes agree
  have ht1 : (wd.step c .show).trusted = true := by
    by_cases hsz : wd.sw.ttyw = wd.sw.s.w ∧ wd.sw.ttyh = wd.sw.s.h
    · rcases htr with h1 | h1
      · simp only [World.step, hsz, and_self, if_true]; exact h1
      · exact absurd hsz h1
    · simp only [World.step, hsz, if_false]
  have hsz1 : (wd.step c .show).sw.ttyw = (wd.step c .show).sw.s.w ∧ (wd.step c .show).sw.ttyh = (wd.step c .show).sw.s.h := by
    have hd := inv1.tdim
    have ht := (inv1.tr ht1)
    exact ⟨by rw [← hd.1, ht.tw], by rw [← hd.2, ht.th]⟩
  obtain ⟨ws, h1, h2⟩ := show_writes hrw hct inv1 ht1 hsz1
  -- any written cell would be dirty and visited, but every visited unlocked cell is clean after the first Show
  cases ws with
  | nil => simpa using h1
  | cons p ws =>
    exfalso
    obtain ⟨hd, hvis⟩ := h2 p (List.mem_cons_self ..)
    obtain ⟨sw, sh, sg, sl⟩ := disp.same
    -- the walk does not depend on the Dirty flags, so it was the same walk in the first Show
    rw [visitedG_static c hs _ _ sw sh sg sl] at hvis
    have hr : (wd.step c .show).sw.s.cells.inRange p.1 p.2 := by
      simp only [dirty] at hd; split at hd
      · assumption
      · exact absurd hd (by simp)
    have hl : ((wd.step c .show).sw.s.cells.cells p.1 p.2).lock = false := by
      have hd' := hd
      simp only [dirty] at hd'; rw [if_pos hr] at hd'; exact isDirty_true_unlocked _ hd'
    have hr0 : (wd.sw.s.resize (some (wd.sw.ttyw, wd.sw.ttyh))).cells.inRange p.1 p.2 := by
      rw [inRange_iff] at hr ⊢; rw [← sw, ← sh]; exact hr
    have := disp.cleaned p.1 p.2 hr0 hvis (by rw [← sl]; exact hl)
    rw [this] at hd; exact absurd hd (by simp)

/-- **A cell is repainted by the first Show after it is unlocked** (and more generally after anything made it
dirty): this is C01's `show_faithful_partial` — after that Show the cell is clean and displays its content. -/
theorem unlock_repaints_partial (hrw : RwOk c.rw) (hct : c.Plain) (w h : Int) (ops : List ScrOp)
    (hv : ∀ op ∈ ops, op.Valid c) (x y rw' rh : Int) :
    let wd := ((World.init w h).run c ops).step c (.lockRegion x y rw' rh false)
    wd.trusted = true → Displays c (wd.sw.s.resize (some (wd.sw.ttyw, wd.sw.ttyh))).cells (wd.step c .show) := by
  intro wd ht
  have hv' : ∀ op ∈ ops ++ [ScrOp.lockRegion x y rw' rh false], op.Valid c := by
    intro op ho; rcases List.mem_append.1 ho with ho | ho
    · exact hv op ho
    · simp only [List.mem_singleton] at ho; subst ho; trivial
  have inv := reach_inv hrw hct w h (ops ++ [ScrOp.lockRegion x y rw' rh false]) hv'
  simp only [World.run, List.foldl_append, List.foldl_cons, List.foldl_nil] at inv
  exact (show_step hrw hct inv).2 (Or.inl ht)

/-! ## the corner-trick family (every terminal description; side condition `World.SafeRun` / `World.SafeAt`, see Props/C01.lean)

C13's own exception clause — "plus … the neighbour used to paint the bottom-right corner on auto-margin terminals" — is
`CornerWrite` (Lemmas/DrawDefs.lean): when the corner cell (w-1,h-1) is dirty and visited, the Show also writes column
w-2 of the last row (the corner glyph is written there and shifted by `ich1`; ICH itself counts as writing every cell from
the cursor to the right margin, `ATerm.insertAt`) and the cell covering column w-2 (`Scr.coverStart`: column w-2 itself or
the wide rune at w-3), which is repainted.  Nothing else is written. -/

/-- **Only dirty cells are written, plus the corner trick's neighbour** (all terminals). -/
theorem show_writes_only_dirty_corner_partial (hrw : RwOk c.rw) (hct : c.Walk) (w h : Int) (ops : List ScrOp)
    (hv : ∀ op ∈ ops, op.Valid c) (hsafe : World.SafeRun c (World.init w h) ops)
    (hlast : ((World.init w h).run c ops).SafeAt c .show) :
    let wd := (World.init w h).run c ops
    wd.trusted = true → (wd.sw.ttyw = wd.sw.s.w ∧ wd.sw.ttyh = wd.sw.s.h) →
    ∃ ws, (wd.step c .show).t.writes = ws ++ wd.t.writes ∧
      ∀ p ∈ ws, (wd.sw.s.cells.dirty p.1 p.2 = true ∧ visitedG c wd.sw.s.cells p.1 p.2 = true) ∨
        CornerWrite c wd.sw.s.cells p :=
  fun ht hsz => show_writes_c hrw hct (reach_inv_c hrw hct w h ops hv hsafe) hlast ht hsz

/-- **Locked cells are never addressed** (all terminals, under the side condition: the trick's extra writes go to the last
row, which holds no locked cell). -/
theorem locked_never_addressed_corner_partial (hrw : RwOk c.rw) (hct : c.Walk) (w h : Int) (ops : List ScrOp)
    (hv : ∀ op ∈ ops, op.Valid c) (hsafe : World.SafeRun c (World.init w h) ops)
    (hlast : ((World.init w h).run c ops).SafeAt c .show) :
    let wd := (World.init w h).run c ops
    wd.trusted = true → (wd.sw.ttyw = wd.sw.s.w ∧ wd.sw.ttyh = wd.sw.s.h) →
    ∃ ws, (wd.step c .show).t.writes = ws ++ wd.t.writes ∧
      ∀ p ∈ ws, wd.sw.s.cells.locked p.1 p.2 = false := by
  intro wd ht hsz
  have inv := reach_inv_c hrw hct w h ops hv hsafe
  obtain ⟨ws, h1, h2⟩ := show_writes_c hrw hct inv hlast ht hsz
  refine ⟨ws, h1, ?_⟩
  intro p hp
  rcases h2 p hp with hd | hc
  · exact dirty_unlocked _ _ _ hd.1
  · obtain ⟨_, hul⟩ := cornerSafe_before_show inv hsz hlast hc.1
    rw [hc.2.1, inv.buf.ch]; exact hul _

/-- **An idle Show writes nothing** (all terminals): after a Show the corner cell is clean, so the trick does not run. -/
theorem idle_show_writes_nothing_corner_partial (hrw : RwOk c.rw) (hct : c.Walk) (hs : c.guardLocked = false ∨ c.walkGuard = true)
    (w h : Int) (ops : List ScrOp) (hv : ∀ op ∈ ops, op.Valid c) (hsafe : World.SafeRun c (World.init w h) ops)
    (hlast : ((World.init w h).run c ops).SafeAt c .show)
    (hlast2 : (((World.init w h).run c ops).step c .show).SafeAt c .show) :
    let wd := (World.init w h).run c ops
    (wd.trusted = true ∨ ¬ (wd.sw.ttyw = wd.sw.s.w ∧ wd.sw.ttyh = wd.sw.s.h)) →
    ((wd.step c .show).step c .show).t.writes = (wd.step c .show).t.writes := by
  intro wd htr
  have inv0 := reach_inv_c hrw hct w h ops hv hsafe
  obtain ⟨inv1, hdisp⟩ := show_step_c hrw hct inv0 hlast
  have disp := hdisp htr
  have ht1 : (wd.step c .show).trusted = true := by
    by_cases hsz : wd.sw.ttyw = wd.sw.s.w ∧ wd.sw.ttyh = wd.sw.s.h
    · rcases htr with h1 | h1
      · simp only [World.step, hsz, and_self, if_true]; exact h1
      · exact absurd hsz h1
    · simp only [World.step, hsz, if_false]
  have hsz1 : (wd.step c .show).sw.ttyw = (wd.step c .show).sw.s.w ∧ (wd.step c .show).sw.ttyh = (wd.step c .show).sw.s.h := by
    have hd := inv1.tdim
    have ht := (inv1.tr ht1)
    exact ⟨by rw [← hd.1, ht.tw], by rw [← hd.2, ht.th]⟩
  obtain ⟨ws, h1, h2⟩ := show_writes_c hrw hct inv1 hlast2 ht1 hsz1
  obtain ⟨sw, sh, sg, sl⟩ := disp.same
  -- no cell is both dirty and visited after the first Show
  have hno : ∀ i j, (wd.step c .show).sw.s.cells.dirty i j = true →
      visitedG c (wd.step c .show).sw.s.cells i j = true → False := by
    intro i j hd hvis
    rw [visitedG_static c hs _ _ sw sh sg sl] at hvis
    have hr : (wd.step c .show).sw.s.cells.inRange i j := by
      simp only [dirty] at hd; split at hd
      · assumption
      · exact absurd hd (by simp)
    have hl : ((wd.step c .show).sw.s.cells.cells i j).lock = false := by
      have hd' := hd
      simp only [dirty] at hd'; rw [if_pos hr] at hd'; exact isDirty_true_unlocked _ hd'
    have hr0 : (wd.sw.s.resize (some (wd.sw.ttyw, wd.sw.ttyh))).cells.inRange i j := by
      rw [inRange_iff] at hr ⊢; rw [← sw, ← sh]; exact hr
    have := disp.cleaned i j hr0 hvis (by rw [← sl]; exact hl)
    rw [this] at hd; exact absurd hd (by simp)
  cases ws with
  | nil => simpa using h1
  | cons p ws =>
    exfalso
    rcases h2 p (List.mem_cons_self ..) with ⟨hd, hvis⟩ | ⟨_, _, hd, hvis, _⟩
    · exact hno _ _ hd hvis
    · exact hno _ _ hd hvis

/-- **A cell is repainted by the first Show after it is unlocked** (all terminals). -/
theorem unlock_repaints_corner_partial (hrw : RwOk c.rw) (hct : c.Walk) (w h : Int) (ops : List ScrOp)
    (hv : ∀ op ∈ ops, op.Valid c) (hsafe : World.SafeRun c (World.init w h) ops) (x y rw' rh : Int)
    (hlast : (((World.init w h).run c ops).step c (.lockRegion x y rw' rh false)).SafeAt c .show) :
    let wd := ((World.init w h).run c ops).step c (.lockRegion x y rw' rh false)
    wd.trusted = true → Displays c (wd.sw.s.resize (some (wd.sw.ttyw, wd.sw.ttyh))).cells (wd.step c .show) := by
  intro wd ht
  have hv' : ∀ op ∈ ops ++ [ScrOp.lockRegion x y rw' rh false], op.Valid c := by
    intro op ho; rcases List.mem_append.1 ho with ho | ho
    · exact hv op ho
    · simp only [List.mem_singleton] at ho; subst ho; trivial
  have inv := reach_inv_c hrw hct w h (ops ++ [ScrOp.lockRegion x y rw' rh false]) hv' (World.SafeRun.append ops _ _ hsafe trivial)
  simp only [World.run, List.foldl_append, List.foldl_cons, List.foldl_nil] at inv
  exact (show_step_c hrw hct inv hlast).2 (Or.inl ht)

/-- **Locked cells are never painted** (all terminals with the guard compiled in, under the side condition): no cell a
payload occupies and no cell an inserted character shifts is locked. -/
theorem locked_never_painted_corner_partial (hrw : RwOk c.rw) (hct : c.Walk) (hg : c.guardLocked = true) (w h : Int)
    (ops : List ScrOp) (hv : ∀ op ∈ ops, op.Valid c) (hsafe : World.SafeRun c (World.init w h) ops)
    (hlast : ((World.init w h).run c ops).SafeAt c .show) :
    let wd := (World.init w h).run c ops
    wd.trusted = true → (wd.sw.ttyw = wd.sw.s.w ∧ wd.sw.ttyh = wd.sw.s.h) →
    ∃ cs, (wd.step c .show).t.covered = cs ++ wd.t.covered ∧ ∀ p ∈ cs, wd.sw.s.cells.locked p.1 p.2 = false :=
  fun ht hsz => show_covers_c hrw hct hg (reach_inv_c hrw hct w h ops hv hsafe) hlast ht hsz

/-! non-vacuity (4×2, `cornerTrick := true`, wide rune in the last row; `C01.opsCorner`): the Show that repaints the corner
writes exactly the corner's neighbourhood — ICH shifts columns 2,3, the glyph is written at column 2, the wide rune at column 1
(which covers column 2) is repainted — and a second Show writes nothing. -/
example : ((((World.init 4 2).run C01.cfgCorner C01.opsCorner).step C01.cfgCorner .show).t.writes.take 4) =
    [(1, 1), (3, 1), (2, 1), (2, 1)] := by decide +kernel
example : CornerWrite C01.cfgCorner ((World.init 4 2).run C01.cfgCorner C01.opsCorner).sw.s.cells (1, 1) := by
  refine ⟨rfl, ?_, ?_, ?_, Or.inr ?_⟩ <;> decide +kernel
example : ((((World.init 4 2).run C01.cfgCorner C01.opsCorner).step C01.cfgCorner .show).step C01.cfgCorner .show).t.writes =
    (((World.init 4 2).run C01.cfgCorner C01.opsCorner).step C01.cfgCorner .show).t.writes := by decide +kernel
example := show_writes_only_dirty_corner_partial (c := C01.cfgCorner) (by exact C01.rwDemo_ok) C01.cfgCorner_walk 4 2 C01.opsCorner
  (by simp [C01.opsCorner, ScrOp.Valid, attrInvalid]) C01.opsCorner_safe C01.opsCorner_safe_show

/-- the open finding C13-corner-trick-locked-neighbour on the model: with the neighbour (2,0) of the corner locked the trick
writes into it (the side condition excludes exactly this) -/
theorem corner_trick_writes_locked_neighbour :
    let ops : List ScrOp := [.setContent 2 0 0x62 [] {}, .show, .lockRegion 2 0 1 1 true, .setContent 3 0 0x5a [] {}]
    let wd := (World.init 4 1).run C01.cfgCorner ops
    wd.sw.s.cells.locked 2 0 = true ∧ (2, 0) ∈ (wd.step C01.cfgCorner .show).t.covered.take 3 ∧ wd.trusted = true := by
  decide +kernel

/-! ### what is *not* true of the pinned code: a wide rune left of a locked cell paints over it

The right half of a wide glyph drawn at column x lands on column x+1 even when that cell is locked: the
terminal cell of the locked position changes although no payload is addressed to it.  Witness on the
abstract terminal (replayed on the real code by the oracle of the check, class `locked-cell-overpainted`). -/

def lockedOps : List ScrOp :=
  [.setContent 1 0 0x62 [] {}, .show, .lockRegion 1 0 1 1 true, .setContent 0 0 0x4e16 [] {}, .show]

example : ((World.init 3 1).run C01.cfgDemo (lockedOps.take 2)).t.grid 1 0 = .shown [0x62] false {} := by decide +kernel
/-- pinned drawCell (`C01.cfgDemo.guardLocked = false`): after the second Show the locked cell (1,0) no longer shows 'b':
the wide rune's right half covers it -/
theorem wide_left_of_locked_overpaints :
    (((World.init 3 1).run C01.cfgDemo lockedOps).sw.s.cells.cells 1 0).lock = true ∧
    ((World.init 3 1).run C01.cfgDemo lockedOps).t.grid 1 0 = .cont := by decide +kernel

/-! ### the repaired drawCell (`guardLocked = true`, fixes/C13-wide-left-of-locked.patch) -/

/-- the demo configuration with the locked-neighbour guard compiled in -/
def cfgRepaired : DrawCfg := { C01.cfgDemo with guardLocked := true }

/-- **No payload of a Show covers a locked cell** (repaired drawCell, `guardLocked = true`, walk fix or not; every history,
size, coordinate, rune, style; every terminal description without the corner trick).  Stated on the abstract terminal:
`ATerm.covered` logs, for every payload the terminal receives, the cell the cursor is on and — for a two-column glyph — the
cell to its right.  During a Show on a trusted display of unchanged size every cell so covered is not locked when the Show
begins: neither an addressed cell (`locked_never_addressed_partial`) nor the right half of a wide glyph.
`_partial`: the four corner-trick entries are excluded (`hct`).  For the pinned drawCell the statement is false
(`wide_left_of_locked_overpaints`). -/
theorem locked_never_painted_partial (hrw : RwOk c.rw) (hct : c.Plain) (hg : c.guardLocked = true) (w h : Int)
    (ops : List ScrOp) (hv : ∀ op ∈ ops, op.Valid c) :
    let wd := (World.init w h).run c ops
    wd.trusted = true → (wd.sw.ttyw = wd.sw.s.w ∧ wd.sw.ttyh = wd.sw.s.h) →
    ∃ cs, (wd.step c .show).t.covered = cs ++ wd.t.covered ∧ ∀ p ∈ cs, wd.sw.s.cells.locked p.1 p.2 = false :=
  fun ht hsz => show_covers hrw hct hg (reach_inv hrw hct w h ops hv) ht hsz

/-- The same at the level of the draw loop's own log, from the state any history leads to (no trust, no size hypothesis):
`drawLog` lists every cell payload of the draw pass with the cell the loop addresses it to and the columns it occupies. -/
theorem locked_never_painted_log (hct : c.cornerTrick = false) (hg : c.guardLocked = true) (w h : Int) (ops : List ScrOp) :
    let wd := (World.init w h).run c ops
    let s := wd.sw.s.resize (some (wd.sw.ttyw, wd.sw.ttyh))
    ∀ e ∈ s.drawLog c, s.cells.locked e.1 e.2.1 = false ∧ (e.2.2 > 1 → s.cells.locked (e.1 + 1) e.2.1 = false) :=
  fun e he => drawLog_ok hct hg _ e he

/-- the same from an arbitrary screen state (the history plays no role) -/
theorem locked_never_painted_any_state (hct : c.cornerTrick = false) (hg : c.guardLocked = true) (s : Scr) :
    ∀ e ∈ s.drawLog c, s.cells.locked e.1 e.2.1 = false ∧ (e.2.2 > 1 → s.cells.locked (e.1 + 1) e.2.1 = false) :=
  fun e he => drawLog_ok hct hg s e he

-- the log is not vacuous: on the witness history the last Show paints exactly cell (0,0) — two columns wide on the
-- pinned tree (covering the locked (1,0)), one column wide on the repaired tree
example : (((World.init 3 1).run C01.cfgDemo (lockedOps.take 4)).sw.s.drawLog C01.cfgDemo) = [(0, 0, 2)] := by decide +kernel
example : (((World.init 3 1).run cfgRepaired (lockedOps.take 4)).sw.s.drawLog cfgRepaired) = [(0, 0, 1)] := by decide +kernel
example : cfgRepaired.cornerTrick = false ∧ cfgRepaired.guardLocked = true := ⟨rfl, rfl⟩

/-- repaired drawCell on the witness history: the locked cell (1,0) still shows 'b', the wide rune left of it is shown as
a blank of width 1 (the policy of the last column) -/
theorem wide_left_of_locked_kept_repaired :
    (((World.init 3 1).run cfgRepaired lockedOps).sw.s.cells.cells 1 0).lock = true ∧
    ((World.init 3 1).run cfgRepaired lockedOps).t.grid 1 0 = .shown [0x62] false {} ∧
    ((World.init 3 1).run cfgRepaired lockedOps).t.grid 0 0 = .shown [32] false {} := by decide +kernel

/-- … and the first Show after the cell is unlocked draws the wide rune again, two columns wide (LockRegion(…, false) of
the repaired tree marks a wide rune just left of the region dirty, `Tcell.lockRowsG`) -/
theorem unlock_repaints_wide_repaired :
    ((World.init 3 1).run cfgRepaired (lockedOps ++ [.lockRegion 1 0 1 1 false, .show])).t.grid 0 0 =
      .shown [0xe4, 0xb8, 0x96] true {} ∧
    ((World.init 3 1).run cfgRepaired (lockedOps ++ [.lockRegion 1 0 1 1 false, .show])).t.grid 1 0 = .cont := by
  decide +kernel

/-- What C01's `Displays` says about a clean unlocked cell holding a wide rune on the repaired tree, in contributor R's
form: the cell shows its content exactly as on the pinned tree, or — only if the next column is locked now — a blank of
width 1 in the cell's style. -/
def DisplaysRepairedCell (c : DrawCfg) (wd : World) (x y : Int) : Prop :=
  let cell := wd.sw.s.cells.cells x y
  ∃ st', (wd.t.grid x y = shownOf c wd.sw.s.w x cell.currMain cell.currComb st' ∨
          (wd.sw.s.cells.locked (x + 1) y = true ∧ wd.t.grid x y = .shown [32] false st'))

example : DisplaysRepairedCell cfgRepaired ((World.init 3 1).run cfgRepaired lockedOps) 0 0 :=
  ⟨{}, Or.inr ⟨by decide +kernel, by decide +kernel⟩⟩

/-- **`DisplaysRepairedCell` holds after every Show / Sync / notified resize, for every clean unlocked cell** (in particular
for every cell the draw loop visited): it is the `cells` clause of `Displays`, which C01's `show_faithful_partial`,
`sync_faithful_partial`, `resize_faithful_partial` establish for every history. -/
theorem displays_repaired_cell {pre : Buf} {wd : World} (disp : Displays c pre wd) (x y : Int)
    (hr : wd.sw.s.cells.inRange x y) (hl : (wd.sw.s.cells.cells x y).lock = false) (hd : wd.sw.s.cells.dirty x y = false) :
    DisplaysRepairedCell c wd x y := by
  obtain ⟨st', nl, h1, _, _, h4, _⟩ := disp.cells x y hr hl hd
  refine ⟨st', ?_⟩
  cases nl with
  | false => left; simpa using h1
  | true =>
    by_cases hw : obsWidth c.rw (wd.sw.s.cells.cells x y).currMain > 1
    · right; exact ⟨(h4 rfl hw).2, by rw [h1, shownOfG_guard _ _ _ _ _ _ hw]⟩
    · left; rw [h1]
      simp only [shownOfG, shownOf, cellTextG_of_not _ _ _ _ _ _ true (fun h => hw h.2)]

/-- corollary on histories: after a Show on a trusted display (or one that notices a size change) -/
theorem show_faithful_repaired_cell_partial (hrw : RwOk c.rw) (hct : c.Plain) (w h : Int) (ops : List ScrOp)
    (hv : ∀ op ∈ ops, op.Valid c) :
    let wd := (World.init w h).run c ops
    (wd.trusted = true ∨ ¬ (wd.sw.ttyw = wd.sw.s.w ∧ wd.sw.ttyh = wd.sw.s.h)) →
    ∀ x y, (wd.step c .show).sw.s.cells.inRange x y → ((wd.step c .show).sw.s.cells.cells x y).lock = false →
      (wd.step c .show).sw.s.cells.dirty x y = false → DisplaysRepairedCell c (wd.step c .show) x y :=
  fun htr x y hr hl hd => displays_repaired_cell (C01.show_faithful_partial hrw hct w h ops hv htr) x y hr hl hd

/-! ### the tree as it is: an idle Show is not idle when a wide rune sits left of a locked wide rune

5×1 screen: a wide rune at (1,0) and 'a' at (3,0) are shown; (1,0) is locked; a wide rune is put at (0,0).  Show #2 paints (0,0)
as a blank of width 1 (guard) and therefore steps to the locked (1,0), whose width 2 makes the loop skip (2,0) (marking it
dirty).  Show #3 — nothing has changed — finds (0,0) clean, steps by its stored width 2 straight to (2,0) and paints it: a
payload in an idle Show, landing on the right half of the glyph the locked cell displays. -/

def walkOps : List ScrOp :=
  [.setContent 1 0 0x4e16 [] {}, .setContent 3 0 0x61 [] {}, .show, .lockRegion 1 0 1 1 true,
   .setContent 0 0 0x4e16 [] {}, .show]

/-- the tree as it is (`guardLocked = true`, `walkGuard = false`): the idle Show writes cell (2,0), and the terminal cell of
the locked position (1,0) — the left half of the glyph whose right half was overwritten — is no longer the glyph -/
theorem idle_show_writes_tree_as_is :
    let wd := (World.init 5 1).run C01.cfgGuard walkOps
    (wd.step C01.cfgGuard .show).t.writes = (2, 0) :: wd.t.writes ∧
    (wd.sw.s.cells.cells 1 0).lock = true ∧
    wd.t.grid 1 0 = .shown [0xe4, 0xb8, 0x96] true {} ∧ (wd.step C01.cfgGuard .show).t.grid 1 0 = .garbage := by
  decide +kernel

/-- with fixes/C13-locked-wide-walk.patch (`walkGuard = true`) the same idle Show writes nothing and the glyph stays -/
theorem idle_show_quiet_with_walk_fix :
    let wd := (World.init 5 1).run C01.cfgWalk walkOps
    (wd.step C01.cfgWalk .show).t.writes = wd.t.writes ∧
    (wd.step C01.cfgWalk .show).t.grid 1 0 = .shown [0xe4, 0xb8, 0x96] true {} := by
  decide +kernel

example : ∀ op ∈ walkOps, op.Valid C01.cfgGuard := by simp [walkOps, ScrOp.Valid, attrInvalid]
example : ((World.init 5 1).run C01.cfgGuard walkOps).trusted = true := by decide
example : C01.cfgWalk.guardLocked = false ∨ C01.cfgWalk.walkGuard = true := Or.inr rfl
-- `locked_never_painted_partial` is not vacuous: on the witness of the fixed finding the Show covers exactly cell (0,0)
example : (((World.init 3 1).run cfgRepaired (lockedOps.take 4)).step cfgRepaired .show).t.covered =
    (0, 0) :: ((World.init 3 1).run cfgRepaired (lockedOps.take 4)).t.covered := by decide +kernel
example : (((World.init 3 1).run C01.cfgDemo (lockedOps.take 4)).step C01.cfgDemo .show).t.covered =
    (1, 0) :: (0, 0) :: ((World.init 3 1).run C01.cfgDemo (lockedOps.take 4)).t.covered := by decide +kernel

end Tcell.Props.C13
