/-
C13 — Show() redraws only cells whose appearance changed; locked cells never.   **Layer A** (see C01).

"Writes cell content" = an abstract `put` command reaches the terminal; `ATerm.writes` logs the cell each
one is addressed to.  Same domain as C01: every history, size, coordinate, rune and style; terminal
descriptions without the bottom-right insert-character trick (on those four entries the trick deliberately
repaints the neighbour of the corner cell — the property's own exception — and is not covered here).

Two variants of drawCell are modelled (`DrawCfg.guardLocked`, default `Tcell.currentGuardsLockedNeighbour`):
* `guardLocked = false` — the pinned tree.  The four history theorems below (`hct : c.Plain`) are proved for it; the locked
  clause of the property is *false* for it (`wide_left_of_locked_overpaints`, finding C13-wide-left-of-locked).
* `guardLocked = true` — the tree repaired by fixes/C13-wide-left-of-locked.patch.  For it `locked_never_painted_partial`
  is proved for every history (indeed from every state) and the witness is refuted (`wide_left_of_locked_kept_repaired`,
  `unlock_repaints_wide_repaired`); the Layer-A invariant (`show_writes_only_dirty_partial`, `idle_show…`, C01's
  `show_faithful_partial`) has NOT been carried over to this variant yet — what it has to say there is written down in
  `Tcell.Props.C13.DisplaysRepairedCell`.
-/
import Tcell.Lemmas.World
import Tcell.Lemmas.LockGuard
import Tcell.Props.C01
namespace Tcell.Props.C13
open Tcell Tcell.Buf

variable {c : DrawCfg}

/-- **Only dirty cells are written.** During a Show on a trusted display of unchanged size, every cell that
receives payload was reported Dirty by the cell buffer when the Show began (and was visited by the draw loop, i.e.
is not the hidden half of a wide rune).  By C08 (`dirty_sound` and the explicit dirtying rules) a cell is Dirty
only if its rune, combining runes or style differ from what they were when it was last painted, or it lies in
the columns covered or uncovered by a changed wide rune, or it was invalidated / unlocked. -/
theorem show_writes_only_dirty_partial (hrw : RwOk c.rw) (hct : c.Plain) (w h : Int) (ops : List ScrOp)
    (hv : ∀ op ∈ ops, op.Valid c) :
    let wd := (World.init w h).run c ops
    wd.trusted = true → (wd.sw.ttyw = wd.sw.s.w ∧ wd.sw.ttyh = wd.sw.s.h) →
    ∃ ws, (wd.step c .show).t.writes = ws ++ wd.t.writes ∧
      ∀ p ∈ ws, wd.sw.s.cells.dirty p.1 p.2 = true ∧ visited c.rw wd.sw.s.cells p.1 p.2 = true :=
  fun ht hsz => show_writes hrw hct (reach_inv hrw hct w h ops hv) ht hsz

/-- **Locked cells are never addressed.** No payload is sent to a cell that is locked when the Show begins. -/
theorem locked_never_addressed_partial (hrw : RwOk c.rw) (hct : c.Plain) (w h : Int) (ops : List ScrOp)
    (hv : ∀ op ∈ ops, op.Valid c) :
    let wd := (World.init w h).run c ops
    wd.trusted = true → (wd.sw.ttyw = wd.sw.s.w ∧ wd.sw.ttyh = wd.sw.s.h) →
    ∃ ws, (wd.step c .show).t.writes = ws ++ wd.t.writes ∧
      ∀ p ∈ ws, (wd.sw.s.cells.cells p.1 p.2).lock = false := by
  intro wd ht hsz
  obtain ⟨ws, h1, h2⟩ := show_writes hrw hct (reach_inv hrw hct w h ops hv) ht hsz
  refine ⟨ws, h1, ?_⟩
  intro p hp
  have hd := (h2 p hp).1
  simp only [dirty] at hd
  split at hd
  · exact isDirty_true_unlocked _ hd
  · exact absurd hd (by simp)

/-- **An idle Show writes nothing.** A Show immediately following a Show (no content change, no resize, no
corruption in between) sends no cell payload at all. -/
theorem idle_show_writes_nothing_partial (hrw : RwOk c.rw) (hct : c.Plain) (w h : Int) (ops : List ScrOp)
    (hv : ∀ op ∈ ops, op.Valid c) :
    let wd := (World.init w h).run c ops
    (wd.trusted = true ∨ ¬ (wd.sw.ttyw = wd.sw.s.w ∧ wd.sw.ttyh = wd.sw.s.h)) →
    ((wd.step c .show).step c .show).t.writes = (wd.step c .show).t.writes := by
  intro wd htr
  have inv0 := reach_inv hrw hct w h ops hv
  obtain ⟨inv1, hdisp⟩ := show_step hrw hct inv0
  have disp := hdisp htr
  -- after the first Show the display is trusted and the sizes agree
  have ht1 : (wd.step c .show).trusted = true := by
    by_cases hsz : wd.sw.ttyw = wd.sw.s.w ∧ wd.sw.ttyh = wd.sw.s.h
    · rcases htr with h1 | h1
      · simp only [World.step, hsz, and_self, if_true]; exact h1
      · exact absurd hsz h1
    · simp only [World.step, hsz, if_false]
  have hsz1 : (wd.step c .show).sw.ttyw = (wd.step c .show).sw.s.w ∧ (wd.step c .show).sw.ttyh = (wd.step c .show).sw.s.h := by
    have hm := inv1.mism
    have hd := inv1.tdim
    have ht := (inv1.tr ht1)
    exact ⟨by rw [← hd.1, ht.tw], by rw [← hd.2, ht.th]⟩
  obtain ⟨ws, h1, h2⟩ := show_writes hrw hct inv1 ht1 hsz1
  -- any written cell would be dirty and visited, but every visited unlocked cell is clean after the first Show
  cases ws with
  | nil => simpa using h1
  | cons p ws =>
    exfalso
    obtain ⟨hd, hvis⟩ := h2 p (List.mem_cons_self ..)
    have hr : (wd.step c .show).sw.s.cells.inRange p.1 p.2 := by
      simp only [dirty] at hd; split at hd
      · assumption
      · exact absurd hd (by simp)
    have hl : ((wd.step c .show).sw.s.cells.cells p.1 p.2).lock = false := by
      have hd' := hd
      simp only [dirty] at hd'; rw [if_pos hr] at hd'; exact isDirty_true_unlocked _ hd' 
    have := (disp.cells p.1 p.2 hr hvis hl).1
    rw [this] at hd; exact absurd hd (by simp)

/-- **A cell is repainted by the first Show after it is unlocked** (and more generally after anything made it
dirty): this is C01's `show_faithful_partial` — after that Show the cell is clean and displays its content. -/
theorem unlock_repaints_partial (hrw : RwOk c.rw) (hct : c.Plain) (w h : Int) (ops : List ScrOp)
    (hv : ∀ op ∈ ops, op.Valid c) (x y rw' rh : Int) :
    let wd := ((World.init w h).run c ops).step c (.lockRegion x y rw' rh false)
    wd.trusted = true → Displays c (wd.step c .show) := by
  intro wd ht
  have hv' : ∀ op ∈ ops ++ [ScrOp.lockRegion x y rw' rh false], op.Valid c := by
    intro op ho; rcases List.mem_append.1 ho with ho | ho
    · exact hv op ho
    · simp only [List.mem_singleton] at ho; subst ho; trivial
  have inv := reach_inv hrw hct w h (ops ++ [ScrOp.lockRegion x y rw' rh false]) hv'
  simp only [World.run, List.foldl_append, List.foldl_cons, List.foldl_nil] at inv
  exact (show_step hrw hct inv).2 (Or.inl ht)

/-! ### what is *not* true of the pinned code: a wide rune left of a locked cell paints over it

The right half of a wide glyph drawn at column x lands on column x+1 even when that cell is locked: the
terminal cell of the locked position changes although no payload is addressed to it.  Witness on the
abstract terminal (replayed on the real code by the oracle of the check, class `locked-cell-overpainted`). -/

def lockedOps : List ScrOp :=
  [.setContent 1 0 0x62 [] {}, .show, .lockRegion 1 0 1 1 true, .setContent 0 0 0x4e16 [] {}, .show]

example : ((World.init 3 1).run C01.cfgDemo (lockedOps.take 2)).t.grid 1 0 = .shown [0x62] false {} := by decide +kernel
/-- pinned drawCell (`C01.cfgDemo.guardLocked = false`): after the second Show the locked cell (1,0) no longer shows 'b':
the wide rune's right half covers it -/
theorem wide_left_of_locked_overpaints :
    (((World.init 3 1).run C01.cfgDemo lockedOps).sw.s.cells.cells 1 0).lock = true ∧
    ((World.init 3 1).run C01.cfgDemo lockedOps).t.grid 1 0 = .cont := by decide +kernel

/-! ### the repaired drawCell (`guardLocked = true`, fixes/C13-wide-left-of-locked.patch) -/

/-- the demo configuration with the locked-neighbour guard compiled in -/
def cfgRepaired : DrawCfg := { C01.cfgDemo with guardLocked := true }

/-- **No payload of a Show covers a locked cell** (repaired variant; every history, size, coordinate, rune, style; every
terminal description without the corner trick).  `drawLog` lists, for the draw pass of this Show, every cell payload
together with the cell the loop addresses it to and the number of columns it occupies (drawCell's return value).
Every payload is addressed to a cell that is not locked when the pass begins, and a payload wider than one column is
written only if the next column is not locked either — so, glyphs being at most two columns wide (`RwOk.le2`), no
column a payload occupies is a locked cell: neither the addressed one (`locked_never_addressed_partial`) nor the right
half of a wide glyph.  (`s` is the screen after Show's own resize step: when the window size changed, Resize has
re-created every cell unlocked, cell.go:196.)
`_partial`: (1) corner-trick entries excluded; (2) the log is at the level of the draw loop's own addressing — that the
terminal's cursor is where the loop believes (invariant `PassInv.kcur`) is proved for the pinned variant only and is
otherwise checked on every run by the correspondence and by the oracle's lock snapshots. -/
theorem locked_never_painted_partial (hct : c.cornerTrick = false) (hg : c.guardLocked = true) (w h : Int) (ops : List ScrOp) :
    let wd := (World.init w h).run c ops
    let s := wd.sw.s.resize (some (wd.sw.ttyw, wd.sw.ttyh))
    ∀ e ∈ s.drawLog c, s.cells.locked e.1 e.2.1 = false ∧ (e.2.2 > 1 → s.cells.locked (e.1 + 1) e.2.1 = false) :=
  fun e he => drawLog_ok hct hg _ e he

/-- the same from an arbitrary screen state (the history plays no role) -/
theorem locked_never_painted_any_state (hct : c.cornerTrick = false) (hg : c.guardLocked = true) (s : Scr) :
    ∀ e ∈ s.drawLog c, s.cells.locked e.1 e.2.1 = false ∧ (e.2.2 > 1 → s.cells.locked (e.1 + 1) e.2.1 = false) :=
  fun e he => drawLog_ok hct hg s e he

-- the log is not vacuous: on the witness history the last Show paints exactly cell (0,0) — two columns wide on the
-- pinned tree (covering the locked (1,0)), one column wide on the repaired tree
example : (((World.init 3 1).run C01.cfgDemo (lockedOps.take 4)).sw.s.drawLog C01.cfgDemo) = [(0, 0, 2)] := by decide +kernel
example : (((World.init 3 1).run cfgRepaired (lockedOps.take 4)).sw.s.drawLog cfgRepaired) = [(0, 0, 1)] := by decide +kernel
example : cfgRepaired.cornerTrick = false ∧ cfgRepaired.guardLocked = true := ⟨rfl, rfl⟩

/-- repaired drawCell on the witness history: the locked cell (1,0) still shows 'b', the wide rune left of it is shown as
a blank of width 1 (the policy of the last column) -/
theorem wide_left_of_locked_kept_repaired :
    (((World.init 3 1).run cfgRepaired lockedOps).sw.s.cells.cells 1 0).lock = true ∧
    ((World.init 3 1).run cfgRepaired lockedOps).t.grid 1 0 = .shown [0x62] false {} ∧
    ((World.init 3 1).run cfgRepaired lockedOps).t.grid 0 0 = .shown [32] false {} := by decide +kernel

/-- … and the first Show after the cell is unlocked draws the wide rune again, two columns wide (LockRegion(…, false) of
the repaired tree marks a wide rune just left of the region dirty, `Tcell.lockRowsG`) -/
theorem unlock_repaints_wide_repaired :
    ((World.init 3 1).run cfgRepaired (lockedOps ++ [.lockRegion 1 0 1 1 false, .show])).t.grid 0 0 =
      .shown [0xe4, 0xb8, 0x96] true {} ∧
    ((World.init 3 1).run cfgRepaired (lockedOps ++ [.lockRegion 1 0 1 1 false, .show])).t.grid 1 0 = .cont := by
  decide +kernel

/-- What C01's `Displays` has to say about a visited unlocked cell holding a wide rune on the repaired tree (not yet
proved over histories; checked by the oracle of engine `draw`, tags `wide-left-of-locked-blank`): if the next column is
not locked the cell shows the glyph two columns wide exactly as on the pinned tree; if the next column is locked it
shows a blank of width 1 in the cell's style — or still the glyph, when it was painted before the neighbour was locked. -/
def DisplaysRepairedCell (c : DrawCfg) (wd : World) (x y : Int) : Prop :=
  let cell := wd.sw.s.cells.cells x y
  ∃ st', (wd.t.grid x y = shownOf c wd.sw.s.w x cell.currMain cell.currComb st' ∨
          (wd.sw.s.cells.locked (x + 1) y = true ∧ wd.t.grid x y = .shown [32] false st'))

example : DisplaysRepairedCell cfgRepaired ((World.init 3 1).run cfgRepaired lockedOps) 0 0 :=
  ⟨{}, Or.inr ⟨by decide +kernel, by decide +kernel⟩⟩

end Tcell.Props.C13
