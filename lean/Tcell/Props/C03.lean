import Tcell.Lemmas.KeyPrefixFree
import Tcell.Gen.Keys
import Tcell.Gen.TerminfoKeys
/-
C03 — "Every key sequence of every terminal decodes to its key and modifiers".

Generic layer (any key table `T = cfg.keys`): `key_decodes`, `unique_match`, `ctrl_bytes`, `ctrl_byte_fallthrough`,
`lone_esc`, `del_is_backspace2`, `alt_prefix`.
Database layer (kernel evaluation over the regenerated `Gen.dbTables` = the key table the real constructor builds for
every entry, dumped by the translator from `tcell.VerifKeyTable`, and `Gen.db` = the entries' fields):
`db_prefix_free`, `db_keys_decode` (+ `specCaps_complete`, `ignored_caps_counterexample`), `db_xterm_mods`, `db_ctrl_bytes`,
`db_mouse_clear`.  The tie `buildKeys e = Gen table of e` (model of prepareKeys ↔ real table) is the exhaustive
`keytable` correspondence engine.
-/
namespace Tcell.Props.C03
open Tcell Tcell.Model
open Tcell.Lemmas.Collect Tcell.Lemmas.PrefixFree Tcell.Lemmas.MouseSeq

/-! ### constants hard-coded by the model = constants of the current source -/
example : keyRune = Gen.kRune ∧ keyUp = Gen.kUp ∧ keyDown = Gen.kDown ∧ keyRight = Gen.kRight ∧ keyLeft = Gen.kLeft := by decide
example : keyPgUp = Gen.kPgUp ∧ keyPgDn = Gen.kPgDn ∧ keyHome = Gen.kHome ∧ keyEnd = Gen.kEnd ∧ keyInsert = Gen.kInsert
    ∧ keyDelete = Gen.kDelete ∧ keyHelp = Gen.kHelp ∧ keyExit = Gen.kExit ∧ keyClear = Gen.kClear ∧ keyCancel = Gen.kCancel
    ∧ keyPrint = Gen.kPrint ∧ keyPause = Gen.kPause ∧ keyBacktab = Gen.kBacktab := by decide
example : keyF 1 = Gen.kF1 ∧ keyF 12 = Gen.kF12 ∧ keyF 13 = Gen.kF13 ∧ keyF 64 = Gen.kF64 := by decide
example : keyBackspace = Gen.kBackspace ∧ keyTab = Gen.kTab ∧ keyEnter = Gen.kEnter ∧ keyEsc = Gen.kEsc
    ∧ keyBackspace2 = Gen.kBackspace2 ∧ Gen.kCtrlA = 1 ∧ Gen.kCtrlUnderscore = 31 := by decide
example : modShift = Gen.mShift ∧ modCtrl = Gen.mCtrl ∧ modAlt = Gen.mAlt ∧ modMeta = Gen.mMeta := by decide
example : keyPasteStart = Gen.kPasteStart ∧ keyPasteEnd = Gen.kPasteEnd ∧ modifiersXTerm = (Gen.modifiersXTerm : Int) := by decide

/-! ### generic layer -/

/-- the event `parseFunctionKey` builds for table entry `e` matched at the front of `b` -/
def keyEv (st : PState) (e : KeyEntry) : Event :=
  let r : Int := if e.seq.length = 1 then (e.seq.headD 0 : Nat) else 0
  let mod := if st.escaped then e.mod ||| modAlt else e.mod
  if e.key = keyPasteStart then .paste true else if e.key = keyPasteEnd then .paste false else newEventKey e.key r mod

theorem keyEvent_eq (st : PState) (e : KeyEntry) (rest : Bytes) (hne : e.seq ≠ []) :
    keyEvent st (e.seq ++ rest) e = .complete e.seq.length [keyEv st e] { st with escaped := false } := by
  cases hs : e.seq with
  | nil => exact absurd hs hne
  | cons c t => simp [keyEvent, keyEv, hs]

/-- **Order independence** (`unique_match`): in a prefix-free table the function-key parser has exactly one candidate
on any buffer that starts with a defined sequence, so the Go map iteration order cannot matter. -/
theorem unique_match (T : KeyTable) (hT : PrefixFree T) (e : KeyEntry) (he : e ∈ T) (hne : bytesEq e.seq [27] = false)
    (hnil : e.seq ≠ []) (st : PState) (rest : Bytes) :
    parseFunctionKey T st (e.seq ++ rest) = .complete e.seq.length [keyEv st e] { st with escaped := false } := by
  unfold parseFunctionKey
  rw [keyMatches_unique T hT e he hne rest]
  exact keyEvent_eq st e rest hnil

/-- one iteration on a buffer starting with a defined sequence whose first byte is a control byte (< 0x20: ESC-introduced
sequences and single control bytes; bytes 0x20..0x7F and ≥ 0x80 go to `parseRune` first, see `del_is_backspace2`) -/
theorem step1_key (cfg : Cfg) (hT : PrefixFree cfg.keys) (e : KeyEntry) (he : e ∈ cfg.keys) (c : Nat) (t : Bytes)
    (hs : e.seq = c :: t) (hc : c < 32) (hne : bytesEq e.seq [27] = false) (st : PState) (rest : Bytes) (expire : Bool) :
    step1 cfg st (e.seq ++ rest) expire = .emit [keyEv st e] { st with escaped := false } rest := by
  have hkey := unique_match cfg.keys hT e he hne (by rw [hs]; simp) st rest
  have hrune : Silent (parseRune cfg.dec st (e.seq ++ rest)) := by
    right; rw [hs]; exact parseRune_ctrl _ _ _ _ hc
  unfold step1 parsers
  simp only [List.cons_append, List.nil_append]
  obtain ⟨n1, h1⟩ := tryParsers_skip st (e.seq ++ rest) expire _ _ hrune 0
  rw [h1, tryParsers_hit st _ expire _ _ _ _ _ hkey n1]
  simp

/-- **key_decodes.**  For any prefix-free key table, every defined sequence that starts with a control byte, fed alone,
decodes to exactly one event — the key and modifiers of its table entry (plus Alt if an ESC was pending; the paste
markers give paste events) — with nothing left buffered, whether or not the escape timer has expired. -/
theorem key_decodes (cfg : Cfg) (hT : PrefixFree cfg.keys) (e : KeyEntry) (he : e ∈ cfg.keys) (c : Nat) (t : Bytes)
    (hs : e.seq = c :: t) (hc : c < 32) (hne : bytesEq e.seq [27] = false) (st : PState) (expire : Bool) :
    collect cfg st e.seq expire = ⟨[keyEv st e], { st with escaped := false }, [], false⟩ := by
  have h := step1_key cfg hT e he c t hs hc hne st [] expire
  rw [List.append_nil] at h
  unfold collect
  rw [hs] at h ⊢
  simp only [List.length_cons]
  rw [collectAux_emit' cfg expire _ st _ _ _ (by simp) _ h, collectAux_nil]
  simp

/-- **concat_decodes**: two defined sequences back to back decode to the two events in order (and so on by induction:
`step1_key` holds with any `rest`). -/
theorem concat_decodes (cfg : Cfg) (hT : PrefixFree cfg.keys) (e1 e2 : KeyEntry) (h1 : e1 ∈ cfg.keys) (h2 : e2 ∈ cfg.keys)
    (c1 c2 : Nat) (t1 t2 : Bytes) (hs1 : e1.seq = c1 :: t1) (hs2 : e2.seq = c2 :: t2) (hc1 : c1 < 32) (hc2 : c2 < 32)
    (hn1 : bytesEq e1.seq [27] = false) (hn2 : bytesEq e2.seq [27] = false) (st : PState) (expire : Bool) :
    collect cfg st (e1.seq ++ e2.seq) expire
      = ⟨[keyEv st e1, keyEv { st with escaped := false } e2], { st with escaped := false }, [], false⟩ := by
  have ha := step1_key cfg hT e1 h1 c1 t1 hs1 hc1 hn1 st e2.seq expire
  have hb := step1_key cfg hT e2 h2 c2 t2 hs2 hc2 hn2 { st with escaped := false } [] expire
  rw [List.append_nil] at hb
  unfold collect
  have hl : (e1.seq ++ e2.seq).length = (t1.length + e2.seq.length) + 1 := by rw [hs1]; simp <;> omega
  rw [hl, collectAux_emit' cfg expire _ st _ _ _ (by rw [hs1]; simp) _ ha]
  have hl2 : t1.length + e2.seq.length = (t1.length + t2.length) + 1 := by rw [hs2]; simp <;> omega
  rw [hl2, collectAux_emit' cfg expire _ _ _ _ _ (by rw [hs2]; simp) _ hb, collectAux_nil]
  simp

/-- **ctrl_bytes**: a single control byte that is in the table as itself (the final loop of prepareKeys) decodes to the
key with that code, rune = the byte, Ctrl — except Backspace, Tab, Enter, Esc which carry no modifier. -/
theorem ctrl_bytes (cfg : Cfg) (hT : PrefixFree cfg.keys) (c : Nat) (hc : c < 32) (hc27 : c ≠ 27)
    (he : (⟨[c], c, ctrlByteMod c⟩ : KeyEntry) ∈ cfg.keys) (expire : Bool) :
    collect cfg {} [c] expire = ⟨[.key c c (ctrlByteMod c)], {}, [], false⟩ := by
  have hne : bytesEq [c] [27] = false := by
    simp [bytesEq, Tcell.Lemmas.PrefixFree.beq_false hc27]
  have h := key_decodes cfg hT _ he c [] rfl hc hne {} expire
  simp only [] at h
  rw [h]
  have : keyEv {} (⟨[c], c, ctrlByteMod c⟩ : KeyEntry) = .key c c (ctrlByteMod c) := by
    have h1 : c ≠ keyPasteStart := by unfold keyPasteStart; omega
    have h2 : c ≠ keyPasteEnd := by unfold keyPasteEnd; omega
    have h3 : c ≠ keyRune := by unfold keyRune; omega
    simp [keyEv, h1, h2, newEventKey, h3]
  rw [this]

example : ctrlByteMod 1 = modCtrl ∧ ctrlByteMod 8 = modNone ∧ ctrlByteMod 9 = modNone ∧ ctrlByteMod 13 = modNone := by decide

/-- **del_is_backspace2**: a single DEL byte is Backspace2 (key 0x7F, no modifier), whatever the table says about 0x7F -/
theorem del_is_backspace2 (cfg : Cfg) (expire : Bool) :
    collect cfg {} [127] expire = ⟨[.key keyBackspace2 127 modNone], {}, [], false⟩ := by
  have h : step1 cfg {} [127] expire = .emit [.key keyBackspace2 127 modNone] {} [] := by
    unfold step1 parsers
    simp only [List.cons_append]
    rw [tryParsers_hit {} [127] expire _ _ 1 [.key keyBackspace2 127 modNone] {} (by simp [parseRune, newEventKey, altOf, keyRune, keyBackspace2, modNone]) 0]
    rfl
  unfold collect
  rw [show ([127] : Bytes).length = 0 + 1 from rfl, collectAux_emit' cfg expire _ _ _ _ _ (by simp) _ h, collectAux_nil]
  simp

/-- every parser of the configuration is silent on the buffer -/
def AllSilent (cfg : Cfg) (st : PState) (b : Bytes) : Prop := ∀ p ∈ parsers cfg, Silent (p st b)

theorem tryParsers_allSilent (st : PState) (b : Bytes) : ∀ (ps : List (PState → Bytes → Verdict)),
    (∀ p ∈ ps, Silent (p st b)) → ∀ n, tryParsers st b true ps n = fallThrough st b := by
  intro ps
  induction ps with
  | nil => intro _ n; simp [tryParsers]
  | cons p ps ih =>
    intro h n
    obtain ⟨n', hn⟩ := tryParsers_skip st b true p ps (h p (by simp)) n
    rw [hn]
    exact ih (fun q hq => h q (by simp [hq])) n'

/-- after the escape timeout, a buffer no parser recognises is delivered byte by byte -/
theorem step1_expired (cfg : Cfg) (st : PState) (b : Bytes) (h : AllSilent cfg st b) :
    step1 cfg st b true = fallThrough st b := tryParsers_allSilent st b _ h 0

theorem parsers_silent_esc (cfg : Cfg) (st : PState) (hk : keyMatches cfg.keys [27] = []) : AllSilent cfg st [27] := by
  intro p hp
  unfold parsers at hp
  simp only [List.mem_append, List.mem_cons, List.mem_ite_nil_right, List.not_mem_nil, or_false] at hp
  rcases hp with ((rfl | rfl | rfl) | ⟨_, (rfl | rfl)⟩) | ⟨_, rfl⟩
  · right; exact parseRune_esc _ _ _
  · exact parseFunctionKey_silent _ _ _ hk
  · left; rfl
  · left; rfl
  · left; simp [parseSgrMouse, sgrRun, sgrStepV, sgrKnown, sgrStep]
  · left; unfold parseClipboardV; cases cfg.clipFixed <;> rfl

/-- **lone_esc**: a lone ESC yields the Esc key once the timeout has passed (table without empty sequences) -/
theorem lone_esc (cfg : Cfg) (st : PState) (hk : keyMatches cfg.keys [27] = []) :
    collect cfg st [27] true = ⟨[.key keyEsc 0 modNone], { st with escaped := false }, [], false⟩ := by
  have h := step1_expired cfg st [27] (parsers_silent_esc cfg st hk)
  have h' : step1 cfg st [27] true = .emit [.key keyEsc 0 modNone] { st with escaped := false } [] := by
    rw [h]; simp [fallThrough, newEventKey, keyEsc, keyRune]
  unfold collect
  rw [show ([27] : Bytes).length = 0 + 1 from rfl, collectAux_emit' cfg true _ st _ [27] [] (by simp) _ h', collectAux_nil]
  simp

/-- **alt_prefix**: ESC immediately followed by a defined sequence yields that key with Alt — provided nothing recognises
the ESC-prefixed buffer itself (`AllSilent`; e.g. ESC ESC O P on any entry: no key, focus, mouse or — for buffers of at
most 7 bytes — clipboard parser accepts a second ESC) and the timer has expired or will. -/
theorem alt_prefix (cfg : Cfg) (hT : PrefixFree cfg.keys) (e : KeyEntry) (he : e ∈ cfg.keys) (c : Nat) (t : Bytes)
    (hs : e.seq = c :: t) (hc : c < 32) (hne : bytesEq e.seq [27] = false) (st : PState)
    (hsil : AllSilent cfg st (27 :: e.seq)) :
    collect cfg st (27 :: e.seq) true = ⟨[keyEv { st with escaped := true } e], { st with escaped := false }, [], false⟩ := by
  have h1 : step1 cfg st (27 :: e.seq) true = .emit [] { st with escaped := true } e.seq := by
    rw [step1_expired cfg st _ hsil, hs]; rfl
  have h2 := step1_key cfg hT e he c t hs hc hne { st with escaped := true } [] true
  rw [List.append_nil] at h2
  unfold collect
  rw [show (27 :: e.seq).length = e.seq.length + 1 from rfl, collectAux_emit' cfg true _ st _ _ _ (by simp) _ h1]
  rw [hs] at h2 ⊢
  rw [show (c :: t).length = t.length + 1 from rfl, collectAux_emit' cfg true _ _ _ _ _ (by simp) _ h2, collectAux_nil]
  simp

/-- hypotheses of the generic layer are satisfiable: a small xterm-like table -/
def exT : KeyTable := [⟨[13], 13, 0⟩, ⟨[27, 79, 80], 279, 0⟩, ⟨[27, 91, 49, 59, 53, 80], 279, 2⟩, ⟨[27, 91, 65], 257, 0⟩]
def exCfg : Cfg := { keys := exT, mouse := true, clipboard := true, dec := decUtf8, w := 80, h := 24 }
theorem exT_pf : PrefixFree exT := prefixFree_of_chain exT (by decide)
example : collect exCfg {} [27, 79, 80] false = ⟨[.key 279 0 0], {}, [], false⟩ :=
  key_decodes exCfg exT_pf ⟨[27, 79, 80], 279, 0⟩ (by decide) 27 [79, 80] rfl (by decide) (by decide) {} false
example : collect exCfg {} [27, 27, 79, 80] true = ⟨[.key 279 0 4], {}, [], false⟩ := by decide
example : collect exCfg {} [27] true = ⟨[.key 27 0 0], {}, [], false⟩ := lone_esc exCfg {} (by decide)

/-! ### database layer (kernel evaluation over the regenerated `Gen.db` / `Gen.dbTables`) -/

/-- a generated row as a table entry -/
def toTable (rows : List Gen.KeyRow) : KeyTable := rows.map (fun r => ⟨r.2.1, r.2.2.1, r.2.2.2⟩)

/-- base-257 numeral of a byte string (digits byte+1), the lookup key of the generated rows -/
def encode257 (s : Bytes) : Nat := s.foldl (fun a b => a * 257 + (b + 1)) 0

/-- (key, modifiers) the built table of the entry has for sequence `s` (numeral lookup, then the bytes are compared) -/
def lookupRow (rows : List Gen.KeyRow) (s : Bytes) : Option (Nat × Nat) :=
  match rows.find? (fun r => Nat.beq r.1 (encode257 s)) with
  | some r => if bytesEq r.2.1 s then some (r.2.2.1, r.2.2.2) else none
  | none => none

/-- every key capability field of `terminfo.Terminfo` with the (key, modifiers) its NAME stands for
(KeyF<n> = F<n>; Key<Mods><Base> = Base with Shf/Ctrl/Meta/Alt modifiers) — from the fields alone, not from prepareKeys -/
def specCaps (k : TermKeys) : List (Nat × Nat × Bytes) :=
  [(keyBackspace, modNone, k.keyBackspace), (keyF 1, modNone, k.keyF1), (keyF 2, modNone, k.keyF2), (keyF 3, modNone, k.keyF3),
   (keyF 4, modNone, k.keyF4), (keyF 5, modNone, k.keyF5), (keyF 6, modNone, k.keyF6), (keyF 7, modNone, k.keyF7),
   (keyF 8, modNone, k.keyF8), (keyF 9, modNone, k.keyF9), (keyF 10, modNone, k.keyF10), (keyF 11, modNone, k.keyF11),
   (keyF 12, modNone, k.keyF12), (keyF 13, modNone, k.keyF13), (keyF 14, modNone, k.keyF14), (keyF 15, modNone, k.keyF15),
   (keyF 16, modNone, k.keyF16), (keyF 17, modNone, k.keyF17), (keyF 18, modNone, k.keyF18), (keyF 19, modNone, k.keyF19),
   (keyF 20, modNone, k.keyF20), (keyF 21, modNone, k.keyF21), (keyF 22, modNone, k.keyF22), (keyF 23, modNone, k.keyF23),
   (keyF 24, modNone, k.keyF24), (keyF 25, modNone, k.keyF25), (keyF 26, modNone, k.keyF26), (keyF 27, modNone, k.keyF27),
   (keyF 28, modNone, k.keyF28), (keyF 29, modNone, k.keyF29), (keyF 30, modNone, k.keyF30), (keyF 31, modNone, k.keyF31),
   (keyF 32, modNone, k.keyF32), (keyF 33, modNone, k.keyF33), (keyF 34, modNone, k.keyF34), (keyF 35, modNone, k.keyF35),
   (keyF 36, modNone, k.keyF36), (keyF 37, modNone, k.keyF37), (keyF 38, modNone, k.keyF38), (keyF 39, modNone, k.keyF39),
   (keyF 40, modNone, k.keyF40), (keyF 41, modNone, k.keyF41), (keyF 42, modNone, k.keyF42), (keyF 43, modNone, k.keyF43),
   (keyF 44, modNone, k.keyF44), (keyF 45, modNone, k.keyF45), (keyF 46, modNone, k.keyF46), (keyF 47, modNone, k.keyF47),
   (keyF 48, modNone, k.keyF48), (keyF 49, modNone, k.keyF49), (keyF 50, modNone, k.keyF50), (keyF 51, modNone, k.keyF51),
   (keyF 52, modNone, k.keyF52), (keyF 53, modNone, k.keyF53), (keyF 54, modNone, k.keyF54), (keyF 55, modNone, k.keyF55),
   (keyF 56, modNone, k.keyF56), (keyF 57, modNone, k.keyF57), (keyF 58, modNone, k.keyF58), (keyF 59, modNone, k.keyF59),
   (keyF 60, modNone, k.keyF60), (keyF 61, modNone, k.keyF61), (keyF 62, modNone, k.keyF62), (keyF 63, modNone, k.keyF63),
   (keyF 64, modNone, k.keyF64), (keyInsert, modNone, k.keyInsert), (keyDelete, modNone, k.keyDelete), (keyHome, modNone, k.keyHome),
   (keyEnd, modNone, k.keyEnd), (keyHelp, modNone, k.keyHelp), (keyPgUp, modNone, k.keyPgUp), (keyPgDn, modNone, k.keyPgDn),
   (keyUp, modNone, k.keyUp), (keyDown, modNone, k.keyDown), (keyLeft, modNone, k.keyLeft), (keyRight, modNone, k.keyRight),
   (keyBacktab, modNone, k.keyBacktab), (keyExit, modNone, k.keyExit), (keyClear, modNone, k.keyClear), (keyPrint, modNone, k.keyPrint),
   (keyCancel, modNone, k.keyCancel), (keyRight, modShift, k.keyShfRight), (keyLeft, modShift, k.keyShfLeft), (keyHome, modShift, k.keyShfHome),
   (keyEnd, modShift, k.keyShfEnd), (keyInsert, modShift, k.keyShfInsert), (keyDelete, modShift, k.keyShfDelete), (keyUp, modShift, k.keyShfUp),
   (keyDown, modShift, k.keyShfDown), (keyPgUp, modShift, k.keyShfPgUp), (keyPgDn, modShift, k.keyShfPgDn), (keyUp, modCtrl, k.keyCtrlUp),
   (keyDown, modCtrl, k.keyCtrlDown), (keyRight, modCtrl, k.keyCtrlRight), (keyLeft, modCtrl, k.keyCtrlLeft), (keyUp, modMeta, k.keyMetaUp),
   (keyDown, modMeta, k.keyMetaDown), (keyRight, modMeta, k.keyMetaRight), (keyLeft, modMeta, k.keyMetaLeft), (keyUp, modAlt, k.keyAltUp),
   (keyDown, modAlt, k.keyAltDown), (keyRight, modAlt, k.keyAltRight), (keyLeft, modAlt, k.keyAltLeft), (keyHome, modCtrl, k.keyCtrlHome),
   (keyEnd, modCtrl, k.keyCtrlEnd), (keyHome, modMeta, k.keyMetaHome), (keyEnd, modMeta, k.keyMetaEnd), (keyHome, modAlt, k.keyAltHome),
   (keyEnd, modAlt, k.keyAltEnd), (keyUp, modAlt + modShift, k.keyAltShfUp), (keyDown, modAlt + modShift, k.keyAltShfDown), (keyLeft, modAlt + modShift, k.keyAltShfLeft),
   (keyRight, modAlt + modShift, k.keyAltShfRight), (keyUp, modMeta + modShift, k.keyMetaShfUp), (keyDown, modMeta + modShift, k.keyMetaShfDown), (keyLeft, modMeta + modShift, k.keyMetaShfLeft),
   (keyRight, modMeta + modShift, k.keyMetaShfRight), (keyUp, modCtrl + modShift, k.keyCtrlShfUp), (keyDown, modCtrl + modShift, k.keyCtrlShfDown), (keyLeft, modCtrl + modShift, k.keyCtrlShfLeft),
   (keyRight, modCtrl + modShift, k.keyCtrlShfRight), (keyHome, modCtrl + modShift, k.keyCtrlShfHome), (keyEnd, modCtrl + modShift, k.keyCtrlShfEnd), (keyHome, modAlt + modShift, k.keyAltShfHome),
   (keyEnd, modAlt + modShift, k.keyAltShfEnd), (keyHome, modMeta + modShift, k.keyMetaShfHome), (keyEnd, modMeta + modShift, k.keyMetaShfEnd)]

/-- terminfo convention for function keys beyond F12 (xterm kf13…kf63): F13-24 = Shift, F25-36 = Ctrl,
F37-48 = Ctrl+Shift, F49-60 = Alt, F61-63 = Alt+Shift of F1… -/
def fAlias (key : Nat) : Option (Nat × Nat) :=
  if keyF 13 ≤ key ∧ key ≤ keyF 64 then
    let n := key - keyF 1
    let m := match n / 12 with | 1 => modShift | 2 => modCtrl | 3 => modCtrl + modShift | 4 => modAlt | _ => modAlt + modShift
    some (keyF 1 + n % 12, m)
  else none

/-- ctlseqs "PC-Style Function Keys": modifier parameter n encodes n−1 = Shift(1) + Alt(2) + Ctrl(4) + Meta(8) -/
def xtermMods (n : Nat) : Nat :=
  (if (n - 1) % 2 = 1 then modShift else 0) + (if (n - 1) / 2 % 2 = 1 then modAlt else 0)
  + (if (n - 1) / 4 % 2 = 1 then modCtrl else 0) + (if (n - 1) / 8 % 2 = 1 then modMeta else 0)

/-- the sequence xterm sends for the key whose unmodified sequence is `s`, with modifier parameter `n`:
`CSI k ~` ↦ `CSI k ; n ~`;  `SS3 x` and `CSI x` (x a capital letter) ↦ `CSI 1 ; n x` -/
def modSeq (s : Bytes) (n : Nat) : Option Bytes :=
  match s with
  | [27, a, x] => if (a = 79 ∨ a = 91) ∧ 65 ≤ x ∧ x ≤ 90 then some ([27, 91, 49, 59] ++ dec2 n ++ [x]) else none
  | 27 :: 91 :: rest =>
    if rest.length ≥ 2 ∧ rest.getLast? = some 126 then some ([27, 91] ++ rest.dropLast ++ [59] ++ dec2 n ++ [126]) else none
  | _ => none

def params : List Nat := [2, 3, 4, 5, 6, 7, 8, 9, 10, 11, 12, 13, 14, 15, 16]

/-- on an xterm-style entry `s` is the modified form of one of the 22 keys and `(k, m)` its reading -/
def xtermReading (e : Terminfo) (s : Bytes) (km : Nat × Nat) : Bool :=
  decide (e.modifiers = modifiersXTerm) &&
  (xtermModKeys e.keys).any fun p => params.any fun n =>
    (match modSeq p.2 n with | some ms => bytesEq ms s | none => false) && Nat.beq km.1 p.1 && Nat.beq km.2 (xtermMods n)

/-- `(k, m)` is a key the description assigns to `s`: some capability field with string `s` stands for it, directly or
as the shifted/control alias of a function key, or (xterm-style entries) as a modified cursor/editing/function key -/
def assignedOK (e : Terminfo) (s : Bytes) (km : Nat × Nat) : Bool :=
  (specCaps e.keys).any (fun c => bytesEq c.2.2 s &&
    ((Nat.beq c.1 km.1 && Nat.beq c.2.1 km.2) ||
     (Nat.beq c.2.1 0 && match fAlias c.1 with | some a => Nat.beq a.1 km.1 && Nat.beq a.2 km.2 | none => false)))
  || xtermReading e s km

/-- check of one capability list against the built table: every defined string (other than the single DEL byte, which
`parseRune` turns into Backspace2 before any table lookup) is in the table with an assigned key -/
def capsDecode (e : Terminfo) (rows : List Gen.KeyRow) (caps : List (Nat × Nat × Bytes)) (mayBeAbsent : Bool) : Bool :=
  caps.all fun c =>
    match c.2.2 with
    | [] => true
    | [127] => true
    | s => match lookupRow rows s with
      | some km => assignedOK e s km
      | none => mayBeAbsent

set_option maxRecDepth 100000 in
/-- `specCaps` is complete: it lists exactly the `Key*` capability fields of `terminfo.Terminfo`, in declaration order, as
regenerated by reflection (`Gen.TerminfoKeys`: `TermKeys.all`) — a field added to the struct makes this fail -/
theorem specCaps_complete (k : TermKeys) : (specCaps k).map (·.2.2) = k.all := rfl

/-- every `Key*` capability field of the description -/
def dbKeysOK (p : Terminfo × List Gen.KeyRow) : Bool := capsDecode p.1 p.2 (specCaps p.1.keys) false

set_option maxRecDepth 1000000 in
/-- **DB: every key capability decodes to an assigned key** (full strength, current tree): for EVERY entry of the regenerated
database and EVERY `Key*` capability field it defines (all 160 fields of `terminfo.Terminfo`, `specCaps_complete`; other
than the single DEL byte, which `parseRune` turns into Backspace2 before any table lookup), the string is in the key
table the real constructor builds, with a key and modifiers the description assigns to that string.  Together with
`key_decodes` (table entry ⇒ event) and `db_prefix_free` this is the statement for each capability string.
Holds since /repo bca46fc registered `KeyClear`, `KeyShfInsert`, `KeyShfDelete` (before it: only for the capabilities
`baseKeyCaps` lists — aixterm/hpterm `KeyClear` and the rxvt family's `KeyShfInsert`/`KeyShfDelete` were absent from the
table, finding `key-capability-ignored`).  The Meta/Alt/…Shf cursor-key fields, which `prepareKeys` still does not
read, are defined by no built-in entry (`db_unread_caps_undefined`), so no exception is needed for the database; a
user-supplied or dynamic description that sets them on a non-xterm-modifier entry is outside this theorem. -/
theorem db_keys_decode : Gen.dbTables.all dbKeysOK = true := by decide +kernel

/-- ∀-form of `db_keys_decode` -/
theorem db_keys_decode_each (p : Terminfo × List Gen.KeyRow) (hp : p ∈ Gen.dbTables) (c : Nat × Nat × Bytes)
    (hc : c ∈ specCaps p.1.keys) (hne : c.2.2 ≠ []) (hdel : c.2.2 ≠ [127]) :
    ∃ km, lookupRow p.2 c.2.2 = some km ∧ assignedOK p.1 c.2.2 km = true := by
  have h := List.all_eq_true.mp (List.all_eq_true.mp db_keys_decode p hp) c hc
  cases hl : lookupRow p.2 c.2.2 with
  | none =>
    exfalso
    revert h
    cases hs : c.2.2 with
    | nil => exact absurd hs hne
    | cons a t =>
      rw [hs] at hl hdel
      cases t with
      | nil =>
        by_cases ha : a = 127
        · subst ha; exact absurd rfl hdel
        · intro h; simp [hl] at h
      | cons b t' => intro h; simp [hl] at h
  | some km =>
    refine ⟨km, rfl, ?_⟩
    revert h
    cases hs : c.2.2 with
    | nil => exact absurd hs hne
    | cons a t =>
      rw [hs] at hl hdel
      cases t with
      | nil =>
        by_cases ha : a = 127
        · subst ha; exact absurd rfl hdel
        · intro h; simpa [hl] using h
      | cons b t' => intro h; simpa [hl] using h

/-- the capability fields `prepareKeys` does not read at all (it derives the xterm-style ones from the modifier
scheme instead): Meta/Alt/Alt-Shift/Meta-Shift/Ctrl-Shift cursor and Home/End keys -/
def unreadCaps (k : TermKeys) : List Bytes :=
  [k.keyMetaUp, k.keyMetaDown, k.keyMetaRight, k.keyMetaLeft, k.keyAltUp, k.keyAltDown, k.keyAltRight, k.keyAltLeft,
   k.keyMetaHome, k.keyMetaEnd, k.keyAltHome, k.keyAltEnd, k.keyAltShfUp, k.keyAltShfDown, k.keyAltShfLeft, k.keyAltShfRight,
   k.keyMetaShfUp, k.keyMetaShfDown, k.keyMetaShfLeft, k.keyMetaShfRight, k.keyCtrlShfUp, k.keyCtrlShfDown, k.keyCtrlShfLeft,
   k.keyCtrlShfRight, k.keyCtrlShfHome, k.keyCtrlShfEnd, k.keyAltShfHome, k.keyAltShfEnd, k.keyMetaShfHome, k.keyMetaShfEnd]

/-- no built-in entry defines any of them (so `db_keys_decode` does not rest on strings that happen to coincide) -/
theorem db_unread_caps_undefined : Gen.dbTables.all (fun p => (unreadCaps p.1.keys).all (·.isEmpty)) = true := by decide +kernel

/-- non-vacuity: the three capabilities the pinned tree ignored are defined by database entries and now decode to their
keys — `KeyClear` of aixterm, `KeyShfInsert` / `KeyShfDelete` of rxvt -/
example :
    (∃ p ∈ Gen.dbTables, p.1.name = "aixterm" ∧ p.1.keys.keyClear ≠ [] ∧ lookupRow p.2 p.1.keys.keyClear = some (keyClear, modNone)) ∧
    (∃ p ∈ Gen.dbTables, p.1.name = "rxvt" ∧ p.1.keys.keyShfInsert ≠ [] ∧ p.1.keys.keyShfDelete ≠ [] ∧
      lookupRow p.2 p.1.keys.keyShfInsert = some (keyInsert, modShift) ∧
      lookupRow p.2 p.1.keys.keyShfDelete = some (keyDelete, modShift)) := by decide +kernel

set_option maxRecDepth 1000000 in
/-- tree-independent form (true on the pinned tree too): wherever the built table has a capability string at all, the key is
an assigned one -/
theorem db_all_caps_consistent :
    Gen.dbTables.all (fun p => capsDecode p.1 p.2 (specCaps p.1.keys) true) = true := by decide +kernel

/-- witness of the finding `key-capability-ignored` on the model: an aixterm-like entry defining `KeyClear` -/
def exAix : Terminfo := { name := "aixterm", keys := { keyClear := [27, 91, 49, 52, 52, 113], keyUp := [27, 91, 65] } }
theorem ignored_caps_counterexample :
    lookup (buildKeys false exAix) [27, 91, 49, 52, 52, 113] = none
    ∧ (lookup (buildKeys true exAix) [27, 91, 49, 52, 52, 113]).map (fun e => (e.key, e.mod)) = some (keyClear, modNone) := by
  decide +kernel

set_option maxRecDepth 1000000 in
/-- **DB: prefix-freeness** — the built table of every entry passes the sorted-adjacent certificate … -/
theorem db_chain : Gen.dbTables.all (fun p => chainOK (toTable p.2)) = true := by decide +kernel

/-- … hence no defined sequence of any entry is a prefix of another: decoding never depends on map iteration order -/
theorem db_prefix_free : ∀ p ∈ Gen.dbTables, PrefixFree (toTable p.2) :=
  fun p hp => prefixFree_of_chain _ (List.all_eq_true.mp db_chain p hp)

set_option maxRecDepth 1000000 in
/-- **DB: xterm modifiers** — on every entry with `Modifiers = XTerm`, for each of the 22 cursor/editing/function keys
and every parameter n = 2..16, the modified sequence is in the table as (that key, exactly the Shift/Alt/Ctrl/Meta set
xterm encodes in n) -/
theorem db_xterm_mods : Gen.dbTables.all (fun p =>
    !decide (p.1.modifiers = modifiersXTerm) ||
    (xtermModKeys p.1.keys).all fun kc => params.all fun n =>
      match modSeq kc.2 n with
      | some ms => (match lookupRow p.2 ms with | some km => Nat.beq km.1 kc.1 && Nat.beq km.2 (xtermMods n) | none => false)
      | none => kc.2.isEmpty) = true := by decide +kernel

set_option maxRecDepth 1000000 in
/-- **DB: control bytes** — for every entry and every byte c < 32: if `[c]` is in the built table it is the Ctrl-letter key
(BS, TAB, CR, ESC unmodified) or a key the description assigns to that byte; if it is not, some defined sequence starts
with c (so the byte is delivered by the timeout path, `NewEventKey` giving the same Ctrl-letter key) -/
theorem db_ctrl_bytes : Gen.dbTables.all (fun p => (List.range 32).all fun c =>
    match lookupRow p.2 [c] with
    | some km => (Nat.beq km.1 c && Nat.beq km.2 (ctrlByteMod c)) || assignedOK p.1 [c] km
    | none => p.2.any fun r => match r.2.1 with | x :: _ => Nat.beq x c | [] => false) = true := by decide +kernel

set_option maxRecDepth 1000000 in
/-- **DB: mouse reports are not shadowed** — on every entry with mouse support no key sequence is comparable with the start
of an SGR or X11 report (hypothesis `mouseClear` of the C12 theorems) -/
theorem db_mouse_clear : Gen.dbTables.all (fun p => !mouseActive p.1 || mouseClear (toTable p.2)) = true := by decide +kernel

set_option maxRecDepth 1000000 in
/-- the generated numerals are the numerals of the generated sequences (so `lookupRow` misses nothing) and no table has
an empty sequence -/
theorem db_rows_wellformed : Gen.dbTables.all (fun p => p.2.all fun r => Nat.beq r.1 (encode257 r.2.1) && !r.2.1.isEmpty) = true := by
  decide +kernel

end Tcell.Props.C03
